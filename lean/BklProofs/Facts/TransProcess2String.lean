/-
  Translation equivalence, process2.go (1): string interpolation — process2String / process2StringInterp, as
  harness/cmd/gotrans writes them from /repo's CURRENT process2.go (Generated/Trans/Process2.lean), against the model's
  `process2String` (Bkl/Process2.lean).

  * depth budget: Go's process2StringInterp fails with ErrCircularRef when `depth > 1000` and evaluates a string
    reference with `depth + 1`; the model's `process2String fuel` fails at fuel 0 and recurses with `fuel - 1`.
    The exact correspondence is  model fuel = `(1001 - depth).toNat`  (for EVERY integer depth).
  * `interpRE.ReplaceAllStringFunc` is `Go.replaceAllInterp` (the model's own segment scanner); the function literal
    is in state-passing style, its state is the captured `err` (`interpClosure`, `replaceSegs_spec`): after the first
    error every later match is replaced by "{ERROR}" and the error is kept, the model's `mapM` stops at the first error:
    the same error class.
  * hypotheses: `ParseOK yamlUnmarshal`, every document of the stream non-nil, documents well-formed (`Val.WF`; needed,
    `wf_needed_go`/`wf_needed_model` in TransProcess2.lean: `get` deep-clones = sorts, `%v` prints in map order), and
    the model does not answer `unmodelled` (⇔ every reference that is REACHED is in the sub-language the model reads;
    needed: `unmodelled_needed_ref`).
  * translator fuel (explicit): `p2sFuel` = two units per interpolation level that is left, plus what `getWithVar'`
    needs: `refFuel` of every reference written in an interpolation string of the string itself, the documents or the
    variables (`strNeed`/`valNeed`: only those can ever be reached) + 2, and the depth of the documents + 3.
  Main theorems: T_process2String_eq, T_process2StringInterp_eq.
-/
import BklProofs.Facts.TransGet
import BklProofs.Facts.TransRepeat
import Generated.Trans.Process2
set_option linter.unusedSimpArgs false
set_option linter.unusedVariables false
namespace Bkl.Gen.Lib
open Bkl Go

theorem isPrefixChars_eq (p s : List Char) : Go.isPrefixChars p s = p.isPrefixOf s := by
  induction p generalizing s with
  | nil => cases s <;> simp [Go.isPrefixChars]
  | cons a p ih => cases s with
    | nil => simp [Go.isPrefixChars]
    | cons b s => simp [Go.isPrefixChars, ih, List.isPrefixOf]

theorem hasPrefix_eq_startsWith (s p : String) : Go.hasPrefix s p = s.startsWith p := by
  unfold Go.hasPrefix
  rw [isPrefixChars_eq]
  cases h : s.startsWith p
  · simp at h; exact Bool.eq_false_iff.2 (fun hh => h (List.isPrefixOf_iff_prefix.1 hh))
  · simp at h; exact List.isPrefixOf_iff_prefix.2 h

theorem interpBody_eq (s : String) : interpBody s =
    if (Go.hasPrefix s "$\"" && Go.hasSuffix s "\"") then some (Go.trimSuffix (Go.trimPrefix s "$\"") "\"").toList else none := by
  have h1 : "$\"".toList = ['$', '"'] := by decide
  have h2 : "\"".toList = ['"'] := by decide
  unfold interpBody Go.hasPrefix Go.hasSuffix Go.trimSuffix Go.trimPrefix Go.hasSuffix
  rw [h1, h2]
  rcases hs : s.toList with _ | ⟨c1, _ | ⟨c2, rest⟩⟩
  · simp [isPrefixChars]
  · simp [isPrefixChars]
  · by_cases hc1 : c1 = '$'
    · by_cases hc2 : c2 = '"'
      · subst hc1; subst hc2
        obtain ⟨rr, hrr⟩ : ∃ rr, rest = rr.reverse := ⟨rest.reverse, by simp⟩
        subst hrr
        cases rr with
        | nil => simp [isPrefixChars]
        | cons c rr =>
          by_cases hc : c = '"'
          · subst hc; simp [isPrefixChars]
          · simp [isPrefixChars, hc]
            exact fun h => hc h.symm
      · simp [isPrefixChars, hc2]
        exact fun _ h => absurd h.symm hc2
    · simp [isPrefixChars, hc1]
      exact fun h => absurd h.symm hc1

theorem trim_braces (cs : List Char) :
    Go.trimSuffix (Go.trimPrefix (String.ofList ('{' :: cs ++ ['}'])) "{") "}" = String.ofList cs := by
  have h1 : "{".toList = ['{'] := by decide
  have h2 : "}".toList = ['}'] := by decide
  unfold Go.trimSuffix Go.trimPrefix Go.hasSuffix
  simp [h1, h2, isPrefixChars]

/-! ## fuel needed by the references of interpolation strings -/

def segsNeed : List Seg → Nat
  | [] => 0
  | .lit _ :: r => segsNeed r
  | .ref cs :: r => max (refFuel (.str (String.ofList cs))) (segsNeed r)

def strNeed (s : String) : Nat :=
  match interpBody s with
  | none => 0
  | some body => segsNeed (interpSegs body)

mutual
def valNeed : Val → Nat
  | .str s => strNeed s
  | .list xs => listNeed xs
  | .map kvs => fieldsNeed kvs
  | _ => 0
def listNeed : List Val → Nat
  | [] => 0
  | x :: xs => max (valNeed x) (listNeed xs)
def fieldsNeed : Fields → Nat
  | [] => 0
  | (_, v) :: r => max (valNeed v) (fieldsNeed r)
end

theorem segsNeed_mem {segs : List Seg} {cs : List Char} (h : Seg.ref cs ∈ segs) :
    refFuel (.str (String.ofList cs)) ≤ segsNeed segs := by
  induction segs with
  | nil => cases h
  | cons x xs ih =>
    rcases List.mem_cons.1 h with rfl | h'
    · simp only [segsNeed]; omega
    · have := ih h'
      cases x <;> simp only [segsNeed] <;> omega

theorem valNeed_le_of_mem_fields {k : String} {v : Val} {kvs : Fields} (h : (k, v) ∈ kvs) :
    valNeed v ≤ fieldsNeed kvs := by
  induction kvs with
  | nil => cases h
  | cons y ys ih =>
    obtain ⟨k', v'⟩ := y
    simp only [fieldsNeed]
    rcases List.mem_cons.mp h with h' | h'
    · cases h'; omega
    · have := ih h'; omega

theorem valNeed_le_of_mem_list {x : Val} {xs : List Val} (h : x ∈ xs) : valNeed x ≤ listNeed xs := by
  induction xs with
  | nil => cases h
  | cons y ys ih =>
    simp only [listNeed]
    rcases List.mem_cons.mp h with rfl | h'
    · omega
    · have := ih h'; omega

theorem join_foldl (a : String) (ps : List String) :
    List.foldl (fun r s => r ++ s) a ps = a ++ String.join ps := by
  unfold String.join
  induction ps generalizing a with
  | nil => simp
  | cons p ps ih => simp only [List.foldl_cons]; rw [ih, ih ("" ++ p)]; simp [String.append_assoc]

theorem join_cons (p : String) (ps : List String) : String.join (p :: ps) = p ++ String.join ps := by
  show List.foldl (fun r s => r ++ s) ("" ++ p) ps = _
  rw [join_foldl]; simp

/-- replaceSegs with a closure whose state is the captured `err` -/
theorem replaceSegs_err (F : String → Option Err → G (String × Option Err))
    (herr : ∀ m e, F m (some e) = .ok ("{ERROR}", some e)) (segs : List Seg) (acc : String) (e : Err) :
    ∃ a, Go.replaceSegs F segs acc (some e) = .ok (a, some e) := by
  induction segs generalizing acc with
  | nil => exact ⟨acc, rfl⟩
  | cons x xs ih =>
    cases x with
    | lit cs => simp only [Go.replaceSegs]; exact ih _
    | ref cs => simp only [Go.replaceSegs, herr]; exact ih _

theorem replaceSegs_spec (F : String → Option Err → G (String × Option Err)) (g : Seg → R String)
    (hlit : ∀ cs, g (.lit cs) = .ok (String.ofList cs))
    (herr : ∀ m e, F m (some e) = .ok ("{ERROR}", some e)) (segs : List Seg)
    (hF : ∀ cs, Seg.ref cs ∈ segs → g (.ref cs) ≠ .error Err.unmodelled →
      F (String.ofList ('{' :: cs ++ ['}'])) none = .ok (match g (.ref cs) with
        | .ok t => (t, none)
        | .error e => ("{ERROR}", some e)))
    (hmod : segs.mapM g ≠ .error Err.unmodelled) (acc : String) :
    match segs.mapM g with
    | .ok parts => Go.replaceSegs F segs acc none = .ok (acc ++ String.join parts, none)
    | .error e => ∃ a, Go.replaceSegs F segs acc none = .ok (a, some e) := by
  induction segs generalizing acc with
  | nil => simp [Go.replaceSegs, String.join, pure, Except.pure]
  | cons x xs ih =>
    rw [List.mapM_cons] at hmod ⊢
    cases x with
    | lit cs =>
      simp only [hlit, ok_bind'] at hmod ⊢
      have ih' := ih (fun cs h => hF cs (List.mem_cons_of_mem _ h))
        (by intro h; apply hmod; rw [h]; rfl) (acc ++ String.ofList cs)
      cases hm : xs.mapM g with
      | error e => rw [hm] at ih'; simpa [Go.replaceSegs, bind, Except.bind] using ih'
      | ok parts =>
        rw [hm] at ih'
        simp only [Go.replaceSegs, bind, Except.bind, pure, Except.pure, ih', join_cons, String.append_assoc]
    | ref cs =>
      cases hg : g (.ref cs) with
      | error e =>
        have hne : g (.ref cs) ≠ .error Err.unmodelled := by
          intro h; apply hmod; rw [h]; rfl
        have := hF cs List.mem_cons_self hne
        rw [hg] at this
        simp only [Go.replaceSegs, this, error_bind']
        exact replaceSegs_err F herr xs _ e
      | ok t =>
        have hne : g (.ref cs) ≠ .error Err.unmodelled := by rw [hg]; intro h; cases h
        have := hF cs List.mem_cons_self hne
        rw [hg] at this hmod
        simp only [ok_bind'] at hmod ⊢
        have ih' := ih (fun cs h => hF cs (List.mem_cons_of_mem _ h))
          (by intro h; apply hmod; rw [h]; rfl) (acc ++ t)
        cases hm : xs.mapM g with
        | error e =>
          rw [hm] at ih'
          simp only [Go.replaceSegs, this, bind, Except.bind]
          exact ih'
        | ok parts =>
          rw [hm] at ih'
          simp only [Go.replaceSegs, this, bind, Except.bind, pure, Except.pure, ih', join_cons, String.append_assoc]

/-! ## the model's `process2String`, unfolded -/

theorem process2String_noninterp (n : Nat) (docs : List Val) (root : Val) (ec : Vars) (s : String)
    (hb : interpBody s = none) :
    process2String n docs root ec s =
      if s.startsWith "$env:" || s == "$repeat" then getVar ec s else .ok (.str s) := by
  cases n <;> (rw [process2String.eq_def]; simp only [hb]; rfl)

theorem process2String_zero (docs : List Val) (root : Val) (ec : Vars) (s : String) (body : List Char)
    (hb : interpBody s = some body) : process2String 0 docs root ec s = .error Err.circularRef := by
  rw [process2String.eq_def]; simp only [hb]; rfl

/-- `process2String` on `$"…"` is `interpSpec` on the scanned body (as in BklProofs/Lemmas/C12Subst.lean) -/
theorem process2String_succ (fuel : Nat) (docs : List Val) (root : Val) (ec : Vars) (s : String)
    (body : List Char) (hb : interpBody s = some body) :
    process2String (fuel + 1) docs root ec s = interpSpec fuel docs root ec (interpSegs body) := by
  rw [process2String.eq_1]
  simp only [hb, interpSpec]
  have key : ∀ (f : Seg → R String), (∀ seg, f seg = interpSeg fuel docs root ec seg) →
      (do let parts ← List.mapM f (interpSegs body); pure (Val.str (String.join parts)))
        = (match List.mapM (interpSeg fuel docs root ec) (interpSegs body) with
          | .error e => .error e
          | .ok parts => .ok (.str (String.join parts)) : R Val) := by
    intro f hf
    have : f = interpSeg fuel docs root ec := funext hf
    subst this
    cases List.mapM (interpSeg fuel docs root ec) (interpSegs body) <;> rfl
  apply key
  intro seg
  cases seg with
  | lit cs => rfl
  | ref cs =>
    simp only [interpSeg]
    cases getWithVar root docs ec (String.ofList cs) with
    | error e => rfl
    | ok v =>
      cases v <;> try rfl
      simp only [ok_bind']
      cases process2String fuel docs root ec _ <;> rfl

theorem getWithVar_unmodelled_iff (root : Val) (docs : List Val) (ec : Vars) (m : String) :
    getWithVar root docs ec m = .error Err.unmodelled ↔ parseRef m = none := by
  unfold getWithVar
  rw [← getPathFromString_unmodelled_iff root docs m, ← get.eq_1]
  cases hg : get root docs (.str m) with
  | ok v => simp [pure, Except.pure]
  | error e =>
    cases e <;> simp [getVar, throw, throwThe, MonadExceptOf.throw, pure, Except.pure] <;>
      (cases fget ec m <;> simp [throw, throwThe, MonadExceptOf.throw, pure, Except.pure])

/-! ## process2String / process2StringInterp -/

/-- what `getWithVar'` needs below an interpolation level: the references written in any interpolation string of the
    documents / the variables (at most `B` units for `getRef'`), and the depth of the documents (`deepClone`) -/
def getNeed (B : Nat) (mf : Go.Doc) (docs : List Go.Doc) : Nat :=
  max (B + 2) (Go.depthList (mf.data :: docs.map (·.data)) + 3)

theorem getWithVar_need (root : Val) (docs : List Val) (ec : Vars) (B : Nat)
    (hroot : valNeed root ≤ B) (hdocs : listNeed docs ≤ B) (hvars : fieldsNeed ec ≤ B)
    (m : String) (v : Val) (h : getWithVar root docs ec m = .ok v) : valNeed v ≤ B := by
  unfold getWithVar at h
  cases hg : get root docs (.str m) with
  | ok w =>
    rw [hg] at h
    simp only [pure, Except.pure, Except.ok.injEq] at h
    subst h
    refine get_closed (fun v => valNeed v ≤ B) ?_ docs ?_ root (.str m) w hroot hg
    · intro kvs k v hm hk
      have := valNeed_le_of_mem_fields (fget_mem hk)
      simp only [valNeed] at hm; omega
    · intro d hd; have := valNeed_le_of_mem_list hd; omega
  | error e =>
    rw [hg] at h
    have hv : getVar ec m = .ok v := by
      cases e <;> first | exact h | (simp [throw, throwThe, MonadExceptOf.throw] at h)
    unfold getVar at hv
    cases hf : fget ec m with
    | none => simp [hf, throw, throwThe, MonadExceptOf.throw] at hv
    | some w =>
      simp only [hf, pure, Except.pure, Except.ok.injEq] at hv
      subst hv
      have := valNeed_le_of_mem_fields (fget_mem hf); omega

/-- the function literal that process2StringInterp hands to `interpRE.ReplaceAllStringFunc`; its state is the captured
    variable `err` -/
def interpClosure (yu : String → Val × Option Err) (f : Nat) (mf : Go.Doc) (docs : List Go.Doc) (ec : Go.Ctx)
    (depth : Int) : String → Option Err → G (String × Option Err) :=
  fun m err =>
    if err != none then .ok ("{ERROR}", err)
    else
      match getWithVar' yu f mf docs ec (.str (Go.trimSuffix (Go.trimPrefix m "{") "}")) with
      | .error e => .error e
      | .ok (v, err) =>
        if err != none then .ok ("{ERROR}", err)
        else if (Go.asStr v).2 then
          match process2String' yu f (Go.asStr v).1 mf docs ec (depth + 1) with
          | .error e => .error e
          | .ok (v, err) => if err != none then .ok ("{ERROR}", err) else .ok (fmtV v, err)
        else .ok (fmtV v, err)

theorem process2StringInterp_unfold (yu : String → Val × Option Err) (f : Nat) (s : String) (mf : Go.Doc)
    (docs : List Go.Doc) (ec : Go.Ctx) (depth : Int) :
    process2StringInterp' yu (f + 1) s mf docs ec depth =
      if decide (depth > (1000 : Int)) then .ok (Val.null, some Err.circularRef)
      else
        match Go.replaceSegs (interpClosure yu f mf docs ec depth)
            (interpSegs (Go.trimSuffix (Go.trimPrefix s "$\"") "\"").toList) "" none with
        | .error e => .error e
        | .ok (r, err) => if err != none then .ok (Val.null, err) else .ok (Val.str r, none) := by
  unfold process2StringInterp' interpClosure Go.replaceAllInterp
  simp only []
  split
  · rfl
  · have : ∀ F F' : String → Option Err → G (String × Option Err), F = F' → ∀ segs,
      (match replaceSegs F segs "" none with
      | Except.error e__ => (Except.error e__ : G (Val × Option Err))
      | Except.ok (r__6, err) =>
        if (err == none) = true then Except.ok (Val.str r__6, none) else Except.ok (Val.null, err)) =
      (match replaceSegs F' segs "" none with
      | Except.error e__ => (Except.error e__ : G (Val × Option Err))
      | Except.ok (r__6, err) =>
        if (err != none) = true then Except.ok (Val.null, err) else Except.ok (Val.str r__6, none)) := by
      intro F F' h segs; subst h
      cases replaceSegs F segs "" none with
      | error e => rfl
      | ok p => obtain ⟨r, e⟩ := p; cases e <;> rfl
    generalize interpSegs (trimSuffix (trimPrefix s "$\"") "\"").toList = segs
    refine this _ _ ?_ segs
    funext m err
    cases err with
    | some e0 => rfl
    | none =>
      simp only [beq_self_eq_true, bne_self_eq_false, Bool.false_eq_true, if_true, if_false]
      cases getWithVar' yu f mf docs ec (Val.str (trimSuffix (trimPrefix m "{") "}")) with
      | error e => rfl
      | ok p =>
        obtain ⟨v, e⟩ := p
        simp only []
        cases e with
        | some e1 => rfl
        | none =>
          simp only [beq_self_eq_true, bne_self_eq_false, Bool.false_eq_true, if_true, if_false]
          split
          · cases process2String' yu f (asStr v).fst mf docs ec (depth + 1) with
            | error e => rfl
            | ok p => obtain ⟨w, e2⟩ := p; cases e2 <;> rfl
          · rfl

theorem process2String_unfold (yu : String → Val × Option Err) (f : Nat) (s : String) (mf : Go.Doc)
    (docs : List Go.Doc) (ec : Go.Ctx) (depth : Int) :
    process2String' yu (f + 1) s mf docs ec depth =
      match interpBody s with
      | some _ => process2StringInterp' yu f s mf docs ec depth
      | none => .ok (if s.startsWith "$env:" || s == "$repeat" then valRes (getVar ec.vars s) else (Val.str s, none)) := by
  unfold process2String'
  have hib := interpBody_eq s
  cases hb : interpBody s with
  | none =>
    rw [hb] at hib
    have hc : (Go.hasPrefix s "$\"" && Go.hasSuffix s "\"") = false := by
      cases hcc : (Go.hasPrefix s "$\"" && Go.hasSuffix s "\"") <;> simp [hcc] at hib ⊢
    simp only [hc, Bool.false_eq_true, if_false]
    simp only [hasPrefix_eq_startsWith, EvalContext_GetVar_eq]
    by_cases h2 : (s.startsWith "$env:" || s == "$repeat") = true <;> simp [h2]
  | some body =>
    rw [hb] at hib
    have hc : (Go.hasPrefix s "$\"" && Go.hasSuffix s "\"") = true := by
      cases hcc : (Go.hasPrefix s "$\"" && Go.hasSuffix s "\"") <;> simp [hcc] at hib ⊢
    simp only [hc, if_true]
    cases process2StringInterp' yu f s mf docs ec depth with
    | error e => rfl
    | ok p => rfl

theorem interpBody_trim (s : String) (body : List Char) (hb : interpBody s = some body) :
    (Go.trimSuffix (Go.trimPrefix s "$\"") "\"").toList = body := by
  have := interpBody_eq s
  rw [hb] at this
  cases hcc : (Go.hasPrefix s "$\"" && Go.hasSuffix s "\"") <;> simp [hcc] at this
  exact this.symm

/-- one `{ref}` of an interpolation string, given the translated process2String one level down -/
theorem interpClosure_ref (yu : String → Val × Option Err) (hyu : ParseOK yu)
    (mf : Go.Doc) (docs : List Go.Doc) (ec : Go.Ctx) (hnil : ∀ d ∈ docs, d.isNil = false)
    (hwf : Val.WF mf.data) (hwfs : ∀ d ∈ docs, Val.WF d.data) (n : Nat) (depth : Int) (f : Nat) (cs : List Char)
    (hf1 : refFuel (.str (String.ofList cs)) + 2 ≤ f)
    (hf2 : Go.depthList (mf.data :: docs.map (·.data)) + 3 ≤ f)
    (hrec : ∀ s2, getWithVar mf.data (docs.map (·.data)) ec.vars (String.ofList cs) = .ok (.str s2) →
      process2String n (docs.map (·.data)) mf.data ec.vars s2 ≠ .error Err.unmodelled →
      process2String' yu f s2 mf docs ec (depth + 1) =
        .ok (valRes (process2String n (docs.map (·.data)) mf.data ec.vars s2)))
    (hg : interpSeg n (docs.map (·.data)) mf.data ec.vars (.ref cs) ≠ .error Err.unmodelled) :
    interpClosure yu f mf docs ec depth (String.ofList ('{' :: cs ++ ['}'])) none =
      .ok (match interpSeg n (docs.map (·.data)) mf.data ec.vars (.ref cs) with
        | .ok t => (t, none)
        | .error e => ("{ERROR}", some e)) := by
  unfold interpClosure
  simp only [bne_self_eq_false, Bool.false_eq_true, if_false, trim_braces]
  have hgv : getWithVar mf.data (docs.map (·.data)) ec.vars (String.ofList cs) ≠ .error Err.unmodelled := by
    intro h; apply hg; simp only [interpSeg, h]
  have hpr : parseRef (String.ofList cs) ≠ none := by
    intro h; exact hgv ((getWithVar_unmodelled_iff _ _ _ _).2 h)
  rw [T_getWithVar_eq yu hyu mf docs ec _ hnil hwf hwfs hpr f hf1 hf2]
  cases hgw : getWithVar mf.data (docs.map (·.data)) ec.vars (String.ofList cs) with
  | error e => simp [interpSeg, hgw]
  | ok v =>
    by_cases hv : ∃ s2, v = .str s2
    · obtain ⟨s2, rfl⟩ := hv
      have hm2 : process2String n (docs.map (·.data)) mf.data ec.vars s2 ≠ .error Err.unmodelled := by
        intro h; apply hg; simp only [interpSeg, hgw, h]
      have := hrec s2 hgw hm2
      simp only [valRes_ok, Go.asStr, this, interpSeg, hgw]
      cases process2String n (docs.map (·.data)) mf.data ec.vars s2 <;> simp
    · have : (Go.asStr v).2 = false := by
        cases v <;> first | rfl | exact absurd ⟨_, rfl⟩ hv
      have h2 : interpSeg n (docs.map (·.data)) mf.data ec.vars (.ref cs) = .ok (fmtV v) := by
        simp only [interpSeg, hgw]
        cases v <;> first | rfl | exact absurd ⟨_, rfl⟩ hv
      simp [this, h2]

theorem process2String_aux (yu : String → Val × Option Err) (hyu : ParseOK yu)
    (mf : Go.Doc) (docs : List Go.Doc) (ec : Go.Ctx) (hnil : ∀ d ∈ docs, d.isNil = false)
    (hwf : Val.WF mf.data) (hwfs : ∀ d ∈ docs, Val.WF d.data) (B : Nat)
    (hroot : valNeed mf.data ≤ B) (hdocs : listNeed (docs.map (·.data)) ≤ B) (hvars : fieldsNeed ec.vars ≤ B) :
    ∀ (n : Nat) (s : String) (depth : Int) (fuel : Nat), (1001 - depth).toNat = n → strNeed s ≤ B →
      2 * n + getNeed B mf docs + 2 ≤ fuel →
      process2String n (docs.map (·.data)) mf.data ec.vars s ≠ .error Err.unmodelled →
      process2String' yu fuel s mf docs ec depth =
        .ok (valRes (process2String n (docs.map (·.data)) mf.data ec.vars s)) ∧
      (∀ f, fuel = f + 1 → ∀ body, interpBody s = some body →
        process2StringInterp' yu f s mf docs ec depth =
          .ok (valRes (process2String n (docs.map (·.data)) mf.data ec.vars s))) := by
  intro n
  induction n with
  | zero =>
    intro s depth fuel hn hs hf hmod
    obtain ⟨f, rfl⟩ : ∃ f, fuel = f + 1 := ⟨fuel - 1, by omega⟩
    obtain ⟨f', rfl⟩ : ∃ f', f = f' + 1 := ⟨f - 1, by omega⟩
    have hI : ∀ body, interpBody s = some body → process2StringInterp' yu (f' + 1) s mf docs ec depth =
          .ok (valRes (process2String 0 (docs.map (·.data)) mf.data ec.vars s)) := by
      intro body hb
      have hd : depth > 1000 := by omega
      rw [process2String_zero _ _ _ _ _ hb, process2StringInterp_unfold]
      simp [hd]
    refine ⟨?_, fun f2 h2 body hb => by cases h2; exact hI body hb⟩
    rw [process2String_unfold]
    cases hb : interpBody s with
    | none => simp only [process2String_noninterp _ _ _ _ _ hb]; split <;> rfl
    | some body => exact hI body hb
  | succ n ih =>
    intro s depth fuel hn hs hf hmod
    obtain ⟨f, rfl⟩ : ∃ f, fuel = f + 1 := ⟨fuel - 1, by omega⟩
    obtain ⟨f', rfl⟩ : ∃ f', f = f' + 1 := ⟨f - 1, by omega⟩
    have hI : ∀ body, interpBody s = some body → process2StringInterp' yu (f' + 1) s mf docs ec depth =
          .ok (valRes (process2String (n + 1) (docs.map (·.data)) mf.data ec.vars s)) := by
      intro body hb
      have hd : ¬ depth > 1000 := by omega
      rw [process2String_succ _ _ _ _ _ _ hb] at hmod ⊢
      rw [process2StringInterp_unfold]
      simp only [hd, decide_false, Bool.false_eq_true, if_false, interpBody_trim s body hb]
      have hsn : segsNeed (interpSegs body) ≤ B := by simpa [strNeed, hb] using hs
      have hspec := replaceSegs_spec (interpClosure yu f' mf docs ec depth)
        (interpSeg n (docs.map (·.data)) mf.data ec.vars) (fun cs => rfl)
        (fun m e => by simp [interpClosure]) (interpSegs body)
        (fun cs hcs hg => interpClosure_ref yu hyu mf docs ec hnil hwf hwfs n depth f' cs
          (by have := segsNeed_mem hcs; unfold getNeed at hf; omega) (by unfold getNeed at hf; omega)
          (fun s2 hgw hm2 => (ih s2 (depth + 1) f' (by omega)
            (by have := getWithVar_need _ _ _ B hroot hdocs hvars _ _ hgw; simpa [valNeed] using this)
            (by omega) hm2).1) hg)
        (by intro h; apply hmod; unfold interpSpec; rw [h]) ""
      unfold interpSpec
      cases hm : List.mapM (interpSeg n (docs.map (·.data)) mf.data ec.vars) (interpSegs body) with
      | error e =>
        rw [hm] at hspec
        obtain ⟨a, ha⟩ := hspec
        rw [ha]; simp
      | ok parts =>
        rw [hm] at hspec
        rw [hspec]; simp
    refine ⟨?_, fun f2 h2 body hb => by cases h2; exact hI body hb⟩
    rw [process2String_unfold]
    cases hb : interpBody s with
    | none => simp only [process2String_noninterp _ _ _ _ _ hb]; split <;> rfl
    | some body => exact hI body hb

/-- the `getRef'` fuel of every reference written in an interpolation string of the string, the documents or the
    variables -/
def refNeed (mf : Go.Doc) (docs : List Go.Doc) (ec : Go.Ctx) (s : String) : Nat :=
  max (strNeed s) (max (valNeed mf.data) (max (listNeed (docs.map (·.data))) (fieldsNeed ec.vars)))

/-- translator fuel for process2String at Go depth `depth`: two units per interpolation level that is left
    (`1001 - depth`), and what `getWithVar'` needs below the last one -/
def p2sFuel (mf : Go.Doc) (docs : List Go.Doc) (ec : Go.Ctx) (s : String) (depth : Int) : Nat :=
  2 * (1001 - depth).toNat + getNeed (refNeed mf docs ec s) mf docs + 2

/-- process2.go:process2String at Go depth `depth` is the model's `process2String` with fuel `1001 - depth`
    (the levels of interpolation that are left: process2StringInterp fails when `depth > 1000` and passes `depth + 1`),
    on well-formed documents, wherever the model does not answer `unmodelled` (= every reference that is reached is in
    the sub-language the model reads) -/
theorem T_process2String_eq (yu : String → Val × Option Err) (hyu : ParseOK yu)
    (mf : Go.Doc) (docs : List Go.Doc) (ec : Go.Ctx) (hnil : ∀ d ∈ docs, d.isNil = false)
    (hwf : Val.WF mf.data) (hwfs : ∀ d ∈ docs, Val.WF d.data) (s : String) (depth : Int) (fuel : Nat)
    (hf : p2sFuel mf docs ec s depth ≤ fuel)
    (hmod : process2String (1001 - depth).toNat (docs.map (·.data)) mf.data ec.vars s ≠ .error Err.unmodelled) :
    process2String' yu fuel s mf docs ec depth =
      .ok (valRes (process2String (1001 - depth).toNat (docs.map (·.data)) mf.data ec.vars s)) := by
  unfold p2sFuel refNeed at hf
  exact (process2String_aux yu hyu mf docs ec hnil hwf hwfs _ (by omega) (by omega) (by omega)
    _ s depth fuel rfl (by omega) hf hmod).1

/-- process2.go:process2StringInterp on a string of the form `$"…"` (the only ones process2String hands to it) -/
theorem T_process2StringInterp_eq (yu : String → Val × Option Err) (hyu : ParseOK yu)
    (mf : Go.Doc) (docs : List Go.Doc) (ec : Go.Ctx) (hnil : ∀ d ∈ docs, d.isNil = false)
    (hwf : Val.WF mf.data) (hwfs : ∀ d ∈ docs, Val.WF d.data) (s : String) (depth : Int) (fuel : Nat)
    (hs : interpBody s ≠ none)
    (hf : p2sFuel mf docs ec s depth ≤ fuel + 1)
    (hmod : process2String (1001 - depth).toNat (docs.map (·.data)) mf.data ec.vars s ≠ .error Err.unmodelled) :
    process2StringInterp' yu fuel s mf docs ec depth =
      .ok (valRes (process2String (1001 - depth).toNat (docs.map (·.data)) mf.data ec.vars s)) := by
  unfold p2sFuel refNeed at hf
  cases hb : interpBody s with
  | none => exact absurd hb hs
  | some body =>
    exact (process2String_aux yu hyu mf docs ec hnil hwf hwfs _ (by omega) (by omega) (by omega)
      _ s depth (fuel + 1) rfl (by omega) hf hmod).2 fuel rfl body hb


end Bkl.Gen.Lib
