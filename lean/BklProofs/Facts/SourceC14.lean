/-
  Source-level laws (C14): property theorems of the model composed with the translation-equivalence theorems, i.e. stated
  directly about the Lean functions generated from the CURRENT Go source (Generated/Trans).  Corollaries only.
-/
import BklProofs.C14
import BklProofs.Facts.TransEncode2
namespace Bkl.Gen
open Bkl Go

/-! # C14 — `$encode`, on `process2EncodeString'` / `process2EncodeAny'`

  `ms` = Format.MarshalStream and `gf` = bkl.GetFormat are the two third-party parameters of the translated functions;
  `GetFormatSpec gf` ties `gf`'s error to the model's list of codec names (nothing is assumed of `ms`). -/

/-- a model error of `encodeString` is returned by the translated function as `(nil, that error)` — literally, unless
    the spec is a two-part `tolist:<d>` (whose failing result is an empty `[]any` next to the error) -/
theorem encodeString_err_to_source (ms : Go.Opaque → List Val → String × Option Err)
    (gf : String → Go.Opaque × Option Err) (hGF : Lib.GetFormatSpec gf)
    (fuel : Nat) (obj : Val) (mf : Go.Doc) (mfd : List Go.Doc) (spec : String) (depth : Int) (hf : 4 ≤ fuel)
    (e : Err) (h : encodeString obj spec = .err e)
    (hp : (spec.splitOn ":").headD "" ≠ "tolist" ∨ (spec.splitOn ":").length ≠ 2) :
    Lib.process2EncodeString' ms gf fuel obj mf mfd spec depth = .ok (.null, some e) := by
  rw [Lib.T_process2EncodeString_exact ms gf hGF fuel obj mf mfd spec depth hf, h]
  have he : Lib.encResToGo ms gf (.err e) = (.null, some e) := rfl
  rw [he]
  unfold Lib.tolistFix
  split
  · rename_i hc
    rcases hp with hp | hp
    · exact absurd hc.1 hp
    · exact absurd hc.2.1 hp
  · rfl

/-- commands that take no argument reject any (`C14_bad_args_noarg`): the translated function returns
    `(nil, ErrInvalidArguments)`, for every argument text `x` -/
theorem S_C14_bad_args_noarg (ms : Go.Opaque → List Val → String × Option Err)
    (gf : String → Go.Opaque × Option Err) (hGF : Lib.GetFormatSpec gf)
    (fuel : Nat) (obj : Val) (mf : Go.Doc) (mfd : List Go.Doc) (depth : Int) (hf : 4 ≤ fuel) (x : String) :
    Lib.process2EncodeString' ms gf fuel obj mf mfd ("base64:" ++ x) depth = .ok (.null, some Err.invalidArguments) ∧
    Lib.process2EncodeString' ms gf fuel obj mf mfd ("sha256:" ++ x) depth = .ok (.null, some Err.invalidArguments) ∧
    Lib.process2EncodeString' ms gf fuel obj mf mfd ("flatten:" ++ x) depth = .ok (.null, some Err.invalidArguments) ∧
    Lib.process2EncodeString' ms gf fuel obj mf mfd ("values:" ++ x) depth = .ok (.null, some Err.invalidArguments) ∧
    Lib.process2EncodeString' ms gf fuel obj mf mfd ("flags:" ++ x) depth = .ok (.null, some Err.invalidArguments) := by
  have g := C14_bad_args_noarg obj x
  have key : ∀ cmd : String, ':' ∉ cmd.toList → cmd ≠ "tolist" →
      encodeString obj (cmd ++ ":" ++ x) = .err .invalidArguments →
      Lib.process2EncodeString' ms gf fuel obj mf mfd (cmd ++ ":" ++ x) depth
        = .ok (.null, some Err.invalidArguments) := by
    intro cmd hc hne he
    refine encodeString_err_to_source ms gf hGF fuel obj mf mfd _ depth hf _ he (.inl ?_)
    obtain ⟨p, ps, hps⟩ := parts_with_arg cmd x hc
    rw [hps]
    exact hne
  refine ⟨?_, ?_, ?_, ?_, ?_⟩
  · simpa using key "base64" (by decide) (by decide) (by simpa using g.1)
  · simpa using key "sha256" (by decide) (by decide) (by simpa using g.2.1)
  · simpa using key "flatten" (by decide) (by decide) (by simpa using g.2.2.1)
  · simpa using key "values" (by decide) (by decide) (by simpa using g.2.2.2.1)
  · simpa using key "flags" (by decide) (by decide) (by simpa using g.2.2.2.2)

/-- the enumerated malformed specs (`C14_bad_args_error`): a wrong number of arguments is `(nil, ErrInvalidArguments)`,
    an unknown command `(nil, ErrUnknownFormat)` — on the translated function -/
theorem S_C14_bad_args_error (ms : Go.Opaque → List Val → String × Option Err)
    (gf : String → Go.Opaque × Option Err) (hGF : Lib.GetFormatSpec gf)
    (fuel : Nat) (obj : Val) (mf : Go.Doc) (mfd : List Go.Doc) (depth : Int) (hf : 4 ≤ fuel) :
    Lib.process2EncodeString' ms gf fuel obj mf mfd "base64:x" depth = .ok (.null, some Err.invalidArguments) ∧
    Lib.process2EncodeString' ms gf fuel obj mf mfd "sha256:1" depth = .ok (.null, some Err.invalidArguments) ∧
    Lib.process2EncodeString' ms gf fuel obj mf mfd "flatten:x" depth = .ok (.null, some Err.invalidArguments) ∧
    Lib.process2EncodeString' ms gf fuel obj mf mfd "values:x" depth = .ok (.null, some Err.invalidArguments) ∧
    Lib.process2EncodeString' ms gf fuel obj mf mfd "flags:x" depth = .ok (.null, some Err.invalidArguments) ∧
    Lib.process2EncodeString' ms gf fuel obj mf mfd "prefix" depth = .ok (.null, some Err.invalidArguments) ∧
    Lib.process2EncodeString' ms gf fuel obj mf mfd "tolist" depth = .ok (.null, some Err.invalidArguments) ∧
    Lib.process2EncodeString' ms gf fuel obj mf mfd "join:a:b" depth = .ok (.null, some Err.invalidArguments) ∧
    Lib.process2EncodeString' ms gf fuel obj mf mfd "tolist::" depth = .ok (.null, some Err.invalidArguments) ∧
    Lib.process2EncodeString' ms gf fuel obj mf mfd "nosuch" depth = .ok (.null, some Err.unknownFormat) := by
  have g1 := S_C14_bad_args_noarg ms gf hGF fuel obj mf mfd depth hf "x"
  have g2 := S_C14_bad_args_noarg ms gf hGF fuel obj mf mfd depth hf "1"
  have m := C14_bad_args_error obj
  refine ⟨by simpa using g1.1, by simpa using g2.2.1, by simpa using g1.2.2.1, by simpa using g1.2.2.2.1,
    by simpa using g1.2.2.2.2, ?_, ?_, ?_, ?_, ?_⟩
  · exact encodeString_err_to_source ms gf hGF fuel obj mf mfd _ depth hf _ m.2.2.2.2.2.1
      (.inl (by rw [parts_prefix]; decide))
  · exact encodeString_err_to_source ms gf hGF fuel obj mf mfd _ depth hf _ m.2.2.2.2.2.2.1
      (.inr (by rw [parts_tolist]; decide))
  · exact encodeString_err_to_source ms gf hGF fuel obj mf mfd _ depth hf _ m.2.2.2.2.2.2.2.1
      (.inl (by rw [parts_join_ab]; decide))
  · exact encodeString_err_to_source ms gf hGF fuel obj mf mfd _ depth hf _ m.2.2.2.2.2.2.2.2.1
      (.inr (by rw [parts_tolist_colon]; decide))
  · exact encodeString_err_to_source ms gf hGF fuel obj mf mfd _ depth hf _ m.2.2.2.2.2.2.2.2.2
      (.inl (by rw [parts_nosuch]; decide))

example : Lib.GetFormatSpec Lib.gfModel := fun _ => rfl

/-- `flags` never ends in a codec -/
theorem encodeString_flags_noCodec (obj : Val) (f : String) (v : Val) : encodeString obj "flags" ≠ .codec f v := by
  rw [encodeString_flags]
  split <;> (intro h; cases h)

/-- `flags` IS `tolist:=` then `prefix:--` (`C14_flags_def`), on the translated sources: process2EncodeString on the
    spec `"flags"` returns exactly what process2EncodeAny returns on the spec list `["tolist:=", "prefix:--"]`
    (both are the model's `encodeAny obj ["tolist:=", "prefix:--"]` read as a Go pair) -/
theorem S_C14_flags_def (ms : Go.Opaque → List Val → String × Option Err)
    (gf : String → Go.Opaque × Option Err) (hGF : Lib.GetFormatSpec gf)
    (fuel fuel' : Nat) (obj : Val) (mf : Go.Doc) (mfd : List Go.Doc) (depth depth' : Int)
    (hf : 4 ≤ fuel) (hf' : 6 ≤ fuel') :
    Lib.process2EncodeString' ms gf fuel obj mf mfd "flags" depth
      = Lib.process2EncodeAny' ms gf fuel' obj mf mfd (.list [.str "tolist:=", .str "prefix:--"]) depth' ∧
    Lib.process2EncodeString' ms gf fuel obj mf mfd "flags" depth
      = .ok (Lib.encResToGo ms gf (encodeAny obj (.list [.str "tolist:=", .str "prefix:--"]))) := by
  have h1 : Lib.process2EncodeString' ms gf fuel obj mf mfd "flags" depth
      = .ok (Lib.encResToGo ms gf (encodeAny obj (.list [.str "tolist:=", .str "prefix:--"]))) := by
    rw [Lib.T_process2EncodeString_exact ms gf hGF fuel obj mf mfd "flags" depth hf, parts_flags, C14_flags_def]
    simp [Lib.tolistFix]
  refine ⟨?_, h1⟩
  rw [h1, Lib.T_process2EncodeAny_list_eq ms gf hGF fuel' obj mf mfd _ depth' (by simpa [Go.depth, Go.depthList] using hf'),
    Lib.encodeAnyWith_of_noCodec ms gf _ obj (by
      intro f v; rw [← C14_flags_def]; exact encodeString_flags_noCodec obj f v)]

/-- `base64` on the translated function, and the round trip (`C14_base64_rt_string`): the result is the string
    `base64 (fmtV obj)` (`fmtV` = Go's `%v`; for a string, the string itself), and decoding it gives back the UTF-8
    bytes of the input -/
theorem S_C14_base64_rt (ms : Go.Opaque → List Val → String × Option Err)
    (gf : String → Go.Opaque × Option Err) (hGF : Lib.GetFormatSpec gf)
    (fuel : Nat) (obj : Val) (mf : Go.Doc) (mfd : List Go.Doc) (depth : Int) (hf : 4 ≤ fuel) :
    ∃ out, Lib.process2EncodeString' ms gf fuel obj mf mfd "base64" depth = .ok (.str out, none) ∧
      b64DecodeChars out.toList = some (fmtV obj).toUTF8.toList ∧
      (∀ s, obj = .str s → b64DecodeChars out.toList = some s.toUTF8.toList) := by
  refine ⟨base64 (fmtV obj), ?_, C14_base64_rt_string _, ?_⟩
  · rw [Lib.T_process2EncodeString_exact ms gf hGF fuel obj mf mfd "base64" depth hf, parts_base64]
    have : encodeString obj "base64" = .ok (.str (base64 (fmtV obj))) := by
      unfold encodeString; rw [parts_base64]; rfl
    rw [this]
    simp [Lib.tolistFix, Lib.encResToGo]
  · rintro s rfl
    exact C14_base64_rt_string s

/-- non-vacuity: `flags` on the translated function with concrete codecs -/
example : Lib.process2EncodeString' Lib.msName Lib.gfModel 4 (.map [("a", .int 1), ("v", .str "")]) default [] "flags" 0
    = .ok (.list [.str "--a=1", .str "--v"], none) := by
  rw [(S_C14_flags_def Lib.msName Lib.gfModel (fun _ => rfl) 4 6 _ default [] 0 0 (by decide) (by decide)).2,
    ← C14_flags_def]
  have : encodeString (.map [("a", .int 1), ("v", .str "")]) "flags" = .ok (.list [.str "--a=1", .str "--v"]) := by
    rw [encodeString_flags]; decide
  rw [this]; rfl


end Bkl.Gen
