/-
  Translation equivalence, output.go (filterOutput / filterOutputMap / filterOutputList): the Lean definitions that
  harness/cmd/gotrans writes from /repo's CURRENT output.go (Generated/Trans/Output.lean, regenerated on every run)
  compute the model's `filterOutput` / `filterOutputFields` / `filterOutputList` (Bkl/Output.lean).

  The generated functions call the higher-order helpers `filterList'` / `filterMap'` and `popListMapBoolValue'` of
  Generated/Trans/Filter.lean; what is needed about them is proved here as local lemmas (`O_T_filterList_spec`,
  `O_T_filterMap_spec`, `O_T_popListMapBoolValue_eq`; every local name about the Filter unit starts with `O_`).
  Function literals are translated in state-passing style (`filter v st` returns its results and the new state of the
  enclosing function's variables that the literal assigns); the literals of output.go and of popListMapBoolValue
  assign none, so their state is `Unit`.  `O_T_filterList_specS` / `O_T_filterMap_specS` are the lemmas for an
  arbitrary state, `O_T_filterList_spec` / `O_T_filterMap_spec` their `Unit` specialisations.

  Differences between the Go code and the model that the theorems bridge:
  * Go returns `nil` for "hidden", the model `none` (and a `nil` VALUE is hidden in the model too): `r.getD .null`;
    Go tests `v2 == nil` on the recursive result: `filterOutput` never answers `some nil` (`filterOutput_ne_null`);
  * the value that Go returns NEXT TO a non-nil error depends on where the error is detected (`nil`, or the empty
    container of the failing `filterList` / `filterMap`): `filterOutputErrVal`;
  * the model tests `hasListMapBool` first and calls `popListMapBool` only for its error, Go calls
    popListMapBoolValue and looks at its `output` result: these agree (`O_T_popListMapBoolValue_eq` + `O_popListMapBool_fst`);
  * Go's filterMap rebuilds the map with `ret[k] = v` (`fset` into a key-sorted association list), the model keeps
    the entries in input order: equal for well-formed input (`Val.WF v`), NOT equal otherwise
    (`filterOutput_eq_needs_WF…`).  Without any hypothesis the Go result is the normal form `Val.norm` of the model's
    result (`T_filterOutput_eq_norm`); the two are equal exactly when the model's result is in normal form
    (`T_filterOutput_eq_iff`).
-/
import Generated.Trans.Output
import BklProofs.Facts.TransUtil
import BklProofs.Lemmas.GoLibBklr
namespace Bkl.Gen.Lib
open Bkl Go

/-! ## util.go:filterList

  The translator renders a Go function literal in state-passing style: `filter v st` returns the results of the
  literal TOGETHER WITH the new values `st'` of the variables of the enclosing function that the literal assigns
  (`σ`; `Unit` when it assigns none, which is the case of all the literals of output.go and of popListMapBoolValue).
  `O_filterListSpecS` / `O_T_filterList_specS` describe filterList over an arbitrary state, `O_filterListSpec` /
  `O_T_filterList_spec` are the stateless (`σ = Unit`) specialisation that is used below. -/

/-- what `filterList(l, filter)` computes from the accumulator `acc` and the state `s`, when `filter x` run in state
    `s` returns the pair `(f x s).1` and leaves the state `(f x s).2` -/
def O_filterListSpecS {σ : Type} (f : Val → σ → (List Val × Option Err) × σ) :
    List Val → List Val → σ → (List Val × Option Err) × σ
  | [], acc, s => ((acc, none), s)
  | x :: xs, acc, s =>
    match (f x s).1.2 with
    | none => O_filterListSpecS f xs (acc ++ (f x s).1.1) (f x s).2
    | some e => (([], some e), (f x s).2)

/-- the loop of filterList, over an abstract body -/
theorem O_filterList_loopS {σ : Type} (f : Val → σ → (List Val × Option Err) × σ) (l : List Val)
    (body : Val → List Val × σ → G (Loop (List Val × σ) ((List Val × Option Err) × σ)))
    (h : ∀ x ∈ l, ∀ acc s, body x (acc, s) = .ok (match (f x s).1.2 with
      | none => .next (acc ++ (f x s).1.1, (f x s).2)
      | some e => .ret (([], some e), (f x s).2))) :
    ∀ acc s, forRange l (acc, s) body = .ok (match (O_filterListSpecS f l acc s).1.2 with
      | none => .inl ((O_filterListSpecS f l acc s).1.1, (O_filterListSpecS f l acc s).2)
      | some _ => .inr (O_filterListSpecS f l acc s)) := by
  induction l with
  | nil => intro acc s; simp [O_filterListSpecS]
  | cons x xs ih =>
    intro acc s
    have hx := h x List.mem_cons_self acc s
    cases hf : (f x s).1.2 with
    | none =>
      rw [hf] at hx
      rw [forRange_cons_next hx, ih (fun y hy => h y (List.mem_cons_of_mem _ hy))]
      simp only [O_filterListSpecS, hf]
    | some e =>
      rw [hf] at hx
      rw [forRange_cons_ret hx]
      simp only [O_filterListSpecS, hf]

/-- util.go:filterList over any state, given what the filter returns on the elements of the list -/
theorem O_T_filterList_specS {σ : Type} (f : Val → σ → (List Val × Option Err) × σ) (l : List Val)
    (filter : Val → σ → G ((List Val × Option Err) × σ))
    (h : ∀ x ∈ l, ∀ s, filter x s = .ok (f x s)) (s : σ) :
    filterList' l filter s = .ok (O_filterListSpecS f l [] s) := by
  unfold filterList'
  simp only []
  rw [O_filterList_loopS f l _ ?_ [] s]
  · cases hs : (O_filterListSpecS f l [] s).1.2 with
    | none => simp only [← hs]
    | some e => simp only []
  · intro x hx acc s
    simp only [h x hx s]
    cases hf : (f x s).1.2 <;> simp

/-- what `filterList(l, filter)` computes from the accumulator `acc`, when the literal assigns no outer variable and
    `filter x` returns the pair `f x` -/
def O_filterListSpec (f : Val → List Val × Option Err) : List Val → List Val → List Val × Option Err
  | [], acc => (acc, none)
  | x :: xs, acc =>
    match (f x).2 with
    | none => O_filterListSpec f xs (acc ++ (f x).1)
    | some e => ([], some e)

theorem O_filterListSpecS_unit (f : Val → List Val × Option Err) (l acc : List Val) :
    O_filterListSpecS (fun x (_ : Unit) => (f x, ())) l acc () = (O_filterListSpec f l acc, ()) := by
  induction l generalizing acc with
  | nil => rfl
  | cons x xs ih =>
    simp only [O_filterListSpecS, O_filterListSpec]
    cases hf : (f x).2 with
    | none => simp only [ih]
    | some e => rfl

/-- util.go:filterList with a stateless literal, given what the filter returns on the elements of the list
    (`nil` error or not) -/
theorem O_T_filterList_spec (f : Val → List Val × Option Err) (l : List Val)
    (filter : Val → Unit → G ((List Val × Option Err) × Unit))
    (h : ∀ x ∈ l, filter x () = .ok (f x, ())) :
    filterList' l filter () = .ok (O_filterListSpec f l [], ()) := by
  rw [O_T_filterList_specS (fun x (_ : Unit) => (f x, ())) l filter (fun x hx _ => h x hx) (),
    O_filterListSpecS_unit]

/-- a filter that runs out of fuel makes filterList run out of fuel (first element shown; not needed below) -/
theorem O_filterList_error {σ : Type} (x : Val) (l : List Val) (filter : Val → σ → G ((List Val × Option Err) × σ))
    (s : σ) (e : GErr) (h : filter x s = .error e) : filterList' (x :: l) filter s = .error e := by
  unfold filterList'
  simp only []
  rw [forRange_cons_error (e := e) (by simp only [h])]

/-- all filters succeed: filterList is `flatMap` -/
theorem O_filterListSpec_flatMap (g : Val → List Val) (l : List Val) (acc : List Val) :
    O_filterListSpec (fun x => (g x, none)) l acc = (acc ++ l.flatMap g, none) := by
  induction l generalizing acc with
  | nil => simp [O_filterListSpec]
  | cons x xs ih => simp [O_filterListSpec, ih]

theorem O_T_filterList_flatMap (g : Val → List Val) (l : List Val)
    (filter : Val → Unit → G ((List Val × Option Err) × Unit))
    (h : ∀ x ∈ l, filter x () = .ok ((g x, none), ())) :
    filterList' l filter () = .ok ((l.flatMap g, none), ()) := by
  rw [O_T_filterList_spec (fun x => (g x, none)) l filter h, O_filterListSpec_flatMap]; simp

/-! ## util.go:filterMap -/

/-- what `filterMap(m, filter)` computes from the accumulator `acc` and the state `s`, when `filter k v` run in state
    `s` returns the pair `(f k v s).1` and leaves the state `(f k v s).2`: every result map is merged into the
    accumulator entry by entry (`ret[k2] = v2`) -/
def O_filterMapSpecS {σ : Type} (f : String → Val → σ → (Fields × Option Err) × σ) :
    Fields → Fields → σ → (Fields × Option Err) × σ
  | [], acc, s => ((acc, none), s)
  | (k, v) :: rest, acc, s =>
    match (f k v s).1.2 with
    | none => O_filterMapSpecS f rest (fsetAll acc (f k v s).1.1) (f k v s).2
    | some e => (([], some e), (f k v s).2)

/-- the inner loop of filterMap: `for k2, v2 := range m2 { ret[k2] = v2 }` -/
theorem O_filterMap_inner {ρ : Type} (m2 acc : Fields) (body : String × Val → Fields → G (Loop Fields ρ))
    (h : ∀ p acc, body p acc = .ok (.next (fset acc p.1 p.2))) :
    forRange m2 acc body = .ok (.inl (fsetAll acc m2)) := by
  rw [forRange_fold (fun acc (p : String × Val) => fset acc p.1 p.2) m2 acc body (fun p _ s => h p s)]
  rfl

/-- the outer loop of filterMap, over an abstract body -/
theorem O_filterMap_loopS {σ : Type} (f : String → Val → σ → (Fields × Option Err) × σ) (m : Fields)
    (body : String × Val → Fields × σ → G (Loop (Fields × σ) ((Fields × Option Err) × σ)))
    (h : ∀ p ∈ m, ∀ acc s, body p (acc, s) = .ok (match (f p.1 p.2 s).1.2 with
      | none => .next (fsetAll acc (f p.1 p.2 s).1.1, (f p.1 p.2 s).2)
      | some e => .ret (([], some e), (f p.1 p.2 s).2))) :
    ∀ acc s, forRange m (acc, s) body = .ok (match (O_filterMapSpecS f m acc s).1.2 with
      | none => .inl ((O_filterMapSpecS f m acc s).1.1, (O_filterMapSpecS f m acc s).2)
      | some _ => .inr (O_filterMapSpecS f m acc s)) := by
  induction m with
  | nil => intro acc s; simp [O_filterMapSpecS]
  | cons p rest ih =>
    intro acc s
    obtain ⟨k, v⟩ := p
    have hx := h (k, v) List.mem_cons_self acc s
    simp only [] at hx
    cases hf : (f k v s).1.2 with
    | none =>
      rw [hf] at hx
      rw [forRange_cons_next hx, ih (fun y hy => h y (List.mem_cons_of_mem _ hy))]
      simp only [O_filterMapSpecS, hf]
    | some e =>
      rw [hf] at hx
      rw [forRange_cons_ret hx]
      simp only [O_filterMapSpecS, hf]

/-- util.go:filterMap over any state, given what the filter returns on the entries of the map -/
theorem O_T_filterMap_specS {σ : Type} (f : String → Val → σ → (Fields × Option Err) × σ) (m : Fields)
    (filter : String → Val → σ → G ((Fields × Option Err) × σ))
    (h : ∀ p ∈ m, ∀ s, filter p.1 p.2 s = .ok (f p.1 p.2 s)) (s : σ) :
    filterMap' m filter s = .ok (O_filterMapSpecS f m [] s) := by
  unfold filterMap'
  simp only []
  rw [O_filterMap_loopS f m _ ?_ [] s]
  · cases hs : (O_filterMapSpecS f m [] s).1.2 with
    | none => simp only [← hs]
    | some e => simp only []
  · intro p hp acc s
    obtain ⟨k, v⟩ := p
    have hkv := h (k, v) hp s
    simp only [] at hkv
    simp only [hkv]
    cases hf : (f k v s).1.2 with
    | none =>
      simp only [beq_self_eq_true, if_true]
      rw [O_filterMap_inner (f k v s).1.1 acc _ (fun p acc => rfl)]
    | some e => simp

/-- what `filterMap(m, filter)` computes from the accumulator `acc`, when the literal assigns no outer variable and
    `filter k v` returns the pair `f k v` -/
def O_filterMapSpec (f : String → Val → Fields × Option Err) : Fields → Fields → Fields × Option Err
  | [], acc => (acc, none)
  | (k, v) :: rest, acc =>
    match (f k v).2 with
    | none => O_filterMapSpec f rest (fsetAll acc (f k v).1)
    | some e => ([], some e)

theorem O_filterMapSpecS_unit (f : String → Val → Fields × Option Err) (m acc : Fields) :
    O_filterMapSpecS (fun k v (_ : Unit) => (f k v, ())) m acc () = (O_filterMapSpec f m acc, ()) := by
  induction m generalizing acc with
  | nil => rfl
  | cons p rest ih =>
    obtain ⟨k, v⟩ := p
    simp only [O_filterMapSpecS, O_filterMapSpec]
    cases hf : (f k v).2 with
    | none => simp only [ih]
    | some e => rfl

/-- util.go:filterMap with a stateless literal, given what the filter returns on the entries of the map -/
theorem O_T_filterMap_spec (f : String → Val → Fields × Option Err) (m : Fields)
    (filter : String → Val → Unit → G ((Fields × Option Err) × Unit))
    (h : ∀ p ∈ m, filter p.1 p.2 () = .ok (f p.1 p.2, ())) :
    filterMap' m filter () = .ok (O_filterMapSpec f m [], ()) := by
  rw [O_T_filterMap_specS (fun k v (_ : Unit) => (f k v, ())) m filter (fun p hp _ => h p hp) (),
    O_filterMapSpecS_unit]

/-- all filters succeed: filterMap merges the result maps, in order, into one map -/
theorem O_filterMapSpec_flatMap (g : String → Val → Fields) (m : Fields) (acc : Fields) :
    O_filterMapSpec (fun k v => (g k v, none)) m acc = (fsetAll acc (m.flatMap (fun p => g p.1 p.2)), none) := by
  induction m generalizing acc with
  | nil => simp [O_filterMapSpec, fsetAll]
  | cons p rest ih =>
    obtain ⟨k, v⟩ := p
    simp [O_filterMapSpec, ih, fsetAll, List.foldl_append]

theorem O_T_filterMap_flatMap (g : String → Val → Fields) (m : Fields)
    (filter : String → Val → Unit → G ((Fields × Option Err) × Unit))
    (h : ∀ p ∈ m, filter p.1 p.2 () = .ok ((g p.1 p.2, none), ())) :
    filterMap' m filter () = .ok ((fofList (m.flatMap (fun p => g p.1 p.2)), none), ()) := by
  rw [O_T_filterMap_spec (fun k v => (g k v, none)) m filter h, O_filterMapSpec_flatMap]; rfl

/-! ## util.go:popListMapBoolValue -/

/-- one step of the model's `popListMapBool` fold -/
def O_popStep (k : String) (b : Bool) (acc : List Val) (x : Val) : R (List Val) :=
  match x with
  | .map m =>
    if fhasBool m k b then
      if (fdel m k).length > 0 then throw Err.extraKeys else pure acc
    else pure (acc ++ [x])
  | _ => pure (acc ++ [x])

theorem O_popListMapBool_eq (l : List Val) (k : String) (b : Bool) :
    popListMapBool l k b = if hasListMapBool l k b then
      (match l.foldlM (O_popStep k b) [] with | .ok rest => .ok (true, rest) | .error e => .error e)
      else .ok (false, l) := by
  unfold popListMapBool
  cases hasListMapBool l k b
  · rfl
  · simp only [Bool.not_true, Bool.false_eq_true, if_false, if_true]
    have key : ∀ (F : List Val → Val → R (List Val)), (∀ acc x, F acc x = O_popStep k b acc x) →
        (List.foldlM F [] l >>= fun rest => (pure (true, rest) : R (Bool × List Val))) =
        (match l.foldlM (O_popStep k b) [] with | .ok rest => .ok (true, rest) | .error e => .error e) := by
      intro F hF
      have : F = O_popStep k b := by funext acc x; exact hF acc x
      rw [this]
      cases List.foldlM (O_popStep k b) [] l <;> rfl
    apply key
    intro acc x
    cases x <;> rfl

/-- the model answers `found` = `hasListMapBool` whenever it answers -/
theorem O_popListMapBool_fst (l : List Val) (k : String) (b : Bool) (p : Bool × List Val)
    (h : popListMapBool l k b = .ok p) : p.1 = hasListMapBool l k b := by
  rw [O_popListMapBool_eq] at h
  cases hh : hasListMapBool l k b with
  | false => rw [hh] at h; cases h; rfl
  | true =>
    rw [hh] at h
    simp only [if_true] at h
    cases hf : l.foldlM (O_popStep k b) [] with
    | error e => rw [hf] at h; cases h
    | ok r => rw [hf] at h; cases h; rfl

/-- … and fails only when there is a marker entry -/
theorem O_popListMapBool_error (l : List Val) (k : String) (b : Bool) (e : Err)
    (h : popListMapBool l k b = .error e) : hasListMapBool l k b = true := by
  rw [O_popListMapBool_eq] at h
  cases hh : hasListMapBool l k b with
  | false => rw [hh] at h; cases h
  | true => rfl

/-- what the filter of popListMapBoolValue returns on `x` -/
def O_popFilter (k : String) (b : Bool) (x : Val) : List Val × Option Err :=
  match x with
  | .map m =>
    if fhasBool m k b then
      (if (fdel m k).length > 0 then ([], some Err.extraKeys) else ([], none))
    else ([x], none)
  | _ => ([x], none)

theorem O_filterListSpec_popFilter (k : String) (b : Bool) (l : List Val) (acc : List Val) :
    O_filterListSpec (O_popFilter k b) l acc = (match l.foldlM (O_popStep k b) acc with
      | .ok rest => (rest, none)
      | .error e => ([], some e)) := by
  induction l generalizing acc with
  | nil => rfl
  | cons x xs ih =>
    rw [List.foldlM_cons]
    cases x with
    | map m =>
      by_cases h1 : fhasBool m k b = true
      · by_cases h2 : (fdel m k).length > 0
        · simp [O_filterListSpec, O_popFilter, O_popStep, h1, h2, bind, Except.bind, throw, throwThe, MonadExceptOf.throw]
        · simp [O_filterListSpec, O_popFilter, O_popStep, h1, h2, bind, Except.bind, pure, Except.pure, ih]
      · simp [O_filterListSpec, O_popFilter, O_popStep, h1, bind, Except.bind, pure, Except.pure, ih]
    | _ => simp [O_filterListSpec, O_popFilter, O_popStep, bind, Except.bind, pure, Except.pure, ih]

/-- the Go result triple of a model result of `popListMapBool` -/
def O_popRes : R (Bool × List Val) → Bool × List Val × Option Err
  | .ok (found, rest) => (found, rest, none)
  | .error e => (false, [], some e)

/-- util.go:popListMapBoolValue is the model's `popListMapBool` -/
theorem O_T_popListMapBoolValue_eq (l : List Val) (k : String) (b : Bool) :
    popListMapBoolValue' l k b = .ok (O_popRes (popListMapBool l k b)) := by
  unfold popListMapBoolValue'
  rw [T_hasListMapBoolValue_eq, O_popListMapBool_eq]
  cases hh : hasListMapBool l k b with
  | false => simp [O_popRes]
  | true =>
    simp only [if_true]
    rw [O_T_filterList_spec (O_popFilter k b) l, O_filterListSpec_popFilter]
    · cases l.foldlM (O_popStep k b) [] <;> simp [O_popRes]
    · intro x _
      cases x with
      | map m =>
        by_cases h1 : fhasBool m k b = true
        · by_cases h2 : (fdel m k).length > 0
          · have h2' : fdel m k ≠ [] := List.ne_nil_of_length_pos h2
            simp [asMap, T_popMapBoolValue_eq, O_popFilter, h1, h2, h2']
          · have h2' : fdel m k = [] := List.length_eq_zero_iff.mp (by omega)
            simp [asMap, T_popMapBoolValue_eq, O_popFilter, h1, h2']
        · simp [asMap, T_popMapBoolValue_eq, O_popFilter, h1]
      | _ => simp [asMap, O_popFilter]

/-! ## the model's `filterOutput`, as equations without `do` -/

theorem filterOutput_map (kvs : Fields) :
    filterOutput (.map kvs) = if fhasBool kvs "$output" false then .ok none else
      (match filterOutputFields kvs with
        | .ok fs => .ok (some (.map fs))
        | .error e => .error e) := by
  simp only [filterOutput]
  split
  · rfl
  · cases filterOutputFields kvs <;> rfl

theorem filterOutput_list (xs : List Val) :
    filterOutput (.list xs) = if hasListMapBool xs "$output" false then
      (match popListMapBool xs "$output" false with
        | .ok _ => .ok none
        | .error e => .error e)
      else
      (match filterOutputList xs with
        | .ok rs => .ok (some (.list rs))
        | .error e => .error e) := by
  simp only [filterOutput]
  split
  · cases popListMapBool xs "$output" false <;> rfl
  · cases filterOutputList xs <;> rfl

theorem filterOutputFields_cons (k : String) (v : Val) (rest : Fields) :
    filterOutputFields ((k, v) :: rest) = (match filterOutput v with
      | .error e => .error e
      | .ok none => filterOutputFields rest
      | .ok (some v') => (match filterOutputFields rest with
        | .ok fs => .ok ((k, v') :: fs)
        | .error e => .error e)) := by
  simp only [filterOutputFields]
  cases filterOutput v with
  | error e => rfl
  | ok o =>
    cases o with
    | none => rfl
    | some w => cases filterOutputFields rest <;> rfl

theorem filterOutputList_cons (x : Val) (xs : List Val) :
    filterOutputList (x :: xs) = (match filterOutput x with
      | .error e => .error e
      | .ok none => filterOutputList xs
      | .ok (some x') => (match filterOutputList xs with
        | .ok rs => .ok (x' :: rs)
        | .error e => .error e)) := by
  simp only [filterOutputList]
  cases filterOutput x with
  | error e => rfl
  | ok o =>
    cases o with
    | none => rfl
    | some w => cases filterOutputList xs <;> rfl

/-- Go's `v2 == nil` test on the recursive result is the model's `none`: `filterOutput` never answers `some nil` -/
theorem filterOutput_ne_null (v : Val) : filterOutput v ≠ .ok (some .null) := by
  cases v with
  | map kvs =>
    rw [filterOutput_map]
    split
    · simp
    · cases filterOutputFields kvs <;> simp
  | list xs =>
    rw [filterOutput_list]
    split
    · cases popListMapBool xs "$output" false <;> simp
    · cases filterOutputList xs <;> simp
  | null => simp [filterOutput, pure, Except.pure]
  | bool b => simp [filterOutput, pure, Except.pure]
  | int i => simp [filterOutput, pure, Except.pure]
  | flt r => simp [filterOutput, pure, Except.pure]
  | str s => simp [filterOutput, pure, Except.pure]

/-! ## the Go result of a model result -/

/-- the value that the Go code returns NEXT TO a non-nil error: `nil` when popListMapBoolValue fails (the list has
    a marker entry), otherwise the empty container that the failing filterList / filterMap returns -/
def filterOutputErrVal : Val → Val
  | .map _ => .map []
  | .list xs => if hasListMapBool xs "$output" false then .null else .list []
  | _ => .null

/-- the Go result pair of the model result `r` of `filterOutput v`: the value (`nil` = hidden) and no error, or the
    error class (next to `filterOutputErrVal v`) -/
def goRes (v : Val) : R (Option Val) → Val × Option Err
  | .ok o => (o.getD .null, none)
  | .error e => (filterOutputErrVal v, some e)

/-- the model's result with every map rebuilt key-sorted -/
def filterOutputNorm (v : Val) : R (Option Val) :=
  match filterOutput v with
  | .ok o => .ok (o.map Val.norm)
  | .error e => .error e

theorem O_norm_eq_null {r : Val} (h : Val.norm r = .null) : r = .null := by
  cases r <;> simp [Val.norm] at h ⊢

theorem filterOutputNorm_ne_null (v : Val) : filterOutputNorm v ≠ .ok (some .null) := by
  unfold filterOutputNorm
  cases h : filterOutput v with
  | error e => simp
  | ok o =>
    cases o with
    | none => simp
    | some r =>
      intro e
      simp only [Option.map_some, Except.ok.injEq, Option.some.injEq] at e
      exact filterOutput_ne_null v (by rw [h, O_norm_eq_null e])

/-- what the function literal of filterOutputList returns, given the (model) result of the recursive call -/
def listFilterRes : R (Option Val) → List Val × Option Err
  | .ok o => (o.toList, none)
  | .error e => ([], some e)

/-- what the function literal of filterOutputMap returns, given the (model) result of the recursive call -/
def mapFilterRes (k : String) : R (Option Val) → Fields × Option Err
  | .ok none => ([], none)
  | .ok (some w) => ([(k, w)], none)
  | .error e => ([], some e)

theorem filterListSpec_filterOutput (xs : List Val) (acc : List Val) :
    O_filterListSpec (fun x => listFilterRes (filterOutputNorm x)) xs acc = (match filterOutputList xs with
      | .ok rs => (acc ++ Val.normList rs, none)
      | .error e => ([], some e)) := by
  induction xs generalizing acc with
  | nil => simp [O_filterListSpec, filterOutputList, pure, Except.pure, Val.normList]
  | cons x xs ih =>
    rw [filterOutputList_cons]
    cases h : filterOutput x with
    | error e =>
      have hN : listFilterRes (filterOutputNorm x) = ([], some e) := by simp only [filterOutputNorm, h, listFilterRes]
      simp only [O_filterListSpec, hN]
    | ok o =>
      cases o with
      | none =>
        have hN : listFilterRes (filterOutputNorm x) = ([], none) := by
          simp only [filterOutputNorm, h, Option.map_none, listFilterRes, Option.toList_none]
        simp only [O_filterListSpec, hN, ih, List.append_nil]
      | some w =>
        have hN : listFilterRes (filterOutputNorm x) = ([Val.norm w], none) := by
          simp only [filterOutputNorm, h, Option.map_some, listFilterRes, Option.toList_some]
        simp only [O_filterListSpec, hN, ih]
        cases filterOutputList xs <;> simp [Val.normList]

theorem filterMapSpec_filterOutput (kvs : Fields) (acc : Fields) :
    O_filterMapSpec (fun k v => mapFilterRes k (filterOutputNorm v)) kvs acc = (match filterOutputFields kvs with
      | .ok fs => (fsetAll acc (Val.normFields fs), none)
      | .error e => ([], some e)) := by
  induction kvs generalizing acc with
  | nil => simp [O_filterMapSpec, filterOutputFields, pure, Except.pure, Val.normFields, fsetAll]
  | cons p rest ih =>
    obtain ⟨k, v⟩ := p
    rw [filterOutputFields_cons]
    cases h : filterOutput v with
    | error e =>
      have hN : mapFilterRes k (filterOutputNorm v) = ([], some e) := by
        simp only [filterOutputNorm, h, mapFilterRes]
      simp only [O_filterMapSpec, hN]
    | ok o =>
      cases o with
      | none =>
        have hN : mapFilterRes k (filterOutputNorm v) = ([], none) := by
          simp only [filterOutputNorm, h, Option.map_none, mapFilterRes]
        simp only [O_filterMapSpec, hN, ih]
        rfl
      | some w =>
        have hN : mapFilterRes k (filterOutputNorm v) = ([(k, Val.norm w)], none) := by
          simp only [filterOutputNorm, h, Option.map_some, mapFilterRes]
        simp only [O_filterMapSpec, hN, ih]
        cases filterOutputFields rest <;> simp [Val.normFields, fsetAll]

/-! ## one level, given the recursive calls -/

theorem filterOutputList_step (f : Nat) (xs : List Val)
    (hall : ∀ x ∈ xs, filterOutput' f x = .ok (goRes x (filterOutputNorm x))) :
    filterOutputList' (f + 1) xs = .ok (goRes (.list xs) (filterOutputNorm (.list xs))) := by
  unfold filterOutputList'
  simp only [O_T_popListMapBoolValue_eq, filterOutputNorm]
  rw [filterOutput_list]
  cases hh : hasListMapBool xs "$output" false with
  | true =>
    cases hp : popListMapBool xs "$output" false with
    | error e => simp [O_popRes, goRes, filterOutputErrVal, hh]
    | ok p =>
      obtain ⟨b, r⟩ := p
      have hb := O_popListMapBool_fst _ _ _ _ hp
      simp only [hh] at hb
      subst hb
      simp [O_popRes, goRes]
  | false =>
    have hp : popListMapBool xs "$output" false = .ok (false, xs) := by
      rw [O_popListMapBool_eq, hh]; rfl
    simp only [hp, O_popRes]
    rw [O_T_filterList_spec (fun x => listFilterRes (filterOutputNorm x)) xs, filterListSpec_filterOutput]
    · cases filterOutputList xs <;> simp [goRes, filterOutputErrVal, hh, Val.norm]
    · intro x hx
      rw [hall x hx]
      have hn := filterOutputNorm_ne_null x
      cases hr : filterOutputNorm x with
      | error e => simp [goRes, listFilterRes]
      | ok o =>
        cases o with
        | none => simp [goRes, listFilterRes]
        | some w =>
          have hw : w ≠ .null := fun e => hn (by rw [hr, e])
          simp [goRes, listFilterRes, hw]

theorem filterOutputMap_step (f : Nat) (kvs : Fields)
    (hall : ∀ p ∈ kvs, filterOutput' f p.2 = .ok (goRes p.2 (filterOutputNorm p.2))) :
    filterOutputMap' (f + 1) kvs = .ok (goRes (.map kvs) (filterOutputNorm (.map kvs))) := by
  unfold filterOutputMap'
  simp only [T_popMapBoolValue_eq, filterOutputNorm]
  rw [filterOutput_map]
  cases hh : fhasBool kvs "$output" false with
  | true => simp [goRes]
  | false =>
    simp only [Bool.false_eq_true, if_false]
    rw [O_T_filterMap_spec (fun k v => mapFilterRes k (filterOutputNorm v)) kvs, filterMapSpec_filterOutput]
    · cases filterOutputFields kvs <;> simp [goRes, filterOutputErrVal, Val.norm, fofList]
    · intro p hp
      rw [hall p hp]
      have hn := filterOutputNorm_ne_null p.2
      cases hr : filterOutputNorm p.2 with
      | error e => simp [goRes, mapFilterRes]
      | ok o =>
        cases o with
        | none => simp [goRes, mapFilterRes]
        | some w =>
          have hw : w ≠ .null := fun e => hn (by rw [hr, e])
          simp [goRes, mapFilterRes, hw, fset]

/-! ## any input: the Go code computes the normal form (`Val.norm`: maps rebuilt key-sorted) of the model's result -/

theorem filterOutput_eq_norm_aux : ∀ (n : Nat) (v : Val), Go.depth v ≤ n → ∀ fuel, 2 * n + 1 ≤ fuel →
    filterOutput' fuel v = .ok (goRes v (filterOutputNorm v)) := by
  intro n
  induction n with
  | zero =>
    intro v hd fuel hf
    obtain ⟨f, rfl⟩ : ∃ f, fuel = f + 1 := ⟨fuel - 1, by omega⟩
    cases v with
    | map kvs => simp [Go.depth] at hd
    | list xs => simp [Go.depth] at hd
    | str s => simp [filterOutput', filterOutputNorm, filterOutput, goRes, pure, Except.pure, Val.norm]
    | null => simp [filterOutput', filterOutputNorm, filterOutput, goRes, pure, Except.pure]
    | bool b => simp [filterOutput', filterOutputNorm, filterOutput, goRes, pure, Except.pure, Val.norm]
    | int i => simp [filterOutput', filterOutputNorm, filterOutput, goRes, pure, Except.pure, Val.norm]
    | flt r => simp [filterOutput', filterOutputNorm, filterOutput, goRes, pure, Except.pure, Val.norm]
  | succ m ih =>
    intro v hd fuel hf
    obtain ⟨f, rfl⟩ : ∃ f, fuel = f + 2 := ⟨fuel - 2, by omega⟩
    cases v with
    | map kvs =>
      have hall : ∀ p ∈ kvs, filterOutput' f p.2 = .ok (goRes p.2 (filterOutputNorm p.2)) := by
        intro p hm
        have := Go.depth_le_of_mem_fields (k := p.1) (v := p.2) hm
        simp only [Go.depth] at hd
        exact ih p.2 (by omega) f (by omega)
      simp [filterOutput', filterOutputMap_step f kvs hall]
    | list xs =>
      have hall : ∀ x ∈ xs, filterOutput' f x = .ok (goRes x (filterOutputNorm x)) := by
        intro x hm
        have := Go.depth_le_of_mem_list hm
        simp only [Go.depth] at hd
        exact ih x (by omega) f (by omega)
      simp [filterOutput', filterOutputList_step f xs hall]
    | str s => simp [filterOutput', filterOutputNorm, filterOutput, goRes, pure, Except.pure, Val.norm]
    | null => simp [filterOutput', filterOutputNorm, filterOutput, goRes, pure, Except.pure]
    | bool b => simp [filterOutput', filterOutputNorm, filterOutput, goRes, pure, Except.pure, Val.norm]
    | int i => simp [filterOutput', filterOutputNorm, filterOutput, goRes, pure, Except.pure, Val.norm]
    | flt r => simp [filterOutput', filterOutputNorm, filterOutput, goRes, pure, Except.pure, Val.norm]

/-- with NO hypothesis on the input: output.go:filterOutput computes the model's `filterOutput` up to the order of
    map entries — the same error class, or the normal form (every map rebuilt key-sorted, `Val.norm`) of the model's
    result; hidden (`none`) is Go's `nil` -/
theorem T_filterOutput_eq_norm (v : Val) (fuel : Nat) (h : 2 * Go.depth v + 1 ≤ fuel) :
    filterOutput' fuel v = .ok (match filterOutput v with
      | .ok r => ((r.map Val.norm).getD .null, none)
      | .error e => (filterOutputErrVal v, some e)) := by
  rw [filterOutput_eq_norm_aux (Go.depth v) v (Nat.le_refl _) fuel h, filterOutputNorm]
  cases filterOutput v <;> rfl

theorem T_filterOutputMap_eq_norm (kvs : Fields) (fuel : Nat) (h : 2 * Go.depthFields kvs + 2 ≤ fuel) :
    filterOutputMap' fuel kvs = .ok (match filterOutput (.map kvs) with
      | .ok r => ((r.map Val.norm).getD .null, none)
      | .error e => (.map [], some e)) := by
  obtain ⟨f, rfl⟩ : ∃ f, fuel = f + 1 := ⟨fuel - 1, by omega⟩
  rw [filterOutputMap_step f kvs (fun p hm => ?_), filterOutputNorm]
  · cases filterOutput (.map kvs) <;> rfl
  · have := Go.depth_le_of_mem_fields (k := p.1) (v := p.2) hm
    exact filterOutput_eq_norm_aux (Go.depth p.2) p.2 (Nat.le_refl _) f (by omega)

theorem T_filterOutputList_eq_norm (xs : List Val) (fuel : Nat) (h : 2 * Go.depthList xs + 2 ≤ fuel) :
    filterOutputList' fuel xs = .ok (match filterOutput (.list xs) with
      | .ok r => ((r.map Val.norm).getD .null, none)
      | .error e => (if hasListMapBool xs "$output" false then .null else .list [], some e)) := by
  obtain ⟨f, rfl⟩ : ∃ f, fuel = f + 1 := ⟨fuel - 1, by omega⟩
  rw [filterOutputList_step f xs (fun x hm => ?_), filterOutputNorm]
  · cases filterOutput (.list xs) <;> rfl
  · have := Go.depth_le_of_mem_list hm
    exact filterOutput_eq_norm_aux (Go.depth x) x (Nat.le_refl _) f (by omega)

/-! ## well-formed input: the model's result is well-formed, so the Go code computes the model's `filterOutput` -/

/-- the entry that `filterOutputFields` keeps for an input entry, when it succeeds -/
def keptVal (v : Val) : Option Val :=
  match filterOutput v with
  | .ok (some v') => some v'
  | _ => none

theorem filterOutputFields_eq_filterMap (kvs fs : Fields) (h : filterOutputFields kvs = .ok fs) :
    fs = kvs.filterMap (rq_entry keptVal) := by
  induction kvs generalizing fs with
  | nil => simpa [filterOutputFields, pure, Except.pure] using h.symm
  | cons p rest ih =>
    obtain ⟨k, v⟩ := p
    rw [filterOutputFields_cons] at h
    rw [List.filterMap_cons]
    cases hv : filterOutput v with
    | error e => rw [hv] at h; cases h
    | ok o =>
      rw [hv] at h
      cases o with
      | none => simpa [rq_entry, keptVal, hv] using ih fs h
      | some w =>
        cases hr : filterOutputFields rest with
        | error e => rw [hr] at h; cases h
        | ok fs' =>
          rw [hr] at h
          cases h
          simp [rq_entry, keptVal, hv, ih fs' hr]

mutual
theorem filterOutput_wf : ∀ (v : Val), Val.WF v → ∀ r, filterOutput v = .ok (some r) → Val.WF r
  | .map kvs, hwf, r, h => by
      rw [filterOutput_map] at h
      have hw := wf_map_iff.1 hwf
      split at h
      · cases h
      · cases hf : filterOutputFields kvs with
        | error e => rw [hf] at h; cases h
        | ok fs =>
          rw [hf] at h
          cases h
          refine wf_map_iff.2 ⟨?_, filterOutputFields_wf kvs hw.2 fs hf⟩
          rw [filterOutputFields_eq_filterMap kvs fs hf]
          exact rq_sorted_filterMap_entry keptVal kvs hw.1
  | .list xs, hwf, r, h => by
      rw [filterOutput_list] at h
      split at h
      · cases hp : popListMapBool xs "$output" false <;> rw [hp] at h <;> cases h
      · cases hf : filterOutputList xs with
        | error e => rw [hf] at h; cases h
        | ok rs =>
          rw [hf] at h
          cases h
          exact wf_list_iff.2 (filterOutputList_wf xs (wf_list_iff.1 hwf) rs hf)
  | .null, _, r, h => by simp [filterOutput, pure, Except.pure] at h
  | .bool b, _, r, h => by
      simp only [filterOutput, pure, Except.pure, Except.ok.injEq, Option.some.injEq] at h; subst h; rfl
  | .int i, _, r, h => by
      simp only [filterOutput, pure, Except.pure, Except.ok.injEq, Option.some.injEq] at h; subst h; rfl
  | .flt x, _, r, h => by
      simp only [filterOutput, pure, Except.pure, Except.ok.injEq, Option.some.injEq] at h; subst h; rfl
  | .str s, _, r, h => by
      simp only [filterOutput, pure, Except.pure, Except.ok.injEq, Option.some.injEq] at h; subst h; rfl
theorem filterOutputFields_wf : ∀ (kvs : Fields), (∀ p ∈ kvs, Val.WF p.2) → ∀ fs, filterOutputFields kvs = .ok fs →
    ∀ p ∈ fs, Val.WF p.2
  | [], _, fs, h => by
      simp only [filterOutputFields, pure, Except.pure, Except.ok.injEq] at h
      subst h; intro p hp; cases hp
  | (k, v) :: rest, hwf, fs, h => by
      rw [filterOutputFields_cons] at h
      have hrest : ∀ p ∈ rest, Val.WF p.2 := fun p hp => hwf p (List.mem_cons_of_mem _ hp)
      cases hv : filterOutput v with
      | error e => rw [hv] at h; cases h
      | ok o =>
        rw [hv] at h
        cases o with
        | none => exact filterOutputFields_wf rest hrest fs h
        | some w =>
          cases hr : filterOutputFields rest with
          | error e => rw [hr] at h; cases h
          | ok fs' =>
            rw [hr] at h
            cases h
            intro p hp
            rcases List.mem_cons.1 hp with rfl | hp
            · exact filterOutput_wf v (hwf (k, v) List.mem_cons_self) w hv
            · exact filterOutputFields_wf rest hrest fs' hr p hp
theorem filterOutputList_wf : ∀ (xs : List Val), (∀ x ∈ xs, Val.WF x) → ∀ rs, filterOutputList xs = .ok rs →
    ∀ r ∈ rs, Val.WF r
  | [], _, rs, h => by
      simp only [filterOutputList, pure, Except.pure, Except.ok.injEq] at h
      subst h; intro p hp; cases hp
  | x :: xs, hwf, rs, h => by
      rw [filterOutputList_cons] at h
      have hrest : ∀ y ∈ xs, Val.WF y := fun y hy => hwf y (List.mem_cons_of_mem _ hy)
      cases hv : filterOutput x with
      | error e => rw [hv] at h; cases h
      | ok o =>
        rw [hv] at h
        cases o with
        | none => exact filterOutputList_wf xs hrest rs h
        | some w =>
          cases hr : filterOutputList xs with
          | error e => rw [hr] at h; cases h
          | ok rs' =>
            rw [hr] at h
            cases h
            intro p hp
            rcases List.mem_cons.1 hp with rfl | hp
            · exact filterOutput_wf x (hwf x List.mem_cons_self) p hv
            · exact filterOutputList_wf xs hrest rs' hr p hp
end

/-- on well-formed input the model's result is already in normal form -/
theorem filterOutputNorm_of_wf (v : Val) (hwf : Val.WF v) : filterOutputNorm v = filterOutput v := by
  unfold filterOutputNorm
  cases h : filterOutput v with
  | error e => rfl
  | ok o =>
    cases o with
    | none => rfl
    | some r => simp only [Option.map_some, gu_norm_of_wf r (filterOutput_wf v hwf r h)]

/-- output.go:filterOutput, as translated from the current source, is the model's `filterOutput` on every
    well-formed value (given fuel for its nesting depth): the same error class, or the same value with Go's `nil` for
    the model's `none` (hidden) -/
theorem T_filterOutput_eq (v : Val) (hwf : Val.WF v) (fuel : Nat) (h : 2 * Go.depth v + 1 ≤ fuel) :
    filterOutput' fuel v = .ok (match filterOutput v with
      | .ok r => (r.getD .null, none)
      | .error e => (filterOutputErrVal v, some e)) := by
  rw [filterOutput_eq_norm_aux (Go.depth v) v (Nat.le_refl _) fuel h, filterOutputNorm_of_wf v hwf]
  cases filterOutput v <;> rfl

/-- output.go:filterOutputMap is the model's `filterOutput` on a map (`filterOutputFields` after the `$output: false`
    test); next to an error Go returns the empty map of the failing filterMap -/
theorem T_filterOutputMap_eq (kvs : Fields) (hwf : Val.WF (.map kvs)) (fuel : Nat)
    (h : 2 * Go.depthFields kvs + 2 ≤ fuel) :
    filterOutputMap' fuel kvs = .ok (match filterOutput (.map kvs) with
      | .ok r => (r.getD .null, none)
      | .error e => (.map [], some e)) := by
  rw [T_filterOutputMap_eq_norm kvs fuel h]
  have := filterOutputNorm_of_wf _ hwf
  unfold filterOutputNorm at this
  cases hr : filterOutput (.map kvs) with
  | error e => rfl
  | ok o =>
    rw [hr] at this
    simp only [Except.ok.injEq] at this
    simp only [this]

/-- the same in terms of `filterOutputFields` -/
theorem T_filterOutputMap_eq_fields (kvs : Fields) (hwf : Val.WF (.map kvs)) (fuel : Nat)
    (h : 2 * Go.depthFields kvs + 2 ≤ fuel) :
    filterOutputMap' fuel kvs = .ok (if fhasBool kvs "$output" false then (.null, none) else
      match filterOutputFields kvs with
      | .ok fs => (.map fs, none)
      | .error e => (.map [], some e)) := by
  rw [T_filterOutputMap_eq kvs hwf fuel h, filterOutput_map]
  cases fhasBool kvs "$output" false with
  | true => rfl
  | false => cases filterOutputFields kvs <;> rfl

/-- output.go:filterOutputList is the model's `filterOutput` on a list (`popListMapBool` for its error, then
    `filterOutputList`); next to an error Go returns `nil` (popListMapBoolValue failed) or the empty list of the
    failing filterList -/
theorem T_filterOutputList_eq (xs : List Val) (hwf : Val.WF (.list xs)) (fuel : Nat)
    (h : 2 * Go.depthList xs + 2 ≤ fuel) :
    filterOutputList' fuel xs = .ok (match filterOutput (.list xs) with
      | .ok r => (r.getD .null, none)
      | .error e => (if hasListMapBool xs "$output" false then .null else .list [], some e)) := by
  rw [T_filterOutputList_eq_norm xs fuel h]
  have := filterOutputNorm_of_wf _ hwf
  unfold filterOutputNorm at this
  cases hr : filterOutput (.list xs) with
  | error e => rfl
  | ok o =>
    rw [hr] at this
    simp only [Except.ok.injEq] at this
    simp only [this]

/-- the same in terms of `popListMapBool` / `filterOutputList` -/
theorem T_filterOutputList_eq_list (xs : List Val) (hwf : Val.WF (.list xs)) (fuel : Nat)
    (h : 2 * Go.depthList xs + 2 ≤ fuel) :
    filterOutputList' fuel xs = .ok (match popListMapBool xs "$output" false with
      | .error e => (.null, some e)
      | .ok (true, _) => (.null, none)
      | .ok (false, _) =>
        match filterOutputList xs with
        | .ok rs => (.list rs, none)
        | .error e => (.list [], some e)) := by
  rw [T_filterOutputList_eq xs hwf fuel h, filterOutput_list]
  cases hh : hasListMapBool xs "$output" false with
  | true =>
    cases hp : popListMapBool xs "$output" false with
    | error e => simp
    | ok p =>
      obtain ⟨b, r⟩ := p
      have hb := O_popListMapBool_fst _ _ _ _ hp
      simp only [hh] at hb
      subst hb
      simp
  | false =>
    have hp : popListMapBool xs "$output" false = .ok (false, xs) := by
      rw [O_popListMapBool_eq, hh]; rfl
    rw [hp]
    cases filterOutputList xs <;> simp

/-- exactly when the Go code and the model agree: when the model's result is in normal form (its maps key-sorted).
    `Val.WF v` (T_filterOutput_eq) is the natural sufficient condition on the INPUT. -/
theorem T_filterOutput_eq_iff (v : Val) (fuel : Nat) (h : 2 * Go.depth v + 1 ≤ fuel) :
    filterOutput' fuel v = .ok (match filterOutput v with
      | .ok r => (r.getD .null, none)
      | .error e => (filterOutputErrVal v, some e))
    ↔ ∀ r, filterOutput v = .ok (some r) → Val.norm r = r := by
  rw [T_filterOutput_eq_norm v fuel h]
  cases hr : filterOutput v with
  | error e => simp
  | ok o =>
    cases o with
    | none => simp
    | some r => simp

/-! ## non-vacuity -/

/-- results of translated functions and of model functions can be compared by `decide` (only used for the concrete examples below) -/
local instance decEqExcept {ε α : Type} [DecidableEq ε] [DecidableEq α] : DecidableEq (Except ε α)
  | .ok a, .ok b => if h : a = b then isTrue (h ▸ rfl) else isFalse (fun e => h (Except.ok.inj e))
  | .error a, .error b => if h : a = b then isTrue (h ▸ rfl) else isFalse (fun e => h (Except.error.inj e))
  | .ok _, .error _ => isFalse (fun e => by cases e)
  | .error _, .ok _ => isFalse (fun e => by cases e)

/-- a well-formed document with a hidden map entry, a hidden list (marker entry), a null and kept values -/
def O_exWF : Val :=
  .map [("a", .map [("$output", .bool false), ("x", .int 1)]),
        ("b", .list [.int 1, .map [("$output", .bool false)]]),
        ("c", .list [.str "s", .null, .map [("d", .null), ("e", .int 2)]]),
        ("d", .null)]

example : Val.WF O_exWF ∧ 2 * Go.depth O_exWF + 1 ≤ 7 := by decide
example : filterOutput O_exWF = .ok (some (.map [("c", .list [.str "s", .map [("e", .int 2)]])])) := by decide
example : filterOutput' 7 O_exWF = .ok (.map [("c", .list [.str "s", .map [("e", .int 2)]])], none) := by
  rw [T_filterOutput_eq O_exWF (by decide) 7 (by decide)]; decide

/-- a marker entry with extra keys: the error, and the three shapes of the value next to it -/
def exErr : Val := .list [.int 1, .map [("$output", .bool false), ("x", .int 1)]]

example : filterOutput exErr = .error Err.extraKeys := by decide
example : filterOutput' 5 exErr = .ok (.null, some Err.extraKeys) := by
  rw [T_filterOutput_eq exErr (by decide) 5 (by decide)]; decide
example : filterOutput' 7 (.list [exErr]) = .ok (.list [], some Err.extraKeys) := by
  rw [T_filterOutput_eq _ (by decide) 7 (by decide)]; decide
example : filterOutput' 7 (.map [("a", exErr)]) = .ok (.map [], some Err.extraKeys) := by
  rw [T_filterOutput_eq _ (by decide) 7 (by decide)]; decide
example : Val.WF (.map [("a", exErr)]) ∧ Val.WF (.list [exErr]) := by decide

/-- instances of the hypotheses of T_filterOutputMap_eq / T_filterOutputList_eq -/
example : Val.WF (.map [("a", exErr), ("b", .int 1)]) ∧ 2 * Go.depthFields [("a", exErr), ("b", .int 1)] + 2 ≤ 6 := by
  decide
example : filterOutputMap' 6 [("a", .list [.null, .int 1]), ("b", .null)] = .ok (.map [("a", .list [.int 1])], none) := by
  rw [T_filterOutputMap_eq _ (by decide) 6 (by decide)]; decide
example : Val.WF (.list [exErr, .int 1]) ∧ 2 * Go.depthList [exErr, .int 1] + 2 ≤ 6 := by decide
example : filterOutputList' 6 [.map [("a", .null)], .null, .int 1] = .ok (.list [.map [], .int 1], none) := by
  rw [T_filterOutputList_eq _ (by decide) 6 (by decide)]; decide

/-- the whole value is hidden: Go's `nil`, the model's `none` -/
example : filterOutput' 3 (.map [("$output", .bool false), ("x", .int 1)]) = .ok (.null, none) := by
  rw [T_filterOutput_eq _ (by decide) 3 (by decide)]; decide

/-- fuel: with less than `2 * depth v + 1` the translated function does not finish -/
example : filterOutput' 2 (.list [.int 1]) = .error GErr.fuel := by decide
example : 2 * Go.depth (.list [.int 1]) + 1 = 3 := by decide

/-! ## the hypothesis `Val.WF v` is needed -/

/-- a map whose keys are not sorted -/
def O_exUnsorted : Val := .map [("b", .int 1), ("a", .int 2)]

/-- Go (filterMap: `ret[k2] = v2`, a map) yields the entries by key; the model yields them in input order -/
theorem filterOutput_eq_needs_WF :
    filterOutput' 3 O_exUnsorted = .ok (.map [("a", .int 2), ("b", .int 1)], none)
    ∧ filterOutput O_exUnsorted = .ok (some (.map [("b", .int 1), ("a", .int 2)]))
    ∧ filterOutput' 3 O_exUnsorted ≠ .ok (match filterOutput O_exUnsorted with
        | .ok r => (r.getD .null, none)
        | .error e => (filterOutputErrVal O_exUnsorted, some e))
    ∧ 2 * Go.depth O_exUnsorted + 1 ≤ 3 ∧ ¬ Val.WF O_exUnsorted := by
  decide

/-- sortedness of the top-level value is not enough: the unsorted map may sit anywhere inside -/
theorem filterOutput_eq_needs_WF_nested :
    filterOutput' 5 (.list [O_exUnsorted]) ≠ .ok (match filterOutput (.list [O_exUnsorted]) with
        | .ok r => (r.getD .null, none)
        | .error e => (filterOutputErrVal (.list [O_exUnsorted]), some e))
    ∧ 2 * Go.depth (.list [O_exUnsorted]) + 1 ≤ 5 := by
  decide

/-- the same for filterOutputMap directly (`Fields.SortedKeys` is what its own loop needs) -/
theorem filterOutputMap_eq_needs_sorted :
    filterOutputMap' 2 [("b", .int 1), ("a", .int 2)]
      ≠ .ok (match filterOutput (.map [("b", .int 1), ("a", .int 2)]) with
        | .ok r => (r.getD .null, none)
        | .error e => (.map [], some e)) := by
  decide

/-- and for filterOutputList (its own loop needs nothing, the elements do) -/
theorem filterOutputList_eq_needs_WF :
    filterOutputList' 4 [O_exUnsorted] ≠ .ok (match filterOutput (.list [O_exUnsorted]) with
        | .ok r => (r.getD .null, none)
        | .error e => (if hasListMapBool [O_exUnsorted] "$output" false then .null else .list [], some e)) := by
  decide

/-- a repeated key: Go keeps the later entry, the model both -/
theorem filterOutput_eq_needs_WF_dupkey :
    filterOutput' 3 (.map [("a", .int 1), ("a", .int 2)]) = .ok (.map [("a", .int 2)], none)
    ∧ filterOutput (.map [("a", .int 1), ("a", .int 2)]) = .ok (some (.map [("a", .int 1), ("a", .int 2)])) := by
  decide

/-- on the unsorted example the unconditional theorem gives the Go result -/
example : filterOutput' 3 O_exUnsorted = .ok (.map [("a", .int 2), ("b", .int 1)], none) := by
  rw [T_filterOutput_eq_norm O_exUnsorted 3 (by decide)]; decide

end Bkl.Gen.Lib
