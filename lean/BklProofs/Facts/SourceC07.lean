/-
  Source-level laws (C07): property theorems of the model composed with the translation-equivalence theorems, i.e. stated
  directly about the Lean functions generated from the CURRENT Go source (Generated/Trans).  Corollaries only.
-/
import BklProofs.C07
import BklProofs.Lemmas.Stream
import BklProofs.Facts.TransValidate
import BklProofs.Facts.TransFinalize
namespace Bkl.Gen.Lib
open Bkl Go

/-! # C07 on `validate'` -/

/-- `validate'` returns nil exactly when the model's `validate` succeeds -/
theorem S_C07_ok_iff (v : Val) {fuel : Nat} (h : 2 * Go.depth v + 1 ≤ fuel) :
    validate' fuel v = .ok none ↔ validate v = .ok () := by
  rw [T_validate_eq v fuel h]
  cases validate v with
  | ok u => simp [errOpt]
  | error e => simp [errOpt]

/-- `validate'` reports the error class `e` exactly when the model does -/
theorem S_C07_error_iff (v : Val) (e : Err) {fuel : Nat} (h : 2 * Go.depth v + 1 ≤ fuel) :
    validate' fuel v = .ok (some e) ↔ validate v = .error e := by
  rw [T_validate_eq v fuel h]
  cases validate v with
  | ok u => simp [errOpt]
  | error e' => simp [errOpt]

/-- **the translated validate.go:validate accepts exactly the clean trees**: no map key and no string leaf is
    `"$required"` or `$` followed by a lower-case letter -/
theorem S_C07_validate_iff (v : Val) {fuel : Nat} (h : 2 * Go.depth v + 1 ≤ fuel) :
    validate' fuel v = .ok none ↔ clean v = true := by
  rw [S_C07_ok_iff v h, validate_iff]

example : 2 * Go.depth (.map [("a", .list [.str "x", .str "$5"])]) + 1 ≤ 5 ∧
    clean (.map [("a", .list [.str "x", .str "$5"])]) = true ∧
    validate' 5 (.map [("a", .list [.str "x", .str "$5"])]) = .ok none ∧
    clean (.map [("a", .list [.str "x", .str "$merge"])]) = false ∧
    validate' 5 (.map [("a", .list [.str "x", .str "$merge"])]) = .ok (some Err.invalidDirective) := by
  refine ⟨by decide, by decide, by rfl, by decide, by rfl⟩

/-- the same for one string -/
theorem S_C07_validateString_iff (s : String) : validateString' s = .ok none ↔ badString s = false := by
  rw [validateString_eq, ← validateString_iff]
  cases validateString s with
  | ok u => simp [errOpt]
  | error e => simp [errOpt]

/-- the only errors are `requiredField` and `invalidDirective` -/
theorem S_C07_error_class (v : Val) (e : Err) {fuel : Nat} (h : 2 * Go.depth v + 1 ≤ fuel)
    (he : validate' fuel v = .ok (some e)) : e = .requiredField ∨ e = .invalidDirective :=
  validate_error v e ((S_C07_error_iff v e h).1 he)

/-- the `$required` case: the marker string itself is rejected with `requiredField` -/
theorem S_C07_required_string {fuel : Nat} (h : 1 ≤ fuel) :
    validate' fuel (.str "$required") = .ok (some Err.requiredField) :=
  (S_C07_error_iff _ _ (by simpa [Go.depth] using h)).2 (by decide)

/-- … and any tree that still contains a `$required` marker (`countReq`, the specification function of C17) is
    rejected, with one of the two classes -/
theorem S_C07_required_rejected (v : Val) (hr : 0 < countReq v) {fuel : Nat} (h : 2 * Go.depth v + 1 ≤ fuel) :
    validate' fuel v = .ok (some Err.requiredField) ∨ validate' fuel v = .ok (some Err.invalidDirective) := by
  rcases C07_required_rejected_error v hr with hv | hv
  · exact Or.inl ((S_C07_error_iff v _ h).2 hv)
  · exact Or.inr ((S_C07_error_iff v _ h).2 hv)

example : 0 < countReq (.map [("a", .list [.int 1, .str "$required"])]) ∧
    2 * Go.depth (.map [("a", .list [.int 1, .str "$required"])]) + 1 ≤ 5 ∧
    validate' 5 (.map [("a", .list [.int 1, .str "$required"])]) = .ok (some Err.requiredField) := by
  refine ⟨by decide, by decide, by rfl⟩

/-- every document the model's output stage emits is `finalizeOutput'` of a tree that `validate'` accepts -/
theorem S_C07_outputs_validated (ds outs : List Val) (h : emit ds = .ok outs) :
    ∀ o ∈ outs, ∃ v2, ∀ fuel, 2 * Go.depth v2 + 1 ≤ fuel →
      validate' fuel v2 = .ok none ∧ finalizeOutput' fuel v2 = .ok o := by
  intro o ho
  obtain ⟨v2, h1, h2⟩ := C07_outputs_validated ds outs h o ho
  exact ⟨v2, fun fuel hf => ⟨(S_C07_ok_iff v2 hf).2 h2, by rw [T_finalizeOutput_eq v2 fuel hf, h1]⟩⟩

example : emit [.map [("a", .int 1), ("b", .map [("$output", .bool false)])]] = .ok [.map [("a", .int 1)]] := by
  decide


end Bkl.Gen.Lib
