/-
  Fact obligation F10 (dispatch order): for every function of package bkl, the `$` literals of its
  body in source order, regenerated from /repo on every run.  The order in which a function tests
  for / pops directives is part of the semantics and is mirrored by the model function named on
  each line; a reordering, a new recogniser or a dropped one changes the regenerated table and
  this theorem stops checking (then the correspondence search looks for an input).
  Used by C01, C03, C06, C07, C10, C11, C12, C13, C14.
-/
import Bkl
import Generated.Facts
namespace Bkl

/-- (file, function, literals in source order) — and the model definition that follows the same order -/
def expectedDirectiveSeq : List ((String × String × String) × String) := [
  (("file.go", "parentsFromDirective", "$parent"), "Bkl.Files.parentDirective"),
  (("finalize.go", "finalizeString", "$$ $"), "Bkl.Output.unescapeChars"),
  (("get.go", "getCross", "$match $path"), "Bkl.Get.get (cross-document form)"),
  (("match.go", "matchMap", "$invert $merge $replace $encode"), "Bkl.Match.matchV / isPlaceholder"),
  (("merge.go", "mergeListList", "$replace $replace $required $delete $match"), "Bkl.Merge.mergeListList / mergeEntries: replace markers, strip $required, then per entry $delete before $match"),
  (("merge.go", "mergeListMatch", "$value"), "Bkl.Merge.mergeEntries ($value or the entry minus $match)"),
  (("merge.go", "mergeMapMap", "$replace $replace $delete"), "Bkl.Merge.mergeMapMap / mergeFields"),
  (("output.go", "filterOutputList", "$output"), "Bkl.Output.filterOutputList"),
  (("output.go", "filterOutputMap", "$output"), "Bkl.Output.filterOutputFields"),
  (("output.go", "findOutputsList", "$output"), "Bkl.Output.findOutputsList"),
  (("output.go", "findOutputsMap", "$output"), "Bkl.Output.findOutputsFields"),
  (("parser.go", "MergeFile", "$parent"), "Bkl.Files.mergeFileAlone (stripParent)"),
  (("parser.go", "mergePatchMatch", "$match"), "Bkl.Parser.mergeDocument"),
  (("process1.go", "process1List", "$merge $replace"), "Bkl.Process1.process1 (list: $merge entries, then $replace)"),
  (("process1.go", "process1Map", "$merge $merge $replace"), "Bkl.Process1.process1 (map: $merge before $replace)"),
  (("process1.go", "process1String", "$merge: $replace:"), "Bkl.Process1.process1 (string forms)"),
  (("process1.go", "process1StringMerge", "$merge:"), "Bkl.Process1.process1"),
  (("process1.go", "process1StringReplace", "$replace:"), "Bkl.Process1.process1"),
  (("process2.go", "process2DecodeStringMap", "$value"), "Bkl.Process2.process2 ($decode)"),
  (("process2.go", "process2List", "$encode $repeat"), "Bkl.Process2.process2 (list: trailing $encode entry, then $repeat entries)"),
  (("process2.go", "process2Map", "$repeat $encode $decode $value"), "Bkl.Process2.process2 (map: nested $repeat, then $encode BEFORE $decode, then $value) — theorem C14_process2_directive_dispatch"),
  (("process2.go", "process2RepeatObjList", "$repeat"), "Bkl.Process2.process2"),
  (("process2.go", "process2RepeatObjMap", "$repeat"), "Bkl.Process2.process2"),
  (("process2.go", "process2String", "$\" $env: $repeat"), "Bkl.Process2.process2String (interpolation, then $env:, then $repeat)"),
  (("process2.go", "process2StringInterp", "$\""), "Bkl.Process2.interpBody"),
  (("repeat.go", "repeatDocGen", "$repeat"), "Bkl.Process2.repeatGen"),
  (("repeat.go", "repeatDocList", "$repeat"), "Bkl.Process2.repeatDoc"),
  (("repeat.go", "repeatDocMap", "$repeat"), "Bkl.Process2.repeatDoc"),
  (("validate.go", "validateString", "$required"), "Bkl.Output.validateChars")]

/-- the slice of a table that belongs to the given source files -/
def seqOfFiles (files : List String) (t : List (String × String × String)) : List (String × String × String) :=
  t.filter fun e => files.contains e.1

/-- the files whose functions mention directive literals, grouped by the properties that rest on them
    (one theorem per group, in its own module, so that a change in one file disturbs only the checks
    that depend on it) -/
def dispatchGroups : List (String × List String) := [
  ("files",  ["file.go"]),                                   -- C03  (+ parser.go:MergeFile, listed under merge)
  ("merge",  ["match.go", "merge.go", "parser.go"]),         -- C01 C02 C03
  ("refs",   ["get.go", "process1.go"]),                     -- C10
  ("output", ["output.go"]),                                 -- C11
  ("eval",   ["process2.go", "repeat.go"]),                  -- C12 C13 C14
  ("escape", ["finalize.go", "validate.go"])]                -- C06 C07

/-- F10 (coverage): every function that mentions a directive literal lives in a file of some group —
    a NEW file with recognisers of its own stops this theorem, which every group's module imports -/
theorem F10_files_known :
    Facts.directiveSeq.all (fun e => (dispatchGroups.flatMap (·.2)).contains e.1) = true := by decide

end Bkl
