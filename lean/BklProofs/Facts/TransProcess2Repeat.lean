/-
  Translation equivalence, process2.go (2): the model's `process2` unfolded by one level over an arbitrary evaluator `P`
  for the level below (`process2_succ`: `expandM`, `mapBodyM`, `encodeM`, `decodeM`, `listBodyM`, `repListM`,
  `repMapM` are the inner folds of Bkl/Process2.lean:process2, verbatim), and the nested-`$repeat` loops
  process2RepeatObjList / process2RepeatObjMap of Generated/Trans/Process2.lean GIVEN a specification of the recursive
  `process2'` calls they make:
    `CallOK rec P ec v` : if `P ec.vars v` is not `unmodelled`, the call `rec ec v` returns a Go pair that agrees with
    it (`errNorm`: same error class; without an error the same value).
  Main theorems: T_process2RepeatObjList_eq, T_process2RepeatObjMap_eq (fuel `f + 1` when the calls are made at `f`;
  `ec.Clone()` + `ec.Vars["$repeat"] = i` is `fset ec.vars "$repeat" (.int i)`; a negative count is an empty loop).
-/
import BklProofs.Facts.TransProcess2String
import BklProofs.Facts.TransEncode2
import BklProofs.Facts.TransFilter
import BklProofs.Facts.TransValidate
set_option linter.unusedSimpArgs false
set_option linter.unusedVariables false
namespace Bkl.Gen.Lib
open Bkl Go

/-! ## the model's `process2`, one level unfolded, over an arbitrary evaluator `P` for the level below -/

/-- `$repeat` inside a list: the evaluated copies are appended -/
def repListM (P : Vars → Val → R Val) (ec : Vars) (body : Val) (is : List Nat) (acc : List Val) : R (List Val) :=
  is.foldlM (init := acc) fun acc2 i => do
    let v2 ← P (fset ec "$repeat" (.int (Int.ofNat i))) body
    if v2.isNull then pure acc2 else pure (acc2 ++ [v2])

/-- `$repeat` inside a map entry: the evaluated copies are stored under the evaluated key -/
def repMapM (P : Vars → Val → R Val) (ec : Vars) (k : String) (body : Val) (is : List Nat) (acc : Fields) : R Fields :=
  is.foldlM (init := acc) fun acc2 i => do
    let v2 ← P (fset ec "$repeat" (.int (Int.ofNat i))) body
    if v2.isNull then pure acc2
    else do
      match ← P (fset ec "$repeat" (.int (Int.ofNat i))) (.str k) with
      | .str k2 => pure (fset acc2 k2 v2)
      | _ => throw Err.invalidType

def expandStepM (P : Vars → Val → R Val) (ec : Vars) (acc : Fields) (kv : String × Val) : R Fields :=
  match kv.2 with
  | .map m =>
    match fget m "$repeat" with
    | some r =>
      match r with
      | .int n => repMapM P ec kv.1 (Val.map (fdel m "$repeat")) (List.range n.toNat) acc
      | _ => throw Err.invalidType
    | none => pure (fset acc kv.1 kv.2)
  | _ => pure (fset acc kv.1 kv.2)

def expandM (P : Vars → Val → R Val) (ec : Vars) (kvs0 : Fields) : R Fields :=
  kvs0.foldlM (init := ([] : Fields)) (expandStepM P ec)

def encodeM (P : Vars → Val → R Val) (ec : Vars) (obj spec : Val) : R Val := do
  let obj2 ← P ec obj
  validate obj2
  match encodeAny obj2 spec with
  | .ok v => pure v
  | .err e => throw e
  | .codec _ _ => throw Err.unmodelled

def decodeM (kvs : Fields) (spec : Val) : R Val :=
  match spec with
  | .str f =>
    let rest := fdel kvs "$decode"
    match fget rest "$value" with
    | none => throw Err.invalidType
    | some (.str _) =>
      if (fdel rest "$value").length != 0 then throw Err.extraKeys
      else if isCodecFormat f then throw Err.unmodelled else throw Err.unknownFormat
    | some _ => throw Err.invalidType
  | _ => throw Err.invalidType

def entryStepM (P : Vars → Val → R Val) (ec : Vars) (acc : Fields) (kv : String × Val) : R Fields := do
  let v2 ← P ec kv.2
  if v2.isNull then pure acc
  else
    match ← P ec (.str kv.1) with
    | .str k2 => pure (fset acc k2 v2)
    | _ => throw Err.invalidType

def mapBodyM (P : Vars → Val → R Val) (ec : Vars) (kvs : Fields) : R Val :=
  match fget kvs "$encode" with
  | some spec => encodeM P ec (.map (fdel kvs "$encode")) spec
  | none =>
    match fget kvs "$decode" with
    | some spec => decodeM kvs spec
    | none =>
      match fget kvs "$value" with
      | some v =>
        if (fdel kvs "$value").length != 0 then throw Err.extraKeys
        else P ec v
      | none => do
        let ret ← kvs.foldlM (init := ([] : Fields)) (entryStepM P ec)
        pure (.map ret)

def listStepM (P : Vars → Val → R Val) (ec : Vars) (acc : List Val) (v : Val) : R (List Val) :=
  match v with
  | .map m =>
    match fget m "$repeat" with
    | some r =>
      match r with
      | .int n => repListM P ec (Val.map (fdel m "$repeat")) (List.range n.toNat) acc
      | _ => throw Err.invalidType
    | none => do
      let v2 ← P ec v
      if v2.isNull then pure acc else pure (acc ++ [v2])
  | _ => do
    let v2 ← P ec v
    if v2.isNull then pure acc else pure (acc ++ [v2])

def listBodyM (P : Vars → Val → R Val) (ec : Vars) (xs : List Val) : R Val := do
  let (spec, rest) ← popListMapValue xs "$encode"
  if !spec.isNull then encodeM P ec (.list rest) spec
  else do
    let ret ← rest.foldlM (init := ([] : List Val)) (listStepM P ec)
    pure (.list ret)

theorem process2_succ (F : Nat) (docs : List Val) (root : Val) (ec : Vars) (obj : Val) :
    process2 (F + 1) docs root ec obj =
      match obj with
      | .map kvs0 => expandM (process2 F docs root) ec kvs0 >>= mapBodyM (process2 F docs root) ec
      | .list xs => listBodyM (process2 F docs root) ec xs
      | .str s => process2String (F + 1) docs root ec s
      | _ => pure obj := by
  cases obj with
  | map kvs0 => rw [process2]; rfl
  | list xs => rw [process2]; rfl
  | str s => rw [process2]
  | _ => rw [process2] <;> (intros; simp_all)

/-! ## reading Go result pairs -/

/-- a recursive call of the translated `process2'` (`rec`, at some fuel and depth) agrees with the evaluator `P`
    wherever `P` does not answer `unmodelled`: the same error class, and without an error the same value (next to an
    error the Go value is not looked at: `errNorm`) -/
def CallOK (rec : Go.Ctx → Val → G (Val × Option Err)) (P : Vars → Val → R Val) (ec : Go.Ctx) (v : Val) : Prop :=
  P ec.vars v ≠ .error Err.unmodelled → ∃ q, rec ec v = .ok q ∧ errNorm q = valRes (P ec.vars v)

theorem errNorm_ok {q : Val × Option Err} {v : Val} (h : errNorm q = valRes (.ok v)) : q = (v, none) := by
  obtain ⟨a, b⟩ := q
  cases b <;> simp_all [errNorm]

theorem errNorm_err {q : Val × Option Err} {e : Err} (h : errNorm q = valRes (.error e)) : q.2 = some e := by
  obtain ⟨a, b⟩ := q
  cases b <;> simp_all [errNorm]

theorem err_ne_cast {α β : Type} {e : Err} (h : (Except.error e : R α) ≠ .error Err.unmodelled) :
    (Except.error e : R β) ≠ .error Err.unmodelled := fun h' => h (by cases h'; rfl)

theorem some_bne_none (e : Err) : ((some e : Option Err) != none) = true := rfl
theorem none_bne_none : ((none : Option Err) != none) = false := rfl
theorem p2_some_beq_none (e : Err) : ((some e : Option Err) == none) = false := rfl
theorem p2_none_beq_none : ((none : Option Err) == none) = true := rfl

def P2_listRes : R (List Val) → List Val × Option Err
  | .ok l => (l, none)
  | .error e => ([], some e)

def P2_fieldsRes : R Fields → Fields × Option Err
  | .ok l => (l, none)
  | .error e => ([], some e)

@[simp] theorem listRes_ok (l : List Val) : P2_listRes (.ok l) = (l, none) := rfl
@[simp] theorem listRes_error (e : Err) : P2_listRes (.error e) = ([], some e) := rfl
@[simp] theorem fieldsRes_ok (l : Fields) : P2_fieldsRes (.ok l) = (l, none) := rfl
@[simp] theorem fieldsRes_error (e : Err) : P2_fieldsRes (.error e) = ([], some e) := rfl

/-! ## `fsetAll` on sorted maps -/

theorem fget_fsetAll_sorted (s : Fields) (hs : Fields.SortedKeys s) (d : Fields) (k : String) :
    fget (fsetAll d s) k = (match fget s k with | some v => some v | none => fget d k) := by
  induction s generalizing d with
  | nil => rfl
  | cons p rest ih =>
    obtain ⟨k1, v1⟩ := p
    rw [gu_fsetAll_cons, ih (sorted_tail hs)]
    simp only [fget, fget_fset]
    by_cases hk : k1 = k
    · subst hk; simp [fget_tail_head_none hs]
    · have hk' : ¬ k = k1 := fun h => hk h.symm
      simp [hk, hk']

theorem fsetAll_fset_sorted {acc acc0 : Fields} (ha : Fields.SortedKeys acc) (h0 : Fields.SortedKeys acc0)
    (k : String) (v : Val) : fsetAll acc (fset acc0 k v) = fset (fsetAll acc acc0) k v := by
  apply sorted_ext (gu_sorted_fsetAll _ ha) (sorted_fset (gu_sorted_fsetAll _ ha))
  intro k'
  rw [fget_fsetAll_sorted _ (sorted_fset h0), fget_fset, fget_fset, fget_fsetAll_sorted _ h0]
  by_cases hk : k' = k <;> simp [hk]

/-! ## `$repeat` loops -/

theorem repListM_cons (P : Vars → Val → R Val) (ec : Vars) (body : Val) (i : Nat) (is : List Nat) (acc : List Val) :
    repListM P ec body (i :: is) acc =
      (match P (fset ec "$repeat" (.int (Int.ofNat i))) body with
       | .error e => .error e
       | .ok v2 => repListM P ec body is (if v2.isNull then acc else acc ++ [v2])) := by
  unfold repListM
  rw [List.foldlM_cons]
  cases P (fset ec "$repeat" (.int (Int.ofNat i))) body with
  | error e => rfl
  | ok v2 => cases h : v2.isNull <;> simp [h, bind, Except.bind, pure, Except.pure]

theorem repList_loop (rec : Go.Ctx → Val → G (Val × Option Err)) (P : Vars → Val → R Val) (ec : Go.Ctx) (bodyV : Val)
    (body : Int → List Val → G (Loop (List Val) (List Val × Option Err)))
    (hbody : ∀ (i : Nat) acc, body (Int.ofNat i) acc =
      match rec ⟨fset ec.vars "$repeat" (.int (Int.ofNat i))⟩ bodyV with
      | .error e => .error e
      | .ok (v2, err) =>
        if err != none then .ok (.ret ([], err))
        else if v2 == Val.null then .ok (.next acc) else .ok (.next (acc ++ [v2])))
    (is : List Nat) (acc : List Val)
    (hrec : ∀ i ∈ is, CallOK rec P ⟨fset ec.vars "$repeat" (.int (Int.ofNat i))⟩ bodyV)
    (hmod : repListM P ec.vars bodyV is acc ≠ .error Err.unmodelled) :
    forRange (is.map Int.ofNat) acc body = .ok (match repListM P ec.vars bodyV is acc with
      | .ok l => .inl l
      | .error e => .inr ([], some e)) := by
  induction is generalizing acc with
  | nil => rfl
  | cons i is ih =>
    rw [repListM_cons] at hmod ⊢
    rw [List.map_cons]
    cases hP : P (fset ec.vars "$repeat" (.int (Int.ofNat i))) bodyV with
    | error e =>
      rw [hP] at hmod
      simp only [] at hmod
      obtain ⟨q, hq, hn⟩ := hrec i List.mem_cons_self (by rw [hP]; exact err_ne_cast hmod)
      rw [hP] at hn
      have h2 := errNorm_err hn
      obtain ⟨a, b⟩ := q
      simp only at h2; subst h2
      rw [forRange_cons_ret (r := ([], some e)) (by rw [hbody, hq]; rfl)]
    | ok v2 =>
      rw [hP] at hmod
      obtain ⟨q, hq, hn⟩ := hrec i List.mem_cons_self (by rw [hP]; intro h; cases h)
      rw [hP] at hn
      have h2 := errNorm_ok hn
      subst h2
      simp only []
      rw [forRange_cons_next (s' := if v2.isNull then acc else acc ++ [v2])
        (by rw [hbody, hq]; simp only [beq_null_eq_isNull]; cases v2.isNull <;> rfl)]
      exact ih _ (fun j hj => hrec j (List.mem_cons_of_mem _ hj)) hmod

theorem repMapM_cons (P : Vars → Val → R Val) (ec : Vars) (k : String) (body : Val) (i : Nat) (is : List Nat)
    (acc : Fields) :
    repMapM P ec k body (i :: is) acc =
      (match P (fset ec "$repeat" (.int (Int.ofNat i))) body with
       | .error e => .error e
       | .ok v2 =>
         if v2.isNull then repMapM P ec k body is acc
         else match P (fset ec "$repeat" (.int (Int.ofNat i))) (.str k) with
           | .error e => .error e
           | .ok (.str k2) => repMapM P ec k body is (fset acc k2 v2)
           | .ok _ => .error Err.invalidType) := by
  unfold repMapM
  rw [List.foldlM_cons]
  cases P (fset ec "$repeat" (.int (Int.ofNat i))) body with
  | error e => rfl
  | ok v2 =>
    cases h : v2.isNull
    · simp only [h, bind, Except.bind, Bool.false_eq_true, if_false]
      cases P (fset ec "$repeat" (.int (Int.ofNat i))) (.str k) with
      | error e => rfl
      | ok k2 => cases k2 <;> rfl
    · simp [h, bind, Except.bind, pure, Except.pure]

theorem repMap_loop (rec : Go.Ctx → Val → G (Val × Option Err)) (P : Vars → Val → R Val) (ec : Go.Ctx) (k : String)
    (bodyV : Val) (body : Int → Fields → G (Loop Fields (Fields × Option Err)))
    (hbody : ∀ (i : Nat) acc, body (Int.ofNat i) acc =
      match rec ⟨fset ec.vars "$repeat" (.int (Int.ofNat i))⟩ bodyV with
      | .error e => .error e
      | .ok (v2, err) =>
        if err != none then .ok (.ret ([], err))
        else if v2 == Val.null then .ok (.next acc)
        else match rec ⟨fset ec.vars "$repeat" (.int (Int.ofNat i))⟩ (.str k) with
          | .error e => .error e
          | .ok (k2, err) =>
            if err != none then .ok (.ret ([], err))
            else if !(Go.asStr k2).2 then .ok (.ret ([], some Err.invalidType))
            else .ok (.next (fset acc (Go.asStr k2).1 v2)))
    (is : List Nat) (acc : Fields)
    (hrec : ∀ i ∈ is, CallOK rec P ⟨fset ec.vars "$repeat" (.int (Int.ofNat i))⟩ bodyV ∧
      CallOK rec P ⟨fset ec.vars "$repeat" (.int (Int.ofNat i))⟩ (.str k))
    (hmod : repMapM P ec.vars k bodyV is acc ≠ .error Err.unmodelled) :
    forRange (is.map Int.ofNat) acc body = .ok (match repMapM P ec.vars k bodyV is acc with
      | .ok l => .inl l
      | .error e => .inr ([], some e)) := by
  induction is generalizing acc with
  | nil => rfl
  | cons i is ih =>
    rw [repMapM_cons] at hmod ⊢
    rw [List.map_cons]
    have ih' := fun acc => ih acc (fun j hj => hrec j (List.mem_cons_of_mem _ hj))
    cases hP : P (fset ec.vars "$repeat" (.int (Int.ofNat i))) bodyV with
    | error e =>
      rw [hP] at hmod
      simp only [] at hmod
      obtain ⟨q, hq, hn⟩ := (hrec i List.mem_cons_self).1 (by rw [hP]; exact err_ne_cast hmod)
      rw [hP] at hn
      have h2 := errNorm_err hn
      obtain ⟨a, b⟩ := q
      simp only at h2; subst h2
      rw [forRange_cons_ret (r := ([], some e)) (by rw [hbody, hq]; rfl)]
    | ok v2 =>
      rw [hP] at hmod
      obtain ⟨q, hq, hn⟩ := (hrec i List.mem_cons_self).1 (by rw [hP]; intro h; cases h)
      rw [hP] at hn
      have h2 := errNorm_ok hn
      subst h2
      simp only [] at hmod ⊢
      cases hnull : v2.isNull with
      | true =>
        simp only [hnull, if_true] at hmod ⊢
        rw [forRange_cons_next (s' := acc) (by rw [hbody, hq]; simp only [none_bne_none, Bool.false_eq_true, if_false, beq_null_eq_isNull, hnull, if_true])]
        exact ih' _ hmod
      | false =>
        simp only [hnull, Bool.false_eq_true, if_false] at hmod ⊢
        cases hK : P (fset ec.vars "$repeat" (.int (Int.ofNat i))) (.str k) with
        | error e =>
          rw [hK] at hmod
          simp only [] at hmod
          obtain ⟨q2, hq2, hn2⟩ := (hrec i List.mem_cons_self).2 (by rw [hK]; exact err_ne_cast hmod)
          rw [hK] at hn2
          have h2 := errNorm_err hn2
          obtain ⟨a, b⟩ := q2
          simp only at h2; subst h2
          rw [forRange_cons_ret (r := ([], some e))
            (by rw [hbody, hq]; simp only [none_bne_none, some_bne_none, Bool.false_eq_true, if_false, beq_null_eq_isNull, hnull, if_true, hq2])]
        | ok k2 =>
          rw [hK] at hmod
          obtain ⟨q2, hq2, hn2⟩ := (hrec i List.mem_cons_self).2 (by rw [hK]; intro h; cases h)
          rw [hK] at hn2
          have h2 := errNorm_ok hn2
          subst h2
          by_cases hs : ∃ s2, k2 = .str s2
          · obtain ⟨s2, rfl⟩ := hs
            simp only [] at hmod ⊢
            rw [forRange_cons_next (s' := fset acc s2 v2)
              (by rw [hbody, hq]; simp only [none_bne_none, some_bne_none, Bool.false_eq_true, if_false, beq_null_eq_isNull, hnull, if_true, hq2, Go.asStr, Bool.not_true])]
            exact ih' _ hmod
          · have h1 : (Go.asStr k2).2 = false := by
              cases k2 <;> first | rfl | exact absurd ⟨_, rfl⟩ hs
            rw [forRange_cons_ret (r := ([], some Err.invalidType))
              (by rw [hbody, hq]; simp only [none_bne_none, some_bne_none, Bool.false_eq_true, if_false, beq_null_eq_isNull, hnull, if_true, hq2, h1, Bool.not_false])]
            cases k2 <;> first | rfl | exact absurd ⟨_, rfl⟩ hs

/-! ## process2RepeatObjList / process2RepeatObjMap, given the recursive calls -/

section
variable (ms : Go.Opaque → List Val → String × Option Err) (us : Go.Opaque → String → List Val × Option Err)
  (gf : String → Go.Opaque × Option Err) (nz : Val → Val × Option Err) (yu : String → Val × Option Err)

/-- the model's nested `$repeat` in a list, from the empty accumulator -/
def repListSpec (P : Vars → Val → R Val) (ec : Vars) (v : Fields) (r : Val) : R (List Val) :=
  match r with
  | .int n => repListM P ec (.map v) (List.range n.toNat) []
  | _ => .error Err.invalidType

/-- the model's nested `$repeat` in a map entry, from the empty accumulator -/
def repMapSpec (P : Vars → Val → R Val) (ec : Vars) (k : String) (v : Fields) (r : Val) : R Fields :=
  match r with
  | .int n => repMapM P ec k (.map v) (List.range n.toNat) []
  | _ => .error Err.invalidType

/-- process2.go:process2RepeatObjList, given that the calls `process2(v, …, ec{$repeat: i}, depth)` it makes agree
    with `P` (wherever `P` is not `unmodelled`) -/
theorem T_process2RepeatObjList_eq (P : Vars → Val → R Val) (f : Nat) (v : Fields) (mf : Go.Doc) (docs : List Go.Doc)
    (ec : Go.Ctx) (r : Val) (depth : Int)
    (hrec : ∀ i : Nat, i < (Go.asInt r).1.toNat →
      CallOK (fun ec' x => process2' ms us gf nz yu f x mf docs ec' depth) P
        ⟨fset ec.vars "$repeat" (.int (Int.ofNat i))⟩ (.map v))
    (hmod : repListSpec P ec.vars v r ≠ .error Err.unmodelled) :
    process2RepeatObjList' ms us gf nz yu (f + 1) v mf docs ec r depth =
      .ok (P2_listRes (repListSpec P ec.vars v r)) := by
  unfold process2RepeatObjList'
  by_cases hr : ∃ n, r = .int n
  · obtain ⟨n, rfl⟩ := hr
    simp only [Go.asInt, Bool.not_true, Bool.false_eq_true, if_false, Go.intRange, repListSpec] at hrec hmod ⊢
    rw [repList_loop (fun ec' x => process2' ms us gf nz yu f x mf docs ec' depth) P ec (.map v) _ ?_
      (List.range n.toNat) [] (fun i hi => hrec i (List.mem_range.1 hi)) hmod]
    · cases repListM P ec.vars (.map v) (List.range n.toNat) [] <;> rfl
    · intro i acc
      simp only [T_EvalContext_Clone_eq]
      cases process2' ms us gf nz yu f (Val.map v) mf docs ⟨fset ec.vars "$repeat" (.int (Int.ofNat i))⟩ depth with
      | error e => rfl
      | ok q => obtain ⟨v2, err⟩ := q; cases err <;> rfl
  · have h1 : (Go.asInt r).2 = false := by
      cases r <;> first | rfl | exact absurd ⟨_, rfl⟩ hr
    have h2 : repListSpec P ec.vars v r = .error Err.invalidType := by
      cases r <;> first | rfl | exact absurd ⟨_, rfl⟩ hr
    simp [h1, h2]

/-- process2.go:process2RepeatObjMap, given the calls `process2(v, …)` and `process2(k, …)` it makes -/
theorem T_process2RepeatObjMap_eq (P : Vars → Val → R Val) (f : Nat) (v : Fields) (mf : Go.Doc) (docs : List Go.Doc)
    (ec : Go.Ctx) (k : String) (r : Val) (depth : Int)
    (hrec : ∀ i : Nat, i < (Go.asInt r).1.toNat →
      CallOK (fun ec' x => process2' ms us gf nz yu f x mf docs ec' depth) P
        ⟨fset ec.vars "$repeat" (.int (Int.ofNat i))⟩ (.map v) ∧
      CallOK (fun ec' x => process2' ms us gf nz yu f x mf docs ec' depth) P
        ⟨fset ec.vars "$repeat" (.int (Int.ofNat i))⟩ (.str k))
    (hmod : repMapSpec P ec.vars k v r ≠ .error Err.unmodelled) :
    process2RepeatObjMap' ms us gf nz yu (f + 1) v mf docs ec k r depth =
      .ok (P2_fieldsRes (repMapSpec P ec.vars k v r)) := by
  unfold process2RepeatObjMap'
  by_cases hr : ∃ n, r = .int n
  · obtain ⟨n, rfl⟩ := hr
    simp only [Go.asInt, Bool.not_true, Bool.false_eq_true, if_false, Go.intRange, repMapSpec] at hrec hmod ⊢
    rw [repMap_loop (fun ec' x => process2' ms us gf nz yu f x mf docs ec' depth) P ec k (.map v) _ ?_
      (List.range n.toNat) [] (fun i hi => hrec i (List.mem_range.1 hi)) hmod]
    · cases repMapM P ec.vars k (.map v) (List.range n.toNat) [] <;> rfl
    · intro i acc
      simp only [T_EvalContext_Clone_eq]
      cases process2' ms us gf nz yu f (Val.map v) mf docs ⟨fset ec.vars "$repeat" (.int (Int.ofNat i))⟩ depth with
      | error e => rfl
      | ok q =>
        obtain ⟨v2, err⟩ := q
        cases err with
        | some e0 => rfl
        | none =>
          simp only [beq_self_eq_true, bne_self_eq_false, Bool.false_eq_true, if_true, if_false]
          split
          · rfl
          · cases process2' ms us gf nz yu f (Val.str k) mf docs ⟨fset ec.vars "$repeat" (.int (Int.ofNat i))⟩ depth with
            | error e => rfl
            | ok q =>
              obtain ⟨k2, e2⟩ := q
              cases e2 with
              | some e1 => rfl
              | none =>
                simp only [beq_self_eq_true, bne_self_eq_false, Bool.false_eq_true, if_true, if_false]
                cases (asStr k2).snd <;> rfl
  · have h1 : (Go.asInt r).2 = false := by
      cases r <;> first | rfl | exact absurd ⟨_, rfl⟩ hr
    have h2 : repMapSpec P ec.vars k v r = .error Err.invalidType := by
      cases r <;> first | rfl | exact absurd ⟨_, rfl⟩ hr
    simp [h1, h2]
end

end Bkl.Gen.Lib
