/-
  Translation equivalence, validate.go: the Lean definitions that harness/cmd/gotrans writes from /repo's CURRENT
  validate.go (Generated/Trans/Validate.lean, regenerated on every run) compute the model's `validate`.
  A change of validate.go that changes its meaning makes these theorems fail to check.
-/
import Generated.Trans.Validate
import BklProofs.Lemmas.GoLib
namespace Bkl.Gen.Lib
open Bkl Go

def errOpt : R Unit → Option Err
  | .ok _ => none
  | .error e => some e

theorem validateString_eq (s : String) : validateString' s = .ok (errOpt (validateString s)) := by
  unfold validateString' validateString validateChars
  by_cases h : s = "$required"
  · subst h; simp [errOpt]; rfl
  · have h' : ¬ s.toList = "$required".toList := fun hh => h (String.toList_inj.mp hh)
    simp only [beq_iff_eq, h, h', if_false]
    rcases hs : s.toList with _ | ⟨a, _ | ⟨b, rest⟩⟩
    · simp [errOpt, pure, Except.pure]
    · simp [errOpt, pure, Except.pure]
    · simp only [List.length_cons, runeAt]
      by_cases ha : a = '$'
      · subst ha
        by_cases hb : isLowerModel b <;> simp [hb, errOpt, pure, Except.pure, throw, throwThe, MonadExceptOf.throw]
        all_goals omega
      · have hne : ¬ (a = Char.ofNat 36) := ha
        split
        · rename_i heq; simp at heq; try (exact absurd heq.1 ha)
        · simp [hne, errOpt, pure, Except.pure]


@[simp] theorem errOpt_ok (u : Unit) : errOpt (.ok u) = none := rfl
@[simp] theorem errOpt_error (e : Err) : errOpt (.error e) = some e := rfl

theorem validateList_loop (fuel : Nat) (xs : List Val)
    (hall : ∀ x ∈ xs, validate' fuel x = .ok (errOpt (validate x))) :
    validateList' (fuel + 1) xs = .ok (errOpt (validateList xs)) := by
  unfold validateList'
  simp only []
  induction xs with
  | nil => simp [validateList, pure, Except.pure]
  | cons x xs ih =>
    have hx := hall x (List.mem_cons_self)
    have ih' := ih (fun y hy => hall y (List.mem_cons_of_mem _ hy))
    cases hv : validate x with
    | error e =>
      rw [forRange_cons_ret (r := some e)]
      · simp [validateList, hv, bind, Except.bind]
      · simp [hx, hv]
    | ok u =>
      rw [forRange_cons_next (s' := ())]
      · simp only [validateList, hv, bind, Except.bind]; exact ih'
      · simp [hx, hv]


theorem validateMap_loop (fuel : Nat) (kvs : Fields)
    (hk : ∀ k : String, validate' fuel (.str k) = .ok (errOpt (validateString k)))
    (hall : ∀ k v, (k, v) ∈ kvs → validate' fuel v = .ok (errOpt (validate v))) :
    validateMap' (fuel + 1) kvs = .ok (errOpt (validateFields kvs)) := by
  unfold validateMap'
  simp only []
  induction kvs with
  | nil => simp [validateFields, pure, Except.pure]
  | cons kv kvs ih =>
    obtain ⟨k, v⟩ := kv
    have hv := hall k v (List.mem_cons_self)
    have ih' := ih (fun k' v' hy => hall k' v' (List.mem_cons_of_mem _ hy))
    cases hks : validateString k with
    | error e =>
      rw [forRange_cons_ret (r := some e)]
      · simp [validateFields, hks, bind, Except.bind]
      · simp [hk, hks]
    | ok u =>
      cases hvv : validate v with
      | error e =>
        rw [forRange_cons_ret (r := some e)]
        · simp [validateFields, hks, hvv, bind, Except.bind]
        · simp [hk, hks, hv, hvv]
      | ok u' =>
        rw [forRange_cons_next (s' := ())]
        · simp only [validateFields, hks, hvv, bind, Except.bind]; exact ih'
        · simp [hk, hks, hv, hvv]

/-- validate.go, as translated from the current source, is the model's `validate` (for every value, given fuel
    for its nesting depth) -/
theorem validate_eq_aux : ∀ (n : Nat) (v : Val), Go.depth v ≤ n → ∀ fuel, 2 * n + 1 ≤ fuel →
    validate' fuel v = .ok (errOpt (validate v)) := by
  intro n
  induction n with
  | zero =>
    intro v hd fuel hf
    obtain ⟨f, rfl⟩ : ∃ f, fuel = f + 1 := ⟨fuel - 1, by omega⟩
    cases v with
    | map kvs => simp [Go.depth] at hd
    | list xs => simp [Go.depth] at hd
    | str s => simp [validate', validate, validateString_eq]
    | null => simp [validate', validate, pure, Except.pure]
    | bool b => simp [validate', validate, pure, Except.pure]
    | int i => simp [validate', validate, pure, Except.pure]
    | flt r => simp [validate', validate, pure, Except.pure]
  | succ m ih =>
    intro v hd fuel hf
    obtain ⟨f, rfl⟩ : ∃ f, fuel = f + 2 := ⟨fuel - 2, by omega⟩
    have hstr : ∀ k : String, validate' f (.str k) = .ok (errOpt (validateString k)) := by
      intro k
      have := ih (.str k) (by simp [Go.depth]) f (by omega)
      simpa [validate] using this
    cases v with
    | map kvs =>
      have hall : ∀ k v, (k, v) ∈ kvs → validate' f v = .ok (errOpt (validate v)) := by
        intro k v hm
        have := Go.depth_le_of_mem_fields hm
        simp only [Go.depth] at hd
        exact ih v (by omega) f (by omega)
      simp [validate', validateMap_loop f kvs hstr hall, validate]
    | list xs =>
      have hall : ∀ x ∈ xs, validate' f x = .ok (errOpt (validate x)) := by
        intro x hm
        have := Go.depth_le_of_mem_list hm
        simp only [Go.depth] at hd
        exact ih x (by omega) f (by omega)
      simp [validate', validateList_loop f xs hall, validate]
    | str s => simp [validate', validate, validateString_eq]
    | null => simp [validate', validate, pure, Except.pure]
    | bool b => simp [validate', validate, pure, Except.pure]
    | int i => simp [validate', validate, pure, Except.pure]
    | flt r => simp [validate', validate, pure, Except.pure]

theorem T_validate_eq (v : Val) (fuel : Nat) (h : 2 * Go.depth v + 1 ≤ fuel) :
    validate' fuel v = .ok (errOpt (validate v)) :=
  validate_eq_aux (Go.depth v) v (Nat.le_refl _) fuel h

end Bkl.Gen.Lib
