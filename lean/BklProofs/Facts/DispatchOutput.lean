/-
  Fact obligation F10, slice "output": the directive literals, in source order, of every function of
  output.go are the ones the model mirrors (table and explanation: BklProofs/Facts/Dispatch.lean).
-/
import BklProofs.Facts.Dispatch
namespace Bkl

theorem F10_dispatch_order_output :
    seqOfFiles ["output.go"] Facts.directiveSeq = seqOfFiles ["output.go"] (expectedDirectiveSeq.map (·.1)) := by decide

end Bkl
