/-
  Source-level laws (Match): property theorems of the model composed with the translation-equivalence theorems, i.e. stated
  directly about the Lean functions generated from the CURRENT Go source (Generated/Trans).  Corollaries only.
-/
import BklProofs.C10
import BklProofs.Lemmas.Tools
import BklProofs.Facts.TransMatch
namespace Bkl.Gen.Lib
open Bkl Go

theorem S_depthFields_fdel_le (m : Fields) (k : String) : Go.depthFields (fdel m k) ≤ Go.depthFields m := by
  induction m with
  | nil => simp [fdel]
  | cons p rest ih =>
    obtain ⟨k', v'⟩ := p
    simp only [fdel]
    split
    · simp only [Go.depthFields]; omega
    · simp only [Go.depthFields]; omega

/-! # `match'` -/

/-- model lemma: with the `$invert: true` entry popped, the loop of matchMap runs over the other entries -/
theorem matchFields_skip_fdel (okvs pat : Fields) :
    matchFields okvs true pat = matchFields okvs false (fdel pat "$invert") := by
  induction pat with
  | nil => rfl
  | cons p rest ih =>
    obtain ⟨k, v⟩ := p
    by_cases hk : k = "$invert"
    · subst hk; simp [matchFields, fdel, ih]
    · simp [matchFields, fdel, hk, ih]

/-- model lemma: `$invert: true` negates the match of the rest of the pattern -/
theorem matchV_invert (obj : Val) (pat : Fields) (hi : fhasBool pat "$invert" true = true) :
    matchV obj (.map pat) = !matchV obj (.map (fdel pat "$invert")) := by
  have h0 : fhasBool (fdel pat "$invert") "$invert" true = false := by
    unfold fhasBool; rw [fget_fdel_same]
  cases obj <;> simp [matchV, hi, h0, matchFields_skip_fdel]

/-- **`$invert` negates**: a pattern carrying `$invert: true` matches exactly when the pattern without that entry
    does not -/
theorem S_match_invert (obj : Val) (pat : Fields) (hi : fhasBool pat "$invert" true = true) {fuel : Nat}
    (h : 3 * Go.depth (.map pat) + 1 ≤ fuel) :
    ∃ b, match' fuel obj (.map (fdel pat "$invert")) = .ok b ∧ match' fuel obj (.map pat) = .ok (!b) := by
  have hd := S_depthFields_fdel_le pat "$invert"
  refine ⟨matchV obj (.map (fdel pat "$invert")), T_match_eq _ _ fuel ?_, ?_⟩
  · simp only [Go.depth] at h ⊢; omega
  · rw [T_match_eq _ _ fuel h, matchV_invert obj pat hi]

example : fhasBool [("$invert", .bool true), ("a", .int 1)] "$invert" true = true ∧
    3 * Go.depth (.map [("$invert", .bool true), ("a", .int 1)]) + 1 ≤ 4 ∧
    match' 4 (.map [("a", .int 1)]) (.map [("$invert", .bool true), ("a", .int 1)]) = .ok false ∧
    match' 4 (.map [("a", .int 2)]) (.map [("$invert", .bool true), ("a", .int 1)]) = .ok true := by
  refine ⟨by decide, by decide, by rfl, by rfl⟩

/-- a plain value (well-formed, no nulls, no `$` keys) used as a pattern matches itself -/
theorem S_match_refl_plain (e : Val) (hp : plainVal e = true) {fuel : Nat} (h : 3 * Go.depth e + 1 ≤ fuel) :
    match' fuel e e = .ok true := by
  rw [T_match_eq e e fuel h, matchV_refl_plain e hp]

example : plainVal (.map [("a", .list [.int 1, .str "x"]), ("b", .bool true)]) = true ∧
    3 * Go.depth (.map [("a", .list [.int 1, .str "x"]), ("b", .bool true)]) + 1 ≤ 7 := by decide

/-- a scalar (or null) pattern matches exactly the equal value -/
theorem S_match_scalar (obj pat : Val) (hp : pat.isScalar = true ∨ pat = .null) {fuel : Nat} (h : 1 ≤ fuel) :
    match' fuel obj pat = .ok (obj == pat) := by
  have hd : Go.depth pat = 0 := by
    rcases hp with hp | rfl
    · cases pat <;> simp_all [Val.isScalar, Go.depth]
    · rfl
  rw [T_match_eq obj pat fuel (by omega)]
  rcases hp with hp | rfl
  · cases pat <;> simp_all [Val.isScalar, matchV]
  · simp [matchV]

/-- an unexpanded placeholder `{$merge|$replace|$encode: _}` never matches a map pattern without `$invert: true`,
    and always matches one with it (`C10_placeholder_never_matches`, `C10_placeholder_invert_matches`) -/
theorem S_match_placeholder (k : String) (v : Val) (pat : Fields)
    (hk : k = "$merge" ∨ k = "$replace" ∨ k = "$encode") {fuel : Nat} (h : 3 * Go.depth (.map pat) + 1 ≤ fuel) :
    match' fuel (.map [(k, v)]) (.map pat) = .ok (fhasBool pat "$invert" true) := by
  rw [T_match_eq _ _ fuel h]
  cases hi : fhasBool pat "$invert" true with
  | false => rw [C10_placeholder_never_matches k v pat hk hi]
  | true => rw [C10_placeholder_invert_matches k v pat hk hi]

example : match' 4 (.map [("$merge", .str "x")]) (.map []) = .ok false ∧
    match' 4 (.map [("$merge", .str "x")]) (.map [("$invert", .bool true)]) = .ok true := ⟨by rfl, by rfl⟩


end Bkl.Gen.Lib
