/-
  Fact obligation F10, slice "files": the directive literals, in source order, of every function of
  file.go are the ones the model mirrors (table and explanation: BklProofs/Facts/Dispatch.lean).
-/
import BklProofs.Facts.Dispatch
namespace Bkl

theorem F10_dispatch_order_files :
    seqOfFiles ["file.go"] Facts.directiveSeq = seqOfFiles ["file.go"] (expectedDirectiveSeq.map (·.1)) := by decide

end Bkl
