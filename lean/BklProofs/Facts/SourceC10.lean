/-
  Source-level laws (C10): property theorems of the model composed with the translation-equivalence theorems, i.e. stated
  directly about the Lean functions generated from the CURRENT Go source (Generated/Trans).  Corollaries only.
-/
import BklProofs.C10
import BklProofs.Facts.TransGet
namespace Bkl.Gen
open Bkl Go

/-! # C10 — reference resolution, on `get'`

  `yu` = yaml.Unmarshal of a reference string is the parameter of the translated function (`ParseOK yu` ties it to the
  model's reader on the modelled sub-language); `doc` is the referencing document, `docs` the stream (all non-nil).
  Fuel: `refFuel m + 1` for the reference and `depth of the documents + 2` for the deep clone of the result.
  No well-formedness is needed for the error laws (`T_get_eq_norm`). -/

/-- A FAILING REFERENCE IS AN ERROR, NEVER SILENTLY DROPPED: whenever the model's `get` fails with the class `e`
    (other than the model's own "unmodelled"), the translated `get` returns `(nil, e)` -/
theorem S_C10_error_is_error (yu : String → Val × Option Err) (hyu : Lib.ParseOK yu)
    (doc : Go.Doc) (docs : List Go.Doc) (m : Val) (hnil : ∀ d ∈ docs, d.isNil = false)
    (e : Err) (he : get doc.data (docs.map (·.data)) m = .error e) (hne : e ≠ Err.unmodelled)
    (fuel : Nat) (h : Lib.refFuel m + 1 ≤ fuel) (hdepth : Go.depthList (doc.data :: docs.map (·.data)) + 2 ≤ fuel) :
    Lib.get' yu fuel doc docs m = .ok (.null, some e) := by
  rw [Lib.T_get_eq_norm yu hyu doc docs m hnil (by rw [he]; intro h; cases h; exact hne rfl) fuel h hdepth, he]
  rfl

/-- a dangling path reference `[p, …]` (`C10_getPath_spec`, the non-vacuity examples of `C10_dangling_is_error_*`):
    if the referencing document is a map without the key `p`, or not a map at all, the translated `get` returns
    `(nil, ErrRefNotFound)` -/
theorem S_C10_dangling_is_error (yu : String → Val × Option Err) (hyu : Lib.ParseOK yu)
    (doc : Go.Doc) (docs : List Go.Doc) (p : String) (ps : List String) (hnil : ∀ d ∈ docs, d.isNil = false)
    (hdang : (∃ kvs, doc.data = .map kvs ∧ fget kvs p = none) ∨ doc.data.isMap = false)
    (fuel : Nat) (h : Lib.refFuel (.list (.str p :: ps.map .str)) + 1 ≤ fuel)
    (hdepth : Go.depthList (doc.data :: docs.map (·.data)) + 2 ≤ fuel) :
    Lib.get' yu fuel doc docs (.list (.str p :: ps.map .str)) = .ok (.null, some Err.refNotFound) := by
  refine S_C10_error_is_error yu hyu doc docs _ hnil _ ?_ (by decide) fuel h hdepth
  rw [get_list_strs]
  rcases hdang with ⟨kvs, hd, hk⟩ | hnm
  · rw [hd, C10_getPath_spec.2.1, hk]; rfl
  · exact C10_getPath_spec.2.2 _ p ps hnm

example : (∃ kvs, (Lib.exDocA).data = .map kvs ∧ fget kvs "zz" = none) := ⟨_, rfl, by decide⟩

/-- a cross-document reference `{$match: pat, …}` whose pattern matches NO document of the stream, or SEVERAL
    (`C10_cross_zero_or_many_is_error`): the translated `get` returns `(nil, ErrNoMatchFound)`, respectively
    `(nil, ErrMultiMatch)`; and a map reference without `$match` is `(nil, ErrMissingMatch)`
    (`C10_missing_match_is_error`) -/
theorem S_C10_cross_zero_or_many_is_error (yu : String → Val × Option Err) (hyu : Lib.ParseOK yu)
    (doc : Go.Doc) (docs : List Go.Doc) (conf : Fields) (hnil : ∀ d ∈ docs, d.isNil = false)
    (fuel : Nat) (h : Lib.refFuel (.map conf) + 1 ≤ fuel)
    (hdepth : Go.depthList (doc.data :: docs.map (·.data)) + 2 ≤ fuel) :
    (∀ pat, fget conf "$match" = some pat → (docs.map (·.data)).filter (fun d => matchV d pat) = [] →
      Lib.get' yu fuel doc docs (.map conf) = .ok (.null, some Err.noMatchFound)) ∧
    (∀ pat, fget conf "$match" = some pat → 2 ≤ ((docs.map (·.data)).filter (fun d => matchV d pat)).length →
      Lib.get' yu fuel doc docs (.map conf) = .ok (.null, some Err.multiMatch)) ∧
    (fget conf "$match" = none →
      Lib.get' yu fuel doc docs (.map conf) = .ok (.null, some Err.missingMatch)) := by
  refine ⟨fun pat hm h0 => ?_, fun pat hm h2 => ?_, fun hm => ?_⟩
  · refine S_C10_error_is_error yu hyu doc docs _ hnil _ ?_ (by decide) fuel h hdepth
    rw [get_map, hm]
    simp only []
    rw [(C10_cross_zero_or_many_is_error _ pat).1 h0]; rfl
  · refine S_C10_error_is_error yu hyu doc docs _ hnil _ ?_ (by decide) fuel h hdepth
    rw [get_map, hm]
    simp only []
    rw [(C10_cross_zero_or_many_is_error _ pat).2.2 h2]; rfl
  · exact S_C10_error_is_error yu hyu doc docs _ hnil _ (C10_missing_match_is_error _ _ conf hm) (by decide)
      fuel h hdepth

/-- … and when exactly one document matches, that document is the one the reference is resolved in; without `$path`
    the translated `get` returns it (a deep copy; well-formed documents) (`C10_cross_zero_or_many_is_error`,
    `C10_cross_doc_map_nopath`) -/
theorem S_C10_cross_unique (yu : String → Val × Option Err) (hyu : Lib.ParseOK yu)
    (doc : Go.Doc) (docs : List Go.Doc) (pat d : Val) (hnil : ∀ d ∈ docs, d.isNil = false)
    (hwf : Val.WF doc.data) (hwfs : ∀ d ∈ docs, Val.WF d.data)
    (h1 : (docs.map (·.data)).filter (fun d => matchV d pat) = [d])
    (fuel : Nat) (h : Lib.refFuel (.map [("$match", pat)]) + 1 ≤ fuel)
    (hdepth : Go.depthList (doc.data :: docs.map (·.data)) + 2 ≤ fuel) :
    Lib.get' yu fuel doc docs (.map [("$match", pat)]) = .ok (d, none) := by
  have hg : get doc.data (docs.map (·.data)) (.map [("$match", pat)]) = .ok d := by
    rw [C10_cross_doc_map_nopath, (C10_cross_zero_or_many_is_error _ pat).2.1 d h1]
  rw [Lib.T_get_eq yu hyu doc docs _ hnil hwf hwfs (by rw [hg]; intro h; cases h) fuel h hdepth, hg]
  rfl

/-- non-vacuity, on the example stream of BklProofs/Facts/TransGet (documents `name: a` and `name: b`):
    a dangling path, a pattern that matches nothing, a pattern that matches both, and one that matches one -/
example : Lib.get' Lib.yamlModel 12 Lib.exDocA [Lib.exDocA, Lib.exDocB] (.list [.str "zz"])
      = .ok (.null, some Err.refNotFound) :=
  S_C10_dangling_is_error Lib.yamlModel Lib.yamlModel_ok Lib.exDocA _ "zz" [] (by simp [Lib.exDocA, Lib.exDocB])
    (.inl ⟨_, rfl, by decide⟩) 12 (by decide) (by decide)

example : Lib.get' Lib.yamlModel 12 Lib.exDocA [Lib.exDocA, Lib.exDocB] (.map [("$match", .map [("name", .str "c")])])
      = .ok (.null, some Err.noMatchFound) ∧
    Lib.get' Lib.yamlModel 12 Lib.exDocA [Lib.exDocA, Lib.exDocB] (.map [("$match", .map [])])
      = .ok (.null, some Err.multiMatch) ∧
    Lib.get' Lib.yamlModel 12 Lib.exDocA [Lib.exDocA, Lib.exDocB] (.map [("$match", .map [("name", .str "b")])])
      = .ok (Lib.exDocB.data, none) := by
  have hnil : ∀ d ∈ [Lib.exDocA, Lib.exDocB], d.isNil = false := by simp [Lib.exDocA, Lib.exDocB]
  refine ⟨?_, ?_, ?_⟩
  · exact (S_C10_cross_zero_or_many_is_error Lib.yamlModel Lib.yamlModel_ok Lib.exDocA _ _ hnil 12
      (by decide) (by decide)).1 _ rfl (by decide)
  · exact (S_C10_cross_zero_or_many_is_error Lib.yamlModel Lib.yamlModel_ok Lib.exDocA _ _ hnil 12
      (by decide) (by decide)).2.1 _ rfl (by decide)
  · exact S_C10_cross_unique Lib.yamlModel Lib.yamlModel_ok Lib.exDocA _ _ _ hnil (by decide)
      (by simp [Lib.exDocA, Lib.exDocB]; decide) (by decide) 12 (by decide) (by decide)


end Bkl.Gen
