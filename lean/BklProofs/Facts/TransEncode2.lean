/-
  Translation equivalence, the `$encode` dispatcher of process2.go: the Lean definitions that harness/cmd/gotrans
  writes from /repo's CURRENT source (Generated/Trans/Encode2.lean, regenerated on every run) —
  process2EncodeString' and process2EncodeAny' — compute the model's `encodeString` / `encodeAny` (Bkl/Encode.lean).

  The third-party codecs are the two leading PARAMETERS of the translated functions (`getFormat` = bkl.GetFormat,
  `marshalStream` = Format.MarshalStream). They are tied to the model by
    `GetFormatSpec gf : ∀ cmd, (gf cmd).2 = if isCodecFormat cmd then none else some Err.unknownFormat`
  (nothing is assumed about `marshalStream`), and a model result is read as a Go result pair by `encResToGo`:
    `.ok v ↦ (v, nil)`, `.err e ↦ (nil, e)`, `.codec f v ↦` MarshalStream of `[v]` with the format `f`.

  What is proved (all for every obj / spec / mergeFrom / mergeFromDocs / depth):
  * T_process2EncodeString_exact  (4 ≤ fuel): the translated function returns EXACTLY
      `tolistFix parts (encResToGo … (encodeString obj spec))` — i.e. the model's result, except that a FAILING
      `tolist:<d>` returns `([]any{} , err)` instead of `(nil, err)` (the typed nil slice of process2ToListList /
      process2ToListMap inside an `any`);
  * T_process2EncodeString_eq     (4 ≤ fuel): hence, read as every caller reads a Go `(value, error)` pair
      (`errNorm`: next to an error the value is not looked at), it is `encResToGo … (encodeString obj spec)`;
  * T_process2EncodeAny_eq        (Go.depth spec + 5 ≤ fuel): process2EncodeAny is `encodeAnyWith`, the model's fold
      over a list of specs CONTINUED through codec text (the Go code feeds the text that a codec in the middle of
      a stack produces to the next transform; the model's `encodeList` stops at `.codec`);
      T_process2EncodeAny_list_eq: literally (no `errNorm`) for a list of specs;
  * encodeAnyWith_of_noCodec / _of_ok / _of_err: `encodeAnyWith` IS the model's `encodeAny` whenever the model's
      result is `.ok` or `.err`; encodeAnyWith_codec_last: and for a stack `pre ++ [s]` whose last step is the codec;
      T_process2EncodeAny_eq_model, T_process2EncodeAny_eq_codec_last: the same, for the translated function.
  The examples at the end show that `GetFormatSpec` is needed, that `errNorm` is needed (tolist), that a codec in the
  middle of a stack really differs, and that `flags` really uses four units of fuel.
  A change of the Go source that changes its meaning makes these theorems fail to check.
-/
import Generated.Trans.Encode2
import BklProofs.Facts.TransEncode
set_option linter.unusedSimpArgs false
namespace Bkl.Gen.Lib
open Bkl Go

/-! ## the Go result pair of a model result -/

/-- the Go result pair `(any, error)` of a model `EncRes`, given the two third-party functions -/
def encResToGo (ms : Go.Opaque → List Val → String × Option Err) (gf : String → Go.Opaque × Option Err) :
    EncRes → Val × Option Err
  | .ok v => (v, none)
  | .err e => (.null, some e)
  | .codec fmt v =>
    let r := ms (gf fmt).1 [v]
    if r.2 != none then (.null, r.2) else (.str r.1, none)

/-- a Go result pair as every caller reads it: next to an error the value is not looked at (`nil`) -/
def errNorm (r : Val × Option Err) : Val × Option Err :=
  if r.2 != none then (.null, r.2) else r

/-- the one place where process2EncodeString returns something other than an untyped `nil` next to an error:
    `tolist:<d>` hands on the results of process2ToListList / process2ToListMap, whose `nil` slice becomes a
    non-nil `any` holding an empty `[]any` -/
def tolistFix (parts : List String) (r : Val × Option Err) : Val × Option Err :=
  if parts.headD "" = "tolist" ∧ parts.length = 2 ∧ r.2 ≠ none then (.list [], r.2) else r

/-- the tie between `bkl.GetFormat` and the model's view of the codecs -/
def GetFormatSpec (gf : String → Go.Opaque × Option Err) : Prop :=
  ∀ cmd, (gf cmd).2 = (if isCodecFormat cmd then none else some Err.unknownFormat)

/-! ## argument lists -/

theorem strAt_zero (p : String) (ps : List String) : Go.strAt (p :: ps) 0 = p := by
  simp [Go.strAt]
theorem strAt_one (p q : String) (ps : List String) : Go.strAt (p :: q :: ps) 1 = q := by
  simp [Go.strAt]

theorem len1_ne1 (p : String) : (Int.ofNat [p].length != 1) = false := by simp
theorem len1_ne2 (p : String) : (Int.ofNat [p].length != 2) = true := by simp
theorem len1_eq2 (p : String) : (Int.ofNat [p].length == 2) = false := by simp
theorem len2_ne1 (p q : String) : (Int.ofNat [p, q].length != 1) = true := by simp
theorem len2_ne2 (p q : String) : (Int.ofNat [p, q].length != 2) = false := by simp
theorem len2_eq2 (p q : String) : (Int.ofNat [p, q].length == 2) = true := by simp
theorem len3_ne1 (p q r : String) (rs : List String) : (Int.ofNat (p :: q :: r :: rs).length != 1) = true := by
  simp; omega
theorem len3_ne2 (p q r : String) (rs : List String) : (Int.ofNat (p :: q :: r :: rs).length != 2) = true := by
  simp; omega
theorem len3_eq2 (p q r : String) (rs : List String) : (Int.ofNat (p :: q :: r :: rs).length == 2) = false := by
  simp; omega
theorem len3_eq1 (p q r : String) (rs : List String) : (Int.ofNat (p :: q :: r :: rs).length == 1) = false := by
  simp; omega

/-! ## the loops of `flatten` and `prefix` -/

theorem asList_list (xs : List Val) : asList (.list xs) = (xs, true) := rfl
theorem asMap_map (kvs : Fields) : asMap (.map kvs) = (kvs, true) := rfl

/-- what one item contributes to `flattenList` -/
def flattenItem : Val → List Val
  | .list inner => inner
  | other => [other]

theorem flattenList_eq (xs : List Val) : flattenList xs = xs.flatMap flattenItem := by
  unfold flattenList
  congr 1

theorem flatten_loop (xs acc : List Val) (body : Val → List Val → G (Loop (List Val) (Val × Option Err)))
    (hbody : ∀ x acc, body x acc = .ok (.next (acc ++ flattenItem x))) :
    forRange xs acc body = .ok (.inl (acc ++ flattenList xs)) := by
  rw [forRange_fold (fun acc x => acc ++ flattenItem x) xs acc body (fun x _ s => hbody x s),
    foldl_append_flatMap, flattenList_eq]

theorem prefix_loop (pre : String) (strs : List String) (acc : List Val)
    (body : String → List Val → G (Loop (List Val) (Val × Option Err)))
    (hbody : ∀ s acc, body s acc = .ok (.next (acc ++ [Val.str (pre ++ s)]))) :
    forRange strs acc body = .ok (.inl (acc ++ strs.map fun s => Val.str (pre ++ s))) := by
  rw [forRange_fold (fun acc s => acc ++ [Val.str (pre ++ s)]) strs acc body (fun x _ s => hbody x s),
    foldl_append_map]

/-! ## the model's default case -/

/-- the model's `match` on the transform names, for a name that is none of them -/
theorem encodeString_other (obj : Val) (p : String) (ps : List String)
    (h1 : p ≠ "base64") (h2 : p ≠ "flags") (h3 : p ≠ "flatten") (h4 : p ≠ "join") (h5 : p ≠ "prefix")
    (h6 : p ≠ "sha256") (h7 : p ≠ "tolist") (h8 : p ≠ "values") (spec : String) (hp : spec.splitOn ":" = p :: ps) :
    encodeString obj spec = if ps ≠ [] then .err .invalidArguments
      else if isCodecFormat p then .codec p obj else .err .unknownFormat := by
  unfold encodeString
  rw [hp]
  dsimp only [List.headD_cons]
  split <;> first | contradiction | skip
  cases ps
  · rfl
  · simp

/-! ## process2EncodeString, every transform but `flags` (one unit of fuel) -/

theorem encStr_nonflags (ms : Go.Opaque → List Val → String × Option Err) (gf : String → Go.Opaque × Option Err)
    (hGF : GetFormatSpec gf)
    (fuel : Nat) (obj : Val) (mf : Go.Doc) (mfd : List Go.Doc) (spec : String) (depth : Int)
    (hnf : (spec.splitOn ":").headD "" ≠ "flags") :
    process2EncodeString' ms gf (fuel+1) obj mf mfd spec depth
      = .ok (tolistFix (spec.splitOn ":") (encResToGo ms gf (encodeString obj spec))) := by
  have hlen := splitOn_colon_length_pos spec
  obtain ⟨p, ps, hp⟩ : ∃ p ps, spec.splitOn ":" = p :: ps := by
    cases h : spec.splitOn ":" with
    | nil => simp [h] at hlen
    | cons p ps => exact ⟨p, ps, rfl⟩
  clear hlen
  rw [hp, List.headD_cons] at hnf
  by_cases h1 : p = "base64"
  · subst h1
    unfold process2EncodeString' encodeString
    rw [hp]
    simp only [tolistFix, List.headD_cons, String.reduceEq, false_and, if_false]
    rcases ps with _ | ⟨q, _ | ⟨r, rs⟩⟩
    · simp [encResToGo, strAt_zero]
    · simp [encResToGo, strAt_zero]
    · simp only [len3_ne1, len3_ne2, len3_eq2, len3_eq1]; simp [encResToGo, strAt_zero]
  by_cases h2 : p = "flags"
  · exact absurd h2 hnf
  by_cases h3 : p = "flatten"
  · subst h3
    unfold process2EncodeString' encodeString
    rw [hp]
    simp only [tolistFix, List.headD_cons, String.reduceEq, false_and, if_false]
    rcases ps with _ | ⟨q, _ | ⟨r, rs⟩⟩
    · by_cases hl : (asList obj).2 = false
      · cases obj with
        | list xs => simp [asList] at hl
        | _ => simp [encResToGo, strAt_zero, asList]
      · obtain ⟨xs, rfl⟩ : ∃ xs, obj = .list xs := by cases obj <;> simp_all [asList]
        simp only [asList_list]
        rw [flatten_loop xs []]
        · simp [encResToGo, strAt_zero]
        · intro x acc
          cases x <;> simp [asList, flattenItem]
    · simp [encResToGo, strAt_zero]
    · simp only [len3_ne1, len3_ne2, len3_eq2, len3_eq1]; simp [encResToGo, strAt_zero]
  by_cases h4 : p = "join"
  · subst h4
    unfold process2EncodeString' encodeString
    rw [hp]
    simp only [tolistFix, List.headD_cons, String.reduceEq, false_and, if_false]
    rcases ps with _ | ⟨q, _ | ⟨r, rs⟩⟩
    · simp only [len1_ne1, len1_ne2, len1_eq2]
      cases hs : toStringListPermissive obj <;>
        simp [encResToGo, strAt_zero, T_toStringListPermissive_eq, hs]
    · simp only [len2_ne1, len2_ne2, len2_eq2]
      cases hs : toStringListPermissive obj <;>
        simp [encResToGo, strAt_zero, strAt_one, T_toStringListPermissive_eq, hs]
    · simp only [len3_ne1, len3_ne2, len3_eq2, len3_eq1]; simp [encResToGo, strAt_zero]
  by_cases h5 : p = "prefix"
  · subst h5
    unfold process2EncodeString' encodeString
    rw [hp]
    simp only [tolistFix, List.headD_cons, String.reduceEq, false_and, if_false]
    rcases ps with _ | ⟨q, _ | ⟨r, rs⟩⟩
    · simp [encResToGo, strAt_zero]
    · simp only [len2_ne1, len2_ne2, len2_eq2]
      cases hs : toStringListPermissive obj with
      | error e => simp [encResToGo, strAt_zero, T_toStringListPermissive_eq, hs]
      | ok strs =>
        simp only [T_toStringListPermissive_eq, hs, resPair_ok]
        rw [prefix_loop q strs []]
        · simp [encResToGo, strAt_zero]
        · intro s acc; simp [strAt_one]
    · simp only [len3_ne1, len3_ne2, len3_eq2, len3_eq1]; simp [encResToGo, strAt_zero]
  by_cases h6 : p = "sha256"
  · subst h6
    unfold process2EncodeString' encodeString
    rw [hp]
    simp only [tolistFix, List.headD_cons, String.reduceEq, false_and, if_false]
    rcases ps with _ | ⟨q, _ | ⟨r, rs⟩⟩
    · simp [encResToGo, strAt_zero]
    · simp [encResToGo, strAt_zero]
    · simp only [len3_ne1, len3_ne2, len3_eq2, len3_eq1]; simp [encResToGo, strAt_zero]
  by_cases h7 : p = "tolist"
  · subst h7
    unfold process2EncodeString' encodeString
    rw [hp]
    simp only [tolistFix, List.headD_cons, String.reduceEq, false_and, if_false]
    rcases ps with _ | ⟨q, _ | ⟨r, rs⟩⟩
    · simp [encResToGo, strAt_zero]
    · simp only [len2_ne1, len2_ne2, len2_eq2]
      cases obj
      case list xs =>
        cases hs : toListList xs q <;>
          simp [encResToGo, strAt_zero, strAt_one, asList, T_process2ToListList_eq, hs]
      all_goals
        simp [encResToGo, strAt_zero, strAt_one, asList, T_process2ToListMap_eq]
        generalize toListMap _ q = t
        cases t <;> simp
    · simp only [len3_ne1, len3_ne2, len3_eq2, len3_eq1]; simp [encResToGo, strAt_zero]
  by_cases h8 : p = "values"
  · subst h8
    unfold process2EncodeString' encodeString
    rw [hp]
    simp only [tolistFix, List.headD_cons, String.reduceEq, false_and, if_false]
    rcases ps with _ | ⟨q, _ | ⟨r, rs⟩⟩
    · cases obj <;> simp [encResToGo, strAt_zero, asMap, T_process2ValuesMap_eq]
    · simp [encResToGo, strAt_zero]
    · simp only [len3_ne1, len3_ne2, len3_eq2, len3_eq1]; simp [encResToGo, strAt_zero]
  rw [encodeString_other obj p ps h1 h2 h3 h4 h5 h6 h7 h8 spec hp]
  simp only [hp, tolistFix, List.headD_cons, h7, false_and, if_false]
  unfold process2EncodeString'
  rw [hp]
  have hgf := hGF p
  rcases ps with _ | ⟨q, _ | ⟨r, rs⟩⟩
  · by_cases hc : isCodecFormat p = true
    · simp [encResToGo, strAt_zero, h1, h2, h3, h4, h5, h6, h7, h8, hc, hgf]
      split <;> rfl
    · simp [encResToGo, strAt_zero, h1, h2, h3, h4, h5, h6, h7, h8, hc, hgf]
  · simp [encResToGo, strAt_zero, h1, h2, h3, h4, h5, h6, h7, h8]
  · simp only [len3_ne1, len3_ne2, len3_eq2, len3_eq1]; simp [encResToGo, strAt_zero, h1, h2, h3, h4, h5, h6, h7, h8]

/-! ## the fold over a list of specs, continued through codec text -/

mutual
/-- process2EncodeAny as a total function of the model's values, given the two third-party functions: the model's
    `encodeAny`, except that a third-party codec in the middle of a list of specs hands its TEXT on to the next
    transform (the model's `encodeList` stops at `.codec`); next to an error the value is `nil` -/
def encodeAnyWith (ms : Go.Opaque → List Val → String × Option Err) (gf : String → Go.Opaque × Option Err)
    (obj : Val) : Val → Val × Option Err
  | .str s => encResToGo ms gf (encodeString obj s)
  | .list specs => encodeListWith ms gf obj specs
  | _ => (.null, some .invalidType)
def encodeListWith (ms : Go.Opaque → List Val → String × Option Err) (gf : String → Go.Opaque × Option Err)
    (obj : Val) : List Val → Val × Option Err
  | [] => (obj, none)
  | sp :: rest =>
    match encodeAnyWith ms gf obj sp with
    | (v, none) => encodeListWith ms gf v rest
    | (_, some e) => (.null, some e)
end

/-- the loop of process2EncodeAny over a list of specs, over an abstract body -/
theorem encList_loop (ms : Go.Opaque → List Val → String × Option Err) (gf : String → Go.Opaque × Option Err)
    (specs : List Val) (obj : Val) (body : Val → Val → G (Loop Val (Val × Option Err)))
    (hbody : ∀ sp ∈ specs, ∀ o, body sp o = .ok (match encodeAnyWith ms gf o sp with
      | (v, none) => .next v
      | (_, some e) => .ret (.null, some e))) :
    forRange specs obj body = .ok (match encodeListWith ms gf obj specs with
      | (v, none) => .inl v
      | (_, some e) => .inr (.null, some e)) := by
  induction specs generalizing obj with
  | nil => simp [encodeListWith]
  | cons sp rest ih =>
    have hsp := hbody sp List.mem_cons_self obj
    have ih' := fun o => ih o (fun y hy => hbody y (List.mem_cons_of_mem _ hy))
    rw [encodeListWith]
    rcases hr : encodeAnyWith ms gf obj sp with ⟨v, _ | e⟩
    · rw [hr] at hsp
      rw [forRange_cons_next hsp, ih']
    · rw [hr] at hsp
      rw [forRange_cons_ret hsp]

theorem encodeListWith_errNorm (ms : Go.Opaque → List Val → String × Option Err)
    (gf : String → Go.Opaque × Option Err) (obj : Val) (specs : List Val) :
    (match encodeListWith ms gf obj specs with
      | (v, none) => (v, none)
      | (_, some e) => (Val.null, some e)) = encodeListWith ms gf obj specs := by
  induction specs generalizing obj with
  | nil => simp [encodeListWith]
  | cons sp rest ih =>
    rw [encodeListWith]
    rcases hr : encodeAnyWith ms gf obj sp with ⟨v, _ | e⟩
    · exact ih v
    · rfl

/-- process2EncodeAny on a string spec is process2EncodeString with one unit of fuel less -/
theorem encAny_str (ms : Go.Opaque → List Val → String × Option Err) (gf : String → Go.Opaque × Option Err)
    (fuel : Nat) (obj : Val) (mf : Go.Doc) (mfd : List Go.Doc) (s : String) (depth : Int) :
    process2EncodeAny' ms gf (fuel+1) obj mf mfd (.str s) depth
      = process2EncodeString' ms gf fuel obj mf mfd s depth := by
  rw [process2EncodeAny']
  generalize process2EncodeString' ms gf fuel obj mf mfd s depth = x
  rcases x with _ | ⟨a, b⟩ <;> rfl

/-- process2EncodeAny on a list of specs, given the facts about the elements -/
theorem encAny_list (ms : Go.Opaque → List Val → String × Option Err) (gf : String → Go.Opaque × Option Err)
    (fuel : Nat) (obj : Val) (mf : Go.Doc) (mfd : List Go.Doc) (specs : List Val) (depth : Int)
    (hall : ∀ sp ∈ specs, ∀ o, ∃ r, process2EncodeAny' ms gf fuel o mf mfd sp depth = .ok r ∧
      errNorm r = encodeAnyWith ms gf o sp) :
    process2EncodeAny' ms gf (fuel+1) obj mf mfd (.list specs) depth
      = .ok (encodeListWith ms gf obj specs) := by
  rw [process2EncodeAny']
  simp only []
  rw [encList_loop ms gf specs obj]
  · have := encodeListWith_errNorm ms gf obj specs
    rcases hr : encodeListWith ms gf obj specs with ⟨v, _ | e⟩
    · rfl
    · rw [hr] at this; simp only [] at this ⊢; rw [this]
  · intro sp hsp o
    obtain ⟨r, hr, hn⟩ := hall sp hsp o
    rw [hr, ← hn]
    obtain ⟨v, _ | e⟩ := r <;> simp [errNorm]

/-! ## `flags`: the Go code recurses into the spec list `["tolist:=", "prefix:--"]`, the model inlines it -/

theorem errNorm_encResToGo (ms : Go.Opaque → List Val → String × Option Err)
    (gf : String → Go.Opaque × Option Err) (r : EncRes) : errNorm (encResToGo ms gf r) = encResToGo ms gf r := by
  cases r with
  | ok v => rfl
  | err e => rfl
  | codec f v =>
    simp only [encResToGo, errNorm]
    split <;> simp_all

theorem errNorm_tolistFix (parts : List String) (r : Val × Option Err) (h : errNorm r = r) :
    errNorm (tolistFix parts r) = r := by
  unfold tolistFix
  split
  · rename_i hc
    obtain ⟨v, _ | e⟩ := r
    · simp at hc
    · simp [errNorm] at h ⊢; exact h
  · exact h

theorem encodeString_tolist_eq (obj : Val) :
    encodeString obj "tolist:=" =
      match (match obj with | .list xs => toListList xs "=" | o => toListMap o "=") with
      | .error e => .err e
      | .ok l => .ok (.list l) := by
  unfold encodeString
  rw [parts_tolist_eq]
  cases obj <;> rfl

theorem encodeString_prefix_dd (l : List Val) :
    encodeString (.list l) "prefix:--" = .ok (.list (l.map fun x => .str ("--" ++ fmtV x))) := by
  unfold encodeString
  rw [parts_prefix_dd]
  simp [toStringListPermissive, pure, Except.pure]

/-- the model's `flags` is the fold over the two specs that the Go code recurses into -/
theorem encodeListWith_flags (ms : Go.Opaque → List Val → String × Option Err)
    (gf : String → Go.Opaque × Option Err) (obj : Val) (spec : String) (hp : spec.splitOn ":" = ["flags"]) :
    encodeListWith ms gf obj [.str "tolist:=", .str "prefix:--"] = encResToGo ms gf (encodeString obj spec) := by
  have hm : encodeString obj spec =
      match (match obj with | .list xs => toListList xs "=" | o => toListMap o "=") with
      | .error e => .err e
      | .ok l => .ok (.list (l.map fun x => .str ("--" ++ fmtV x))) := by
    unfold encodeString
    rw [hp]
    cases obj <;> rfl
  rw [hm]
  simp only [encodeListWith, encodeAnyWith, encodeString_tolist_eq]
  generalize (match obj with | .list xs => toListList xs "=" | o => toListMap o "=") = t
  cases t with
  | error e => rfl
  | ok l => simp only [encResToGo, encodeString_prefix_dd]

/-! ## process2EncodeString -/

/-- process2.go:process2EncodeString, exactly: the model's `encodeString`, the codecs supplied by the two
    parameters; a failing `tolist:<d>` returns an empty `[]any` (not `nil`) next to its error -/
theorem T_process2EncodeString_exact (ms : Go.Opaque → List Val → String × Option Err)
    (gf : String → Go.Opaque × Option Err) (hGF : GetFormatSpec gf)
    (fuel : Nat) (obj : Val) (mf : Go.Doc) (mfd : List Go.Doc) (spec : String) (depth : Int) (hf : 4 ≤ fuel) :
    process2EncodeString' ms gf fuel obj mf mfd spec depth
      = .ok (tolistFix (spec.splitOn ":") (encResToGo ms gf (encodeString obj spec))) := by
  by_cases hnf : (spec.splitOn ":").headD "" = "flags"
  · obtain ⟨k, rfl⟩ : ∃ k, fuel = k + 4 := ⟨fuel - 4, by omega⟩
    obtain ⟨ps, hp⟩ : ∃ ps, spec.splitOn ":" = "flags" :: ps := by
      cases h : spec.splitOn ":" with
      | nil => simp [h] at hnf
      | cons p ps => simp [h] at hnf; exact ⟨ps, by rw [hnf]⟩
    have hstr : ∀ s : String, (s.splitOn ":").headD "" ≠ "flags" → ∀ o d,
        ∃ r, process2EncodeAny' ms gf (k+2) o mf mfd (.str s) d = .ok r ∧
          errNorm r = encodeAnyWith ms gf o (.str s) := by
      intro s hs o d
      refine ⟨tolistFix (s.splitOn ":") (encResToGo ms gf (encodeString o s)), ?_, ?_⟩
      · rw [encAny_str, encStr_nonflags ms gf hGF k o mf mfd s d hs]
      · rw [errNorm_tolistFix _ _ (errNorm_encResToGo ms gf _), encodeAnyWith]
    have hfl := encAny_list ms gf (k+2) obj mf mfd [.str "tolist:=", .str "prefix:--"] (depth + 1) (by
      intro sp hsp o
      simp only [List.mem_cons, List.not_mem_nil, or_false] at hsp
      rcases hsp with rfl | rfl
      · exact hstr _ (by rw [parts_tolist_eq]; decide) o _
      · exact hstr _ (by rw [parts_prefix_dd]; decide) o _)
    rw [hp]
    simp only [tolistFix, List.headD_cons, String.reduceEq, false_and, if_false]
    unfold process2EncodeString'
    rw [hp]
    rcases ps with _ | ⟨q, _ | ⟨r, rs⟩⟩
    · simp only [len1_ne1, len1_ne2, len1_eq2]
      simp [strAt_zero, hfl, encodeListWith_flags ms gf obj spec hp]
    · unfold encodeString; rw [hp]; simp [encResToGo, strAt_zero]
    · unfold encodeString; rw [hp]
      simp only [len3_ne1, len3_ne2, len3_eq2, len3_eq1]; simp [encResToGo, strAt_zero]
  · obtain ⟨k, rfl⟩ : ∃ k, fuel = k + 1 := ⟨fuel - 1, by omega⟩
    exact encStr_nonflags ms gf hGF k obj mf mfd spec depth hnf

/-- process2.go:process2EncodeString is the model's `encodeString` (the codecs supplied by the two parameters):
    the same error class, and without an error the same value -/
theorem T_process2EncodeString_eq (ms : Go.Opaque → List Val → String × Option Err)
    (gf : String → Go.Opaque × Option Err) (hGF : GetFormatSpec gf)
    (fuel : Nat) (obj : Val) (mf : Go.Doc) (mfd : List Go.Doc) (spec : String) (depth : Int) (hf : 4 ≤ fuel) :
    ∃ r, process2EncodeString' ms gf fuel obj mf mfd spec depth = .ok r ∧
      errNorm r = encResToGo ms gf (encodeString obj spec) :=
  ⟨_, T_process2EncodeString_exact ms gf hGF fuel obj mf mfd spec depth hf,
    errNorm_tolistFix _ _ (errNorm_encResToGo ms gf _)⟩

/-! ## process2EncodeAny -/

theorem encodeAny_eq_aux (ms : Go.Opaque → List Val → String × Option Err)
    (gf : String → Go.Opaque × Option Err) (hGF : GetFormatSpec gf) (mf : Go.Doc) (mfd : List Go.Doc) :
    ∀ (n : Nat) (spec : Val), Go.depth spec ≤ n → ∀ fuel, n + 5 ≤ fuel → ∀ (obj : Val) (depth : Int),
      ∃ r, process2EncodeAny' ms gf fuel obj mf mfd spec depth = .ok r ∧
        errNorm r = encodeAnyWith ms gf obj spec ∧
        (∀ specs, spec = .list specs → r = encodeListWith ms gf obj specs) := by
  intro n
  induction n with
  | zero =>
    intro spec hd fuel hf obj depth
    obtain ⟨f, rfl⟩ : ∃ f, fuel = f + 1 := ⟨fuel - 1, by omega⟩
    cases spec with
    | list xs => simp [Go.depth] at hd
    | map kvs => simp [Go.depth] at hd
    | str s =>
      obtain ⟨r, hr, hn⟩ := T_process2EncodeString_eq ms gf hGF f obj mf mfd s depth (by omega)
      exact ⟨r, by rw [encAny_str, hr], by rw [hn, encodeAnyWith], by intro _ h; cases h⟩
    | null => exact ⟨(Val.null, some Err.invalidType), by simp [process2EncodeAny'], rfl, by intro _ h; cases h⟩
    | bool b => exact ⟨(Val.null, some Err.invalidType), by simp [process2EncodeAny'], rfl, by intro _ h; cases h⟩
    | int i => exact ⟨(Val.null, some Err.invalidType), by simp [process2EncodeAny'], rfl, by intro _ h; cases h⟩
    | flt x => exact ⟨(Val.null, some Err.invalidType), by simp [process2EncodeAny'], rfl, by intro _ h; cases h⟩
  | succ m ih =>
    intro spec hd fuel hf obj depth
    obtain ⟨f, rfl⟩ : ∃ f, fuel = f + 1 := ⟨fuel - 1, by omega⟩
    cases spec with
    | list xs =>
      have hall : ∀ sp ∈ xs, ∀ o, ∃ r, process2EncodeAny' ms gf f o mf mfd sp depth = .ok r ∧
          errNorm r = encodeAnyWith ms gf o sp := by
        intro sp hm o
        have := Go.depth_le_of_mem_list hm
        simp only [Go.depth] at hd
        obtain ⟨r, hr, hn, _⟩ := ih sp (by omega) f (by omega) o depth
        exact ⟨r, hr, hn⟩
      refine ⟨_, encAny_list ms gf f obj mf mfd xs depth hall, ?_, ?_⟩
      · rw [encodeAnyWith]
        have := encodeListWith_errNorm ms gf obj xs
        rcases hr : encodeListWith ms gf obj xs with ⟨v, _ | e⟩
        · rfl
        · rw [hr] at this; simp only [] at this; simp [errNorm, this]
      · intro specs h; cases h; rfl
    | map kvs => exact ⟨(Val.null, some Err.invalidType), by simp [process2EncodeAny'], rfl, by intro _ h; cases h⟩
    | str s =>
      obtain ⟨r, hr, hn⟩ := T_process2EncodeString_eq ms gf hGF f obj mf mfd s depth (by omega)
      exact ⟨r, by rw [encAny_str, hr], by rw [hn, encodeAnyWith], by intro _ h; cases h⟩
    | null => exact ⟨(Val.null, some Err.invalidType), by simp [process2EncodeAny'], rfl, by intro _ h; cases h⟩
    | bool b => exact ⟨(Val.null, some Err.invalidType), by simp [process2EncodeAny'], rfl, by intro _ h; cases h⟩
    | int i => exact ⟨(Val.null, some Err.invalidType), by simp [process2EncodeAny'], rfl, by intro _ h; cases h⟩
    | flt x => exact ⟨(Val.null, some Err.invalidType), by simp [process2EncodeAny'], rfl, by intro _ h; cases h⟩

/-- process2.go:process2EncodeAny is `encodeAnyWith` (the model's fold, continued through codec text): the same
    error class, and without an error the same value — for every spec, given fuel for its nesting depth -/
theorem T_process2EncodeAny_eq (ms : Go.Opaque → List Val → String × Option Err)
    (gf : String → Go.Opaque × Option Err) (hGF : GetFormatSpec gf)
    (fuel : Nat) (obj : Val) (mf : Go.Doc) (mfd : List Go.Doc) (spec : Val) (depth : Int) (hf : Go.depth spec + 5 ≤ fuel) :
    ∃ r, process2EncodeAny' ms gf fuel obj mf mfd spec depth = .ok r ∧
      errNorm r = encodeAnyWith ms gf obj spec := by
  obtain ⟨r, hr, hn, _⟩ := encodeAny_eq_aux ms gf hGF mf mfd (Go.depth spec) spec (Nat.le_refl _) fuel hf obj depth
  exact ⟨r, hr, hn⟩

/-- … and literally so for a list of specs -/
theorem T_process2EncodeAny_list_eq (ms : Go.Opaque → List Val → String × Option Err)
    (gf : String → Go.Opaque × Option Err) (hGF : GetFormatSpec gf)
    (fuel : Nat) (obj : Val) (mf : Go.Doc) (mfd : List Go.Doc) (specs : List Val) (depth : Int)
    (hf : Go.depth (.list specs) + 5 ≤ fuel) :
    process2EncodeAny' ms gf fuel obj mf mfd (.list specs) depth
      = .ok (encodeAnyWith ms gf obj (.list specs)) := by
  obtain ⟨r, hr, _, hl⟩ :=
    encodeAny_eq_aux ms gf hGF mf mfd _ (.list specs) (Nat.le_refl _) fuel hf obj depth
  rw [hr, hl specs rfl, encodeAnyWith]

/-! ## `encodeAnyWith` and the model's `encodeAny` -/

mutual
/-- where the model's `encodeAny` does not stop at a codec, `encodeAnyWith` is the model's result -/
theorem encodeAnyWith_of_noCodec (ms : Go.Opaque → List Val → String × Option Err)
    (gf : String → Go.Opaque × Option Err) : ∀ (spec obj : Val),
    (∀ f v, encodeAny obj spec ≠ .codec f v) →
    encodeAnyWith ms gf obj spec = encResToGo ms gf (encodeAny obj spec)
  | .str s, obj, _ => by rw [encodeAnyWith, encodeAny]
  | .list specs, obj, h => by
    rw [encodeAnyWith, encodeAny]
    exact encodeListWith_of_noCodec ms gf specs obj (by simpa [encodeAny] using h)
  | .null, _, _ | .bool _, _, _ | .int _, _, _ | .flt _, _, _ | .map _, _, _ => by
    simp [encodeAnyWith, encodeAny, encResToGo]
theorem encodeListWith_of_noCodec (ms : Go.Opaque → List Val → String × Option Err)
    (gf : String → Go.Opaque × Option Err) : ∀ (specs : List Val) (obj : Val),
    (∀ f v, encodeList obj specs ≠ .codec f v) →
    encodeListWith ms gf obj specs = encResToGo ms gf (encodeList obj specs)
  | [], obj, _ => by rw [encodeListWith, encodeList]; rfl
  | sp :: rest, obj, h => by
    rw [encodeListWith, encodeList]
    rw [encodeList] at h
    cases hsp : encodeAny obj sp with
    | ok v =>
      rw [encodeAnyWith_of_noCodec ms gf sp obj (by rw [hsp]; intro f v hh; cases hh), hsp]
      rw [hsp] at h
      exact encodeListWith_of_noCodec ms gf rest v h
    | err e =>
      rw [encodeAnyWith_of_noCodec ms gf sp obj (by rw [hsp]; intro f v hh; cases hh), hsp]
      rfl
    | codec f v =>
      rw [hsp] at h
      exact absurd rfl (h f v)
end

theorem encodeAnyWith_of_ok (ms : Go.Opaque → List Val → String × Option Err)
    (gf : String → Go.Opaque × Option Err) (obj spec v : Val) (h : encodeAny obj spec = .ok v) :
    encodeAnyWith ms gf obj spec = (v, none) := by
  rw [encodeAnyWith_of_noCodec ms gf spec obj (by rw [h]; intro f v hh; cases hh), h]; rfl

theorem encodeAnyWith_of_err (ms : Go.Opaque → List Val → String × Option Err)
    (gf : String → Go.Opaque × Option Err) (obj spec : Val) (e : Err) (h : encodeAny obj spec = .err e) :
    encodeAnyWith ms gf obj spec = (.null, some e) := by
  rw [encodeAnyWith_of_noCodec ms gf spec obj (by rw [h]; intro f v hh; cases hh), h]; rfl

theorem encodeListWith_append (ms : Go.Opaque → List Val → String × Option Err)
    (gf : String → Go.Opaque × Option Err) (pre post : List Val) (obj : Val) :
    encodeListWith ms gf obj (pre ++ post) = (match encodeListWith ms gf obj pre with
      | (v, none) => encodeListWith ms gf v post
      | (_, some e) => (.null, some e)) := by
  induction pre generalizing obj with
  | nil => simp [encodeListWith]
  | cons sp rest ih =>
    rw [List.cons_append, encodeListWith, encodeListWith]
    rcases encodeAnyWith ms gf obj sp with ⟨v, _ | e⟩
    · exact ih v
    · rfl

theorem encodeList_append_ok (pre post : List Val) (obj v : Val) (h : encodeList obj pre = .ok v) :
    encodeList obj (pre ++ post) = encodeList v post := by
  induction pre generalizing obj with
  | nil => rw [encodeList] at h; cases h; rfl
  | cons sp rest ih =>
    rw [List.cons_append, encodeList]
    rw [encodeList] at h
    cases hsp : encodeAny obj sp with
    | ok w => rw [hsp] at h; exact ih w h
    | err e => rw [hsp] at h; cases h
    | codec f w => rw [hsp] at h; cases h

/-- a stack of transforms that ends in a codec (the transforms before it succeed in the model): `encodeAnyWith`
    is the model's result, the codec applied by the two parameters -/
theorem encodeAnyWith_codec_last (ms : Go.Opaque → List Val → String × Option Err)
    (gf : String → Go.Opaque × Option Err) (pre : List Val) (s : String) (obj v : Val)
    (h : encodeList obj pre = .ok v) :
    encodeAnyWith ms gf obj (.list (pre ++ [.str s]))
      = encResToGo ms gf (encodeAny obj (.list (pre ++ [.str s]))) := by
  have hpre : encodeListWith ms gf obj pre = (v, none) := by
    rw [encodeListWith_of_noCodec ms gf pre obj (by rw [h]; intro f v hh; cases hh), h]; rfl
  rw [encodeAnyWith, encodeAny, encodeListWith_append, hpre, encodeList_append_ok pre _ obj v h]
  simp only [encodeListWith, encodeList, encodeAnyWith, encodeAny]
  have hn := errNorm_encResToGo ms gf (encodeString v s)
  cases hs : encodeString v s with
  | ok w => rfl
  | err e => rfl
  | codec f w =>
    rw [hs] at hn
    rcases hr : encResToGo ms gf (EncRes.codec f w) with ⟨x, _ | e⟩
    · rfl
    · rw [hr] at hn; simp [errNorm] at hn; simp [hn]

/-- process2.go:process2EncodeAny is the model's `encodeAny` wherever the model does not stop at a codec -/
theorem T_process2EncodeAny_eq_model (ms : Go.Opaque → List Val → String × Option Err)
    (gf : String → Go.Opaque × Option Err) (hGF : GetFormatSpec gf)
    (fuel : Nat) (obj : Val) (mf : Go.Doc) (mfd : List Go.Doc) (spec : Val) (depth : Int) (hf : Go.depth spec + 5 ≤ fuel)
    (hnc : ∀ f v, encodeAny obj spec ≠ .codec f v) :
    ∃ r, process2EncodeAny' ms gf fuel obj mf mfd spec depth = .ok r ∧
      errNorm r = encResToGo ms gf (encodeAny obj spec) := by
  rw [← encodeAnyWith_of_noCodec ms gf spec obj hnc]
  exact T_process2EncodeAny_eq ms gf hGF fuel obj mf mfd spec depth hf

/-- … and for a stack of transforms that ends in a codec -/
theorem T_process2EncodeAny_eq_codec_last (ms : Go.Opaque → List Val → String × Option Err)
    (gf : String → Go.Opaque × Option Err) (hGF : GetFormatSpec gf)
    (fuel : Nat) (obj : Val) (mf : Go.Doc) (mfd : List Go.Doc) (pre : List Val) (s : String) (v : Val) (depth : Int)
    (hf : Go.depth (.list (pre ++ [.str s])) + 5 ≤ fuel) (h : encodeList obj pre = .ok v) :
    process2EncodeAny' ms gf fuel obj mf mfd (.list (pre ++ [.str s])) depth
      = .ok (encResToGo ms gf (encodeAny obj (.list (pre ++ [.str s])))) := by
  rw [T_process2EncodeAny_list_eq ms gf hGF fuel obj mf mfd _ depth hf,
    encodeAnyWith_codec_last ms gf pre s obj v h]

/-! ## concrete instances: the hypotheses are satisfiable, and needed -/

/-- a `GetFormat` as the model sees it: the handle is the name, unknown names fail -/
def gfModel (cmd : String) : Go.Opaque × Option Err :=
  (cmd, if isCodecFormat cmd then none else some Err.unknownFormat)
/-- a `GetFormat` that knows a format the model does not -/
def gfAll (cmd : String) : Go.Opaque × Option Err := (cmd, none)
/-- a `MarshalStream` whose text is the name of the format -/
def msName (f : Go.Opaque) (_ : List Val) : String × Option Err := (f, none)

theorem parts_json : "json".splitOn ":" = ["json"] := by rw [splitOn_colon]; decide

example : GetFormatSpec gfModel := fun _ => rfl

/-- `GetFormatSpec` is needed: with a `GetFormat` that accepts "nosuch" the Go code encodes, the model says
    `ErrUnknownFormat` -/
example : process2EncodeString' msName gfAll 4 (.int 1) default [] "nosuch" 0 = .ok (.str "nosuch", none)
    ∧ encResToGo msName gfAll (encodeString (.int 1) "nosuch") = (.null, some Err.unknownFormat) := by
  constructor
  · unfold process2EncodeString'
    rw [parts_nosuch]
    simp [strAt_zero, gfAll, msName]
  · unfold encodeString
    rw [parts_nosuch]
    simp [isCodecFormat, encResToGo]

/-- the value next to an error: a failing `tolist:=` returns an empty `[]any`, not `nil` (so the theorems compare
    results through `errNorm`) -/
example : process2EncodeString' msName gfModel 4 (.int 1) default [] "tolist:=" 0
    = .ok (.list [], some Err.invalidType)
    ∧ encResToGo msName gfModel (encodeString (.int 1) "tolist:=") = (.null, some Err.invalidType) := by
  constructor
  · rw [T_process2EncodeString_exact msName gfModel (fun _ => rfl) 4 _ _ _ _ _ (Nat.le_refl _),
      encodeString_tolist_eq, parts_tolist_eq]
    simp [tolistFix, toListMap, encResToGo, throw, throwThe, MonadExceptOf.throw]
  · rw [encodeString_tolist_eq]
    simp [toListMap, encResToGo, throw, throwThe, MonadExceptOf.throw]

/-- a codec in the MIDDLE of a stack: the Go code hands the codec's text to the next transform (here `values`
    of a string: `ErrInvalidType`), the model's `encodeList` stops at the codec -/
example : encodeAnyWith msName gfModel (.int 1) (.list [.str "json", .str "values"])
      = (.null, some Err.invalidType)
    ∧ encodeAny (.int 1) (.list [.str "json", .str "values"]) = .codec "json" (.int 1) := by
  constructor
  · simp only [encodeAnyWith, encodeListWith]
    have h1 : encodeString (.int 1) "json" = .codec "json" (.int 1) := by
      unfold encodeString; rw [parts_json]; rfl
    have h2 : encodeString (.str "json") "values" = .err .invalidType := by
      unfold encodeString; rw [parts_values]; rfl
    rw [h1]
    simp [encResToGo, msName, gfModel, h2]
  · simp only [encodeAny, encodeList]
    have h1 : encodeString (.int 1) "json" = .codec "json" (.int 1) := by
      unfold encodeString; rw [parts_json]; rfl
    rw [h1]

/-- a codec at the END of a stack -/
example : process2EncodeAny' msName gfModel 6 (.map [("a", .int 1)]) default [] (.list [.str "tolist:=", .str "json"]) 0
    = .ok (.str "json", none) := by
  have h : encodeList (.map [("a", .int 1)]) [.str "tolist:="] = .ok (.list [.str "a=1"]) := by
    simp only [encodeList, encodeAny, encodeString_tolist_eq]
    rfl
  have := T_process2EncodeAny_eq_codec_last msName gfModel (fun _ => rfl) 6 (.map [("a", .int 1)]) default []
    [.str "tolist:="] "json" _ 0 (by decide) h
  simp only [List.cons_append, List.nil_append] at this
  rw [this]
  have h1 : ∀ o, encodeString o "json" = .codec "json" o := by
    intro o; unfold encodeString; rw [parts_json]; rfl
  simp only [encodeAny, encodeList, encodeString_tolist_eq, h1]
  rfl

/-- the hypothesis of T_process2EncodeAny_eq_model holds e.g. for `flags` -/
example : ∀ f v, encodeAny (.map [("a", .int 1)]) (.str "flags") ≠ .codec f v := by
  intro f v
  rw [encodeAny, encodeString_flags]
  intro h
  cases h

/-- `flags` needs the four units of fuel -/
example : process2EncodeString' msName gfModel 3 (.map []) default [] "flags" 0 = .error GErr.fuel := by
  unfold process2EncodeString'
  rw [parts_flags]
  simp [strAt_zero, process2EncodeAny', forRange, process2EncodeString']

end Bkl.Gen.Lib
