/-
  Translation equivalence, match.go: the Lean definitions that harness/cmd/gotrans writes from /repo's CURRENT
  match.go (Generated/Trans/Match.lean, regenerated on every run) compute the model's `matchV`
  (Bkl/Match.lean).  No well-formedness hypothesis is needed: `fdel` erases EVERY entry with the key, the model's
  `matchFields … true` skips EVERY `$invert` entry, so the two agree on maps with repeated keys as well.
-/
import Bkl.Match
import Generated.Trans.Match
import BklProofs.Lemmas.GoLib
import BklProofs.Lemmas.Fields
namespace Bkl.Gen.Lib
open Bkl Go

/-! ## util.go:popMapBoolValue (the Util unit is proved elsewhere; this is the one fact used here) -/

theorem popMapBoolValue_eq (m : Fields) (k : String) (b : Bool) :
    popMapBoolValue' m k b = .ok (fhasBool m k b, if fhasBool m k b then fdel m k else m) := by
  unfold popMapBoolValue' hasMapBoolValue' getMapBoolValue' toBool' fhasBool Go.mapIndex2
  cases hg : fget m k with
  | none => simp
  | some v =>
    cases v <;> simp [Go.asBool]
    rename_i b'
    by_cases hb : b' = b <;> simp [hb]

/-! ## model-side lemmas -/

/-- the model skips the `$invert` entries inside the loop; Go erases them from the pattern before the loop -/
theorem matchFields_skip_eq_fdel (okvs pkvs : Fields) :
    matchFields okvs true pkvs = matchFields okvs false (fdel pkvs "$invert") := by
  induction pkvs with
  | nil => simp [fdel, matchFields]
  | cons kv rest ih =>
    obtain ⟨k, v⟩ := kv
    by_cases hk : k = "$invert"
    · subst hk; simp [fdel, matchFields, ih]
    · simp [fdel, matchFields, ih, hk]

theorem fhasBool_fdel_same (m : Fields) (k : String) (b : Bool) : fhasBool (fdel m k) k b = false := by
  simp [fhasBool, fget_fdel_same]

theorem mem_of_mem_fdel {m : Fields} {k k' : String} {v : Val} (h : (k', v) ∈ fdel m k) : (k', v) ∈ m := by
  induction m with
  | nil => simp [fdel] at h
  | cons kv rest ih =>
    obtain ⟨k2, v2⟩ := kv
    simp only [fdel] at h
    split at h
    · exact List.mem_cons_of_mem _ (ih h)
    · rcases List.mem_cons.mp h with h' | h'
      · rw [h']; exact List.mem_cons_self
      · exact List.mem_cons_of_mem _ (ih h')

/-- `matchV` on a map pattern that has no `$invert: true` -/
theorem matchV_map_noinv (obj : Val) (pkvs : Fields) (h : fhasBool pkvs "$invert" true = false) :
    matchV obj (.map pkvs) =
      (match obj with
       | .map okvs => if isPlaceholder okvs then false else matchFields okvs false pkvs
       | _ => false) := by
  cases obj <;> simp [matchV, h]

/-- `matchV` on a map pattern with `$invert: true`: the negation of the match with the entry erased -/
theorem matchV_map_inv (obj : Val) (pkvs : Fields) (h : fhasBool pkvs "$invert" true = true) :
    matchV obj (.map pkvs) = !(matchV obj (.map (fdel pkvs "$invert"))) := by
  rw [matchV_map_noinv obj _ (fhasBool_fdel_same _ _ _)]
  simp only [matchV, h]
  cases obj <;> simp [matchFields_skip_eq_fdel]

/-! ## loops -/

/-- matchListSingle: `for _, ov := range obj { if match(ov, pat) { return true } }; return false` -/
theorem matchListSingle_loop (fuel : Nat) (os : List Val) (pat : Val)
    (hall : ∀ o ∈ os, match' fuel o pat = .ok (matchV o pat)) :
    matchListSingle' (fuel + 1) os pat = .ok (os.any (fun o => matchV o pat)) := by
  unfold matchListSingle'
  induction os with
  | nil => simp
  | cons o os ih =>
    have ho := hall o (List.mem_cons_self)
    have ih' := ih (fun y hy => hall y (List.mem_cons_of_mem _ hy))
    cases hm : matchV o pat with
    | true =>
      rw [forRange_cons_ret (r := true)]
      · simp [hm]
      · simp [ho, hm]
    | false =>
      rw [forRange_cons_next (s' := ())]
      · simp only [List.any_cons, hm, Bool.false_or]; exact ih'
      · simp [ho, hm]

/-- matchList: `for _, pv := range pat { if !matchListSingle(objList, pv) { return false } }; return true` -/
theorem matchList_loop (fuel : Nat) (obj : Val) (ps : List Val)
    (hall : ∀ (os : List Val), ∀ p ∈ ps, matchListSingle' fuel os p = .ok (os.any (fun o => matchV o p))) :
    matchList' (fuel + 1) obj ps = .ok (matchV obj (.list ps)) := by
  unfold matchList'
  cases obj with
  | list os =>
    simp only [Go.asList, matchV, if_true]
    induction ps with
    | nil => simp [matchAll]
    | cons p ps ih =>
      have hp := hall os p (List.mem_cons_self)
      have ih' := ih (fun os' y hy => hall os' y (List.mem_cons_of_mem _ hy))
      cases hm : os.any (fun o => matchV o p) with
      | false =>
        rw [forRange_cons_ret (r := false)]
        · simp [matchAll, hm]
        · simp [hp, hm]
      | true =>
        rw [forRange_cons_next (s' := ())]
        · simp only [matchAll, hm, Bool.true_and]; exact ih'
        · simp [hp, hm]
  | _ => simp [Go.asList, matchV]

/-- the `for pk, pv := range pat` loop of matchMap -/
theorem matchMap_fields_loop (fuel : Nat) (okvs pkvs : Fields)
    (hall : ∀ (o : Val) k v, (k, v) ∈ pkvs → match' fuel o v = .ok (matchV o v)) :
    (match Go.forRange (ρ := Bool) pkvs () (fun (kv : String × Val) () =>
        (match (match' fuel (Go.mapIndex okvs kv.1) kv.2) with
         | .error e__ => .error e__
         | .ok r => (if (!r) then (.ok (Go.Loop.ret false)) else (.ok (Go.Loop.next ()))))) with
     | .error e__ => .error e__
     | .ok (.inr r) => (.ok r)
     | .ok (.inl ()) => (.ok true)) = (.ok (matchFields okvs false pkvs) : G Bool) := by
  induction pkvs with
  | nil => simp [matchFields]
  | cons kv rest ih =>
    obtain ⟨k, v⟩ := kv
    have hv := hall (Go.mapIndex okvs k) k v (List.mem_cons_self)
    have ih' := ih (fun o k' v' hy => hall o k' v' (List.mem_cons_of_mem _ hy))
    have hidx : Go.mapIndex okvs k = (fget okvs k).getD .null := rfl
    rw [hidx] at hv
    cases hm : matchV ((fget okvs k).getD .null) v with
    | false =>
      rw [forRange_cons_ret (r := false)]
      · simp [matchFields, hm]
      · simp [hv, hidx, hm]
    | true =>
      rw [forRange_cons_next (s' := ())]
      · simp only [matchFields, hm, Bool.false_and, Bool.false_eq_true, if_false, Bool.true_and]; exact ih'
      · simp [hv, hidx, hm]

/-- the single-entry placeholder test of matchMap (a loop over the one-entry map) -/
theorem placeholder_loop (k : String) (v : Val) :
    Go.forRange (ρ := Bool) [(k, v)] () (fun (kv : String × Val) () =>
        (if (((kv.1 == "$merge") || (kv.1 == "$replace")) || (kv.1 == "$encode")) then
          (.ok (Go.Loop.ret false)) else (.ok (Go.Loop.next ())))) =
      .ok (if isPlaceholder [(k, v)] then .inr false else .inl ()) := by
  by_cases h : (((k == "$merge") || (k == "$replace")) || (k == "$encode")) = true
  · rw [forRange_cons_ret (r := false)]
    · simp [isPlaceholder, h]
    · simp [h]
  · rw [forRange_cons_next (s' := ())]
    · simp [isPlaceholder, h]
    · simp [h]

theorem isPlaceholder_of_length_ne_one (m : Fields) (h : m.length ≠ 1) : isPlaceholder m = false := by
  rcases m with _ | ⟨kv, _ | ⟨kv2, rest⟩⟩
  · rfl
  · simp at h
  · rfl

/-- matchMap on a pattern without `$invert: true` (the non-inverting path) -/
theorem matchMap_noinv (fuel : Nat) (obj : Val) (pkvs : Fields)
    (hinv : fhasBool pkvs "$invert" true = false)
    (hall : ∀ (o : Val) k v, (k, v) ∈ pkvs → match' fuel o v = .ok (matchV o v)) :
    matchMap' (fuel + 1) obj pkvs = .ok (matchV obj (.map pkvs)) := by
  rw [matchV_map_noinv obj pkvs hinv]
  unfold matchMap'
  simp only [popMapBoolValue_eq, hinv, Bool.false_eq_true, if_false]
  have hloop := matchMap_fields_loop fuel
  -- the generator emits `if r then next else ret false` for Go's `if !r { return false }`
  have hswap : ∀ (r : Bool) (a b : G (Go.Loop Unit Bool)), (if (!r) = true then a else b) = (if r = true then b else a) := by
    intro r a b; cases r <;> rfl
  simp only [hswap] at hloop
  cases obj with
  | map okvs =>
    simp only [Go.asMap, if_true]
    by_cases hlen : okvs.length = 1
    · obtain ⟨⟨k, v⟩, rfl⟩ : ∃ kv, okvs = [kv] := by
        rcases okvs with _ | ⟨kv, _ | ⟨kv2, rest⟩⟩
        · simp at hlen
        · exact ⟨kv, rfl⟩
        · simp at hlen
      have hp := placeholder_loop k v
      simp only [List.length_singleton, Int.ofNat_eq_natCast, Int.cast_ofNat_Int, BEq.rfl, if_true] at hp ⊢
      rw [hp]
      by_cases hph : isPlaceholder [(k, v)] = true
      · simp [hph]
      · simp only [hph, Bool.false_eq_true, if_false]
        exact hloop [(k, v)] pkvs hall
    · have hne : ((Int.ofNat okvs.length) == (1 : Int)) = false := by
        simp only [beq_eq_false_iff_ne, ne_eq, Int.ofNat_eq_natCast]
        omega
      simp only [hne, Bool.false_eq_true, if_false, isPlaceholder_of_length_ne_one okvs hlen]
      exact hloop okvs pkvs hall
  | _ => simp [Go.asMap]

/-- matchMap in general: one more level of fuel for the call on the popped pattern -/
theorem matchMap_step (F : Nat) (obj : Val) (pkvs : Fields)
    (hall : ∀ f, F ≤ f → ∀ (o : Val) k v, (k, v) ∈ pkvs → match' f o v = .ok (matchV o v))
    (fuel : Nat) (hf : F + 2 ≤ fuel) :
    matchMap' fuel obj pkvs = .ok (matchV obj (.map pkvs)) := by
  obtain ⟨f, rfl⟩ : ∃ f, fuel = f + 2 := ⟨fuel - 2, by omega⟩
  cases hinv : fhasBool pkvs "$invert" true with
  | false => exact matchMap_noinv (f + 1) obj pkvs hinv (hall (f + 1) (by omega))
  | true =>
    have hrec := matchMap_noinv f obj (fdel pkvs "$invert") (fhasBool_fdel_same _ _ _)
      (fun o k v hm => hall f (by omega) o k v (mem_of_mem_fdel hm))
    rw [matchV_map_inv obj pkvs hinv]
    rw [matchMap']
    simp only [popMapBoolValue_eq, hinv, if_true, hrec]

/-! ## the functions -/

theorem match_eq_aux : ∀ (n : Nat) (pat : Val), Go.depth pat ≤ n → ∀ fuel, 3 * n + 1 ≤ fuel →
    ∀ obj, match' fuel obj pat = .ok (matchV obj pat) := by
  intro n
  induction n with
  | zero =>
    intro pat hd fuel hf obj
    obtain ⟨f, rfl⟩ : ∃ f, fuel = f + 1 := ⟨fuel - 1, by omega⟩
    cases pat with
    | map kvs => simp [Go.depth] at hd
    | list xs => simp [Go.depth] at hd
    | _ => simp [match', matchV]
  | succ m ih =>
    intro pat hd fuel hf obj
    obtain ⟨f, rfl⟩ : ∃ f, fuel = f + 1 := ⟨fuel - 1, by omega⟩
    cases pat with
    | map kvs =>
      have hall : ∀ f', 3 * m + 1 ≤ f' → ∀ (o : Val) k v, (k, v) ∈ kvs → match' f' o v = .ok (matchV o v) := by
        intro f' hf' o k v hm
        have := Go.depth_le_of_mem_fields hm
        simp only [Go.depth] at hd
        exact ih v (by omega) f' hf' o
      simp [match', matchMap_step (3 * m + 1) obj kvs hall f (by omega)]
    | list xs =>
      obtain ⟨f, rfl⟩ : ∃ f', f = f' + 2 := ⟨f - 2, by omega⟩
      have hall : ∀ (os : List Val), ∀ p ∈ xs,
          matchListSingle' (f + 1) os p = .ok (os.any (fun o => matchV o p)) := by
        intro os p hm
        have := Go.depth_le_of_mem_list hm
        simp only [Go.depth] at hd
        exact matchListSingle_loop f os p (fun o _ => ih p (by omega) f (by omega) o)
      simp [match', matchList_loop (f + 1) obj xs hall]
    | _ => simp [match', matchV]

/-- match.go:match, as translated from the current source, is the model's `matchV` -/
theorem T_match_eq (obj pat : Val) (fuel : Nat) (h : 3 * Go.depth pat + 1 ≤ fuel) :
    match' fuel obj pat = .ok (matchV obj pat) :=
  match_eq_aux (Go.depth pat) pat (Nat.le_refl _) fuel h obj

/-- match.go:matchMap -/
theorem T_matchMap_eq (obj : Val) (pat : Fields) (fuel : Nat) (h : 3 * Go.depthFields pat + 3 ≤ fuel) :
    matchMap' fuel obj pat = .ok (matchV obj (.map pat)) :=
  matchMap_step (3 * Go.depthFields pat + 1) obj pat
    (fun f hf o k v hm => T_match_eq o v f (by have := Go.depth_le_of_mem_fields hm; omega)) fuel (by omega)

/-- match.go:matchListSingle -/
theorem T_matchListSingle_eq (objs : List Val) (pat : Val) (fuel : Nat) (h : 3 * Go.depth pat + 2 ≤ fuel) :
    matchListSingle' fuel objs pat = .ok (objs.any (fun o => matchV o pat)) := by
  obtain ⟨f, rfl⟩ : ∃ f, fuel = f + 1 := ⟨fuel - 1, by omega⟩
  exact matchListSingle_loop f objs pat (fun o _ => T_match_eq o pat f (by omega))

/-- match.go:matchList -/
theorem T_matchList_eq (obj : Val) (pat : List Val) (fuel : Nat) (h : 3 * Go.depthList pat + 3 ≤ fuel) :
    matchList' fuel obj pat = .ok (matchV obj (.list pat)) := by
  obtain ⟨f, rfl⟩ : ∃ f, fuel = f + 1 := ⟨fuel - 1, by omega⟩
  exact matchList_loop f obj pat
    (fun os p hm => T_matchListSingle_eq os p f (by have := Go.depth_le_of_mem_list hm; omega))

/-! ## instances: the bounds are met by real inputs, the bound of `T_match_eq` is sharp, and repeated keys in the
    pattern (not well-formed) are handled alike by both sides (hence no `Val.WF` hypothesis) -/

example : 3 * Go.depth (.map [("$invert", .bool true), ("a", .list [.int 1])]) + 1 ≤ 7 := by decide

example : match' 7 (.map [("a", .list [.int 2, .int 1])]) (.map [("$invert", .bool true), ("a", .list [.int 1])])
    = .ok false := by
  rw [T_match_eq _ _ _ (by decide)]; exact congrArg Except.ok (by decide)

/-- one unit of fuel less than the bound of `T_match_eq` is not enough (depth 1, `$invert: true`) -/
example : match' 3 (.map [("a", .int 1)]) (.map [("$invert", .bool true), ("a", .int 1)]) = .error GErr.fuel := by
  simp [match', matchMap', popMapBoolValue_eq, fhasBool, fget, fdel, Go.asMap, Go.forRange]

/-- a pattern with the key `$invert` twice: Go's `delete` (`fdel`) and the model's skip both drop every entry -/
example : match' 4 (.map [("a", .int 1)]) (.map [("$invert", .bool true), ("$invert", .bool false), ("a", .int 1)])
    = .ok (matchV (.map [("a", .int 1)]) (.map [("$invert", .bool true), ("$invert", .bool false), ("a", .int 1)])) :=
  T_match_eq _ _ _ (by decide)

example : matchV (.map [("a", .int 1)]) (.map [("$invert", .bool true), ("$invert", .bool false), ("a", .int 1)])
    = false := by decide

end Bkl.Gen.Lib
