/-
  Fact obligations for determinism (F2, F4): the list of `range` loops over Go maps in package
  bkl equals the list of loops for which BklProofs.C09 has an order-invariance theorem, there is
  no package-level mutable state and no goroutine is started by the library.  Used by C09.
-/
import Bkl
import Generated.Facts
namespace Bkl

/-- every unordered `range` site of package bkl, with the theorem that makes its order irrelevant -/
def coveredRanges : List ((String × String × String) × String) := [
  (("document.go", "allParents", "parent.AllParents(...)"), "C09_allParents_order_invariant"),
  (("filepath.go", "findFile", "formatByExtension"), "order matters only for ambiguous layer names (excluded by the property); model: sorted"),
  (("json.go", "jsonKeepFloats", "v2"), "C09_insert_order_invariant (copy into a fresh map; added by fix c9f6d4f)"),
  (("match.go", "matchMap", "objMap"), "single-entry map (len == 1 is tested first)"),
  (("match.go", "matchMap", "pat"), "C09_match_order_invariant"),
  (("merge.go", "mergeMapMap", "src"), "C09_merge_order_invariant"),
  (("repeat.go", "repeatDocGenFromMap", "rs"), "C09_repeat_vars_order_invariant"),
  (("util.go", "deepClone", "v2"), "C09_insert_order_invariant (copy into a fresh map)"),
  (("util.go", "filterMap", "m2"), "C09_insert_order_invariant (insert into the result map)"),
  (("validate.go", "validateMap", "obj"), "C09_validate_order_invariant"),
  (("yaml.go", "yamlKeepFloats", "v2"), "C09_insert_order_invariant (copy into a fresh map; added by fix c9f6d4f)"),
  (("yaml.go", "yamlMerge", "inner"), "C09_insert_order_invariant"),
  (("yaml.go", "yamlMerge", "src2"), "C09_insert_order_invariant")]

/-- F2: no unordered map walk exists in package bkl beyond the covered ones -/
theorem F2_raw_ranges_covered : Facts.rawMapRanges = coveredRanges.map (·.1) := by decide

/-- F4: package-level variables are sentinels, regexps and the format table; none is assigned after init -/
theorem F4_no_mutable_globals :
    Facts.pkgVarWrites = [] ∧
    Facts.pkgVarKinds.all (fun k => k == "sentinel" || k == "regexp" || k == "formatTable") = true := by decide

/-- the library starts no goroutine: concurrent evaluations share nothing but immutable globals -/
theorem F4_no_goroutines : Facts.goStatements = [] := by decide

end Bkl
