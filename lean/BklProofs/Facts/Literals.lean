/-
  Fact obligation F6: every `$`-literal the evaluator compares against is one the model (and the
  escape / validation theorems) know.  Used by C06 and C07.
-/
import Bkl
import Generated.Facts
namespace Bkl

def modelRecognisers : List String :=
  ["$", "$\"", "$$", "$decode", "$delete", "$encode", "$env:", "$invert", "$match", "$merge", "$merge:",
   "$output", "$parent", "$path", "$repeat", "$replace", "$replace:", "$required", "$value"]

/-- F6: the source has no recogniser literal outside the modelled set -/
theorem F6_recognisers_known : Facts.recogniserLits = modelRecognisers := by decide

/-- every recogniser other than the escape itself is `$` + lowercase letter or `$"`: left over in
    an output it fails validation (`$"` can only start an interpolation, which is evaluated) -/
theorem F6_recognisers_rejected_if_left_over :
    (modelRecognisers.filter (fun s => s != "$" && s != "$$" && s != "$\"")).all
      (fun s => match validateChars s.toList with | .ok _ => false | .error _ => true) = true := by decide

/-- F14: the model's table of lower-case letters above Latin-1 (Bkl/UnicodeLower.lean, used by `isLowerModel` =
    validate.go's `unicode.IsLower`) is the `unicode.Lower` table of the toolchain that builds /repo -/
theorem F14_unicode_lower_table : Facts.unicodeLower = unicodeLowerRanges := by decide

end Bkl
