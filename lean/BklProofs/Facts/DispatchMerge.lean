/-
  Fact obligation F10, slice "merge": the directive literals, in source order, of every function of
  match.go, merge.go, parser.go are the ones the model mirrors (table and explanation: BklProofs/Facts/Dispatch.lean).
-/
import BklProofs.Facts.Dispatch
namespace Bkl

theorem F10_dispatch_order_merge :
    seqOfFiles ["match.go", "merge.go", "parser.go"] Facts.directiveSeq = seqOfFiles ["match.go", "merge.go", "parser.go"] (expectedDirectiveSeq.map (·.1)) := by decide

end Bkl
