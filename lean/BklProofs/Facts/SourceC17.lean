/-
  Source-level laws (C17): property theorems of the model composed with the translation-equivalence theorems, i.e. stated
  directly about the Lean functions generated from the CURRENT Go source (Generated/Trans).  Corollaries only.
-/
import BklProofs.C17
import BklProofs.Lemmas.GoLibUtil
import BklProofs.Facts.TransBklr
namespace Bkl.Gen
open Bkl Go

/-! # C17 — bklr, on `required'` -/

/-! ### helpers: `required` keeps well-formedness and does not deepen -/

theorem required_wf {v r : Val} (hv : Val.WF v) (h : required v = some r) : Val.WF r := by
  have h1 := Bklr.T_required_eq v hv _ (Nat.le_refl _)
  have h2 := (Bklr.T_required_eq_iff v _ (Nat.le_refl _)).1 h1
  rw [h] at h2
  simp only [Option.map_some, Option.some.injEq] at h2
  exact (gu_norm_eq_self_iff r).1 h2

mutual
theorem depth_required_le : ∀ (v r : Val), required v = some r → Go.depth r ≤ Go.depth v
  | .map kvs, r, h => by
    have ih := depthFields_required_le kvs
    simp only [required] at h
    split at h
    · cases h
    · cases h; simp only [Go.depth]; omega
  | .list xs, r, h => by
    have ih := depthList_required_le xs
    simp only [required] at h
    split at h
    · cases h
    · cases h; simp only [Go.depth]; omega
  | .str s, r, h => by
    simp only [required] at h
    split at h
    · cases h; exact Nat.le_refl _
    · cases h
  | .null, r, h => by simp [required] at h
  | .bool _, r, h => by simp [required] at h
  | .int _, r, h => by simp [required] at h
  | .flt _, r, h => by simp [required] at h
theorem depthList_required_le : ∀ (xs : List Val), Go.depthList (requiredList xs) ≤ Go.depthList xs
  | [] => Nat.le_refl _
  | x :: xs => by
    have ih := depthList_required_le xs
    simp only [requiredList]
    cases h : required x with
    | none => simp only [Go.depthList]; omega
    | some r => have := depth_required_le x r h; simp only [Go.depthList]; omega
theorem depthFields_required_le : ∀ (kvs : Fields), Go.depthFields (requiredFields kvs) ≤ Go.depthFields kvs
  | [] => Nat.le_refl _
  | (k, v) :: rest => by
    have ih := depthFields_required_le rest
    simp only [requiredFields]
    cases h : required v with
    | none => simp only [Go.depthFields]; omega
    | some r => have := depth_required_le v r h; simp only [Go.depthFields]; omega
end

/-! ### the laws -/

/-- the output consists of markers only (`C17_only_markers`): for a well-formed input the translated `required`
    never fails, and what it returns is nil or a value all of whose leaves are `"$required"` and all of whose
    containers are non-empty; the number of markers is that of the input (`C17_count`) -/
theorem S_C17_only_markers (v : Val) (hv : Val.WF v) (fuel : Nat) (hf : 2 * Go.depth v + 1 ≤ fuel) :
    ∃ r, Bklr.required' fuel v = .ok (r, none) ∧ (r = .null ∨ onlyMarkers r = true) ∧
      countReq r = countReq v := by
  refine ⟨_, Bklr.T_required_eq v hv fuel hf, ?_, C17_count v⟩
  cases h : required v with
  | none => exact .inl rfl
  | some r => exact .inr (C17_only_markers v r h)

/-- nothing is emitted exactly when the input has no marker (`C17_empty_iff`) -/
theorem S_C17_empty_iff (v : Val) (hv : Val.WF v) (fuel : Nat) (hf : 2 * Go.depth v + 1 ≤ fuel) :
    Bklr.required' fuel v = .ok (.null, none) ↔ countReq v = 0 := by
  rw [Bklr.T_required_eq v hv fuel hf, ← C17_empty_iff v]
  cases h : required v with
  | none => simp
  | some r =>
    have := rq_required_ne_null v
    rw [h] at this
    simp only [Option.getD_some, Except.ok.injEq, Prod.mk.injEq, and_true, reduceCtorEq, iff_false]
    intro e; subst e; exact this rfl

/-- idempotence (`C17_idempotent`): running the translated `required` on its own output returns that output —
    with the SAME fuel bound as for the input (`required` does not deepen a value) -/
theorem S_C17_idempotent (v r : Val) (hv : Val.WF v) (fuel : Nat) (hf : 2 * Go.depth v + 1 ≤ fuel)
    (h : Bklr.required' fuel v = .ok (r, none)) (fuel' : Nat) (hf' : 2 * Go.depth v + 1 ≤ fuel') :
    Bklr.required' fuel' r = .ok (r, none) := by
  rw [Bklr.T_required_eq v hv fuel hf] at h
  cases hr : required v with
  | none =>
    rw [hr] at h
    simp only [Option.getD_none, Except.ok.injEq, Prod.mk.injEq, and_true] at h
    subst h
    rw [Bklr.T_required_eq .null (by decide) fuel' (by simp only [Go.depth]; omega)]
    rfl
  | some r0 =>
    rw [hr] at h
    simp only [Option.getD_some, Except.ok.injEq, Prod.mk.injEq, and_true] at h
    subst h
    have hd := depth_required_le v r0 hr
    rw [Bklr.T_required_eq r0 (required_wf hv hr) fuel' (by omega), C17_idempotent v r0 hr]
    rfl

/-- non-vacuity (the witness of BklProofs/Facts/TransBklr): a well-formed value with two markers; the translated
    `required` returns the skeleton, which is not nil, and is a fixed point -/
example : Val.WF Bklr.exWF ∧ 2 * Go.depth Bklr.exWF + 1 ≤ 7 ∧ countReq Bklr.exWF = 2 := by decide

example : Bklr.required' 7 Bklr.exWF =
      .ok (.map [("a", .str "$required"), ("c", .list [.map [("d", .str "$required")]])], none) ∧
    Bklr.required' 7 (.map [("a", .str "$required"), ("c", .list [.map [("d", .str "$required")]])]) =
      .ok (.map [("a", .str "$required"), ("c", .list [.map [("d", .str "$required")]])], none) ∧
    Bklr.required' 7 Bklr.exWF ≠ .ok (.null, none) := by
  have h1 : Bklr.required' 7 Bklr.exWF =
      .ok (.map [("a", .str "$required"), ("c", .list [.map [("d", .str "$required")]])], none) := by
    rw [Bklr.T_required_eq Bklr.exWF (by decide) 7 (by decide)]; decide
  refine ⟨h1, S_C17_idempotent Bklr.exWF _ (by decide) 7 (by decide) h1 7 (by decide), ?_⟩
  rw [Ne, S_C17_empty_iff Bklr.exWF (by decide) 7 (by decide)]
  decide


end Bkl.Gen
