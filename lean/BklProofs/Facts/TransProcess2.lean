/-
  Translation equivalence, process2.go (3): the mutual block process2 / process2Map / process2MapValue / process2Encode
  / process2Decode / process2DecodeString / process2DecodeStringMap / process2List of Generated/Trans/Process2.lean
  (regenerated from /repo's CURRENT process2.go on every run) against the model's `process2` (Bkl/Process2.lean).

  * depth budget: Go's process2 increments `depth` and fails with ErrCircularRef when the result exceeds 1000; everything
    it calls gets the incremented depth.  The model's `process2 fuel` fails at fuel 0 and recurses with `fuel - 1`.
    The exact correspondence is  model fuel = `(1000 - depth).toNat`  for process2 called with `depth` (every integer
    depth), i.e. `(1000 - d).toNat + 1` for process2Map / process2List called with the incremented `d`, and
    `(1001 - d).toNat` for process2String (TransProcess2String.lean).  No off-by-one was found.
  * `ec : Go.Ctx` ~ `ec.vars`, `mergeFrom.data` ~ `root`, `mergeFromDocs.map (·.data)` ~ `docs`.
  * results are compared through `errNorm` (TransEncode2): next to an error the translated functions return non-nil
    values in places (`tolist`, the nil map/slice of filterMap/filterList inside an `any`; `errNorm_needed`).
  * hypotheses: `GetFormatSpec getFormat`, `ParseOK yamlUnmarshal`, documents non-nil and well-formed (`wf_needed_go`),
    and the model does not answer `Err.unmodelled` (no codec `$encode`/`$decode`, no unreadable reference is REACHED:
    `unmodelled_needed_decode`, `unmodelled_needed_ref`).  Nothing is assumed about `marshalStream`, `unmarshalStream`,
    `normalize`; the codec path of `$decode` is stated through them in T_process2DecodeStringMap_codec.  The evaluated
    object `obj` itself need NOT be well-formed.
  * translator fuel: the single-step theorems (process2Encode_step, process2Map_step, process2List_step,
    T_process2Decode…_eq) are explicit: the callee's fuel + 1/+2/+3, `2 * depth obj2 + 1` for `validate` on the EVALUATED
    object, `depth spec + 5` for the `$encode` dispatcher on the (possibly evaluated) spec.  For the whole recursion the
    bound is the explicit, computable function `p2Fuel` (T_process2_eq_fuel, T_process2Map_eq_fuel, …), which is
    computed ALONG THE MODEL'S EVALUATION and not from `Go.depth` of the input alone: process2 evaluates values that are
    themselves results of process2 (the entries produced by a nested `$repeat` are evaluated a second time by the final
    loop of process2Map; `$encode` validates the evaluated object and may get an evaluated spec), so the need depends on
    intermediate results.  T_process2_eq … state the same for all fuel above a bound that exists.
  Main theorems: T_process2_eq_fuel, T_process2_eq (+ _ok, _error), T_process2Map_eq(_fuel), T_process2List_eq(_fuel),
  T_process2Encode_eq(_fuel), T_process2MapValue_eq(_fuel), T_process2Decode_eq, T_process2DecodeString_eq,
  T_process2DecodeStringMap_eq (+ _codec).
-/
import BklProofs.Facts.TransProcess2Repeat
set_option linter.unusedSimpArgs false
set_option linter.unusedVariables false
namespace Bkl.Gen.Lib
open Bkl Go

/-! ## filterList / filterMap with a filter that implements a model step wherever the model is not `unmodelled` -/

theorem filterListRecS_mod (filter : Val → Unit → G ((List Val × Option Err) × Unit))
    (step : List Val → Val → R (List Val))
    (happ : ∀ acc x, step acc x = (match step [] x with | .ok r => .ok (acc ++ r) | .error e => .error e))
    (l : List Val) (acc : List Val)
    (hf : ∀ x ∈ l, step [] x ≠ .error Err.unmodelled → filter x () = .ok (P2_listRes (step [] x), ()))
    (hmod : l.foldlM step acc ≠ .error Err.unmodelled) :
    filterListRecS filter l acc () = .ok (P2_listRes (l.foldlM step acc), ()) := by
  induction l generalizing acc with
  | nil => rfl
  | cons x xs ih =>
    rw [List.foldlM_cons] at hmod ⊢
    rw [happ] at hmod ⊢
    cases hs : step [] x with
    | error e =>
      rw [hs] at hmod
      have := hf x List.mem_cons_self (by rw [hs]; exact err_ne_cast hmod)
      rw [hs] at this
      simp only [filterListRecS, this, listRes_error]
      rfl
    | ok r =>
      rw [hs] at hmod
      have := hf x List.mem_cons_self (by rw [hs]; intro h; cases h)
      rw [hs] at this
      simp only [filterListRecS, this, listRes_ok]
      exact ih _ (fun y hy => hf y (List.mem_cons_of_mem _ hy)) hmod

theorem filterMapRecS_mod (filter : String → Val → Unit → G ((Fields × Option Err) × Unit))
    (step : Fields → String × Val → R Fields)
    (happ : ∀ acc kv, Fields.SortedKeys acc →
      step acc kv = (match step [] kv with | .ok r => .ok (fsetAll acc r) | .error e => .error e))
    (m : Fields) (acc : Fields) (hacc : Fields.SortedKeys acc)
    (hf : ∀ kv ∈ m, step [] kv ≠ .error Err.unmodelled → filter kv.1 kv.2 () = .ok (P2_fieldsRes (step [] kv), ()))
    (hmod : m.foldlM step acc ≠ .error Err.unmodelled) :
    filterMapRecS filter m acc () = .ok (P2_fieldsRes (m.foldlM step acc), ()) := by
  induction m generalizing acc with
  | nil => rfl
  | cons kv rest ih =>
    obtain ⟨k, v⟩ := kv
    rw [List.foldlM_cons] at hmod ⊢
    rw [happ _ _ hacc] at hmod ⊢
    cases hs : step [] (k, v) with
    | error e =>
      rw [hs] at hmod
      have := hf (k, v) List.mem_cons_self (by rw [hs]; exact err_ne_cast hmod)
      rw [hs] at this
      simp only [filterMapRecS, this, fieldsRes_error]
      rfl
    | ok r =>
      rw [hs] at hmod
      have := hf (k, v) List.mem_cons_self (by rw [hs]; intro h; cases h)
      rw [hs] at this
      simp only [filterMapRecS, this, fieldsRes_ok]
      exact ih _ (gu_sorted_fsetAll _ hacc) (fun y hy => hf y (List.mem_cons_of_mem _ hy)) hmod

/-! ## accumulators -/

theorem repListM_acc (P : Vars → Val → R Val) (ec : Vars) (body : Val) (is : List Nat) (acc acc0 : List Val) :
    repListM P ec body is (acc ++ acc0) =
      (match repListM P ec body is acc0 with | .ok r => .ok (acc ++ r) | .error e => .error e) := by
  induction is generalizing acc0 with
  | nil => rfl
  | cons i is ih =>
    rw [repListM_cons, repListM_cons]
    cases P (fset ec "$repeat" (.int (Int.ofNat i))) body with
    | error e => rfl
    | ok v2 =>
      simp only []
      cases v2.isNull
      · simp only [Bool.false_eq_true, if_false, ← List.append_assoc]; rw [List.append_assoc, ih]
      · simp only [if_true]; exact ih _

theorem repMapM_sorted (P : Vars → Val → R Val) (ec : Vars) (k : String) (body : Val) (is : List Nat) (acc r : Fields)
    (ha : Fields.SortedKeys acc) (h : repMapM P ec k body is acc = .ok r) : Fields.SortedKeys r := by
  induction is generalizing acc with
  | nil => simp only [repMapM, List.foldlM_nil, pure, Except.pure, Except.ok.injEq] at h; exact h ▸ ha
  | cons i is ih =>
    rw [repMapM_cons] at h
    cases hP : P (fset ec "$repeat" (.int (Int.ofNat i))) body with
    | error e => rw [hP] at h; cases h
    | ok v2 =>
      rw [hP] at h
      simp only [] at h
      cases hn : v2.isNull
      · simp only [hn, Bool.false_eq_true, if_false] at h
        cases hK : P (fset ec "$repeat" (.int (Int.ofNat i))) (.str k) with
        | error e => rw [hK] at h; cases h
        | ok k2 =>
          rw [hK] at h
          cases k2 <;> first | cases h | exact ih _ (sorted_fset ha) h
      · simp only [hn, if_true] at h; exact ih _ ha h

theorem repMapM_acc (P : Vars → Val → R Val) (ec : Vars) (k : String) (body : Val) (is : List Nat)
    (acc acc0 : Fields) (ha : Fields.SortedKeys acc) (h0 : Fields.SortedKeys acc0) :
    repMapM P ec k body is (fsetAll acc acc0) =
      (match repMapM P ec k body is acc0 with | .ok r => .ok (fsetAll acc r) | .error e => .error e) := by
  induction is generalizing acc0 with
  | nil => rfl
  | cons i is ih =>
    rw [repMapM_cons, repMapM_cons]
    cases P (fset ec "$repeat" (.int (Int.ofNat i))) body with
    | error e => rfl
    | ok v2 =>
      simp only []
      cases v2.isNull
      · simp only [Bool.false_eq_true, if_false]
        cases P (fset ec "$repeat" (.int (Int.ofNat i))) (.str k) with
        | error e => rfl
        | ok k2 =>
          cases k2 <;> try rfl
          simp only []
          rw [← fsetAll_fset_sorted ha h0]
          exact ih _ (sorted_fset h0)
      · simp only [if_true]; exact ih _ h0

theorem expandStepM_acc (P : Vars → Val → R Val) (ec : Vars) (acc : Fields) (kv : String × Val)
    (ha : Fields.SortedKeys acc) :
    expandStepM P ec acc kv =
      (match expandStepM P ec [] kv with | .ok r => .ok (fsetAll acc r) | .error e => .error e) := by
  obtain ⟨k, v⟩ := kv
  unfold expandStepM
  have hplain : (pure (fset acc k v) : R Fields) =
      (match (pure (fset [] k v) : R Fields) with | .ok r => .ok (fsetAll acc r) | .error e => .error e) := rfl
  cases v with
  | map m =>
    simp only []
    cases hr : fget m "$repeat" with
    | none => exact hplain
    | some r =>
      cases r with
      | int n =>
        simp only []
        have := repMapM_acc P ec k (Val.map (fdel m "$repeat")) (List.range n.toNat) acc [] ha (by simp [Fields.SortedKeys])
        exact this
      | _ => rfl
  | _ => exact hplain

theorem entryStepM_acc (P : Vars → Val → R Val) (ec : Vars) (acc : Fields) (kv : String × Val) :
    entryStepM P ec acc kv =
      (match entryStepM P ec [] kv with | .ok r => .ok (fsetAll acc r) | .error e => .error e) := by
  obtain ⟨k, v⟩ := kv
  unfold entryStepM
  simp only [bind, Except.bind]
  cases P ec v with
  | error e => rfl
  | ok v2 =>
    simp only []
    cases v2.isNull
    · simp only [Bool.false_eq_true, if_false]
      cases P ec (.str k) with
      | error e => rfl
      | ok k2 => cases k2 <;> rfl
    · rfl

theorem listStepM_acc (P : Vars → Val → R Val) (ec : Vars) (acc : List Val) (v : Val) :
    listStepM P ec acc v =
      (match listStepM P ec [] v with | .ok r => .ok (acc ++ r) | .error e => .error e) := by
  have hplain : (do let v2 ← P ec v; if v2.isNull then pure acc else pure (acc ++ [v2]) : R (List Val)) =
      (match (do let v2 ← P ec v; if v2.isNull then pure [] else pure ([] ++ [v2]) : R (List Val)) with
        | .ok r => .ok (acc ++ r) | .error e => .error e) := by
    simp only [bind, Except.bind]
    cases P ec v with
    | error e => rfl
    | ok v2 => cases h : v2.isNull <;> simp [h, pure, Except.pure]
  unfold listStepM
  cases v with
  | map m =>
    simp only []
    cases hr : fget m "$repeat" with
    | none => exact hplain
    | some r =>
      cases r with
      | int n =>
        simp only []
        have := repListM_acc P ec (Val.map (fdel m "$repeat")) (List.range n.toNat) acc []
        rw [List.append_nil] at this
        exact this
      | _ => rfl
  | _ => exact hplain

/-! ## `$encode`, `$decode` -/

theorem encodeM_eq (P : Vars → Val → R Val) (ec : Vars) (obj spec : Val) :
    encodeM P ec obj spec =
      (match P ec obj with
       | .error e => .error e
       | .ok obj2 =>
         match validate obj2 with
         | .error e => .error e
         | .ok _ =>
           match encodeAny obj2 spec with
           | .ok v => .ok v
           | .err e => .error e
           | .codec _ _ => .error Err.unmodelled) := by
  unfold encodeM
  cases P ec obj with
  | error e => rfl
  | ok obj2 =>
    simp only [bind, Except.bind]
    cases validate obj2 with
    | error e => rfl
    | ok u => cases encodeAny obj2 spec <;> rfl

section
variable (ms : Go.Opaque → List Val → String × Option Err) (us : Go.Opaque → String → List Val × Option Err)
  (gf : String → Go.Opaque × Option Err) (nz : Val → Val × Option Err) (yu : String → Val × Option Err)

/-- process2.go:process2Encode, given the call `process2(obj, …)` it makes; fuel for `validate` on the evaluated object
    and for the dispatcher on the spec -/
theorem process2Encode_step (hGF : GetFormatSpec gf) (P : Vars → Val → R Val) (f : Nat) (obj : Val) (mf : Go.Doc)
    (docs : List Go.Doc) (ec : Go.Ctx) (spec : Val) (depth : Int)
    (hrec : CallOK (fun ec' x => process2' ms us gf nz yu f x mf docs ec' depth) P ec obj)
    (hfv : ∀ obj2, P ec.vars obj = .ok obj2 → 2 * Go.depth obj2 + 1 ≤ f)
    (hfe : Go.depth spec + 5 ≤ f)
    (hmod : encodeM P ec.vars obj spec ≠ .error Err.unmodelled) :
    ∃ q, process2Encode' ms us gf nz yu (f + 1) obj mf docs ec spec depth = .ok q ∧
      errNorm q = valRes (encodeM P ec.vars obj spec) := by
  rw [encodeM_eq] at hmod ⊢
  unfold process2Encode'
  cases hP : P ec.vars obj with
  | error e =>
    rw [hP] at hmod
    simp only [] at hmod
    obtain ⟨q, hq, hn⟩ := hrec (by rw [hP]; exact err_ne_cast hmod)
    rw [hP] at hn
    have h2 := errNorm_err hn
    obtain ⟨a, b⟩ := q
    simp only at h2; subst h2
    simp only at hq
    exact ⟨(.null, some e), by simp only [hq, some_bne_none, p2_some_beq_none, Bool.false_eq_true, if_false, if_true], rfl⟩
  | ok obj2 =>
    rw [hP] at hmod
    simp only [] at hmod ⊢
    obtain ⟨q, hq, hn⟩ := hrec (by rw [hP]; intro h; cases h)
    rw [hP] at hn
    have h2 := errNorm_ok hn
    subst h2
    simp only at hq
    simp only [hq, none_bne_none, p2_none_beq_none, if_true, Bool.false_eq_true, if_false, T_validate_eq obj2 f (hfv obj2 hP)]
    cases hv : validate obj2 with
    | error e => exact ⟨(.null, some e), by simp only [errOpt_error, some_bne_none, p2_some_beq_none, Bool.false_eq_true, if_false, if_true], rfl⟩
    | ok u =>
      rw [hv] at hmod
      simp only [] at hmod ⊢
      have hnc : ∀ f v, encodeAny obj2 spec ≠ .codec f v := by
        intro f' v' h; rw [h] at hmod; exact hmod rfl
      obtain ⟨r, hr, hrn⟩ := T_process2EncodeAny_eq_model ms gf hGF f obj2 mf docs spec depth hfe hnc
      refine ⟨r, ?_, ?_⟩
      · simp only [errOpt_ok, none_bne_none, p2_none_beq_none, if_true, Bool.false_eq_true, if_false, hr]
      · rw [hrn]
        cases he : encodeAny obj2 spec with
        | ok v => rfl
        | err e => rfl
        | codec f' v' => exact absurd he (hnc f' v')

/-- process2.go:process2Decode on the rest of a map: the model's `$decode` branch (the codec formats are `unmodelled`
    in the model; every other format name is ErrUnknownFormat) -/
theorem process2Decode_step (hGF : GetFormatSpec gf) (f : Nat) (kvs : Fields) (mf : Go.Doc)
    (docs : List Go.Doc) (ec : Go.Ctx) (spec : Val) (depth : Int)
    (hmod : decodeM kvs spec ≠ .error Err.unmodelled) :
    process2Decode' ms us gf nz yu (f + 3) (.map (fdel kvs "$decode")) mf docs ec spec depth =
      .ok (valRes (decodeM kvs spec)) := by
  unfold process2Decode'
  cases spec with
  | str fm =>
    simp only []
    unfold process2DecodeString'
    simp only []
    unfold process2DecodeStringMap'
    simp only [T_popMapValue_eq]
    unfold decodeM at hmod ⊢
    simp only [] at hmod ⊢
    cases hv : fget (fdel kvs "$decode") "$value" with
    | none => simp [throw, throwThe, MonadExceptOf.throw]
    | some val =>
      rw [hv] at hmod
      by_cases hs : ∃ s, val = .str s
      · obtain ⟨s, rfl⟩ := hs
        simp only [] at hmod
        by_cases hl : (fdel (fdel kvs "$decode") "$value").length = 0
        · have hcf : isCodecFormat fm = false := by
            cases hc : isCodecFormat fm
            · rfl
            · simp [hl, hc, throw, throwThe, MonadExceptOf.throw] at hmod
          have hg := hGF fm
          rw [hcf] at hg
          have hl' : fdel (fdel kvs "$decode") "$value" = [] := List.length_eq_zero_iff.1 hl
          simp [Go.asStr, hl, hl', hcf, hg, throw, throwThe, MonadExceptOf.throw]
        · have hl' : ¬ fdel (fdel kvs "$decode") "$value" = [] := fun h => hl (List.length_eq_zero_iff.2 h)
          simp [Go.asStr, hl, hl', throw, throwThe, MonadExceptOf.throw]
      · have h1 : (Go.asStr val).2 = false := by
          cases val <;> first | rfl | exact absurd ⟨_, rfl⟩ hs
        simp only [Option.isSome_some, Bool.not_true, Bool.false_eq_true, if_false, Option.getD_some, h1,
          Bool.not_false, if_true]
        cases val <;> first | rfl | exact absurd ⟨_, rfl⟩ hs
  | _ => rfl
end

/-! ## one entry of the final loops of process2Map / process2List -/

theorem entryStep_go (rec : Go.Ctx → Val → G (Val × Option Err)) (P : Vars → Val → R Val) (ec : Go.Ctx)
    (k : String) (v : Val) (body : G ((Fields × Option Err) × Unit))
    (hbody : body = match rec ec v with
      | .error e => .error e
      | .ok (v2, err) =>
        if err != none then .ok (([], err), ())
        else if v2 == Val.null then .ok (([], none), ())
        else match rec ec (.str k) with
          | .error e => .error e
          | .ok (k2, err) =>
            if err != none then .ok (([], err), ())
            else if !(Go.asStr k2).2 then .ok (([], some Err.invalidType), ())
            else .ok ((fset [] (Go.asStr k2).1 v2, none), ()))
    (h1 : CallOK rec P ec v) (h2 : CallOK rec P ec (.str k))
    (hmod : entryStepM P ec.vars [] (k, v) ≠ .error Err.unmodelled) :
    body = .ok (P2_fieldsRes (entryStepM P ec.vars [] (k, v)), ()) := by
  subst hbody
  unfold entryStepM at hmod ⊢
  simp only [bind, Except.bind] at hmod ⊢
  cases hP : P ec.vars v with
  | error e =>
    rw [hP] at hmod
    simp only [] at hmod
    obtain ⟨q, hq, hn⟩ := h1 (by rw [hP]; exact err_ne_cast hmod)
    rw [hP] at hn
    have h3 := errNorm_err hn
    obtain ⟨a, b⟩ := q
    simp only at h3; subst h3
    simp only [hq, some_bne_none, if_true]; rfl
  | ok v2 =>
    rw [hP] at hmod
    obtain ⟨q, hq, hn⟩ := h1 (by rw [hP]; intro h; cases h)
    rw [hP] at hn
    have h3 := errNorm_ok hn
    subst h3
    simp only [] at hmod ⊢
    cases hnull : v2.isNull with
    | true => simp only [hq, none_bne_none, Bool.false_eq_true, if_false, beq_null_eq_isNull, hnull, if_true]; rfl
    | false =>
      simp only [hnull, Bool.false_eq_true, if_false] at hmod
      simp only [hq, none_bne_none, Bool.false_eq_true, if_false, beq_null_eq_isNull, hnull]
      cases hK : P ec.vars (.str k) with
      | error e =>
        rw [hK] at hmod
        simp only [] at hmod
        obtain ⟨q2, hq2, hn2⟩ := h2 (by rw [hK]; exact err_ne_cast hmod)
        rw [hK] at hn2
        have h3 := errNorm_err hn2
        obtain ⟨a, b⟩ := q2
        simp only at h3; subst h3
        simp only [hq2, some_bne_none, if_true]; rfl
      | ok k2 =>
        obtain ⟨q2, hq2, hn2⟩ := h2 (by rw [hK]; intro h; cases h)
        rw [hK] at hn2
        have h3 := errNorm_ok hn2
        subst h3
        simp only [hq2, none_bne_none, Bool.false_eq_true, if_false]
        cases k2 <;> rfl

theorem listPlain_go (rec : Go.Ctx → Val → G (Val × Option Err)) (P : Vars → Val → R Val) (ec : Go.Ctx)
    (v : Val) (body : G ((List Val × Option Err) × Unit))
    (hbody : body = match rec ec v with
      | .error e => .error e
      | .ok (v2, err) =>
        if err != none then .ok (([], err), ())
        else if v2 == Val.null then .ok (([], none), ())
        else .ok (([v2], none), ()))
    (h1 : CallOK rec P ec v)
    (hmod : (do let v2 ← P ec.vars v; if v2.isNull then pure [] else pure ([] ++ [v2]) : R (List Val))
      ≠ .error Err.unmodelled) :
    body = .ok (P2_listRes (do let v2 ← P ec.vars v; if v2.isNull then pure [] else pure ([] ++ [v2])), ()) := by
  subst hbody
  simp only [bind, Except.bind] at hmod ⊢
  cases hP : P ec.vars v with
  | error e =>
    rw [hP] at hmod
    simp only [] at hmod
    obtain ⟨q, hq, hn⟩ := h1 (by rw [hP]; exact err_ne_cast hmod)
    rw [hP] at hn
    have h3 := errNorm_err hn
    obtain ⟨a, b⟩ := q
    simp only at h3; subst h3
    simp only [hq, some_bne_none, if_true]; rfl
  | ok v2 =>
    obtain ⟨q, hq, hn⟩ := h1 (by rw [hP]; intro h; cases h)
    rw [hP] at hn
    have h3 := errNorm_ok hn
    subst h3
    simp only [hq, none_bne_none, Bool.false_eq_true, if_false, beq_null_eq_isNull]
    cases hnull : v2.isNull <;> rfl

section
variable (ms : Go.Opaque → List Val → String × Option Err) (us : Go.Opaque → String → List Val × Option Err)
  (gf : String → Go.Opaque × Option Err) (nz : Val → Val × Option Err) (yu : String → Val × Option Err)

theorem sorted_nil : Fields.SortedKeys ([] : Fields) := by simp [Fields.SortedKeys]

theorem expandStepM_rep (P : Vars → Val → R Val) (ec : Vars) (k : String) (m : Fields) (r : Val)
    (h : fget m "$repeat" = some r) :
    expandStepM P ec [] (k, .map m) = repMapSpec P ec k (fdel m "$repeat") r := by
  unfold expandStepM repMapSpec
  simp only [h]
  cases r <;> rfl

theorem expandStepM_plain (P : Vars → Val → R Val) (ec : Vars) (k : String) (v : Val)
    (h : ∀ m, v = .map m → fget m "$repeat" = none) :
    expandStepM P ec [] (k, v) = .ok (fset [] k v) := by
  unfold expandStepM
  cases v with
  | map m => simp only [h m rfl]; rfl
  | _ => rfl

/-- the first loop of process2Map (`$repeat` entries), given the recursive calls at fuel `f` -/
theorem expand_step (P : Vars → Val → R Val) (f : Nat) (kvs0 : Fields) (mf : Go.Doc) (docs : List Go.Doc)
    (ec : Go.Ctx) (depth : Int) (filter : String → Val → Unit → G ((Fields × Option Err) × Unit))
    (hrec : ∀ kv ∈ kvs0, ∀ m r, kv.2 = .map m → fget m "$repeat" = some r → ∀ i : Nat, i < (Go.asInt r).1.toNat →
      CallOK (fun ec' x => process2' ms us gf nz yu f x mf docs ec' depth) P
        ⟨fset ec.vars "$repeat" (.int (Int.ofNat i))⟩ (.map (fdel m "$repeat")) ∧
      CallOK (fun ec' x => process2' ms us gf nz yu f x mf docs ec' depth) P
        ⟨fset ec.vars "$repeat" (.int (Int.ofNat i))⟩ (.str kv.1))
    (hmod : expandM P ec.vars kvs0 ≠ .error Err.unmodelled)
    (hf1 : ∀ k m r, fget m "$repeat" = some r → filter k (.map m) () =
      match process2RepeatObjMap' ms us gf nz yu (f + 1) (fdel m "$repeat") mf docs ec k r depth with
      | .error e => .error e
      | .ok p => .ok (p, ()))
    (hf2 : ∀ k v, (∀ m, v = .map m → fget m "$repeat" = none) → filter k v () = .ok ((fset [] k v, none), ())) :
    filterMap' kvs0 filter () = .ok (P2_fieldsRes (expandM P ec.vars kvs0), ()) := by
  rw [T_filterMap_rec]
  refine filterMapRecS_mod filter (expandStepM P ec.vars) (fun acc kv ha => expandStepM_acc P ec.vars acc kv ha)
    kvs0 [] sorted_nil ?_ hmod
  intro kv hkv hm
  obtain ⟨k, v⟩ := kv
  by_cases hv : ∃ m r, v = .map m ∧ fget m "$repeat" = some r
  · obtain ⟨m, r, rfl, hr⟩ := hv
    rw [expandStepM_rep P ec.vars k m r hr] at hm ⊢
    simp only []
    rw [hf1 k m r hr, T_process2RepeatObjMap_eq ms us gf nz yu P f _ mf docs ec k r depth
      (fun i hi => hrec (k, .map m) hkv m r rfl hr i hi) hm]
  · have hv' : ∀ m, v = .map m → fget m "$repeat" = none := by
      intro m hm'
      cases hr : fget m "$repeat" with
      | none => rfl
      | some r => exact absurd ⟨m, r, hm', hr⟩ hv
    rw [expandStepM_plain P ec.vars k v hv']
    exact hf2 k v hv'

theorem expandM_bind (P : Vars → Val → R Val) (ec : Vars) (kvs0 : Fields) :
    (expandM P ec kvs0 >>= mapBodyM P ec) =
      (match expandM P ec kvs0 with | .error e => .error e | .ok kvs => mapBodyM P ec kvs) := by
  cases expandM P ec kvs0 <;> rfl

/-- process2.go:process2Map, given the recursive `process2'` calls it makes (through process2RepeatObjMap,
    process2Encode, process2MapValue at fuel `f`; directly at fuel `f + 1`) -/
theorem process2Map_step (hGF : GetFormatSpec gf) (P : Vars → Val → R Val) (f : Nat) (kvs0 : Fields) (mf : Go.Doc)
    (docs : List Go.Doc) (ec : Go.Ctx) (depth : Int) (hf2 : 2 ≤ f)
    (h1 : ∀ kv ∈ kvs0, ∀ m r, kv.2 = .map m → fget m "$repeat" = some r → ∀ i : Nat, i < (Go.asInt r).1.toNat →
      CallOK (fun ec' x => process2' ms us gf nz yu f x mf docs ec' depth) P
        ⟨fset ec.vars "$repeat" (.int (Int.ofNat i))⟩ (.map (fdel m "$repeat")) ∧
      CallOK (fun ec' x => process2' ms us gf nz yu f x mf docs ec' depth) P
        ⟨fset ec.vars "$repeat" (.int (Int.ofNat i))⟩ (.str kv.1))
    (h2 : ∀ kvs, expandM P ec.vars kvs0 = .ok kvs →
      CallOK (fun ec' x => process2' ms us gf nz yu f x mf docs ec' depth) P ec (.map (fdel kvs "$encode")) ∧
      (∀ spec, fget kvs "$encode" = some spec → Go.depth spec + 5 ≤ f ∧
        ∀ obj2, P ec.vars (.map (fdel kvs "$encode")) = .ok obj2 → 2 * Go.depth obj2 + 1 ≤ f) ∧
      (∀ v, fget kvs "$value" = some v →
        CallOK (fun ec' x => process2' ms us gf nz yu f x mf docs ec' depth) P ec v) ∧
      (∀ kv ∈ kvs, CallOK (fun ec' x => process2' ms us gf nz yu (f + 1) x mf docs ec' depth) P ec kv.2 ∧
        CallOK (fun ec' x => process2' ms us gf nz yu (f + 1) x mf docs ec' depth) P ec (.str kv.1)))
    (hmod : (expandM P ec.vars kvs0 >>= mapBodyM P ec.vars) ≠ .error Err.unmodelled) :
    ∃ q, process2Map' ms us gf nz yu (f + 2) kvs0 mf docs ec depth = .ok q ∧
      errNorm q = valRes (expandM P ec.vars kvs0 >>= mapBodyM P ec.vars) := by
  rw [expandM_bind] at hmod ⊢
  unfold process2Map'
  rw [expand_step ms us gf nz yu P f kvs0 mf docs ec depth _ h1 (by
    intro h; rw [h] at hmod; exact hmod rfl)]
  rotate_left
  · intro k m r hr
    simp only [popMapValue_eq_match, hr]
    cases process2RepeatObjMap' ms us gf nz yu (f + 1) (fdel m "$repeat") mf docs ec k r depth with
    | error e => rfl
    | ok p => rfl
  · intro k v hv
    cases v with
    | map m => simp only [popMapValue_eq_match, hv m rfl]; rfl
    | _ => rfl
  cases hE : expandM P ec.vars kvs0 with
  | error e => exact ⟨(.null, some e), by simp only [fieldsRes_error, some_bne_none, p2_some_beq_none, Bool.false_eq_true, if_false, if_true], rfl⟩
  | ok kvs =>
    rw [hE] at hmod
    simp only [] at hmod ⊢
    obtain ⟨hrE, hfE, hrV, hrF⟩ := h2 kvs hE
    simp only [fieldsRes_ok, none_bne_none, p2_none_beq_none, if_true, Bool.false_eq_true, if_false, popMapValue_eq_match]
    unfold mapBodyM at hmod ⊢
    cases hen : fget kvs "$encode" with
    | some spec =>
      rw [hen] at hmod
      simp only [] at hmod ⊢
      obtain ⟨q, hq, hn⟩ := process2Encode_step ms us gf nz yu hGF P f (.map (fdel kvs "$encode")) mf docs ec spec
        depth hrE (hfE spec hen).2 (hfE spec hen).1 hmod
      exact ⟨q, by simp only [if_true, hq], hn⟩
    | none =>
      rw [hen] at hmod
      simp only [] at hmod ⊢
      cases hde : fget kvs "$decode" with
      | some spec =>
        rw [hde] at hmod
        simp only [] at hmod ⊢
        obtain ⟨f', rfl⟩ : ∃ f', f = f' + 2 := ⟨f - 2, by omega⟩
        have := process2Decode_step ms us gf nz yu hGF f' kvs mf docs ec spec depth hmod
        refine ⟨valRes (decodeM kvs spec), ?_, ?_⟩
        · simp only [Bool.false_eq_true, if_false, if_true, this]
        · cases decodeM kvs spec <;> rfl
      | none =>
        rw [hde] at hmod
        simp only [] at hmod ⊢
        cases hva : fget kvs "$value" with
        | some v =>
          rw [hva] at hmod
          simp only [] at hmod ⊢
          by_cases hl : (fdel kvs "$value").length = 0
          · simp only [hl, bne_self_eq_false, Bool.false_eq_true, if_false] at hmod ⊢
            obtain ⟨q, hq, hn⟩ := hrV v hva hmod
            refine ⟨q, ?_, hn⟩
            unfold process2MapValue'
            simp only [] at hq
            have hle : (fdel kvs "$value").isEmpty = true := List.isEmpty_iff.2 (List.length_eq_zero_iff.1 hl)
            simp only [if_true, hq, hle]
          · have hl' : ((fdel kvs "$value").length != 0) = true := by simpa using hl
            have hle : (fdel kvs "$value").isEmpty = false :=
              List.isEmpty_eq_false_iff.2 (fun h => hl (List.length_eq_zero_iff.2 h))
            simp only [hl', if_true, hle, Bool.false_eq_true, if_false]
            exact ⟨_, rfl, rfl⟩
        | none =>
          rw [hva] at hmod
          simp only [] at hmod ⊢
          have hfold : List.foldlM (entryStepM P ec.vars) [] kvs ≠ .error Err.unmodelled := by
            intro h; apply hmod; rw [h]; rfl
          rw [T_filterMap_rec, filterMapRecS_mod _ (entryStepM P ec.vars)
            (fun acc kv _ => entryStepM_acc P ec.vars acc kv) kvs [] sorted_nil ?_ hfold]
          · cases List.foldlM (entryStepM P ec.vars) [] kvs with
            | error e => exact ⟨_, rfl, rfl⟩
            | ok r => exact ⟨_, rfl, rfl⟩
          · intro kv hkv hm
            obtain ⟨k, v⟩ := kv
            refine entryStep_go (fun ec' x => process2' ms us gf nz yu (f + 1) x mf docs ec' depth) P ec k v _ ?_
              (hrF (k, v) hkv).1 (hrF (k, v) hkv).2 hm
            simp only []
            cases process2' ms us gf nz yu (f + 1) v mf docs ec depth with
            | error e => rfl
            | ok q =>
              obtain ⟨v2, err⟩ := q
              cases err with
              | some e0 => rfl
              | none =>
                simp only [p2_none_beq_none, none_bne_none, Bool.false_eq_true, if_true, if_false]
                split
                · rfl
                · cases process2' ms us gf nz yu (f + 1) (Val.str k) mf docs ec depth with
                  | error e => rfl
                  | ok q =>
                    obtain ⟨k2, e2⟩ := q
                    cases e2 with
                    | some e1 => rfl
                    | none =>
                      simp only [p2_none_beq_none, none_bne_none, Bool.false_eq_true, if_true, if_false]
                      cases (asStr k2).snd <;> rfl
end

theorem listBodyM_eq (P : Vars → Val → R Val) (ec : Vars) (xs : List Val) :
    listBodyM P ec xs =
      (match popListMapValue xs "$encode" with
       | .error e => .error e
       | .ok (spec, rest) =>
         if !spec.isNull then encodeM P ec (.list rest) spec
         else match rest.foldlM (listStepM P ec) [] with
           | .error e => .error e
           | .ok ret => .ok (.list ret)) := by
  unfold listBodyM
  cases popListMapValue xs "$encode" with
  | error e => rfl
  | ok p =>
    obtain ⟨spec, rest⟩ := p
    simp only [bind, Except.bind]
    cases hs : spec.isNull
    · rfl
    · simp only [Bool.not_true, Bool.false_eq_true, if_false]
      cases rest.foldlM (listStepM P ec) [] <;> rfl

section
variable (ms : Go.Opaque → List Val → String × Option Err) (us : Go.Opaque → String → List Val × Option Err)
  (gf : String → Go.Opaque × Option Err) (nz : Val → Val × Option Err) (yu : String → Val × Option Err)

theorem listStepM_rep (P : Vars → Val → R Val) (ec : Vars) (m : Fields) (r : Val)
    (h : fget m "$repeat" = some r) :
    listStepM P ec [] (.map m) = repListSpec P ec (fdel m "$repeat") r := by
  unfold listStepM repListSpec
  simp only [h]
  cases r <;> rfl

theorem listStepM_plain (P : Vars → Val → R Val) (ec : Vars) (v : Val)
    (h : ∀ m, v = .map m → fget m "$repeat" = none) :
    listStepM P ec [] v = (do let v2 ← P ec v; if v2.isNull then pure [] else pure ([] ++ [v2])) := by
  unfold listStepM
  cases v with
  | map m => simp only [h m rfl]
  | _ => rfl

/-- process2.go:process2List, given the recursive `process2'` calls it makes -/
theorem process2List_step (hGF : GetFormatSpec gf) (P : Vars → Val → R Val) (f : Nat) (xs : List Val) (mf : Go.Doc)
    (docs : List Go.Doc) (ec : Go.Ctx) (depth : Int)
    (h : ∀ spec rest, popListMapValue xs "$encode" = .ok (spec, rest) →
      CallOK (fun ec' x => process2' ms us gf nz yu f x mf docs ec' depth) P ec (.list rest) ∧
      (Go.depth spec + 5 ≤ f ∧ ∀ obj2, P ec.vars (.list rest) = .ok obj2 → 2 * Go.depth obj2 + 1 ≤ f) ∧
      (∀ x ∈ rest, CallOK (fun ec' x => process2' ms us gf nz yu (f + 1) x mf docs ec' depth) P ec x ∧
        ∀ m r, x = .map m → fget m "$repeat" = some r → ∀ i : Nat, i < (Go.asInt r).1.toNat →
          CallOK (fun ec' x => process2' ms us gf nz yu f x mf docs ec' depth) P
            ⟨fset ec.vars "$repeat" (.int (Int.ofNat i))⟩ (.map (fdel m "$repeat"))))
    (hmod : listBodyM P ec.vars xs ≠ .error Err.unmodelled) :
    ∃ q, process2List' ms us gf nz yu (f + 2) xs mf docs ec depth = .ok q ∧
      errNorm q = valRes (listBodyM P ec.vars xs) := by
  rw [listBodyM_eq] at hmod ⊢
  unfold process2List'
  simp only [T_popListMapValue_eq]
  cases hp : popListMapValue xs "$encode" with
  | error e => exact ⟨(.null, some e), by simp only [some_bne_none, p2_some_beq_none, Bool.false_eq_true, if_false, if_true], rfl⟩
  | ok p =>
    obtain ⟨spec, rest⟩ := p
    rw [hp] at hmod
    simp only [] at hmod ⊢
    obtain ⟨hrE, hfE, hrL⟩ := h spec rest hp
    simp only [none_bne_none, p2_none_beq_none, if_true, Bool.false_eq_true, if_false, ne_null_eq_not_isNull]
    cases hs : spec.isNull with
    | false =>
      have hs' : (spec == Val.null) = false := by rw [beq_null_eq_isNull]; exact hs
      simp only [hs, hs', Bool.not_false, if_true, Bool.false_eq_true, if_false] at hmod ⊢
      obtain ⟨q, hq, hn⟩ := process2Encode_step ms us gf nz yu hGF P f (.list rest) mf docs ec spec
        depth hrE hfE.2 hfE.1 hmod
      exact ⟨q, by simp only [hq], hn⟩
    | true =>
      have hs' : (spec == Val.null) = true := by rw [beq_null_eq_isNull]; exact hs
      simp only [hs, hs', Bool.not_true, Bool.false_eq_true, if_false, if_true] at hmod ⊢
      have hfold : List.foldlM (listStepM P ec.vars) [] rest ≠ .error Err.unmodelled := by
        intro h; apply hmod; rw [h]
      rw [T_filterList_rec, filterListRecS_mod _ (listStepM P ec.vars)
        (fun acc x => listStepM_acc P ec.vars acc x) rest [] ?_ hfold]
      · cases List.foldlM (listStepM P ec.vars) [] rest with
        | error e => exact ⟨_, rfl, rfl⟩
        | ok r => exact ⟨_, rfl, rfl⟩
      · intro x hx hm
        by_cases hv : ∃ m r, x = .map m ∧ fget m "$repeat" = some r
        · obtain ⟨m, r, rfl, hr⟩ := hv
          rw [listStepM_rep P ec.vars m r hr] at hm ⊢
          simp only [popMapValue_eq_match, hr, if_true]
          rw [T_process2RepeatObjList_eq ms us gf nz yu P f _ mf docs ec r depth
            (fun i hi => (hrL _ hx).2 m r rfl hr i hi) hm]
        · have hv' : ∀ m, x = .map m → fget m "$repeat" = none := by
            intro m hm'
            cases hr : fget m "$repeat" with
            | none => rfl
            | some r => exact absurd ⟨m, r, hm', hr⟩ hv
          rw [listStepM_plain P ec.vars x hv'] at hm ⊢
          refine listPlain_go (fun ec' x => process2' ms us gf nz yu (f + 1) x mf docs ec' depth) P ec x _ ?_
            (hrL _ hx).1 hm
          cases x with
          | map m =>
            simp only [popMapValue_eq_match, hv' m rfl, Bool.false_eq_true, if_false]
            cases process2' ms us gf nz yu (f + 1) (Val.map m) mf docs ec depth with
            | error e => rfl
            | ok q => obtain ⟨v2, err⟩ := q; cases err <;> rfl
          | _ =>
            simp only []
            cases process2' ms us gf nz yu (f + 1) _ mf docs ec depth with
            | error e => rfl
            | ok q => obtain ⟨v2, err⟩ := q; cases err <;> rfl
end

/-! ## the mutual block against the model's `process2` -/

theorem exists_uniform {α : Type} (Q : α → Nat → Prop) (l : List α)
    (hQ : ∀ a ∈ l, ∃ N, ∀ g, N ≤ g → Q a g) : ∃ N, ∀ g, N ≤ g → ∀ a ∈ l, Q a g := by
  induction l with
  | nil => exact ⟨0, fun _ _ a ha => by cases ha⟩
  | cons x xs ih =>
    obtain ⟨N1, h1⟩ := hQ x List.mem_cons_self
    obtain ⟨N2, h2⟩ := ih (fun a ha => hQ a (List.mem_cons_of_mem _ ha))
    refine ⟨max N1 N2, fun g hg a ha => ?_⟩
    rcases List.mem_cons.1 ha with rfl | ha'
    · exact h1 g (by omega)
    · exact h2 g (by omega) a ha'

theorem exists_and {Q1 Q2 : Nat → Prop} (h1 : ∃ N, ∀ g, N ≤ g → Q1 g) (h2 : ∃ N, ∀ g, N ≤ g → Q2 g) :
    ∃ N, ∀ g, N ≤ g → Q1 g ∧ Q2 g := by
  obtain ⟨N1, h1⟩ := h1
  obtain ⟨N2, h2⟩ := h2
  exact ⟨max N1 N2, fun g hg => ⟨h1 g (by omega), h2 g (by omega)⟩⟩

section
variable (ms : Go.Opaque → List Val → String × Option Err) (us : Go.Opaque → String → List Val × Option Err)
  (gf : String → Go.Opaque × Option Err) (nz : Val → Val × Option Err) (yu : String → Val × Option Err)

/-- the `$repeat` calls of one map entry / list element, uniformly in the fuel -/
theorem uniform_repeat (P : Vars → Val → R Val) (mf : Go.Doc) (docs : List Go.Doc) (depth : Int)
    (IH : ∀ (ec : Go.Ctx) (x : Val), ∃ N, ∀ g, N ≤ g →
      CallOK (fun ec' x => process2' ms us gf nz yu g x mf docs ec' depth) P ec x)
    (ec : Go.Ctx) (body key : Val) (n : Nat) :
    ∃ N, ∀ g, N ≤ g → ∀ i : Nat, i < n →
      CallOK (fun ec' x => process2' ms us gf nz yu g x mf docs ec' depth) P
        ⟨fset ec.vars "$repeat" (.int (Int.ofNat i))⟩ body ∧
      CallOK (fun ec' x => process2' ms us gf nz yu g x mf docs ec' depth) P
        ⟨fset ec.vars "$repeat" (.int (Int.ofNat i))⟩ key := by
  obtain ⟨N, hN⟩ := exists_uniform (fun (i : Nat) g =>
      CallOK (fun ec' x => process2' ms us gf nz yu g x mf docs ec' depth) P
        ⟨fset ec.vars "$repeat" (.int (Int.ofNat i))⟩ body ∧
      CallOK (fun ec' x => process2' ms us gf nz yu g x mf docs ec' depth) P
        ⟨fset ec.vars "$repeat" (.int (Int.ofNat i))⟩ key) (List.range n)
    (fun i _ => exists_and (IH _ _) (IH _ _))
  exact ⟨N, fun g hg i hi => hN g hg i (List.mem_range.2 hi)⟩

/-- process2Map at Go depth `d`, given (uniformly in the fuel) the recursive calls at that depth -/
theorem process2Map_uniform (hGF : GetFormatSpec gf) (P : Vars → Val → R Val) (mf : Go.Doc) (docs : List Go.Doc)
    (d : Int)
    (IH : ∀ (ec : Go.Ctx) (x : Val), ∃ N, ∀ g, N ≤ g →
      CallOK (fun ec' x => process2' ms us gf nz yu g x mf docs ec' d) P ec x)
    (ec : Go.Ctx) (kvs0 : Fields) :
    ∃ N, ∀ g, N ≤ g → (expandM P ec.vars kvs0 >>= mapBodyM P ec.vars) ≠ .error Err.unmodelled →
      ∃ q, process2Map' ms us gf nz yu g kvs0 mf docs ec d = .ok q ∧
        errNorm q = valRes (expandM P ec.vars kvs0 >>= mapBodyM P ec.vars) := by
  -- phase 1 calls
  obtain ⟨N1, hN1⟩ := exists_uniform (fun (kv : String × Val) g =>
      ∀ m r, kv.2 = .map m → fget m "$repeat" = some r → ∀ i : Nat, i < (Go.asInt r).1.toNat →
      CallOK (fun ec' x => process2' ms us gf nz yu g x mf docs ec' d) P
        ⟨fset ec.vars "$repeat" (.int (Int.ofNat i))⟩ (.map (fdel m "$repeat")) ∧
      CallOK (fun ec' x => process2' ms us gf nz yu g x mf docs ec' d) P
        ⟨fset ec.vars "$repeat" (.int (Int.ofNat i))⟩ (.str kv.1)) kvs0
    (by
      intro kv _
      by_cases hv : ∃ m r, kv.2 = .map m ∧ fget m "$repeat" = some r
      · obtain ⟨m, r, hm, hr⟩ := hv
        obtain ⟨N, hN⟩ := uniform_repeat ms us gf nz yu P mf docs d IH ec
          (.map (fdel m "$repeat")) (.str kv.1) (Go.asInt r).1.toNat
        refine ⟨N, fun g hg m' r' hm' hr' i hi => ?_⟩
        rw [hm] at hm'; cases hm'
        rw [hr] at hr'; cases hr'
        exact hN g hg i hi
      · exact ⟨0, fun g _ m r hm hr => absurd ⟨m, r, hm, hr⟩ hv⟩)
  -- phase 2 calls
  obtain ⟨N2, hN2⟩ : ∃ N2, ∀ g, N2 ≤ g → ∀ kvs, expandM P ec.vars kvs0 = .ok kvs →
      CallOK (fun ec' x => process2' ms us gf nz yu g x mf docs ec' d) P ec (.map (fdel kvs "$encode")) ∧
      (∀ spec, fget kvs "$encode" = some spec → Go.depth spec + 5 ≤ g ∧
        ∀ obj2, P ec.vars (.map (fdel kvs "$encode")) = .ok obj2 → 2 * Go.depth obj2 + 1 ≤ g) ∧
      (∀ v, fget kvs "$value" = some v →
        CallOK (fun ec' x => process2' ms us gf nz yu g x mf docs ec' d) P ec v) ∧
      (∀ kv ∈ kvs, CallOK (fun ec' x => process2' ms us gf nz yu (g + 1) x mf docs ec' d) P ec kv.2 ∧
        CallOK (fun ec' x => process2' ms us gf nz yu (g + 1) x mf docs ec' d) P ec (.str kv.1)) := by
    cases hE : expandM P ec.vars kvs0 with
    | error e => exact ⟨0, fun g _ kvs h => by cases h⟩
    | ok kvs =>
      obtain ⟨Na, hNa⟩ := IH ec (.map (fdel kvs "$encode"))
      obtain ⟨Nb, hNb⟩ : ∃ Nb : Nat, ∀ spec, fget kvs "$encode" = some spec → Go.depth spec + 5 ≤ Nb ∧
          ∀ obj2, P ec.vars (.map (fdel kvs "$encode")) = .ok obj2 → 2 * Go.depth obj2 + 1 ≤ Nb := by
        cases hen : fget kvs "$encode" with
        | none => exact ⟨0, fun spec h => by cases h⟩
        | some spec =>
          cases hP : P ec.vars (.map (fdel kvs "$encode")) with
          | error e =>
            exact ⟨Go.depth spec + 5, fun spec' h => by cases h; exact ⟨Nat.le_refl _, fun _ h => by cases h⟩⟩
          | ok obj2 =>
            exact ⟨max (Go.depth spec + 5) (2 * Go.depth obj2 + 1), fun spec' h => by
              cases h; exact ⟨by omega, fun _ h => by cases h; omega⟩⟩
      obtain ⟨Nc, hNc⟩ : ∃ Nc, ∀ g, Nc ≤ g → ∀ v, fget kvs "$value" = some v →
          CallOK (fun ec' x => process2' ms us gf nz yu g x mf docs ec' d) P ec v := by
        cases hva : fget kvs "$value" with
        | none => exact ⟨0, fun g _ v h => by cases h⟩
        | some v =>
          obtain ⟨N, hN⟩ := IH ec v
          exact ⟨N, fun g hg v' h => by cases h; exact hN g hg⟩
      obtain ⟨Nd, hNd⟩ := exists_uniform (fun (kv : String × Val) g =>
          CallOK (fun ec' x => process2' ms us gf nz yu g x mf docs ec' d) P ec kv.2 ∧
          CallOK (fun ec' x => process2' ms us gf nz yu g x mf docs ec' d) P ec (.str kv.1)) kvs
        (fun kv _ => exists_and (IH _ _) (IH _ _))
      refine ⟨max (max Na Nb) (max Nc Nd), fun g hg kvs' h => ?_⟩
      cases h
      refine ⟨hNa g (by omega), fun spec hs => ?_, hNc g (by omega), fun kv hkv => hNd (g + 1) (by omega) kv hkv⟩
      have := hNb spec hs
      exact ⟨by omega, fun obj2 h2 => by have := this.2 obj2 h2; omega⟩
  refine ⟨max (max N1 N2) 2 + 2, fun g hg hmod => ?_⟩
  obtain ⟨f, rfl⟩ : ∃ f, g = f + 2 := ⟨g - 2, by omega⟩
  exact process2Map_step ms us gf nz yu hGF P f kvs0 mf docs ec d (by omega)
    (hN1 f (by omega)) (hN2 f (by omega)) hmod

/-- process2List at Go depth `d`, given (uniformly in the fuel) the recursive calls at that depth -/
theorem process2List_uniform (hGF : GetFormatSpec gf) (P : Vars → Val → R Val) (mf : Go.Doc) (docs : List Go.Doc)
    (d : Int)
    (IH : ∀ (ec : Go.Ctx) (x : Val), ∃ N, ∀ g, N ≤ g →
      CallOK (fun ec' x => process2' ms us gf nz yu g x mf docs ec' d) P ec x)
    (ec : Go.Ctx) (xs : List Val) :
    ∃ N, ∀ g, N ≤ g → listBodyM P ec.vars xs ≠ .error Err.unmodelled →
      ∃ q, process2List' ms us gf nz yu g xs mf docs ec d = .ok q ∧
        errNorm q = valRes (listBodyM P ec.vars xs) := by
  obtain ⟨N2, hN2⟩ : ∃ N2, ∀ g, N2 ≤ g → ∀ spec rest, popListMapValue xs "$encode" = .ok (spec, rest) →
      CallOK (fun ec' x => process2' ms us gf nz yu g x mf docs ec' d) P ec (.list rest) ∧
      (Go.depth spec + 5 ≤ g ∧ ∀ obj2, P ec.vars (.list rest) = .ok obj2 → 2 * Go.depth obj2 + 1 ≤ g) ∧
      (∀ x ∈ rest, CallOK (fun ec' x => process2' ms us gf nz yu (g + 1) x mf docs ec' d) P ec x ∧
        ∀ m r, x = .map m → fget m "$repeat" = some r → ∀ i : Nat, i < (Go.asInt r).1.toNat →
          CallOK (fun ec' x => process2' ms us gf nz yu g x mf docs ec' d) P
            ⟨fset ec.vars "$repeat" (.int (Int.ofNat i))⟩ (.map (fdel m "$repeat"))) := by
    cases hp : popListMapValue xs "$encode" with
    | error e => exact ⟨0, fun g _ spec rest h => by cases h⟩
    | ok p =>
      obtain ⟨spec, rest⟩ := p
      obtain ⟨Na, hNa⟩ := IH ec (.list rest)
      obtain ⟨Nb, hNb⟩ : ∃ Nb : Nat, Go.depth spec + 5 ≤ Nb ∧
          ∀ obj2, P ec.vars (.list rest) = .ok obj2 → 2 * Go.depth obj2 + 1 ≤ Nb := by
        cases hP : P ec.vars (.list rest) with
        | error e => exact ⟨Go.depth spec + 5, Nat.le_refl _, fun _ h => by cases h⟩
        | ok obj2 =>
          exact ⟨max (Go.depth spec + 5) (2 * Go.depth obj2 + 1), by omega, fun _ h => by cases h; omega⟩
      obtain ⟨Nd, hNd⟩ := exists_uniform (fun (x : Val) g =>
          CallOK (fun ec' x => process2' ms us gf nz yu g x mf docs ec' d) P ec x ∧
          ∀ m r, x = .map m → fget m "$repeat" = some r → ∀ i : Nat, i < (Go.asInt r).1.toNat →
          CallOK (fun ec' x => process2' ms us gf nz yu g x mf docs ec' d) P
            ⟨fset ec.vars "$repeat" (.int (Int.ofNat i))⟩ (.map (fdel m "$repeat"))) rest
        (by
          intro x _
          refine exists_and (IH _ _) ?_
          by_cases hv : ∃ m r, x = .map m ∧ fget m "$repeat" = some r
          · obtain ⟨m, r, hm, hr⟩ := hv
            obtain ⟨N, hN⟩ := uniform_repeat ms us gf nz yu P mf docs d IH ec
              (.map (fdel m "$repeat")) .null (Go.asInt r).1.toNat
            refine ⟨N, fun g hg m' r' hm' hr' i hi => ?_⟩
            rw [hm] at hm'; cases hm'
            rw [hr] at hr'; cases hr'
            exact (hN g hg i hi).1
          · exact ⟨0, fun g _ m r hm hr => absurd ⟨m, r, hm, hr⟩ hv⟩)
      refine ⟨max (max Na Nb) Nd, fun g hg spec' rest' h => ?_⟩
      cases h
      refine ⟨hNa g (by omega), ⟨by omega, fun obj2 h2 => by have := hNb.2 obj2 h2; omega⟩, fun x hx => ?_⟩
      exact ⟨(hNd (g + 1) (by omega) x hx).1, (hNd g (by omega) x hx).2⟩
  refine ⟨N2 + 2, fun g hg hmod => ?_⟩
  obtain ⟨f, rfl⟩ : ∃ f, g = f + 2 := ⟨g - 2, by omega⟩
  exact process2List_step ms us gf nz yu hGF P f xs mf docs ec d (hN2 f (by omega)) hmod

/-- process2Encode at Go depth `d`, given (uniformly in the fuel) the recursive call at that depth -/
theorem process2Encode_uniform (hGF : GetFormatSpec gf) (P : Vars → Val → R Val) (mf : Go.Doc) (docs : List Go.Doc)
    (d : Int)
    (IH : ∀ (ec : Go.Ctx) (x : Val), ∃ N, ∀ g, N ≤ g →
      CallOK (fun ec' x => process2' ms us gf nz yu g x mf docs ec' d) P ec x)
    (ec : Go.Ctx) (obj spec : Val) :
    ∃ N, ∀ g, N ≤ g → encodeM P ec.vars obj spec ≠ .error Err.unmodelled →
      ∃ q, process2Encode' ms us gf nz yu g obj mf docs ec spec d = .ok q ∧
        errNorm q = valRes (encodeM P ec.vars obj spec) := by
  obtain ⟨Na, hNa⟩ := IH ec obj
  obtain ⟨Nb, hNb⟩ : ∃ Nb : Nat, ∀ obj2, P ec.vars obj = .ok obj2 → 2 * Go.depth obj2 + 1 ≤ Nb := by
    cases hP : P ec.vars obj with
    | error e => exact ⟨0, fun _ h => by cases h⟩
    | ok obj2 => exact ⟨2 * Go.depth obj2 + 1, fun _ h => by cases h; omega⟩
  refine ⟨max (max Na Nb) (Go.depth spec + 5) + 1, fun g hg hmod => ?_⟩
  obtain ⟨f, rfl⟩ : ∃ f, g = f + 1 := ⟨g - 1, by omega⟩
  exact process2Encode_step ms us gf nz yu hGF P f obj mf docs ec spec d (hNa f (by omega))
    (fun obj2 h => by have := hNb obj2 h; omega) (by omega) hmod

theorem process2_unfold (f : Nat) (obj : Val) (mf : Go.Doc) (docs : List Go.Doc) (ec : Go.Ctx) (depth : Int) :
    process2' ms us gf nz yu (f + 1) obj mf docs ec depth =
      if depth + 1 > 1000 then .ok (Val.null, some Err.circularRef)
      else
        (match obj with
         | .map kvs0 => process2Map' ms us gf nz yu f kvs0 mf docs ec (depth + 1)
         | .list xs => process2List' ms us gf nz yu f xs mf docs ec (depth + 1)
         | .str s => process2String' yu f s mf docs ec (depth + 1)
         | _ => .ok (obj, none)) := by
  unfold process2'
  by_cases hd' : depth + 1 > 1000
  · simp only [hd', decide_true, if_true]
  · simp only [hd', decide_false, Bool.false_eq_true, if_false]
    cases obj with
    | map kvs0 => simp only []; cases process2Map' ms us gf nz yu f kvs0 mf docs ec (depth + 1) <;> rfl
    | list xs => simp only []; cases process2List' ms us gf nz yu f xs mf docs ec (depth + 1) <;> rfl
    | str s => simp only []; cases process2String' yu f s mf docs ec (depth + 1) <;> rfl
    | _ => rfl

theorem process2_aux (hGF : GetFormatSpec gf) (hyu : ParseOK yu) (mf : Go.Doc) (docs : List Go.Doc)
    (hnil : ∀ d ∈ docs, d.isNil = false) (hwf : Val.WF mf.data) (hwfs : ∀ d ∈ docs, Val.WF d.data) :
    ∀ (F : Nat) (depth : Int), (1000 - depth).toNat = F → ∀ (ec : Go.Ctx) (obj : Val),
      ∃ N, ∀ g, N ≤ g →
        CallOK (fun ec' x => process2' ms us gf nz yu g x mf docs ec' depth)
          (process2 F (docs.map (·.data)) mf.data) ec obj := by
  intro F
  induction F with
  | zero =>
    intro depth hd ec obj
    refine ⟨1, fun g hg _ => ?_⟩
    obtain ⟨f, rfl⟩ : ∃ f, g = f + 1 := ⟨g - 1, by omega⟩
    have hd' : depth + 1 > 1000 := by omega
    refine ⟨(.null, some Err.circularRef), ?_, rfl⟩
    simp only [process2_unfold, hd', if_true]
  | succ F ih =>
    intro depth hd ec obj
    have hd' : ¬ depth + 1 > 1000 := by omega
    have IH := ih (depth + 1) (by omega)
    unfold CallOK
    simp only [process2_succ]
    cases obj with
    | map kvs0 =>
      obtain ⟨N, hN⟩ := process2Map_uniform ms us gf nz yu hGF _ mf docs (depth + 1) IH ec kvs0
      refine ⟨N + 1, fun g hg hmod => ?_⟩
      obtain ⟨f, rfl⟩ : ∃ f, g = f + 1 := ⟨g - 1, by omega⟩
      simp only [process2_unfold, hd', if_false]
      exact hN f (by omega) hmod
    | list xs =>
      obtain ⟨N, hN⟩ := process2List_uniform ms us gf nz yu hGF _ mf docs (depth + 1) IH ec xs
      refine ⟨N + 1, fun g hg hmod => ?_⟩
      obtain ⟨f, rfl⟩ : ∃ f, g = f + 1 := ⟨g - 1, by omega⟩
      simp only [process2_unfold, hd', if_false]
      exact hN f (by omega) hmod
    | str s =>
      refine ⟨p2sFuel mf docs ec s (depth + 1) + 1, fun g hg hmod => ?_⟩
      obtain ⟨f, rfl⟩ : ∃ f, g = f + 1 := ⟨g - 1, by omega⟩
      have hF : (1001 - (depth + 1)).toNat = F + 1 := by omega
      simp only [process2_unfold, hd', if_false]
      simp only [] at hmod ⊢
      rw [← hF] at hmod ⊢
      rw [T_process2String_eq yu hyu mf docs ec hnil hwf hwfs s (depth + 1) f (by omega) hmod]
      refine ⟨_, rfl, ?_⟩
      cases process2String (1001 - (depth + 1)).toNat (docs.map (·.data)) mf.data ec.vars s <;> rfl
    | null => exact ⟨1, fun g hg _ => by
        obtain ⟨f, rfl⟩ : ∃ f, g = f + 1 := ⟨g - 1, by omega⟩
        exact ⟨(Val.null, none), by simp only [process2_unfold, hd', if_false], rfl⟩⟩
    | bool b => exact ⟨1, fun g hg _ => by
        obtain ⟨f, rfl⟩ : ∃ f, g = f + 1 := ⟨g - 1, by omega⟩
        exact ⟨(Val.bool b, none), by simp only [process2_unfold, hd', if_false], rfl⟩⟩
    | int i => exact ⟨1, fun g hg _ => by
        obtain ⟨f, rfl⟩ : ∃ f, g = f + 1 := ⟨g - 1, by omega⟩
        exact ⟨(Val.int i, none), by simp only [process2_unfold, hd', if_false], rfl⟩⟩
    | flt x => exact ⟨1, fun g hg _ => by
        obtain ⟨f, rfl⟩ : ∃ f, g = f + 1 := ⟨g - 1, by omega⟩
        exact ⟨(Val.flt x, none), by simp only [process2_unfold, hd', if_false], rfl⟩⟩
end

/-! ## main theorems -/

/-- the model's `$decode` on the rest of the map (`$decode` removed) and the format name: an error in every case, the
    codec formats being `unmodelled` -/
def decodeMapSpec (rest : Fields) (f : String) : R Val :=
  match fget rest "$value" with
  | none => throw Err.invalidType
  | some (.str _) =>
    if (fdel rest "$value").length != 0 then throw Err.extraKeys
    else if isCodecFormat f then throw Err.unmodelled else throw Err.unknownFormat
  | some _ => throw Err.invalidType

def decodeStringSpec (obj : Val) (f : String) : R Val :=
  match obj with
  | .map rest => decodeMapSpec rest f
  | _ => throw Err.invalidType

def decodeSpec (obj : Val) (spec : Val) : R Val :=
  match spec with
  | .str f => decodeStringSpec obj f
  | _ => throw Err.invalidType

theorem decodeM_eq (kvs : Fields) (spec : Val) : decodeM kvs spec = decodeSpec (.map (fdel kvs "$decode")) spec := by
  unfold decodeM decodeSpec decodeStringSpec decodeMapSpec
  cases spec <;> rfl

section
variable (ms : Go.Opaque → List Val → String × Option Err) (us : Go.Opaque → String → List Val × Option Err)
  (gf : String → Go.Opaque × Option Err) (nz : Val → Val × Option Err) (yu : String → Val × Option Err)

/-- process2.go:process2DecodeStringMap wherever the model does not answer `unmodelled` (no codec format) -/
theorem T_process2DecodeStringMap_eq (hGF : GetFormatSpec gf) (fuel : Nat) (hf : 1 ≤ fuel) (rest : Fields) (mf : Go.Doc)
    (docs : List Go.Doc) (ec : Go.Ctx) (fm : String) (depth : Int)
    (hmod : decodeMapSpec rest fm ≠ .error Err.unmodelled) :
    process2DecodeStringMap' ms us gf nz yu fuel rest mf docs ec fm depth = .ok (valRes (decodeMapSpec rest fm)) := by
  obtain ⟨f, rfl⟩ : ∃ f, fuel = f + 1 := ⟨fuel - 1, by omega⟩
  unfold process2DecodeStringMap'
  simp only [T_popMapValue_eq]
  unfold decodeMapSpec at hmod ⊢
  cases hv : fget rest "$value" with
  | none => simp [throw, throwThe, MonadExceptOf.throw]
  | some val =>
    rw [hv] at hmod
    by_cases hs : ∃ s, val = .str s
    · obtain ⟨s, rfl⟩ := hs
      simp only [] at hmod
      by_cases hl : (fdel rest "$value").length = 0
      · have hcf : isCodecFormat fm = false := by
          cases hc : isCodecFormat fm
          · rfl
          · simp [hl, hc, throw, throwThe, MonadExceptOf.throw] at hmod
        have hg := hGF fm
        rw [hcf] at hg
        have hl' : fdel rest "$value" = [] := List.length_eq_zero_iff.1 hl
        simp [Go.asStr, hl, hl', hcf, hg, throw, throwThe, MonadExceptOf.throw]
      · have hl' : ¬ fdel rest "$value" = [] := fun h => hl (List.length_eq_zero_iff.2 h)
        simp [Go.asStr, hl, hl', throw, throwThe, MonadExceptOf.throw]
    · have h1 : (Go.asStr val).2 = false := by
        cases val <;> first | rfl | exact absurd ⟨_, rfl⟩ hs
      simp only [Option.isSome_some, Bool.not_true, Bool.false_eq_true, if_false, Option.getD_some, h1,
        Bool.not_false, if_true]
      cases val <;> first | rfl | exact absurd ⟨_, rfl⟩ hs

/-- process2.go:process2DecodeString -/
theorem T_process2DecodeString_eq (hGF : GetFormatSpec gf) (fuel : Nat) (hf : 2 ≤ fuel) (obj : Val) (mf : Go.Doc)
    (docs : List Go.Doc) (ec : Go.Ctx) (fm : String) (depth : Int)
    (hmod : decodeStringSpec obj fm ≠ .error Err.unmodelled) :
    process2DecodeString' ms us gf nz yu fuel obj mf docs ec fm depth = .ok (valRes (decodeStringSpec obj fm)) := by
  obtain ⟨f, rfl⟩ : ∃ f, fuel = f + 1 := ⟨fuel - 1, by omega⟩
  unfold process2DecodeString'
  cases obj with
  | map rest =>
    simp only [decodeStringSpec] at hmod ⊢
    rw [T_process2DecodeStringMap_eq ms us gf nz yu hGF f (by omega) rest mf docs ec fm depth hmod]
  | _ => rfl

/-- process2.go:process2Decode -/
theorem T_process2Decode_eq (hGF : GetFormatSpec gf) (fuel : Nat) (hf : 3 ≤ fuel) (obj : Val) (mf : Go.Doc)
    (docs : List Go.Doc) (ec : Go.Ctx) (spec : Val) (depth : Int)
    (hmod : decodeSpec obj spec ≠ .error Err.unmodelled) :
    process2Decode' ms us gf nz yu fuel obj mf docs ec spec depth = .ok (valRes (decodeSpec obj spec)) := by
  obtain ⟨f, rfl⟩ : ∃ f, fuel = f + 1 := ⟨fuel - 1, by omega⟩
  unfold process2Decode'
  cases spec with
  | str fm =>
    simp only [decodeSpec] at hmod ⊢
    rw [T_process2DecodeString_eq ms us gf nz yu hGF f (by omega) obj mf docs ec fm depth hmod]
  | _ => rfl

/-- the codec path of process2DecodeStringMap, through the parameters: a readable `$value` in a codec format is
    unmarshalled, normalized and evaluated by process2 at the same depth -/
theorem T_process2DecodeStringMap_codec (f : Nat) (rest : Fields) (mf : Go.Doc) (docs : List Go.Doc) (ec : Go.Ctx)
    (fm : String) (depth : Int) (val2 : String) (d0 dec : Val)
    (h1 : fget rest "$value" = some (.str val2)) (h2 : (fdel rest "$value").length = 0)
    (h3 : (gf fm).2 = none) (h4 : us (gf fm).1 val2 = ([d0], none)) (h5 : nz d0 = (dec, none)) :
    process2DecodeStringMap' ms us gf nz yu (f + 1) rest mf docs ec fm depth =
      process2' ms us gf nz yu f dec mf docs ec depth := by
  unfold process2DecodeStringMap'
  have h2' : fdel rest "$value" = [] := List.length_eq_zero_iff.1 h2
  simp [T_popMapValue_eq, h1, h2, h2', h3, h4, h5, Go.asStr, Go.listAt]
  cases process2' ms us gf nz yu f dec mf docs ec depth with
  | error e => rfl
  | ok p => rfl

/-- **process2.go:process2** at Go depth `depth` is the model's `process2` with fuel `1000 - depth` (process2
    increments `depth` and fails when the result exceeds 1000), on well-formed documents, wherever the model does
    not answer `unmodelled` (no codec `$encode`/`$decode` and no reference outside the modelled sub-language is
    reached), for all sufficiently large translator fuel: the same error class, and without an error the same value -/
theorem T_process2_eq (hGF : GetFormatSpec gf) (hyu : ParseOK yu) (mf : Go.Doc) (docs : List Go.Doc)
    (hnil : ∀ d ∈ docs, d.isNil = false) (hwf : Val.WF mf.data) (hwfs : ∀ d ∈ docs, Val.WF d.data)
    (ec : Go.Ctx) (obj : Val) (depth : Int)
    (hmod : process2 (1000 - depth).toNat (docs.map (·.data)) mf.data ec.vars obj ≠ .error Err.unmodelled) :
    ∃ N, ∀ fuel, N ≤ fuel → ∃ q, process2' ms us gf nz yu fuel obj mf docs ec depth = .ok q ∧
      errNorm q = valRes (process2 (1000 - depth).toNat (docs.map (·.data)) mf.data ec.vars obj) := by
  obtain ⟨N, hN⟩ := process2_aux ms us gf nz yu hGF hyu mf docs hnil hwf hwfs _ depth rfl ec obj
  exact ⟨N, fun fuel hf => hN fuel hf hmod⟩

/-- … a value of the model is the value of the translated function -/
theorem T_process2_eq_ok (hGF : GetFormatSpec gf) (hyu : ParseOK yu) (mf : Go.Doc) (docs : List Go.Doc)
    (hnil : ∀ d ∈ docs, d.isNil = false) (hwf : Val.WF mf.data) (hwfs : ∀ d ∈ docs, Val.WF d.data)
    (ec : Go.Ctx) (obj : Val) (depth : Int) (v : Val)
    (h : process2 (1000 - depth).toNat (docs.map (·.data)) mf.data ec.vars obj = .ok v) :
    ∃ N, ∀ fuel, N ≤ fuel → process2' ms us gf nz yu fuel obj mf docs ec depth = .ok (v, none) := by
  obtain ⟨N, hN⟩ := T_process2_eq ms us gf nz yu hGF hyu mf docs hnil hwf hwfs ec obj depth
    (by rw [h]; intro h'; cases h')
  refine ⟨N, fun fuel hf => ?_⟩
  obtain ⟨q, hq, hn⟩ := hN fuel hf
  rw [h] at hn
  rw [hq, errNorm_ok hn]

/-- … and an error class of the model (other than `unmodelled`) is the error class of the translated function -/
theorem T_process2_eq_error (hGF : GetFormatSpec gf) (hyu : ParseOK yu) (mf : Go.Doc) (docs : List Go.Doc)
    (hnil : ∀ d ∈ docs, d.isNil = false) (hwf : Val.WF mf.data) (hwfs : ∀ d ∈ docs, Val.WF d.data)
    (ec : Go.Ctx) (obj : Val) (depth : Int) (e : Err) (he : e ≠ Err.unmodelled)
    (h : process2 (1000 - depth).toNat (docs.map (·.data)) mf.data ec.vars obj = .error e) :
    ∃ N, ∀ fuel, N ≤ fuel → ∃ x, process2' ms us gf nz yu fuel obj mf docs ec depth = .ok (x, some e) := by
  obtain ⟨N, hN⟩ := T_process2_eq ms us gf nz yu hGF hyu mf docs hnil hwf hwfs ec obj depth
    (by rw [h]; intro h'; cases h'; exact he rfl)
  refine ⟨N, fun fuel hf => ?_⟩
  obtain ⟨q, hq, hn⟩ := hN fuel hf
  rw [h] at hn
  obtain ⟨a, b⟩ := q
  have := errNorm_err hn
  simp only at this; subst this
  exact ⟨a, hq⟩

/-- process2.go:process2Map at the (already incremented) Go depth `d` that process2 passes: the model's `process2` on
    the map with one unit of fuel more than the calls below, `(1000 - d) + 1` -/
theorem T_process2Map_eq (hGF : GetFormatSpec gf) (hyu : ParseOK yu) (mf : Go.Doc) (docs : List Go.Doc)
    (hnil : ∀ d ∈ docs, d.isNil = false) (hwf : Val.WF mf.data) (hwfs : ∀ d ∈ docs, Val.WF d.data)
    (ec : Go.Ctx) (kvs0 : Fields) (d : Int)
    (hmod : process2 ((1000 - d).toNat + 1) (docs.map (·.data)) mf.data ec.vars (.map kvs0) ≠ .error Err.unmodelled) :
    ∃ N, ∀ fuel, N ≤ fuel → ∃ q, process2Map' ms us gf nz yu fuel kvs0 mf docs ec d = .ok q ∧
      errNorm q = valRes (process2 ((1000 - d).toNat + 1) (docs.map (·.data)) mf.data ec.vars (.map kvs0)) := by
  rw [process2_succ] at hmod ⊢
  obtain ⟨N, hN⟩ := process2Map_uniform ms us gf nz yu hGF _ mf docs d
    (process2_aux ms us gf nz yu hGF hyu mf docs hnil hwf hwfs _ d rfl) ec kvs0
  exact ⟨N, fun fuel hf => hN fuel hf hmod⟩

/-- process2.go:process2List, likewise -/
theorem T_process2List_eq (hGF : GetFormatSpec gf) (hyu : ParseOK yu) (mf : Go.Doc) (docs : List Go.Doc)
    (hnil : ∀ d ∈ docs, d.isNil = false) (hwf : Val.WF mf.data) (hwfs : ∀ d ∈ docs, Val.WF d.data)
    (ec : Go.Ctx) (xs : List Val) (d : Int)
    (hmod : process2 ((1000 - d).toNat + 1) (docs.map (·.data)) mf.data ec.vars (.list xs) ≠ .error Err.unmodelled) :
    ∃ N, ∀ fuel, N ≤ fuel → ∃ q, process2List' ms us gf nz yu fuel xs mf docs ec d = .ok q ∧
      errNorm q = valRes (process2 ((1000 - d).toNat + 1) (docs.map (·.data)) mf.data ec.vars (.list xs)) := by
  rw [process2_succ] at hmod ⊢
  obtain ⟨N, hN⟩ := process2List_uniform ms us gf nz yu hGF _ mf docs d
    (process2_aux ms us gf nz yu hGF hyu mf docs hnil hwf hwfs _ d rfl) ec xs
  exact ⟨N, fun fuel hf => hN fuel hf hmod⟩

/-- process2.go:process2Encode at Go depth `d`: the model's `$encode` (`encodeM`: evaluate, validate, `encodeAny`)
    over `process2` with fuel `1000 - d` -/
theorem T_process2Encode_eq (hGF : GetFormatSpec gf) (hyu : ParseOK yu) (mf : Go.Doc) (docs : List Go.Doc)
    (hnil : ∀ d ∈ docs, d.isNil = false) (hwf : Val.WF mf.data) (hwfs : ∀ d ∈ docs, Val.WF d.data)
    (ec : Go.Ctx) (obj spec : Val) (d : Int)
    (hmod : encodeM (process2 (1000 - d).toNat (docs.map (·.data)) mf.data) ec.vars obj spec ≠ .error Err.unmodelled) :
    ∃ N, ∀ fuel, N ≤ fuel → ∃ q, process2Encode' ms us gf nz yu fuel obj mf docs ec spec d = .ok q ∧
      errNorm q = valRes (encodeM (process2 (1000 - d).toNat (docs.map (·.data)) mf.data) ec.vars obj spec) := by
  obtain ⟨N, hN⟩ := process2Encode_uniform ms us gf nz yu hGF _ mf docs d
    (process2_aux ms us gf nz yu hGF hyu mf docs hnil hwf hwfs _ d rfl) ec obj spec
  exact ⟨N, fun fuel hf => hN fuel hf hmod⟩

/-- process2.go:process2MapValue: process2 on the value -/
theorem T_process2MapValue_eq (hGF : GetFormatSpec gf) (hyu : ParseOK yu) (mf : Go.Doc) (docs : List Go.Doc)
    (hnil : ∀ d ∈ docs, d.isNil = false) (hwf : Val.WF mf.data) (hwfs : ∀ d ∈ docs, Val.WF d.data)
    (ec : Go.Ctx) (obj : Fields) (v : Val) (d : Int)
    (hmod : process2 (1000 - d).toNat (docs.map (·.data)) mf.data ec.vars v ≠ .error Err.unmodelled) :
    ∃ N, ∀ fuel, N ≤ fuel → ∃ q, process2MapValue' ms us gf nz yu fuel obj mf docs ec v d = .ok q ∧
      errNorm q = valRes (process2 (1000 - d).toNat (docs.map (·.data)) mf.data ec.vars v) := by
  obtain ⟨N, hN⟩ := T_process2_eq ms us gf nz yu hGF hyu mf docs hnil hwf hwfs ec v d hmod
  refine ⟨N + 1, fun fuel hf => ?_⟩
  obtain ⟨f, rfl⟩ : ∃ f, fuel = f + 1 := ⟨fuel - 1, by omega⟩
  obtain ⟨q, hq, hn⟩ := hN f (by omega)
  refine ⟨q, ?_, hn⟩
  unfold process2MapValue'
  rw [hq]
end

/-! ## an explicit translator-fuel bound, computed along the model's evaluation -/

def maxOver {α : Type} (l : List α) (f : α → Nat) : Nat := l.foldr (fun a acc => max (f a) acc) 0

theorem le_maxOver {α : Type} {l : List α} {f : α → Nat} {a : α} (h : a ∈ l) : f a ≤ maxOver l f := by
  induction l with
  | nil => cases h
  | cons x xs ih =>
    simp only [maxOver, List.foldr_cons]
    rcases List.mem_cons.1 h with rfl | h'
    · omega
    · have := ih h'; simp only [maxOver] at this; omega

/-- the calls of a nested `$repeat` with `n` copies: the body, and (in a map) the key -/
def repNeed (need : Go.Ctx → Val → Nat) (ec : Go.Ctx) (body : Val) (key : Option Val) (n : Nat) : Nat :=
  maxOver (List.range n) fun i =>
    max (need ⟨fset ec.vars "$repeat" (.int (Int.ofNat i))⟩ body)
      (match key with | some k => need ⟨fset ec.vars "$repeat" (.int (Int.ofNat i))⟩ k | none => 0)

def entryRepNeed (need : Go.Ctx → Val → Nat) (ec : Go.Ctx) (key : Option Val) (v : Val) : Nat :=
  match v with
  | .map m =>
    match fget m "$repeat" with
    | some r => repNeed need ec (.map (fdel m "$repeat")) key (Go.asInt r).1.toNat
    | none => 0
  | _ => 0

/-- `$encode`: the dispatcher on the spec, `validate` on the evaluated object -/
def encNeed (P : Vars → Val → R Val) (ec : Vars) (obj spec : Val) : Nat :=
  max (Go.depth spec + 5) (match P ec obj with | .ok obj2 => 2 * Go.depth obj2 + 1 | .error _ => 0)

def mapNeed (P : Vars → Val → R Val) (need : Go.Ctx → Val → Nat) (ec : Go.Ctx) (kvs0 : Fields) : Nat :=
  max (max (maxOver kvs0 fun kv => entryRepNeed need ec (some (.str kv.1)) kv.2)
    (match expandM P ec.vars kvs0 with
     | .error _ => 0
     | .ok kvs =>
       max (max (need ec (.map (fdel kvs "$encode")))
            (match fget kvs "$encode" with
             | some spec => encNeed P ec.vars (.map (fdel kvs "$encode")) spec
             | none => 0))
         (max (match fget kvs "$value" with | some v => need ec v | none => 0)
            (maxOver kvs fun kv => max (need ec kv.2) (need ec (.str kv.1)))))) 2 + 2

def listNeedP (P : Vars → Val → R Val) (need : Go.Ctx → Val → Nat) (ec : Go.Ctx) (xs : List Val) : Nat :=
  (match popListMapValue xs "$encode" with
   | .error _ => 0
   | .ok (spec, rest) =>
     max (max (need ec (.list rest)) (encNeed P ec.vars (.list rest) spec))
       (maxOver rest fun x => max (need ec x) (entryRepNeed need ec none x))) + 2

/-- translator fuel that suffices for `process2'` at Go depth `depth` (model fuel `F`): one unit per level of the
    mutual recursion, computed along the model's evaluation (its intermediate results are evaluated again) -/
def p2Fuel (mf : Go.Doc) (docs : List Go.Doc) : Nat → Int → Go.Ctx → Val → Nat
  | 0, _, _, _ => 1
  | F + 1, depth, ec, obj =>
    match obj with
    | .map kvs0 =>
      mapNeed (process2 F (docs.map (·.data)) mf.data) (p2Fuel mf docs F (depth + 1)) ec kvs0 + 1
    | .list xs =>
      listNeedP (process2 F (docs.map (·.data)) mf.data) (p2Fuel mf docs F (depth + 1)) ec xs + 1
    | .str s => p2sFuel mf docs ec s (depth + 1) + 1
    | _ => 1

section
variable (ms : Go.Opaque → List Val → String × Option Err) (us : Go.Opaque → String → List Val × Option Err)
  (gf : String → Go.Opaque × Option Err) (nz : Val → Val × Option Err) (yu : String → Val × Option Err)

theorem repNeed_spec (P : Vars → Val → R Val) (mf : Go.Doc) (docs : List Go.Doc) (d : Int)
    (need : Go.Ctx → Val → Nat)
    (IH : ∀ (ec : Go.Ctx) (x : Val) (g : Nat), need ec x ≤ g →
      CallOK (fun ec' x => process2' ms us gf nz yu g x mf docs ec' d) P ec x)
    (ec : Go.Ctx) (body : Val) (key : Option Val) (n g : Nat) (hg : repNeed need ec body key n ≤ g) (i : Nat) (hi : i < n) :
    CallOK (fun ec' x => process2' ms us gf nz yu g x mf docs ec' d) P
        ⟨fset ec.vars "$repeat" (.int (Int.ofNat i))⟩ body ∧
    ∀ k, key = some k → CallOK (fun ec' x => process2' ms us gf nz yu g x mf docs ec' d) P
        ⟨fset ec.vars "$repeat" (.int (Int.ofNat i))⟩ k := by
  unfold repNeed at hg
  have h1 := Nat.le_trans (le_maxOver (List.mem_range.2 hi)) hg
  refine ⟨IH _ _ g (by omega), fun k hk => ?_⟩
  subst hk
  simp only at h1
  exact IH _ _ g (by omega)

theorem process2Map_explicit (hGF : GetFormatSpec gf) (P : Vars → Val → R Val) (mf : Go.Doc) (docs : List Go.Doc)
    (d : Int) (need : Go.Ctx → Val → Nat)
    (IH : ∀ (ec : Go.Ctx) (x : Val) (g : Nat), need ec x ≤ g →
      CallOK (fun ec' x => process2' ms us gf nz yu g x mf docs ec' d) P ec x)
    (ec : Go.Ctx) (kvs0 : Fields) (g : Nat) (hg : mapNeed P need ec kvs0 ≤ g)
    (hmod : (expandM P ec.vars kvs0 >>= mapBodyM P ec.vars) ≠ .error Err.unmodelled) :
    ∃ q, process2Map' ms us gf nz yu g kvs0 mf docs ec d = .ok q ∧
      errNorm q = valRes (expandM P ec.vars kvs0 >>= mapBodyM P ec.vars) := by
  obtain ⟨f, rfl⟩ : ∃ f, g = f + 2 := ⟨g - 2, by unfold mapNeed at hg; omega⟩
  unfold mapNeed at hg
  refine process2Map_step ms us gf nz yu hGF P f kvs0 mf docs ec d (by omega) ?_ ?_ hmod
  · intro kv hkv m r hm hr i hi
    have h0 : maxOver kvs0 (fun kv => entryRepNeed need ec (some (.str kv.1)) kv.2) ≤ f := by omega
    have h1 := Nat.le_trans (le_maxOver hkv) h0
    simp only [entryRepNeed, hm, hr] at h1
    have := repNeed_spec ms us gf nz yu P mf docs d need IH ec (.map (fdel m "$repeat")) (some (.str kv.1)) _ f
      h1 i hi
    exact ⟨this.1, this.2 _ rfl⟩
  · intro kvs hE
    rw [hE] at hg
    simp only [] at hg
    refine ⟨IH _ _ f (by omega), fun spec hs => ?_, fun v hv => ?_, fun kv hkv => ?_⟩
    · rw [hs] at hg
      simp only [encNeed] at hg
      refine ⟨by omega, fun obj2 h2 => ?_⟩
      rw [h2] at hg
      simp only [] at hg
      omega
    · rw [hv] at hg
      simp only [] at hg
      exact IH _ _ f (by omega)
    · have h0 : maxOver kvs (fun kv => max (need ec kv.2) (need ec (.str kv.1))) ≤ f := by omega
      have h1 := Nat.le_trans (le_maxOver hkv) h0
      exact ⟨IH _ _ (f + 1) (by omega), IH _ _ (f + 1) (by omega)⟩

theorem process2List_explicit (hGF : GetFormatSpec gf) (P : Vars → Val → R Val) (mf : Go.Doc) (docs : List Go.Doc)
    (d : Int) (need : Go.Ctx → Val → Nat)
    (IH : ∀ (ec : Go.Ctx) (x : Val) (g : Nat), need ec x ≤ g →
      CallOK (fun ec' x => process2' ms us gf nz yu g x mf docs ec' d) P ec x)
    (ec : Go.Ctx) (xs : List Val) (g : Nat) (hg : listNeedP P need ec xs ≤ g)
    (hmod : listBodyM P ec.vars xs ≠ .error Err.unmodelled) :
    ∃ q, process2List' ms us gf nz yu g xs mf docs ec d = .ok q ∧
      errNorm q = valRes (listBodyM P ec.vars xs) := by
  obtain ⟨f, rfl⟩ : ∃ f, g = f + 2 := ⟨g - 2, by unfold listNeedP at hg; omega⟩
  unfold listNeedP at hg
  refine process2List_step ms us gf nz yu hGF P f xs mf docs ec d ?_ hmod
  intro spec rest hp
  rw [hp] at hg
  simp only [encNeed] at hg
  refine ⟨IH _ _ f (by omega), ⟨by omega, fun obj2 h2 => ?_⟩, fun x hx => ?_⟩
  · rw [h2] at hg
    simp only [] at hg
    omega
  · have h0 : maxOver rest (fun x => max (need ec x) (entryRepNeed need ec none x)) ≤ f := by omega
    have h1 := Nat.le_trans (le_maxOver hx) h0
    refine ⟨IH _ _ (f + 1) (by omega), fun m r hm hr i hi => ?_⟩
    subst hm
    simp only [entryRepNeed, hr] at h1
    exact (repNeed_spec ms us gf nz yu P mf docs d need IH ec (.map (fdel m "$repeat")) none _ f
      (by omega) i hi).1

theorem process2_explicit_aux (hGF : GetFormatSpec gf) (hyu : ParseOK yu) (mf : Go.Doc) (docs : List Go.Doc)
    (hnil : ∀ d ∈ docs, d.isNil = false) (hwf : Val.WF mf.data) (hwfs : ∀ d ∈ docs, Val.WF d.data) :
    ∀ (F : Nat) (depth : Int), (1000 - depth).toNat = F → ∀ (ec : Go.Ctx) (obj : Val) (g : Nat),
      p2Fuel mf docs F depth ec obj ≤ g →
        CallOK (fun ec' x => process2' ms us gf nz yu g x mf docs ec' depth)
          (process2 F (docs.map (·.data)) mf.data) ec obj := by
  intro F
  induction F with
  | zero =>
    intro depth hd ec obj g hg _
    simp only [p2Fuel] at hg
    obtain ⟨f, rfl⟩ : ∃ f, g = f + 1 := ⟨g - 1, by omega⟩
    have hd' : depth + 1 > 1000 := by omega
    refine ⟨(.null, some Err.circularRef), ?_, rfl⟩
    simp only [process2_unfold, hd', if_true]
  | succ F ih =>
    intro depth hd ec obj g hg
    have hd' : ¬ depth + 1 > 1000 := by omega
    have IH := ih (depth + 1) (by omega)
    unfold CallOK
    simp only [process2_succ]
    cases obj with
    | map kvs0 =>
      simp only [p2Fuel] at hg
      intro hmod
      obtain ⟨f, rfl⟩ : ∃ f, g = f + 1 := ⟨g - 1, by omega⟩
      simp only [process2_unfold, hd', if_false]
      exact process2Map_explicit ms us gf nz yu hGF _ mf docs (depth + 1) _ IH ec kvs0 f (by omega) hmod
    | list xs =>
      simp only [p2Fuel] at hg
      intro hmod
      obtain ⟨f, rfl⟩ : ∃ f, g = f + 1 := ⟨g - 1, by omega⟩
      simp only [process2_unfold, hd', if_false]
      exact process2List_explicit ms us gf nz yu hGF _ mf docs (depth + 1) _ IH ec xs f (by omega) hmod
    | str s =>
      simp only [p2Fuel] at hg
      intro hmod
      obtain ⟨f, rfl⟩ : ∃ f, g = f + 1 := ⟨g - 1, by omega⟩
      have hF : (1001 - (depth + 1)).toNat = F + 1 := by omega
      simp only [process2_unfold, hd', if_false]
      simp only [] at hmod ⊢
      rw [← hF] at hmod ⊢
      rw [T_process2String_eq yu hyu mf docs ec hnil hwf hwfs s (depth + 1) f (by omega) hmod]
      refine ⟨_, rfl, ?_⟩
      cases process2String (1001 - (depth + 1)).toNat (docs.map (·.data)) mf.data ec.vars s <;> rfl
    | null =>
      simp only [p2Fuel] at hg
      intro _
      obtain ⟨f, rfl⟩ : ∃ f, g = f + 1 := ⟨g - 1, by omega⟩
      exact ⟨(Val.null, none), by simp only [process2_unfold, hd', if_false], rfl⟩
    | bool b =>
      simp only [p2Fuel] at hg
      intro _
      obtain ⟨f, rfl⟩ : ∃ f, g = f + 1 := ⟨g - 1, by omega⟩
      exact ⟨(Val.bool b, none), by simp only [process2_unfold, hd', if_false], rfl⟩
    | int i =>
      simp only [p2Fuel] at hg
      intro _
      obtain ⟨f, rfl⟩ : ∃ f, g = f + 1 := ⟨g - 1, by omega⟩
      exact ⟨(Val.int i, none), by simp only [process2_unfold, hd', if_false], rfl⟩
    | flt x =>
      simp only [p2Fuel] at hg
      intro _
      obtain ⟨f, rfl⟩ : ∃ f, g = f + 1 := ⟨g - 1, by omega⟩
      exact ⟨(Val.flt x, none), by simp only [process2_unfold, hd', if_false], rfl⟩

/-- **process2.go:process2 with an explicit fuel bound** `p2Fuel` (computed along the model's evaluation) -/
theorem T_process2_eq_fuel (hGF : GetFormatSpec gf) (hyu : ParseOK yu) (mf : Go.Doc) (docs : List Go.Doc)
    (hnil : ∀ d ∈ docs, d.isNil = false) (hwf : Val.WF mf.data) (hwfs : ∀ d ∈ docs, Val.WF d.data)
    (ec : Go.Ctx) (obj : Val) (depth : Int) (fuel : Nat)
    (hf : p2Fuel mf docs (1000 - depth).toNat depth ec obj ≤ fuel)
    (hmod : process2 (1000 - depth).toNat (docs.map (·.data)) mf.data ec.vars obj ≠ .error Err.unmodelled) :
    ∃ q, process2' ms us gf nz yu fuel obj mf docs ec depth = .ok q ∧
      errNorm q = valRes (process2 (1000 - depth).toNat (docs.map (·.data)) mf.data ec.vars obj) :=
  process2_explicit_aux ms us gf nz yu hGF hyu mf docs hnil hwf hwfs _ depth rfl ec obj fuel hf hmod
end

section
variable (ms : Go.Opaque → List Val → String × Option Err) (us : Go.Opaque → String → List Val × Option Err)
  (gf : String → Go.Opaque × Option Err) (nz : Val → Val × Option Err) (yu : String → Val × Option Err)

/-- process2Map at the incremented Go depth `d`, explicit fuel -/
theorem T_process2Map_eq_fuel (hGF : GetFormatSpec gf) (hyu : ParseOK yu) (mf : Go.Doc) (docs : List Go.Doc)
    (hnil : ∀ d ∈ docs, d.isNil = false) (hwf : Val.WF mf.data) (hwfs : ∀ d ∈ docs, Val.WF d.data)
    (ec : Go.Ctx) (kvs0 : Fields) (d : Int) (fuel : Nat)
    (hf : mapNeed (process2 (1000 - d).toNat (docs.map (·.data)) mf.data) (p2Fuel mf docs (1000 - d).toNat d) ec kvs0
      ≤ fuel)
    (hmod : process2 ((1000 - d).toNat + 1) (docs.map (·.data)) mf.data ec.vars (.map kvs0) ≠ .error Err.unmodelled) :
    ∃ q, process2Map' ms us gf nz yu fuel kvs0 mf docs ec d = .ok q ∧
      errNorm q = valRes (process2 ((1000 - d).toNat + 1) (docs.map (·.data)) mf.data ec.vars (.map kvs0)) := by
  rw [process2_succ] at hmod ⊢
  exact process2Map_explicit ms us gf nz yu hGF _ mf docs d _
    (process2_explicit_aux ms us gf nz yu hGF hyu mf docs hnil hwf hwfs _ d rfl) ec kvs0 fuel hf hmod

/-- process2List at the incremented Go depth `d`, explicit fuel -/
theorem T_process2List_eq_fuel (hGF : GetFormatSpec gf) (hyu : ParseOK yu) (mf : Go.Doc) (docs : List Go.Doc)
    (hnil : ∀ d ∈ docs, d.isNil = false) (hwf : Val.WF mf.data) (hwfs : ∀ d ∈ docs, Val.WF d.data)
    (ec : Go.Ctx) (xs : List Val) (d : Int) (fuel : Nat)
    (hf : listNeedP (process2 (1000 - d).toNat (docs.map (·.data)) mf.data) (p2Fuel mf docs (1000 - d).toNat d) ec xs
      ≤ fuel)
    (hmod : process2 ((1000 - d).toNat + 1) (docs.map (·.data)) mf.data ec.vars (.list xs) ≠ .error Err.unmodelled) :
    ∃ q, process2List' ms us gf nz yu fuel xs mf docs ec d = .ok q ∧
      errNorm q = valRes (process2 ((1000 - d).toNat + 1) (docs.map (·.data)) mf.data ec.vars (.list xs)) := by
  rw [process2_succ] at hmod ⊢
  exact process2List_explicit ms us gf nz yu hGF _ mf docs d _
    (process2_explicit_aux ms us gf nz yu hGF hyu mf docs hnil hwf hwfs _ d rfl) ec xs fuel hf hmod

/-- process2Encode at Go depth `d`, explicit fuel -/
theorem T_process2Encode_eq_fuel (hGF : GetFormatSpec gf) (hyu : ParseOK yu) (mf : Go.Doc) (docs : List Go.Doc)
    (hnil : ∀ d ∈ docs, d.isNil = false) (hwf : Val.WF mf.data) (hwfs : ∀ d ∈ docs, Val.WF d.data)
    (ec : Go.Ctx) (obj spec : Val) (d : Int) (fuel : Nat)
    (hf : max (p2Fuel mf docs (1000 - d).toNat d ec obj)
      (encNeed (process2 (1000 - d).toNat (docs.map (·.data)) mf.data) ec.vars obj spec) + 1 ≤ fuel)
    (hmod : encodeM (process2 (1000 - d).toNat (docs.map (·.data)) mf.data) ec.vars obj spec ≠ .error Err.unmodelled) :
    ∃ q, process2Encode' ms us gf nz yu fuel obj mf docs ec spec d = .ok q ∧
      errNorm q = valRes (encodeM (process2 (1000 - d).toNat (docs.map (·.data)) mf.data) ec.vars obj spec) := by
  obtain ⟨f, rfl⟩ : ∃ f, fuel = f + 1 := ⟨fuel - 1, by omega⟩
  unfold encNeed at hf
  refine process2Encode_step ms us gf nz yu hGF _ f obj mf docs ec spec d
    (process2_explicit_aux ms us gf nz yu hGF hyu mf docs hnil hwf hwfs _ d rfl ec obj f (by omega))
    (fun obj2 h2 => ?_) (by omega) hmod
  rw [h2] at hf
  simp only [] at hf
  omega

/-- process2MapValue at Go depth `d`, explicit fuel -/
theorem T_process2MapValue_eq_fuel (hGF : GetFormatSpec gf) (hyu : ParseOK yu) (mf : Go.Doc) (docs : List Go.Doc)
    (hnil : ∀ d ∈ docs, d.isNil = false) (hwf : Val.WF mf.data) (hwfs : ∀ d ∈ docs, Val.WF d.data)
    (ec : Go.Ctx) (obj : Fields) (v : Val) (d : Int) (fuel : Nat)
    (hf : p2Fuel mf docs (1000 - d).toNat d ec v + 1 ≤ fuel)
    (hmod : process2 (1000 - d).toNat (docs.map (·.data)) mf.data ec.vars v ≠ .error Err.unmodelled) :
    ∃ q, process2MapValue' ms us gf nz yu fuel obj mf docs ec v d = .ok q ∧
      errNorm q = valRes (process2 (1000 - d).toNat (docs.map (·.data)) mf.data ec.vars v) := by
  obtain ⟨f, rfl⟩ : ∃ f, fuel = f + 1 := ⟨fuel - 1, by omega⟩
  obtain ⟨q, hq, hn⟩ := T_process2_eq_fuel ms us gf nz yu hGF hyu mf docs hnil hwf hwfs ec v d f (by omega) hmod
  refine ⟨q, ?_, hn⟩
  unfold process2MapValue'
  rw [hq]
end


/-! ## instances: the hypotheses are met by real inputs, and each of them is needed -/

/-- `Val.WF` of the documents is needed: `get` deep-clones (sorts) the referenced map before `%v` prints it -/
def exUnsortedA : Go.Doc := { id := "", parents := "", data := .map [("a", .map [("b", .null), ("a", .null)])] }

theorem ib_a : interpBody "$\"{a}\"" = some ['{', 'a', '}'] := by decide
theorem segs_a : interpSegs ['{', 'a', '}'] = [Seg.ref ['a']] := by decide

theorem wf_needed_go :
    process2String' yamlModel 9 "$\"{a}\"" exUnsortedA [] ⟨[]⟩ 0 = .ok (.str "map[a:<nil> b:<nil>]", none) := by
  rw [process2String_unfold, ib_a]
  simp only []
  rw [process2StringInterp_unfold, interpBody_trim _ _ ib_a, segs_a]
  have hget : getWithVar' yamlModel 7 exUnsortedA [] ⟨[]⟩ (.str "a") =
      .ok (.map [("a", .null), ("b", .null)], none) := by
    rw [T_getWithVar_eq_norm yamlModel yamlModel_ok exUnsortedA [] ⟨[]⟩ "a" (by simp)
      (by simp [parseRef, isPlainRef_a]) 7 (by rw [exFuel_a]; decide) (by decide),
      get_simple_key _ _ _ isPlainRef_a (by decide)]
    rfl
  have htrim : Go.trimSuffix (Go.trimPrefix (String.ofList ['{', 'a', '}']) "{") "}" = "a" := by
    have := trim_braces ['a']; simpa using this
  simp [Go.replaceSegs, interpClosure, htrim, hget, Go.asStr]
  rfl

theorem wf_needed_model :
    process2String 1001 (([] : List Go.Doc).map (·.data)) exUnsortedA.data [] "$\"{a}\"" = .ok (.str "map[b:<nil> a:<nil>]") := by
  rw [process2String_succ _ _ _ _ _ _ ib_a, segs_a]
  simp [interpSpec, interpSeg, exUnsortedA, getWithVar_simple_key _ _ _ _ _ isPlainRef_a (by decide)
    (show fget [("a", Val.map [("b", .null), ("a", .null)])] "a" = some _ from rfl), bind, Except.bind, pure, Except.pure]
  rfl

def usNone : Go.Opaque → String → List Val × Option Err := fun _ _ => ([], none)
def usSeven : Go.Opaque → String → List Val × Option Err := fun _ _ => ([.int 7], none)
def nzId : Val → Val × Option Err := fun v => (v, none)

theorem ib_envX : interpBody "$env:X" = none := by decide
theorem ib_plain_a : interpBody "a" = none := by decide

/-- next to an error the translated process2 may return a non-nil value (here the nil map of filterMap inside an `any`),
    which is why the theorems compare results through `errNorm` -/
theorem errNorm_needed :
    process2' msName usNone gfModel nzId yamlModel 6 (.map [("a", .str "$env:X")]) exDocC [] ⟨[]⟩ 0
      = .ok (.map [], some Err.variableNotFound) ∧
    process2 (1000 - (0 : Int)).toNat (([] : List Go.Doc).map (·.data)) exDocC.data [] (.map [("a", .str "$env:X")])
      = .error Err.variableNotFound := by
  constructor
  · rfl
  · show process2 (998 + 1 + 1) _ _ _ _ = _
    simp [process2_succ, expandM, expandStepM, mapBodyM, entryStepM, fget, fset,
      process2String_noninterp _ _ _ _ _ ib_envX, getVar, bind, Except.bind, pure, Except.pure,
      throw, throwThe, MonadExceptOf.throw]

/-- the model's `unmodelled` is needed as an exclusion (1): a `$decode` of a codec format is evaluated by the Go code
    through the parameters, the model stops -/
theorem unmodelled_needed_decode :
    process2' msName usSeven gfModel nzId yamlModel 9 (.map [("$decode", .str "json"), ("$value", .str "x")])
      exDocC [] ⟨[]⟩ 0 = .ok (.int 7, none) ∧
    process2 (1000 - (0 : Int)).toNat (([] : List Go.Doc).map (·.data)) exDocC.data []
      (.map [("$decode", .str "json"), ("$value", .str "x")]) = .error Err.unmodelled := by
  constructor
  · rfl
  · show process2 (999 + 1) _ _ _ _ = _
    have h : isCodecFormat "json" = true := by decide
    simp [process2_succ, expandM, expandStepM, mapBodyM, decodeM, fget, fset, fdel, h, bind, Except.bind, pure,
      Except.pure, throw, throwThe, MonadExceptOf.throw]

theorem ib_empty_ref : interpBody "$\"{}\"" = some ['{', '}'] := by decide
theorem segs_empty_ref : interpSegs ['{', '}'] = [Seg.ref []] := by decide

/-- the model's `unmodelled` is needed as an exclusion (2): the empty reference is outside the sub-language the model
    reads; a YAML reader that satisfies `ParseOK` is free there -/
theorem unmodelled_needed_ref :
    process2String' yamlModel 9 "$\"{}\"" exDocA [] ⟨[]⟩ 0 = .ok (.null, some Err.variableNotFound) ∧
    process2String (1001 - (0 : Int)).toNat (([] : List Go.Doc).map (·.data)) exDocA.data [] "$\"{}\""
      = .error Err.unmodelled := by
  constructor
  · rfl
  · show process2String (1000 + 1) _ _ _ _ = _
    rw [process2String_succ _ _ _ _ _ _ ib_empty_ref, segs_empty_ref]
    have : getWithVar exDocA.data [] [] "" = .error Err.unmodelled :=
      (getWithVar_unmodelled_iff _ _ _ _).2 parseRef_empty
    simp [interpSpec, interpSeg, this, bind, Except.bind]

/-- the depth budget: process2 at Go depth 999 still evaluates, at 1000 it is ErrCircularRef (model fuel 1 and 0);
    process2String at Go depth 1000 still interpolates, at 1001 it is ErrCircularRef (model fuel 1 and 0) -/
example : process2' msName usNone gfModel nzId yamlModel 2 (.int 1) exDocC [] ⟨[]⟩ 999 = .ok (.int 1, none) := rfl
example : process2' msName usNone gfModel nzId yamlModel 2 (.int 1) exDocC [] ⟨[]⟩ 1000
    = .ok (.null, some Err.circularRef) := rfl
example : process2 (1000 - (999 : Int)).toNat [] exDocC.data [] (.int 1) = .ok (.int 1) := rfl
example : process2 (1000 - (1000 : Int)).toNat [] exDocC.data [] (.int 1) = .error Err.circularRef := rfl
example : process2' msName usNone gfModel nzId yamlModel 4 (.str "$\"x\"") exDocC [] ⟨[]⟩ 999
    = .ok (.str "x", none) := rfl

/-- non-vacuity of T_process2_eq: a nested `$repeat` whose body reads the index -/
def exObj : Val := .list [.map [("$repeat", .int 2), ("i", .str "$repeat")]]
theorem ib_repeat : interpBody "$repeat" = none := by decide
theorem ib_i : interpBody "i" = none := by decide

theorem exObj_model :
    process2 (1000 - (997 : Int)).toNat (([] : List Go.Doc).map (·.data)) exDocC.data [] exObj
      = .ok (.list [.map [("i", .int 0)], .map [("i", .int 1)]]) := by
  show process2 3 _ _ _ _ = _
  simp [exObj, process2, popListMapValue, fget, fdel, process2String_noninterp _ _ _ _ _ ib_repeat,
    process2String_noninterp _ _ _ _ _ ib_i, List.range, List.range.loop, getVar, fset, Val.isNull, bind, Except.bind,
    pure, Except.pure]

example : ∃ N, ∀ fuel, N ≤ fuel →
    process2' msName usNone gfModel nzId yamlModel fuel exObj exDocC [] ⟨[]⟩ 997
      = .ok (.list [.map [("i", .int 0)], .map [("i", .int 1)]], none) :=
  T_process2_eq_ok msName usNone gfModel nzId yamlModel (fun _ => rfl) yamlModel_ok exDocC []
    (by simp) (by decide) (by simp) ⟨[]⟩ exObj 997 _ exObj_model
/-- … and evaluated directly -/
example : process2' msName usNone gfModel nzId yamlModel 7 exObj exDocC [] ⟨[]⟩ 997
    = .ok (.list [.map [("i", .int 0)], .map [("i", .int 1)]], none) := rfl

theorem exString_model :
    process2String (1001 - (1000 : Int)).toNat (([] : List Go.Doc).map (·.data)) exDocC.data [] "$\"{a}\"" = .ok (.str "1") := by
  show process2String (0 + 1) _ _ _ _ = _
  rw [process2String_succ _ _ _ _ _ _ ib_a, segs_a]
  simp [interpSpec, interpSeg, exDocC, getWithVar_simple_key _ _ _ _ _ isPlainRef_a (by decide)
    (show fget [("a", Val.int 1)] "a" = some _ from rfl), bind, Except.bind, pure, Except.pure]
  rfl

theorem exString_fuel : p2sFuel exDocC [] ⟨[]⟩ "$\"{a}\"" 1000 = 10 := by
  have h1 : strNeed "$\"{a}\"" = 4 := by
    simp only [strNeed, ib_a, segs_a, segsNeed]
    have : String.ofList ['a'] = "a" := rfl
    rw [this, exFuel_a]; rfl
  have h2 : valNeed exDocC.data = 0 := rfl
  simp only [p2sFuel, refNeed, getNeed, h1, h2]
  rfl

/-- non-vacuity of T_process2String_eq: a reference into the document, at the last Go depth that still interpolates -/
example : process2String' yamlModel 10 "$\"{a}\"" exDocC [] ⟨[]⟩ 1000 = .ok (.str "1", none) := by
  rw [T_process2String_eq yamlModel yamlModel_ok exDocC [] ⟨[]⟩ (by simp) (by decide) (by simp) _ 1000 10
    (by rw [exString_fuel]; decide) (by rw [exString_model]; simp), exString_model]
  rfl
example : process2String' yamlModel 4 "$\"x\"" exDocC [] ⟨[]⟩ 1000 = .ok (.str "x", none) := rfl
example : process2String' yamlModel 4 "$\"x\"" exDocC [] ⟨[]⟩ 1001 = .ok (.null, some Err.circularRef) := rfl


/-- non-vacuity of T_process2_eq_fuel: the explicit bound on the example is 15 (7 units are what it really takes) -/
theorem exObj_fuel : p2Fuel exDocC [] (1000 - (997 : Int)).toNat 997 ⟨[]⟩ exObj ≤ 15 := by decide

example : process2' msName usNone gfModel nzId yamlModel 15 exObj exDocC [] ⟨[]⟩ 997
    = .ok (.list [.map [("i", .int 0)], .map [("i", .int 1)]], none) := by
  obtain ⟨q, hq, hn⟩ := T_process2_eq_fuel msName usNone gfModel nzId yamlModel (fun _ => rfl) yamlModel_ok exDocC []
    (by simp) (by decide) (by simp) ⟨[]⟩ exObj 997 15 exObj_fuel (by rw [exObj_model]; simp)
  rw [exObj_model] at hn
  rw [hq, errNorm_ok hn]
example : process2' msName usNone gfModel nzId yamlModel 6 exObj exDocC [] ⟨[]⟩ 997 = .error GErr.fuel := rfl

end Bkl.Gen.Lib
