/-
  Translation equivalence, repeat.go (document-level `$repeat`) and the two methods of evalcontext.go it uses, as
  harness/cmd/gotrans writes them from /repo's CURRENT source (Generated/Trans/Repeat.lean, regenerated on every run),
  against the model's `repeatDoc` / `repeatGen` / `repeatInt` / `getVar` (Bkl/Process2.lean).

  The Go functions return two parallel slices (`[]*Document`, `[]*EvalContext`); the model keeps one list of
  `(data, vars)` pairs and neither document ids nor parents.  `Document.Clone` is not translated: it is the parameter
  `documentClone` of the translated functions.  The statements are therefore of the form `RepOut r m`:
    * the model returns `pairs`  ⇒  the translation returns `(docs, ecs, nil)` with `docs.map (·.data) = pairs.map (·.1)`
      and `ecs.map (·.vars) = pairs.map (·.2)` (so the two slices have the length of `pairs`);
    * the model fails with `e`   ⇒  the translation returns `(nil, nil, e)`.
  Hypothesis on the parameter: `CloneSpec clone` (never fails, keeps the data).  The real `Document.Clone` deep-clones
  the data, i.e. (TransUtil: `T_deepClone_eq_norm`) applies `Val.norm`, the identity exactly on well-formed values:
  `T_repeatDoc_eq_norm` is the statement for such a parameter (`CloneNorm`) and a well-formed document.
  The hypothesis is needed (`cloneSpec_needed_err`, `cloneSpec_needed_data`, `wf_needed_norm`).
  `repeatDocGenFromInt'` is moreover characterised exactly, ids included, with no hypothesis on the data
  (`T_repeatDocGenFromInt_exact`), and a failing `Clone` is propagated (`T_repeatDocGenFromInt_cloneErr`).
  No fuel in this unit.
-/
import Generated.Trans.Repeat
import BklProofs.Facts.TransUtil
import BklProofs.Facts.TransFilter
import BklProofs.Lemmas.Repeat
namespace Bkl.Gen.Lib
open Bkl Go

/-! ## evalcontext.go -/

/-- evalcontext.go:EvalContext.Clone — a context with the same variables (maps are values in the model) -/
theorem T_EvalContext_Clone_eq (ec : Go.Ctx) : EvalContext_Clone' ec = .ok ec := rfl

/-- evalcontext.go:EvalContext.GetVar is the model's `getVar` -/
theorem T_EvalContext_GetVar_eq (ec : Go.Ctx) (name : String) :
    EvalContext_GetVar' ec name = .ok (match getVar ec.vars name with
      | .ok v => (v, none)
      | .error e => (.null, some e)) := by
  unfold EvalContext_GetVar' mapIndex2 getVar
  cases fget ec.vars name <;> rfl

/-! ## the specification of the parameter `Document.Clone`, and the shape of the statements -/

/-- `Document.Clone` never fails and keeps the data -/
def CloneSpec (clone : Go.Doc → String → Go.Doc × Option Err) : Prop :=
  ∀ d s, (clone d s).2 = none ∧ (clone d s).1.data = d.data

/-- the same for the documents whose data is `x` only (all that one call of `repeatDocGen` clones) -/
def CloneOn (clone : Go.Doc → String → Go.Doc × Option Err) (x : Val) : Prop :=
  ∀ d s, d.data = x → (clone d s).2 = none ∧ (clone d s).1.data = x

/-- `Document.Clone` never fails and deep-clones the data (document.go; `deepClone` is `Val.norm`) -/
def CloneNorm (clone : Go.Doc → String → Go.Doc × Option Err) : Prop :=
  ∀ d s, (clone d s).2 = none ∧ (clone d s).1.data = Val.norm d.data

theorem CloneSpec.on {clone : Go.Doc → String → Go.Doc × Option Err} (h : CloneSpec clone) (x : Val) :
    CloneOn clone x := fun d s hd => hd ▸ h d s

theorem CloneNorm.on {clone : Go.Doc → String → Go.Doc × Option Err} (h : CloneNorm clone) {x : Val}
    (hx : Val.WF x) : CloneOn clone x := by
  intro d s hd
  have := h d s
  rw [hd, gu_norm_of_wf x hx] at this
  exact this

/-- "the translated function returns what the model returns": parallel slices of documents and contexts whose data
    and variables are the model's pairs, or `(nil, nil, err)` -/
def RepOut (r : G (List Go.Doc × List Go.Ctx × Option Err)) (m : R (List (Val × Vars))) : Prop :=
  match m with
  | .ok pairs => ∃ docs ecs, r = .ok (docs, ecs, none) ∧
      docs.map (·.data) = pairs.map (·.1) ∧ ecs.map (·.vars) = pairs.map (·.2)
  | .error e => r = .ok ([], [], some e)

/-! ## repeatDocGenFromInt -/

/-- the documents `repeatDocGenFromInt` makes of one document -/
def cloneDocs (clone : Go.Doc → String → Go.Doc × Option Err) (name : String) (count : Int) (d : Go.Doc) :
    List Go.Doc :=
  (intRange count).map fun i => (clone d (name ++ "=" ++ toString i)).1

/-- the contexts `repeatDocGenFromInt` makes of one context -/
def cloneCtxs (name : String) (count : Int) (e : Go.Ctx) : List Go.Ctx :=
  (intRange count).map fun i => { vars := fset e.vars name (.int i) }

/-- the loop of repeatDocGenFromInt while `Clone` succeeds -/
theorem fromInt_loop (clone : Go.Doc → String → Go.Doc × Option Err) (doc : Go.Doc) (ec : Go.Ctx) (name : String)
    (l : List Int) (hc : ∀ i ∈ l, (clone doc (name ++ "=" ++ toString i)).2 = none)
    (docs : List Go.Doc) (ecs : List Go.Ctx)
    (body : Int → List Go.Doc × List Go.Ctx →
      G (Loop (List Go.Doc × List Go.Ctx) (List Go.Doc × List Go.Ctx × Option Err)))
    (hbody : ∀ i docs ecs, body i (docs, ecs) =
      (if (clone doc (name ++ "=" ++ toString i)).2 != none
       then .ok (.ret ([], [], (clone doc (name ++ "=" ++ toString i)).2))
       else .ok (.next (docs ++ [(clone doc (name ++ "=" ++ toString i)).1],
                        ecs ++ [{ vars := fset ec.vars name (.int i) }])))) :
    forRange l (docs, ecs) body =
      .ok (.inl (docs ++ l.map (fun i => (clone doc (name ++ "=" ++ toString i)).1),
                 ecs ++ l.map (fun i => ({ vars := fset ec.vars name (.int i) } : Go.Ctx)))) := by
  induction l generalizing docs ecs with
  | nil => simp
  | cons i l ih =>
    rw [forRange_cons_next (by rw [hbody, hc i List.mem_cons_self]; rfl),
      ih (fun j hj => hc j (List.mem_cons_of_mem _ hj))]
    simp

/-- the loop of repeatDocGenFromInt when `Clone` fails -/
theorem fromInt_loop_err (clone : Go.Doc → String → Go.Doc × Option Err) (doc : Go.Doc) (ec : Go.Ctx) (name : String)
    (pre post : List Int) (j : Int) (e : Err)
    (hc : ∀ i ∈ pre, (clone doc (name ++ "=" ++ toString i)).2 = none)
    (hj : (clone doc (name ++ "=" ++ toString j)).2 = some e)
    (docs : List Go.Doc) (ecs : List Go.Ctx)
    (body : Int → List Go.Doc × List Go.Ctx →
      G (Loop (List Go.Doc × List Go.Ctx) (List Go.Doc × List Go.Ctx × Option Err)))
    (hbody : ∀ i docs ecs, body i (docs, ecs) =
      (if (clone doc (name ++ "=" ++ toString i)).2 != none
       then .ok (.ret ([], [], (clone doc (name ++ "=" ++ toString i)).2))
       else .ok (.next (docs ++ [(clone doc (name ++ "=" ++ toString i)).1],
                        ecs ++ [{ vars := fset ec.vars name (.int i) }])))) :
    forRange (pre ++ j :: post) (docs, ecs) body = .ok (.inr ([], [], some e)) := by
  induction pre generalizing docs ecs with
  | nil => exact forRange_cons_ret (by rw [hbody, hj]; rfl)
  | cons i l ih =>
    rw [List.cons_append, forRange_cons_next (by rw [hbody, hc i List.mem_cons_self]; rfl),
      ih (fun j hj => hc j (List.mem_cons_of_mem _ hj))]

/-- repeat.go:repeatDocGenFromInt, exactly: one clone of `doc` with the id suffix `name=i` and one context with
    `name := i` for each `0 ≤ i < count` (none for `count ≤ 0`), provided `Clone` does not fail -/
theorem T_repeatDocGenFromInt_exact (clone : Go.Doc → String → Go.Doc × Option Err) (doc : Go.Doc) (ec : Go.Ctx)
    (name : String) (count : Int) (hc : ∀ s, (clone doc s).2 = none) :
    repeatDocGenFromInt' clone doc ec name count =
      .ok (cloneDocs clone name count doc, cloneCtxs name count ec, none) := by
  unfold repeatDocGenFromInt'
  simp only []
  rw [fromInt_loop clone doc ec name _ (fun i _ => hc _) [] []]
  · simp [cloneDocs, cloneCtxs]
  · intro i docs ecs
    simp only [T_EvalContext_Clone_eq]
    cases (clone doc (name ++ "=" ++ toString i)).2 <;> rfl

/-- … and the first error of `Clone` is returned -/
theorem T_repeatDocGenFromInt_cloneErr (clone : Go.Doc → String → Go.Doc × Option Err) (doc : Go.Doc) (ec : Go.Ctx)
    (name : String) (count : Int) (j : Nat) (e : Err) (hj : j < count.toNat)
    (hpre : ∀ i < j, (clone doc (name ++ "=" ++ toString (Int.ofNat i))).2 = none)
    (herr : (clone doc (name ++ "=" ++ toString (Int.ofNat j))).2 = some e) :
    repeatDocGenFromInt' clone doc ec name count = .ok ([], [], some e) := by
  have hsplit : ∃ post, intRange count = (List.range j).map Int.ofNat ++ Int.ofNat j :: post := by
    obtain ⟨k, hk⟩ : ∃ k, count.toNat = j + (1 + k) := ⟨count.toNat - (j + 1), by omega⟩
    refine ⟨((List.range k).map (j + 1 + ·)).map Int.ofNat, ?_⟩
    unfold intRange
    rw [hk, List.range_add, List.range_add]
    simp [Nat.add_assoc]
  obtain ⟨post, hsplit⟩ := hsplit
  unfold repeatDocGenFromInt'
  simp only []
  rw [hsplit, fromInt_loop_err clone doc ec name _ _ _ e ?_ herr [] []]
  · intro i docs ecs
    simp only [T_EvalContext_Clone_eq]
    cases (clone doc (name ++ "=" ++ toString i)).2 <;> rfl
  · intro i hi
    obtain ⟨n, hn, rfl⟩ := List.mem_map.1 hi
    exact hpre n (List.mem_range.1 hn)

/-- data of the clones -/
theorem cloneDocs_data {clone : Go.Doc → String → Go.Doc × Option Err} {x : Val} (hc : CloneOn clone x)
    (name : String) (count : Int) (d : Go.Doc) (hd : d.data = x) :
    ∀ d' ∈ cloneDocs clone name count d, d'.data = x := by
  intro d' h
  obtain ⟨i, _, rfl⟩ := List.mem_map.1 h
  exact (hc d _ hd).2

theorem cloneDocs_length (clone : Go.Doc → String → Go.Doc × Option Err) (name : String) (count : Int) (d : Go.Doc) :
    (cloneDocs clone name count d).length = count.toNat := by
  simp [cloneDocs, intRange]

theorem cloneCtxs_length (name : String) (count : Int) (e : Go.Ctx) :
    (cloneCtxs name count e).length = count.toNat := by
  simp [cloneCtxs, intRange]

/-! ## the model's `repeatInt`, componentwise -/

theorem repeatInt_fst (name : String) (count : Int) (pairs : List (Val × Vars)) :
    (repeatInt name count pairs).map (·.1) =
      (pairs.map (·.1)).flatMap fun d => (List.range count.toNat).map fun _ => d := by
  simp [repeatInt, List.map_flatMap, List.flatMap_map, Function.comp_def]

theorem repeatInt_snd (name : String) (count : Int) (pairs : List (Val × Vars)) :
    (repeatInt name count pairs).map (·.2) =
      (pairs.map (·.2)).flatMap fun e => (List.range count.toNat).map fun i => fset e name (.int (Int.ofNat i)) := by
  simp [repeatInt, List.map_flatMap, List.flatMap_map, Function.comp_def]

theorem flatMap_congr' {α β : Type} {l : List α} {f g : α → List β} (h : ∀ a ∈ l, f a = g a) :
    l.flatMap f = l.flatMap g := by
  induction l with
  | nil => rfl
  | cons a l ih =>
    simp only [List.flatMap_cons]
    rw [h a List.mem_cons_self, ih fun b hb => h b (List.mem_cons_of_mem _ hb)]

/-- the clones of a list of documents with data `x` are the first components of `repeatInt` -/
theorem flatMap_cloneDocs_data {clone : Go.Doc → String → Go.Doc × Option Err} {x : Val} (hc : CloneOn clone x)
    (name : String) (count : Int) (docs : List Go.Doc) (hd : ∀ d ∈ docs, d.data = x) (pairs : List (Val × Vars))
    (h1 : docs.map (·.data) = pairs.map (·.1)) :
    (docs.flatMap (cloneDocs clone name count)).map (·.data) = (repeatInt name count pairs).map (·.1) := by
  rw [repeatInt_fst, ← h1, List.map_flatMap, List.flatMap_map]
  refine flatMap_congr' fun d hdm => ?_
  simp only [cloneDocs, intRange, List.map_map]
  refine List.map_congr_left fun i _ => ?_
  simp only [Function.comp_def]
  rw [(hc d _ (hd d hdm)).2, hd d hdm]

theorem flatMap_cloneCtxs_vars (name : String) (count : Int) (ecs : List Go.Ctx) (pairs : List (Val × Vars))
    (h2 : ecs.map (·.vars) = pairs.map (·.2)) :
    (ecs.flatMap (cloneCtxs name count)).map (·.vars) = (repeatInt name count pairs).map (·.2) := by
  rw [repeatInt_snd, ← h2, List.map_flatMap, List.flatMap_map]
  refine flatMap_congr' fun e _ => ?_
  simp [cloneCtxs, intRange, Function.comp_def]

theorem RepOut.ok_triple {r : G (List Go.Doc × List Go.Ctx × Option Err)} {m : R (List (Val × Vars))}
    (h : RepOut r m) : ∃ t, r = .ok t := by
  cases m with
  | ok ps => obtain ⟨_, _, hr, _⟩ := h; exact ⟨_, hr⟩
  | error e => exact ⟨_, h⟩

/-- transfer along `return f(…)`: whatever `f` returns is returned -/
theorem RepOut.of_eq {r r' : G (List Go.Doc × List Go.Ctx × Option Err)} {m : R (List (Val × Vars))}
    (h : RepOut r m) (hr : ∀ t, r = .ok t → r' = .ok t) : RepOut r' m := by
  obtain ⟨t, ht⟩ := h.ok_triple
  rw [hr t ht, ← ht]
  exact h

theorem repeatDocGenFromInt_on (clone : Go.Doc → String → Go.Doc × Option Err) (doc : Go.Doc)
    (hc : CloneOn clone doc.data) (ec : Go.Ctx) (name : String) (count : Int) :
    RepOut (repeatDocGenFromInt' clone doc ec name count) (.ok (repeatInt name count [(doc.data, ec.vars)])) := by
  refine ⟨_, _, T_repeatDocGenFromInt_exact clone doc ec name count (fun s => (hc doc s rfl).1), ?_, ?_⟩
  · simpa using flatMap_cloneDocs_data hc name count [doc] (by simp) [(doc.data, ec.vars)] rfl
  · simpa using flatMap_cloneCtxs_vars name count [ec] [(doc.data, ec.vars)] rfl

/-- repeat.go:repeatDocGenFromInt is the model's `repeatInt` on one pair -/
theorem T_repeatDocGenFromInt_eq (clone : Go.Doc → String → Go.Doc × Option Err) (hc : CloneSpec clone)
    (doc : Go.Doc) (ec : Go.Ctx) (name : String) (count : Int) :
    RepOut (repeatDocGenFromInt' clone doc ec name count) (.ok (repeatInt name count [(doc.data, ec.vars)])) :=
  repeatDocGenFromInt_on clone doc (hc.on _) ec name count

/-! ## repeatDocGenFromMap -/

/-- the first loop: `$repeat.<name>` := the count of each named dimension -/
theorem fromMap_vars_loop (rs : Fields) (ec : Go.Ctx) :
    (rs.foldl (fun (e : Go.Ctx) (kv : String × Val) => ({ e with vars := fset e.vars ("$repeat." ++ kv.1) kv.2 } : Go.Ctx))
      ec).vars = rs.foldl (fun e (k, v) => fset e ("$repeat." ++ k) v) ec.vars := by
  induction rs generalizing ec with
  | nil => rfl
  | cons kv rs ih => simp only [List.foldl_cons]; rw [ih]

/-- the innermost loop (over the documents made so far, `ecs[i]` being the context of `docs[i]`): every document and
    its context are expanded by repeatDocGenFromInt and the results concatenated -/
theorem fromMap_inner_loop (clone : Go.Doc → String → Go.Doc × Option Err) (x : Val) (hc : CloneOn clone x)
    (name : String) (count : Int) (docs : List Go.Doc) (pre ecs : List Go.Ctx) (hlen : docs.length = ecs.length)
    (hd : ∀ d ∈ docs, d.data = x) (k : Int) (hk : k = Int.ofNat pre.length) (tD : List Go.Doc) (tE : List Go.Ctx)
    (body : Int × Go.Doc → List Go.Doc × List Go.Ctx →
      G (Loop (List Go.Doc × List Go.Ctx) (List Go.Doc × List Go.Ctx × Option Err)))
    (hbody : ∀ i d tD tE, body (i, d) (tD, tE) =
      (match repeatDocGenFromInt' clone d ((pre ++ ecs).getD i.toNat default) name count with
       | .error e => .error e
       | .ok (ds, es, err) =>
         if err != none then .ok (.ret ([], [], err)) else .ok (.next (tD ++ ds, tE ++ es)))) :
    forRange (enumFrom k docs) (tD, tE) body =
      .ok (.inl (tD ++ docs.flatMap (cloneDocs clone name count), tE ++ ecs.flatMap (cloneCtxs name count))) := by
  induction docs generalizing pre ecs k tD tE with
  | nil =>
    cases ecs with
    | nil => simp [enumFrom]
    | cons _ _ => simp at hlen
  | cons d ds ih =>
    cases ecs with
    | nil => simp at hlen
    | cons e es =>
      have hget : (pre ++ e :: es).getD k.toNat default = e := by
        subst hk
        simp
      have hstep : body (k, d) (tD, tE) =
          .ok (.next (tD ++ cloneDocs clone name count d, tE ++ cloneCtxs name count e)) := by
        rw [hbody, hget,
          T_repeatDocGenFromInt_exact clone d e name count (fun s => (hc d s (hd d List.mem_cons_self)).1)]
        rfl
      simp only [enumFrom]
      rw [forRange_cons_next hstep,
        ih (pre ++ [e]) es (by simpa using hlen) (fun d' h => hd d' (List.mem_cons_of_mem _ h)) (k + 1)
          (by subst hk; simp) _ _ (by simpa using hbody)]
      simp

/-- the loop over the named counts, as a recursion: every dimension expands all documents made so far; a count that
    is not an int stops with ErrInvalidRepeat (also when the earlier dimensions left no document) -/
def expandDims (clone : Go.Doc → String → Go.Doc × Option Err) :
    Fields → List Go.Doc → List Go.Ctx → (List Go.Doc × List Go.Ctx) ⊕ (List Go.Doc × List Go.Ctx × Option Err)
  | [], docs, ecs => .inl (docs, ecs)
  | (name, count) :: rs, docs, ecs =>
    match count with
    | .int c => expandDims clone rs (docs.flatMap (cloneDocs clone ("$repeat:" ++ name) c))
        (ecs.flatMap (cloneCtxs ("$repeat:" ++ name) c))
    | _ => .inr ([], [], some Err.invalidRepeat)

theorem flatMap_clone_length (clone : Go.Doc → String → Go.Doc × Option Err) (name : String) (c : Int)
    (docs : List Go.Doc) (ecs : List Go.Ctx) (hlen : docs.length = ecs.length) :
    (docs.flatMap (cloneDocs clone name c)).length = (ecs.flatMap (cloneCtxs name c)).length := by
  induction docs generalizing ecs with
  | nil => cases ecs <;> simp_all
  | cons d ds ih =>
    cases ecs with
    | nil => simp at hlen
    | cons e es =>
      simp only [List.flatMap_cons, List.length_append, cloneDocs_length, cloneCtxs_length]
      rw [ih es (by simpa using hlen)]

theorem flatMap_cloneDocs_on {clone : Go.Doc → String → Go.Doc × Option Err} {x : Val} (hc : CloneOn clone x)
    (name : String) (c : Int) (docs : List Go.Doc) (hd : ∀ d ∈ docs, d.data = x) :
    ∀ d' ∈ docs.flatMap (cloneDocs clone name c), d'.data = x := by
  intro d' hd'
  obtain ⟨d, hdm, hd''⟩ := List.mem_flatMap.1 hd'
  exact cloneDocs_data hc _ c d (hd d hdm) d' hd''

/-- the loop over the named counts (in key order) -/
theorem fromMap_outer_loop (clone : Go.Doc → String → Go.Doc × Option Err) (x : Val) (hc : CloneOn clone x)
    (rs : Fields) (docs : List Go.Doc) (ecs : List Go.Ctx)
    (hlen : docs.length = ecs.length) (hd : ∀ d ∈ docs, d.data = x)
    (body : String × Val → List Go.Doc × List Go.Ctx →
      G (Loop (List Go.Doc × List Go.Ctx) (List Go.Doc × List Go.Ctx × Option Err)))
    (hbody : ∀ name count docs ecs, docs.length = ecs.length → (∀ d ∈ docs, d.data = x) →
      body (name, count) (docs, ecs) = (match count with
        | .int c => .ok (.next (docs.flatMap (cloneDocs clone ("$repeat:" ++ name) c),
                                ecs.flatMap (cloneCtxs ("$repeat:" ++ name) c)))
        | _ => .ok (.ret ([], [], some Err.invalidRepeat)))) :
    forRange rs (docs, ecs) body = .ok (expandDims clone rs docs ecs) := by
  induction rs generalizing docs ecs with
  | nil => rfl
  | cons nc rs ih =>
    obtain ⟨name, count⟩ := nc
    have hb := hbody name count docs ecs hlen hd
    by_cases hcount : ∃ c, count = .int c
    · obtain ⟨c, rfl⟩ := hcount
      simp only [] at hb
      rw [forRange_cons_next hb, ih _ _ (flatMap_clone_length clone _ c docs ecs hlen)
        (flatMap_cloneDocs_on hc _ c docs hd)]
      rfl
    · have hb' : body (name, count) (docs, ecs) = .ok (.ret ([], [], some Err.invalidRepeat)) := by
        rw [hb]; cases count <;> first | rfl | exact absurd ⟨_, rfl⟩ hcount
      rw [forRange_cons_ret hb']
      cases count <;> first | rfl | exact absurd ⟨_, rfl⟩ hcount

/-- one step of the model's fold over the named counts -/
def repeatStepM (pairs : List (Val × Vars)) (nc : String × Val) : R (List (Val × Vars)) :=
  match nc.2 with
  | .int n => pure (repeatInt ("$repeat:" ++ nc.1) n pairs)
  | _ => throw Err.invalidRepeat

theorem repeatGen_map (data : Val) (ec : Vars) (rs : Fields) :
    repeatGen data ec (.map rs) =
      rs.foldlM repeatStepM [(data, rs.foldl (fun e (k, v) => fset e ("$repeat." ++ k) v) ec)] := by
  simp only [repeatGen]
  rfl

/-- `expandDims` is the model's fold of `repeatInt` over the named counts -/
theorem expandDims_spec (clone : Go.Doc → String → Go.Doc × Option Err) (x : Val) (hc : CloneOn clone x)
    (rs : Fields) (docs : List Go.Doc) (ecs : List Go.Ctx) (pairs : List (Val × Vars))
    (hd : ∀ d ∈ docs, d.data = x)
    (h1 : docs.map (·.data) = pairs.map (·.1)) (h2 : ecs.map (·.vars) = pairs.map (·.2)) :
    match rs.foldlM repeatStepM pairs with
    | .ok ps => ∃ docs' ecs', expandDims clone rs docs ecs = .inl (docs', ecs') ∧
        docs'.map (·.data) = ps.map (·.1) ∧ ecs'.map (·.vars) = ps.map (·.2)
    | .error e => expandDims clone rs docs ecs = .inr ([], [], some e) := by
  induction rs generalizing docs ecs pairs with
  | nil => exact ⟨docs, ecs, rfl, h1, h2⟩
  | cons nc rs ih =>
    obtain ⟨name, count⟩ := nc
    by_cases hcount : ∃ c, count = .int c
    · obtain ⟨c, rfl⟩ := hcount
      have hstep : repeatStepM pairs (name, Val.int c) = .ok (repeatInt ("$repeat:" ++ name) c pairs) := rfl
      simp only [List.foldlM_cons, hstep, Bkl.ok_bind, expandDims]
      exact ih _ _ _ (flatMap_cloneDocs_on hc _ c docs hd) (flatMap_cloneDocs_data hc _ c docs hd pairs h1)
        (flatMap_cloneCtxs_vars _ c ecs pairs h2)
    · have hstep : repeatStepM pairs (name, count) = .error Err.invalidRepeat := by
        cases count <;> first | rfl | exact absurd ⟨_, rfl⟩ hcount
      simp only [List.foldlM_cons, hstep, Bkl.error_bind]
      cases count <;> first | rfl | exact absurd ⟨_, rfl⟩ hcount

/-- repeat.go:repeatDocGenFromMap, exactly (ids included): the context gets `$repeat.<name>` := the count of every
    named dimension, then the dimensions are expanded in key order -/
theorem T_repeatDocGenFromMap_exact (clone : Go.Doc → String → Go.Doc × Option Err) (doc : Go.Doc) (ec : Go.Ctx)
    (rs : Fields) (hc : CloneOn clone doc.data) :
    repeatDocGenFromMap' clone doc ec rs = .ok (match expandDims clone rs [doc]
        [rs.foldl (fun (e : Go.Ctx) (kv : String × Val) =>
          ({ e with vars := fset e.vars ("$repeat." ++ kv.1) kv.2 } : Go.Ctx)) ec] with
      | .inl (docs, ecs) => (docs, ecs, none)
      | .inr r => r) := by
  unfold repeatDocGenFromMap'
  simp only [T_EvalContext_Clone_eq]
  rw [forRange_fold (fun (e : Go.Ctx) (kv : String × Val) =>
    ({ e with vars := fset e.vars ("$repeat." ++ kv.1) kv.2 } : Go.Ctx)) rs ec _ (fun _ _ _ => rfl)]
  simp only []
  rw [fromMap_outer_loop clone doc.data hc rs [doc] [_] rfl (by simp)]
  · cases expandDims clone rs [doc] _ with
    | inl p => rfl
    | inr r => rfl
  · intro name count docs ecs hlen hd
    cases count with
    | int c =>
      simp only [asInt, enum, Bool.not_true, Bool.false_eq_true, ↓reduceIte]
      rw [fromMap_inner_loop clone doc.data hc ("$repeat:" ++ name) c docs [] ecs hlen hd 0 rfl [] []]
      · rfl
      · intro i d tD tE
        simp only [List.nil_append]
        first
          | rfl
          | (cases repeatDocGenFromInt' clone d _ ("$repeat:" ++ name) c with
             | error e => rfl
             | ok p => obtain ⟨ds, es, err⟩ := p; cases err <;> rfl)
    | _ => rfl

theorem repeatDocGenFromMap_on (clone : Go.Doc → String → Go.Doc × Option Err) (doc : Go.Doc)
    (hc : CloneOn clone doc.data) (ec : Go.Ctx) (rs : Fields) :
    RepOut (repeatDocGenFromMap' clone doc ec rs) (repeatGen doc.data ec.vars (.map rs)) := by
  rw [T_repeatDocGenFromMap_exact clone doc ec rs hc, repeatGen_map]
  have h := expandDims_spec clone doc.data hc rs [doc]
    [rs.foldl (fun (e : Go.Ctx) (kv : String × Val) =>
      ({ e with vars := fset e.vars ("$repeat." ++ kv.1) kv.2 } : Go.Ctx)) ec]
    [(doc.data, rs.foldl (fun e (k, v) => fset e ("$repeat." ++ k) v) ec.vars)] (by simp) rfl
    (by simp [fromMap_vars_loop])
  revert h
  generalize List.foldlM repeatStepM _ rs = m
  intro h
  cases m with
  | ok ps =>
    obtain ⟨docs', ecs', he, h1, h2⟩ := h
    exact ⟨docs', ecs', by rw [he], h1, h2⟩
  | error e =>
    simp only [] at h
    simp only [RepOut, h]

/-- repeat.go:repeatDocGenFromMap is the model's `repeatGen` on a map of named counts: `$repeat.<name>` := the count of
    every dimension, then the cartesian product in key order; a count that is not an int is ErrInvalidRepeat -/
theorem T_repeatDocGenFromMap_eq (clone : Go.Doc → String → Go.Doc × Option Err) (hc : CloneSpec clone)
    (doc : Go.Doc) (ec : Go.Ctx) (rs : Fields) :
    RepOut (repeatDocGenFromMap' clone doc ec rs) (repeatGen doc.data ec.vars (.map rs)) :=
  repeatDocGenFromMap_on clone doc (hc.on _) ec rs

/-! ## repeatDocGen, repeatDocMap, repeatDocList, repeatDoc -/

theorem repeatDocGen_on (clone : Go.Doc → String → Go.Doc × Option Err) (doc : Go.Doc)
    (hc : CloneOn clone doc.data) (ec : Go.Ctx) (v : Val) :
    RepOut (repeatDocGen' clone doc ec v) (repeatGen doc.data ec.vars v) := by
  unfold repeatDocGen'
  cases v with
  | int n => exact (repeatDocGenFromInt_on clone doc hc ec "$repeat" n).of_eq fun ⟨a, b, c⟩ ht => by simp only [ht]
  | map rs => exact (repeatDocGenFromMap_on clone doc hc ec rs).of_eq fun ⟨a, b, c⟩ ht => by simp only [ht]
  | _ => rfl

/-- repeat.go:repeatDocGen is the model's `repeatGen` -/
theorem T_repeatDocGen_eq (clone : Go.Doc → String → Go.Doc × Option Err) (hc : CloneSpec clone)
    (doc : Go.Doc) (ec : Go.Ctx) (v : Val) :
    RepOut (repeatDocGen' clone doc ec v) (repeatGen doc.data ec.vars v) :=
  repeatDocGen_on clone doc (hc.on _) ec v

theorem repeatDocMap_on (clone : Go.Doc → String → Go.Doc × Option Err) (doc : Go.Doc) (ec : Go.Ctx) (kvs : Fields)
    (hdata : doc.data = .map kvs) (hc : CloneOn clone (.map (fdel kvs "$repeat"))) :
    RepOut (repeatDocMap' clone doc ec kvs) (repeatDoc (.map kvs) ec.vars) := by
  unfold repeatDocMap'
  rw [popMapValue_eq_match]
  simp only [repeatDoc]
  cases fget kvs "$repeat" with
  | none => exact ⟨[doc], [ec], rfl, by simp [hdata], rfl⟩
  | some v =>
    exact (repeatDocGen_on clone { doc with data := .map (fdel kvs "$repeat") } hc ec v).of_eq
      fun ⟨a, b, c⟩ ht => by simp only [ht, ↓reduceIte]

/-- repeat.go:repeatDocMap (called with `data = doc.Data`) is the model's `repeatDoc` on a map -/
theorem T_repeatDocMap_eq (clone : Go.Doc → String → Go.Doc × Option Err) (hc : CloneSpec clone)
    (doc : Go.Doc) (ec : Go.Ctx) (kvs : Fields) (hdata : doc.data = .map kvs) :
    RepOut (repeatDocMap' clone doc ec kvs) (repeatDoc (.map kvs) ec.vars) :=
  repeatDocMap_on clone doc ec kvs hdata (hc.on _)

theorem repeatDocList_on (clone : Go.Doc → String → Go.Doc × Option Err) (doc : Go.Doc) (ec : Go.Ctx) (xs : List Val)
    (hdata : doc.data = .list xs)
    (hc : ∀ v rest, popListMapValue xs "$repeat" = .ok (v, rest) → CloneOn clone (.list rest)) :
    RepOut (repeatDocList' clone doc ec xs) (repeatDoc (.list xs) ec.vars) := by
  unfold repeatDocList'
  rw [T_popListMapValue_eq]
  simp only [repeatDoc]
  cases h : popListMapValue xs "$repeat" with
  | error e => rfl
  | ok p =>
    obtain ⟨v, rest⟩ := p
    simp only [Bkl.ok_bind, beq_null_eq_isNull]
    by_cases hv : v.isNull = true
    · simp only [hv]
      exact ⟨[doc], [ec], rfl, by simp [hdata], rfl⟩
    · simp only [hv]
      exact (repeatDocGen_on clone { doc with data := .list rest } (hc v rest h) ec v).of_eq
        fun ⟨a, b, c⟩ ht => by simp [ht]

/-- repeat.go:repeatDocList (called with `data = doc.Data`) is the model's `repeatDoc` on a list -/
theorem T_repeatDocList_eq (clone : Go.Doc → String → Go.Doc × Option Err) (hc : CloneSpec clone)
    (doc : Go.Doc) (ec : Go.Ctx) (xs : List Val) (hdata : doc.data = .list xs) :
    RepOut (repeatDocList' clone doc ec xs) (repeatDoc (.list xs) ec.vars) :=
  repeatDocList_on clone doc ec xs hdata (fun _ _ _ => hc.on _)

/-- repeat.go:repeatDoc is the model's `repeatDoc` -/
theorem T_repeatDoc_eq (clone : Go.Doc → String → Go.Doc × Option Err) (hc : CloneSpec clone)
    (doc : Go.Doc) (ec : Go.Ctx) :
    RepOut (repeatDoc' clone doc ec) (repeatDoc doc.data ec.vars) := by
  unfold repeatDoc'
  cases h : doc.data with
  | map kvs => exact (T_repeatDocMap_eq clone hc doc ec kvs h).of_eq fun ⟨a, b, c⟩ ht => by simp only [ht]
  | list xs => exact (T_repeatDocList_eq clone hc doc ec xs h).of_eq fun ⟨a, b, c⟩ ht => by simp only [ht]
  | _ => exact ⟨[doc], [ec], rfl, by simp [h], rfl⟩

/-! ## the real `Document.Clone` deep-clones: the statement for well-formed documents -/

theorem popValueEntry_mem {k : String} {x ret : Val} {r : List Val} {s' : Val}
    (h : popValueEntry k x ret = .ok (r, s')) : ∀ y ∈ r, y = x := by
  intro y hy
  cases x with
  | map m =>
    simp only [popValueEntry] at h
    split at h
    · cases h; simpa using hy
    · split at h
      · split at h
        · cases h
        · cases h; cases hy
      · cases h; simpa using hy
  | _ => simp only [popValueEntry] at h; cases h; simpa using hy

theorem foldStepR_popValueEntry_mem (k : String) (l : List Val) (ret : Val) (acc : List Val) (v : Val)
    (rest : List Val) (h : l.foldlM (foldStepR (popValueEntry k)) (ret, acc) = .ok (v, rest)) :
    ∀ y ∈ rest, y ∈ acc ∨ y ∈ l := by
  induction l generalizing ret acc with
  | nil =>
    cases h
    intro y hy; exact .inl hy
  | cons x xs ih =>
    rw [List.foldlM_cons] at h
    cases hs : popValueEntry k x ret with
    | error e => simp only [foldStepR, hs] at h; cases h
    | ok p =>
      obtain ⟨r, s'⟩ := p
      simp only [foldStepR, hs, Bkl.ok_bind] at h
      intro y hy
      rcases ih _ _ h y hy with h' | h'
      · rcases List.mem_append.1 h' with h'' | h''
        · exact .inl h''
        · exact .inr (by rw [popValueEntry_mem hs y h'']; exact List.mem_cons_self)
      · exact .inr (List.mem_cons_of_mem _ h')

/-- what `popListMapValue` keeps are entries of the list -/
theorem popListMapValue_rest_mem {l : List Val} {k : String} {v : Val} {rest : List Val}
    (h : popListMapValue l k = .ok (v, rest)) : ∀ y ∈ rest, y ∈ l := by
  rw [popListMapValue_eq_foldStepR] at h
  intro y hy
  rcases foldStepR_popValueEntry_mem k l _ _ v rest h y hy with h' | h'
  · cases h'
  · exact h'

/-- repeat.go:repeatDoc with a `Clone` that deep-clones, on a well-formed document: the model's `repeatDoc` -/
theorem T_repeatDoc_eq_norm (clone : Go.Doc → String → Go.Doc × Option Err) (hc : CloneNorm clone)
    (doc : Go.Doc) (ec : Go.Ctx) (hwf : Val.WF doc.data) :
    RepOut (repeatDoc' clone doc ec) (repeatDoc doc.data ec.vars) := by
  unfold repeatDoc'
  cases h : doc.data with
  | map kvs =>
    rw [h] at hwf
    exact (repeatDocMap_on clone doc ec kvs h (hc.on (wf_fdel hwf))).of_eq fun ⟨a, b, c⟩ ht => by simp only [ht]
  | list xs =>
    rw [h] at hwf
    refine (repeatDocList_on clone doc ec xs h fun v rest hp => hc.on ?_).of_eq
      fun ⟨a, b, c⟩ ht => by simp only [ht]
    exact wf_list_iff.2 fun y hy => wf_list_iff.1 hwf y (popListMapValue_rest_mem hp y hy)
  | _ => exact ⟨[doc], [ec], rfl, by simp [h], rfl⟩

/-! ## examples; the hypotheses are needed -/

/-- a `Clone` like the real one: new id, deep-cloned data -/
def cloneEx (d : Go.Doc) (s : String) : Go.Doc × Option Err :=
  ({ d with id := d.id ++ "|" ++ s, data := Val.norm d.data }, none)

/-- a `Clone` that keeps the data as it is -/
def cloneId (d : Go.Doc) (s : String) : Go.Doc × Option Err := ({ d with id := d.id ++ "|" ++ s }, none)

example : CloneNorm cloneEx := fun _ _ => ⟨rfl, rfl⟩
example : CloneSpec cloneId := fun _ _ => ⟨rfl, rfl⟩

def docEx : Go.Doc :=
  { id := "d", parents := "", data := .map [("$repeat", .map [("a", .int 2), ("b", .int 1)]), ("x", .int 7)] }

example : Val.WF docEx.data := by decide

/-- `{$repeat: {a: 2, b: 1}, x: 7}`: two documents; each context has the counts `$repeat.a`, `$repeat.b` and the
    indices `$repeat:a`, `$repeat:b` -/
example : repeatDoc docEx.data [] = .ok
    [(.map [("x", .int 7)],
        [("$repeat.a", .int 2), ("$repeat.b", .int 1), ("$repeat:a", .int 0), ("$repeat:b", .int 0)]),
     (.map [("x", .int 7)],
        [("$repeat.a", .int 2), ("$repeat.b", .int 1), ("$repeat:a", .int 1), ("$repeat:b", .int 0)])] := by
  rfl

/-- the translated function on the same document: the ids the clones get (`Document.Clone` appends `|suffix`) -/
example : (repeatDoc' cloneId docEx { vars := [] }).map (fun r => r.1.map (·.id)) =
    .ok ["d|$repeat:a=0|$repeat:b=0", "d|$repeat:a=1|$repeat:b=0"] := by rfl

/-- a negative count gives no document; a later count that is not an int is an error all the same -/
example : repeatDoc (.map [("$repeat", .map [("a", .int (-1)), ("b", .str "x")])]) [] = .error Err.invalidRepeat := by
  rfl
example : repeatDoc (.map [("$repeat", .int (-3))]) [] = .ok [] := by rfl

/-- a `Clone` that fails: the translation returns its error, the model (which has no `Clone`) succeeds -/
theorem cloneSpec_needed_err :
    let clone : Go.Doc → String → Go.Doc × Option Err := fun d _ => (d, some Err.other)
    let doc : Go.Doc := { id := "d", parents := "", data := .map [("$repeat", .int 1)] }
    ¬ RepOut (repeatDoc' clone doc { vars := [] }) (repeatDoc doc.data []) := by
  intro clone doc h
  have hm : repeatDoc doc.data [] = .ok [(.map [], [("$repeat", .int 0)])] := by rfl
  rw [hm] at h
  obtain ⟨docs, ecs, he, _, _⟩ := h
  have ht : repeatDoc' clone doc { vars := [] } = .ok ([], [], some Err.other) := by
    unfold repeatDoc'
    simp only [doc]
    unfold repeatDocMap'
    rw [popMapValue_eq_match]
    have : fget [("$repeat", Val.int 1)] "$repeat" = some (.int 1) := by decide
    simp only [this, ↓reduceIte]
    unfold repeatDocGen'
    simp only []
    rw [T_repeatDocGenFromInt_cloneErr clone _ _ "$repeat" 1 0 Err.other (by decide) (by intro i hi; cases hi) rfl]
  rw [ht] at he
  cases he

/-- a `Clone` that changes the data: the documents differ from the model's -/
theorem cloneSpec_needed_data :
    let clone : Go.Doc → String → Go.Doc × Option Err := fun d _ => ({ d with data := .null }, none)
    let doc : Go.Doc := { id := "d", parents := "", data := .map [("$repeat", .int 1)] }
    ¬ RepOut (repeatDoc' clone doc { vars := [] }) (repeatDoc doc.data []) := by
  intro clone doc h
  have hm : repeatDoc doc.data [] = .ok [(.map [], [("$repeat", .int 0)])] := by rfl
  rw [hm] at h
  obtain ⟨docs, ecs, he, hd, _⟩ := h
  have ht : repeatDoc' clone doc { vars := [] } =
      .ok ([{ id := "d", parents := "", data := .null }], [{ vars := [("$repeat", .int 0)] }], none) := by
    unfold repeatDoc'
    simp only [doc]
    unfold repeatDocMap'
    rw [popMapValue_eq_match]
    have : fget [("$repeat", Val.int 1)] "$repeat" = some (.int 1) := by decide
    simp only [this, ↓reduceIte]
    unfold repeatDocGen'
    simp only []
    rw [T_repeatDocGenFromInt_exact clone _ _ "$repeat" 1 (fun _ => rfl)]
    rfl
  rw [ht] at he
  cases he
  simp at hd

/-- with a deep-cloning `Clone` the document must be well-formed: an unsorted inner map comes back sorted -/
theorem wf_needed_norm :
    let doc : Go.Doc :=
      { id := "d", parents := "", data := .map [("$repeat", .int 1), ("x", .map [("b", .int 1), ("a", .int 2)])] }
    ¬ Val.WF doc.data ∧ ¬ RepOut (repeatDoc' cloneEx doc { vars := [] }) (repeatDoc doc.data []) := by
  intro doc
  refine ⟨by decide, fun h => ?_⟩
  have hm : repeatDoc doc.data [] =
      .ok [(.map [("x", .map [("b", .int 1), ("a", .int 2)])], [("$repeat", .int 0)])] := by rfl
  rw [hm] at h
  obtain ⟨docs, ecs, he, hd, _⟩ := h
  have ht : ∃ i, repeatDoc' cloneEx doc { vars := [] } =
      .ok ([{ id := i, parents := "", data := .map [("x", .map [("a", .int 2), ("b", .int 1)])] }],
        [{ vars := [("$repeat", .int 0)] }], none) := by
    refine ⟨"d" ++ "|" ++ ("$repeat" ++ "=" ++ toString (Int.ofNat 0)), ?_⟩
    unfold repeatDoc'
    simp only [doc]
    unfold repeatDocMap'
    rw [popMapValue_eq_match]
    have : fget [("$repeat", Val.int 1), ("x", .map [("b", .int 1), ("a", .int 2)])] "$repeat" = some (.int 1) := by
      decide
    simp only [this, ↓reduceIte]
    unfold repeatDocGen'
    simp only []
    rw [T_repeatDocGenFromInt_exact cloneEx _ _ "$repeat" 1 (fun _ => rfl)]
    have hn : Val.norm (.map (fdel [("$repeat", Val.int 1), ("x", .map [("b", .int 1), ("a", .int 2)])] "$repeat")) =
        .map [("x", .map [("a", .int 2), ("b", .int 1)])] := by decide
    simp only [cloneDocs, cloneCtxs, intRange, cloneEx, hn]
    rfl
  obtain ⟨i, ht⟩ := ht
  rw [ht] at he
  cases he
  simp at hd

/-- repeatDocMap / repeatDocList are called with `data = doc.Data`; otherwise a document without `$repeat` is returned
    as it is, whatever `data` is -/
example : repeatDocMap' cloneId { id := "d", parents := "", data := .null } { vars := [] } [("x", .int 1)] =
    .ok ([{ id := "d", parents := "", data := .null }], [{ vars := [] }], none) := by
  unfold repeatDocMap'; rw [popMapValue_eq_match]; rfl

end Bkl.Gen.Lib
