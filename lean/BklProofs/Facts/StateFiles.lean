/- Fact obligations F12 / F13, slice StateFiles (table and explanation: BklProofs/Facts/State.lean). -/
import BklProofs.Facts.State
namespace Bkl

/-- F12, file side: a file being loaded holds its path, its child chain and its documents (C03, C09, C18) -/
theorem F12_no_hidden_state_files :
    fieldsOfTypes ["file"] Facts.structFields = fieldsOfTypes ["file"] (expectedStructFields.map (·.1)) := by decide

end Bkl
