/-
  Source-level laws for the phase-2 evaluator (process2.go): property theorems of the model (C13 interpolation and
  `$env`, C12 nested `$repeat`, C06 plain data) composed with the translation-equivalence theorems of
  TransProcess2String / TransProcess2, i.e. stated directly about the Lean functions generated from the CURRENT Go
  source (Generated/Trans/Process2.lean): `process2String'` and `process2'`.  Corollaries only.

  Conventions (see TransProcess2.lean): `ms us gf nz yu` are the third-party parameters of the translated functions
  (Format.MarshalStream, Format.UnmarshalStream, bkl.GetFormat, normalize, yaml.Unmarshal); only `GetFormatSpec gf` and
  `ParseOK yu` are assumed.  `mf` = the referencing document (`mergeFrom`), `docs` = the stream (`mergeFromDocs`), all
  non-nil and well-formed; `ec : Go.Ctx` = the evaluation context, `ec.vars` its variables.  `d : Int` is Go's `depth`
  argument: process2 at Go depth `d` is the model with fuel `1000 - d`, process2String with fuel `1001 - d`.
  For `process2'` the laws hold for all translator fuel above a bound that exists (`∃ N, ∀ fuel ≥ N`); for
  `process2String'` the bound is the explicit `p2sFuel`.
-/
import BklProofs.C06
import BklProofs.C12
import BklProofs.C13
import BklProofs.Facts.TransProcess2
import BklProofs.Facts.SourceC06
namespace Bkl.Gen
open Bkl Go

/-! # C13 — interpolation and `$env`, on `process2String'` / `process2'` -/

section
variable (yu : String → Val × Option Err)

/-- composition helper: a value of the model's `process2String` is the value of the translated function -/
theorem sc13_process2String_of_model_ok (hyu : Lib.ParseOK yu) (mf : Go.Doc) (docs : List Go.Doc) (ec : Go.Ctx)
    (hnil : ∀ d ∈ docs, d.isNil = false) (hwf : Val.WF mf.data) (hwfs : ∀ d ∈ docs, Val.WF d.data)
    (s : String) (d : Int) (fuel : Nat) (hf : Lib.p2sFuel mf docs ec s d ≤ fuel) (v : Val)
    (h : process2String (1001 - d).toNat (docs.map (·.data)) mf.data ec.vars s = .ok v) :
    Lib.process2String' yu fuel s mf docs ec d = .ok (v, none) := by
  rw [Lib.T_process2String_eq yu hyu mf docs ec hnil hwf hwfs s d fuel hf (by rw [h]; intro h'; cases h'), h]
  rfl

/-- … and an error class of the model other than `unmodelled` is returned as `(nil, that error)` -/
theorem sc13_process2String_of_model_error (hyu : Lib.ParseOK yu) (mf : Go.Doc) (docs : List Go.Doc) (ec : Go.Ctx)
    (hnil : ∀ d ∈ docs, d.isNil = false) (hwf : Val.WF mf.data) (hwfs : ∀ d ∈ docs, Val.WF d.data)
    (s : String) (d : Int) (fuel : Nat) (hf : Lib.p2sFuel mf docs ec s d ≤ fuel) (e : Err)
    (he : e ≠ Err.unmodelled)
    (h : process2String (1001 - d).toNat (docs.map (·.data)) mf.data ec.vars s = .error e) :
    Lib.process2String' yu fuel s mf docs ec d = .ok (.null, some e) := by
  rw [Lib.T_process2String_eq yu hyu mf docs ec hnil hwf hwfs s d fuel hf
    (by rw [h]; intro h'; cases h'; exact he rfl), h]
  rfl

/-- **`$env:NAME` set** (`C13_env_bound`): a whole-string `$env:NAME` evaluates to exactly the value bound to the
    variable, no error — at every Go depth (a `$env:` string is never handed to process2StringInterp) -/
theorem S_C13_env_bound (hyu : Lib.ParseOK yu) (mf : Go.Doc) (docs : List Go.Doc) (ec : Go.Ctx)
    (hnil : ∀ d ∈ docs, d.isNil = false) (hwf : Val.WF mf.data) (hwfs : ∀ d ∈ docs, Val.WF d.data)
    (name : String) (v : Val) (d : Int) (fuel : Nat)
    (hf : Lib.p2sFuel mf docs ec ("$env:" ++ name) d ≤ fuel)
    (h : fget ec.vars ("$env:" ++ name) = some v) :
    Lib.process2String' yu fuel ("$env:" ++ name) mf docs ec d = .ok (v, none) :=
  sc13_process2String_of_model_ok yu hyu mf docs ec hnil hwf hwfs _ d fuel hf v
    (C13_env_bound _ _ _ _ name v h)

/-- **`$env:NAME` unset** (`C13_env_unbound`): `(nil, ErrVariableNotFound)` — never an empty string -/
theorem S_C13_env_unbound (hyu : Lib.ParseOK yu) (mf : Go.Doc) (docs : List Go.Doc) (ec : Go.Ctx)
    (hnil : ∀ d ∈ docs, d.isNil = false) (hwf : Val.WF mf.data) (hwfs : ∀ d ∈ docs, Val.WF d.data)
    (name : String) (d : Int) (fuel : Nat)
    (hf : Lib.p2sFuel mf docs ec ("$env:" ++ name) d ≤ fuel)
    (h : fget ec.vars ("$env:" ++ name) = none) :
    Lib.process2String' yu fuel ("$env:" ++ name) mf docs ec d = .ok (.null, some Err.variableNotFound) :=
  sc13_process2String_of_model_error yu hyu mf docs ec hnil hwf hwfs _ d fuel hf _ (by decide)
    (C13_env_unbound _ _ _ _ name h)

/-- **`$env:NAME` is a string or an error** (`C13_env_is_string`): in a well-formed environment (`envWF`: every
    `$env:` variable is bound to a string, as evalcontext.go builds it) the translated process2String returns a string
    and no error, or `(nil, ErrVariableNotFound)` -/
theorem S_C13_env_is_string (hyu : Lib.ParseOK yu) (mf : Go.Doc) (docs : List Go.Doc) (ec : Go.Ctx)
    (hnil : ∀ d ∈ docs, d.isNil = false) (hwf : Val.WF mf.data) (hwfs : ∀ d ∈ docs, Val.WF d.data)
    (name : String) (d : Int) (fuel : Nat)
    (hf : Lib.p2sFuel mf docs ec ("$env:" ++ name) d ≤ fuel) (henv : envWF ec.vars) :
    (∃ s, Lib.process2String' yu fuel ("$env:" ++ name) mf docs ec d = .ok (.str s, none)) ∨
    Lib.process2String' yu fuel ("$env:" ++ name) mf docs ec d = .ok (.null, some Err.variableNotFound) := by
  rcases C13_env_is_string (1001 - d).toNat (docs.map (·.data)) mf.data ec.vars name henv with ⟨s, hs⟩ | hn
  · exact .inl ⟨s, sc13_process2String_of_model_ok yu hyu mf docs ec hnil hwf hwfs _ d fuel hf _ hs⟩
  · exact .inr (sc13_process2String_of_model_error yu hyu mf docs ec hnil hwf hwfs _ d fuel hf _ (by decide) hn)

/-- **the value of the environment entry, verbatim** (`C13_env_value_keeps_equals`): with the variables built from
    `os.Environ() = [name=value]` (`envOfEnviron`), `$env:name` evaluates to the string `value` exactly — further
    `=` signs stay, nothing is parsed -/
theorem S_C13_env_value_verbatim (hyu : Lib.ParseOK yu) (mf : Go.Doc) (docs : List Go.Doc)
    (hnil : ∀ d ∈ docs, d.isNil = false) (hwf : Val.WF mf.data) (hwfs : ∀ d ∈ docs, Val.WF d.data)
    (name value : String) (hn : '=' ∉ name.toList) (d : Int) (fuel : Nat)
    (hf : Lib.p2sFuel mf docs ⟨envOfEnviron [name ++ "=" ++ value]⟩ ("$env:" ++ name) d ≤ fuel) :
    Lib.process2String' yu fuel ("$env:" ++ name) mf docs ⟨envOfEnviron [name ++ "=" ++ value]⟩ d
      = .ok (.str value, none) :=
  sc13_process2String_of_model_ok yu hyu mf docs _ hnil hwf hwfs _ d fuel hf _
    ((C13_env_value_keeps_equals name value hn).2.2 _ _ _)

/-- **strings that are left alone** (`C13_plain_string_untouched`): not of the form `$"…"`, not `$env:…`, not
    `$repeat` -/
theorem S_C13_plain_string_untouched (hyu : Lib.ParseOK yu) (mf : Go.Doc) (docs : List Go.Doc) (ec : Go.Ctx)
    (hnil : ∀ d ∈ docs, d.isNil = false) (hwf : Val.WF mf.data) (hwfs : ∀ d ∈ docs, Val.WF d.data)
    (s : String) (d : Int) (fuel : Nat) (hf : Lib.p2sFuel mf docs ec s d ≤ fuel)
    (h1 : interpBody s = none) (h2 : s.startsWith "$env:" = false) (h3 : s ≠ "$repeat") :
    Lib.process2String' yu fuel s mf docs ec d = .ok (.str s, none) :=
  sc13_process2String_of_model_ok yu hyu mf docs ec hnil hwf hwfs _ d fuel hf _
    (C13_plain_string_untouched _ _ _ _ s h1 h2 h3)

/-- the model fuel at Go depth `d ≤ 1000` is a successor -/
theorem sc13_fuel_succ_of_le {d : Int} (hd : d ≤ 1000) : (1001 - d).toNat = (1000 - d).toNat + 1 := by omega

/-- **interpolation is the explicit specification** (`C13_interp_spec`): on `$"body"`, at a Go depth that still
    interpolates (`d ≤ 1000`), the translated process2String returns `interpSpec` on the scanned body — each literal
    copied, each `{r}` replaced by `%v` of the referenced value (after one more pass at depth `d + 1` when that is a
    string), concatenated; an error of the specification is returned as `(nil, error)` -/
theorem S_C13_interp_spec (hyu : Lib.ParseOK yu) (mf : Go.Doc) (docs : List Go.Doc) (ec : Go.Ctx)
    (hnil : ∀ d ∈ docs, d.isNil = false) (hwf : Val.WF mf.data) (hwfs : ∀ d ∈ docs, Val.WF d.data)
    (s : String) (body : List Char) (hb : interpBody s = some body) (d : Int) (hd : d ≤ 1000) (fuel : Nat)
    (hf : Lib.p2sFuel mf docs ec s d ≤ fuel)
    (hmod : interpSpec (1000 - d).toNat (docs.map (·.data)) mf.data ec.vars (interpSegs body)
      ≠ .error Err.unmodelled) :
    Lib.process2String' yu fuel s mf docs ec d =
      .ok (Lib.valRes (interpSpec (1000 - d).toNat (docs.map (·.data)) mf.data ec.vars (interpSegs body))) := by
  have hm := C13_interp_spec (1000 - d).toNat (docs.map (·.data)) mf.data ec.vars s body hb
  rw [← sc13_fuel_succ_of_le hd] at hm
  rw [Lib.T_process2String_eq yu hyu mf docs ec hnil hwf hwfs s d fuel hf (by rw [hm]; exact hmod), hm]

/-- **a template evaluates to the concatenation** (`C13_nested_value`): when every reference `{r}` of the template
    resolves (`getWithVar`) to a value `v` that is either not a string (then `ev r = v`, formatted as it is) or a
    string whose own evaluation one level deeper gives `ev r`, the translated process2String returns, with no error,
    the literals and the `%v` texts of the `ev r` concatenated in order — character for character -/
theorem S_C13_nested_value (hyu : Lib.ParseOK yu) (mf : Go.Doc) (docs : List Go.Doc) (ec : Go.Ctx)
    (hnil : ∀ d ∈ docs, d.isNil = false) (hwf : Val.WF mf.data) (hwfs : ∀ d ∈ docs, Val.WF d.data)
    (s : String) (body : List Char) (hb : interpBody s = some body) (d : Int) (hd : d ≤ 1000) (fuel : Nat)
    (hf : Lib.p2sFuel mf docs ec s d ≤ fuel) (ev : List Char → Val)
    (h : ∀ r, Seg.ref r ∈ interpSegs body →
      ∃ v, getWithVar mf.data (docs.map (·.data)) ec.vars (String.ofList r) = .ok v ∧
        (((∀ s2, v ≠ .str s2) ∧ ev r = v) ∨
          ∃ s2, v = .str s2 ∧
            process2String (1000 - d).toNat (docs.map (·.data)) mf.data ec.vars s2 = .ok (ev r))) :
    Lib.process2String' yu fuel s mf docs ec d =
      .ok (.str (String.join ((interpSegs body).map (cx_substSeg ev))), none) ∧
    (String.join ((interpSegs body).map (cx_substSeg ev))).toList =
      (interpSegs body).flatMap (substSegChars ev) := by
  obtain ⟨h1, h2⟩ := C13_nested_value (1000 - d).toNat (docs.map (·.data)) mf.data ec.vars s body hb ev h
  rw [← sc13_fuel_succ_of_le hd] at h1
  exact ⟨sc13_process2String_of_model_ok yu hyu mf docs ec hnil hwf hwfs _ d fuel hf _ h1, h2⟩

/-- **substituted text is not rescanned** (`C13_no_rescan`): when every reference resolves to a string `sv r` that is
    not itself a directive string (`inertStr`; otherwise arbitrary — braces, `{b}`, quotes …), the result is exactly
    the literals and the `sv r` in order -/
theorem S_C13_no_rescan (hyu : Lib.ParseOK yu) (mf : Go.Doc) (docs : List Go.Doc) (ec : Go.Ctx)
    (hnil : ∀ d ∈ docs, d.isNil = false) (hwf : Val.WF mf.data) (hwfs : ∀ d ∈ docs, Val.WF d.data)
    (s : String) (body : List Char) (hb : interpBody s = some body) (d : Int) (hd : d ≤ 1000) (fuel : Nat)
    (hf : Lib.p2sFuel mf docs ec s d ≤ fuel) (sv : List Char → String)
    (h : ∀ r, Seg.ref r ∈ interpSegs body →
      getWithVar mf.data (docs.map (·.data)) ec.vars (String.ofList r) = .ok (.str (sv r)) ∧ inertStr (sv r)) :
    ∃ t, Lib.process2String' yu fuel s mf docs ec d = .ok (.str t, none) ∧
      t.toList = (interpSegs body).flatMap (substStrChars sv) := by
  obtain ⟨t, h1, h2⟩ := C13_no_rescan (1000 - d).toNat (docs.map (·.data)) mf.data ec.vars s body hb sv h
  rw [← sc13_fuel_succ_of_le hd] at h1
  exact ⟨t, sc13_process2String_of_model_ok yu hyu mf docs ec hnil hwf hwfs _ d fuel hf _ h1, h2⟩

/-- **a missing reference is an error, never an empty substitution** (`C13_missing_is_error`): if some reference of
    the template cannot be resolved, the translated process2String returns `nil` and an error (no string at all);
    `hmod`: the model does not stop at a reference outside the sub-language it reads -/
theorem S_C13_missing_is_error (hyu : Lib.ParseOK yu) (mf : Go.Doc) (docs : List Go.Doc) (ec : Go.Ctx)
    (hnil : ∀ d ∈ docs, d.isNil = false) (hwf : Val.WF mf.data) (hwfs : ∀ d ∈ docs, Val.WF d.data)
    (s : String) (body : List Char) (hb : interpBody s = some body) (d : Int) (hd : d ≤ 1000) (fuel : Nat)
    (hf : Lib.p2sFuel mf docs ec s d ≤ fuel) (r : List Char) (e : Err)
    (hr : Seg.ref r ∈ interpSegs body)
    (he : getWithVar mf.data (docs.map (·.data)) ec.vars (String.ofList r) = .error e)
    (hmod : process2String (1001 - d).toNat (docs.map (·.data)) mf.data ec.vars s ≠ .error Err.unmodelled) :
    ∃ e', Lib.process2String' yu fuel s mf docs ec d = .ok (.null, some e') := by
  obtain ⟨e', h⟩ := C13_missing_is_error (1000 - d).toNat (docs.map (·.data)) mf.data ec.vars s body hb r e hr he
  rw [← sc13_fuel_succ_of_le hd] at h
  exact ⟨e', sc13_process2String_of_model_error yu hyu mf docs ec hnil hwf hwfs _ d fuel hf e'
    (fun hu => hmod (by rw [h, hu])) h⟩

/-- … and for a template whose ONLY segment is the unresolvable reference `{r}` (readable, `parseRef r ≠ none`) the
    error is ErrVariableNotFound (`C13_getWithVar_error`) -/
theorem S_C13_missing_single (hyu : Lib.ParseOK yu) (mf : Go.Doc) (docs : List Go.Doc) (ec : Go.Ctx)
    (hnil : ∀ d ∈ docs, d.isNil = false) (hwf : Val.WF mf.data) (hwfs : ∀ d ∈ docs, Val.WF d.data)
    (s : String) (body : List Char) (hb : interpBody s = some body) (d : Int) (hd : d ≤ 1000) (fuel : Nat)
    (hf : Lib.p2sFuel mf docs ec s d ≤ fuel) (r : List Char) (e : Err)
    (hsegs : interpSegs body = [Seg.ref r]) (hu : e ≠ Err.unmodelled)
    (he : getWithVar mf.data (docs.map (·.data)) ec.vars (String.ofList r) = .error e) :
    Lib.process2String' yu fuel s mf docs ec d = .ok (.null, some Err.variableNotFound) := by
  obtain ⟨_, _, rfl⟩ := C13_getWithVar_error _ _ _ _ e he hu
  have hm := C13_interp_spec (1000 - d).toNat (docs.map (·.data)) mf.data ec.vars s body hb
  rw [← sc13_fuel_succ_of_le hd, hsegs] at hm
  have : interpSpec (1000 - d).toNat (docs.map (·.data)) mf.data ec.vars [Seg.ref r]
      = .error Err.variableNotFound := by
    simp [interpSpec, interpSeg, he]
  rw [this] at hm
  exact sc13_process2String_of_model_error yu hyu mf docs ec hnil hwf hwfs _ d fuel hf _ (by decide) hm

/-- **past the depth budget** (`C13_interp_no_fuel`): at Go depth `d > 1000` an interpolation string is
    `(nil, ErrCircularRef)` — it is never returned unevaluated -/
theorem S_C13_interp_no_fuel (hyu : Lib.ParseOK yu) (mf : Go.Doc) (docs : List Go.Doc) (ec : Go.Ctx)
    (hnil : ∀ d ∈ docs, d.isNil = false) (hwf : Val.WF mf.data) (hwfs : ∀ d ∈ docs, Val.WF d.data)
    (s : String) (body : List Char) (hb : interpBody s = some body) (d : Int) (hd : 1000 < d) (fuel : Nat)
    (hf : Lib.p2sFuel mf docs ec s d ≤ fuel) :
    Lib.process2String' yu fuel s mf docs ec d = .ok (.null, some Err.circularRef) := by
  have h0 : (1001 - d).toNat = 0 := by omega
  have hm := C13_interp_no_fuel (docs.map (·.data)) mf.data ec.vars s body hb
  rw [← h0] at hm
  exact sc13_process2String_of_model_error yu hyu mf docs ec hnil hwf hwfs _ d fuel hf _ (by decide) hm

end

/-! ## non-vacuity (C13) -/

/-- `S_C13_env_bound` / `S_C13_env_unbound` with a concrete YAML reader, document and context -/
example : Lib.process2String' Lib.yamlModel
      (Lib.p2sFuel Lib.exDocC [] ⟨[("$env:HOME", .str "/root")]⟩ ("$env:" ++ "HOME") 0) ("$env:" ++ "HOME")
      Lib.exDocC [] ⟨[("$env:HOME", .str "/root")]⟩ 0 = .ok (.str "/root", none) :=
  S_C13_env_bound Lib.yamlModel Lib.yamlModel_ok Lib.exDocC [] _ (by simp) (by decide) (by simp)
    "HOME" _ 0 _ (Nat.le_refl _) (by decide)

example : Lib.process2String' Lib.yamlModel
      (Lib.p2sFuel Lib.exDocC [] ⟨[("$env:HOME", .str "/root")]⟩ ("$env:" ++ "USER") 0) ("$env:" ++ "USER")
      Lib.exDocC [] ⟨[("$env:HOME", .str "/root")]⟩ 0 = .ok (.null, some Err.variableNotFound) :=
  S_C13_env_unbound Lib.yamlModel Lib.yamlModel_ok Lib.exDocC [] _ (by simp) (by decide) (by simp)
    "USER" 0 _ (Nat.le_refl _) (by decide)

/-- `S_C13_nested_value` on the template `$"x={a}!"` in the document `{a: 1}` -/
example : Lib.process2String' Lib.yamlModel (Lib.p2sFuel Lib.exDocC [] ⟨[]⟩ "$\"x={a}!\"" 3) "$\"x={a}!\""
      Lib.exDocC [] ⟨[]⟩ 3 = .ok (.str "x=1!", none) := by
  have hsegs : interpSegs "x={a}!".toList = [.lit "x=".toList, .ref "a".toList, .lit "!".toList] := by decide
  obtain ⟨h1, -⟩ := S_C13_nested_value Lib.yamlModel Lib.yamlModel_ok Lib.exDocC [] ⟨[]⟩ (by simp) (by decide)
    (by simp) "$\"x={a}!\"" "x={a}!".toList (by decide) 3 (by decide) _ (Nat.le_refl _) (fun _ => .int 1)
    (by
      rw [hsegs]
      intro r hr
      simp only [List.mem_cons, Seg.ref.injEq, List.mem_nil_iff, or_false, reduceCtorEq, false_or] at hr
      subst hr
      exact ⟨.int 1, C13_ref_simple_key _ _ _ _ _ (by simpa using isPlainRef_a) (by decide) (by decide),
        .inl ⟨fun _ h => (by cases h), rfl⟩⟩)
  rw [h1, hsegs]
  exact congrArg Except.ok (congrArg (fun s => (Val.str s, (none : Option Err))) (by decide))

/-- `S_C13_missing_single`: `$"{b}"` in the document `{a: 1}` with no variables -/
example : Lib.process2String' Lib.yamlModel (Lib.p2sFuel Lib.exDocC [] ⟨[]⟩ "$\"{b}\"" 3) "$\"{b}\""
      Lib.exDocC [] ⟨[]⟩ 3 = .ok (.null, some Err.variableNotFound) := by
  refine S_C13_missing_single Lib.yamlModel Lib.yamlModel_ok Lib.exDocC [] ⟨[]⟩ (by simp) (by decide)
    (by simp) "$\"{b}\"" "{b}".toList (by decide) 3 (by decide) _ (Nat.le_refl _) "b".toList .variableNotFound
    (by decide) (by decide) ?_
  have := C13_ref_simple_key_missing [("a", Val.int 1)] [] [] "b" cx_isPlainRef_b (by decide) (by decide)
  simpa [Lib.exDocC, getVar, fget] using this

/-! # the same on `process2'`, and C12 (nested `$repeat`), C06 (plain data) -/

section
variable (ms : Go.Opaque → List Val → String × Option Err) (us : Go.Opaque → String → List Val × Option Err)
  (gf : String → Go.Opaque × Option Err) (nz : Val → Val × Option Err) (yu : String → Val × Option Err)

/-- composition helper, converse direction: where the model does not answer `unmodelled`, a value that the translated
    process2 returns (without error) for all large fuel IS the model's value -/
theorem sc13_process2_model_of_source (hGF : Lib.GetFormatSpec gf) (hyu : Lib.ParseOK yu) (mf : Go.Doc)
    (docs : List Go.Doc) (hnil : ∀ d ∈ docs, d.isNil = false) (hwf : Val.WF mf.data)
    (hwfs : ∀ d ∈ docs, Val.WF d.data) (ec : Go.Ctx) (obj : Val) (d : Int) (v : Val)
    (hmod : process2 (1000 - d).toNat (docs.map (·.data)) mf.data ec.vars obj ≠ .error Err.unmodelled)
    (hsrc : ∃ N, ∀ fuel, N ≤ fuel → Lib.process2' ms us gf nz yu fuel obj mf docs ec d = .ok (v, none)) :
    process2 (1000 - d).toNat (docs.map (·.data)) mf.data ec.vars obj = .ok v := by
  obtain ⟨N, hN⟩ := Lib.T_process2_eq ms us gf nz yu hGF hyu mf docs hnil hwf hwfs ec obj d hmod
  obtain ⟨N', hN'⟩ := hsrc
  obtain ⟨q, hq, hn⟩ := hN (max N N') (Nat.le_max_left _ _)
  rw [hN' (max N N') (Nat.le_max_right _ _)] at hq
  cases hq
  cases hm : process2 (1000 - d).toNat (docs.map (·.data)) mf.data ec.vars obj with
  | ok w =>
    rw [hm] at hn
    simp only [Lib.errNorm, Lib.valRes_ok] at hn
    simp at hn
    rw [hn]
  | error e =>
    rw [hm] at hn
    simp [Lib.errNorm] at hn

/-- the model fuel of process2 at Go depth `d < 1000` is a successor -/
theorem sc13_p2fuel_succ_of_lt {d : Int} (hd : d < 1000) : (1000 - d).toNat = (1000 - (d + 1)).toNat + 1 := by omega

/-- **`$env:NAME` set, through process2** on the string value `.str "$env:NAME"` (`C13_env_bound`) -/
theorem S_C13_env_bound_process2 (hGF : Lib.GetFormatSpec gf) (hyu : Lib.ParseOK yu) (mf : Go.Doc)
    (docs : List Go.Doc) (hnil : ∀ d ∈ docs, d.isNil = false) (hwf : Val.WF mf.data)
    (hwfs : ∀ d ∈ docs, Val.WF d.data) (ec : Go.Ctx) (name : String) (v : Val) (d : Int) (hd : d < 1000)
    (h : fget ec.vars ("$env:" ++ name) = some v) :
    ∃ N, ∀ fuel, N ≤ fuel →
      Lib.process2' ms us gf nz yu fuel (.str ("$env:" ++ name)) mf docs ec d = .ok (v, none) := by
  apply Lib.T_process2_eq_ok ms us gf nz yu hGF hyu mf docs hnil hwf hwfs ec _ d v
  rw [sc13_p2fuel_succ_of_lt hd, cx_process2_str]
  exact C13_env_bound _ _ _ _ name v h

/-- **`$env:NAME` unset, through process2**: the error ErrVariableNotFound (`C13_env_unbound`) -/
theorem S_C13_env_unbound_process2 (hGF : Lib.GetFormatSpec gf) (hyu : Lib.ParseOK yu) (mf : Go.Doc)
    (docs : List Go.Doc) (hnil : ∀ d ∈ docs, d.isNil = false) (hwf : Val.WF mf.data)
    (hwfs : ∀ d ∈ docs, Val.WF d.data) (ec : Go.Ctx) (name : String) (d : Int) (hd : d < 1000)
    (h : fget ec.vars ("$env:" ++ name) = none) :
    ∃ N, ∀ fuel, N ≤ fuel → ∃ x,
      Lib.process2' ms us gf nz yu fuel (.str ("$env:" ++ name)) mf docs ec d
        = .ok (x, some Err.variableNotFound) := by
  apply Lib.T_process2_eq_error ms us gf nz yu hGF hyu mf docs hnil hwf hwfs ec _ d _ (by decide)
  rw [sc13_p2fuel_succ_of_lt hd, cx_process2_str]
  exact C13_env_unbound _ _ _ _ name h

/-- **`$env:NAME` as a map key** (`C13_env_in_key`): `{"$env:NAME": v}` with `v` a boolean or a number, at a Go depth
    with two levels left: the key is replaced by the variable's value when that is a string; bound to a non-string
    it is ErrInvalidType; unbound, ErrVariableNotFound -/
theorem S_C13_env_in_key (hGF : Lib.GetFormatSpec gf) (hyu : Lib.ParseOK yu) (mf : Go.Doc)
    (docs : List Go.Doc) (hnil : ∀ d ∈ docs, d.isNil = false) (hwf : Val.WF mf.data)
    (hwfs : ∀ d ∈ docs, Val.WF d.data) (ec : Go.Ctx) (name : String) (v : Val)
    (hv : (∃ b, v = .bool b) ∨ (∃ i, v = .int i) ∨ (∃ r, v = .flt r)) (d : Int) (hd : d ≤ 998) :
    (∀ k2, fget ec.vars ("$env:" ++ name) = some (.str k2) → ∃ N, ∀ fuel, N ≤ fuel →
      Lib.process2' ms us gf nz yu fuel (.map [("$env:" ++ name, v)]) mf docs ec d
        = .ok (.map [(k2, v)], none)) ∧
    (∀ w, fget ec.vars ("$env:" ++ name) = some w → (∀ k2, w ≠ .str k2) → ∃ N, ∀ fuel, N ≤ fuel → ∃ x,
      Lib.process2' ms us gf nz yu fuel (.map [("$env:" ++ name, v)]) mf docs ec d
        = .ok (x, some Err.invalidType)) ∧
    (fget ec.vars ("$env:" ++ name) = none → ∃ N, ∀ fuel, N ≤ fuel → ∃ x,
      Lib.process2' ms us gf nz yu fuel (.map [("$env:" ++ name, v)]) mf docs ec d
        = .ok (x, some Err.variableNotFound)) := by
  have hF : (1000 - d).toNat = (998 - d).toNat + 2 := by omega
  have hm := C13_env_in_key (998 - d).toNat (docs.map (·.data)) mf.data ec.vars name v hv
  rw [← hF] at hm
  refine ⟨fun k2 h => ?_, fun w h hw => ?_, fun h => ?_⟩
  · rw [h] at hm
    exact Lib.T_process2_eq_ok ms us gf nz yu hGF hyu mf docs hnil hwf hwfs ec _ d _ hm
  · rw [h] at hm
    refine Lib.T_process2_eq_error ms us gf nz yu hGF hyu mf docs hnil hwf hwfs ec _ d _ (by decide) ?_
    rw [hm]
    cases w <;> first | rfl | exact absurd rfl (hw _)
  · rw [h] at hm
    exact Lib.T_process2_eq_error ms us gf nz yu hGF hyu mf docs hnil hwf hwfs ec _ d _ (by decide) hm

/-! ## C12 — `$repeat` nested in a list / in a map, on `process2'` -/

/-- **nested `$repeat` in a list** (`C12_list_nested_exact`): the list `[{$repeat: n, …body}]` at Go depth `d`
    evaluates to exactly `n` entries, in index order: the `i`-th is the body (the map without its `$repeat` key)
    evaluated one level deeper with `$repeat` bound to `i`, for `i = 0 … n-1` (none for `n ≤ 0`).  `hg`: what the body
    evaluates to for each index (model, fuel of Go depth `d + 1`), `hnn`: no copy is null (null copies are dropped) -/
theorem S_C12_nested_list_exact (hGF : Lib.GetFormatSpec gf) (hyu : Lib.ParseOK yu) (mf : Go.Doc)
    (docs : List Go.Doc) (hnil : ∀ d ∈ docs, d.isNil = false) (hwf : Val.WF mf.data)
    (hwfs : ∀ d ∈ docs, Val.WF d.data) (ec : Go.Ctx) (m : Fields) (n : Int) (g : Nat → Val)
    (d : Int) (hd : d < 1000) (hr : fget m "$repeat" = some (.int n))
    (hg : ∀ i, i < n.toNat →
      process2 (1000 - (d + 1)).toNat (docs.map (·.data)) mf.data (fset ec.vars "$repeat" (.int i))
        (.map (fdel m "$repeat")) = .ok (g i))
    (hnn : ∀ i, i < n.toNat → (g i).isNull = false) :
    (∃ N, ∀ fuel, N ≤ fuel →
      Lib.process2' ms us gf nz yu fuel (.list [.map m]) mf docs ec d
        = .ok (.list ((List.range n.toNat).map g), none)) ∧
    ((List.range n.toNat).map g).length = n.toNat := by
  obtain ⟨h1, h2⟩ := C12_list_nested_exact _ (docs.map (·.data)) mf.data ec.vars m n g hr hg hnn
  rw [← sc13_p2fuel_succ_of_lt hd] at h1
  exact ⟨Lib.T_process2_eq_ok ms us gf nz yu hGF hyu mf docs hnil hwf hwfs ec _ d _ h1, h2⟩

/-- … the same with the hypothesis on the copies stated on the TRANSLATED function too: if, for each index `i < n`,
    process2' on the body at Go depth `d + 1` in the context `ec` + `$repeat ↦ i` returns `g i` (not null, no error)
    for all large fuel, then process2' on `[{$repeat: n, …body}]` at depth `d` returns `[g 0, …, g (n-1)]`.
    (`hmod`: the model does not stop on the body at something it does not model.) -/
theorem S_C12_nested_list_source (hGF : Lib.GetFormatSpec gf) (hyu : Lib.ParseOK yu) (mf : Go.Doc)
    (docs : List Go.Doc) (hnil : ∀ d ∈ docs, d.isNil = false) (hwf : Val.WF mf.data)
    (hwfs : ∀ d ∈ docs, Val.WF d.data) (ec : Go.Ctx) (m : Fields) (n : Int) (g : Nat → Val)
    (d : Int) (hd : d < 1000) (hr : fget m "$repeat" = some (.int n))
    (hsrc : ∀ i, i < n.toNat → ∃ N, ∀ fuel, N ≤ fuel →
      Lib.process2' ms us gf nz yu fuel (.map (fdel m "$repeat")) mf docs
        ⟨fset ec.vars "$repeat" (.int i)⟩ (d + 1) = .ok (g i, none))
    (hmod : ∀ i, i < n.toNat →
      process2 (1000 - (d + 1)).toNat (docs.map (·.data)) mf.data (fset ec.vars "$repeat" (.int i))
        (.map (fdel m "$repeat")) ≠ .error Err.unmodelled)
    (hnn : ∀ i, i < n.toNat → (g i).isNull = false) :
    ∃ N, ∀ fuel, N ≤ fuel →
      Lib.process2' ms us gf nz yu fuel (.list [.map m]) mf docs ec d
        = .ok (.list ((List.range n.toNat).map g), none) :=
  (S_C12_nested_list_exact ms us gf nz yu hGF hyu mf docs hnil hwf hwfs ec m n g d hd hr
    (fun i hi => sc13_process2_model_of_source ms us gf nz yu hGF hyu mf docs hnil hwf hwfs
      ⟨fset ec.vars "$repeat" (.int i)⟩ _ (d + 1) (g i) (hmod i hi) (hsrc i hi)) hnn).1

/-- **a nested count that is not an integer** (`C12_nonint_error_nested`): ErrInvalidType -/
theorem S_C12_nested_list_nonint_error (hGF : Lib.GetFormatSpec gf) (hyu : Lib.ParseOK yu) (mf : Go.Doc)
    (docs : List Go.Doc) (hnil : ∀ d ∈ docs, d.isNil = false) (hwf : Val.WF mf.data)
    (hwfs : ∀ d ∈ docs, Val.WF d.data) (ec : Go.Ctx) (m : Fields) (r : Val) (d : Int) (hd : d < 1000)
    (hr : fget m "$repeat" = some r) (hni : ∀ n, r ≠ .int n) :
    ∃ N, ∀ fuel, N ≤ fuel → ∃ x,
      Lib.process2' ms us gf nz yu fuel (.list [.map m]) mf docs ec d = .ok (x, some Err.invalidType) := by
  apply Lib.T_process2_eq_error ms us gf nz yu hGF hyu mf docs hnil hwf hwfs ec _ d _ (by decide)
  rw [sc13_p2fuel_succ_of_lt hd]
  exact C12_nonint_error_nested _ _ _ _ m r hr hni

/-- **nested `$repeat` in a map entry** (`C12_map_nested_exact`): `{k: {$repeat: n, …body}}` at Go depth `d`: the
    body and the key `k` are evaluated one level deeper for `i = 0 … n-1` with `$repeat` bound to `i` (`g i`, `kf i`);
    when no copy is null, no evaluated key is a directive name and the copies are stable under the second pass of
    process2Map, the result is the sorted map of the pairs `(kf i, g i)`, a later copy replacing an earlier one with
    the same key; exactly `n` entries when the keys are pairwise distinct -/
theorem S_C12_nested_map_exact (hGF : Lib.GetFormatSpec gf) (hyu : Lib.ParseOK yu) (mf : Go.Doc)
    (docs : List Go.Doc) (hnil : ∀ d ∈ docs, d.isNil = false) (hwf : Val.WF mf.data)
    (hwfs : ∀ d ∈ docs, Val.WF d.data) (ec : Go.Ctx) (k : String) (m : Fields) (n : Int) (g : Nat → Val)
    (kf : Nat → String) (d : Int) (hd : d < 1000) (hr : fget m "$repeat" = some (.int n))
    (hg : ∀ i, i < n.toNat →
      process2 (1000 - (d + 1)).toNat (docs.map (·.data)) mf.data (fset ec.vars "$repeat" (.int i))
        (.map (fdel m "$repeat")) = .ok (g i))
    (hnn : ∀ i, i < n.toNat → (g i).isNull = false)
    (hk : ∀ i, i < n.toNat →
      process2 (1000 - (d + 1)).toNat (docs.map (·.data)) mf.data (fset ec.vars "$repeat" (.int i)) (.str k)
        = .ok (.str (kf i)))
    (hdir : ∀ i, i < n.toNat → kf i ≠ "$encode" ∧ kf i ≠ "$decode" ∧ kf i ≠ "$value")
    (hfix : ∀ i, i < n.toNat →
      process2 (1000 - (d + 1)).toNat (docs.map (·.data)) mf.data ec.vars (g i) = .ok (g i) ∧
      process2 (1000 - (d + 1)).toNat (docs.map (·.data)) mf.data ec.vars (.str (kf i)) = .ok (.str (kf i))) :
    (∃ N, ∀ fuel, N ≤ fuel →
      Lib.process2' ms us gf nz yu fuel (.map [(k, .map m)]) mf docs ec d
        = .ok (.map (fofList ((List.range n.toNat).map fun i => (kf i, g i))), none)) ∧
    (∀ j, j < n.toNat → (∀ j', j < j' → j' < n.toNat → kf j' ≠ kf j) →
      fget (fofList ((List.range n.toNat).map fun i => (kf i, g i))) (kf j) = some (g j)) ∧
    ((∀ i j, i < n.toNat → j < n.toNat → kf i = kf j → i = j) →
      (fofList ((List.range n.toNat).map fun i => (kf i, g i))).length = n.toNat) := by
  obtain ⟨h1, h2, h3⟩ := C12_map_nested_exact _ (docs.map (·.data)) mf.data ec.vars k m n g kf hr hg hnn hk
    hdir hfix
  rw [← sc13_p2fuel_succ_of_lt hd] at h1
  exact ⟨Lib.T_process2_eq_ok ms us gf nz yu hGF hyu mf docs hnil hwf hwfs ec _ d _ h1, h2, h3⟩

/-- a non-integer count in a map entry (`C12_nonint_error_map_nested`): ErrInvalidType -/
theorem S_C12_nested_map_nonint_error (hGF : Lib.GetFormatSpec gf) (hyu : Lib.ParseOK yu) (mf : Go.Doc)
    (docs : List Go.Doc) (hnil : ∀ d ∈ docs, d.isNil = false) (hwf : Val.WF mf.data)
    (hwfs : ∀ d ∈ docs, Val.WF d.data) (ec : Go.Ctx) (k : String) (m : Fields) (r : Val) (d : Int)
    (hd : d < 1000) (hr : fget m "$repeat" = some r) (hni : ∀ n, r ≠ .int n) :
    ∃ N, ∀ fuel, N ≤ fuel → ∃ x,
      Lib.process2' ms us gf nz yu fuel (.map [(k, .map m)]) mf docs ec d = .ok (x, some Err.invalidType) := by
  apply Lib.T_process2_eq_error ms us gf nz yu hGF hyu mf docs hnil hwf hwfs ec _ d _ (by decide)
  rw [sc13_p2fuel_succ_of_lt hd]
  exact C12_nonint_error_map_nested _ _ _ _ k m r hr hni

/-- a key `$repeat` under a `$repeat` binding evaluates to an integer, which is not a key
    (`C12_repeat_key_is_error`): ErrInvalidType -/
theorem S_C12_nested_repeat_key_is_error (hGF : Lib.GetFormatSpec gf) (hyu : Lib.ParseOK yu) (mf : Go.Doc)
    (docs : List Go.Doc) (hnil : ∀ d ∈ docs, d.isNil = false) (hwf : Val.WF mf.data)
    (hwfs : ∀ d ∈ docs, Val.WF d.data) (vars : Vars) (i j : Int) (d : Int) (hd : d ≤ 998) :
    ∃ N, ∀ fuel, N ≤ fuel → ∃ x,
      Lib.process2' ms us gf nz yu fuel (.map [("$repeat", .int j)]) mf docs ⟨fset vars "$repeat" (.int i)⟩ d
        = .ok (x, some Err.invalidType) := by
  apply Lib.T_process2_eq_error ms us gf nz yu hGF hyu mf docs hnil hwf hwfs _ _ d _ (by decide)
  have hF : (1000 - d).toNat = (998 - d).toNat + 2 := by omega
  rw [hF]
  exact C12_repeat_key_is_error _ _ _ vars i j

/-- composition helper with the explicit translator-fuel bound `p2Fuel` (computed along the model's evaluation) -/
theorem sc13_process2_of_model_ok_fuel (hGF : Lib.GetFormatSpec gf) (hyu : Lib.ParseOK yu) (mf : Go.Doc)
    (docs : List Go.Doc) (hnil : ∀ d ∈ docs, d.isNil = false) (hwf : Val.WF mf.data)
    (hwfs : ∀ d ∈ docs, Val.WF d.data) (ec : Go.Ctx) (obj : Val) (d : Int) (fuel : Nat)
    (hf : Lib.p2Fuel mf docs (1000 - d).toNat d ec obj ≤ fuel) (v : Val)
    (h : process2 (1000 - d).toNat (docs.map (·.data)) mf.data ec.vars obj = .ok v) :
    Lib.process2' ms us gf nz yu fuel obj mf docs ec d = .ok (v, none) := by
  obtain ⟨q, hq, hn⟩ := Lib.T_process2_eq_fuel ms us gf nz yu hGF hyu mf docs hnil hwf hwfs ec obj d fuel hf
    (by rw [h]; intro h'; cases h')
  rw [h] at hn
  rw [hq, Lib.errNorm_ok hn]

/-- `S_C12_nested_list_exact` with the explicit fuel bound -/
theorem S_C12_nested_list_exact_fuel (hGF : Lib.GetFormatSpec gf) (hyu : Lib.ParseOK yu) (mf : Go.Doc)
    (docs : List Go.Doc) (hnil : ∀ d ∈ docs, d.isNil = false) (hwf : Val.WF mf.data)
    (hwfs : ∀ d ∈ docs, Val.WF d.data) (ec : Go.Ctx) (m : Fields) (n : Int) (g : Nat → Val)
    (d : Int) (hd : d < 1000) (fuel : Nat)
    (hf : Lib.p2Fuel mf docs (1000 - d).toNat d ec (.list [.map m]) ≤ fuel)
    (hr : fget m "$repeat" = some (.int n))
    (hg : ∀ i, i < n.toNat →
      process2 (1000 - (d + 1)).toNat (docs.map (·.data)) mf.data (fset ec.vars "$repeat" (.int i))
        (.map (fdel m "$repeat")) = .ok (g i))
    (hnn : ∀ i, i < n.toNat → (g i).isNull = false) :
    Lib.process2' ms us gf nz yu fuel (.list [.map m]) mf docs ec d
      = .ok (.list ((List.range n.toNat).map g), none) := by
  obtain ⟨h1, -⟩ := C12_list_nested_exact _ (docs.map (·.data)) mf.data ec.vars m n g hr hg hnn
  rw [← sc13_p2fuel_succ_of_lt hd] at h1
  exact sc13_process2_of_model_ok_fuel ms us gf nz yu hGF hyu mf docs hnil hwf hwfs ec _ d fuel hf _ h1

/-! ## C06 — plain / inert / doubled data through `process2'` -/

/-- **process2 is the identity on plain data, up to dropping nulls** (`C06_process2_plain` = `e_process2_plain`):
    `plain v`: no key and no string of `v` is recognised by the evaluator; `v` well-formed and nested less deep than
    the depth budget that is left -/
theorem S_C06_process2_plain (hGF : Lib.GetFormatSpec gf) (hyu : Lib.ParseOK yu) (mf : Go.Doc)
    (docs : List Go.Doc) (hnil : ∀ d ∈ docs, d.isNil = false) (hwf : Val.WF mf.data)
    (hwfs : ∀ d ∈ docs, Val.WF d.data) (ec : Go.Ctx) (v : Val) (d : Int)
    (hp : plain v = true) (hw : v.WF) (hd : depth v < (1000 - d).toNat) :
    ∃ N, ∀ fuel, N ≤ fuel → Lib.process2' ms us gf nz yu fuel v mf docs ec d = .ok (dropNulls v, none) :=
  Lib.T_process2_eq_ok ms us gf nz yu hGF hyu mf docs hnil hwf hwfs ec v d _
    (C06_process2_plain _ _ _ _ v hp hw hd)

/-- in particular on inert data (nothing recognised, no `$$`) (`C06_process2_inert`) -/
theorem S_C06_process2_inert (hGF : Lib.GetFormatSpec gf) (hyu : Lib.ParseOK yu) (mf : Go.Doc)
    (docs : List Go.Doc) (hnil : ∀ d ∈ docs, d.isNil = false) (hwf : Val.WF mf.data)
    (hwfs : ∀ d ∈ docs, Val.WF d.data) (ec : Go.Ctx) (v : Val) (d : Int)
    (hi : inert v = true) (hw : v.WF) (hd : depth v < (1000 - d).toNat) :
    ∃ N, ∀ fuel, N ≤ fuel → Lib.process2' ms us gf nz yu fuel v mf docs ec d = .ok (dropNulls v, none) :=
  S_C06_process2_plain ms us gf nz yu hGF hyu mf docs hnil hwf hwfs ec v d (inert_plain hi) hw hd

/-- … and null-free inert data comes back unchanged -/
theorem S_C06_process2_inert_noNulls (hGF : Lib.GetFormatSpec gf) (hyu : Lib.ParseOK yu) (mf : Go.Doc)
    (docs : List Go.Doc) (hnil : ∀ d ∈ docs, d.isNil = false) (hwf : Val.WF mf.data)
    (hwfs : ∀ d ∈ docs, Val.WF d.data) (ec : Go.Ctx) (v : Val) (d : Int)
    (hi : inert v = true) (hw : v.WF) (hd : depth v < (1000 - d).toNat) (hn : dropNulls v = v) :
    ∃ N, ∀ fuel, N ≤ fuel → Lib.process2' ms us gf nz yu fuel v mf docs ec d = .ok (v, none) := by
  have := S_C06_process2_inert ms us gf nz yu hGF hyu mf docs hnil hwf hwfs ec v d hi hw hd
  rwa [hn] at this

/-- **doubled data passes through process2 as data** (`double_plain`, `double_WF`): every `$` of `v` doubled — so
    whatever directive names, `$env:`, `$"…"` strings `v` contains — the translated process2 returns the doubled
    value, nulls dropped, no error; and the translated finalizeOutput then gives back `v` itself, nulls dropped
    (`S_C06_finalize_double`): the `$$` escape, through both translated functions -/
theorem S_C06_process2_double (hGF : Lib.GetFormatSpec gf) (hyu : Lib.ParseOK yu) (mf : Go.Doc)
    (docs : List Go.Doc) (hnil : ∀ d ∈ docs, d.isNil = false) (hwf : Val.WF mf.data)
    (hwfs : ∀ d ∈ docs, Val.WF d.data) (ec : Go.Ctx) (v : Val) (d : Int)
    (hw : v.WF) (hd : depth v < (1000 - d).toNat) :
    (∃ N, ∀ fuel, N ≤ fuel →
      Lib.process2' ms us gf nz yu fuel (double v) mf docs ec d = .ok (double (dropNulls v), none)) ∧
    (∀ fuel', 2 * Go.depth (dropNulls v) + 1 ≤ fuel' →
      Lib.finalizeOutput' fuel' (double (dropNulls v)) = .ok (dropNulls v)) := by
  refine ⟨?_, fun fuel' hf' => Lib.S_C06_finalize_double _ (e_wf_dropNulls_all.1 v hw) hf'⟩
  have := S_C06_process2_plain ms us gf nz yu hGF hyu mf docs hnil hwf hwfs ec (double v) d
    (double_plain v) (double_WF hw) (by rw [e_depth_double_all.1]; exact hd)
  rwa [e_dropNulls_double_all.1] at this

end

/-! ## non-vacuity (C12, C06) -/

/-- `[{$repeat: 3, v: "$repeat"}]` through the translated process2 with concrete third-party functions:
    `[{v: 0}, {v: 1}, {v: 2}]` -/
example : ∃ N, ∀ fuel, N ≤ fuel →
    Lib.process2' Lib.msName Lib.usNone Lib.gfModel Lib.nzId Lib.yamlModel fuel
      (.list [.map [("$repeat", .int 3), ("v", .str "$repeat")]]) Lib.exDocC [] ⟨[]⟩ 0
      = .ok (.list [.map [("v", .int 0)], .map [("v", .int 1)], .map [("v", .int 2)]], none) := by
  have hdel : fdel [("$repeat", Val.int 3), ("v", .str "$repeat")] "$repeat" = [("v", .str "$repeat")] := by
    decide
  obtain ⟨h, -⟩ := S_C12_nested_list_exact Lib.msName Lib.usNone Lib.gfModel Lib.nzId Lib.yamlModel
    (fun _ => rfl) Lib.yamlModel_ok Lib.exDocC [] (by simp) (by decide) (by simp) ⟨[]⟩
    [("$repeat", .int 3), ("v", .str "$repeat")] 3 (fun i => .map [("v", .int i)]) 0 (by decide) (by decide)
    (fun i _ => by rw [hdel]; exact process2_body_v_repeat 997 _ _ [] i)
    (fun _ _ => rfl)
  exact h

/-- … and with the explicit fuel bound, near the end of the depth budget (Go depth 997: three levels left) -/
example : Lib.process2' Lib.msName Lib.usNone Lib.gfModel Lib.nzId Lib.yamlModel 20
      (.list [.map [("$repeat", .int 2), ("v", .str "$repeat")]]) Lib.exDocC [] ⟨[]⟩ 997
      = .ok (.list [.map [("v", .int 0)], .map [("v", .int 1)]], none) := by
  have hdel : fdel [("$repeat", Val.int 2), ("v", .str "$repeat")] "$repeat" = [("v", .str "$repeat")] := by
    decide
  exact S_C12_nested_list_exact_fuel Lib.msName Lib.usNone Lib.gfModel Lib.nzId Lib.yamlModel
    (fun _ => rfl) Lib.yamlModel_ok Lib.exDocC [] (by simp) (by decide) (by simp) ⟨[]⟩
    [("$repeat", .int 2), ("v", .str "$repeat")] 2 (fun i => .map [("v", .int i)]) 997 (by decide) 20 (by decide)
    (by decide) (fun i _ => by rw [hdel]; exact process2_body_v_repeat 0 _ _ [] i) (fun _ _ => rfl)

/-- a count that is a string -/
example : fget [("$repeat", Val.str "2"), ("x", .int 1)] "$repeat" = some (.str "2")
    ∧ ∀ n, Val.str "2" ≠ .int n := ⟨by decide, fun _ h => (by cases h)⟩

/-- inert data (dollar signs and braces that mean nothing, nulls) through the translated process2 -/
example : ∃ N, ∀ fuel, N ≤ fuel →
    Lib.process2' Lib.msName Lib.usNone Lib.gfModel Lib.nzId Lib.yamlModel fuel c06_ex1 Lib.exDocC [] ⟨[]⟩ 0
      = .ok (.map [("a", .str "$5 bill"), ("b", .list [.int 1, .str "x{y}$", .map []]), ("d", .map [])], none) :=
  S_C06_process2_inert Lib.msName Lib.usNone Lib.gfModel Lib.nzId Lib.yamlModel (fun _ => rfl) Lib.yamlModel_ok
    Lib.exDocC [] (by simp) (by decide) (by simp) ⟨[]⟩ c06_ex1 0 (by decide) (by decide) (by decide)

/-- data full of directive names, doubled -/
example : c06_ex2.WF ∧ depth c06_ex2 < (1000 - (0 : Int)).toNat := by decide

end Bkl.Gen
