/- Fact obligations F12 / F13, slice StateTools (table and explanation: BklProofs/Facts/State.lean). -/
import BklProofs.Facts.State
namespace Bkl

/-- F13: the tools and the wrapper keep no state between calls: their only package-level variable is an error
    sentinel and their only struct types are the option records filled by the flag parser (the `-f`, `-o`, `-r`,
    `-P`, `-v` options the model's `CliOpts` / `ToolOpts` carry; `CPUProfile`, `Verbose`, `Version` do not affect
    the result) -/
theorem F13_tools_stateless : Facts.toolState = [
    ("cmd/bkl", "field options", "CPUProfile"), ("cmd/bkl", "field options", "OutputFormat"),
    ("cmd/bkl", "field options", "OutputPath"), ("cmd/bkl", "field options", "Positional"),
    ("cmd/bkl", "field options", "RootPath"), ("cmd/bkl", "field options", "SkipParent"),
    ("cmd/bkl", "field options", "Verbose"), ("cmd/bkl", "field options", "Version"),
    ("cmd/bkld", "field options", "OutputFormat"), ("cmd/bkld", "field options", "OutputPath"),
    ("cmd/bkld", "field options", "Positional"), ("cmd/bkld", "var", "errReplaceParent"),
    ("cmd/bkli", "field options", "OutputFormat"), ("cmd/bkli", "field options", "OutputPath"),
    ("cmd/bkli", "field options", "Positional"),
    ("cmd/bklr", "field options", "OutputFormat"), ("cmd/bklr", "field options", "OutputPath"),
    ("cmd/bklr", "field options", "Positional")] := by decide

end Bkl
