/-
  Source-level laws (C11): property theorems of the model composed with the translation-equivalence theorems, i.e. stated
  directly about the Lean functions generated from the CURRENT Go source (Generated/Trans).  Corollaries only.
-/
import BklProofs.C11
import BklProofs.Lemmas.Stream
import BklProofs.Facts.TransOutput
namespace Bkl.Gen.Lib
open Bkl Go

/-! # C11 on `filterOutput'` -/

/-- `filterOutput'` finishes without error exactly when the model does, with the kept value or Go's nil -/
theorem S_C11_ok_iff (v r : Val) (hw : v.WF) {fuel : Nat} (h : 2 * Go.depth v + 1 ≤ fuel) :
    filterOutput' fuel v = .ok (r, none) ↔ ∃ o, filterOutput v = .ok o ∧ r = o.getD .null := by
  rw [T_filterOutput_eq v hw fuel h]
  cases filterOutput v with
  | ok o => simp [eq_comm]
  | error e => simp

/-- a map carrying `$output: false` is hidden: Go's `(nil, nil)` -/
theorem S_C11_hidden_map (kvs : Fields) (hw : Val.WF (.map kvs)) (hb : fhasBool kvs "$output" false = true)
    {fuel : Nat} (h : 2 * Go.depth (.map kvs) + 1 ≤ fuel) :
    filterOutput' fuel (.map kvs) = .ok (.null, none) := by
  rw [T_filterOutput_eq _ hw fuel h, os_filterOutput_map_eq, if_pos hb]; rfl

example : Val.WF (.map [("$output", .bool false), ("x", .int 1)]) ∧
    fhasBool [("$output", .bool false), ("x", .int 1)] "$output" false = true ∧
    2 * Go.depth (.map [("$output", .bool false), ("x", .int 1)]) + 1 ≤ 3 := by decide

/-- a list with a `{$output: false}` entry is hidden too, unless a marker entry carries extra keys -/
theorem S_C11_hidden_list (xs : List Val) (hw : Val.WF (.list xs))
    (hb : hasListMapBool xs "$output" false = true) {fuel : Nat} (h : 2 * Go.depth (.list xs) + 1 ≤ fuel) :
    filterOutput' fuel (.list xs) =
      .ok (.null, if xs.any (os_isExtra "$output" false) then some Err.extraKeys else none) := by
  rw [T_filterOutput_eq _ hw fuel h, os_filterOutput_list_eq, if_pos hb]
  by_cases hx : xs.any (os_isExtra "$output" false) = true
  · simp only [hx, if_true, filterOutputErrVal, hb]
  · simp only [hx]; rfl

example : Val.WF (.list [.int 1, .map [("$output", .bool false)]]) ∧
    hasListMapBool [.int 1, .map [("$output", .bool false)]] "$output" false = true ∧
    2 * Go.depth (.list [.int 1, .map [("$output", .bool false)]]) + 1 ≤ 5 := by decide

/-- **`C11_hide_spec` on the translated function**: when `filterOutput'` finishes without error, it returns nil
    exactly for the hidden values (`$output: false` map, list with such an entry, null) -/
theorem S_C11_hide_spec (v r : Val) (hw : v.WF) {fuel : Nat} (h : 2 * Go.depth v + 1 ≤ fuel)
    (hf : filterOutput' fuel v = .ok (r, none)) : r = .null ↔ hidden v = true := by
  obtain ⟨o, ho, rfl⟩ := (S_C11_ok_iff v r hw h).1 hf
  rw [← C11_hide_spec v o ho]
  cases o with
  | none => simp
  | some r' => simpa using filterOutput_some_ne_null ho

example : Val.WF (.map [("a", .null), ("b", .map [("$output", .bool false)]), ("c", .int 1)]) ∧
    2 * Go.depth (.map [("a", .null), ("b", .map [("$output", .bool false)]), ("c", .int 1)]) + 1 ≤ 5 ∧
    filterOutput' 5 (.map [("a", .null), ("b", .map [("$output", .bool false)]), ("c", .int 1)])
      = .ok (.map [("c", .int 1)], none) := by
  refine ⟨by decide, by decide, by rfl⟩

/-- model lemma (the converse of `C11_hidden_absent_partial`): without `$output: false` markers and without nulls
    nothing is dropped -/
theorem filterOutput_unmarked_all :
    (∀ v, hasOutFalse v = false → noNull v = true → filterOutput v = .ok (some v)) ∧
    (∀ xs, hasOutFalseList xs = false → noNullList xs = true → filterOutputList xs = .ok xs) ∧
    (∀ kvs, hasOutFalseFields kvs = false → noNullFields kvs = true → filterOutputFields kvs = .ok kvs) := by
  apply e_Val_induct
  case null => intro _ hn; simp [noNull] at hn
  case bool | int | flt | str => intros; rfl
  case list =>
    intro xs ih hm hn
    simp only [hasOutFalse, Bool.or_eq_false_iff] at hm
    simp only [noNull] at hn
    rw [os_filterOutput_list_eq, hm.1, ih hm.2 hn]; rfl
  case map =>
    intro kvs ih hm hn
    simp only [hasOutFalse, Bool.or_eq_false_iff] at hm
    simp only [noNull] at hn
    rw [os_filterOutput_map_eq, hm.1, ih hm.2 hn]; rfl
  case lnil => intros; rfl
  case lcons =>
    intro x xs ih1 ih2 hm hn
    simp only [hasOutFalseList, Bool.or_eq_false_iff] at hm
    simp only [noNullList, Bool.and_eq_true] at hn
    rw [os_filterOutputList_cons_eq, ih1 hm.1 hn.1, ih2 hm.2 hn.2]
  case fnil => intros; rfl
  case fcons =>
    intro k v rest ih1 ih2 hm hn
    simp only [hasOutFalseFields, Bool.or_eq_false_iff] at hm
    simp only [noNullFields, Bool.and_eq_true] at hn
    rw [os_filterOutputFields_cons_eq, ih1 hm.1 hn.1, ih2 hm.2 hn.2]

/-- a well-formed subtree without `$output: false` markers (and without nulls, which the output stage drops) is
    returned unchanged -/
theorem S_C11_unmarked_unchanged (v : Val) (hw : v.WF) (hm : hasOutFalse v = false) (hn : noNull v = true)
    {fuel : Nat} (h : 2 * Go.depth v + 1 ≤ fuel) : filterOutput' fuel v = .ok (v, none) := by
  rw [T_filterOutput_eq v hw fuel h, filterOutput_unmarked_all.1 v hm hn]; rfl

example : (Val.map [("$output", .bool true), ("a", .list [.int 1, .map [("b", .str "x")]])]).WF ∧
    hasOutFalse (.map [("$output", .bool true), ("a", .list [.int 1, .map [("b", .str "x")]])]) = false ∧
    noNull (.map [("$output", .bool true), ("a", .list [.int 1, .map [("b", .str "x")]])]) = true ∧
    2 * Go.depth (.map [("$output", .bool true), ("a", .list [.int 1, .map [("b", .str "x")]])]) + 1 ≤ 7 := by
  decide

/-- what `filterOutput'` keeps contains no `$output: false` marker and no null (`C11_hidden_absent_partial`) -/
theorem S_C11_hidden_absent (v r : Val) (hw : v.WF) {fuel : Nat} (h : 2 * Go.depth v + 1 ≤ fuel)
    (hf : filterOutput' fuel v = .ok (r, none)) (hv : hidden v = false) :
    hasOutFalse r = false ∧ noNull r = true := by
  obtain ⟨o, ho, rfl⟩ := (S_C11_ok_iff v r hw h).1 hf
  cases o with
  | none => rw [(C11_hide_spec v none ho).1 rfl] at hv; cases hv
  | some r' => exact C11_hidden_absent_partial v r' hw ho

example : Val.WF (.map [("a", .null), ("c", .int 1)]) ∧ hidden (.map [("a", .null), ("c", .int 1)]) = false ∧
    filterOutput' 3 (.map [("a", .null), ("c", .int 1)]) = .ok (.map [("c", .int 1)], none) := by
  refine ⟨by decide, by decide, by rfl⟩


end Bkl.Gen.Lib
