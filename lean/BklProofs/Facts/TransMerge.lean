/-
  Translation equivalence, merge.go: the Lean definitions that harness/cmd/gotrans writes from /repo's CURRENT
  merge.go (Generated/Trans/Merge.lean, regenerated on every run: merge', mergeMap', mergeMapMap', mergeList',
  mergeListList', mergeListDelete', mergeListMatch') compute the model's `merge` (Bkl/Merge.lean: `merge`,
  `mergeMapMap`/`mergeFields`, `mergeListList`/`mergeEntries`, `mergeListDelete`).  A change of merge.go that changes
  its meaning makes these theorems fail to check.

  Main theorem `T_merge_eq`: for every target `dst`, every WELL-FORMED patch `src` and every fuel
  `≥ 4 * Go.depth src + 2`,  `merge' fuel dst src = .ok (resOf dst src)`, where `resOf` is the model's result as Go's
  `(any, error)`: `(r, nil)`, or `(typed nil, the same error class)` (`mergeErrVal`: a nil map where the error comes
  out of mergeMapMap, a nil slice out of mergeList, the nil interface otherwise).

  Differences between the Go code and the model, and how they are bridged:
  * Go deep-clones the patch values it stores under keys new to the target, and the `$match` update once per matching
    entry; `deepClone` rebuilds maps entry by entry (`Val.norm`), the identity exactly on well-formed values.  Hence
    the hypothesis `Val.WF src`; it is needed (`merge_unsorted_patch_differs`).  NOTHING is needed of `dst`: both sides
    use the same `fget`/`fset`/`fdel` on it, and the recursion only ever descends the patch.
  * closures (`filterList(obj, func …)`) are rendered in state-passing style: `M_filterList_rec` turns `filterList'`
    into the plain recursion `filterRec`, against which `popListString'` (`M_popListString_eq`),
    `popListMapBoolValue'` (`M_popListMapBoolValue_eq`) and the two closures of merge.go are proved.
  * mergeListList re-binds `src` to the popped list; the model passes on the original: equal when nothing was popped
    (`popListMapBool_false`, and the filter of an absent string is the identity).
  * the model inlines mergeListMatch in `mergeEntries`; `mergeListMatch`/`entryStep` below name the pieces and
    `mergeEntries_cons` shows `mergeEntries` is their iteration.  Likewise `fieldStep` for `mergeFields`.
  * mergeMapMap / mergeListList return a Go map / slice that the callers convert to `any`: `mergeMapMapF` /
    `mergeListListL` are the model's functions before the wrapping (`mergeMapMap_eq_F`, `mergeListList_eq_L`).
  The fuel bound: one level of the patch costs at most 4 calls (merge → mergeList → mergeListList → mergeListMatch →
  merge); `match` on a `$match`/`$delete` pattern needs `3 * depth + 1` and `deepClone` `depth + 1`, both below it.
-/
import Bkl.Merge
import Generated.Trans.Merge
import BklProofs.Lemmas.GoLib
import BklProofs.Lemmas.GoLibUtil
import BklProofs.Lemmas.Fields
import BklProofs.Lemmas.Merge
import BklProofs.Lemmas.MergeList
import BklProofs.Lemmas.MergeWF
import BklProofs.Facts.TransUtil
import BklProofs.Facts.TransMatch
namespace Bkl.Gen.Lib
open Bkl Go

/-! ## util.go:filterList (state-passing rendering) as a plain recursion -/

/-- `filterList` from the accumulator `acc` and the closure state `st` -/
def filterRec {σ : Type} (filter : Val → σ → G ((List Val × Option Err) × σ)) :
    List Val → List Val → σ → G ((List Val × Option Err) × σ)
  | [], acc, st => .ok ((acc, none), st)
  | x :: xs, acc, st =>
    match filter x st with
    | .error e => .error e
    | .ok ((l2, none), st') => filterRec filter xs (acc ++ l2) st'
    | .ok ((_, some e), st') => .ok (([], some e), st')

theorem filterRec_nil {σ : Type} (filter : Val → σ → G ((List Val × Option Err) × σ)) (acc : List Val) (st : σ) :
    filterRec filter [] acc st = .ok ((acc, none), st) := rfl

theorem filterRec_cons_ok {σ : Type} {filter : Val → σ → G ((List Val × Option Err) × σ)} {x : Val} {st st' : σ}
    {l2 : List Val} (h : filter x st = .ok ((l2, none), st')) (xs acc : List Val) :
    filterRec filter (x :: xs) acc st = filterRec filter xs (acc ++ l2) st' := by
  simp only [filterRec, h]

theorem filterRec_cons_err {σ : Type} {filter : Val → σ → G ((List Val × Option Err) × σ)} {x : Val} {st st' : σ}
    {l2 : List Val} {e : Err} (h : filter x st = .ok ((l2, some e), st')) (xs acc : List Val) :
    filterRec filter (x :: xs) acc st = .ok (([], some e), st') := by
  simp only [filterRec, h]

theorem filterRec_cons_error {σ : Type} {filter : Val → σ → G ((List Val × Option Err) × σ)} {x : Val} {st : σ}
    {e : GErr} (h : filter x st = .error e) (xs acc : List Val) :
    filterRec filter (x :: xs) acc st = .error e := by
  simp only [filterRec, h]

/-- the loop of filterList, from any accumulator and state -/
theorem M_filterList_loop {σ : Type} (filter : Val → σ → G ((List Val × Option Err) × σ))
    (body : Val → (List Val × σ) → G (Loop (List Val × σ) ((List Val × Option Err) × σ)))
    (hbody : ∀ v ret st, body v (ret, st) =
      (match filter v st with
       | .error e => .error e
       | .ok ((l2, err), st') =>
         if (err != (none : Option Err)) then .ok (Loop.ret (([], err), st')) else .ok (Loop.next (ret ++ l2, st'))))
    (l acc : List Val) (st : σ) :
    (match forRange l (acc, st) body with
     | .error e => .error e
     | .ok (.inr rr) => .ok rr
     | .ok (.inl (ret, st)) => .ok ((ret, (none : Option Err)), st)) = filterRec filter l acc st := by
  induction l generalizing acc st with
  | nil => rfl
  | cons x xs ih =>
    cases hf : filter x st with
    | error e =>
      rw [forRange_cons_error (e := e) (by rw [hbody, hf]), filterRec_cons_error hf]
    | ok p =>
      obtain ⟨⟨l2, err⟩, st'⟩ := p
      cases err with
      | none =>
        rw [forRange_cons_next (s' := (acc ++ l2, st')) (by rw [hbody, hf]; rfl), filterRec_cons_ok hf]
        exact ih _ _
      | some e =>
        rw [forRange_cons_ret (r := (([], some e), st')) (by rw [hbody, hf]; rfl), filterRec_cons_err hf]

/-- util.go:filterList is the recursion `filterRec` from the empty accumulator -/
theorem M_filterList_rec {σ : Type} (l : List Val) (filter : Val → σ → G ((List Val × Option Err) × σ)) (st : σ) :
    filterList' l filter st = filterRec filter l [] st := by
  unfold filterList'
  refine M_filterList_loop filter _ (fun v ret st => ?_) l [] st
  -- the generator emits `if err == nil then next else ret` for Go's `if err != nil { return }`
  dsimp only
  cases filter v st with
  | error e => rfl
  | ok p =>
    obtain ⟨⟨l2, err⟩, st'⟩ := p
    cases err <;> rfl

/-! ## util.go:popListString -/

theorem str_beq (a b : String) : (Val.str a == Val.str b) = (a == b) := by
  by_cases h : a = b
  · subst h; simp
  · rw [beq_eq_false_iff_ne.2 h, beq_eq_false_iff_ne.2 (by simpa using h)]

/-- a closure that drops the entries satisfying `p` and records in its state that it dropped one -/
theorem filterRec_drop (p : Val → Bool) (filter : Val → Bool → G ((List Val × Option Err) × Bool))
    (l : List Val)
    (hf : ∀ x ∈ l, ∀ found, filter x found = .ok (((if p x then [] else [x]), none), (found || p x)))
    (acc : List Val) (found : Bool) :
    filterRec filter l acc found =
      .ok ((acc ++ l.filter (fun x => !p x), none), (found || l.any p)) := by
  induction l generalizing acc found with
  | nil => simp [filterRec_nil]
  | cons x xs ih =>
    rw [filterRec_cons_ok (hf x List.mem_cons_self found), ih (fun y hy => hf y (List.mem_cons_of_mem _ hy))]
    by_cases hx : p x = true
    · simp [hx]
    · simp [hx]

/-- util.go:popListString is the model's `popListString` -/
theorem M_popListString_eq (l : List Val) (s : String) : popListString' l s = .ok (popListString l s) := by
  unfold popListString'
  simp only [M_filterList_rec]
  rw [filterRec_drop (fun x => x == Val.str s) _ l _ [] false]
  · simp [popListString]
  · intro x _ found
    cases x with
    | str t =>
      simp only [Go.asStr, if_true, str_beq]
      by_cases ht : (t == s) = true <;> simp [ht]
    | _ => simp [Go.asStr] <;> rfl

/-! ## util.go:popListMapBoolValue -/

/-- Go's `(found, list, err)` of a model result of `popListMapBool` -/
def popRes : R (Bool × List Val) → Bool × List Val × Option Err
  | .ok (f, r) => (f, r, none)
  | .error e => (false, [], some e)

theorem popListMapBool_rec (k : String) (b : Bool) (filter : Val → Unit → G ((List Val × Option Err) × Unit))
    (hplain : ∀ x, isMarker k b x = false → filter x () = .ok (([x], none), ()))
    (hok : ∀ m, fhasBool m k b = true → (fdel m k).length = 0 → filter (.map m) () = .ok (([], none), ()))
    (hextra : ∀ m, fhasBool m k b = true → (fdel m k).length > 0 →
      filter (.map m) () = .ok (([], some Err.extraKeys), ()))
    (l acc : List Val) :
    filterRec filter l acc () =
      .ok (match l.foldlM (popStep k b) acc with
        | .ok r => ((r, none), ())
        | .error e => (([], some e), ())) := by
  induction l generalizing acc with
  | nil => rfl
  | cons x xs ih =>
    rw [foldlM_cons]
    by_cases hm : isMarker k b x = true
    · obtain ⟨m, rfl⟩ : ∃ m, x = .map m := by
        cases x <;> simp [isMarker] at hm
        exact ⟨_, rfl⟩
      have hm' : fhasBool m k b = true := hm
      by_cases hlen : (fdel m k).length = 0
      · rw [filterRec_cons_ok (hok m hm' hlen), popStep_marker_ok acc hm' hlen, List.append_nil]
        exact ih acc
      · have hpos : (fdel m k).length > 0 := by omega
        rw [filterRec_cons_err (hextra m hm' hpos), popStep_marker_extra acc hm' hpos]
    · have hm' : isMarker k b x = false := by simpa using hm
      rw [filterRec_cons_ok (hplain x hm'), popStep_plain acc hm']
      exact ih _

/-- util.go:popListMapBoolValue is the model's `popListMapBool` -/
theorem M_popListMapBoolValue_eq (l : List Val) (k : String) (b : Bool) :
    popListMapBoolValue' l k b = .ok (popRes (popListMapBool l k b)) := by
  unfold popListMapBoolValue'
  rw [T_hasListMapBoolValue_eq, popListMapBool_eq]
  cases hh : hasListMapBool l k b with
  | false => simp [popRes]
  | true =>
    simp only [M_filterList_rec, if_true]
    rw [popListMapBool_rec k b _ _ _ _ l []]
    · cases List.foldlM (popStep k b) [] l <;> simp [popRes]
    · intro x hx
      cases x with
      | map m =>
        have : fhasBool m k b = false := hx
        simp [Go.asMap, T_popMapBoolValue_eq, this]
      | _ => simp [Go.asMap]
    · intro m hm hlen
      have he : fdel m k = [] := List.eq_nil_of_length_eq_zero hlen
      simp [Go.asMap, T_popMapBoolValue_eq, hm, he]
    · intro m hm hlen
      have he : ¬ fdel m k = [] := by
        intro h0; rw [h0] at hlen; simp at hlen
      simp [Go.asMap, T_popMapBoolValue_eq, hm, he]

/-! ## merge.go:mergeListDelete -/

/-- Go's `([]any, error)` of a model result -/
def listRes : R (List Val) → List Val × Option Err
  | .ok r => (r, none)
  | .error e => ([], some e)

/-- mergeListDelete, given that the calls of `match` on the entries answer like the model -/
theorem mergeListDelete_step (f : Nat) (obj : List Val) (del : Val)
    (hm : ∀ v ∈ obj, match' f v del = .ok (matchV v del)) :
    mergeListDelete' (f + 1) obj del = .ok (listRes (mergeListDelete obj del)) := by
  unfold mergeListDelete'
  simp only [M_filterList_rec]
  rw [filterRec_drop (fun v => matchV v del) _ obj _ [] false]
  · unfold mergeListDelete
    cases ha : obj.any (fun v => matchV v del) <;> simp [listRes, R_pure, R_throw]
  · intro x hx found
    rw [hm x hx]
    cases matchV x del <;> simp

/-- merge.go:mergeListDelete is the model's `mergeListDelete` -/
theorem T_mergeListDelete_eq (obj : List Val) (del : Val) (fuel : Nat) (h : 3 * Go.depth del + 2 ≤ fuel) :
    mergeListDelete' fuel obj del = .ok (listRes (mergeListDelete obj del)) := by
  obtain ⟨f, rfl⟩ : ∃ f, fuel = f + 1 := ⟨fuel - 1, by omega⟩
  exact mergeListDelete_step f obj del (fun v _ => T_match_eq v del f (by omega))

/-! ## the results of merge.go:merge as Go pairs -/

/-- the value that merge.go:merge returns next to an error: a nil map / nil slice converted to `any` where the error
    comes from mergeMapMap / mergeList, the nil interface otherwise -/
def mergeErrVal : Val → Val → Val
  | .map _, .map _ => .map []
  | .list _, _ => .list []
  | _, _ => .null

/-- Go's `(any, error)` of the model's `merge dst src` -/
def resOf (dst src : Val) : Val × Option Err :=
  match merge dst src with
  | .ok r => (r, none)
  | .error e => (mergeErrVal dst src, some e)

/-! ## merge.go:mergeListMatch -/

/-- the `$match` step of the model's `mergeEntries` without the rest of the patch -/
def matchOnly (d : List Val) (m upd : Val) : R (List Val) :=
  match d.mapM (fun e => if matchV e m then merge e upd else pure e) with
  | .error e => .error e
  | .ok d' => if d.any (fun e => matchV e m) then .ok d' else .error .noMatchFound

theorem matchStep_eq_matchOnly (d : List Val) (m upd : Val) (rest : List Val) :
    matchStep d m upd rest =
      (match matchOnly d m upd with
       | .error e => .error e
       | .ok d' => mergeEntries d' rest) := by
  unfold matchStep matchOnly
  cases List.mapM (fun e => if matchV e m then merge e upd else pure e) d with
  | error e => rfl
  | ok d' => cases d.any (fun e => matchV e m) <;> rfl

/-- the model of merge.go:mergeListMatch (inlined in the model's `mergeEntries`): `v` is the patch entry without its
    `$match` key -/
def mergeListMatch (obj : List Val) (m : Val) (v : Fields) : R (List Val) :=
  match fget v "$value" with
  | some v2 => if (fdel v "$value").length > 0 then .error .extraKeys else matchOnly obj m v2
  | none => matchOnly obj m (.map v)

/-- the value merged into the matching entries -/
def matchUpd (v : Fields) : Val :=
  match fget v "$value" with
  | some v2 => v2
  | none => .map v

/-- the closure of mergeListMatch -/
theorem filterRec_match (m upd : Val) (filter : Val → Bool → G ((List Val × Option Err) × Bool)) (l : List Val)
    (hf : ∀ x ∈ l, ∀ found, filter x found =
      .ok (if matchV x m then
        (match merge x upd with
         | .ok r => (([r], none), true)
         | .error e => (([], some e), true))
        else (([x], none), found)))
    (acc : List Val) (found : Bool) :
    filterRec filter l acc found =
      .ok (match l.mapM (fun e => if matchV e m then merge e upd else pure e) with
        | .ok d' => ((acc ++ d', none), (found || l.any (fun e => matchV e m)))
        | .error e => (([], some e), true)) := by
  induction l generalizing acc found with
  | nil => rw [mapM_nil]; simp [filterRec_nil]
  | cons x xs ih =>
    have ih' := ih (fun y hy => hf y (List.mem_cons_of_mem _ hy))
    have hx := hf x List.mem_cons_self found
    rw [mapM_cons]
    cases hmx : matchV x m with
    | false =>
      simp only [hmx, Bool.false_eq_true, if_false] at hx
      rw [filterRec_cons_ok hx, ih']
      simp only [Bool.false_eq_true, if_false, R_pure]
      cases List.mapM (fun e => if matchV e m then merge e upd else Except.ok e) xs <;> simp [hmx]
    | true =>
      simp only [hmx, if_true] at hx
      cases hme : merge x upd with
      | error e =>
        simp only [hme] at hx
        rw [filterRec_cons_err hx]
        simp
      | ok r =>
        simp only [hme] at hx
        rw [filterRec_cons_ok hx, ih']
        cases List.mapM (fun e => if matchV e m then merge e upd else pure e) xs <;> simp [hmx]

/-- mergeListMatch, given the answers of the calls it makes -/
theorem mergeListMatch_step (f : Nat) (obj : List Val) (m : Val) (v : Fields)
    (hmatch : ∀ x ∈ obj, match' f x m = .ok (matchV x m))
    (hclone : deepClone' f (matchUpd v) = .ok (matchUpd v, none))
    (hmerge : ∀ x ∈ obj, merge' f x (matchUpd v) = .ok (resOf x (matchUpd v))) :
    mergeListMatch' (f + 1) obj m v = .ok (listRes (mergeListMatch obj m v)) := by
  unfold mergeListMatch'
  simp only [M_filterList_rec, popMapValue_eq_match]
  unfold mergeListMatch
  unfold matchUpd at hclone hmerge
  cases hv : fget v "$value" with
  | none =>
    simp only [hv] at hclone hmerge
    simp only [Bool.false_eq_true, if_false]
    rw [filterRec_match m (.map v) _ obj _ [] false]
    · unfold matchOnly
      cases List.mapM (fun e => if matchV e m then merge e (.map v) else pure e) obj with
      | error e => simp [listRes]
      | ok d' => cases obj.any (fun e => matchV e m) <;> simp [listRes]
    · intro x hx found
      rw [hmatch x hx]
      cases matchV x m with
      | false => simp
      | true =>
        simp only [if_true, hclone, hmerge x hx, resOf]
        cases merge x _ <;> simp
  | some v2 =>
    simp only [hv] at hclone hmerge
    simp only [if_true]
    by_cases hlen : (fdel v "$value").length > 0
    · have he : (fdel v "$value").isEmpty = false := by
        rw [List.isEmpty_eq_false_iff]; intro h0; rw [h0] at hlen; simp at hlen
      simp [hlen, listRes, he]
    · have he : (fdel v "$value").isEmpty = true := by
        rw [List.isEmpty_iff]; exact List.eq_nil_of_length_eq_zero (by omega)
      simp only [he, if_true, hlen, if_false]
      rw [filterRec_match m v2 _ obj _ [] false]
      · unfold matchOnly
        cases List.mapM (fun e => if matchV e m then merge e v2 else pure e) obj with
        | error e => simp [listRes]
        | ok d' => cases obj.any (fun e => matchV e m) <;> simp [listRes]
      · intro x hx found
        rw [hmatch x hx]
        cases matchV x m with
        | false => simp
        | true =>
          simp only [if_true, hclone, hmerge x hx, resOf]
          cases merge x _ <;> simp

/-! ## merge.go:mergeListList -/

/-- one patch entry applied to the target list (the body of the `for _, v := range src` loop) -/
def entryStep (d : List Val) (v : Val) : R (List Val) :=
  match v with
  | .map kvs =>
    match fget kvs "$delete" with
    | some del => if (fdel kvs "$delete").length > 0 then .error .extraKeys else mergeListDelete d del
    | none =>
      match fget kvs "$match" with
      | some m => mergeListMatch d m (fdel kvs "$match")
      | none => .ok (d ++ [v])
  | _ => .ok (d ++ [v])

/-- the model's `mergeEntries`, one entry at a time -/
theorem mergeEntries_cons (d : List Val) (v : Val) (rest : List Val) :
    mergeEntries d (v :: rest) =
      (match entryStep d v with
       | .error e => .error e
       | .ok d' => mergeEntries d' rest) := by
  cases v with
  | map kvs =>
    simp only [entryStep]
    cases hdel : fget kvs "$delete" with
    | some del =>
      simp only []
      by_cases hlen : (fdel kvs "$delete").length > 0
      · rw [mergeEntries_delete_extra d rest hdel hlen]; simp only [hlen, if_true]
      · rw [mergeEntries_delete d rest hdel (by omega)]
        simp only [hlen, if_false, mergeListDelete]
        cases d.any (fun v => matchV v del) <;> simp [R_pure, R_throw]
    | none =>
      simp only []
      cases hm : fget kvs "$match" with
      | none => simp only []; rw [mergeEntries_map_plain d rest hdel hm]
      | some m =>
        simp only [mergeListMatch]
        cases hv : fget (fdel kvs "$match") "$value" with
        | none =>
          simp only []
          rw [mergeEntries_match_novalue d rest hdel hm hv, matchStep_eq_matchOnly]
        | some v2 =>
          simp only []
          by_cases hlen : (fdel (fdel kvs "$match") "$value").length > 0
          · rw [mergeEntries_match_value_extra d rest hdel hm hv hlen]; simp only [hlen, if_true]
          · rw [mergeEntries_match_value d rest hdel hm hv (by omega), matchStep_eq_matchOnly]
            simp only [hlen, if_false]
  | _ => rw [mergeEntries_nonmap d rest rfl]; rfl

/-- the loop of mergeListList over an abstract body -/
theorem mergeListList_loop (s : List Val)
    (body : Val → (List Val × Option Err) → G (Loop (List Val × Option Err) (List Val × Option Err)))
    (hbody : ∀ v ∈ s, ∀ d, body v (d, none) =
      .ok (match entryStep d v with
        | .ok d' => .next (d', none)
        | .error e => .ret ([], some e)))
    (d : List Val) :
    forRange s (d, (none : Option Err)) body =
      .ok (match mergeEntries d s with
        | .ok r => .inl (r, none)
        | .error e => .inr ([], some e)) := by
  induction s generalizing d with
  | nil => rw [mergeEntries_nil]; rfl
  | cons v rest ih =>
    have hv := hbody v List.mem_cons_self d
    rw [mergeEntries_cons]
    cases hes : entryStep d v with
    | error e =>
      rw [hes] at hv
      rw [forRange_cons_ret hv]
    | ok d' =>
      rw [hes] at hv
      rw [forRange_cons_next hv]
      exact ih (fun y hy => hbody y (List.mem_cons_of_mem _ hy)) d'

/-- the model's `mergeListList` before the final wrapping in `.list` -/
def mergeListListL (d s : List Val) : R (List Val) :=
  if s.any (fun x => x == Val.str "$replace") then .ok (s.filter (fun x => !(x == Val.str "$replace")))
  else match popListMapBool s "$replace" true with
    | .error e => .error e
    | .ok (rep2, s2) => if rep2 then .ok s2 else mergeEntries (dropRequired d) s

theorem mergeListList_eq_L (d s : List Val) : mergeListList d s = (mergeListListL d s).map Val.list := by
  unfold mergeListListL
  cases h : s.any (fun x => x == Val.str "$replace") with
  | true => rw [mergeListList_replace_string d h]; rfl
  | false =>
    rw [mergeListList_no_string d h]
    simp only [Bool.false_eq_true, if_false]
    cases popListMapBool s "$replace" true with
    | error e => rfl
    | ok p =>
      obtain ⟨rep2, s2⟩ := p
      cases rep2 with
      | true => rfl
      | false =>
        simp only [Bool.false_eq_true, if_false]
        cases mergeEntries (dropRequired d) s <;> rfl

/-- when `popListMapBool` finds no marker it returns the list itself -/
theorem popListMapBool_false {l : List Val} {k : String} {b : Bool} {r : List Val}
    (h : popListMapBool l k b = .ok (false, r)) : r = l := by
  rw [popListMapBool_eq] at h
  split at h
  · cases h; rfl
  · split at h <;> cases h

/-- mergeListList, given the answers of the calls it makes -/
theorem mergeListList_step (f : Nat) (d s : List Val)
    (hdel : ∀ kvs del, Val.map kvs ∈ s → fget kvs "$delete" = some del →
      ∀ d, mergeListDelete' f d del = .ok (listRes (mergeListDelete d del)))
    (hmat : ∀ kvs m, Val.map kvs ∈ s → fget kvs "$delete" = none → fget kvs "$match" = some m →
      ∀ d, mergeListMatch' f d m (fdel kvs "$match") = .ok (listRes (mergeListMatch d m (fdel kvs "$match")))) :
    mergeListList' (f + 1) d s = .ok (listRes (mergeListListL d s)) := by
  unfold mergeListList' mergeListListL
  simp only [M_popListString_eq, popListString]
  cases hany : s.any (fun x => x == Val.str "$replace") with
  | true => simp [listRes]
  | false =>
    have hfilt : s.filter (fun x => !(x == Val.str "$replace")) = s := by
      rw [List.filter_eq_self]
      intro x hx
      have := (List.any_eq_false.1 hany) x hx
      simpa using this
    simp only [Bool.false_eq_true, if_false, hfilt, M_popListMapBoolValue_eq]
    cases hpop : popListMapBool s "$replace" true with
    | error e => simp [popRes, listRes]
    | ok p =>
      obtain ⟨rep2, s2⟩ := p
      cases rep2 with
      | true => simp [popRes, listRes]
      | false =>
        have hs2 : s2 = s := popListMapBool_false hpop
        subst hs2
        simp only [popRes, Bool.false_eq_true, if_false]
        unfold dropRequired
        rw [mergeListList_loop s2 _ _ (List.filter (fun x => !(x == Val.str "$required")) d)]
        · cases mergeEntries (List.filter (fun x => !(x == Val.str "$required")) d) s2 <;> simp [listRes]
        · intro v hv d0
          cases v with
          | map kvs =>
            simp only [Go.asMap, if_true, popMapValue_eq_match, entryStep]
            cases hd : fget kvs "$delete" with
            | some del =>
              simp only [if_true]
              by_cases hlen : (fdel kvs "$delete").length > 0
              · have he : (fdel kvs "$delete").isEmpty = false := by
                  rw [List.isEmpty_eq_false_iff]; intro h0; rw [h0] at hlen; simp at hlen
                simp [hlen, he]
              · have he : (fdel kvs "$delete").isEmpty = true := by
                  rw [List.isEmpty_iff]; exact List.eq_nil_of_length_eq_zero (by omega)
                simp only [he, if_true, if_false, hlen, hdel kvs del hv hd d0]
                cases mergeListDelete d0 del <;> simp [listRes]
            | none =>
              simp only [Bool.false_eq_true, if_false]
              cases hm : fget kvs "$match" with
              | none => simp
              | some m =>
                simp only [if_true, hmat kvs m hv hd hm d0]
                cases mergeListMatch d0 m (fdel kvs "$match") <;> simp [listRes]
          | _ => simp [Go.asMap, entryStep]

/-! ## merge.go:mergeMapMap -/

/-- Go's `(map[string]any, error)` of a model result -/
def fieldsRes : R Fields → Fields × Option Err
  | .ok r => (r, none)
  | .error e => ([], some e)

/-- one patch entry applied to the target map (the body of the `for k, v := range src` loop) -/
def fieldStep (d : Fields) (k : String) (v : Val) : R Fields :=
  if v.toStr = "$delete" then
    (if fget d k ≠ none then .ok (fdel d k) else .error .uselessOverride)
  else match fget d k with
    | some e =>
      (match merge e v with
       | .error err => .error err
       | .ok v2 => .ok (fset d k v2))
    | none => .ok (fset d k v)

theorem mergeFields_cons_step (d : Fields) (k : String) (v : Val) (rest : Fields) :
    mergeFields d ((k, v) :: rest) =
      (match fieldStep d k v with
       | .error e => .error e
       | .ok d' => mergeFields d' rest) := by
  rw [mergeFields_cons]
  unfold fieldStep
  by_cases hv : v.toStr = "$delete"
  · simp only [hv, if_true]
    by_cases hg : fget d k ≠ none
    · rw [if_pos hg, if_pos hg]
    · rw [if_neg hg, if_neg hg]
  · simp only [hv, if_false]
    cases fget d k with
    | none => rfl
    | some e => simp only []; cases merge e v <;> rfl

/-- the loop of mergeMapMap over an abstract body -/
theorem mergeMapMap_loop (s : Fields)
    (body : (String × Val) → Fields → G (Loop Fields (Fields × Option Err)))
    (hbody : ∀ p ∈ s, ∀ d, body p d =
      .ok (match fieldStep d p.1 p.2 with
        | .ok d' => .next d'
        | .error e => .ret ([], some e)))
    (d : Fields) :
    forRange s d body =
      .ok (match mergeFields d s with
        | .ok r => .inl r
        | .error e => .inr ([], some e)) := by
  induction s generalizing d with
  | nil => rw [mergeFields_nil]; rfl
  | cons p rest ih =>
    obtain ⟨k, v⟩ := p
    have hv := hbody (k, v) List.mem_cons_self d
    rw [mergeFields_cons_step]
    cases hes : fieldStep d k v with
    | error e =>
      simp only [hes] at hv
      rw [forRange_cons_ret hv]
    | ok d' =>
      simp only [hes] at hv
      rw [forRange_cons_next hv]
      exact ih (fun y hy => hbody y (List.mem_cons_of_mem _ hy)) d'

/-- the model's `mergeMapMap` before the final wrapping in `.map` -/
def mergeMapMapF (d s : Fields) : R Fields :=
  if fhasBool s "$replace" true then .ok (fdel s "$replace") else mergeFields d s

theorem mergeMapMap_eq_F (d s : Fields) : mergeMapMap d s = (mergeMapMapF d s).map Val.map := by
  unfold mergeMapMapF
  cases h : fhasBool s "$replace" true with
  | true => rw [mergeMapMap_replace h]; rfl
  | false => rw [mergeMapMap_noreplace h]; rfl

theorem getMapBoolValue_and (s : Fields) (k : String) :
    ∃ r fnd, getMapBoolValue' s k = .ok (r, fnd) ∧ (fnd && r) = fhasBool s k true := by
  rw [T_getMapBoolValue_eq]
  unfold fhasBool
  cases fget s k with
  | none => exact ⟨_, _, rfl, rfl⟩
  | some v => cases v <;> first | exact ⟨_, _, rfl, rfl⟩ | exact ⟨_, _, rfl, by simp⟩

/-- mergeMapMap, given the answers of the calls it makes -/
theorem mergeMapMap_step (f : Nat) (d s : Fields)
    (hmerge : ∀ p ∈ s, ∀ e, merge' f e p.2 = .ok (resOf e p.2))
    (hclone : ∀ p ∈ s, deepClone' f p.2 = .ok (p.2, none)) :
    mergeMapMap' (f + 1) d s = .ok (fieldsRes (mergeMapMapF d s)) := by
  unfold mergeMapMap' mergeMapMapF
  obtain ⟨r, fnd, h1, h2⟩ := getMapBoolValue_and s "$replace"
  simp only [h1]
  rw [h2]
  cases hrep : fhasBool s "$replace" true with
  | true => simp [fieldsRes]
  | false =>
    simp only [Bool.false_eq_true, if_false]
    rw [mergeMapMap_loop s _ _ d]
    · cases mergeFields d s <;> simp [fieldsRes]
    · intro p hp d0
      obtain ⟨k, v⟩ := p
      simp only [T_toString_eq, beq_iff_eq]
      cases hg : fget d0 k with
      | none =>
        simp only [Go.mapIndex2, fieldStep, hg]
        by_cases hv : v.toStr = "$delete"
        · simp [hv]
        · have := hclone (k, v) hp
          simp only [] at this
          simp [hv, this]
      | some e =>
        simp only [Go.mapIndex2, fieldStep, hg]
        by_cases hv : v.toStr = "$delete"
        · simp [hv]
        · have := hmerge (k, v) hp e
          simp only [] at this
          simp only [hv, if_false, if_true, this, resOf]
          cases merge e v <;> simp

/-! ## merge.go:mergeMap, mergeList, merge -/

/-- the model's `merge` on a list target, before the final wrapping in `.list` -/
def mergeListL (d : List Val) (src : Val) : R (List Val) :=
  match src with
  | .list s => mergeListListL d s
  | .null => .ok d
  | _ => .error .invalidType

theorem merge_list_eq_L (d : List Val) (src : Val) : merge (.list d) src = (mergeListL d src).map Val.list := by
  cases src with
  | list s => rw [merge_list_list, mergeListList_eq_L]; rfl
  | null => rw [merge_list_null]; rfl
  | _ => rw [merge_list_other _ _ rfl rfl]; rfl

theorem mergeMap_step (f : Nat) (d : Fields) (src : Val)
    (h : ∀ s, src = .map s → mergeMapMap' f d s = .ok (fieldsRes (mergeMapMapF d s))) :
    mergeMap' (f + 1) d src = .ok (resOf (.map d) src) := by
  unfold mergeMap' resOf
  cases src with
  | map s =>
    simp only [h s rfl, merge_map_map, mergeMapMap_eq_F]
    cases mergeMapMapF d s <;> simp [fieldsRes, mergeErrVal, Except.map]
  | null => simp [merge_map_null]
  | _ =>
    rw [merge_map_other _ _ rfl rfl]
    cases d <;> simp [mergeErrVal] <;> omega

theorem mergeList_step (f : Nat) (d : List Val) (src : Val)
    (h : ∀ s, src = .list s → mergeListList' f d s = .ok (listRes (mergeListListL d s))) :
    mergeList' (f + 1) d src = .ok (listRes (mergeListL d src)) := by
  unfold mergeList' mergeListL
  cases src with
  | list s =>
    simp only [h s rfl]
  | _ => simp [listRes]

theorem merge_step (f : Nat) (dst src : Val)
    (hmap : ∀ d, dst = .map d → mergeMap' f d src = .ok (resOf (.map d) src))
    (hlist : ∀ d, dst = .list d → mergeList' f d src = .ok (listRes (mergeListL d src))) :
    merge' (f + 1) dst src = .ok (resOf dst src) := by
  unfold merge'
  cases dst with
  | map d => simp only [hmap d rfl]
  | list d =>
    simp only [hlist d rfl]
    unfold resOf
    rw [merge_list_eq_L]
    cases mergeListL d src <;> simp [listRes, mergeErrVal, Except.map]
  | null => simp [resOf, merge_null]
  | _ =>
    simp only [resOf]
    rw [merge_scalar _ _ rfl]
    split <;> simp_all [mergeErrVal]

/-! ## depth and well-formedness of the pieces of a patch -/

theorem depthFields_fdel_le (m : Fields) (k : String) : Go.depthFields (fdel m k) ≤ Go.depthFields m := by
  induction m with
  | nil => simp [fdel]
  | cons p rest ih =>
    obtain ⟨k', v'⟩ := p
    simp only [fdel]
    split
    · simp only [Go.depthFields]; omega
    · simp only [Go.depthFields]; omega

theorem depth_le_of_fget {m : Fields} {k : String} {v : Val} (h : fget m k = some v) :
    Go.depth v ≤ Go.depthFields m :=
  Go.depth_le_of_mem_fields (fget_mem h)

theorem depth_matchUpd_le (v : Fields) : Go.depth (matchUpd v) ≤ Go.depthFields v + 1 := by
  unfold matchUpd
  cases h : fget v "$value" with
  | none => simp [Go.depth]
  | some v2 => have := depth_le_of_fget h; simp only []; omega

theorem wf_matchUpd {v : Fields} (h : Val.WF (.map v)) : Val.WF (matchUpd v) := by
  unfold matchUpd
  cases hv : fget v "$value" with
  | none => exact h
  | some v2 => exact wf_of_fget h hv

/-! ## the main induction -/

theorem merge_eq_aux : ∀ (n : Nat) (src : Val), Go.depth src ≤ n → Val.WF src → ∀ fuel, 4 * n + 2 ≤ fuel →
    ∀ dst, merge' fuel dst src = .ok (resOf dst src) := by
  intro n
  induction n with
  | zero =>
    intro src hd _ fuel hf dst
    obtain ⟨f, rfl⟩ : ∃ f, fuel = f + 2 := ⟨fuel - 2, by omega⟩
    refine merge_step (f + 1) dst src (fun d _ => mergeMap_step f d src ?_) (fun d _ => mergeList_step f d src ?_)
    · intro s hs; subst hs; simp [Go.depth] at hd
    · intro s hs; subst hs; simp [Go.depth] at hd
  | succ m ih =>
    intro src hd hwf fuel hf dst
    obtain ⟨f, rfl⟩ : ∃ f, fuel = f + 4 := ⟨fuel - 4, by omega⟩
    refine merge_step (f + 3) dst src (fun d _ => mergeMap_step (f + 2) d src ?_)
      (fun d _ => mergeList_step (f + 2) d src ?_)
    · -- map patch
      intro s hs; subst hs
      simp only [Go.depth] at hd
      have hwf' := (wf_map_iff.1 hwf).2
      refine mergeMapMap_step (f + 1) d s ?_ ?_
      · intro p hp e
        have := Go.depth_le_of_mem_fields (k := p.1) (v := p.2) hp
        exact ih p.2 (by omega) (hwf' p hp) (f + 1) (by omega) e
      · intro p hp
        have := Go.depth_le_of_mem_fields (k := p.1) (v := p.2) hp
        exact T_deepClone_eq p.2 (hwf' p hp) (f + 1) (by omega)
    · -- list patch
      intro s hs; subst hs
      simp only [Go.depth] at hd
      have hwf' := wf_list_iff.1 hwf
      refine mergeListList_step (f + 1) d s ?_ ?_
      · intro kvs del hmem hdel d0
        have h1 := Go.depth_le_of_mem_list hmem
        have h2 := depth_le_of_fget hdel
        simp only [Go.depth] at h1
        exact T_mergeListDelete_eq d0 del (f + 1) (by omega)
      · intro kvs pm hmem _ hm d0
        have h1 := Go.depth_le_of_mem_list hmem
        have h2 := depth_le_of_fget hm
        have h3 := depthFields_fdel_le kvs "$match"
        have h4 := depth_matchUpd_le (fdel kvs "$match")
        simp only [Go.depth] at h1
        have hwu : Val.WF (matchUpd (fdel kvs "$match")) := wf_matchUpd (wf_fdel (hwf' _ hmem))
        refine mergeListMatch_step f d0 pm (fdel kvs "$match") ?_ ?_ ?_
        · intro x _
          exact T_match_eq x pm f (by omega)
        · exact T_deepClone_eq _ hwu f (by omega)
        · intro x _
          exact ih _ (by omega) hwu f (by omega) x

/-- merge.go:merge, as translated from the current source, is the model's `merge` for a well-formed patch (nothing is
    asked of the target): the same value, or the same error class next to Go's nil -/
theorem T_merge_eq (dst src : Val) (hs : Val.WF src) (fuel : Nat) (h : 4 * Go.depth src + 2 ≤ fuel) :
    merge' fuel dst src = .ok (resOf dst src) :=
  merge_eq_aux (Go.depth src) src (Nat.le_refl _) hs fuel h dst

/-- non-vacuity of `T_merge_eq`: a well-formed patch with a `$match` entry, and enough fuel -/
example : Val.WF (.list [.map [("$match", .map [("n", .int 1)]), ("x", .list [.str "a"])]]) ∧
    4 * Go.depth (.list [.map [("$match", .map [("n", .int 1)]), ("x", .list [.str "a"])]]) + 2 ≤ 14 := by decide

/-! ## the other functions of merge.go, each with its own fuel bound -/

/-- merge.go:mergeListMatch (`v` = the patch entry without `$match`) is the model's `$match` step -/
theorem T_mergeListMatch_eq (obj : List Val) (m : Val) (v : Fields) (hv : Val.WF (.map v)) (fuel : Nat)
    (h1 : 3 * Go.depth m + 2 ≤ fuel) (h2 : 4 * Go.depthFields v + 7 ≤ fuel) :
    mergeListMatch' fuel obj m v = .ok (listRes (mergeListMatch obj m v)) := by
  obtain ⟨f, rfl⟩ : ∃ f, fuel = f + 1 := ⟨fuel - 1, by omega⟩
  have h3 := depth_matchUpd_le v
  have hwu := wf_matchUpd hv
  exact mergeListMatch_step f obj m v (fun x _ => T_match_eq x m f (by omega))
    (T_deepClone_eq _ hwu f (by omega)) (fun x _ => T_merge_eq x _ hwu f (by omega))

example : Val.WF (.map [("$value", .map [("a", .int 1)])]) ∧ 3 * Go.depth (.map [("n", .int 1)]) + 2 ≤ 15 ∧
    4 * Go.depthFields [("$value", .map [("a", .int 1)])] + 7 ≤ 15 := by decide

/-- merge.go:mergeListList is the model's `mergeListList` (before the wrapping in `.list`) -/
theorem T_mergeListList_eq (d s : List Val) (hs : Val.WF (.list s)) (fuel : Nat)
    (h : 4 * Go.depthList s + 4 ≤ fuel) :
    mergeListList' fuel d s = .ok (listRes (mergeListListL d s)) := by
  obtain ⟨f, rfl⟩ : ∃ f, fuel = f + 1 := ⟨fuel - 1, by omega⟩
  have hwf' := wf_list_iff.1 hs
  refine mergeListList_step f d s ?_ ?_
  · intro kvs del hmem hdel d0
    have h1 := Go.depth_le_of_mem_list hmem
    have h2 := depth_le_of_fget hdel
    simp only [Go.depth] at h1
    exact T_mergeListDelete_eq d0 del f (by omega)
  · intro kvs pm hmem _ hm d0
    have h1 := Go.depth_le_of_mem_list hmem
    have h2 := depth_le_of_fget hm
    have h3 := depthFields_fdel_le kvs "$match"
    simp only [Go.depth] at h1
    exact T_mergeListMatch_eq d0 pm _ (wf_fdel (hwf' _ hmem)) f (by omega) (by omega)

example : Val.WF (.list [.map [("$delete", .int 1)], .str "x"]) ∧
    4 * Go.depthList [.map [("$delete", .int 1)], .str "x"] + 4 ≤ 8 := by decide

/-- … in terms of the model's `mergeListList` itself -/
theorem T_mergeListList_eq_model (d s : List Val) (hs : Val.WF (.list s)) (fuel : Nat)
    (h : 4 * Go.depthList s + 4 ≤ fuel) :
    (fun p => (Val.list p.1, p.2)) <$> mergeListList' fuel d s = .ok (resOf (.list d) (.list s)) := by
  rw [T_mergeListList_eq d s hs fuel h]
  unfold resOf
  rw [merge_list_list, mergeListList_eq_L]
  cases mergeListListL d s <;> rfl

/-- merge.go:mergeList -/
theorem T_mergeList_eq (d : List Val) (src : Val) (hs : Val.WF src) (fuel : Nat)
    (h : 4 * Go.depth src + 1 ≤ fuel) :
    mergeList' fuel d src = .ok (listRes (mergeListL d src)) := by
  obtain ⟨f, rfl⟩ : ∃ f, fuel = f + 1 := ⟨fuel - 1, by omega⟩
  refine mergeList_step f d src ?_
  intro s hsrc; subst hsrc
  simp only [Go.depth] at h
  exact T_mergeListList_eq d s hs f (by omega)

/-- … in terms of the model's `merge` on a list target -/
theorem T_mergeList_eq_model (d : List Val) (src : Val) (hs : Val.WF src) (fuel : Nat)
    (h : 4 * Go.depth src + 1 ≤ fuel) :
    (fun p => (Val.list p.1, p.2)) <$> mergeList' fuel d src = .ok (resOf (.list d) src) := by
  rw [T_mergeList_eq d src hs fuel h]
  unfold resOf
  rw [merge_list_eq_L]
  cases mergeListL d src <;> rfl

/-- merge.go:mergeMapMap is the model's `mergeMapMap` (before the wrapping in `.map`); only the VALUES of the patch have
    to be well-formed (they are deep-cloned), the key order of the patch itself is followed by both sides -/
theorem T_mergeMapMap_eq (d s : Fields) (hs : ∀ p ∈ s, Val.WF p.2) (fuel : Nat)
    (h : 4 * Go.depthFields s + 3 ≤ fuel) :
    mergeMapMap' fuel d s = .ok (fieldsRes (mergeMapMapF d s)) := by
  obtain ⟨f, rfl⟩ : ∃ f, fuel = f + 1 := ⟨fuel - 1, by omega⟩
  refine mergeMapMap_step f d s ?_ ?_
  · intro p hp e
    have := Go.depth_le_of_mem_fields (k := p.1) (v := p.2) hp
    exact T_merge_eq e p.2 (hs p hp) f (by omega)
  · intro p hp
    have := Go.depth_le_of_mem_fields (k := p.1) (v := p.2) hp
    exact T_deepClone_eq p.2 (hs p hp) f (by omega)

/-- non-vacuity, with a patch whose own keys are out of order (allowed here) -/
example : (∀ p ∈ ([("b", .map [("x", .null)]), ("a", .int 1)] : Fields), Val.WF p.2) ∧
    4 * Go.depthFields [("b", .map [("x", .null)]), ("a", .int 1)] + 3 ≤ 7 := by decide

/-- … in terms of the model's `mergeMapMap` itself -/
theorem T_mergeMapMap_eq_model (d s : Fields) (hs : ∀ p ∈ s, Val.WF p.2) (fuel : Nat)
    (h : 4 * Go.depthFields s + 3 ≤ fuel) :
    (fun p => (Val.map p.1, p.2)) <$> mergeMapMap' fuel d s = .ok (resOf (.map d) (.map s)) := by
  rw [T_mergeMapMap_eq d s hs fuel h]
  unfold resOf
  rw [merge_map_map, mergeMapMap_eq_F]
  cases mergeMapMapF d s <;> rfl

/-- merge.go:mergeMap is the model's `merge` on a map target -/
theorem T_mergeMap_eq (d : Fields) (src : Val) (hs : Val.WF src) (fuel : Nat)
    (h : 4 * Go.depth src + 1 ≤ fuel) :
    mergeMap' fuel d src = .ok (resOf (.map d) src) := by
  obtain ⟨f, rfl⟩ : ∃ f, fuel = f + 1 := ⟨fuel - 1, by omega⟩
  refine mergeMap_step f d src ?_
  intro s hsrc; subst hsrc
  simp only [Go.depth] at h
  exact T_mergeMapMap_eq d s (wf_map_iff.1 hs).2 f (by omega)

example : Val.WF (.map [("a", .map [("x", .null)])]) ∧ 4 * Go.depth (.map [("a", .map [("x", .null)])]) + 1 ≤ 9 := by
  decide

/-- the entries that the model's `mergeEntries` handles inline are merge.go's two helpers -/
theorem mergeEntries_eq_steps (d : List Val) (v : Val) (rest : List Val) :
    mergeEntries d (v :: rest) =
      (match entryStep d v with
       | .error e => .error e
       | .ok d' => mergeEntries d' rest) := mergeEntries_cons d v rest

/-! ## the hypothesis `Val.WF src` is needed; nothing is needed of `dst` -/

/-- a patch value with an unsorted map, stored under a key that is new to the target: Go deep-clones it (and the
    clone comes back key-sorted), the model stores it as it is -/
theorem merge_unsorted_patch_go :
    merge' 6 (.map []) (.map [("k", .map [("b", .null), ("a", .null)])])
      = .ok (.map [("k", .map [("a", .null), ("b", .null)])], none) := by rfl

theorem merge_unsorted_patch_model :
    merge (.map []) (.map [("k", .map [("b", .null), ("a", .null)])])
      = .ok (.map [("k", .map [("b", .null), ("a", .null)])]) := by
  simp [merge_map_map, mergeMapMap_noreplace, fhasBool, fget, mergeFields_cons, mergeFields_nil, Val.toStr, fset,
    Except.map]

/-- hence `T_merge_eq` fails without `Val.WF src` (here with more than enough fuel) -/
theorem merge_unsorted_patch_differs :
    merge' 6 (.map []) (.map [("k", .map [("b", .null), ("a", .null)])])
      ≠ .ok (resOf (.map []) (.map [("k", .map [("b", .null), ("a", .null)])])) := by
  rw [merge_unsorted_patch_go, resOf, merge_unsorted_patch_model]
  intro h
  have h' : Val.map [("k", Val.map [("a", Val.null), ("b", Val.null)])] =
      Val.map [("k", Val.map [("b", Val.null), ("a", Val.null)])] := by
    injection h with h; exact (Prod.mk.inj h).1
  exact absurd h' (by decide)

/-- the same through a `$match` entry of a list patch (the merged value is deep-cloned per matching entry) -/
theorem merge_unsorted_match_go :
    merge' 10 (.list [.null]) (.list [.map [("$match", .null), ("$value", .map [("b", .null), ("a", .null)])]])
      = .ok (.list [.map [("a", .null), ("b", .null)]], none) := by rfl

theorem merge_unsorted_match_model :
    merge (.list [.null]) (.list [.map [("$match", .null), ("$value", .map [("b", .null), ("a", .null)])]])
      = .ok (.list [.map [("b", .null), ("a", .null)]]) := by
  rw [merge_list_eq_L]
  simp [mergeListL, mergeListListL, popListMapBool_eq, hasListMapBool_eq, isMarker, fhasBool, fget, dropRequired,
    mergeEntries_cons, mergeEntries_nil, entryStep, mergeListMatch, fdel, matchOnly, matchV,
    merge_null, Except.map]
  rfl

/-- a target that is NOT well-formed (keys out of order) is fine: both sides use the same `fget`/`fset`/`fdel` -/
example : merge' 6 (.map [("b", .int 1), ("a", .int 2)]) (.map [("a", .int 3)])
    = .ok (resOf (.map [("b", .int 1), ("a", .int 2)]) (.map [("a", .int 3)])) :=
  T_merge_eq _ _ (by decide) 6 (by decide)

/-- fuel: the translated function does not finish on too little -/
example : merge' 2 (.map [("a", .int 1)]) (.map [("a", .int 2)]) = .error GErr.fuel := by rfl

/-- the error results carry Go's typed nils: a nil map from mergeMapMap, a nil slice from mergeList, nil otherwise -/
example : merge' 6 (.map [("a", .int 1)]) (.map [("a", .int 1)]) = .ok (.map [], some Err.uselessOverride) := by rfl
example : merge' 6 (.list []) (.int 1) = .ok (.list [], some Err.invalidType) := by rfl
example : merge' 6 (.map [("a", .int 1)]) (.int 1) = .ok (.null, some Err.invalidType) := by rfl
example : merge' 6 (.int 1) (.int 1) = .ok (.null, some Err.uselessOverride) := by rfl

end Bkl.Gen.Lib
