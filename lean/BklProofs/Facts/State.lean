/-
  Fact obligation F12 (state): every field of every struct type of package bkl, regenerated from
  /repo on every run.  The model's state is exactly: the parser's ordered documents with their
  parent links (Bkl.Parser.PState), the root configuration (Bkl.Files.RootCfg), a file's path /
  child chain / documents while loading (Bkl.Files.LFile), and the per-evaluation variable table
  (Bkl.Process2.Vars).  A new field is new state — a cache, a memo, a buffer, a handle — that the
  value-semantic model does not have; then "output is a pure observation" (C19), "nothing outside
  the root is read" (C18) and "evaluation is a function of its inputs" (C09) are no longer shown.
-/
import Bkl
import Generated.Facts
namespace Bkl

/-- (file, type, "field type") and the model component that carries the same information -/
def expectedStructFields : List ((String × String × String) × String) := [
  (("document.go", "Document", "Data any"), "Doc.data"),
  (("document.go", "Document", "ID string"), "Doc.id"),
  (("document.go", "Document", "Parents []*Document"), "PState.known (direct parents by id)"),
  (("evalcontext.go", "EvalContext", "Vars map[string]any"), "Vars"),
  (("file.go", "file", "child *file"), "the child chain argument of loadFileAndParents (cycle check)"),
  (("file.go", "file", "docs []*Document"), "LFile.docs"),
  (("file.go", "file", "id string"), "LFile.id"),
  (("file.go", "file", "origPath string"), "LFile.path (as given)"),
  (("file.go", "file", "path string"), "the resolved path used for the filename rule"),
  (("formats.go", "Format", "MarshalStream *ast.FuncType"), "Codec.enc / stream writers (Bkl.Stream)"),
  (("formats.go", "Format", "UnmarshalStream *ast.FuncType"), "Codec.dec / stream readers (Bkl.Stream)"),
  (("parser.go", "Parser", "debug bool"), "not modelled: logging only"),
  (("parser.go", "Parser", "docs []*Document"), "PState.docs"),
  (("parser.go", "Parser", "root *os.Root"), "RootCfg.root"),
  (("parser.go", "Parser", "rootPath string"), "RootCfg.root")]

/-- F12: package bkl keeps no state beyond what the model carries -/
theorem F12_no_hidden_state : Facts.structFields = expectedStructFields.map (·.1) := by decide

/-- F13: the tools and the wrapper keep no state between calls: their only package-level variable is an error
    sentinel and their only struct types are the option records filled by the flag parser (the `-f`, `-o`, `-r`,
    `-P`, `-v` options the model's `CliOpts` / `ToolOpts` carry; `CPUProfile`, `Verbose`, `Version` do not affect
    the result) -/
theorem F13_tools_stateless : Facts.toolState = [
    ("cmd/bkl", "field options", "CPUProfile"), ("cmd/bkl", "field options", "OutputFormat"),
    ("cmd/bkl", "field options", "OutputPath"), ("cmd/bkl", "field options", "Positional"),
    ("cmd/bkl", "field options", "RootPath"), ("cmd/bkl", "field options", "SkipParent"),
    ("cmd/bkl", "field options", "Verbose"), ("cmd/bkl", "field options", "Version"),
    ("cmd/bkld", "field options", "OutputFormat"), ("cmd/bkld", "field options", "OutputPath"),
    ("cmd/bkld", "field options", "Positional"), ("cmd/bkld", "var", "errReplaceParent"),
    ("cmd/bkli", "field options", "OutputFormat"), ("cmd/bkli", "field options", "OutputPath"),
    ("cmd/bkli", "field options", "Positional"),
    ("cmd/bklr", "field options", "OutputFormat"), ("cmd/bklr", "field options", "OutputPath"),
    ("cmd/bklr", "field options", "Positional")] := by decide

end Bkl
