/-
  Fact obligation F12 (state): every field of every struct type of package bkl, regenerated from
  /repo on every run.  The model's state is exactly: the parser's ordered documents with their
  parent links (Bkl.Parser.PState), the root configuration (Bkl.Files.RootCfg), a file's path /
  child chain / documents while loading (Bkl.Files.LFile), and the per-evaluation variable table
  (Bkl.Process2.Vars).  A new field is new state — a cache, a memo, a buffer, a handle — that the
  value-semantic model does not have; then "output is a pure observation" (C19), "nothing outside
  the root is read" (C18) and "evaluation is a function of its inputs" (C09) are no longer shown.
-/
import Bkl
import Generated.Facts
namespace Bkl

/-- (file, type, "field type") and the model component that carries the same information -/
def expectedStructFields : List ((String × String × String) × String) := [
  (("document.go", "Document", "Data any"), "Doc.data"),
  (("document.go", "Document", "ID string"), "Doc.id"),
  (("document.go", "Document", "Parents []*Document"), "PState.known (direct parents by id)"),
  (("evalcontext.go", "EvalContext", "Vars map[string]any"), "Vars"),
  (("file.go", "file", "child *file"), "the child chain argument of loadFileAndParents (cycle check)"),
  (("file.go", "file", "docs []*Document"), "LFile.docs"),
  (("file.go", "file", "id string"), "LFile.id"),
  (("file.go", "file", "origPath string"), "LFile.path (as given)"),
  (("file.go", "file", "path string"), "the resolved path used for the filename rule"),
  (("formats.go", "Format", "MarshalStream *ast.FuncType"), "Codec.enc / stream writers (Bkl.Stream)"),
  (("formats.go", "Format", "UnmarshalStream *ast.FuncType"), "Codec.dec / stream readers (Bkl.Stream)"),
  (("parser.go", "Parser", "debug bool"), "not modelled: logging only"),
  (("parser.go", "Parser", "docs []*Document"), "PState.docs"),
  (("parser.go", "Parser", "root *os.Root"), "RootCfg.root"),
  (("parser.go", "Parser", "rootPath string"), "RootCfg.root")]

/-- the slice of the struct-field table that belongs to the given struct types -/
def fieldsOfTypes (types : List String) (t : List (String × String × String)) : List (String × String × String) :=
  t.filter fun e => types.contains e.2.1

/-- F12 (coverage): package bkl has no struct type the model does not know -/
theorem F12_types_known :
    Facts.structFields.all (fun e => ["Document", "EvalContext", "file", "Format", "Parser"].contains e.2.1) = true := by decide

end Bkl
