/-
  Source-level laws (C06): property theorems of the model composed with the translation-equivalence theorems, i.e. stated
  directly about the Lean functions generated from the CURRENT Go source (Generated/Trans).  Corollaries only.
-/
import BklProofs.C06
import BklProofs.Facts.TransFinalize
import BklProofs.Facts.SourceC01
namespace Bkl.Gen.Lib
open Bkl Go

/-! # C06 on `finalizeString'` / `finalizeOutput'` -/

/-- doubling does not change the nesting depth (so the fuel bound can be stated on the original value) -/
theorem S_depth_double_all :
    (∀ v, Go.depth (double v) = Go.depth v) ∧
    (∀ xs, Go.depthList (doubleList xs) = Go.depthList xs) ∧
    (∀ kvs, Go.depthFields (doubleFields kvs) = Go.depthFields kvs) := by
  apply e_Val_induct
  case null | bool | int | flt | str => intros; simp [double, Go.depth]
  case list => intro xs ih; simp only [double, Go.depth, ih]
  case map => intro xs ih; simp only [double, Go.depth, ih]
  case lnil => rfl
  case lcons => intro x xs h1 h2; simp only [doubleList, Go.depthList, h1, h2]
  case fnil => rfl
  case fcons => intro k v rest h1 h2; simp only [doubleFields, Go.depthFields, h1, h2]

/-- un-escaping after doubling is the identity, one string (`unescape_double` / `finalizeString_double`) -/
theorem S_C06_finalizeString_double (s : String) : finalizeString' (doubleStr s) = .ok s := by
  rw [T_finalizeString_eq, finalizeString_double]

/-- the same on character lists: what the translated function computes is `unescapeChars`, and that undoes
    `doubleChars` -/
theorem S_C06_unescape_double (cs : List Char) :
    finalizeString' (String.ofList (doubleChars cs)) = .ok (String.ofList cs) := by
  rw [T_finalizeString_eq, finalizeString, String.toList_ofList, unescape_double]

/-- **un-escaping after doubling is the identity on whole documents** (well-formed: Go rebuilds every map) -/
theorem S_C06_finalize_double (v : Val) (hw : v.WF) {fuel : Nat} (h : 2 * Go.depth v + 1 ≤ fuel) :
    finalizeOutput' fuel (double v) = .ok v := by
  rw [T_finalizeOutput_eq (double v) fuel (by rw [S_depth_double_all.1]; exact h), e_finalize_double_all.1 v hw]

example : (Val.map [("$merge", .str "$env:HOME"), ("k$$", .list [.str "$required", .null])]).WF ∧
    2 * Go.depth (.map [("$merge", .str "$env:HOME"), ("k$$", .list [.str "$required", .null])]) + 1 ≤ 5 ∧
    double (.map [("$merge", .str "$env:HOME"), ("k$$", .list [.str "$required", .null])])
      = .map [("$$merge", .str "$$env:HOME"), ("k$$$$", .list [.str "$$required", .null])] := by
  refine ⟨by decide, by decide, by decide⟩

/-- data without `$$` passes through `finalizeOutput'` unchanged -/
theorem S_C06_finalize_noDD (v : Val) (hn : noDD v = true) (hw : v.WF) {fuel : Nat}
    (h : 2 * Go.depth v + 1 ≤ fuel) : finalizeOutput' fuel v = .ok v := by
  rw [T_finalizeOutput_eq v fuel h, e_finalize_noDD_all.1 v hn hw]

/-- in particular inert data (nothing the evaluator recognises, no `$$`) -/
theorem S_C06_finalize_inert (v : Val) (hi : inert v = true) (hw : v.WF) {fuel : Nat}
    (h : 2 * Go.depth v + 1 ≤ fuel) : finalizeOutput' fuel v = .ok v :=
  S_C06_finalize_noDD v (e_inert_noDD hi) hw h

example : inert (.map [("a", .str "$5 bill"), ("b", .list [.null, .str "x{y}$"])]) = true ∧
    (Val.map [("a", .str "$5 bill"), ("b", .list [.null, .str "x{y}$"])]).WF ∧
    2 * Go.depth (.map [("a", .str "$5 bill"), ("b", .list [.null, .str "x{y}$"])]) + 1 ≤ 5 := by decide

/-- doubled layers merge like plain data under the translated merge: every directive of the child arrives as data
    (`C06_merge_double`) -/
theorem S_C06_merge_double_ok (a b r : Val) (hb : b.WF) (hm : plainMerge a b = .ok r) {fuel : Nat}
    (h : 4 * Go.depth b + 2 ≤ fuel) : merge' fuel (double a) (double b) = .ok (double r, none) := by
  apply S_C01_of_model_ok (double_WF hb) (by rw [S_depth_double_all.1]; exact h)
  rw [C06_merge_double, hm]; rfl


end Bkl.Gen.Lib
