/-
  Fact obligation F10, slice "eval": the directive literals, in source order, of every function of
  process2.go, repeat.go are the ones the model mirrors (table and explanation: BklProofs/Facts/Dispatch.lean).
-/
import BklProofs.Facts.Dispatch
namespace Bkl

theorem F10_dispatch_order_eval :
    seqOfFiles ["process2.go", "repeat.go"] Facts.directiveSeq = seqOfFiles ["process2.go", "repeat.go"] (expectedDirectiveSeq.map (·.1)) := by decide

end Bkl
