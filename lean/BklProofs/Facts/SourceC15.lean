/-
  Source-level laws (C15): property theorems of the model composed with the translation-equivalence theorems, i.e. stated
  directly about the Lean functions generated from the CURRENT Go source (Generated/Trans).  Corollaries only.
-/
import BklProofs.C15
import BklProofs.Facts.TransBkld
import BklProofs.Facts.TransMerge
namespace Bkl.Gen
open Bkl Go

/-! # C15 — bkld round trip, on `diff'` and `merge'` -/

/-! ### helper: the patch that `diff` emits is well-formed (what `T_merge_eq` asks of a patch) -/

theorem wf_delete_entry {v : Val} (h : Val.WF v) : Val.WF (.map [("$delete", v)]) := by
  rw [wf_map_iff]
  refine ⟨by simp [Fields.SortedKeys], fun p hp => ?_⟩
  simp only [List.mem_cons, List.not_mem_nil, or_false] at hp
  subst hp; exact h

theorem wf_replaceList {dst : List Val} (h : Val.WF (.list dst)) : Val.WF (replaceList dst) := by
  unfold replaceList
  rw [wf_list_iff] at *
  intro x hx
  rcases List.mem_append.1 hx with hx | hx
  · exact h x hx
  · simp only [List.mem_cons, List.not_mem_nil, or_false] at hx
    subst hx; decide

theorem diffListList_patch_wf (dst src : List Val) (hd : Val.WF (.list dst)) (hs : Val.WF (.list src)) (p : Val)
    (h : diffListList dst src = .patch p) : Val.WF p := by
  have hlp : ∀ q, listPatch dst src = some q → Val.WF (.list q) := by
    intro q hq
    unfold listPatch at hq
    simp only [] at hq
    split at hq
    · cases hq
      rw [wf_list_iff] at *
      intro x hx
      rcases List.mem_append.1 hx with hx | hx
      · exact hd x (List.mem_filter.1 hx).1
      · obtain ⟨y, hy, rfl⟩ := List.mem_map.1 hx
        exact wf_delete_entry (hs y (List.mem_filter.1 hy).1)
    · cases hq
  unfold diffListList at h
  split at h
  · cases h
  · split at h
    · cases h; exact wf_replaceList hd
    · rename_i q hq
      split at h
      · split at h
        · cases h; exact hlp q hq
        · cases h; exact wf_replaceList hd
      · cases h; exact wf_replaceList hd

/-- every patch that `diff` emits for well-formed target and base is well-formed -/
theorem diff_patch_wf (t b : Val) (ht : Val.WF t) (hb : Val.WF b) (p : Val) (h : diff t b = .patch p) :
    Val.WF p := by
  cases t with
  | map dm =>
    cases b with
    | map sm =>
      have hd := (wf_map_iff.1 ht).1
      have hs := (wf_map_iff.1 hb).1
      rw [diff_map_map] at h
      split at h
      · cases h; exact wf_fset ht (by decide)
      · split at h
        · cases h
        · cases h
          rw [wf_map_iff_fget]
          refine ⟨sorted_diffAll dm sm, fun k v hk => ?_⟩
          rw [fget_diffAll hd hs] at hk
          cases hg : fget dm k with
          | none =>
            rw [hg] at hk
            cases hg2 : fget sm k with
            | none => rw [hg2] at hk; cases hk
            | some y =>
              rw [hg2] at hk; cases hk
              show Val.WF (.str "$delete")
              decide
          | some x =>
            rw [hg] at hk
            have hx : Val.WF x := wf_of_fget ht hg
            cases hg2 : fget sm k with
            | none => rw [hg2] at hk; cases hk; exact hx
            | some y =>
              rw [hg2] at hk
              simp only [diffAt] at hk
              have : sizeOf x < sizeOf (Val.map dm) := sizeOf_lt_of_mem_fields (fget_mem hg)
              cases hdxy : diff x y with
              | same => rw [hdxy] at hk; cases hk
              | replaceParent => rw [hdxy] at hk; cases hk
              | patch q =>
                rw [hdxy] at hk
                simp only [] at hk
                split at hk
                · cases hk
                · cases hk
                  exact diff_patch_wf x y hx (wf_of_fget hb hg2) _ hdxy
    | _ =>
      rw [diff_map_other _ _ rfl] at h
      split at h
      · cases h; exact ht
      · cases h
  | list dl =>
    cases b with
    | list sl =>
      rw [diff_list_list] at h
      exact diffListList_patch_wf dl sl ht hb p h
    | _ =>
      rw [diff_list_other _ _ rfl] at h
      split at h
      · cases h; exact ht
      · cases h
  | _ =>
    rw [diff_scalar _ _ rfl rfl] at h
    split at h
    · cases h
    · split at h
      · cases h; exact ht
      · cases h
termination_by sizeOf t

/-! ### helper: the patch is at most one level deeper than target and base (so `merge'`'s fuel can be stated on them) -/

theorem depthList_le_of_forall {l : List Val} {N : Nat} (h : ∀ x ∈ l, Go.depth x ≤ N) : Go.depthList l ≤ N := by
  induction l with
  | nil => exact Nat.zero_le _
  | cons y ys ih =>
    have h1 := h y List.mem_cons_self
    have h2 := ih (fun x hx => h x (List.mem_cons_of_mem _ hx))
    simp only [Go.depthList]; omega

theorem depthFields_le_of_forall {m : Fields} {N : Nat} (h : ∀ p ∈ m, Go.depth p.2 ≤ N) : Go.depthFields m ≤ N := by
  induction m with
  | nil => exact Nat.zero_le _
  | cons y ys ih =>
    obtain ⟨k, v⟩ := y
    have h1 : Go.depth v ≤ N := h (k, v) List.mem_cons_self
    have h2 := ih (fun x hx => h x (List.mem_cons_of_mem _ hx))
    simp only [Go.depthFields]; omega

theorem depth_replaceList_le (dst : List Val) : Go.depth (replaceList dst) ≤ Go.depth (.list dst) + 1 := by
  unfold replaceList
  simp only [Go.depth]
  have : Go.depthList (dst ++ [.map [("$replace", .bool true)]]) ≤ Go.depthList dst + 1 := by
    apply depthList_le_of_forall
    intro x hx
    rcases List.mem_append.1 hx with hx | hx
    · have := Go.depth_le_of_mem_list hx; omega
    · simp only [List.mem_cons, List.not_mem_nil, or_false] at hx
      subst hx; simp [Go.depth, Go.depthFields]
  omega

theorem diffListList_patch_depth (dst src : List Val) (p : Val) (h : diffListList dst src = .patch p) :
    Go.depth p ≤ max (Go.depth (.list dst)) (Go.depth (.list src)) + 1 := by
  have hr := depth_replaceList_le dst
  have hlp : ∀ q, listPatch dst src = some q →
      Go.depth (.list q) ≤ max (Go.depth (.list dst)) (Go.depth (.list src)) + 1 := by
    intro q hq
    unfold listPatch at hq
    simp only [] at hq
    split at hq
    · cases hq
      simp only [Go.depth]
      have : Go.depthList (dst.filter (fun v1 => !(src.any fun v2 => v1 == v2)) ++
          (src.filter (fun v1 => !(dst.any fun v2 => v1 == v2))).map (fun v => Val.map [("$delete", v)]))
          ≤ max (Go.depthList dst) (Go.depthList src + 1) := by
        apply depthList_le_of_forall
        intro x hx
        rcases List.mem_append.1 hx with hx | hx
        · have := Go.depth_le_of_mem_list (List.mem_filter.1 hx).1; omega
        · obtain ⟨y, hy, rfl⟩ := List.mem_map.1 hx
          have := Go.depth_le_of_mem_list (List.mem_filter.1 hy).1
          simp only [Go.depth, Go.depthFields]; omega
      omega
    · cases hq
  unfold diffListList at h
  split at h
  · cases h
  · split at h
    · cases h; omega
    · rename_i q hq
      split at h
      · split at h
        · cases h; exact hlp q hq
        · cases h; omega
      · cases h; omega

/-- a patch is at most one level deeper than the deeper of target and base -/
theorem diff_patch_depth (t b : Val) (ht : Val.WF t) (hb : Val.WF b) (p : Val) (h : diff t b = .patch p) :
    Go.depth p ≤ max (Go.depth t) (Go.depth b) + 1 := by
  cases t with
  | map dm =>
    cases b with
    | map sm =>
      have hd := (wf_map_iff.1 ht).1
      have hs := (wf_map_iff.1 hb).1
      rw [diff_map_map] at h
      split at h
      · cases h
        simp only [Go.depth]
        have : Go.depthFields (fset dm "$replace" (.bool true)) ≤ Go.depthFields dm := by
          apply depthFields_le_of_forall
          intro q hq
          rcases mem_fset hq with rfl | hq
          · simp [Go.depth]
          · obtain ⟨k, v⟩ := q
            exact Go.depth_le_of_mem_fields hq
        omega
      · split at h
        · cases h
        · cases h
          simp only [Go.depth]
          have : Go.depthFields (diffAll dm sm) ≤ max (Go.depthFields dm) (Go.depthFields sm) + 1 := by
            apply depthFields_le_of_forall
            rintro ⟨k, v⟩ hkv
            have hk := fget_of_mem_sorted (sorted_diffAll dm sm) hkv
            rw [fget_diffAll hd hs] at hk
            show Go.depth v ≤ _
            cases hg : fget dm k with
            | none =>
              rw [hg] at hk
              cases hg2 : fget sm k with
              | none => rw [hg2] at hk; cases hk
              | some y =>
                rw [hg2] at hk; cases hk
                show Go.depth (.str "$delete") ≤ _
                simp [Go.depth]
            | some x =>
              rw [hg] at hk
              have hx : Val.WF x := wf_of_fget ht hg
              have hdx := Go.depth_le_of_mem_fields (fget_mem hg)
              cases hg2 : fget sm k with
              | none => rw [hg2] at hk; cases hk; omega
              | some y =>
                rw [hg2] at hk
                have hdy := Go.depth_le_of_mem_fields (fget_mem hg2)
                simp only [diffAt] at hk
                have : sizeOf x < sizeOf (Val.map dm) := sizeOf_lt_of_mem_fields (fget_mem hg)
                cases hdxy : diff x y with
                | same => rw [hdxy] at hk; cases hk
                | replaceParent => rw [hdxy] at hk; cases hk
                | patch q =>
                  rw [hdxy] at hk
                  simp only [] at hk
                  split at hk
                  · cases hk
                  · cases hk
                    have := diff_patch_depth x y hx (wf_of_fget hb hg2) _ hdxy
                    omega
          omega
    | _ =>
      rw [diff_map_other _ _ rfl] at h
      split at h
      · cases h; omega
      · cases h
  | list dl =>
    cases b with
    | list sl =>
      rw [diff_list_list] at h
      exact diffListList_patch_depth dl sl p h
    | _ =>
      rw [diff_list_other _ _ rfl] at h
      split at h
      · cases h; omega
      · cases h
  | _ =>
    rw [diff_scalar _ _ rfl rfl] at h
    split at h
    · cases h
    · split at h
      · cases h; omega
      · cases h
termination_by sizeOf t

/-! ### the laws -/

/-- bkld emits nothing — `diff'` returns Go's `(nil, nil)` — exactly when target and base are the same data
    (`C15_same_iff`, `C15_empty_when_equal`), for a plain target, a well-formed base and fuel `≥ 3·depth target + 1` -/
theorem S_C15_same_iff (target base : Val) (ht : plainVal target = true) (hb : Val.WF base)
    (fuel : Nat) (hf : 3 * Go.depth target + 1 ≤ fuel) :
    Bkld.diff' Bkld.modelReproduces fuel target base = .ok (.null, none) ↔ target = base := by
  rw [Bkld.T_diff_eq target base (plainVal_wf ht) fuel hf, ← C15_same_iff target base ht hb]
  cases hd : diff target base with
  | same => simp [Bkld.dresToGo]
  | patch p =>
    have hn := diff_patch_isNull hd (nullFree_isNull (plainVal_nullFree ht))
    simp only [Bkld.dresToGo, Except.ok.injEq, Prod.mk.injEq, and_true, reduceCtorEq, iff_false]
    intro e; subst e; cases hn
  | replaceParent => simp [Bkld.dresToGo]

example : plainVal C15_target = true ∧ Val.WF C15_base ∧ 3 * Go.depth C15_target + 1 ≤ 10 := by decide

/-- equal data: nothing is emitted (`C15_empty_when_equal`), for every well-formed value (nulls, `$` allowed) -/
theorem S_C15_empty_when_equal (v : Val) (hv : Val.WF v) (fuel : Nat) (hf : 3 * Go.depth v + 1 ≤ fuel) :
    Bkld.diff' Bkld.modelReproduces fuel v v = .ok (.null, none) := by
  rw [Bkld.T_diff_eq v v hv fuel hf, (C15_empty_when_equal v hv).1]; rfl

example : Val.WF C15_target ∧ 3 * Go.depth C15_target + 1 ≤ 10 := by decide

/-- a non-nil value without error from the translated `diff` is the model's patch -/
theorem diff_patch_of_source (target base p : Val) (hw : Val.WF target)
    (fuel : Nat) (hf : 3 * Go.depth target + 1 ≤ fuel)
    (h : Bkld.diff' Bkld.modelReproduces fuel target base = .ok (p, none)) (hp : p ≠ .null) :
    diff target base = .patch p := by
  rw [Bkld.T_diff_eq target base hw fuel hf] at h
  cases hd : diff target base with
  | same =>
    rw [hd] at h
    simp only [Bkld.dresToGo, Except.ok.injEq, Prod.mk.injEq, and_true] at h
    exact absurd h.symm hp
  | replaceParent =>
    rw [hd] at h
    simp [Bkld.dresToGo] at h
  | patch q =>
    rw [hd] at h
    simp only [Bkld.dresToGo, Except.ok.injEq, Prod.mk.injEq, and_true] at h
    rw [h]

/-- THE ROUND TRIP on the translated sources (`C15_roundtrip_core`): whenever the translated `diff` returns a patch
    `(p, nil)` (`p` not nil) for a plain target over a well-formed base, the translated `merge` of `p` over the base
    returns `(target, nil)` — for every fuel `≥ 3·depth target + 1` of `diff'` and `≥ 4·depth p + 2` of `merge'`. -/
theorem S_C15_roundtrip (target base p : Val) (ht : plainVal target = true) (hb : Val.WF base)
    (fuel : Nat) (hf : 3 * Go.depth target + 1 ≤ fuel)
    (h : Bkld.diff' Bkld.modelReproduces fuel target base = .ok (p, none)) (hp : p ≠ .null)
    (fuel' : Nat) (hf' : 4 * Go.depth p + 2 ≤ fuel') :
    Lib.merge' fuel' base p = .ok (target, none) := by
  have hd := diff_patch_of_source target base p (plainVal_wf ht) fuel hf h hp
  have hcore := C15_roundtrip_core target base ht hb
  rw [hd] at hcore
  simp only [] at hcore
  rw [Lib.T_merge_eq base p (diff_patch_wf target base (plainVal_wf ht) hb p hd) fuel' hf', Lib.resOf, hcore]

/-- the same with the fuel of `merge'` stated on target and base (the patch is at most one level deeper than the
    deeper of the two, `diff_patch_depth`): `4·(max (depth target) (depth base) + 1) + 2` suffices -/
theorem S_C15_roundtrip_fuel (target base p : Val) (ht : plainVal target = true) (hb : Val.WF base)
    (fuel : Nat) (hf : 3 * Go.depth target + 1 ≤ fuel)
    (h : Bkld.diff' Bkld.modelReproduces fuel target base = .ok (p, none)) (hp : p ≠ .null)
    (fuel' : Nat) (hf' : 4 * (max (Go.depth target) (Go.depth base) + 1) + 2 ≤ fuel') :
    Lib.merge' fuel' base p = .ok (target, none) := by
  have hd := diff_patch_of_source target base p (plainVal_wf ht) fuel hf h hp
  have := diff_patch_depth target base (plainVal_wf ht) hb p hd
  exact S_C15_roundtrip target base p ht hb fuel hf h hp fuel' (by omega)

/-- the three outcomes of the translated `diff` on a plain target and a well-formed base (`C15_roundtrip_core`):
    `(nil, nil)` and the data are equal; or a patch that the translated `merge` turns back into the target; or
    the error (`errReplaceParent`), and then the base is a non-empty map or a list and the target of another kind -/
theorem S_C15_roundtrip_core (target base : Val) (ht : plainVal target = true) (hb : Val.WF base)
    (fuel : Nat) (hf : 3 * Go.depth target + 1 ≤ fuel) :
    (Bkld.diff' Bkld.modelReproduces fuel target base = .ok (.null, none) ∧ target = base) ∨
    (∃ p, p ≠ .null ∧ Val.WF p ∧ Go.depth p ≤ max (Go.depth target) (Go.depth base) + 1 ∧
        Bkld.diff' Bkld.modelReproduces fuel target base = .ok (p, none) ∧
        ∀ fuel', 4 * Go.depth p + 2 ≤ fuel' → Lib.merge' fuel' base p = .ok (target, none)) ∨
    (Bkld.diff' Bkld.modelReproduces fuel target base = .ok (.null, some Err.other) ∧
        replaceable base = false ∧ (target.isMap && base.isMap) = false ∧
        (target.isList && base.isList) = false) := by
  have hT := Bkld.T_diff_eq target base (plainVal_wf ht) fuel hf
  have hcore := C15_roundtrip_core target base ht hb
  cases hd : diff target base with
  | same =>
    rw [hd] at hT hcore
    exact .inl ⟨hT, hcore⟩
  | replaceParent =>
    rw [hd] at hT hcore
    exact .inr (.inr ⟨hT, hcore⟩)
  | patch q =>
    rw [hd] at hT
    have hn : q ≠ .null := by
      intro e; subst e
      have := diff_patch_isNull hd (nullFree_isNull (plainVal_nullFree ht))
      cases this
    exact .inr (.inl ⟨q, hn, diff_patch_wf target base (plainVal_wf ht) hb q hd,
      diff_patch_depth target base (plainVal_wf ht) hb q hd, hT,
      fun fuel' hf' => S_C15_roundtrip target base q ht hb fuel hf hT hn fuel' hf'⟩)

/-- map-rooted documents: the translated `diffMap`/`diff` never answers with the replace-parent error
    (`C15_doc_never_replaceParent`): the error component is always nil -/
theorem S_C15_doc_never_replaceParent (t b : Fields) (ht : Val.WF (.map t))
    (fuel : Nat) (hf : 3 * Go.depth (.map t) + 1 ≤ fuel) :
    ∃ p, Bkld.diff' Bkld.modelReproduces fuel (.map t) (.map b) = .ok (p, none) := by
  rw [Bkld.T_diff_eq _ _ ht fuel hf]
  cases hd : diff (.map t) (.map b) with
  | same => exact ⟨_, rfl⟩
  | patch q => exact ⟨_, rfl⟩
  | replaceParent => exact absurd hd (C15_doc_never_replaceParent t b)

example : Val.WF (.map [("a", .int 1), ("b", .null)]) ∧
    3 * Go.depth (.map [("a", .int 1), ("b", .null)]) + 1 ≤ 4 := by decide

/-- whole map-rooted plain documents (`C15_roundtrip`): the translated `diff` never fails; it returns nil exactly
    when the documents are equal; and a non-nil result is a map that the translated `merge` layers over the base to
    give back the target -/
theorem S_C15_doc_roundtrip (t b : Fields) (ht : plainVal (.map t) = true) (hb : plainVal (.map b) = true)
    (fuel : Nat) (hf : 3 * Go.depth (.map t) + 1 ≤ fuel) :
    ∃ p, Bkld.diff' Bkld.modelReproduces fuel (.map t) (.map b) = .ok (p, none) ∧
      (p = .null ↔ Val.map t = Val.map b) ∧
      (p ≠ .null → (∃ m, p = .map m) ∧
        ∀ fuel', 4 * (max (Go.depth (.map t)) (Go.depth (.map b)) + 1) + 2 ≤ fuel' →
          Lib.merge' fuel' (.map b) p = .ok (.map t, none)) := by
  obtain ⟨p, hp⟩ := S_C15_doc_never_replaceParent t b (plainVal_wf ht) fuel hf
  refine ⟨p, hp, ?_, fun hn => ⟨?_, fun fuel' hf' =>
    S_C15_roundtrip_fuel _ _ p ht (plainVal_wf hb) fuel hf hp hn fuel' hf'⟩⟩
  · rw [← S_C15_same_iff _ _ ht (plainVal_wf hb) fuel hf, hp]
    simp
  · rw [Bkld.T_diff_eq _ _ (plainVal_wf ht) fuel hf] at hp
    rcases diff_map_map_cases t b with h | ⟨m, h⟩
    · rw [h] at hp
      simp only [Bkld.dresToGo, Except.ok.injEq, Prod.mk.injEq, and_true] at hp
      exact absurd hp.symm hn
    · rw [h] at hp
      simp only [Bkld.dresToGo, Except.ok.injEq, Prod.mk.injEq, and_true] at hp
      exact ⟨m, hp.symm⟩

/-- non-vacuity: the witnesses of BklProofs/C15 are plain map-rooted documents; the translated `diff` (fuel 10)
    returns a non-nil patch for them, which the translated `merge` (any fuel above the bound) turns into the target -/
example : (∃ t b, C15_target = .map t ∧ C15_base = .map b) ∧ plainVal C15_target = true ∧
    plainVal C15_base = true ∧ 3 * Go.depth C15_target + 1 ≤ 10 ∧ C15_target ≠ C15_base :=
  ⟨⟨_, _, rfl, rfl⟩, by decide, by decide, by decide, by decide⟩

example : ∃ p, Bkld.diff' Bkld.modelReproduces 10 C15_target C15_base = .ok (p, none) ∧ p ≠ .null ∧
    Lib.merge' (4 * Go.depth p + 2) C15_base p = .ok (C15_target, none) := by
  rcases S_C15_roundtrip_core C15_target C15_base (by decide) (by decide) 10 (by decide) with h | h | h
  · exact absurd h.2 (by decide)
  · obtain ⟨p, hn, _, _, hd, hm⟩ := h
    exact ⟨p, hd, hn, hm _ (Nat.le_refl _)⟩
  · exact absurd h.2.2.1 (by decide)


end Bkl.Gen
