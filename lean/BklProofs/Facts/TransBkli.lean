/-
  Translation equivalence, cmd/bkli/intersect.go: the Lean definitions that harness/cmd/gotrans writes from /repo's
  CURRENT intersect.go (Generated/Trans/Bkli.lean, regenerated on every run) compute the model's `intersect`
  (Bkl/Tools.lean).  A change of intersect.go that changes its meaning makes these theorems fail to check.

  The one real difference: Go builds the result map with `ret[k] = v` (`fset` into a key-sorted association list),
  the model keeps the entries in the order of its first argument.  The two agree exactly when the maps on the
  "map spine" of the first argument have strictly increasing keys (`SpineSorted a`, implied by `Val.WF a`); nothing
  is needed of the second argument.  The examples at the end show that the hypothesis cannot be dropped.
-/
import Generated.Trans.Bkli
import BklProofs.Lemmas.GoLib
import BklProofs.Lemmas.Fields
import BklProofs.Lemmas.ToolsIntersect
namespace Bkl.Gen.Bkli
open Bkl Go

/-! ## small facts -/

theorem beq_null_eq_isNull (v : Val) : (v == Val.null) = v.isNull := by
  cases v <;> first | rfl | exact beq_eq_false_iff_ne.2 (by simp)

/-- `ret[k] = v` with `k` above every key of `ret` appends -/
theorem fset_append_of_lt {m : Fields} {k : String} (v : Val) (h : ∀ p ∈ m, p.1 < k) :
    fset m k v = m ++ [(k, v)] := by
  induction m with
  | nil => rfl
  | cons hd tl ih =>
    obtain ⟨k', v'⟩ := hd
    have hlt : k' < k := h (k', v') List.mem_cons_self
    have h1 : ¬ k < k' := fun h' => String.lt_irrefl _ (String.lt_trans hlt h')
    have h2 : ¬ k = k' := str_ne_of_gt hlt
    simp only [fset, h1, h2, if_false, List.cons_append]
    rw [ih (fun p hp => h p (List.mem_cons_of_mem _ hp))]

/-! ## the hypothesis: maps reachable from the root through maps only are strictly sorted by key -/

mutual
/-- every map of `v` that is reached through maps only has strictly increasing keys (lists are opaque:
    their entries are only compared) -/
def spineSortedB : Val → Bool
  | .map kvs => Fields.sortedKeysB kvs && spineSortedFieldsB kvs
  | _ => true
def spineSortedFieldsB : Fields → Bool
  | [] => true
  | (_, v) :: rest => spineSortedB v && spineSortedFieldsB rest
end

def SpineSorted (v : Val) : Prop := spineSortedB v = true

instance (v : Val) : Decidable (SpineSorted v) := by unfold SpineSorted; infer_instance

theorem spineSortedFieldsB_iff {m : Fields} : spineSortedFieldsB m = true ↔ ∀ p ∈ m, SpineSorted p.2 := by
  induction m with
  | nil => simp [spineSortedFieldsB]
  | cons hd tl ih =>
    obtain ⟨k, v⟩ := hd
    simp only [spineSortedFieldsB, Bool.and_eq_true, ih, List.mem_cons, forall_eq_or_imp, SpineSorted]

theorem spineSorted_map_iff {m : Fields} :
    SpineSorted (.map m) ↔ Fields.SortedKeys m ∧ ∀ p ∈ m, SpineSorted p.2 := by
  simp only [SpineSorted, spineSortedB, Bool.and_eq_true, sortedKeysB_iff, spineSortedFieldsB_iff]

mutual
theorem spineSorted_of_wfB : ∀ (v : Val), v.wfB = true → spineSortedB v = true
  | .map kvs, h => by
    simp only [Val.wfB, Bool.and_eq_true] at h
    simp only [spineSortedB, Bool.and_eq_true]
    exact ⟨h.1, spineSortedFields_of_wfB kvs h.2⟩
  | .list _, _ => rfl
  | .null, _ => rfl
  | .bool _, _ => rfl
  | .int _, _ => rfl
  | .flt _, _ => rfl
  | .str _, _ => rfl
theorem spineSortedFields_of_wfB : ∀ (m : Fields), Val.wfFieldsB m = true → spineSortedFieldsB m = true
  | [], _ => rfl
  | (_, v) :: rest, h => by
    simp only [Val.wfFieldsB, Bool.and_eq_true] at h
    simp only [spineSortedFieldsB, Bool.and_eq_true]
    exact ⟨spineSorted_of_wfB v h.1, spineSortedFields_of_wfB rest h.2⟩
end

theorem SpineSorted_of_WF {v : Val} (h : Val.WF v) : SpineSorted v := spineSorted_of_wfB v h

/-! ## generic loop lemmas (the loop body is abstract: only its effect on one element is assumed) -/

/-- a loop that, for the first element satisfying `q`, updates the state and breaks -/
theorem forRange_first {α σ ρ : Type} (q : α → Bool) (f : σ → σ) (xs : List α) (s : σ)
    (body : α → σ → G (Loop σ ρ))
    (hb : ∀ x s, body x s = if q x then .ok (.brk (f s)) else .ok (.next s)) :
    forRange xs s body = .ok (.inl (if xs.any q then f s else s)) := by
  induction xs with
  | nil => simp
  | cons x xs ih =>
    by_cases hq : q x = true
    · rw [forRange_cons_brk (s' := f s) (by rw [hb, if_pos hq])]
      simp [hq]
    · rw [forRange_cons_next (s' := s) (by rw [hb, if_neg hq])]
      simp [hq, ih]

/-- a loop that appends the elements satisfying `p` -/
theorem forRange_filter {α ρ : Type} (p : α → Bool) (xs : List α) (s : List α)
    (body : α → List α → G (Loop (List α) ρ))
    (hb : ∀ x s, body x s = .ok (.next (if p x then s ++ [x] else s))) :
    forRange xs s body = .ok (.inl (s ++ xs.filter p)) := by
  induction xs generalizing s with
  | nil => simp
  | cons x xs ih =>
    rw [forRange_cons_next (hb x s), ih]
    by_cases hp : p x = true <;> simp [hp]

/-! ## intersectListList / intersectList -/

/-- the model's list case (Bkl/Tools.lean `intersect`, both lists), as a function on lists -/
def intersectListModel (a b : List Val) : List Val :=
  if ((listCommon a b).isEmpty && decide (a.length + b.length > 0)) = true
  then [.str "$required"] else listCommon a b

theorem intersect_list_list_model (a b : List Val) :
    intersect (.list a) (.list b) = .list (intersectListModel a b) := by
  rw [intersect_list_list, intersectListModel]; split <;> rfl

/-- the end of intersectListList: `len(ret) == 0 && len(a)+len(b) > 0` -/
theorem listList_end (c : List Val) (n m : Nat) :
    (if (Int.ofNat c.length == (0 : Int) && decide (Int.ofNat n + Int.ofNat m > (0 : Int))) = true
      then (Except.ok (c ++ [Val.str "$required"], (none : Option Err)) : G (List Val × Option Err))
      else .ok (c, none)) =
    .ok (if (c.isEmpty && decide (n + m > 0)) = true then [.str "$required"] else c, none) := by
  cases c with
  | nil =>
    by_cases hl : n + m > 0
    · have : (↑n + ↑m : Int) > 0 := by omega
      simp [hl, this]
    · have : ¬ (↑n + ↑m : Int) > 0 := by omega
      simp [hl, this]
  | cons x xs => simp; omega

theorem T_intersectListList_eq (a b : List Val) :
    intersectListList' a b = .ok (intersectListModel a b, none) := by
  unfold intersectListList'
  simp only []
  rw [forRange_filter (p := fun v1 => b.any (fun v2 => v1 == v2))]
  · simp only [List.nil_append, intersectListModel]
    have hend := listList_end (List.filter (fun v1 => b.any fun v2 => v1 == v2) a) a.length b.length
    have hemp : ∀ c : List Val, (Int.ofNat c.length == (0 : Int)) = c.isEmpty := by
      intro c; cases c <;> simp <;> omega
    rw [hemp] at hend
    exact hend
  · intro v1 ret
    rw [forRange_first (q := fun v2 => v1 == v2) (f := fun r => r ++ [v1])]
    intro v2 s; rfl

theorem T_intersectList_eq (a : List Val) (b : Val) (hb : b ≠ .null) :
    intersectList' a b = .ok (intersect (.list a) b, none) := by
  unfold intersectList'
  cases b with
  | null => exact absurd rfl hb
  | list bl => simp only [T_intersectListList_eq, intersect_list_list_model]
  | _ => simp [intersect]

/-! ## intersectMapMap: the loop -/

/-- what one iteration of the loop of intersectMapMap does to `ret` (in model terms) -/
def stepModel (b : Fields) (kv : String × Val) (ret : Fields) : Fields :=
  match fget b kv.1 with
  | none => ret
  | some v2 =>
    if (kv.2.isNull && v2.isNull) = true then fset ret kv.1 .null
    else if (intersect kv.2 v2).isNull = true then ret
    else fset ret kv.1 (intersect kv.2 v2)

/-- a loop whose body is `ret := stepModel b kv ret; continue` computes `ret ++ intersectFields a b`, when the keys
    of `a` increase strictly and lie above those already in `ret` -/
theorem mapMap_loop {ρ : Type} (b : Fields) (body : String × Val → Fields → G (Loop Fields ρ)) :
    ∀ (a ret : Fields), Fields.SortedKeys a → (∀ p ∈ ret, ∀ q ∈ a, p.1 < q.1) →
      (∀ kv ∈ a, ∀ ret, body kv ret = .ok (.next (stepModel b kv ret))) →
      forRange a ret body = .ok (.inl (ret ++ intersectFields a b)) := by
  intro a
  induction a with
  | nil => intro ret _ _ _; simp [intersectFields]
  | cons kv rest ih =>
    obtain ⟨k, v⟩ := kv
    intro ret hs hlt hbody
    have hs' := sorted_cons_iff.1 hs
    have hret : ∀ p ∈ ret, p.1 < k := fun p hp => hlt p hp (k, v) List.mem_cons_self
    have hbody' : ∀ kv ∈ rest, ∀ ret, body kv ret = .ok (.next (stepModel b kv ret)) :=
      fun kv hkv => hbody kv (List.mem_cons_of_mem _ hkv)
    have hlt' : ∀ p ∈ ret, ∀ q ∈ rest, p.1 < q.1 := fun p hp q hq => hlt p hp q (List.mem_cons_of_mem _ hq)
    have happ : ∀ x : Val, ∀ p ∈ ret ++ [(k, x)], ∀ q ∈ rest, p.1 < q.1 := by
      intro x p hp q hq
      rcases List.mem_append.1 hp with hp | hp
      · exact hlt' p hp q hq
      · simp only [List.mem_singleton] at hp; subst hp; exact hs'.1 q hq
    rw [forRange_cons_next (hbody (k, v) List.mem_cons_self ret), intersectFields_cons]
    simp only [stepModel]
    cases fget b k with
    | none => exact ih ret hs'.2 hlt' hbody'
    | some v2 =>
      simp only []
      split
      · rw [fset_append_of_lt _ hret, ih _ hs'.2 (happ _) hbody']; simp
      · split
        · exact ih ret hs'.2 hlt' hbody'
        · rw [fset_append_of_lt _ hret, ih _ hs'.2 (happ _) hbody']; simp

/-- intersectMapMap, given that the recursive calls on the entries of `a` are right -/
theorem intersectMapMap_step (fuel : Nat) (a b : Fields) (hs : Fields.SortedKeys a)
    (hall : ∀ k v, (k, v) ∈ a → ∀ v2, intersect' fuel v v2 = .ok (intersect v v2, none)) :
    intersectMapMap' (fuel + 1) a b = .ok (intersectFields a b, none) := by
  unfold intersectMapMap'
  simp only []
  rw [mapMap_loop b _ a [] hs (fun p hp => by cases hp)]
  · simp
  · rintro ⟨k, v⟩ hmem ret
    have hi := hall k v hmem
    simp only [Go.mapIndex2, stepModel]
    cases hg : fget b k with
    | none => simp
    | some v2 =>
      simp only [hi, beq_null_eq_isNull]
      by_cases h1 : (v.isNull && v2.isNull) = true
      · simp [h1]
      · by_cases h2 : (intersect v v2).isNull = true <;> simp [h1, h2]

/-! ## intersect: the cases that do not recurse -/

theorem intersect_null_b (fuel : Nat) (a : Val) : intersect' (fuel + 1) a .null = .ok (intersect a .null, none) := by
  simp [intersect', intersect_null_right]

theorem intersect_nonmap (fuel : Nat) (a b : Val) (ha : a.isMap = false) :
    intersect' (fuel + 1) a b = .ok (intersect a b, none) := by
  by_cases hb : b = .null
  · subst hb; exact intersect_null_b fuel a
  · have hb' : (b == Val.null) = false := beq_eq_false_iff_ne.2 hb
    cases a with
    | map m => simp [Val.isMap] at ha
    | list l => simp [intersect', hb', T_intersectList_eq l b hb]
    | null => simp [intersect', hb', intersect_null_left]
    | bool x => simp only [intersect', hb', intersect_scalar (.bool x) b rfl hb, Bool.false_eq_true, if_false]; split <;> rfl
    | int x => simp only [intersect', hb', intersect_scalar (.int x) b rfl hb, Bool.false_eq_true, if_false]; split <;> rfl
    | flt x => simp only [intersect', hb', intersect_scalar (.flt x) b rfl hb, Bool.false_eq_true, if_false]; split <;> rfl
    | str x => simp only [intersect', hb', intersect_scalar (.str x) b rfl hb, Bool.false_eq_true, if_false]; split <;> rfl

/-- intersectMap, given intersectMapMap -/
theorem intersectMap_step (fuel : Nat) (a : Fields) (b : Val) (hb : b ≠ .null)
    (hmm : ∀ bm, intersectMapMap' fuel a bm = .ok (intersectFields a bm, none)) :
    intersectMap' (fuel + 1) a b = .ok (intersect (.map a) b, none) := by
  unfold intersectMap'
  cases b with
  | null => exact absurd rfl hb
  | map bm => simp only [hmm, intersect_map_map]
  | _ => simp [intersect]

/-! ## the main induction -/

theorem intersect_eq_aux : ∀ (n : Nat) (a : Val), Go.depth a ≤ n → SpineSorted a → ∀ (b : Val) (fuel : Nat),
    3 * n + 1 ≤ fuel → intersect' fuel a b = .ok (intersect a b, none) := by
  intro n
  induction n with
  | zero =>
    intro a hd _ b fuel hf
    obtain ⟨f, rfl⟩ : ∃ f, fuel = f + 1 := ⟨fuel - 1, by omega⟩
    cases a with
    | map kvs => simp [Go.depth] at hd
    | _ => exact intersect_nonmap f _ b rfl
  | succ m ih =>
    intro a hd hw b fuel hf
    obtain ⟨f, rfl⟩ : ∃ f, fuel = f + 3 := ⟨fuel - 3, by omega⟩
    cases a with
    | map am =>
      by_cases hb : b = .null
      · subst hb; exact intersect_null_b _ _
      · have hb' : (b == Val.null) = false := beq_eq_false_iff_ne.2 hb
        have hw' := spineSorted_map_iff.1 hw
        have hall : ∀ k v, (k, v) ∈ am → ∀ v2, intersect' f v v2 = .ok (intersect v v2, none) := by
          intro k v hm v2
          have := Go.depth_le_of_mem_fields hm
          simp only [Go.depth] at hd
          exact ih v (by omega) (hw'.2 _ hm) v2 f (by omega)
        have hmm := fun bm => intersectMapMap_step f am bm hw'.1 hall
        simp [intersect', hb', intersectMap_step (f + 1) am b hb hmm]
    | _ => exact intersect_nonmap _ _ b rfl

/-! ## main theorems -/

/-- intersect.go:intersect, as translated from the current source, is the model's `intersect`, for every first
    argument whose map spine is key-sorted and every second argument, given fuel for the nesting depth of the first -/
theorem T_intersect_eq_spine (a b : Val) (hw : SpineSorted a) (fuel : Nat) (h : 3 * Go.depth a + 1 ≤ fuel) :
    intersect' fuel a b = .ok (intersect a b, none) :=
  intersect_eq_aux (Go.depth a) a (Nat.le_refl _) hw b fuel h

theorem T_intersect_eq (a b : Val) (hw : Val.WF a) (fuel : Nat) (h : 3 * Go.depth a + 1 ≤ fuel) :
    intersect' fuel a b = .ok (intersect a b, none) :=
  T_intersect_eq_spine a b (SpineSorted_of_WF hw) fuel h

/-- intersect.go:intersectMapMap is the model's `intersectFields` -/
theorem T_intersectMapMap_eq_spine (a b : Fields) (hw : SpineSorted (.map a)) (fuel : Nat)
    (h : 3 * Go.depthFields a + 2 ≤ fuel) :
    intersectMapMap' fuel a b = .ok (intersectFields a b, none) := by
  obtain ⟨f, rfl⟩ : ∃ f, fuel = f + 1 := ⟨fuel - 1, by omega⟩
  have hw' := spineSorted_map_iff.1 hw
  refine intersectMapMap_step f a b hw'.1 ?_
  intro k v hm v2
  have := Go.depth_le_of_mem_fields hm
  exact intersect_eq_aux (Go.depthFields a) v this (hw'.2 _ hm) v2 f (by omega)

theorem T_intersectMapMap_eq (a b : Fields) (hw : Val.WF (.map a)) (fuel : Nat)
    (h : 3 * Go.depthFields a + 2 ≤ fuel) :
    intersectMapMap' fuel a b = .ok (intersectFields a b, none) :=
  T_intersectMapMap_eq_spine a b (SpineSorted_of_WF hw) fuel h

/-- intersect.go:intersectMap is the model's `intersect` on a map first argument; Go's `intersect` has already
    returned for `b == nil`, the helper alone answers "$required" there (see `intersectMap_null_differs`) -/
theorem T_intersectMap_eq_spine (a : Fields) (b : Val) (hb : b ≠ .null) (hw : SpineSorted (.map a)) (fuel : Nat)
    (h : 3 * Go.depth (.map a) ≤ fuel) :
    intersectMap' fuel a b = .ok (intersect (.map a) b, none) := by
  simp only [Go.depth] at h
  obtain ⟨f, rfl⟩ : ∃ f, fuel = f + 1 := ⟨fuel - 1, by omega⟩
  exact intersectMap_step f a b hb (fun bm => T_intersectMapMap_eq_spine a bm hw f (by omega))

theorem T_intersectMap_eq (a : Fields) (b : Val) (hb : b ≠ .null) (hw : Val.WF (.map a)) (fuel : Nat)
    (h : 3 * Go.depth (.map a) ≤ fuel) :
    intersectMap' fuel a b = .ok (intersect (.map a) b, none) :=
  T_intersectMap_eq_spine a b hb (SpineSorted_of_WF hw) fuel h

/-! ## non-vacuity, and the hypotheses are needed -/

/-- a non-trivial instance of the hypotheses (sorted map spine; an unsorted map inside a list is allowed) -/
example : SpineSorted (.map [("a", .map [("x", .int 1), ("y", .null)]),
    ("b", .list [.map [("z", .null), ("y", .null)]])]) := by decide
example : Val.WF (.map [("a", .map [("x", .int 1), ("y", .null)]), ("b", .list [.int 1])]) := by decide

/-- unsorted keys in the first argument: Go (a real map, re-sorted on output; here `fset`) gives the keys in
    order, the model keeps the order of `a` -/
theorem intersect_unsorted_differs :
    let a : Val := .map [("b", .int 1), ("a", .int 2)]
    ¬ SpineSorted a ∧ ∀ fuel, intersect' fuel a a ≠ .ok (intersect a a, none) := by
  refine ⟨by decide, ?_⟩
  intro fuel
  match fuel with
  | 0 | 1 | 2 | 3 =>
    simp [intersect', intersectMap', intersectMapMap', forRange, Go.mapIndex2, fget, intersect,
      intersectFields, Val.isNull]
  | f + 4 =>
    simp [intersect', intersectMap', intersectMapMap', forRange, Go.mapIndex2, fget, fset, intersect,
      intersectFields, Val.isNull]

/-- a repeated key in the first argument (not a Go map): `ret[k] = v` overwrites, the model lists both -/
theorem intersect_dupkey_differs :
    let a : Val := .map [("a", .int 1), ("a", .int 1)]
    ¬ SpineSorted a ∧ ∀ fuel, intersect' fuel a a ≠ .ok (intersect a a, none) := by
  refine ⟨by decide, ?_⟩
  intro fuel
  match fuel with
  | 0 | 1 | 2 | 3 =>
    simp [intersect', intersectMap', intersectMapMap', forRange, Go.mapIndex2, fget, intersect,
      intersectFields, Val.isNull]
  | f + 4 =>
    simp [intersect', intersectMap', intersectMapMap', forRange, Go.mapIndex2, fget, fset, intersect,
      intersectFields, Val.isNull]

/-- the same one level down: sortedness is needed along the whole map spine -/
theorem intersect_unsorted_nested_differs :
    let a : Val := .map [("k", .map [("b", .int 1), ("a", .int 2)])]
    Fields.SortedKeys [("k", Val.map [("b", .int 1), ("a", .int 2)])] ∧ ¬ SpineSorted a ∧
      ∀ fuel, 3 * Go.depth a + 1 ≤ fuel → intersect' fuel a a ≠ .ok (intersect a a, none) := by
  refine ⟨by decide, by decide, ?_⟩
  intro fuel hf
  simp only [Go.depth, Go.depthFields] at hf
  obtain ⟨f, rfl⟩ : ∃ f, fuel = f + 7 := ⟨fuel - 7, by omega⟩
  simp [intersect', intersectMap', intersectMapMap', forRange, Go.mapIndex2, fget, fset, intersect,
    intersectFields, Val.isNull]

/-- `b ≠ nil` is needed for the helpers alone: Go's `intersect` returns before calling them -/
theorem intersectMap_null_differs :
    intersectMap' 1 [] .null = .ok (.str "$required", none) ∧ intersect (.map []) .null = .null := by
  constructor
  · rfl
  · simp [intersect]

theorem intersectList_null_differs :
    intersectList' [] .null = .ok (.str "$required", none) ∧ intersect (.list []) .null = .null := by
  constructor
  · rfl
  · simp [intersect]

/-- the fuel is needed: with none, the translated function reports `GErr.fuel` -/
example : intersect' 0 .null .null = .error GErr.fuel := rfl

end Bkl.Gen.Bkli
