/-
  Translation equivalence, finalize.go: the Lean definitions that harness/cmd/gotrans writes from /repo's CURRENT
  finalize.go (Generated/Trans/Finalize.lean, regenerated on every run) compute the model's `finalize`
  (Bkl/Output.lean).  No hypothesis on the value is needed: the Go loop `newObj[finalizeString(k)] = finalizeOutput(v)`
  is a left fold of `fset` from the empty map, which is literally the model's `fofList (finalizeFields kvs)`.
-/
import Generated.Trans.Finalize
import BklProofs.Lemmas.GoLib
namespace Bkl.Gen.Lib
open Bkl Go

/-! ## strings.ReplaceAll(s, "$$", "$") is the model's `unescapeChars` -/

theorem replaceAllAux_dollar (cs : List Char) :
    Go.replaceAllAux ['$', '$'] ['$'] 0 cs = unescapeChars cs := by
  fun_induction unescapeChars cs with
  | case1 rest ih =>
    simp [Go.replaceAllAux, Go.isPrefixChars, ih]
  | case2 c rest hne ih =>
    have hp : Go.isPrefixChars ['$', '$'] (c :: rest) = false := by
      cases rest with
      | nil => simp [Go.isPrefixChars]
      | cons d rest' =>
        simp only [Go.isPrefixChars, Bool.and_true]
        cases hc : ('$' == c) with
        | false => simp
        | true =>
          cases hd : ('$' == d) with
          | false => simp
          | true =>
            exfalso
            have h1 : c = '$' := (beq_iff_eq.mp hc).symm
            have h2 : d = '$' := (beq_iff_eq.mp hd).symm
            subst h1; subst h2
            exact hne rest' rfl rfl
    simp [Go.replaceAllAux, hp, ih]
  | case3 => simp [Go.replaceAllAux]

theorem replaceAll_dollar (s : String) : Go.replaceAll s "$$" "$" = finalizeString s := by
  have h2 : ("$$" : String).toList = ['$', '$'] := by decide
  have h1 : ("$" : String).toList = ['$'] := by decide
  unfold Go.replaceAll finalizeString
  rw [h2, h1, replaceAllAux_dollar]

/-- finalize.go:finalizeString, as translated, is the model's `finalizeString` -/
theorem T_finalizeString_eq (s : String) : finalizeString' s = .ok (finalizeString s) := by
  unfold finalizeString'
  rw [replaceAll_dollar]

/-! ## the list loop: `newList := make([]any, len(obj)); for idx, v := range obj { newList[idx] = f(v) }` -/

theorem listSet_append_cons (pre suf : List Val) (x r : Val) :
    Go.listSet (pre ++ x :: suf) (Int.ofNat pre.length) r = (pre ++ [r]) ++ suf := by
  unfold Go.listSet
  have h : ¬ (Int.ofNat pre.length < 0) := by
    have : (0 : Int) ≤ Int.ofNat pre.length := Int.natCast_nonneg _
    omega
  rw [if_neg h]
  simp

theorem finalizeList_loop_gen (body : Int × Val → List Val → G (Go.Loop (List Val) (List Val))) (xs : List Val)
    (hbody : ∀ i x acc, x ∈ xs → body (i, x) acc = .ok (Go.Loop.next (Go.listSet acc i (finalize x)))) :
    ∀ (pre suf : List Val), suf.length = xs.length →
      Go.forRange (ρ := List Val) (Go.enumFrom (Int.ofNat pre.length) xs) (pre ++ suf) body
      = .ok (.inl (pre ++ finalizeList xs)) := by
  induction xs with
  | nil =>
    intro pre suf hl
    have : suf = [] := List.eq_nil_of_length_eq_zero (by simpa using hl)
    subst this
    simp [Go.enumFrom, finalizeList]
  | cons x xs ih =>
    intro pre suf hl
    obtain ⟨y, suf', rfl⟩ : ∃ y suf', suf = y :: suf' := by
      cases suf with
      | nil => simp at hl
      | cons y s => exact ⟨y, s, rfl⟩
    simp only [Go.enumFrom]
    rw [forRange_cons_next (s' := (pre ++ [finalize x]) ++ suf')]
    · have hlen : Int.ofNat pre.length + 1 = Int.ofNat (pre ++ [finalize x]).length := by
        simp
      rw [hlen, ih (fun i y acc hy => hbody i y acc (List.mem_cons_of_mem _ hy)) (pre ++ [finalize x]) suf'
        (by simpa using hl)]
      simp [finalizeList]
    · rw [hbody _ x _ List.mem_cons_self, listSet_append_cons]

theorem finalizeList_loop (fuel : Nat) (xs : List Val)
    (hall : ∀ x ∈ xs, finalizeOutput' fuel x = .ok (finalize x)) :
    finalizeList' (fuel + 1) xs = .ok (finalizeList xs) := by
  unfold finalizeList'
  try dsimp only
  have h0 : Go.enum xs = Go.enumFrom (Int.ofNat ([] : List Val).length) xs := rfl
  have hr : List.replicate (Int.ofNat xs.length).toNat Val.null
      = [] ++ List.replicate xs.length Val.null := by simp
  rw [h0, hr, finalizeList_loop_gen _ xs ?hb [] _ (by simp)]
  case hb =>
    intro i x acc hm
    simp only [hall x hm]
  simp

/-! ## the map loop: `newObj := map[string]any{}; for k, v := range obj { newObj[fs(k)] = f(v) }` -/

theorem finalizeMap_loop_gen (body : String × Val → Fields → G (Go.Loop Fields Fields)) (kvs : Fields)
    (hbody : ∀ k v acc, (k, v) ∈ kvs →
      body (k, v) acc = .ok (Go.Loop.next (fset acc (finalizeString k) (finalize v)))) :
    ∀ (acc : Fields),
      Go.forRange (ρ := Fields) kvs acc body = .ok (.inl (fsetAll acc (finalizeFields kvs))) := by
  induction kvs with
  | nil => intro acc; simp [finalizeFields, fsetAll]
  | cons kv kvs ih =>
    intro acc
    obtain ⟨k, v⟩ := kv
    rw [forRange_cons_next (hbody k v acc List.mem_cons_self),
      ih (fun k' v' acc' hy => hbody k' v' acc' (List.mem_cons_of_mem _ hy))]
    simp [finalizeFields, fsetAll]

theorem finalizeMap_loop (fuel : Nat) (kvs : Fields)
    (hall : ∀ k v, (k, v) ∈ kvs → finalizeOutput' fuel v = .ok (finalize v)) :
    finalizeMap' (fuel + 1) kvs = .ok (fofList (finalizeFields kvs)) := by
  unfold finalizeMap'
  try dsimp only
  rw [finalizeMap_loop_gen _ kvs ?hb]
  case hb =>
    intro k v acc hm
    simp only [T_finalizeString_eq, hall k v hm]
  simp [fofList]

/-! ## finalizeOutput -/

theorem finalizeOutput_eq_aux : ∀ (n : Nat) (v : Val), Go.depth v ≤ n → ∀ fuel, 2 * n + 1 ≤ fuel →
    finalizeOutput' fuel v = .ok (finalize v) := by
  intro n
  induction n with
  | zero =>
    intro v hd fuel hf
    obtain ⟨f, rfl⟩ : ∃ f, fuel = f + 1 := ⟨fuel - 1, by omega⟩
    cases v with
    | map kvs => simp [Go.depth] at hd
    | list xs => simp [Go.depth] at hd
    | str s => simp [finalizeOutput', finalize, T_finalizeString_eq]
    | null => simp [finalizeOutput', finalize]
    | bool b => simp [finalizeOutput', finalize]
    | int i => simp [finalizeOutput', finalize]
    | flt r => simp [finalizeOutput', finalize]
  | succ m ih =>
    intro v hd fuel hf
    obtain ⟨f, rfl⟩ : ∃ f, fuel = f + 2 := ⟨fuel - 2, by omega⟩
    cases v with
    | map kvs =>
      have hall : ∀ k v, (k, v) ∈ kvs → finalizeOutput' f v = .ok (finalize v) := by
        intro k v hm
        have := Go.depth_le_of_mem_fields hm
        simp only [Go.depth] at hd
        exact ih v (by omega) f (by omega)
      simp [finalizeOutput', finalizeMap_loop f kvs hall, finalize]
    | list xs =>
      have hall : ∀ x ∈ xs, finalizeOutput' f x = .ok (finalize x) := by
        intro x hm
        have := Go.depth_le_of_mem_list hm
        simp only [Go.depth] at hd
        exact ih x (by omega) f (by omega)
      simp [finalizeOutput', finalizeList_loop f xs hall, finalize]
    | str s => simp [finalizeOutput', finalize, T_finalizeString_eq]
    | null => simp [finalizeOutput', finalize]
    | bool b => simp [finalizeOutput', finalize]
    | int i => simp [finalizeOutput', finalize]
    | flt r => simp [finalizeOutput', finalize]

/-- finalize.go:finalizeOutput, as translated from the current source, is the model's `finalize`
    (for every value, well-formed or not, given fuel for its nesting depth) -/
theorem T_finalizeOutput_eq (v : Val) (fuel : Nat) (h : 2 * Go.depth v + 1 ≤ fuel) :
    finalizeOutput' fuel v = .ok (finalize v) :=
  finalizeOutput_eq_aux (Go.depth v) v (Nat.le_refl _) fuel h

/-- finalize.go:finalizeMap -/
theorem T_finalizeMap_eq (kvs : Fields) (fuel : Nat) (h : 2 * Go.depthFields kvs + 2 ≤ fuel) :
    finalizeMap' fuel kvs = .ok (fofList (finalizeFields kvs)) := by
  obtain ⟨f, rfl⟩ : ∃ f, fuel = f + 1 := ⟨fuel - 1, by omega⟩
  apply finalizeMap_loop
  intro k v hm
  have := Go.depth_le_of_mem_fields hm
  exact T_finalizeOutput_eq v f (by omega)

/-- finalize.go:finalizeList -/
theorem T_finalizeList_eq (xs : List Val) (fuel : Nat) (h : 2 * Go.depthList xs + 2 ≤ fuel) :
    finalizeList' fuel xs = .ok (finalizeList xs) := by
  obtain ⟨f, rfl⟩ : ∃ f, fuel = f + 1 := ⟨fuel - 1, by omega⟩
  apply finalizeList_loop
  intro x hm
  have := Go.depth_le_of_mem_list hm
  exact T_finalizeOutput_eq x f (by omega)

/-- non-vacuity of the fuel hypotheses, and a run on a map whose keys collide after unescaping
    (`"$$a"` and `"$a"` both become `"$a"`; the later one in range order wins, in Go and in the model) -/
example : finalizeOutput' 5 (.map [("$$a", .list [.str "x$$y"]), ("$a", .int 1)])
    = .ok (.map [("$a", .int 1)]) := by
  rw [T_finalizeOutput_eq _ _ (by decide)]; simp [finalize, finalizeFields, finalizeList, fofList, fsetAll, fset, finalizeString, unescapeChars]

end Bkl.Gen.Lib
