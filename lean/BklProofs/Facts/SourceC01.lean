/-
  Source-level laws (C01): property theorems of the model composed with the translation-equivalence theorems, i.e. stated
  directly about the Lean functions generated from the CURRENT Go source (Generated/Trans).  Corollaries only.
-/
import BklProofs.C01
import BklProofs.Lemmas.Tools
import BklProofs.Facts.TransMerge
namespace Bkl.Gen.Lib
open Bkl Go

/-! # C01 on `merge'` -/

/-! ## bridge: what `merge'` answers when the model accepts / rejects -/

theorem S_C01_of_model_ok {dst src r : Val} (hs : Val.WF src) {fuel : Nat} (h : 4 * Go.depth src + 2 ≤ fuel)
    (hm : merge dst src = .ok r) : merge' fuel dst src = .ok (r, none) := by
  rw [T_merge_eq dst src hs fuel h, resOf, hm]

theorem S_C01_of_model_error {dst src : Val} {e : Err} (hs : Val.WF src) {fuel : Nat}
    (h : 4 * Go.depth src + 2 ≤ fuel) (hm : merge dst src = .error e) :
    merge' fuel dst src = .ok (mergeErrVal dst src, some e) := by
  rw [T_merge_eq dst src hs fuel h, resOf, hm]

/-- `merge'` accepts with `r` exactly when the model does -/
theorem S_C01_ok_iff {dst src r : Val} (hs : Val.WF src) {fuel : Nat} (h : 4 * Go.depth src + 2 ≤ fuel) :
    merge' fuel dst src = .ok (r, none) ↔ merge dst src = .ok r := by
  rw [T_merge_eq dst src hs fuel h, resOf]
  cases merge dst src with
  | ok r' => simp
  | error e => simp

/-- `merge'` reports the error class `e` exactly when the model does -/
theorem S_C01_error_iff {dst src : Val} {e : Err} (hs : Val.WF src) {fuel : Nat} (h : 4 * Go.depth src + 2 ≤ fuel) :
    (∃ v, merge' fuel dst src = .ok (v, some e)) ↔ merge dst src = .error e := by
  rw [T_merge_eq dst src hs fuel h, resOf]
  cases merge dst src with
  | ok r' => simp
  | error e' => simp

/-! ## 1. the accept / reject boundary -/

/-- **the accept / reject boundary of the translated merge.go:merge**: it returns a non-nil error exactly on
    `Rejects` (only the well-formedness of the patch is used) -/
theorem S_C01_reject_iff_of_src_wf {dst src : Val} (hs : Val.WF src) {fuel : Nat}
    (h : 4 * Go.depth src + 2 ≤ fuel) :
    (∃ v e, merge' fuel dst src = .ok (v, some e)) ↔ Rejects dst src := by
  rw [← C01_reject_iff_of_src_wf hs]
  constructor
  · rintro ⟨v, e, hv⟩; exact ⟨e, (S_C01_error_iff hs h).1 ⟨v, hv⟩⟩
  · rintro ⟨e, he⟩; exact ⟨_, e, S_C01_of_model_error hs h he⟩

/-- the same under the hypotheses of `C01_reject_iff` -/
theorem S_C01_reject_iff {dst src : Val} (_hd : Val.WF dst) (hs : Val.WF src) {fuel : Nat}
    (h : 4 * Go.depth src + 2 ≤ fuel) :
    (∃ v e, merge' fuel dst src = .ok (v, some e)) ↔ Rejects dst src :=
  S_C01_reject_iff_of_src_wf hs h

/-- non-vacuity: a rejected pair (`k: $delete` of an absent key below a key) and an accepted one, on the translated
    function itself -/
example : Val.WF (.map [("a", .int 1)]) ∧ Val.WF (.map [("b", .str "$delete")]) ∧
    4 * Go.depth (.map [("b", .str "$delete")]) + 2 ≤ 6 ∧
    Rejects (.map [("a", .int 1)]) (.map [("b", .str "$delete")]) ∧
    merge' 6 (.map [("a", .int 1)]) (.map [("b", .str "$delete")]) = .ok (.map [], some Err.uselessOverride) ∧
    ¬ Rejects (.map [("a", .int 1)]) (.map [("a", .int 2)]) ∧
    merge' 6 (.map [("a", .int 1)]) (.map [("a", .int 2)]) = .ok (.map [("a", .int 2)], none) := by
  refine ⟨by decide, by decide, by decide, .mapDeleteAbsent (k := "b") (by decide) (by decide) (by decide), by rfl,
    ?_, by rfl⟩
  intro hr
  obtain ⟨v, e, he⟩ := (S_C01_reject_iff (fuel := 6) (by decide) (by decide) (by decide)).2 hr
  have : merge' 6 (.map [("a", .int 1)]) (.map [("a", .int 2)]) = .ok (.map [("a", .int 2)], none) := by rfl
  rw [this] at he
  cases he

/-- off `Rejects` the translated merge is total, returns a nil error and a well-formed value -/
theorem S_C01_accept_total {dst src : Val} (hd : Val.WF dst) (hs : Val.WF src) (hr : ¬ Rejects dst src) {fuel : Nat}
    (h : 4 * Go.depth src + 2 ≤ fuel) :
    ∃ r, merge' fuel dst src = .ok (r, none) ∧ Val.WF r := by
  obtain ⟨r, hm, hw⟩ := C01_accept_total_wf hd hs hr
  exact ⟨r, S_C01_of_model_ok hs h hm, hw⟩

example : Val.WF (.map [("a", .int 1)]) ∧ Val.WF (.map [("a", .int 2)]) ∧
    4 * Go.depth (.map [("a", .int 2)]) + 2 ≤ 6 := by decide

/-- well-formedness is preserved -/
theorem S_C01_wf {dst src r : Val} (hd : Val.WF dst) (hs : Val.WF src) {fuel : Nat}
    (h : 4 * Go.depth src + 2 ≤ fuel) (hm : merge' fuel dst src = .ok (r, none)) : Val.WF r :=
  C01_wf hd hs ((S_C01_ok_iff hs h).1 hm)

/-! ## 2. scalars, null, lists, maps -/

/-- a scalar parent: the child replaces it; an identical child is rejected (`uselessOverride`, next to Go's nil) -/
theorem S_C01_scalar (dst src : Val) (hd : dst.isScalar = true) (hs : Val.WF src) {fuel : Nat}
    (h : 4 * Go.depth src + 2 ≤ fuel) :
    merge' fuel dst src = .ok (if src == dst then (.null, some Err.uselessOverride) else (src, none)) := by
  rw [T_merge_eq dst src hs fuel h, resOf, C01_scalar dst src hd]
  have he : mergeErrVal dst src = .null := by cases dst <;> simp_all [Val.isScalar, mergeErrVal]
  by_cases hc : (src == dst) = true
  · simp only [hc, if_true, he]
  · simp only [hc]; rfl

example : (Val.int 3).isScalar = true ∧ Val.WF (.str "x") ∧ 4 * Go.depth (.str "x") + 2 ≤ 2 ∧
    merge' 2 (.int 3) (.str "x") = .ok (.str "x", none) ∧
    merge' 2 (.int 3) (.int 3) = .ok (.null, some Err.uselessOverride) := by
  refine ⟨rfl, by decide, by decide, by rfl, by rfl⟩

/-- a null child changes nothing -/
theorem S_C01_null_child_map (d : Fields) {fuel : Nat} (h : 2 ≤ fuel) :
    merge' fuel (.map d) .null = .ok (.map d, none) :=
  S_C01_of_model_ok (by decide) (by simpa [Go.depth] using h) (C01_null_child_map d)

theorem S_C01_null_child_list (d : List Val) {fuel : Nat} (h : 2 ≤ fuel) :
    merge' fuel (.list d) .null = .ok (.list d, none) :=
  S_C01_of_model_ok (by decide) (by simpa [Go.depth] using h) (C01_null_child_list d)

/-- a null parent is replaced by the child -/
theorem S_C01_null_parent (s : Val) (hs : Val.WF s) {fuel : Nat} (h : 4 * Go.depth s + 2 ≤ fuel) :
    merge' fuel .null s = .ok (s, none) :=
  S_C01_of_model_ok hs h (C01_null_parent s)

/-- kind mismatches are rejected with `invalidType` -/
theorem S_C01_kind_mismatch_map (d : Fields) (src : Val) (hd : d ≠ [])
    (hk : src.isScalar = true ∨ src.isList = true) (hs : Val.WF src) {fuel : Nat}
    (h : 4 * Go.depth src + 2 ≤ fuel) :
    ∃ v, merge' fuel (.map d) src = .ok (v, some Err.invalidType) :=
  ⟨_, S_C01_of_model_error hs h (C01_kind_mismatch_map d src hd hk)⟩

theorem S_C01_kind_mismatch_list (d : List Val) (src : Val)
    (hk : src.isScalar = true ∨ src.isMap = true) (hs : Val.WF src) {fuel : Nat}
    (h : 4 * Go.depth src + 2 ≤ fuel) :
    merge' fuel (.list d) src = .ok (.list [], some Err.invalidType) :=
  S_C01_of_model_error hs h (C01_kind_mismatch_list d src hk)

/-- list concatenation: plain entries are appended (after the parent's `$required` markers are dropped) -/
theorem S_C01_list_concat (d s : List Val) (hp : s.all plainEntry = true) (hs : Val.WF (.list s)) {fuel : Nat}
    (h : 4 * Go.depth (.list s) + 2 ≤ fuel) :
    merge' fuel (.list d) (.list s) =
      .ok (.list (d.filter (fun x => !(x == Val.str "$required")) ++ s), none) :=
  S_C01_of_model_ok hs h (C01_list_concat d s hp)

example : [Val.int 1, .str "x", .map [("a", .int 2)]].all plainEntry = true ∧
    Val.WF (.list [Val.int 1, .str "x", .map [("a", .int 2)]]) ∧
    4 * Go.depth (.list [Val.int 1, .str "x", .map [("a", .int 2)]]) + 2 ≤ 10 := by decide

/-- a `"$replace"` string entry: the child list (minus the marker) replaces the parent list -/
theorem S_C01_list_replace_string (d s : List Val) (hr : Val.str "$replace" ∈ s) (hs : Val.WF (.list s))
    {fuel : Nat} (h : 4 * Go.depth (.list s) + 2 ≤ fuel) :
    merge' fuel (.list d) (.list s) = .ok (.list (s.filter (fun x => !(x == Val.str "$replace"))), none) :=
  S_C01_of_model_ok hs h (C01_list_replace_string d s hr)

/-- a `{$delete: pat}` entry removes every parent entry matching `pat`; none is an error -/
theorem S_C01_list_delete (d : List Val) (pat : Val) (hs : Val.WF pat) {fuel : Nat}
    (h : 4 * Go.depth pat + 10 ≤ fuel) :
    merge' fuel (.list d) (.list [Val.map [("$delete", pat)]]) =
      .ok (if (d.filter (fun x => !(x == Val.str "$required"))).any (fun v => matchV v pat) then
        (.list ((d.filter (fun x => !(x == Val.str "$required"))).filter (fun v => !matchV v pat)), none)
      else (.list [], some Err.uselessOverride)) := by
  have hw : Val.WF (.list [Val.map [("$delete", pat)]]) := by
    rw [wf_list_iff]; intro x hx
    simp only [List.mem_singleton] at hx; subst hx
    rw [wf_map_iff]
    refine ⟨by simp [Fields.SortedKeys], ?_⟩
    intro p hp; simp only [List.mem_singleton] at hp; subst hp; exact hs
  have hf : 4 * Go.depth (.list [Val.map [("$delete", pat)]]) + 2 ≤ fuel := by
    simp [Go.depth, Go.depthList, Go.depthFields]; omega
  rw [T_merge_eq _ _ hw fuel hf, resOf, C01_list_delete]
  by_cases hc : ((d.filter (fun x => !(x == Val.str "$required"))).any (fun v => matchV v pat)) = true
  · simp only [hc, if_true]
  · simp only [hc]; rfl

/-- maps merge key by key (the clauses of `C01_map_by_key`, the recursive one again about `merge'`):
    a key the patch does not mention keeps the parent's value; `k: $delete` removes a present key; a key new to the
    parent is added; a key on both sides carries the result of `merge'` on the two values -/
theorem S_C01_map_by_key {d s : Fields} {r : Val} (hd : Fields.SortedKeys d) (hs : Val.WF (.map s))
    (hrep : fhasBool s "$replace" true = false) {fuel : Nat} (h : 4 * Go.depth (.map s) + 2 ≤ fuel)
    (hm : merge' fuel (.map d) (.map s) = .ok (r, none)) :
    ∃ rm, r = .map rm ∧ Fields.SortedKeys rm ∧ ∀ k,
      match fget s k with
      | none => fget rm k = fget d k
      | some v =>
        if v.toStr = "$delete" then (fget d k ≠ none ∧ fget rm k = none)
        else match fget d k with
          | none => fget rm k = some v
          | some e => ∃ r', merge' fuel e v = .ok (r', none) ∧ fget rm k = some r' := by
  obtain ⟨rm, hr, hsr, hk⟩ := C01_map_by_key hd (wf_map_iff.1 hs).1 hrep ((S_C01_ok_iff hs h).1 hm)
  refine ⟨rm, hr, hsr, fun k => ?_⟩
  have := hk k
  cases hg : fget s k with
  | none => rw [hg] at this; exact this
  | some v =>
    rw [hg] at this
    simp only [] at this ⊢
    split
    · rename_i hdel; rw [if_pos hdel] at this; exact this
    · rename_i hdel
      rw [if_neg hdel] at this
      cases hge : fget d k with
      | none => rw [hge] at this; exact this
      | some e =>
        rw [hge] at this
        obtain ⟨r', h1, h2⟩ := this
        have hdv := depth_le_of_fget hg
        have hf : 4 * Go.depth v + 2 ≤ fuel := by simp only [Go.depth] at h; omega
        exact ⟨r', S_C01_of_model_ok (wf_of_fget hs hg) hf h1, h2⟩

/-- the frame clause on its own: a key the patch does not mention keeps the parent's value -/
theorem S_C01_map_key_not_mentioned {d s : Fields} {r : Val} (hd : Fields.SortedKeys d) (hs : Val.WF (.map s))
    (hrep : fhasBool s "$replace" true = false) {fuel : Nat} (h : 4 * Go.depth (.map s) + 2 ≤ fuel)
    (hm : merge' fuel (.map d) (.map s) = .ok (r, none)) (k : String) (hk : fget s k = none) :
    ∃ rm, r = .map rm ∧ fget rm k = fget d k := by
  obtain ⟨rm, hr, _, hall⟩ := S_C01_map_by_key hd hs hrep h hm
  have := hall k
  rw [hk] at this
  exact ⟨rm, hr, this⟩

/-- non-vacuity of the two map theorems -/
example : Fields.SortedKeys [("a", .int 1), ("b", .int 2)] ∧
    Val.WF (.map [("b", .str "$delete"), ("c", .int 3)]) ∧
    fhasBool [("b", .str "$delete"), ("c", .int 3)] "$replace" true = false ∧
    4 * Go.depth (.map [("b", .str "$delete"), ("c", .int 3)]) + 2 ≤ 6 ∧
    merge' 6 (.map [("a", .int 1), ("b", .int 2)]) (.map [("b", .str "$delete"), ("c", .int 3)])
      = .ok (.map [("a", .int 1), ("c", .int 3)], none) ∧
    fget [("b", .str "$delete"), ("c", .int 3)] "a" = none := by
  refine ⟨by decide, by decide, by decide, by decide, by rfl, by decide⟩

/-- the map boundary: a map patch without `$replace: true` is rejected exactly when some key is a useless `$delete`
    or carries a value that `merge'` rejects over the parent's value -/
theorem S_C01_map_reject_iff {d s : Fields} (hs : Val.WF (.map s)) (hrep : fhasBool s "$replace" true = false)
    {fuel : Nat} (h : 4 * Go.depth (.map s) + 2 ≤ fuel) :
    (∃ r err, merge' fuel (.map d) (.map s) = .ok (r, some err)) ↔
      ∃ k v, fget s k = some v ∧
        ((v.toStr = "$delete" ∧ fget d k = none) ∨
         (v.toStr ≠ "$delete" ∧ ∃ e, fget d k = some e ∧ ∃ r err, merge' fuel e v = .ok (r, some err))) := by
  have key : (∃ r err, merge' fuel (.map d) (.map s) = .ok (r, some err)) ↔
      ∃ err, merge (.map d) (.map s) = .error err :=
    ⟨fun ⟨r, err, hr⟩ => ⟨err, (S_C01_error_iff hs h).1 ⟨r, hr⟩⟩,
     fun ⟨err, he⟩ => ⟨_, err, S_C01_of_model_error hs h he⟩⟩
  rw [key, C01_map_reject_iff (wf_map_iff.1 hs).1 hrep]
  have sub : ∀ {k v}, fget s k = some v → ∀ e,
      ((∃ r err, merge' fuel e v = .ok (r, some err)) ↔ ∃ err, merge e v = .error err) := by
    intro k v hg e
    have hdv := depth_le_of_fget hg
    have hf : 4 * Go.depth v + 2 ≤ fuel := by simp only [Go.depth] at h; omega
    have hw := wf_of_fget hs hg
    exact ⟨fun ⟨r, err, hr⟩ => ⟨err, (S_C01_error_iff hw hf).1 ⟨r, hr⟩⟩,
      fun ⟨err, he⟩ => ⟨_, err, S_C01_of_model_error hw hf he⟩⟩
  constructor
  · rintro ⟨k, v, hg, hc⟩
    refine ⟨k, v, hg, ?_⟩
    rcases hc with hc | ⟨h1, e, h2, h3⟩
    · exact Or.inl hc
    · exact Or.inr ⟨h1, e, h2, (sub hg e).2 h3⟩
  · rintro ⟨k, v, hg, hc⟩
    refine ⟨k, v, hg, ?_⟩
    rcases hc with hc | ⟨h1, e, h2, h3⟩
    · exact Or.inl hc
    · exact Or.inr ⟨h1, e, h2, (sub hg e).1 h3⟩

example : Val.WF (.map [("b", .str "$delete"), ("c", .int 3)]) ∧
    fhasBool [("b", .str "$delete"), ("c", .int 3)] "$replace" true = false ∧
    4 * Go.depth (.map [("b", .str "$delete"), ("c", .int 3)]) + 2 ≤ 6 := by decide

/-! ## 3. `$replace: true` -/

/-- `$replace: true` in a map patch: the patch (minus the directive) replaces the parent map -/
theorem S_C01_replace_true (d s : Fields) (hr : fhasBool s "$replace" true = true) (hs : Val.WF (.map s))
    {fuel : Nat} (h : 4 * Go.depth (.map s) + 2 ≤ fuel) :
    merge' fuel (.map d) (.map s) = .ok (.map (fdel s "$replace"), none) :=
  S_C01_of_model_ok hs h (C01_replace_true d s hr)

example : fhasBool [("$replace", .bool true), ("a", .int 1)] "$replace" true = true ∧
    Val.WF (.map [("$replace", .bool true), ("a", .int 1)]) ∧
    4 * Go.depth (.map [("$replace", .bool true), ("a", .int 1)]) + 2 ≤ 6 ∧
    merge' 6 (.map [("z", .int 9)]) (.map [("$replace", .bool true), ("a", .int 1)])
      = .ok (.map [("a", .int 1)], none) := by
  refine ⟨by decide, by decide, by decide, by rfl⟩

/-- … and nothing below it is ever rejected -/
theorem S_C01_replace_true_never_rejects (d s : Fields) (hr : fhasBool s "$replace" true = true)
    (hs : Val.WF (.map s)) {fuel : Nat} (h : 4 * Go.depth (.map s) + 2 ≤ fuel) :
    ¬ ∃ v e, merge' fuel (.map d) (.map s) = .ok (v, some e) := by
  rw [S_C01_reject_iff_of_src_wf hs h]
  exact C01_replace_true_never_rejects d s hr


end Bkl.Gen.Lib
