/-
  Source-level laws (C12): property theorems of the model composed with the translation-equivalence theorems, i.e. stated
  directly about the Lean functions generated from the CURRENT Go source (Generated/Trans).  Corollaries only.
-/
import BklProofs.C12
import BklProofs.Facts.TransRepeat
namespace Bkl.Gen
open Bkl Go

/-! # C12 — document-level `$repeat`, on `repeatDoc'`

  `clone` = Document.Clone is the parameter of the translated function; `CloneSpec clone`: it never fails and keeps
  the data.  The translated function returns two parallel slices (documents, contexts) and an error. -/

/-- the lengths of the two slices, from their images -/
theorem lengths_of_maps {docs : List Go.Doc} {ecs : List Go.Ctx} {pairs : List (Val × Vars)}
    (h1 : docs.map (·.data) = pairs.map (·.1)) (h2 : ecs.map (·.vars) = pairs.map (·.2)) :
    docs.length = pairs.length ∧ ecs.length = pairs.length := by
  have a := congrArg List.length h1
  have b := congrArg List.length h2
  simp only [List.length_map] at a b
  exact ⟨a, b⟩

/-- `$repeat: n` on a map document (`C12_doc_int` / `C12_repeatDoc_map_int`): the translated `repeatDoc` returns no
    error and exactly `n` documents (none for `n ≤ 0`), each with the data of the document minus its `$repeat` key,
    and `n` contexts binding `$repeat` to `0, 1, …, n-1` in this order -/
theorem S_C12_doc_int (clone : Go.Doc → String → Go.Doc × Option Err) (hc : Lib.CloneSpec clone)
    (doc : Go.Doc) (ec : Go.Ctx) (kvs : Fields) (n : Int)
    (hd : doc.data = .map kvs) (hr : fget kvs "$repeat" = some (.int n)) :
    ∃ docs ecs, Lib.repeatDoc' clone doc ec = .ok (docs, ecs, none) ∧
      docs.length = n.toNat ∧ ecs.length = n.toNat ∧
      docs.map (·.data) = List.replicate n.toNat (.map (fdel kvs "$repeat")) ∧
      ecs.map (·.vars) = (List.range n.toNat).map (fun (i : Nat) => fset ec.vars "$repeat" (.int i)) := by
  have h := Lib.T_repeatDoc_eq clone hc doc ec
  rw [hd, C12_repeatDoc_map_int kvs ec.vars n hr] at h
  obtain ⟨docs, ecs, hok, h1, h2⟩ := h
  have hl := lengths_of_maps h1 h2
  simp only [List.length_map, List.length_range] at hl
  refine ⟨docs, ecs, hok, hl.1, hl.2, ?_, ?_⟩
  · rw [h1, List.map_map]
    apply List.ext_getElem <;> simp
  · rw [h2, List.map_map]; rfl

example : Lib.CloneSpec Lib.cloneId ∧
    fget [("$repeat", Val.int 3), ("a", .str "$repeat")] "$repeat" = some (.int 3) :=
  ⟨fun _ _ => ⟨rfl, rfl⟩, by decide⟩

/-- no `$repeat` key: exactly one document, the context unchanged (`C12_repeatDoc_no_repeat_map`) -/
theorem S_C12_no_repeat (clone : Go.Doc → String → Go.Doc × Option Err) (hc : Lib.CloneSpec clone)
    (doc : Go.Doc) (ec : Go.Ctx) (kvs : Fields) (hd : doc.data = .map kvs) (hr : fget kvs "$repeat" = none) :
    ∃ d e, Lib.repeatDoc' clone doc ec = .ok ([d], [e], none) ∧ d.data = .map kvs ∧ e.vars = ec.vars := by
  have h := Lib.T_repeatDoc_eq clone hc doc ec
  rw [hd, C12_repeatDoc_no_repeat_map kvs ec.vars hr] at h
  obtain ⟨docs, ecs, hok, h1, h2⟩ := h
  have hl := lengths_of_maps h1 h2
  simp only [List.length_cons, List.length_nil, Nat.zero_add] at hl
  obtain ⟨d, rfl⟩ := List.length_eq_one_iff.1 hl.1
  obtain ⟨e, rfl⟩ := List.length_eq_one_iff.1 hl.2
  simp only [List.map_cons, List.map_nil, List.cons.injEq, and_true] at h1 h2
  exact ⟨d, e, hok, h1, h2⟩

example : fget [("a", Val.int 1)] "$repeat" = none := by decide

/-- named counts `$repeat: {name: count, …}` (`C12_doc_named`, `C12_doc_named_length`): the translated `repeatDoc`
    returns no error; the number of documents (and of contexts) is the PRODUCT of the counts; every document has the
    data of the document minus its `$repeat` key; the contexts are those of the index tuples of the cartesian product
    in lexicographic order (first name slowest), over `ec` plus the declared counts -/
theorem S_C12_doc_named (clone : Go.Doc → String → Go.Doc × Option Err) (hc : Lib.CloneSpec clone)
    (doc : Go.Doc) (ec : Go.Ctx) (kvs rs : Fields)
    (hd : doc.data = .map kvs) (hr : fget kvs "$repeat" = some (.map rs))
    (hint : ∀ kv ∈ rs, ∃ n, kv.2 = Val.int n) :
    ∃ docs ecs, Lib.repeatDoc' clone doc ec = .ok (docs, ecs, none) ∧
      docs.length = (rs.map fun kv => countOf kv.2).prod ∧
      ecs.length = (rs.map fun kv => countOf kv.2).prod ∧
      (∀ d ∈ docs, d.data = .map (fdel kvs "$repeat")) ∧
      ecs.map (·.vars) = (tuples (rs.map fun kv => (kv.1, countOf kv.2))).map fun t =>
        t.foldl (fun e ni => fset e ("$repeat:" ++ ni.1) (.int ni.2)) (repeatEc1 ec.vars rs) := by
  have h := Lib.T_repeatDoc_eq clone hc doc ec
  have hm : repeatDoc (.map kvs) ec.vars = repeatGen (.map (fdel kvs "$repeat")) ec.vars (.map rs) := by
    simp only [repeatDoc, hr]
  rw [hd, hm, C12_doc_named _ ec.vars rs hint] at h
  obtain ⟨docs, ecs, hok, h1, h2⟩ := h
  have hl := lengths_of_maps h1 h2
  obtain ⟨_, hg, hlen⟩ := C12_doc_named_length (.map (fdel kvs "$repeat")) ec.vars rs hint
  rw [C12_doc_named _ ec.vars rs hint] at hg
  cases hg
  refine ⟨docs, ecs, hok, hl.1.trans hlen, hl.2.trans hlen, ?_, ?_⟩
  · intro d hdm
    have : d.data ∈ docs.map (·.data) := List.mem_map_of_mem hdm
    rw [h1, List.map_map] at this
    obtain ⟨t, _, ht⟩ := List.mem_map.1 this
    exact ht.symm
  · rw [h2, List.map_map]; rfl

example : fget [("$repeat", Val.map [("a", .int 2), ("b", .int 3)]), ("x", .int 7)] "$repeat"
      = some (.map [("a", .int 2), ("b", .int 3)]) ∧
    (∀ kv ∈ ([("a", .int 2), ("b", .int 3)] : Fields), ∃ n, kv.2 = Val.int n) := by
  refine ⟨by decide, ?_⟩
  intro kv h; simp at h; rcases h with rfl | rfl <;> exact ⟨_, rfl⟩

/-- a count that is not an integer is `ErrInvalidRepeat`, and no document (`C12_nonint_error`,
    `C12_nonint_error_named`) -/
theorem S_C12_nonint_error (clone : Go.Doc → String → Go.Doc × Option Err) (hc : Lib.CloneSpec clone)
    (doc : Go.Doc) (ec : Go.Ctx) (kvs : Fields) (v : Val)
    (hd : doc.data = .map kvs) (hr : fget kvs "$repeat" = some v)
    (hbad : ((∀ n, v ≠ .int n) ∧ (∀ rs, v ≠ .map rs)) ∨ ∃ rs, v = .map rs ∧ ∃ kv ∈ rs, ∀ n, kv.2 ≠ Val.int n) :
    Lib.repeatDoc' clone doc ec = .ok ([], [], some Err.invalidRepeat) := by
  have h := Lib.T_repeatDoc_eq clone hc doc ec
  have hm : repeatDoc (.map kvs) ec.vars = repeatGen (.map (fdel kvs "$repeat")) ec.vars v := by
    simp only [repeatDoc, hr]
  rw [hd, hm] at h
  rcases hbad with ⟨h1, h2⟩ | ⟨rs, rfl, hkv⟩
  · rw [C12_nonint_error _ _ v h1 h2] at h; exact h
  · rw [C12_nonint_error_named _ _ rs hkv] at h; exact h

/-- non-vacuity: `{$repeat: 3, a: "$repeat"}` through the translated function with a concrete `Clone` -/
example : ∃ docs ecs,
    Lib.repeatDoc' Lib.cloneId { id := "d", parents := "", data := .map [("$repeat", .int 3), ("a", .str "$repeat")] }
      { vars := [] } = .ok (docs, ecs, none) ∧ docs.length = 3 ∧
    ecs.map (·.vars) = [[("$repeat", .int 0)], [("$repeat", .int 1)], [("$repeat", .int 2)]] := by
  obtain ⟨docs, ecs, h, hl, _, _, he⟩ := S_C12_doc_int Lib.cloneId (fun _ _ => ⟨rfl, rfl⟩)
    { id := "d", parents := "", data := .map [("$repeat", .int 3), ("a", .str "$repeat")] } { vars := [] }
    _ 3 rfl (by decide)
  exact ⟨docs, ecs, h, hl, by rw [he]; decide⟩


end Bkl.Gen
