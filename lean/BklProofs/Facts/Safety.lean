/-
  Fact obligations for crash freedom (F3, F8).  Used by C08.
-/
import Bkl
import Generated.Facts
namespace Bkl

/-- F3: package bkl contains no single-value type assertion `x.(T)` (each one is a possible panic) -/
theorem F3_no_unchecked_type_assertions : Facts.typeAsserts = [] := by decide

/-- F8: the depth guards of process1 / process2 / interpolation exist and equal the model's fuel -/
theorem F8_depth_guards :
    Facts.depthGuards = [("process1.go", "process1", "1000"), ("process2.go", "process2", "1000"),
                         ("process2.go", "process2StringInterp", "1000")] ∧ depthLimit = 1000 := by decide

end Bkl
