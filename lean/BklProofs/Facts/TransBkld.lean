/-
  Translation equivalence, cmd/bkld/diff.go: the Lean definitions that harness/cmd/gotrans writes from /repo's
  CURRENT diff.go (Generated/Trans/Bkld.lean, regenerated on every run) compute the model's `diff`
  (Bkl/Tools.lean, section bkld).  A change of diff.go that changes its meaning makes these theorems fail to check.

  Go's `reproduces(src, patch, dst)` (bkl's own merge, run through the public API) is not translated: it is a
  parameter of the translated functions.  The theorems are stated for every `reproduces` that agrees with the
  model's test (`modelReproduces`: `mergeListList src patch` succeeds with `.list dst`) on the entry-level patches
  that diffListList builds, and in particular for `modelReproduces` itself.

  The one difference between the Go code and the model, and the hypothesis `SpineOK dst` that bridges it (nothing
  is needed of `src`):
  * Go stores the entries of the result map left to right (`ret[k] = v`), the model collects them from the right:
    the same map exactly when the keys are pairwise distinct (`diff_dupkey_differs`).
  `SpineOK dst`: every map of `dst` that is reached through maps only has pairwise distinct keys.
  It follows from `Val.WF dst` (maps strictly sorted by key: every Go map).
  Nil values need no hypothesis: Go tests `v3 != nil` to see whether a child changed, so a child patch that IS nil
  (target value nil, base value a scalar or `{}`) is dropped, and so does the model's `diffFields`
  (`diff_null_value_agrees`, `diff_null_nested_agrees`).
-/
import Generated.Trans.Bkld
import BklProofs.Lemmas.GoLib
import BklProofs.Lemmas.GoLibUtil
import BklProofs.Lemmas.GoLibBkld
import BklProofs.Lemmas.Fields
import BklProofs.Lemmas.ToolsDiff
namespace Bkl.Gen.Bkld
open Bkl Go

/-! ## the correspondence of results, and the `reproduces` parameter -/

/-- the model's three outcomes as Go's `(any, error)`; `errReplaceParent` is rendered as `some Err.other` -/
def dresToGo : DRes → Val × Option Err
  | .same => (.null, none)
  | .patch v => (v, none)
  | .replaceParent => (.null, some Err.other)

/-- the model's version of `reproduces(src, patch, dst)`: bkl's list merge of `patch` over `src` succeeds with
    exactly `dst` (the test in the model's `diffListList`) -/
def modelReproduces (src patch dst : List Val) : Bool :=
  match mergeListList src patch with
  | .ok r => r == .list dst
  | .error _ => false

/-- `reproduces` answers like the model on the entry-level patches that diffListList builds -/
def ReproducesOK (reproduces : List Val → List Val → List Val → Bool) : Prop :=
  ∀ dst src p, listPatch dst src = some p → reproduces src p dst = modelReproduces src p dst

theorem modelReproduces_ok : ReproducesOK modelReproduces := fun _ _ _ _ => rfl

/-- the model's diffListList with the test abstracted -/
def diffListListG (reproduces : List Val → List Val → List Val → Bool) (dst src : List Val) : DRes :=
  if dst == src then .same
  else match listPatch dst src with
    | none => .patch (replaceList dst)
    | some p => if reproduces src p dst then .patch (.list p) else .patch (replaceList dst)

theorem diffListListG_model (dst src : List Val) : diffListListG modelReproduces dst src = diffListList dst src := by
  unfold diffListListG diffListList modelReproduces
  by_cases h : (dst == src) = true
  · simp only [h, if_true]
  · simp only [h]
    cases listPatch dst src with
    | none => rfl
    | some p =>
      simp only []
      cases mergeListList src p with
      | error e => simp
      | ok r => simp only []

theorem diffListListG_of_ok {reproduces : List Val → List Val → List Val → Bool} (hR : ReproducesOK reproduces)
    (dst src : List Val) : diffListListG reproduces dst src = diffListList dst src := by
  rw [← diffListListG_model]
  unfold diffListListG
  split
  · rfl
  · split
    · rfl
    · rename_i p hp; rw [hR dst src p hp]

/-! ## the hypothesis -/

mutual
/-- every map of `v` that is reached through maps only has pairwise distinct keys (lists are opaque: their
    entries are only compared) -/
def spineOKB : Val → Bool
  | .map kvs => decide (Fields.DistinctKeys kvs) && spineOKFieldsB kvs
  | _ => true
def spineOKFieldsB : Fields → Bool
  | [] => true
  | (_, v) :: rest => spineOKB v && spineOKFieldsB rest
end

def SpineOK (v : Val) : Prop := spineOKB v = true

instance (v : Val) : Decidable (SpineOK v) := by unfold SpineOK; infer_instance

theorem spineOKFieldsB_iff {m : Fields} :
    spineOKFieldsB m = true ↔ ∀ p ∈ m, SpineOK p.2 := by
  induction m with
  | nil => simp [spineOKFieldsB]
  | cons hd tl ih =>
    obtain ⟨k, v⟩ := hd
    simp only [spineOKFieldsB, Bool.and_eq_true, ih, List.mem_cons, forall_eq_or_imp, SpineOK]

theorem spineOK_map_iff {m : Fields} :
    SpineOK (.map m) ↔ Fields.DistinctKeys m ∧ ∀ p ∈ m, SpineOK p.2 := by
  simp only [SpineOK, spineOKB, Bool.and_eq_true, decide_eq_true_eq, spineOKFieldsB_iff]

mutual
theorem spineOK_of_wfB : ∀ (v : Val), v.wfB = true → spineOKB v = true
  | .map kvs, h => by
    simp only [Val.wfB, Bool.and_eq_true] at h
    simp only [spineOKB, Bool.and_eq_true, decide_eq_true_eq]
    exact ⟨distinctKeys_of_sorted (sortedKeysB_iff.1 h.1), spineOKFields_of_wfB kvs h.2⟩
  | .list _, _ => rfl
  | .null, _ => rfl
  | .bool _, _ => rfl
  | .int _, _ => rfl
  | .flt _, _ => rfl
  | .str _, _ => rfl
theorem spineOKFields_of_wfB : ∀ (m : Fields), Val.wfFieldsB m = true → spineOKFieldsB m = true
  | [], _ => rfl
  | (_, v) :: rest, h => by
    simp only [Val.wfFieldsB, Bool.and_eq_true] at h
    simp only [spineOKFieldsB, Bool.and_eq_true]
    exact ⟨spineOK_of_wfB v h.1, spineOKFields_of_wfB rest h.2⟩
end

/-- every well-formed value (maps strictly sorted by key) qualifies, nil values or not -/
theorem SpineOK_of_WF {v : Val} (h : Val.WF v) : SpineOK v :=
  spineOK_of_wfB v h

/-- kept under its old name; the nil-freeness is no longer needed (`SpineOK_of_WF`) -/
theorem SpineOK_of_WF_nullFree {v : Val} (h : Val.WF v) (_hn : v.nullFree = true) : SpineOK v :=
  SpineOK_of_WF h

theorem SpineOK_of_plainVal {v : Val} (h : plainVal v = true) : SpineOK v :=
  SpineOK_of_WF (plainVal_wf h)

/-! ## replaceable, replaceList -/

theorem T_replaceable_eq (src : Val) : replaceable' src = .ok (replaceable src) := by
  cases src with
  | map kvs => simp only [replaceable', replaceable, isEmpty_eq_length_beq]
  | _ => rfl

theorem replaceList_ok (dst : List Val) :
    replaceList' dst = .ok (dst ++ [.map [("$replace", .bool true)]]) := by
  simp [replaceList', fset]

/-- diff.go:replaceList returns the entries, the model's `replaceList` wraps them in `.list` (as its callers do) -/
theorem T_replaceList_eq (dst : List Val) : Val.list <$> replaceList' dst = .ok (replaceList dst) := by
  rw [replaceList_ok]; rfl

/-! ## diffListList, diffList -/

theorem list_beq (a b : List Val) : (Val.list a == Val.list b) = (a == b) := by
  by_cases h : a = b
  · subst h; simp
  · rw [beq_eq_false_iff_ne.2 h, beq_eq_false_iff_ne.2 (by simpa using h)]

/-- diffListList for an arbitrary `reproduces` -/
theorem T_diffListList_eq_gen (reproduces : List Val → List Val → List Val → Bool) (dst src : List Val) :
    diffListList' reproduces dst src = .ok (dresToGo (diffListListG reproduces dst src)) := by
  unfold diffListList' diffListListG
  rw [list_beq]
  by_cases hEq : (dst == src) = true
  · simp [hEq, dresToGo]
  · simp only [hEq, Bool.false_eq_true, if_false]
    rw [forRange_fold (g := fun ret v1 => if !(src.any (fun v2 => v1 == v2)) then ret ++ [v1] else ret)]
    · have hfold : ∀ (xs : List Val) (p : Val → Bool) (acc : List Val),
          xs.foldl (fun ret v1 => if p v1 then ret ++ [v1] else ret) acc = acc ++ xs.filter p := by
        intro xs p
        induction xs with
        | nil => simp
        | cons x xs ih => intro acc; by_cases hp : p x = true <;> simp [ih, hp]
      rw [hfold dst (fun v1 => !(src.any (fun v2 => v1 == v2)))]
      simp only [List.nil_append]
      rw [forRange_collect_or_ret (p := fun v1 => !(dst.any (fun v2 => v1 == v2))) (ok := Val.isMap)
        (f := fun v => Val.map [("$delete", v)])
        (r := (Val.list (dst ++ [.map [("$replace", .bool true)]]), (none : Option Err)))]
      · simp only [listPatch]
        by_cases hall : (src.filter (fun v1 => !(dst.any (fun v2 => v1 == v2)))).all Val.isMap = true
        · simp only [hall, if_true, replaceList_ok]
          cases reproduces src _ dst <;> simp [dresToGo, replaceList]
        · simp only [hall, if_false, Bool.false_eq_true, dresToGo, replaceList]
      · intro v1 ret
        rw [forRange_find (q := fun v2 => v1 == v2) (r := Go.Exit.cont)]
        · by_cases ha : dst.any (fun v2 => v1 == v2) = true
          · simp [ha]
          · cases v1 <;> simp [ha, Go.asMap, replaceList_ok, Val.isMap, fset]
        · intro v2 s; rfl
    · intro v1 _ ret
      rw [forRange_find (q := fun v2 => v1 == v2) (r := Go.Exit.cont)]
      · by_cases ha : src.any (fun v2 => v1 == v2) = true <;> simp [ha]
      · intro v2 s; rfl

/-- diff.go:diffListList is the model's `diffListList`, for every `reproduces` that answers like the model -/
theorem T_diffListList_eq_of (reproduces : List Val → List Val → List Val → Bool) (hR : ReproducesOK reproduces)
    (dst src : List Val) :
    diffListList' reproduces dst src = .ok (dresToGo (diffListList dst src)) := by
  rw [T_diffListList_eq_gen, diffListListG_of_ok hR]

theorem T_diffListList_eq (dst src : List Val) :
    diffListList' modelReproduces dst src = .ok (dresToGo (diffListList dst src)) :=
  T_diffListList_eq_of _ modelReproduces_ok dst src

theorem T_diffList_eq_of (reproduces : List Val → List Val → List Val → Bool) (hR : ReproducesOK reproduces)
    (dst : List Val) (src : Val) :
    diffList' reproduces dst src = .ok (dresToGo (diff (.list dst) src)) := by
  unfold diffList'
  cases src with
  | list sl => simp only [T_diffListList_eq_of reproduces hR, diff_list_list]
  | _ =>
    rw [diff_list_other _ _ (by rfl)]
    simp only [T_replaceable_eq]
    split <;> simp_all [dresToGo]

theorem T_diffList_eq (dst : List Val) (src : Val) :
    diffList' modelReproduces dst src = .ok (dresToGo (diff (.list dst) src)) :=
  T_diffList_eq_of _ modelReproduces_ok dst src

/-! ## diffMapMap: the two loops -/

/-- what one iteration of the `range dst` loop of diffMapMap does (in model terms); `r` = the value returned when
    a child asks for its parent to be replaced -/
def step1 (r : Val × Option Err) (sm : Fields) (kv : String × Val) (ret : Fields) :
    G (Loop Fields (Val × Option Err)) :=
  match fget sm kv.1 with
  | none => .ok (.next (fset ret kv.1 kv.2))
  | some v2 =>
    match diff kv.2 v2 with
    | .same => .ok (.next ret)
    | .patch p => .ok (.next (if p.isNull then ret else fset ret kv.1 p))
    | .replaceParent => .ok (.ret r)

/-- the `range dst` loop: returns `r` if some child asks for it, else stores the per-key entries left to right -/
theorem mapMap_loop1 (r : Val × Option Err) (sm : Fields) (body : String × Val → Fields → G (Loop Fields (Val × Option Err))) :
    ∀ (dm ret : Fields), (∀ kv ∈ dm, ∀ ret, body kv ret = step1 r sm kv ret) →
      forRange dm ret body =
        .ok (if dm.any (diffRP sm) = true then .inr r else .inl (fsetAll ret (dm.filterMap (diffEntry sm)))) := by
  intro dm
  induction dm with
  | nil => intro ret _; simp [fsetAll]
  | cons kv rest ih =>
    obtain ⟨k, v⟩ := kv
    intro ret hbody
    have hb := hbody (k, v) List.mem_cons_self ret
    have ih' := fun ret => ih ret (fun kv hkv => hbody kv (List.mem_cons_of_mem _ hkv))
    simp only [step1] at hb
    cases hg : fget sm k with
    | none =>
      rw [hg] at hb
      have he : diffEntry sm (k, v) = some (k, v) := by simp [diffEntry, hg]
      have hr : diffRP sm (k, v) = false := by simp [diffRP, hg]
      rw [forRange_cons_next hb, ih']
      simp only [List.any_cons, List.filterMap_cons, he, hr, Bool.false_or, fsetAll_cons]
    | some v2 =>
      rw [hg] at hb
      simp only [] at hb
      cases hd : diff v v2 with
      | same =>
        rw [hd] at hb
        have he : diffEntry sm (k, v) = none := by simp [diffEntry, hg, hd]
        have hr : diffRP sm (k, v) = false := by simp [diffRP, hg, hd]
        rw [forRange_cons_next hb, ih']
        simp only [List.any_cons, List.filterMap_cons, he, hr, Bool.false_or]
      | patch p =>
        rw [hd] at hb
        have hr : diffRP sm (k, v) = false := by simp [diffRP, hg, hd]
        cases hp : p.isNull with
        | true =>
          have he : diffEntry sm (k, v) = none := by simp [diffEntry, hg, hd, hp]
          rw [forRange_cons_next hb, ih']
          simp only [List.any_cons, List.filterMap_cons, he, hr, hp, Bool.false_or, if_true]
        | false =>
          have he : diffEntry sm (k, v) = some (k, p) := by simp [diffEntry, hg, hd, hp]
          rw [forRange_cons_next hb, ih']
          simp only [List.any_cons, List.filterMap_cons, he, hr, hp, Bool.false_or, fsetAll_cons,
            Bool.false_eq_true, if_false]
      | replaceParent =>
        rw [hd] at hb
        have hr : diffRP sm (k, v) = true := by simp [diffRP, hg, hd]
        rw [forRange_cons_ret hb]
        simp only [List.any_cons, hr, Bool.true_or, if_true]

/-- the `range src` loop: `$delete` for the keys that only `src` has -/
theorem mapMap_loop2 (dm : Fields) (body : String × Val → Fields → G (Loop Fields (Val × Option Err)))
    (sm ret : Fields)
    (hbody : ∀ kv ∈ sm, ∀ ret, body kv ret =
      .ok (.next (if fhas dm kv.1 = true then ret else fset ret kv.1 (.str "$delete")))) :
    forRange sm ret body = .ok (.inl (fsetAll ret (diffDels dm sm))) := by
  rw [forRange_fold (g := fun ret kv => if fhas dm kv.1 = true then ret else fset ret kv.1 (.str "$delete")) _ _ _ hbody]
  congr 2
  clear hbody
  unfold diffDels
  induction sm generalizing ret with
  | nil => rfl
  | cons kv rest ih =>
    obtain ⟨k, v⟩ := kv
    rw [List.foldl_cons, ih, List.filter_cons]
    by_cases hh : fhas dm k = true
    · simp [hh]
    · simp [hh, fsetAll_cons]

theorem mapIndex2_snd (m : Fields) (k : String) : (Go.mapIndex2 m k).2 = fhas m k := by
  unfold Go.mapIndex2 fhas
  cases fget m k <;> rfl

/-- diffMapMap, given that the recursive calls on the entries of `dst` are right -/
theorem diffMapMap_step (reproduces : List Val → List Val → List Val → Bool) (fuel : Nat) (dm sm : Fields)
    (hdist : Fields.DistinctKeys dm)
    (hall : ∀ k v, (k, v) ∈ dm → ∀ v2, diff' reproduces fuel v v2 = .ok (dresToGo (diff v v2))) :
    diffMapMap' reproduces (fuel + 1) dm sm = .ok (dresToGo (diff (.map dm) (.map sm))) := by
  unfold diffMapMap'
  simp only []
  rw [mapMap_loop1 (Val.map (fset dm "$replace" (.bool true)), none) sm _ dm []]
  · rw [diff_map_map, diffFields_snd]
    by_cases hrp : dm.any (diffRP sm) = true
    · simp only [hrp, if_true, dresToGo]
    · simp only [hrp, if_false, Bool.false_eq_true]
      rw [mapMap_loop2 dm]
      · simp only [isEmpty_eq_length_beq, diffAll, diffFields_fst_distinct hdist]
        split <;> simp_all [dresToGo]
      · rintro ⟨k, v⟩ _ ret
        simp only [mapIndex2_snd]
        split <;> simp_all
  · rintro ⟨k, v⟩ hmem ret
    have hi := hall k v hmem
    simp only [Go.mapIndex2, step1]
    cases hg : fget sm k with
    | none => simp
    | some v2 =>
      simp only [hi, Bool.not_true]
      cases hd : diff v v2 with
      | same => simp [dresToGo]
      | patch p =>
        cases p <;> simp [dresToGo, Val.isNull]
      | replaceParent => simp [dresToGo]

/-! ## diff, diffMap: the cases that do not recurse -/

theorem diff_nonmap (reproduces : List Val → List Val → List Val → Bool) (hR : ReproducesOK reproduces)
    (fuel : Nat) (d s : Val) (hd : d.isMap = false) :
    diff' reproduces (fuel + 1) d s = .ok (dresToGo (diff d s)) := by
  cases d with
  | map m => simp [Val.isMap] at hd
  | list l => simp only [diff', T_diffList_eq_of reproduces hR]
  | _ =>
    rw [diff_scalar _ _ (by rfl) (by rfl)]
    simp only [diff', T_replaceable_eq]
    split
    · simp_all [dresToGo]
    · split <;> simp_all [dresToGo]

/-- diffMap, given diffMapMap -/
theorem diffMap_step (reproduces : List Val → List Val → List Val → Bool) (fuel : Nat) (dm : Fields) (s : Val)
    (hmm : ∀ sm, diffMapMap' reproduces fuel dm sm = .ok (dresToGo (diff (.map dm) (.map sm)))) :
    diffMap' reproduces (fuel + 1) dm s = .ok (dresToGo (diff (.map dm) s)) := by
  unfold diffMap'
  cases s with
  | map sm => simp only [hmm]
  | _ =>
    rw [diff_map_other _ _ (by rfl)]
    simp only [T_replaceable_eq]
    split <;> simp_all [dresToGo]

/-! ## the main induction -/

theorem diff_eq_aux (reproduces : List Val → List Val → List Val → Bool) (hR : ReproducesOK reproduces) :
    ∀ (n : Nat) (d : Val), Go.depth d ≤ n → SpineOK d → ∀ (s : Val) (fuel : Nat),
      3 * n + 1 ≤ fuel → diff' reproduces fuel d s = .ok (dresToGo (diff d s)) := by
  intro n
  induction n with
  | zero =>
    intro d hd _ s fuel hf
    obtain ⟨f, rfl⟩ : ∃ f, fuel = f + 1 := ⟨fuel - 1, by omega⟩
    cases d with
    | map kvs => simp [Go.depth] at hd
    | _ => exact diff_nonmap reproduces hR f _ s rfl
  | succ m ih =>
    intro d hd hw s fuel hf
    obtain ⟨f, rfl⟩ : ∃ f, fuel = f + 3 := ⟨fuel - 3, by omega⟩
    cases d with
    | map dm =>
      have hw' := spineOK_map_iff.1 hw
      have hall : ∀ k v, (k, v) ∈ dm → ∀ v2, diff' reproduces f v v2 = .ok (dresToGo (diff v v2)) := by
        intro k v hm v2
        have := Go.depth_le_of_mem_fields hm
        simp only [Go.depth] at hd
        exact ih v (by omega) (hw'.2 _ hm) v2 f (by omega)
      have hmm := fun sm => diffMapMap_step reproduces f dm sm hw'.1 hall
      simp only [diff', diffMap_step reproduces (f + 1) dm s hmm]
    | _ => exact diff_nonmap reproduces hR _ _ s rfl

/-! ## main theorems -/

/-- diff.go:diff, as translated from the current source, is the model's `diff`: for every `reproduces` that answers
    like the model, every target `dst` whose map spine has distinct keys (nil values allowed), every base `src`,
    given fuel for the nesting depth of `dst` -/
theorem T_diff_eq_of (reproduces : List Val → List Val → List Val → Bool) (hR : ReproducesOK reproduces)
    (dst src : Val) (hw : SpineOK dst) (fuel : Nat) (h : 3 * Go.depth dst + 1 ≤ fuel) :
    diff' reproduces fuel dst src = .ok (dresToGo (diff dst src)) :=
  diff_eq_aux reproduces hR (Go.depth dst) dst (Nat.le_refl _) hw src fuel h

theorem T_diff_eq_spine (dst src : Val) (hw : SpineOK dst) (fuel : Nat) (h : 3 * Go.depth dst + 1 ≤ fuel) :
    diff' modelReproduces fuel dst src = .ok (dresToGo (diff dst src)) :=
  T_diff_eq_of _ modelReproduces_ok dst src hw fuel h

/-- for every well-formed target (maps strictly sorted by key: every Go map; in particular bkld's inputs) -/
theorem T_diff_eq (dst src : Val) (hw : Val.WF dst) (fuel : Nat)
    (h : 3 * Go.depth dst + 1 ≤ fuel) :
    diff' modelReproduces fuel dst src = .ok (dresToGo (diff dst src)) :=
  T_diff_eq_spine dst src (SpineOK_of_WF hw) fuel h

/-- diff.go:diffMapMap is the model's `diff` on two maps -/
theorem T_diffMapMap_eq_of (reproduces : List Val → List Val → List Val → Bool) (hR : ReproducesOK reproduces)
    (dst src : Fields) (hw : SpineOK (.map dst)) (fuel : Nat) (h : 3 * Go.depthFields dst + 2 ≤ fuel) :
    diffMapMap' reproduces fuel dst src = .ok (dresToGo (diff (.map dst) (.map src))) := by
  obtain ⟨f, rfl⟩ : ∃ f, fuel = f + 1 := ⟨fuel - 1, by omega⟩
  have hw' := spineOK_map_iff.1 hw
  refine diffMapMap_step reproduces f dst src hw'.1 ?_
  intro k v hm v2
  have := Go.depth_le_of_mem_fields hm
  exact diff_eq_aux reproduces hR (Go.depthFields dst) v this (hw'.2 _ hm) v2 f (by omega)

theorem T_diffMapMap_eq_spine (dst src : Fields) (hw : SpineOK (.map dst)) (fuel : Nat)
    (h : 3 * Go.depthFields dst + 2 ≤ fuel) :
    diffMapMap' modelReproduces fuel dst src = .ok (dresToGo (diff (.map dst) (.map src))) :=
  T_diffMapMap_eq_of _ modelReproduces_ok dst src hw fuel h

theorem T_diffMapMap_eq (dst src : Fields) (hw : Val.WF (.map dst))
    (fuel : Nat) (h : 3 * Go.depthFields dst + 2 ≤ fuel) :
    diffMapMap' modelReproduces fuel dst src = .ok (dresToGo (diff (.map dst) (.map src))) :=
  T_diffMapMap_eq_spine dst src (SpineOK_of_WF hw) fuel h

/-- diff.go:diffMap is the model's `diff` on a map target -/
theorem T_diffMap_eq_of (reproduces : List Val → List Val → List Val → Bool) (hR : ReproducesOK reproduces)
    (dst : Fields) (src : Val) (hw : SpineOK (.map dst)) (fuel : Nat) (h : 3 * Go.depth (.map dst) ≤ fuel) :
    diffMap' reproduces fuel dst src = .ok (dresToGo (diff (.map dst) src)) := by
  simp only [Go.depth] at h
  obtain ⟨f, rfl⟩ : ∃ f, fuel = f + 1 := ⟨fuel - 1, by omega⟩
  exact diffMap_step reproduces f dst src
    (fun sm => T_diffMapMap_eq_of reproduces hR dst sm hw f (by omega))

theorem T_diffMap_eq_spine (dst : Fields) (src : Val) (hw : SpineOK (.map dst)) (fuel : Nat)
    (h : 3 * Go.depth (.map dst) ≤ fuel) :
    diffMap' modelReproduces fuel dst src = .ok (dresToGo (diff (.map dst) src)) :=
  T_diffMap_eq_of _ modelReproduces_ok dst src hw fuel h

theorem T_diffMap_eq (dst : Fields) (src : Val) (hw : Val.WF (.map dst))
    (fuel : Nat) (h : 3 * Go.depth (.map dst) ≤ fuel) :
    diffMap' modelReproduces fuel dst src = .ok (dresToGo (diff (.map dst) src)) :=
  T_diffMap_eq_spine dst src (SpineOK_of_WF hw) fuel h

/-! ## non-vacuity, and the hypotheses are needed -/

/-- non-trivial instances of the hypotheses: distinct keys need not be in order, map values, the root and the entries
    of lists may be nil, the entries of lists arbitrary -/
example : SpineOK (.map [("b", .map [("y", .int 1), ("x", .str "s"), ("n", .null)]),
    ("a", .list [.null, .map [("z", .null), ("z", .null)]])]) := by decide
example : SpineOK .null := by decide
example : Val.WF (.map [("a", .map [("x", .int 1), ("y", .null)]), ("b", .list [.int 1])]) := by decide

/-- a repeated key in the target (not a Go map): Go's `ret[k] = v` keeps the last entry, the model the first -/
theorem diff_dupkey_differs (reproduces : List Val → List Val → List Val → Bool) :
    let dst : Val := .map [("a", .int 1), ("a", .int 2)]
    let src : Val := .map []
    ¬ SpineOK dst ∧ ∀ fuel, diff' reproduces fuel dst src ≠ .ok (dresToGo (diff dst src)) := by
  refine ⟨by decide, ?_⟩
  intro fuel
  match fuel with
  | 0 | 1 | 2 =>
    simp [diff', diffMap', diffMapMap']
  | f + 3 =>
    simp [diff', diffMap', diffMapMap', forRange, Go.mapIndex2, fget, fset, diff, diffFields, fsetAll, dresToGo]

/-- a nil value in the target over a scalar in the base: Go takes the nil child patch for "no change" and emits
    nothing, and so does the model — both answer "no difference" (the hypothesis of `T_diff_eq` holds) -/
theorem diff_null_value_agrees (reproduces : List Val → List Val → List Val → Bool) :
    let dst : Val := .map [("a", .null)]
    let src : Val := .map [("a", .int 1)]
    Val.WF dst ∧ SpineOK dst ∧ diff dst src = .same ∧
      ∀ fuel, 3 * Go.depth dst + 1 ≤ fuel →
        diff' reproduces fuel dst src = .ok (.null, none) ∧
        diff' reproduces fuel dst src = .ok (dresToGo (diff dst src)) := by
  have hm : diff (.map [("a", .null)]) (.map [("a", .int 1)]) = .same := by
    simp [diff, diffFields, replaceable, fget, fsetAll, fhas, Val.isNull]
  refine ⟨by decide, by decide, hm, ?_⟩
  intro fuel hf
  simp only [Go.depth, Go.depthFields] at hf
  obtain ⟨f, rfl⟩ : ∃ f, fuel = f + 4 := ⟨fuel - 4, by omega⟩
  have hg : diff' reproduces (f + 4) (.map [("a", .null)]) (.map [("a", .int 1)]) = .ok (.null, none) := by
    simp [diff', diffMap', diffMapMap', replaceable', forRange, Go.mapIndex2, fget]
  exact ⟨hg, by rw [hg, hm]; rfl⟩

/-- the same one level down: model and translation agree ("no difference") along the whole map spine -/
theorem diff_null_nested_agrees (reproduces : List Val → List Val → List Val → Bool) :
    let dst : Val := .map [("k", .map [("a", .null)])]
    let src : Val := .map [("k", .map [("a", .int 1)])]
    Val.WF dst ∧ SpineOK dst ∧ diff dst src = .same ∧
      ∀ fuel, 3 * Go.depth dst + 1 ≤ fuel →
        diff' reproduces fuel dst src = .ok (.null, none) ∧
        diff' reproduces fuel dst src = .ok (dresToGo (diff dst src)) := by
  have hm : diff (.map [("k", .map [("a", .null)])]) (.map [("k", .map [("a", .int 1)])]) = .same := by
    simp [diff, diffFields, replaceable, fget, fsetAll, fhas, Val.isNull]
  refine ⟨by decide, by decide, hm, ?_⟩
  intro fuel hf
  simp only [Go.depth, Go.depthFields] at hf
  obtain ⟨f, rfl⟩ : ∃ f, fuel = f + 7 := ⟨fuel - 7, by omega⟩
  have hg : diff' reproduces (f + 7) (.map [("k", .map [("a", .null)])]) (.map [("k", .map [("a", .int 1)])]) =
      .ok (.null, none) := by
    simp [diff', diffMap', diffMapMap', replaceable', forRange, Go.mapIndex2, fget]
  exact ⟨hg, by rw [hg, hm]; rfl⟩

/-- a nil value under a key that the base does not have is emitted as it is, by both (an instance of `T_diff_eq`) -/
example : diff (.map [("a", .null)]) (.map []) = .patch (.map [("a", .null)]) ∧
    diff' modelReproduces 4 (.map [("a", .null)]) (.map []) = .ok (.map [("a", .null)], none) := by
  have hm : diff (.map [("a", .null)]) (.map []) = .patch (.map [("a", .null)]) := by
    simp [diff, diffFields, fget, fset, fsetAll]
  refine ⟨hm, ?_⟩
  rw [T_diff_eq _ _ (by decide) 4 (by decide), hm]; rfl

/-- `reproduces` matters: a test that always answers yes accepts the empty patch for a reordered list, bkl's merge
    (the model's test) does not -/
theorem reproduces_needed :
    let dst : List Val := [.int 1, .int 2]
    let src : List Val := [.int 2, .int 1]
    diffListList' (fun _ _ _ => true) dst src = .ok (.list [], none) ∧
      diffListList' modelReproduces dst src = .ok (.list [.int 1, .int 2, .map [("$replace", .bool true)]], none) := by
  constructor
  · rw [T_diffListList_eq_gen]
    simp [diffListListG, listPatch, dresToGo]
  · rw [T_diffListList_eq]
    simp [diffListList, listPatch, mergeListList, popListString, popListMapBool, hasListMapBool, mergeEntries,
      dresToGo, replaceList, pure, Except.pure, bind, Except.bind]

/-- the fuel is needed: with none, the translated function reports `GErr.fuel` -/
example : diff' modelReproduces 0 .null .null = .error GErr.fuel := rfl

end Bkl.Gen.Bkld
