/-
  Fact obligation F5: the only calls in package bkl that read file contents are `p.root.Open`
  (confined by os.Root) and the ReadAll on its result; OutputToFile opens the *output* path.
  Used by C18.
-/
import Bkl
import Generated.Facts
namespace Bkl

theorem F5_file_reads :
    Facts.fileReads = [("file.go", "loadFile", "io.ReadAll"), ("file.go", "loadFile", "p.root.Open"),
                       ("parser.go", "OutputToFile", "os.OpenFile")] := by decide

end Bkl
