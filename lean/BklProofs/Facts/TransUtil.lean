/-
  Translation equivalence, util.go: the Lean definitions that harness/cmd/gotrans writes from /repo's CURRENT
  util.go (Generated/Trans/Util.lean, regenerated on every run) compute the model's helpers of Bkl/Val.lean and
  Bkl/Fields.lean (`fget`/`fdel`, `fhasBool`, `fgetStr`, `hasListMapBool`, `getListMapStr`, `toStringList`), and
  `deepClone` is `Val.norm` — the identity exactly on well-formed values.
  A change of util.go that changes its meaning makes these theorems fail to check.
-/
import Generated.Trans.Util
import BklProofs.Lemmas.GoLibUtil
namespace Bkl.Gen.Lib
open Bkl Go

/-! ## the functions without loops -/

/-- util.go:toBool is the type assertion `a.(bool)` -/
theorem T_toBool_eq (a : Val) :
    toBool' a = .ok (match a with | .bool b => (b, true) | _ => (false, false)) := by
  cases a <;> rfl

/-- util.go:toString is the model's `Val.toStr` -/
theorem T_toString_eq (a : Val) : toString' a = .ok a.toStr := by
  cases a <;> rfl

/-- util.go:popMapValue: `(found, value, map without k)` -/
theorem T_popMapValue_eq (m : Fields) (k : String) :
    popMapValue' m k = .ok ((fget m k).isSome, (fget m k).getD .null, fdel m k) := by
  unfold popMapValue' mapIndex2
  cases h : fget m k with
  | none => simp [fdel_of_not_mem h]
  | some v => simp

/-- the same, by cases on the lookup -/
theorem popMapValue_eq_match (m : Fields) (k : String) :
    popMapValue' m k = .ok (match fget m k with
      | some v => (true, v, fdel m k)
      | none => (false, .null, m)) := by
  rw [T_popMapValue_eq]
  cases h : fget m k with
  | none => simp [fdel_of_not_mem h]
  | some v => simp

/-- util.go:getMapBoolValue: the bool stored under `k` and whether there is one -/
theorem T_getMapBoolValue_eq (m : Fields) (k : String) :
    getMapBoolValue' m k = .ok (match fget m k with | some (.bool b) => (b, true) | _ => (false, false)) := by
  unfold getMapBoolValue' mapIndex2
  cases h : fget m k with
  | none => simp
  | some v => cases v <;> simp [T_toBool_eq]

/-- util.go:hasMapBoolValue is the model's `fhasBool` -/
theorem T_hasMapBoolValue_eq (m : Fields) (k : String) (v : Bool) :
    hasMapBoolValue' m k v = .ok (fhasBool m k v) := by
  unfold hasMapBoolValue' fhasBool
  rw [T_getMapBoolValue_eq]
  cases h : fget m k with
  | none => simp
  | some w => cases w <;> simp

/-- util.go:popMapBoolValue -/
theorem T_popMapBoolValue_eq (m : Fields) (k : String) (v : Bool) :
    popMapBoolValue' m k v = .ok (fhasBool m k v, if fhasBool m k v then fdel m k else m) := by
  unfold popMapBoolValue'
  rw [T_hasMapBoolValue_eq]
  cases fhasBool m k v <;> simp

/-- util.go:getMapStringValue is the model's `fgetStr` -/
theorem T_getMapStringValue_eq (m : Fields) (k : String) :
    getMapStringValue' m k = .ok (fgetStr m k) := by
  unfold getMapStringValue' fgetStr mapIndex2
  cases h : fget m k with
  | none => simp
  | some v => simp [T_toString_eq]

/-- util.go:popMapStringValue -/
theorem T_popMapStringValue_eq (m : Fields) (k : String) :
    popMapStringValue' m k = .ok (fgetStr m k, if fgetStr m k != "" then fdel m k else m) := by
  unfold popMapStringValue'
  rw [T_getMapStringValue_eq]
  by_cases h : fgetStr m k = "" <;> simp [h]

/-! ## the loops without state -/

theorem hasListMapBool_cons (x : Val) (l : List Val) (k : String) (v : Bool) :
    hasListMapBool (x :: l) k v = (((asMap x).2 && fhasBool (asMap x).1 k v) || hasListMapBool l k v) := by
  unfold hasListMapBool
  cases x <;> simp [asMap]

/-- the loop of hasListMapBoolValue -/
theorem hasListMapBoolValue_loop (l : List Val) (k : String) (v : Bool) (body : Val → Unit → G (Loop Unit Bool))
    (hbody : ∀ x, body x () =
      .ok (if ((asMap x).2 && fhasBool (asMap x).1 k v) = true then .ret true else .next ())) :
    forRange l () body = .ok (if hasListMapBool l k v = true then .inr true else .inl ()) := by
  induction l with
  | nil => rfl
  | cons x xs ih =>
    rw [hasListMapBool_cons]
    by_cases hx : ((asMap x).2 && fhasBool (asMap x).1 k v) = true
    · rw [forRange_cons_ret (r := true) (by rw [hbody, if_pos hx])]
      simp [hx]
    · rw [forRange_cons_next (s' := ()) (by rw [hbody, if_neg hx]), ih]
      simp [hx]

/-- util.go:hasListMapBoolValue is the model's `hasListMapBool` -/
theorem T_hasListMapBoolValue_eq (l : List Val) (k : String) (v : Bool) :
    hasListMapBoolValue' l k v = .ok (hasListMapBool l k v) := by
  unfold hasListMapBoolValue'
  rw [hasListMapBoolValue_loop l k v]
  · cases hasListMapBool l k v <;> rfl
  · intro x
    cases x with
    | map m => cases h : fhasBool m k v <;> simp [asMap, T_hasMapBoolValue_eq, h]
    | _ => simp [asMap]

theorem getListMapStr_nil (k : String) : getListMapStr [] k = "" := rfl

theorem getListMapStr_cons_map (m : Fields) (l : List Val) (k : String) :
    getListMapStr (.map m :: l) k = if fgetStr m k != "" then fgetStr m k else getListMapStr l k := by
  unfold getListMapStr
  by_cases h : fgetStr m k = "" <;> simp [h]

theorem getListMapStr_cons_other (x : Val) (l : List Val) (k : String) (h : (asMap x).2 = false) :
    getListMapStr (x :: l) k = getListMapStr l k := by
  unfold getListMapStr
  cases x <;> simp_all [asMap]

/-- the loop of getListMapStringValue -/
theorem getListMapStringValue_loop (l : List Val) (k : String) (body : Val → Unit → G (Loop Unit String))
    (hmap : ∀ m, body (.map m) () = .ok (if fgetStr m k != "" then .ret (fgetStr m k) else .next ()))
    (hother : ∀ x, (asMap x).2 = false → body x () = .ok (.next ())) :
    forRange l () body = .ok (if getListMapStr l k != "" then .inr (getListMapStr l k) else .inl ()) := by
  induction l with
  | nil => rfl
  | cons x xs ih =>
    by_cases hx : (asMap x).2 = false
    · rw [forRange_cons_next (hother x hx), ih, getListMapStr_cons_other x xs k hx]
    · obtain ⟨m, rfl⟩ : ∃ m, x = .map m := by cases x <;> simp_all [asMap]
      rw [getListMapStr_cons_map]
      by_cases hm : fgetStr m k = ""
      · rw [forRange_cons_next (s' := ()) (by simp [hmap, hm]), ih]
        simp [hm]
      · rw [forRange_cons_ret (r := fgetStr m k) (by simp [hmap, hm])]
        simp [hm]

/-- util.go:getListMapStringValue is the model's `getListMapStr` -/
theorem T_getListMapStringValue_eq (l : List Val) (k : String) :
    getListMapStringValue' l k = .ok (getListMapStr l k) := by
  unfold getListMapStringValue'
  rw [getListMapStringValue_loop l k]
  · by_cases h : getListMapStr l k = "" <;> simp [h]
  · intro m
    by_cases h : fgetStr m k = "" <;> simp [asMap, T_getMapStringValue_eq, h]
  · intro x hx
    cases x <;> simp_all [asMap]

/-! ## toStringList -/

/-- the Go result pair of a model result: the list and the error class -/
def listErr : R (List String) → List String × Option Err
  | .ok ss => (ss, none)
  | .error e => ([], some e)

theorem toStringList_nil : toStringList [] = .ok [] := rfl

theorem toStringList_cons_str (s : String) (l : List Val) :
    toStringList (.str s :: l) = (match toStringList l with | .ok ss => .ok (s :: ss) | .error e => .error e) := by
  simp only [toStringList, List.mapM_cons, pure, Except.pure, bind, Except.bind]
  split <;> simp_all

theorem toStringList_cons_other (x : Val) (l : List Val) (h : ∀ s, x ≠ .str s) :
    toStringList (x :: l) = .error Err.invalidType := by
  cases x <;> first | (exact absurd rfl (h _)) | (simp only [toStringList, List.mapM_cons, bind, Except.bind]; rfl)

/-- the loop of toStringList, from any accumulator -/
theorem toStringList_loop (l : List Val) (acc : List String) (body : Val → List String → G (Loop (List String) (List String × Option Err)))
    (hstr : ∀ s acc, body (.str s) acc = .ok (.next (acc ++ [s])))
    (hother : ∀ x acc, (∀ s, x ≠ .str s) → body x acc = .ok (.ret ([], some Err.invalidType))) :
    forRange l acc body = .ok (match toStringList l with
      | .ok ss => .inl (acc ++ ss)
      | .error e => .inr ([], some e)) := by
  induction l generalizing acc with
  | nil => simp [toStringList_nil]
  | cons x xs ih =>
    by_cases hx : ∃ s, x = .str s
    · obtain ⟨s, rfl⟩ := hx
      rw [forRange_cons_next (hstr s acc), ih, toStringList_cons_str]
      cases toStringList xs <;> simp
    · have hx' : ∀ s, x ≠ .str s := fun s e => hx ⟨s, e⟩
      rw [forRange_cons_ret (hother x acc hx'), toStringList_cons_other x xs hx']

/-- util.go:toStringList is the model's `toStringList`: the same strings, or (nil, the same error class) -/
theorem T_toStringList_eq (l : List Val) : toStringList' l = .ok (listErr (toStringList l)) := by
  unfold toStringList'
  simp only []
  rw [toStringList_loop l []]
  · cases toStringList l <;> simp [listErr]
  · intro s acc; rfl
  · intro x acc hx
    cases x <;> first | rfl | exact absurd rfl (hx _)

/-! ## deepClone -/

/-- util.go:deepClone rebuilds every map entry by entry (`ret[k] = v`), i.e. it is the model's `Val.norm`,
    for EVERY value (no hypothesis) -/
theorem deepClone_eq_norm_aux : ∀ (n : Nat) (v : Val), Go.depth v ≤ n → ∀ fuel, n + 1 ≤ fuel →
    deepClone' fuel v = .ok (Val.norm v, none) := by
  intro n
  induction n with
  | zero =>
    intro v hd fuel hf
    obtain ⟨f, rfl⟩ : ∃ f, fuel = f + 1 := ⟨fuel - 1, by omega⟩
    cases v with
    | map kvs => simp [Go.depth] at hd
    | list xs => simp [Go.depth] at hd
    | str s => simp [deepClone', Val.norm]
    | null => simp [deepClone', Val.norm]
    | bool b => simp [deepClone', Val.norm]
    | int i => simp [deepClone', Val.norm]
    | flt r => simp [deepClone', Val.norm]
  | succ m ih =>
    intro v hd fuel hf
    obtain ⟨f, rfl⟩ : ∃ f, fuel = f + 1 := ⟨fuel - 1, by omega⟩
    cases v with
    | map kvs =>
      have hall : ∀ p ∈ kvs, deepClone' f p.2 = .ok (Val.norm p.2, none) := by
        intro p hm
        have := Go.depth_le_of_mem_fields (k := p.1) (v := p.2) hm
        simp only [Go.depth] at hd
        exact ih p.2 (by omega) f (by omega)
      unfold deepClone'
      simp only []
      rw [forRange_fold (fun acc (p : String × Val) => fset acc p.1 (Val.norm p.2))]
      · simp only [gu_foldl_norm_fields, Val.norm, fofList]
      · intro p hp s
        simp [hall p hp]
    | list xs =>
      have hall : ∀ x ∈ xs, deepClone' f x = .ok (Val.norm x, none) := by
        intro x hm
        have := Go.depth_le_of_mem_list hm
        simp only [Go.depth] at hd
        exact ih x (by omega) f (by omega)
      unfold deepClone'
      simp only []
      rw [forRange_fold (fun acc (x : Val) => acc ++ [Val.norm x])]
      · simp only [gu_foldl_norm_list, Val.norm, List.nil_append]
      · intro x hx s
        simp [hall x hx]
    | str s => simp [deepClone', Val.norm]
    | null => simp [deepClone', Val.norm]
    | bool b => simp [deepClone', Val.norm]
    | int i => simp [deepClone', Val.norm]
    | flt r => simp [deepClone', Val.norm]

theorem T_deepClone_eq_norm (v : Val) (fuel : Nat) (h : Go.depth v + 1 ≤ fuel) :
    deepClone' fuel v = .ok (Val.norm v, none) :=
  deepClone_eq_norm_aux (Go.depth v) v (Nat.le_refl _) fuel h

/-- util.go:deepClone returns its argument (and no error) when every map inside it is strictly sorted by key -/
theorem T_deepClone_eq (v : Val) (hv : Val.WF v) (fuel : Nat) (h : Go.depth v + 1 ≤ fuel) :
    deepClone' fuel v = .ok (v, none) := by
  rw [T_deepClone_eq_norm v fuel h, gu_norm_of_wf v hv]

/-- … and ONLY then: `Val.WF v` is the weakest hypothesis for `T_deepClone_eq` -/
theorem deepClone_eq_iff_wf (v : Val) (fuel : Nat) (h : Go.depth v + 1 ≤ fuel) :
    deepClone' fuel v = .ok (v, none) ↔ Val.WF v := by
  rw [T_deepClone_eq_norm v fuel h]
  simp only [Except.ok.injEq, Prod.mk.injEq, and_true]
  exact gu_norm_eq_self_iff v

/-- non-vacuity of `T_deepClone_eq` -/
example : Val.WF (.map [("a", .list [.map [("x", .int 1), ("y", .null)]]), ("b", .str "s")]) ∧
    Go.depth (.map [("a", .list [.map [("x", .int 1), ("y", .null)]]), ("b", .str "s")]) + 1 ≤ 4 := by decide

/-- the hypothesis is needed: an unsorted map comes back sorted … -/
theorem deepClone_unsorted :
    deepClone' 2 (.map [("b", .null), ("a", .null)]) = .ok (.map [("a", .null), ("b", .null)], none) := by
  rw [T_deepClone_eq_norm _ _ (by decide)]; rfl

theorem deepClone_unsorted_ne :
    deepClone' 2 (.map [("b", .null), ("a", .null)]) ≠ .ok (.map [("b", .null), ("a", .null)], none) := by
  rw [deepClone_unsorted]; simp

/-- … and a map with a repeated key loses the earlier entry -/
theorem deepClone_dupkey :
    deepClone' 2 (.map [("a", .int 1), ("a", .int 2)]) = .ok (.map [("a", .int 2)], none) := by
  rw [T_deepClone_eq_norm _ _ (by decide)]; rfl

theorem deepClone_dupkey_ne :
    deepClone' 2 (.map [("a", .int 1), ("a", .int 2)]) ≠ .ok (.map [("a", .int 1), ("a", .int 2)], none) := by
  rw [deepClone_dupkey]; simp

/-- fuel: with less than `depth v + 1` the translated function does not finish -/
example : deepClone' 1 (.list [.list []]) = .error GErr.fuel := by rfl

end Bkl.Gen.Lib
