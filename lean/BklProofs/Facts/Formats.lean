/-
  Fact obligations over the regenerated format table and CLI option table (F1, F7).
  Used by C03, C04, C05, C18, C20.
-/
import Bkl
import Generated.Facts
namespace Bkl

/-- F1: the format table of formats.go has exactly the extensions the model knows -/
theorem F1_format_keys : Facts.formatTable.map (·.1) = supportedExts := by decide

/-- F1: aliases share codecs: yml ≡ yaml, jsonl ≡ json, json-pretty reads as json -/
theorem F1_aliases :
    (Facts.formatTable.lookup "yml" = Facts.formatTable.lookup "yaml") ∧
    (Facts.formatTable.lookup "jsonl" = Facts.formatTable.lookup "json") ∧
    ((Facts.formatTable.lookup "json-pretty").map (·.2) = (Facts.formatTable.lookup "json").map (·.2)) := by decide

/-- F7: cmd/bkl has -f -o -r -P (and -v -V -c), and -f accepts exactly json, json-pretty, toml, yaml -/
theorem F7_cli_options :
    Facts.cliOptions.map (·.2.1) = ["P", "V", "c", "f", "o", "r", "v"] ∧
    (Facts.cliOptions.lookup "cmd/bkl").isSome ∧
    (Facts.cliOptions.find? (·.2.1 == "f")).map (·.2.2) = some "json,json-pretty,toml,yaml" := by decide

end Bkl
