/-
  Source-level laws (C16): property theorems of the model composed with the translation-equivalence theorems, i.e. stated
  directly about the Lean functions generated from the CURRENT Go source (Generated/Trans).  Corollaries only.
-/
import BklProofs.C16
import BklProofs.Facts.TransBkli
import BklProofs.Facts.SourceC15
namespace Bkl.Gen
open Bkl Go

/-! # C16 — bkli, on `intersect'` (and the migrate workflow on `intersect'`, `diff'`, `merge'` together) -/

/-- idempotence (`C16_idempotent`): a well-formed, null-free document intersected with itself is itself -/
theorem S_C16_idempotent (v : Val) (hv : Val.WF v) (hn : v.nullFree = true)
    (fuel : Nat) (hf : 3 * Go.depth v + 1 ≤ fuel) :
    Bkli.intersect' fuel v v = .ok (v, none) := by
  rw [Bkli.T_intersect_eq v v hv fuel hf, C16_idempotent v hv hn]

example : Val.WF C16_a ∧ C16_a.nullFree = true ∧ 3 * Go.depth C16_a + 1 ≤ 7 := by decide

/-- the result is a common sub-document (`C16_common`): for null-free inputs, the first well-formed, the translated
    `intersect` never fails and what it returns is a (marker-tolerant) sub-document `Sub` of both inputs -/
theorem S_C16_common (a b : Val) (ha : Val.WF a) (han : a.nullFree = true) (hbn : b.nullFree = true)
    (fuel : Nat) (hf : 3 * Go.depth a + 1 ≤ fuel) :
    ∃ r, Bkli.intersect' fuel a b = .ok (r, none) ∧ Sub r a ∧ Sub r b :=
  ⟨_, Bkli.T_intersect_eq a b ha fuel hf, C16_common a b ha han hbn⟩

example : Val.WF C16_a ∧ C16_a.nullFree = true ∧ C16_b.nullFree = true ∧ 3 * Go.depth C16_a + 1 ≤ 7 := by decide

/-- a field with non-null values on both sides is never dropped, and two different scalars become the marker
    (`C16_required_on_conflict`, `C16_required_on_conflict_scalar`), read off the translated function's result -/
theorem S_C16_required_on_conflict (am bm : Fields) (k : String) (x y : Val) (ha : Val.WF (.map am))
    (hx : fget am k = some x) (hy : fget bm k = some y) (hxn : x ≠ .null) (hyn : y ≠ .null)
    (fuel : Nat) (hf : 3 * Go.depth (.map am) + 1 ≤ fuel) :
    ∃ rm, Bkli.intersect' fuel (.map am) (.map bm) = .ok (.map rm, none) ∧
      fget rm k = some (intersect x y) ∧
      (x.isScalar = true → x ≠ y → fget rm k = some (.str "$required")) := by
  refine ⟨intersectFields am bm, ?_, (C16_required_on_conflict am bm k x y hx hy hxn hyn).1,
    fun hs hne => C16_required_on_conflict_scalar am bm k x y hx hy hs hyn hne⟩
  rw [Bkli.T_intersect_eq _ _ ha fuel hf]
  simp [intersect]

example : Val.WF (.map [("name", .str "a")]) ∧ fget [("name", Val.str "a")] "name" = some (.str "a") ∧
    fget [("name", Val.str "b")] "name" = some (.str "b") ∧ Val.str "a" ≠ .null ∧ Val.str "b" ≠ .null ∧
    3 * Go.depth (.map [("name", .str "a")]) + 1 ≤ 4 := by decide

/-- THE MIGRATE WORKFLOW IS LOSSLESS, on the three translated sources together (`C16_lossless`): for plain `a`, `b`
    the translated `intersect` returns a base `r`; the translated `diff` of either input against `r` never fails
    with the replace-parent error: it returns nil and the input equals the base, or a patch that the translated
    `merge` layers over `r` to give back the input -/
theorem S_C16_lossless (a b x : Val) (ha : plainVal a = true) (hb : plainVal b = true) (hx : x = a ∨ x = b)
    (fuel : Nat) (hf : 3 * Go.depth a + 1 ≤ fuel) (fuel2 : Nat) (hf2 : 3 * Go.depth x + 1 ≤ fuel2) :
    ∃ r, Bkli.intersect' fuel a b = .ok (r, none) ∧
      ((Bkld.diff' Bkld.modelReproduces fuel2 x r = .ok (.null, none) ∧ x = r) ∨
       ∃ p, p ≠ .null ∧ Bkld.diff' Bkld.modelReproduces fuel2 x r = .ok (p, none) ∧
         ∀ fuel3, 4 * Go.depth p + 2 ≤ fuel3 → Lib.merge' fuel3 r p = .ok (x, none)) := by
  refine ⟨_, Bkli.T_intersect_eq a b (plainVal_wf ha) fuel hf, ?_⟩
  have hall : ∀ y ∈ [b, a], plainVal y = true := by
    intro y hy
    simp only [List.mem_cons, List.not_mem_nil, or_false] at hy
    rcases hy with rfl | rfl <;> assumption
  have hwf : Val.WF (intersect a b) := (C16_fold_wf [b, a] (by simp) hall).1
  have hsub : Sub (intersect a b) x := by
    have := C16_fold [b, a] hall x (by rcases hx with rfl | rfl <;> simp)
    exact this
  have hxp : plainVal x = true := by rcases hx with rfl | rfl <;> assumption
  rcases S_C15_roundtrip_core x (intersect a b) hxp hwf fuel2 hf2 with h | ⟨p, hn, _, _, hd, hm⟩ | h
  · exact .inl h
  · exact .inr ⟨p, hn, hd, hm⟩
  · exact absurd ((C15_replaceParent_iff _ _).2 h.2) (diff_ne_replaceParent_of_Sub hsub)

example : plainVal C16_a = true ∧ plainVal C16_b = true ∧ 3 * Go.depth C16_a + 1 ≤ 7 := by decide


end Bkl.Gen
