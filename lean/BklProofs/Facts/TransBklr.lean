/-
  Translation equivalence, cmd/bklr/required.go: the Lean definitions that harness/cmd/gotrans writes from /repo's
  CURRENT required.go (Generated/Trans/Bklr.lean, regenerated on every run) compute the model's `required`
  (Bkl/Tools.lean).  A change of required.go that changes its meaning makes these theorems fail to check.

  Differences between the Go code and the model that the theorems bridge:
  * Go returns `nil` for "nothing to emit", the model `none`            → `(required v).getD .null`
    (and Go tests `v2 == nil` on the recursive result: `required` never answers `some nil`, `rq_required_ne_null`);
  * Go builds the result map with `ret[k] = v2` (`fset` into a key-sorted association list), the model keeps the
    entries in input order → equal for well-formed input (`Val.WF v`: every map inside `v` has strictly increasing
    keys), NOT equal otherwise (`required_eq_needs_WF`, `required_eq_needs_WF_nested`).  Without any hypothesis the
    Go result is the normal form `Val.norm` of the model's result (`T_required_eq_norm`).
-/
import Generated.Trans.Bklr
import BklProofs.Lemmas.GoLibBklr
namespace Bkl.Gen.Bklr
open Bkl Go

/-- Go's `nil` or the non-empty container -/
def listOrNil (l : List Val) : Val := if l.isEmpty then .null else .list l
def mapOrNil (m : Fields) : Val := if m.isEmpty then .null else .map m

@[simp] theorem listOrNil_nil : listOrNil [] = .null := rfl
@[simp] theorem listOrNil_cons (x : Val) (l : List Val) : listOrNil (x :: l) = .list (x :: l) := rfl
@[simp] theorem mapOrNil_nil : mapOrNil [] = .null := rfl
@[simp] theorem mapOrNil_cons (x : String × Val) (l : Fields) : mapOrNil (x :: l) = .map (x :: l) := rfl

theorem required_map_getD (kvs : Fields) :
    (required (.map kvs)).getD .null = mapOrNil (requiredFields kvs) := by
  simp only [required]
  cases requiredFields kvs <;> simp

theorem required_list_getD (xs : List Val) :
    (required (.list xs)).getD .null = listOrNil (requiredList xs) := by
  simp only [required]
  cases requiredList xs <;> simp

/-! ## one level: the loops, given the recursive calls (for any specification `g` of the recursive call) -/

theorem requiredList_step (g : Val → Option Val) (hg : ∀ v, g v ≠ some .null) (fuel : Nat) (xs : List Val)
    (hall : ∀ x ∈ xs, required' fuel x = .ok ((g x).getD .null, none)) :
    requiredList' (fuel + 1) xs = .ok (listOrNil (xs.filterMap g), none) := by
  unfold requiredList'
  simp only []
  rw [forRange_filterMap_append g xs _ ?_ []]
  · cases xs.filterMap g <;> simp
  · intro x hx acc
    simp only [hall x hx]
    cases hgx : g x with
    | none => simp
    | some w =>
      have hw : w ≠ .null := fun e => hg x (by rw [hgx, e])
      simp [hw]

theorem requiredMap_step (g : Val → Option Val) (hg : ∀ v, g v ≠ some .null) (fuel : Nat) (kvs : Fields)
    (hall : ∀ p ∈ kvs, required' fuel p.2 = .ok ((g p.2).getD .null, none)) :
    requiredMap' (fuel + 1) kvs = .ok (mapOrNil (fofList (kvs.filterMap (rq_entry g))), none) := by
  unfold requiredMap'
  simp only []
  rw [forRange_filterMap_fset g kvs _ ?_ []]
  · simp only [fofList]
    cases fsetAll [] (kvs.filterMap (rq_entry g)) <;> simp
  · intro p hp acc
    obtain ⟨k, v⟩ := p
    have hv := hall (k, v) hp
    simp only [] at hv
    simp only [hv, rq_entry]
    cases hgx : g v with
    | none => simp
    | some w =>
      have hw : w ≠ .null := fun e => hg v (by rw [hgx, e])
      simp [hw, rq_fsetAll_cons]

/-! ## well-formed input: the Go code computes the model's `required` -/

theorem requiredList_loop (fuel : Nat) (xs : List Val)
    (hall : ∀ x ∈ xs, required' fuel x = .ok ((required x).getD .null, none)) :
    requiredList' (fuel + 1) xs = .ok (listOrNil (requiredList xs), none) := by
  rw [requiredList_step required rq_required_ne_null fuel xs hall, rq_requiredList_eq_filterMap]

theorem requiredMap_loop (fuel : Nat) (kvs : Fields) (hs : Fields.SortedKeys kvs)
    (hall : ∀ p ∈ kvs, required' fuel p.2 = .ok ((required p.2).getD .null, none)) :
    requiredMap' (fuel + 1) kvs = .ok (mapOrNil (requiredFields kvs), none) := by
  rw [requiredMap_step required rq_required_ne_null fuel kvs hall, ← rq_requiredFields_eq_filterMap,
    rq_fofList_sorted _ (rq_sorted_requiredFields kvs hs)]

theorem required_eq_aux : ∀ (n : Nat) (v : Val), Go.depth v ≤ n → Val.WF v → ∀ fuel, 2 * n + 1 ≤ fuel →
    required' fuel v = .ok ((required v).getD .null, none) := by
  intro n
  induction n with
  | zero =>
    intro v hd _ fuel hf
    obtain ⟨f, rfl⟩ : ∃ f, fuel = f + 1 := ⟨fuel - 1, by omega⟩
    cases v with
    | map kvs => simp [Go.depth] at hd
    | list xs => simp [Go.depth] at hd
    | str s => by_cases h : s = "$required" <;> simp [required', required, h]
    | null => simp [required', required]
    | bool b => simp [required', required]
    | int i => simp [required', required]
    | flt r => simp [required', required]
  | succ m ih =>
    intro v hd hwf fuel hf
    obtain ⟨f, rfl⟩ : ∃ f, fuel = f + 2 := ⟨fuel - 2, by omega⟩
    cases v with
    | map kvs =>
      have hw := wf_map_iff.1 hwf
      have hall : ∀ p ∈ kvs, required' f p.2 = .ok ((required p.2).getD .null, none) := by
        intro p hm
        have := Go.depth_le_of_mem_fields (k := p.1) (v := p.2) hm
        simp only [Go.depth] at hd
        exact ih p.2 (by omega) (hw.2 p hm) f (by omega)
      rw [required_map_getD]
      simp [required', requiredMap_loop f kvs hw.1 hall]
    | list xs =>
      have hw := wf_list_iff.1 hwf
      have hall : ∀ x ∈ xs, required' f x = .ok ((required x).getD .null, none) := by
        intro x hm
        have := Go.depth_le_of_mem_list hm
        simp only [Go.depth] at hd
        exact ih x (by omega) (hw x hm) f (by omega)
      rw [required_list_getD]
      simp [required', requiredList_loop f xs hall]
    | str s => by_cases h : s = "$required" <;> simp [required', required, h]
    | null => simp [required', required]
    | bool b => simp [required', required]
    | int i => simp [required', required]
    | flt r => simp [required', required]

/-- required.go:required, as translated from the current source, is the model's `required` on every well-formed
    value (given fuel for its nesting depth); Go's `nil` result is the model's `none` -/
theorem T_required_eq (v : Val) (hwf : Val.WF v) (fuel : Nat) (h : 2 * Go.depth v + 1 ≤ fuel) :
    required' fuel v = .ok ((required v).getD .null, none) :=
  required_eq_aux (Go.depth v) v (Nat.le_refl _) hwf fuel h

/-- required.go:requiredMap is the model's `requiredFields` (`nil` for an empty result) -/
theorem T_requiredMap_eq (kvs : Fields) (hwf : Val.WF (.map kvs)) (fuel : Nat)
    (h : 2 * Go.depthFields kvs + 2 ≤ fuel) :
    requiredMap' fuel kvs = .ok (mapOrNil (requiredFields kvs), none) := by
  obtain ⟨f, rfl⟩ : ∃ f, fuel = f + 1 := ⟨fuel - 1, by omega⟩
  have hw := wf_map_iff.1 hwf
  refine requiredMap_loop f kvs hw.1 (fun p hm => ?_)
  have := Go.depth_le_of_mem_fields (k := p.1) (v := p.2) hm
  exact T_required_eq p.2 (hw.2 p hm) f (by omega)

/-- required.go:requiredList is the model's `requiredList` (`nil` for an empty result) -/
theorem T_requiredList_eq (xs : List Val) (hwf : Val.WF (.list xs)) (fuel : Nat)
    (h : 2 * Go.depthList xs + 2 ≤ fuel) :
    requiredList' fuel xs = .ok (listOrNil (requiredList xs), none) := by
  obtain ⟨f, rfl⟩ : ∃ f, fuel = f + 1 := ⟨fuel - 1, by omega⟩
  have hw := wf_list_iff.1 hwf
  refine requiredList_loop f xs (fun x hm => ?_)
  have := Go.depth_le_of_mem_list hm
  exact T_required_eq x (hw x hm) f (by omega)

/-- the same two statements in terms of `required` on the container -/
theorem T_requiredMap_eq_required (kvs : Fields) (hwf : Val.WF (.map kvs)) (fuel : Nat)
    (h : 2 * Go.depthFields kvs + 2 ≤ fuel) :
    requiredMap' fuel kvs = .ok ((required (.map kvs)).getD .null, none) := by
  rw [required_map_getD]; exact T_requiredMap_eq kvs hwf fuel h

theorem T_requiredList_eq_required (xs : List Val) (hwf : Val.WF (.list xs)) (fuel : Nat)
    (h : 2 * Go.depthList xs + 2 ≤ fuel) :
    requiredList' fuel xs = .ok ((required (.list xs)).getD .null, none) := by
  rw [required_list_getD]; exact T_requiredList_eq xs hwf fuel h

/-! ## any input: the Go code computes the normal form (`Val.norm`: maps rebuilt key-sorted) of the model's result -/

/-- the specification of the recursive call for arbitrary input -/
def requiredNorm (v : Val) : Option Val := (required v).map Val.norm

theorem norm_eq_null {r : Val} (h : Val.norm r = .null) : r = .null := by
  cases r <;> simp [Val.norm] at h ⊢

theorem requiredNorm_ne_null (v : Val) : requiredNorm v ≠ some .null := by
  unfold requiredNorm
  cases h : required v with
  | none => simp
  | some r =>
    intro e
    simp only [Option.map_some, Option.some.injEq] at e
    exact rq_required_ne_null v (by rw [h, norm_eq_null e])

theorem normList_requiredList (xs : List Val) :
    Val.normList (requiredList xs) = xs.filterMap requiredNorm := by
  induction xs with
  | nil => simp [requiredList, Val.normList]
  | cons x xs ih =>
    rw [requiredList, List.filterMap_cons]
    have hx : requiredNorm x = (required x).map Val.norm := rfl
    rw [hx]
    cases required x with
    | none => simpa using ih
    | some w => simpa [Val.normList] using ih

theorem normFields_requiredFields (kvs : Fields) :
    Val.normFields (requiredFields kvs) = kvs.filterMap (rq_entry requiredNorm) := by
  induction kvs with
  | nil => simp [requiredFields, Val.normFields]
  | cons p kvs ih =>
    obtain ⟨k, v⟩ := p
    rw [requiredFields, List.filterMap_cons]
    have hx : rq_entry requiredNorm (k, v) = (required v).map (fun w => (k, Val.norm w)) := by
      simp [rq_entry, requiredNorm, Function.comp_def]
    rw [hx]
    cases required v with
    | none => simpa using ih
    | some w => simpa [Val.normFields] using ih

theorem requiredNorm_map_getD (kvs : Fields) :
    (requiredNorm (.map kvs)).getD .null = mapOrNil (fofList (kvs.filterMap (rq_entry requiredNorm))) := by
  rw [← normFields_requiredFields]
  simp only [requiredNorm, required]
  cases h : requiredFields kvs with
  | nil => simp [Val.normFields, fofList]
  | cons a t =>
    obtain ⟨k, w⟩ := a
    have hne : fofList (Val.normFields ((k, w) :: t)) ≠ [] := by
      rw [Ne, rq_fofList_eq_nil_iff]; simp [Val.normFields]
    simp only [Option.map_some, Option.getD_some, Val.norm, mapOrNil]
    simp [hne]

theorem requiredNorm_list_getD (xs : List Val) :
    (requiredNorm (.list xs)).getD .null = listOrNil (xs.filterMap requiredNorm) := by
  rw [← normList_requiredList]
  simp only [requiredNorm, required]
  cases h : requiredList xs with
  | nil => simp [Val.normList]
  | cons a t => simp [Val.norm, Val.normList]

theorem required_eq_norm_aux : ∀ (n : Nat) (v : Val), Go.depth v ≤ n → ∀ fuel, 2 * n + 1 ≤ fuel →
    required' fuel v = .ok ((requiredNorm v).getD .null, none) := by
  intro n
  induction n with
  | zero =>
    intro v hd fuel hf
    obtain ⟨f, rfl⟩ : ∃ f, fuel = f + 1 := ⟨fuel - 1, by omega⟩
    cases v with
    | map kvs => simp [Go.depth] at hd
    | list xs => simp [Go.depth] at hd
    | str s => by_cases h : s = "$required" <;> simp [required', required, requiredNorm, Val.norm, h]
    | null => simp [required', required, requiredNorm]
    | bool b => simp [required', required, requiredNorm]
    | int i => simp [required', required, requiredNorm]
    | flt r => simp [required', required, requiredNorm]
  | succ m ih =>
    intro v hd fuel hf
    obtain ⟨f, rfl⟩ : ∃ f, fuel = f + 2 := ⟨fuel - 2, by omega⟩
    cases v with
    | map kvs =>
      have hall : ∀ p ∈ kvs, required' f p.2 = .ok ((requiredNorm p.2).getD .null, none) := by
        intro p hm
        have := Go.depth_le_of_mem_fields (k := p.1) (v := p.2) hm
        simp only [Go.depth] at hd
        exact ih p.2 (by omega) f (by omega)
      rw [requiredNorm_map_getD]
      simp [required', requiredMap_step requiredNorm requiredNorm_ne_null f kvs hall]
    | list xs =>
      have hall : ∀ x ∈ xs, required' f x = .ok ((requiredNorm x).getD .null, none) := by
        intro x hm
        have := Go.depth_le_of_mem_list hm
        simp only [Go.depth] at hd
        exact ih x (by omega) f (by omega)
      rw [requiredNorm_list_getD]
      simp [required', requiredList_step requiredNorm requiredNorm_ne_null f xs hall]
    | str s => by_cases h : s = "$required" <;> simp [required', required, requiredNorm, Val.norm, h]
    | null => simp [required', required, requiredNorm]
    | bool b => simp [required', required, requiredNorm]
    | int i => simp [required', required, requiredNorm]
    | flt r => simp [required', required, requiredNorm]

/-- with NO hypothesis on the input: required.go computes the model's `required` up to the order of map entries —
    its result is the normal form (every map rebuilt key-sorted, `Val.norm`) of the model's result -/
theorem T_required_eq_norm (v : Val) (fuel : Nat) (h : 2 * Go.depth v + 1 ≤ fuel) :
    required' fuel v = .ok (((required v).map Val.norm).getD .null, none) :=
  required_eq_norm_aux (Go.depth v) v (Nat.le_refl _) fuel h

/-- exactly when the Go code and the model agree: when the model's result is in normal form (its maps key-sorted).
    `Val.WF v` (T_required_eq) is the natural sufficient condition on the INPUT. -/
theorem T_required_eq_iff (v : Val) (fuel : Nat) (h : 2 * Go.depth v + 1 ≤ fuel) :
    required' fuel v = .ok ((required v).getD .null, none) ↔ (required v).map Val.norm = required v := by
  rw [T_required_eq_norm v fuel h]
  constructor
  · intro e
    cases hr : required v with
    | none => rfl
    | some r =>
      rw [hr] at e
      simp only [Option.map_some, Option.getD_some, Except.ok.injEq, Prod.mk.injEq, and_true] at e
      rw [Option.map_some, e]
  · intro e; rw [e]

/-! ## non-vacuity -/

def exWF : Val :=
  .map [("a", .str "$required"), ("b", .int 1), ("c", .list [.str "x", .map [("d", .str "$required")]])]

example : Val.WF exWF ∧ 2 * Go.depth exWF + 1 ≤ 7 := by decide
example : required exWF =
    some (.map [("a", .str "$required"), ("c", .list [.map [("d", .str "$required")]])]) := by decide
example : required' 7 exWF =
    .ok (.map [("a", .str "$required"), ("c", .list [.map [("d", .str "$required")]])], none) :=
  T_required_eq exWF (by decide) 7 (by decide)

/-! ## the hypothesis `Val.WF v` is needed -/

/-- results of translated functions can be compared by `decide` (only used for the concrete examples below) -/
local instance decEqG {α : Type} [DecidableEq α] : DecidableEq (G α)
  | .ok a, .ok b => if h : a = b then isTrue (h ▸ rfl) else isFalse (fun e => h (Except.ok.inj e))
  | .error a, .error b => if h : a = b then isTrue (h ▸ rfl) else isFalse (fun e => h (Except.error.inj e))
  | .ok _, .error _ => isFalse (fun e => by cases e)
  | .error _, .ok _ => isFalse (fun e => by cases e)

/-- a map whose keys are not sorted -/
def exUnsorted : Val := .map [("b", .str "$required"), ("a", .str "$required")]

/-- Go (`ret[k] = v2`, a map) yields the entries by key; the model yields them in input order -/
theorem required_eq_needs_WF :
    required' 3 exUnsorted = .ok (.map [("a", .str "$required"), ("b", .str "$required")], none)
    ∧ (required exUnsorted).getD .null = .map [("b", .str "$required"), ("a", .str "$required")]
    ∧ required' 3 exUnsorted ≠ .ok ((required exUnsorted).getD .null, none)
    ∧ 2 * Go.depth exUnsorted + 1 ≤ 3 ∧ ¬ Val.WF exUnsorted := by
  decide

/-- sortedness of the top-level map is not enough: the unsorted map may sit anywhere inside -/
theorem required_eq_needs_WF_nested :
    required' 5 (.list [exUnsorted]) ≠ .ok ((required (.list [exUnsorted])).getD .null, none)
    ∧ 2 * Go.depth (.list [exUnsorted]) + 1 ≤ 5 := by
  decide

/-- the same for requiredMap directly (`Fields.SortedKeys` is what its own loop needs) -/
theorem requiredMap_eq_needs_sorted :
    requiredMap' 2 [("b", .str "$required"), ("a", .str "$required")]
      ≠ .ok (mapOrNil (requiredFields [("b", .str "$required"), ("a", .str "$required")]), none) := by
  decide

/-- and for requiredList (its own loop needs nothing, the elements do) -/
theorem requiredList_eq_needs_WF :
    requiredList' 4 [exUnsorted] ≠ .ok (listOrNil (requiredList [exUnsorted]), none) := by
  decide

/-- on the unsorted example the unconditional theorem gives the Go result -/
example : required' 3 exUnsorted = .ok (.map [("a", .str "$required"), ("b", .str "$required")], none) := by
  rw [T_required_eq_norm exUnsorted 3 (by decide)]; decide

end Bkl.Gen.Bklr
