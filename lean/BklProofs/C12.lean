/-
  C12 — "$repeat expands to exactly n indexed copies (cartesian product for named counts)".
  Model: `repeatInt`, `repeatGen`, `repeatDoc` and the `$repeat` branches of `process2`
  (Bkl/Process2.lean).  Specification side (`countOf`, `tuples`, `tupleOk`, `bindTuple`,
  `repeatEc1`, `namedCounts`, `noSingleKey`) is defined in BklProofs/Lemmas/Repeat.lean.
-/
import BklProofs.Lemmas.Repeat
import BklProofs.Lemmas.C12Subst
namespace Bkl

/-! ## document level, integer count -/

/-- exactly `n` copies (none for `n ≤ 0`), in index order, the `i`-th bound to `$repeat ↦ i` -/
theorem C12_doc_int (data : Val) (ec : Vars) (n : Int) :
    repeatGen data ec (.int n)
      = .ok ((List.range n.toNat).map fun (i : Nat) => (data, fset ec "$repeat" (.int i))) := by
  simp [repeatGen, repeatInt, pure, Except.pure]

theorem C12_doc_int_length (data : Val) (ec : Vars) (n : Int) :
    ∃ pairs, repeatGen data ec (.int n) = .ok pairs ∧ pairs.length = n.toNat :=
  ⟨_, C12_doc_int data ec n, by simp⟩

/-- tests -/
example : repeatGen (.str "d") [] (.int 3)
    = .ok [(.str "d", [("$repeat", .int 0)]), (.str "d", [("$repeat", .int 1)]),
           (.str "d", [("$repeat", .int 2)])] := by
  rw [C12_doc_int]; exact congrArg Except.ok (by decide)
example : repeatGen (.str "d") [] (.int (-2)) = .ok [] := by
  rw [C12_doc_int]; exact congrArg Except.ok (by decide)

/-! ## document level, named counts -/

/-- the generated documents are exactly the index tuples of the cartesian product, in
    lexicographic order (first name slowest); the context of the `j`-th one is `ec1`
    (`ec` plus the declared counts under `$repeat.<name>`) with `$repeat:<name> ↦ index`
    for every component of the `j`-th tuple -/
theorem C12_doc_named (data : Val) (ec : Vars) (rs : Fields)
    (h : ∀ kv ∈ rs, ∃ n, kv.2 = Val.int n) :
    repeatGen data ec (.map rs)
      = .ok ((tuples (rs.map fun kv => (kv.1, countOf kv.2))).map fun t =>
          (data, t.foldl (fun e ni => fset e ("$repeat:" ++ ni.1) (.int ni.2)) (repeatEc1 ec rs))) := by
  rw [repeatGen_map_eq, foldlM_repeatStep rs h]
  simp [namedCounts, bindTuple]

/-- `repeatEc1` is literally the fold `repeatGen` performs -/
theorem C12_doc_named_ec1 (ec : Vars) (rs : Fields) :
    repeatEc1 ec rs = rs.foldl (fun e (kv : String × Val) => fset e ("$repeat." ++ kv.1) kv.2) ec :=
  (repeatEc1_eq_foldl ec rs).symm

/-- `ec1` carries each declared count under `$repeat.<name>` (distinct names) and leaves every
    other variable alone -/
theorem C12_doc_named_ec1_get (ec : Vars) (rs : Fields) (hnd : (rs.map (·.1)).Nodup) :
    (∀ k v, (k, v) ∈ rs → fget (repeatEc1 ec rs) ("$repeat." ++ k) = some v) ∧
    (∀ x, (∀ kv ∈ rs, "$repeat." ++ kv.1 ≠ x) → fget (repeatEc1 ec rs) x = fget ec x) :=
  ⟨fun k v h => fget_repeatEc1_mem rs k v ec hnd h, fun x h => fget_repeatEc1_other rs x ec h⟩

example : (([("a", .int 2), ("b", .int 3)] : Fields).map (·.1)).Nodup := by decide

/-- the number of generated documents is the product of the counts -/
theorem C12_doc_named_length (data : Val) (ec : Vars) (rs : Fields)
    (h : ∀ kv ∈ rs, ∃ n, kv.2 = Val.int n) :
    ∃ pairs, repeatGen data ec (.map rs) = .ok pairs ∧
      pairs.length = (rs.map fun kv => countOf kv.2).prod := by
  refine ⟨_, C12_doc_named data ec rs h, ?_⟩
  rw [List.length_map, tuples_length, List.map_map]
  rfl

/-- every admissible tuple occurs exactly once: no duplicates, `∏ counts` of them, and
    membership is "names as declared, every index below its count" -/
theorem C12_doc_named_nodup (l : List (String × Nat)) :
    (tuples l).Nodup ∧ (tuples l).length = (l.map (·.2)).prod ∧
    ∀ t, t ∈ tuples l ↔ tupleOk t l :=
  ⟨tuples_nodup l, tuples_length l, fun _ => mem_tuples⟩

/-- non-vacuity and a test: `{a: 2, b: 3}` gives 6 documents, `a` slowest -/
example : ∀ kv ∈ ([("a", .int 2), ("b", .int 3)] : Fields), ∃ n, kv.2 = Val.int n := by
  intro kv h; simp at h; rcases h with rfl | rfl <;> exact ⟨_, rfl⟩
example : tuples [("a", 2), ("b", 3)]
    = [[("a",0),("b",0)], [("a",0),("b",1)], [("a",0),("b",2)],
       [("a",1),("b",0)], [("a",1),("b",1)], [("a",1),("b",2)]] := by decide
example : (repeatGen .null [] (.map [("a", .int 2), ("b", .int 1)])) =
    .ok [(.null, [("$repeat.a", .int 2), ("$repeat.b", .int 1), ("$repeat:a", .int 0), ("$repeat:b", .int 0)]),
         (.null, [("$repeat.a", .int 2), ("$repeat.b", .int 1), ("$repeat:a", .int 1), ("$repeat:b", .int 0)])] := by
  rw [C12_doc_named _ _ _ (by intro kv h; simp at h; rcases h with rfl | rfl <;> exact ⟨_, rfl⟩)]
  exact congrArg Except.ok (by decide)

/-! ## non-integer counts are errors -/

/-- `$repeat` must be an integer or a map … -/
theorem C12_nonint_error (data : Val) (ec : Vars) (v : Val)
    (h1 : ∀ n, v ≠ .int n) (h2 : ∀ rs, v ≠ .map rs) :
    repeatGen data ec v = .error .invalidRepeat := by
  cases v <;> first | rfl | exact absurd rfl (h1 _) | exact absurd rfl (h2 _)

/-- … and every named count must be an integer -/
theorem C12_nonint_error_named (data : Val) (ec : Vars) (rs : Fields)
    (h : ∃ kv ∈ rs, ∀ n, kv.2 ≠ Val.int n) :
    repeatGen data ec (.map rs) = .error .invalidRepeat := by
  rw [repeatGen_map_eq]; exact foldlM_repeatStep_bad rs h _

example : (∀ n, Val.str "3" ≠ .int n) ∧ (∀ rs, Val.str "3" ≠ .map rs) :=
  ⟨fun _ h => (by cases h), fun _ h => (by cases h)⟩
example : ∃ kv ∈ ([("a", .int 2), ("b", .str "x")] : Fields), ∀ n, kv.2 ≠ Val.int n :=
  ⟨("b", .str "x"), by simp, fun _ h => (by cases h)⟩

/-- nested `{… "$repeat": r …}` inside a list with `r` not an integer: `invalidType`.
    (No side condition on `$encode` is needed: a map that has a `$repeat` key is never a
    single-key `{$encode: …}` entry.) -/
theorem C12_nonint_error_nested (fuel : Nat) (docs : List Val) (root : Val) (ec : Vars)
    (m : Fields) (r : Val) (hr : fget m "$repeat" = some r) (hni : ∀ n, r ≠ .int n) :
    process2 (fuel + 1) docs root ec (.list [.map m]) = .error .invalidType := by
  have hp := popListMapValue_none "$encode" [.map m]
    (noSingleKey_of_other_key (k := "$encode") (k' := "$repeat") (by decide) hr)
  rw [process2]
  simp only [hp, bind, Except.bind, Val.isNull, Bool.not_true, Bool.false_eq_true, if_false,
    List.foldlM_cons, List.foldlM_nil, hr]
  cases r <;> first | rfl | exact absurd rfl (hni _)

example : fget [("$repeat", Val.str "2"), ("x", .int 1)] "$repeat" = some (.str "2")
    ∧ ∀ n, Val.str "2" ≠ .int n := ⟨by decide, fun _ h => (by cases h)⟩

/-! ## nested repeat inside a list -/

/-- evaluate the body (the map without its `$repeat` key) once per index `0 … n-1`, in order,
    with `$repeat ↦ i`; the first failing copy aborts; null results are dropped -/
theorem C12_list_nested (fuel : Nat) (docs : List Val) (root : Val) (ec : Vars)
    (m : Fields) (n : Int) (hr : fget m "$repeat" = some (.int n)) :
    process2 (fuel + 1) docs root ec (.list [.map m])
      = (do
          let vs ← (List.range n.toNat).mapM fun (i : Nat) =>
            process2 fuel docs root (fset ec "$repeat" (.int i)) (.map (fdel m "$repeat"))
          pure (.list (vs.filter fun v => !v.isNull))) := by
  have hp := popListMapValue_none "$encode" [.map m]
    (noSingleKey_of_other_key (k := "$encode") (k' := "$repeat") (by decide) hr)
  rw [process2]
  simp only [hp, ok_bind, isNull_null, Bool.not_true, Bool.false_eq_true, if_false,
    List.foldlM_cons, List.foldlM_nil, hr, bind_pure]
  rw [foldlM_collect (fun i => process2 fuel docs root (fset ec "$repeat" (.int (Int.ofNat i)))
    (.map (fdel m "$repeat")))]
  simp only [List.nil_append, bind_assoc, pure_bind]
  rfl

/-- hence exactly `n` entries when no copy errors or evaluates to null -/
theorem C12_list_nested_exact (fuel : Nat) (docs : List Val) (root : Val) (ec : Vars)
    (m : Fields) (n : Int) (g : Nat → Val) (hr : fget m "$repeat" = some (.int n))
    (hg : ∀ i, i < n.toNat →
      process2 fuel docs root (fset ec "$repeat" (.int i)) (.map (fdel m "$repeat")) = .ok (g i))
    (hnn : ∀ i, i < n.toNat → (g i).isNull = false) :
    process2 (fuel + 1) docs root ec (.list [.map m]) = .ok (.list ((List.range n.toNat).map g))
    ∧ ((List.range n.toNat).map g).length = n.toNat := by
  refine ⟨?_, by simp⟩
  rw [C12_list_nested fuel docs root ec m n hr,
    mapM_ok_of_forall _ g _ (fun i hi => hg i (List.mem_range.1 hi))]
  simp only [bind, Except.bind, pure, Except.pure]
  congr 2
  rw [List.filter_eq_self]
  intro v hv
  obtain ⟨i, hi, rfl⟩ := List.mem_map.1 hv
  simp [hnn i (List.mem_range.1 hi)]

/-- non-vacuity of `hg`/`hnn` (with `g i = {v: 7}`) -/
example : ∀ i : Nat, i < (2 : Int).toNat →
    process2 2 [] .null (fset [] "$repeat" (.int i))
      (.map (fdel [("$repeat", .int 2), ("v", .int 7)] "$repeat")) = .ok (.map [("v", .int 7)]) := by
  intro i _
  simp [process2, process2String.eq_1, interpBody, fget, fdel, fset, Val.isNull, bind,
    Except.bind, pure, Except.pure]

/-- test: `[{$repeat: 3, v: "$repeat"}]` is `[{v:0},{v:1},{v:2}]` -/
example : process2 3 [] .null [] (.list [.map [("$repeat", .int 3), ("v", .str "$repeat")]])
    = .ok (.list [.map [("v", .int 0)], .map [("v", .int 1)], .map [("v", .int 2)]]) := by
  simp [process2, process2String.eq_1, interpBody, popListMapValue, fget, fdel, fset, getVar,
    List.range, List.range.loop, Val.isNull, bind, Except.bind, pure, Except.pure]

/-! ## no `$repeat`: exactly one document -/

theorem C12_repeatDoc_no_repeat_map (kvs : Fields) (ec : Vars) (h : fget kvs "$repeat" = none) :
    repeatDoc (.map kvs) ec = .ok [(.map kvs, ec)] := by
  simp [repeatDoc, h, pure, Except.pure]

theorem C12_repeatDoc_no_repeat_list (xs : List Val) (ec : Vars) (h : noSingleKey "$repeat" xs) :
    repeatDoc (.list xs) ec = .ok [(.list xs, ec)] := by
  simp [repeatDoc, popListMapValue_none _ _ h, Val.isNull, pure, Except.pure, bind, Except.bind]

theorem C12_repeatDoc_no_repeat_scalar (v : Val) (ec : Vars)
    (h1 : ∀ kvs, v ≠ .map kvs) (h2 : ∀ xs, v ≠ .list xs) :
    repeatDoc v ec = .ok [(v, ec)] := by
  cases v <;> first | rfl | exact absurd rfl (h1 _) | exact absurd rfl (h2 _)

example : fget [("a", Val.int 1)] "$repeat" = none := by decide
example : noSingleKey "$repeat" [.map [("a", .int 1)], .int 2, .map [("$repeat", .int 2), ("b", .null)]] := by
  intro x hx m e hl
  simp at hx
  rcases hx with rfl | rfl | rfl <;> cases e <;> first | rfl | (simp at hl)

/-- and with a `$repeat: n` key a map document yields the `n` indexed copies of the rest -/
theorem C12_repeatDoc_map_int (kvs : Fields) (ec : Vars) (n : Int)
    (h : fget kvs "$repeat" = some (.int n)) :
    repeatDoc (.map kvs) ec
      = .ok ((List.range n.toNat).map fun (i : Nat) =>
          (.map (fdel kvs "$repeat"), fset ec "$repeat" (.int i))) := by
  simp only [repeatDoc, h]
  exact C12_doc_int _ ec n

example : fget [("$repeat", Val.int 2), ("a", .int 1)] "$repeat" = some (.int 2) := by decide

/-! ## each copy is the document written out by hand with the index substituted

  `substRepeat i` (BklProofs/Lemmas/C12Subst.lean) is the hand-written copy: every string value
  `"$repeat"` becomes the integer `i`, and inside a `$"…"` interpolation string every `{$repeat}`
  becomes the decimal text of `i`.  Map keys are left alone: `process2` does evaluate keys under
  the binding, but a key `$repeat` evaluates to an integer, which is an `invalidType` error
  (`C12_repeat_key_is_error`), and substituting inside interpolated *keys* would re-sort the
  map and so change the evaluation order; keys are therefore required to be non-interpolated.

  `repeatBody interp body`: no map key is `$repeat`/`$encode`/`$decode`/`$value` or an
  interpolation, and every string is either not an interpolation or (only when `interp = true`)
  an interpolation all of whose references are `{$repeat}`. -/

/-- bodies using only whole-string `"$repeat"` (no interpolation strings): evaluating the body
    under `$repeat ↦ i` is evaluating the substituted body without the binding — for every fuel,
    every `root`, `docs` and `ec` -/
theorem C12_subst (fuel : Nat) (docs : List Val) (root : Val) (ec : Vars) (i : Int) (body : Val)
    (hb : repeatBody false body = true) :
    process2 fuel docs root (fset ec "$repeat" (.int i)) body
      = process2 fuel docs root ec (substRepeat i body) :=
  process2_subst_gen false docs docs root root i (fun h => by cases h) fuel ec body hb

/-- the same with `{$repeat}` inside `$"…"` strings replaced by the decimal text, provided the
    referencing document `root` does not capture the reference `$repeat` (`rootOK`: the path
    lookup of `$repeat` in `root` fails, so the variable is consulted) -/
theorem C12_subst_partial (fuel : Nat) (docs : List Val) (root : Val) (ec : Vars) (i : Int)
    (body : Val) (hroot : rootOK root docs) (hb : repeatBody true body = true) :
    process2 fuel docs root (fset ec "$repeat" (.int i)) body
      = process2 fuel docs root ec (substRepeat i body) :=
  process2_subst_gen true docs docs root root i (fun _ => hroot) fuel ec body hb

/-- The unrestricted statement (every body without a nested `$repeat` key and without other
    directives; `substRepeat` touching only `"$repeat"` and `{$repeat}`) is FALSE, which is why
    `C12_subst_partial` restricts interpolation references to `{$repeat}`: an interpolation
    `$"{a}"` that refers to an *unevaluated* string `a: "$repeat"` of the referencing document
    evaluates that string under the current variables — `"5"` under the binding `$repeat ↦ 5`,
    but `variableNotFound` for the hand-substituted body without the binding. -/
theorem C12_subst_false :
    ∃ (root body : Val), rootOK root [] ∧
      process2 2 [] root (fset [] "$repeat" (.int 5)) body = .ok (.str "5") ∧
      substRepeat 5 body = body ∧
      process2 2 [] root [] (substRepeat 5 body) = .error .variableNotFound ∧
      process2 2 [] root (fset [] "$repeat" (.int 5)) body
        ≠ process2 2 [] root [] (substRepeat 5 body) := by
  have h1 : process2 2 [] (.map [("a", .str "$repeat")]) (fset [] "$repeat" (.int 5)) (.str "$\"{a}\"")
      = .ok (.str "5") := by
    rw [process2_ref_a]
    exact congrArg Except.ok (by decide)
  have h2 : substRepeat 5 (.str "$\"{a}\"") = .str "$\"{a}\"" := by decide
  have h3 : process2 2 [] (.map [("a", .str "$repeat")]) [] (substRepeat 5 (.str "$\"{a}\""))
      = .error .variableNotFound := by
    rw [h2, process2_ref_a]; rfl
  refine ⟨.map [("a", .str "$repeat")], .str "$\"{a}\"",
    rootOK_of_no_key _ _ (fun _ e => by cases e; decide), h1, h2, h3, ?_⟩
  rw [h1, h3]
  intro e; cases e

/-- `rootOK` cannot be dropped either: if the referencing document has its own `$repeat` entry,
    `{$repeat}` resolves to that entry (here 9), not to the index (here 5) -/
theorem C12_subst_root_capture_counterexample :
    process2 2 [] (.map [("$repeat", .int 9)]) (fset [] "$repeat" (.int 5)) (.str "$\"{$repeat}\"")
      = .ok (.str "9") ∧
    process2 2 [] (.map [("$repeat", .int 9)]) [] (substRepeat 5 (.str "$\"{$repeat}\""))
      = .ok (.str "5") ∧
    ¬ rootOK (.map [("$repeat", .int 9)]) [] := by
  refine ⟨?_, ?_, ?_⟩
  · rw [process2_ref_repeat_captured]; exact congrArg Except.ok (by decide)
  · have h : substRepeat 5 (.str "$\"{$repeat}\"") = .str "$\"5\"" := by decide
    rw [h, process2, process2String_interp_eq 1 _ _ _ _ "5".toList (by decide)]
    have : interpSegs "5".toList = [.lit "5".toList] := by decide
    rw [this]
    simp only [interpSpec, List.mapM_cons, List.mapM_nil, interpSeg]
    exact congrArg Except.ok (by decide)
  · rintro ⟨e, he, _⟩
    rw [get_repeat] at he
    simp [getPath, fget, pure, Except.pure] at he

/-- the substituted body consults neither the referencing document nor the stream: the right-hand
    side may be evaluated against any `root'`, `docs'` — in particular against the substituted
    body itself, which is "the document written out by hand" evaluated on its own -/
theorem C12_subst_standalone (fuel : Nat) (docs docs' : List Val) (root root' : Val) (ec : Vars)
    (i : Int) (body : Val) (hroot : rootOK root docs) (hb : repeatBody true body = true) :
    process2 fuel docs root (fset ec "$repeat" (.int i)) body
      = process2 fuel docs' root' ec (substRepeat i body) :=
  process2_subst_gen true docs docs' root root' i (fun _ => hroot) fuel ec body hb

/-- `rootOK` holds whenever `root` is not a map with a top-level `$repeat` key — e.g. for the
    body of a document-level repeat, from which `repeatDoc` has deleted that key -/
theorem C12_rootOK_of_no_key (root : Val) (docs : List Val)
    (h : ∀ kvs, root = .map kvs → fget kvs "$repeat" = none) : rootOK root docs :=
  rootOK_of_no_key root docs h

theorem C12_rootOK_body (kvs : Fields) (docs : List Val) :
    rootOK (.map (fdel kvs "$repeat")) docs :=
  rootOK_of_no_key _ docs (fun _ e => by cases e; exact fget_fdel_same _ _)

/-- what the substitution does to leaves -/
theorem C12_substRepeat_leaf (i : Int) :
    substRepeat i (.str "$repeat") = .int i ∧
    (∀ s, s ≠ "$repeat" → interpBody s = none → substRepeat i (.str s) = .str s) ∧
    (∀ s b, s ≠ "$repeat" → interpBody s = some b →
      substRepeat i (.str s) = .str (String.ofList ('$' :: '"' :: (substChars i b ++ ['"'])))) ∧
    (∀ b, interpBody (String.ofList ('$' :: '"' :: (substChars i b ++ ['"']))) = some (substChars i b)) := by
  refine ⟨by simp [substRepeat, substStr], ?_, ?_, fun b => interpBody_quoted _⟩
  · intro s h1 h2; simp [substRepeat, substStr, h1, h2]
  · intro s b h1 h2; simp [substRepeat, substStr, h1, h2]

/-- non-vacuity and tests -/
example : repeatBody false (.map [("n", .str "$repeat"), ("l", .list [.str "$repeat", .str "x"])]) = true := by
  decide
example : repeatBody true (.map [("v", .str "$repeat"), ("w", .str "$\"n-{$repeat}\"")]) = true := by
  decide
example : substRepeat 2 (.map [("v", .str "$repeat"), ("w", .str "$\"n-{$repeat}\"")])
    = .map [("v", .int 2), ("w", .str "$\"n-2\"")] := by decide
example : substRepeat (-3) (.list [.str "$repeat", .str "$\"{$repeat}{$repeat}{x}\""])
    = .list [.int (-3), .str "$\"-3-3{x}\""] := by decide
example : rootOK (.map [("v", .str "$repeat")]) [] :=
  rootOK_of_no_key _ _ (fun _ e => by cases e; decide)
/-- end to end: the copy for index 2 of `{v: $repeat, w: $"n-{$repeat}"}` is `{v: 2, w: "n-2"}` -/
example : process2 3 [] (.map [("v", .str "$repeat"), ("w", .str "$\"n-{$repeat}\"")])
      (fset [] "$repeat" (.int 2)) (.map [("v", .str "$repeat"), ("w", .str "$\"n-{$repeat}\"")])
    = .ok (.map [("v", .int 2), ("w", .str "n-2")]) := by
  rw [C12_subst_partial 3 [] _ [] 2 _ (rootOK_of_no_key _ _ (fun _ e => by cases e; decide)) (by decide)]
  have h : substRepeat 2 (.map [("v", .str "$repeat"), ("w", .str "$\"n-{$repeat}\"")])
      = .map [("v", .int 2), ("w", .str "$\"n-2\"")] := by decide
  rw [h]
  have hs : process2 2 [] (.map [("v", .str "$repeat"), ("w", .str "$\"n-{$repeat}\"")]) []
      (.str "$\"n-2\"") = .ok (.str "n-2") := by
    rw [process2, process2String_interp_eq 1 _ _ _ _ "n-2".toList (by decide)]
    have : interpSegs "n-2".toList = [.lit "n-2".toList] := by decide
    rw [this]
    simp only [interpSpec, List.mapM_cons, List.mapM_nil, interpSeg]
    exact congrArg Except.ok (by decide)
  have hk1 : process2 2 [] (.map [("v", .str "$repeat"), ("w", .str "$\"n-{$repeat}\"")]) []
      (.str "v") = .ok (.str "v") := by
    rw [process2, process2String.eq_1]; simp [interpBody]; rfl
  have hk2 : process2 2 [] (.map [("v", .str "$repeat"), ("w", .str "$\"n-{$repeat}\"")]) []
      (.str "w") = .ok (.str "w") := by
    rw [process2, process2String.eq_1]; simp [interpBody]; rfl
  rw [process2_map_eq]
  simp only [List.foldlM_cons, List.foldlM_nil, mapStep1, pure_bind, bind_pure]
  have hf : fset (fset [] "v" (.int 2)) "w" (.str "$\"n-2\"") = [("v", .int 2), ("w", .str "$\"n-2\"")] := by
    decide
  simp only [hf]
  rw [process2MapTail_plain _ _ _ _ _ (by decide) (by decide) (by decide)]
  simp only [List.foldlM_cons, List.foldlM_nil, mapStep2, hs, hk1, hk2, ok_bind]
  have hv : process2 2 [] (.map [("v", .str "$repeat"), ("w", .str "$\"n-{$repeat}\"")]) []
      (.int 2) = .ok (.int 2) := rfl
  simp only [hv, ok_bind, Val.isNull, Bool.false_eq_true, if_false, pure, Except.pure]
  exact congrArg Except.ok (by decide)

/-- a map key `$repeat` in a body is evaluated under the binding to an integer, which is not a
    valid key: this is why keys are excluded from the substitution -/
theorem C12_repeat_key_is_error (fuel : Nat) (docs : List Val) (root : Val) (ec : Vars) (i j : Int) :
    process2 (fuel + 2) docs root (fset ec "$repeat" (.int i)) (.map [("$repeat", .int j)])
      = .error .invalidType := by
  have hkey : process2 (fuel + 1) docs root (fset ec "$repeat" (.int i)) (.str "$repeat")
      = .ok (.int i) := by
    rw [process2, process2String.eq_1]
    simp [interpBody_repeat, getVar, fget_fset_same, pure, Except.pure]
  have hval : process2 (fuel + 1) docs root (fset ec "$repeat" (.int i)) (.int j) = .ok (.int j) := rfl
  rw [process2_map_eq]
  simp only [List.foldlM_cons, List.foldlM_nil, mapStep1, pure_bind, bind_pure, fset]
  rw [process2MapTail_plain _ _ _ _ _ (by simp [fget]) (by simp [fget]) (by simp [fget])]
  simp only [List.foldlM_cons, List.foldlM_nil, mapStep2, hkey, hval, ok_bind, Val.isNull,
    Bool.false_eq_true, if_false]
  rfl

/-! ## nested repeat in a map entry

  `process2` on a map first expands every entry `k: {$repeat: n, …body…}` (step 1): for
  `i = 0 … n-1`, in order, the body (the value without its `$repeat` key) is evaluated under
  `$repeat ↦ i`; a null copy is dropped; otherwise the key `k` is evaluated under the same binding
  (it must be a string) and the copy is stored under the evaluated key with `fset` — so when two
  copies evaluate to the same key the LATER copy overwrites the earlier one.  The expanded map then
  goes through the ordinary map evaluation `process2MapTail` (directive check, then every value
  and key is evaluated once more, now without the binding).  `repeatEntry` and `process2MapTail`
  are defined in BklProofs/Lemmas/C12Subst.lean; `C12_map_tail_spec` shows that `process2MapTail`
  is exactly `process2` on a map without nested-repeat entries. -/

/-- general form, mirroring `C12_list_nested` -/
theorem C12_map_nested (fuel : Nat) (docs : List Val) (root : Val) (ec : Vars) (k : String)
    (m : Fields) (n : Int) (hr : fget m "$repeat" = some (.int n)) :
    process2 (fuel + 1) docs root ec (.map [(k, .map m)])
      = (do
          let es ← (List.range n.toNat).mapM
            (repeatEntry fuel docs root ec k (.map (fdel m "$repeat")))
          process2MapTail fuel docs root ec (fofList (es.filterMap id))) :=
  process2_map_nested fuel docs root ec k m n hr

/-- what one copy is -/
theorem C12_map_nested_entry (fuel : Nat) (docs : List Val) (root : Val) (ec : Vars) (k : String)
    (body : Val) (i : Nat) :
    repeatEntry fuel docs root ec k body i
      = (do
          let v2 ← process2 fuel docs root (fset ec "$repeat" (.int i)) body
          if v2.isNull then pure none
          else
            match ← process2 fuel docs root (fset ec "$repeat" (.int i)) (.str k) with
            | .str k2 => pure (some (k2, v2))
            | _ => throw Err.invalidType) := rfl

/-- `process2MapTail` is `process2` on a map none of whose entries carries a nested `$repeat`
    (the entries are first re-inserted in key order, later duplicates winning) -/
theorem C12_map_tail_spec (fuel : Nat) (docs : List Val) (root : Val) (ec : Vars) (kvs : Fields)
    (h : ∀ q ∈ kvs, ∀ m, q.2 = .map m → fget m "$repeat" = none) :
    process2 (fuel + 1) docs root ec (.map kvs) = process2MapTail fuel docs root ec (fofList kvs) := by
  rw [process2_map_eq, e_foldlM_fields_id _ kvs [] (fun acc q hq => mapStep1_plain _ _ _ _ _ _ (h q hq))]
  rfl

example : ∀ q ∈ ([("a", .int 1), ("b", .map [("c", .null)])] : Fields),
    ∀ m, q.2 = .map m → fget m "$repeat" = none := by
  intro q hq m e
  simp only [List.mem_cons, List.not_mem_nil, or_false] at hq
  rcases hq with rfl | rfl
  · cases e
  · cases e; decide

/-- a non-integer count in a map entry is an `invalidType` error -/
theorem C12_nonint_error_map_nested (fuel : Nat) (docs : List Val) (root : Val) (ec : Vars)
    (k : String) (m : Fields) (r : Val) (hr : fget m "$repeat" = some r) (hni : ∀ n, r ≠ .int n) :
    process2 (fuel + 1) docs root ec (.map [(k, .map m)]) = .error .invalidType := by
  rw [process2_map_eq]
  simp only [List.foldlM_cons, List.foldlM_nil, mapStep1, hr]
  cases r <;> first | rfl | exact absurd rfl (hni _)

/-- step 1 when no copy errors or is null: the expanded map is `fofList` of the `n` pairs
    (evaluated key, evaluated body), in index order -/
theorem C12_map_nested_entries (fuel : Nat) (docs : List Val) (root : Val) (ec : Vars) (k : String)
    (body : Val) (n : Nat) (g : Nat → Val) (kf : Nat → String)
    (hg : ∀ i, i < n → process2 fuel docs root (fset ec "$repeat" (.int i)) body = .ok (g i))
    (hnn : ∀ i, i < n → (g i).isNull = false)
    (hk : ∀ i, i < n →
      process2 fuel docs root (fset ec "$repeat" (.int i)) (.str k) = .ok (.str (kf i))) :
    (List.range n).mapM (repeatEntry fuel docs root ec k body)
      = .ok ((List.range n).map fun i => some (kf i, g i)) := by
  apply mapM_ok_of_forall'
  intro i hi
  have hi' := List.mem_range.1 hi
  have h1 := hg i hi'
  have h2 := hk i hi'
  simp only [repeatEntry]
  change (process2 fuel docs root (fset ec "$repeat" (.int (i : Int))) body >>= _) = _
  rw [h1, ok_bind, hnn i hi']
  simp only [Bool.false_eq_true, if_false]
  change (process2 fuel docs root (fset ec "$repeat" (.int (i : Int))) (.str k) >>= _) = _
  rw [h2]
  rfl

/-- `fofList`: the value under a key is the one of the LAST entry with that key; with pairwise
    distinct keys nothing is lost -/
theorem C12_fofList_later_wins (n : Nat) (g : Nat → Val) (kf : Nat → String) :
    Fields.SortedKeys (fofList ((List.range n).map fun i => (kf i, g i))) ∧
    (∀ j, j < n → (∀ j', j < j' → j' < n → kf j' ≠ kf j) →
      fget (fofList ((List.range n).map fun i => (kf i, g i))) (kf j) = some (g j)) ∧
    (∀ x, (∀ j, j < n → kf j ≠ x) →
      fget (fofList ((List.range n).map fun i => (kf i, g i))) x = none) ∧
    ((∀ i j, i < n → j < n → kf i = kf j → i = j) →
      (fofList ((List.range n).map fun i => (kf i, g i))).length = n) := by
  refine ⟨rp_sorted_fofList _, ?_, ?_, ?_⟩
  · intro j hj hlast
    obtain ⟨d, rfl⟩ : ∃ d, n = (j + 1) + d := ⟨n - (j + 1), by omega⟩
    rw [List.range_add, List.range_succ, List.map_append, List.map_append]
    simp only [List.map_cons, List.map_nil, List.append_assoc, List.singleton_append, fofList]
    apply fget_fsetAll_last
    intro p hp
    simp only [List.map_map, List.mem_map, List.mem_range] at hp
    obtain ⟨t, ht, rfl⟩ := hp
    exact hlast _ (by simp; omega) (by simp; omega)
  · intro x hx
    rw [fofList, fget_fsetAll_not_mem]
    · rfl
    · intro p hp
      simp only [List.mem_map, List.mem_range] at hp
      obtain ⟨t, ht, rfl⟩ := hp
      exact hx t ht
  · intro hinj
    rw [fofList, length_fsetAll_nodup]
    · simp
    · rw [List.map_map, List.nodup_iff_pairwise_ne, List.pairwise_map]
      refine List.Pairwise.imp_of_mem ?_ (List.pairwise_lt_range (n := n))
      intro a b ha hb hab e
      have := hinj a b (List.mem_range.1 ha) (List.mem_range.1 hb) e
      omega
    · intro p _; rfl

/-- exact form, mirroring `C12_list_nested_exact`: if copy `i` evaluates to the non-null `g i`
    under the evaluated key `kf i`, no evaluated key is a directive, and the copies are already
    evaluated (the second pass leaves them and their keys alone), the result is the sorted map
    of the pairs `(kf i, g i)` in which a later copy replaces an earlier one with the same key;
    it has exactly `n` entries when the evaluated keys are pairwise distinct -/
theorem C12_map_nested_exact (fuel : Nat) (docs : List Val) (root : Val) (ec : Vars) (k : String)
    (m : Fields) (n : Int) (g : Nat → Val) (kf : Nat → String)
    (hr : fget m "$repeat" = some (.int n))
    (hg : ∀ i, i < n.toNat →
      process2 fuel docs root (fset ec "$repeat" (.int i)) (.map (fdel m "$repeat")) = .ok (g i))
    (hnn : ∀ i, i < n.toNat → (g i).isNull = false)
    (hk : ∀ i, i < n.toNat →
      process2 fuel docs root (fset ec "$repeat" (.int i)) (.str k) = .ok (.str (kf i)))
    (hdir : ∀ i, i < n.toNat → kf i ≠ "$encode" ∧ kf i ≠ "$decode" ∧ kf i ≠ "$value")
    (hfix : ∀ i, i < n.toNat → process2 fuel docs root ec (g i) = .ok (g i) ∧
      process2 fuel docs root ec (.str (kf i)) = .ok (.str (kf i))) :
    process2 (fuel + 1) docs root ec (.map [(k, .map m)])
      = .ok (.map (fofList ((List.range n.toNat).map fun i => (kf i, g i)))) ∧
    (∀ j, j < n.toNat → (∀ j', j < j' → j' < n.toNat → kf j' ≠ kf j) →
      fget (fofList ((List.range n.toNat).map fun i => (kf i, g i))) (kf j) = some (g j)) ∧
    ((∀ i j, i < n.toNat → j < n.toNat → kf i = kf j → i = j) →
      (fofList ((List.range n.toNat).map fun i => (kf i, g i))).length = n.toNat) := by
  obtain ⟨_, hlast, hnone, hlen⟩ := C12_fofList_later_wins n.toNat g kf
  refine ⟨?_, hlast, hlen⟩
  rw [C12_map_nested fuel docs root ec k m n hr,
    C12_map_nested_entries fuel docs root ec k _ n.toNat g kf hg hnn hk, ok_bind]
  have hfm : ∀ l : List Nat, (l.map fun i => some (kf i, g i)).filterMap id
      = l.map fun i => (kf i, g i) := by
    intro l
    induction l with
    | nil => rfl
    | cons a l ih => simp [ih]
  rw [hfm]
  generalize hE : fofList ((List.range n.toNat).map fun i => (kf i, g i)) = E
  have hmem : ∀ q ∈ E, ∃ i, i < n.toNat ∧ q = (kf i, g i) := by
    intro q hq
    rw [← hE, fofList] at hq
    rcases mem_fsetAll hq with h | h
    · cases h
    · simp only [List.mem_map, List.mem_range] at h
      obtain ⟨i, hi, rfl⟩ := h
      exact ⟨i, hi, rfl⟩
  have hno : ∀ d, (∀ i, i < n.toNat → kf i ≠ d) → fget E d = none := by
    intro d hd; rw [← hE]; exact hnone d hd
  rw [process2MapTail_plain _ _ _ _ _ (hno _ fun i hi => (hdir i hi).1)
    (hno _ fun i hi => (hdir i hi).2.1) (hno _ fun i hi => (hdir i hi).2.2),
    foldlM_mapStep2_fix]
  · rw [← hE, fofList_idem]; rfl
  · intro q hq
    obtain ⟨i, hi, rfl⟩ := hmem q hq
    exact ⟨(hfix i hi).1, hnn i hi, (hfix i hi).2⟩

/-- non-vacuity of all hypotheses of `C12_map_nested_exact`, for every count `n`:
    `{$"k{$repeat}": {$repeat: n, v: $repeat}}` with `g i = {v: i}` and `kf i = "k<i>"` -/
example (n : Int) :
    let m : Fields := [("$repeat", .int n), ("v", .str "$repeat")]
    let g : Nat → Val := fun i => .map [("v", .int i)]
    let kf : Nat → String := fun i => String.ofList ('k' :: (toString (i : Int)).toList)
    fget m "$repeat" = some (.int n) ∧
    (∀ i, i < n.toNat → process2 2 [] .null (fset [] "$repeat" (.int i))
      (.map (fdel m "$repeat")) = .ok (g i)) ∧
    (∀ i, i < n.toNat → (g i).isNull = false) ∧
    (∀ i, i < n.toNat → process2 2 [] .null (fset [] "$repeat" (.int i))
      (.str "$\"k{$repeat}\"") = .ok (.str (kf i))) ∧
    (∀ i, i < n.toNat → kf i ≠ "$encode" ∧ kf i ≠ "$decode" ∧ kf i ≠ "$value") ∧
    (∀ i, i < n.toNat → process2 2 [] .null [] (g i) = .ok (g i) ∧
      process2 2 [] .null [] (.str (kf i)) = .ok (.str (kf i))) := by
  have hroot : rootOK .null [] := rootOK_of_no_key _ _ (fun _ e => by cases e)
  refine ⟨by simp [fget], fun i _ => ?_, fun _ _ => rfl, fun i _ => ?_, fun i _ => ?_, fun i _ => ?_⟩
  · have : fdel [("$repeat", Val.int n), ("v", .str "$repeat")] "$repeat" = [("v", .str "$repeat")] := by
      simp [fdel]
    rw [this]
    exact process2_body_v_repeat 0 [] .null [] i
  · exact process2_key_k_repeat 0 [] .null [] i hroot
  · exact ⟨ofList_ne_of_head (d := '$') (by decide) (by decide),
      ofList_ne_of_head (d := '$') (by decide) (by decide),
      ofList_ne_of_head (d := '$') (by decide) (by decide)⟩
  · exact ⟨process2_single_int 0 [] .null [] "v" "v" i
        (process2_key_nodollar 0 [] .null [] 'v' [] (by decide)) (by decide) (by decide) (by decide),
      process2_key_nodollar 1 [] .null [] 'k' _ (by decide)⟩

/-- test (distinct keys): `{$"k{$repeat}": {$repeat: 2, v: $repeat}}` is `{k0: {v: 0}, k1: {v: 1}}` -/
example : process2 3 [] .null [] (.map [("$\"k{$repeat}\"", .map [("$repeat", .int 2), ("v", .str "$repeat")])])
    = .ok (.map [("k0", .map [("v", .int 0)]), ("k1", .map [("v", .int 1)])]) := by
  have hroot : rootOK .null [] := rootOK_of_no_key _ _ (fun _ e => by cases e)
  have hdel : fdel [("$repeat", Val.int 2), ("v", .str "$repeat")] "$repeat" = [("v", .str "$repeat")] := by
    decide
  have h := (C12_map_nested_exact 2 [] .null [] "$\"k{$repeat}\""
    [("$repeat", .int 2), ("v", .str "$repeat")] 2 (fun i => .map [("v", .int i)])
    (fun i => String.ofList ('k' :: (toString (i : Int)).toList)) (by decide)
    (fun i _ => by rw [hdel]; exact process2_body_v_repeat 0 [] .null [] i)
    (fun _ _ => rfl)
    (fun i _ => process2_key_k_repeat 0 [] .null [] i hroot)
    (fun i _ => ⟨ofList_ne_of_head (d := '$') (by decide) (by decide),
      ofList_ne_of_head (d := '$') (by decide) (by decide),
      ofList_ne_of_head (d := '$') (by decide) (by decide)⟩)
    (fun i _ => ⟨process2_single_int 0 [] .null [] "v" "v" i
        (process2_key_nodollar 0 [] .null [] 'v' [] (by decide)) (by decide) (by decide) (by decide),
      process2_key_nodollar 1 [] .null [] 'k' _ (by decide)⟩)).1
  rw [h]
  exact congrArg Except.ok (by decide)

/-- test (colliding keys): with the constant key `a` the later copy wins:
    `{a: {$repeat: 2, v: $repeat}}` is `{a: {v: 1}}` -/
example : process2 3 [] .null [] (.map [("a", .map [("$repeat", .int 2), ("v", .str "$repeat")])])
    = .ok (.map [("a", .map [("v", .int 1)])]) := by
  have hdel : fdel [("$repeat", Val.int 2), ("v", .str "$repeat")] "$repeat" = [("v", .str "$repeat")] := by
    decide
  have h := (C12_map_nested_exact 2 [] .null [] "a"
    [("$repeat", .int 2), ("v", .str "$repeat")] 2 (fun i => .map [("v", .int i)])
    (fun _ => "a") (by decide)
    (fun i _ => by rw [hdel]; exact process2_body_v_repeat 0 [] .null [] i)
    (fun _ _ => rfl)
    (fun i _ => process2_key_nodollar 1 [] .null _ 'a' [] (by decide))
    (fun i _ => by decide)
    (fun i _ => ⟨process2_single_int 0 [] .null [] "v" "v" i
        (process2_key_nodollar 0 [] .null [] 'v' [] (by decide)) (by decide) (by decide) (by decide),
      process2_key_nodollar 1 [] .null [] 'a' [] (by decide)⟩)).1
  rw [h]
  exact congrArg Except.ok (by decide)

/-! ## the output of `processDoc`: document `i` is the body evaluated under `$repeat ↦ i` -/

/-- If phase 3 (`process1`) turns the merged document into a map with `$repeat: n`, the documents
    produced by `processDoc` are, in order, the evaluations of the body (the map without its
    `$repeat` key, which is also the referencing root) under `$repeat ↦ 0, 1, …, n-1`; the first
    failing copy aborts. -/
theorem C12_doc_int_order (docs : List Val) (env : Vars) (data : Val) (kvs : Fields) (rt : Val)
    (n : Int) (h1 : process1 depthLimit docs data (some []) data = .ok (.map kvs, rt))
    (hr : fget kvs "$repeat" = some (.int n)) :
    processDoc docs env data
      = (List.range n.toNat).mapM fun (i : Nat) =>
          process2 depthLimit docs (.map (fdel kvs "$repeat")) (fset env "$repeat" (.int i))
            (.map (fdel kvs "$repeat")) := by
  unfold processDoc
  rw [h1]
  simp only [ok_bind]
  rw [C12_repeatDoc_map_int kvs env n hr]
  simp only [ok_bind]
  rw [List.mapM_map]
  rfl

/-- … hence, when copy `i` evaluates to `g i`: exactly `n` documents, the `i`-th being `g i` -/
theorem C12_doc_int_order_exact (docs : List Val) (env : Vars) (data : Val) (kvs : Fields)
    (rt : Val) (n : Int) (g : Nat → Val)
    (h1 : process1 depthLimit docs data (some []) data = .ok (.map kvs, rt))
    (hr : fget kvs "$repeat" = some (.int n))
    (hg : ∀ i, i < n.toNat →
      process2 depthLimit docs (.map (fdel kvs "$repeat")) (fset env "$repeat" (.int i))
        (.map (fdel kvs "$repeat")) = .ok (g i)) :
    ∃ outs, processDoc docs env data = .ok outs ∧ outs.length = n.toNat ∧
      ∀ i, i < n.toNat → outs[i]? = some (g i) := by
  refine ⟨(List.range n.toNat).map g, ?_, by simp, ?_⟩
  · rw [C12_doc_int_order docs env data kvs rt n h1 hr]
    exact mapM_ok_of_forall' _ g _ (fun i hi => hg i (List.mem_range.1 hi))
  · intro i hi
    rw [List.getElem?_map, List.getElem?_range hi]
    rfl

/-- the `process1` hypothesis is automatic for a well-formed document of depth below the limit
    that contains no `$merge` / `$replace` (as key, as `$merge:`/`$replace:` string) — `p1OK`;
    the body is then the input without its null entries and without the `$repeat` key -/
theorem C12_doc_int_order_closed (docs : List Val) (env : Vars) (kvs : Fields) (n : Int)
    (hp : allStr p1OK (.map kvs) = true) (hw : Val.wfB (.map kvs) = true)
    (hd : depth (.map kvs) < depthLimit) (hr : fget kvs "$repeat" = some (.int n)) :
    processDoc docs env (.map kvs)
      = (List.range n.toNat).mapM fun (i : Nat) =>
          process2 depthLimit docs (.map (fdel (dropNullsFields kvs) "$repeat"))
            (fset env "$repeat" (.int i)) (.map (fdel (dropNullsFields kvs) "$repeat")) :=
  C12_doc_int_order docs env (.map kvs) (dropNullsFields kvs) (.map kvs) n
    (process1_p1 depthLimit docs (.map kvs) (some []) (.map kvs) hp hw hd)
    (fget_dropNullsFields_int hr)

/-- combined with the substitution theorem: for a body in the class `repeatBody`, document `i` is
    the evaluation of the hand-written copy `substRepeat i body` — as its own root, without any
    `$repeat` binding -/
theorem C12_doc_int_subst (docs : List Val) (env : Vars) (data : Val) (kvs : Fields) (rt : Val)
    (n : Int) (h1 : process1 depthLimit docs data (some []) data = .ok (.map kvs, rt))
    (hr : fget kvs "$repeat" = some (.int n))
    (hb : repeatBody true (.map (fdel kvs "$repeat")) = true) :
    processDoc docs env data
      = (List.range n.toNat).mapM fun (i : Nat) =>
          process2 depthLimit docs (substRepeat i (.map (fdel kvs "$repeat"))) env
            (substRepeat i (.map (fdel kvs "$repeat"))) := by
  rw [C12_doc_int_order docs env data kvs rt n h1 hr]
  have h : (fun (i : Nat) =>
      process2 depthLimit docs (.map (fdel kvs "$repeat")) (fset env "$repeat" (.int i))
        (.map (fdel kvs "$repeat")))
      = fun (i : Nat) => process2 depthLimit docs (substRepeat i (.map (fdel kvs "$repeat"))) env
        (substRepeat i (.map (fdel kvs "$repeat"))) := by
    funext i
    exact C12_subst_standalone depthLimit docs docs _ _ env i _ (C12_rootOK_body kvs docs) hb
  rw [h]

/-- non-vacuity: `exRepeatDoc = {$repeat: 3, idx: $repeat, name: $"item-{$repeat}"}` satisfies
    every hypothesis of `C12_doc_int_order_closed` and of `C12_doc_int_subst` -/
example : allStr p1OK (.map exRepeatDoc) = true ∧ Val.wfB (.map exRepeatDoc) = true ∧
    depth (.map exRepeatDoc) < depthLimit ∧ fget exRepeatDoc "$repeat" = some (.int 3) ∧
    repeatBody true (.map (fdel (dropNullsFields exRepeatDoc) "$repeat")) = true :=
  ⟨by decide, by decide, by decide, by decide, by decide⟩

/-- end-to-end test: `processDoc` on `{$repeat: 3, idx: $repeat, name: $"item-{$repeat}"}` emits
    `{idx: 0, name: item-0}`, `{idx: 1, name: item-1}`, `{idx: 2, name: item-2}`, in this order
    (and `hg` of `C12_doc_int_order_exact` is satisfiable) -/
example : processDoc [] [] (.map exRepeatDoc)
    = .ok [.map [("idx", .int 0), ("name", .str "item-0")],
           .map [("idx", .int 1), ("name", .str "item-1")],
           .map [("idx", .int 2), ("name", .str "item-2")]] := by
  rw [C12_doc_int_order_closed [] [] exRepeatDoc 3 (by decide) (by decide) (by decide) (by decide),
    exRepeatBody_eq]
  refine (mapM_ok_of_forall' _ (fun (i : Nat) => Val.map [("idx", .int i),
      ("name", .str (String.ofList ("item-".toList ++ (toString (i : Int)).toList)))]) _
      (fun i _ => process2_exRepeatBody 998 [] [] i)).trans ?_
  exact congrArg Except.ok (by decide)

/-! ## an upper layer overriding the count -/

/-- If an upper layer `s` (key-sorted, no `$replace: true`) sets `$repeat: m` and the layer merge
    succeeds, the merged document generates exactly `m` copies (of the merged rest), whatever
    the lower layer had under `$repeat` — a different integer count, some other value, or
    nothing.  (Corollary of the per-key map law of C01 and `C12_doc_int`.) -/
theorem C12_count_from_upper_layer {d s : Fields} {r : Val} (ec : Vars) (m : Int)
    (hs : Fields.SortedKeys s) (hrep : fhasBool s "$replace" true = false)
    (hm : fget s "$repeat" = some (.int m)) (h : merge (.map d) (.map s) = .ok r) :
    ∃ rm, r = .map rm ∧ fget rm "$repeat" = some (.int m) ∧
      repeatDoc r ec = .ok ((List.range m.toNat).map fun (i : Nat) =>
        (.map (fdel rm "$repeat"), fset ec "$repeat" (.int i))) ∧
      ((List.range m.toNat).map fun (i : Nat) =>
        ((.map (fdel rm "$repeat") : Val), fset ec "$repeat" (.int i))).length = m.toNat := by
  obtain ⟨rm, rfl, hget⟩ := merge_repeat_count hs hrep hm h
  exact ⟨rm, rfl, hget, C12_repeatDoc_map_int rm ec m hget, by simp⟩

/-- the override proper: the lower layer has count `n0`, the upper layer is `{$repeat: m}` with
    `m ≠ n0`.  The merge succeeds, replaces only the count, and the document that generated `n0`
    copies of its body now generates `m` copies of the same body. -/
theorem C12_count_override (d : Fields) (ec : Vars) (n0 m : Int)
    (hold : fget d "$repeat" = some (.int n0)) (hne : m ≠ n0) :
    merge (.map d) (.map [("$repeat", .int m)]) = .ok (.map (fset d "$repeat" (.int m))) ∧
    repeatDoc (.map d) ec = .ok ((List.range n0.toNat).map fun (i : Nat) =>
      (.map (fdel d "$repeat"), fset ec "$repeat" (.int i))) ∧
    repeatDoc (.map (fset d "$repeat" (.int m))) ec = .ok ((List.range m.toNat).map fun (i : Nat) =>
      (.map (fdel d "$repeat"), fset ec "$repeat" (.int i))) := by
  refine ⟨by rw [merge_repeat_single d n0 m hold, if_neg hne], C12_repeatDoc_map_int d ec n0 hold, ?_⟩
  rw [C12_repeatDoc_map_int _ ec m (fget_fset_same _ _ _), fdel_fset_same']

/-- restating the same count in an upper layer is rejected (`uselessOverride`), which is why
    the override theorem needs `m ≠ n0` -/
theorem C12_count_same_is_error (d : Fields) (n0 : Int) (hold : fget d "$repeat" = some (.int n0)) :
    merge (.map d) (.map [("$repeat", .int n0)]) = .error .uselessOverride := by
  rw [merge_repeat_single d n0 n0 hold, if_pos rfl]

/-- the number of documents `processDoc` emits for a document whose phase-3 form has
    `$repeat: n` is `n` (when it succeeds) -/
theorem C12_doc_int_count (docs : List Val) (env : Vars) (data : Val) (kvs : Fields) (rt : Val)
    (n : Int) (outs : List Val)
    (h1 : process1 depthLimit docs data (some []) data = .ok (.map kvs, rt))
    (hr : fget kvs "$repeat" = some (.int n)) (ho : processDoc docs env data = .ok outs) :
    outs.length = n.toNat := by
  rw [C12_doc_int_order docs env data kvs rt n h1 hr] at ho
  simpa using mapM_length_ok _ _ _ ho

/-- … so after the override the merged document emits `m` documents -/
theorem C12_count_override_docs (docs : List Val) (env : Vars) (d : Fields) (n0 m : Int)
    (outs : List Val) (hold : fget d "$repeat" = some (.int n0)) (hne : m ≠ n0)
    (hp : allStr p1OK (.map (fset d "$repeat" (.int m))) = true)
    (hw : Val.wfB (.map (fset d "$repeat" (.int m))) = true)
    (hd : depth (.map (fset d "$repeat" (.int m))) < depthLimit) :
    ∃ r, merge (.map d) (.map [("$repeat", .int m)]) = .ok r ∧
      (processDoc docs env r = .ok outs → outs.length = m.toNat) := by
  refine ⟨_, (C12_count_override d env n0 m hold hne).1, fun ho => ?_⟩
  exact C12_doc_int_count docs env _ _ _ m outs
    (process1_p1 depthLimit docs _ (some []) _ hp hw hd)
    (fget_dropNullsFields_int (fget_fset_same _ _ _)) ho

/-- non-vacuity / tests: base `{$repeat: 3, idx: $repeat, name: …}`, upper layer `{$repeat: 2}` -/
example : fget exRepeatDoc "$repeat" = some (.int 3) ∧ (2 : Int) ≠ 3 ∧
    allStr p1OK (.map (fset exRepeatDoc "$repeat" (.int 2))) = true ∧
    Val.wfB (.map (fset exRepeatDoc "$repeat" (.int 2))) = true ∧
    depth (.map (fset exRepeatDoc "$repeat" (.int 2))) < depthLimit :=
  ⟨by decide, by decide, by decide, by decide, by decide⟩
example : Fields.SortedKeys [("$repeat", Val.int 2), ("extra", .int 1)] ∧
    fhasBool [("$repeat", Val.int 2), ("extra", .int 1)] "$replace" true = false ∧
    fget [("$repeat", Val.int 2), ("extra", .int 1)] "$repeat" = some (.int 2) ∧
    merge (.map exRepeatDoc) (.map [("$repeat", .int 2), ("extra", .int 1)])
      = .ok (.map [("$repeat", .int 2), ("extra", .int 1), ("idx", .str "$repeat"),
          ("name", .str "$\"item-{$repeat}\"")]) := by
  refine ⟨by decide, by decide, by decide, ?_⟩
  simp [exRepeatDoc, merge, mergeMapMap, mergeFields, fhasBool, fget, fset, Val.toStr]
  rfl
/-- end to end: after the override the example document emits two documents -/
example : ∃ r, merge (.map exRepeatDoc) (.map [("$repeat", .int 2)]) = .ok r ∧
    processDoc [] [] r = .ok [.map [("idx", .int 0), ("name", .str "item-0")],
                             .map [("idx", .int 1), ("name", .str "item-1")]] := by
  refine ⟨_, (C12_count_override exRepeatDoc [] 3 2 (by decide) (by decide)).1, ?_⟩
  rw [C12_doc_int_order_closed [] [] _ 2 (by decide) (by decide) (by decide) (by decide)]
  have hb : fdel (dropNullsFields (fset exRepeatDoc "$repeat" (.int 2))) "$repeat" = exRepeatBody := by
    decide
  rw [hb]
  refine (mapM_ok_of_forall' _ (fun (i : Nat) => Val.map [("idx", .int i),
      ("name", .str (String.ofList ("item-".toList ++ (toString (i : Int)).toList)))]) _
      (fun i _ => process2_exRepeatBody 998 [] [] i)).trans ?_
  exact congrArg Except.ok (by decide)

end Bkl
