/-
  C12 — "$repeat expands to exactly n indexed copies (cartesian product for named counts)".
  Model: `repeatInt`, `repeatGen`, `repeatDoc` and the `$repeat` branches of `process2`
  (Bkl/Process2.lean).  Specification side (`countOf`, `tuples`, `tupleOk`, `bindTuple`,
  `repeatEc1`, `namedCounts`, `noSingleKey`) is defined in BklProofs/Lemmas/Repeat.lean.
-/
import BklProofs.Lemmas.Repeat
namespace Bkl

/-! ## document level, integer count -/

/-- exactly `n` copies (none for `n ≤ 0`), in index order, the `i`-th bound to `$repeat ↦ i` -/
theorem C12_doc_int (data : Val) (ec : Vars) (n : Int) :
    repeatGen data ec (.int n)
      = .ok ((List.range n.toNat).map fun (i : Nat) => (data, fset ec "$repeat" (.int i))) := by
  simp [repeatGen, repeatInt, pure, Except.pure]

theorem C12_doc_int_length (data : Val) (ec : Vars) (n : Int) :
    ∃ pairs, repeatGen data ec (.int n) = .ok pairs ∧ pairs.length = n.toNat :=
  ⟨_, C12_doc_int data ec n, by simp⟩

/-- tests -/
example : repeatGen (.str "d") [] (.int 3)
    = .ok [(.str "d", [("$repeat", .int 0)]), (.str "d", [("$repeat", .int 1)]),
           (.str "d", [("$repeat", .int 2)])] := by
  rw [C12_doc_int]; exact congrArg Except.ok (by decide)
example : repeatGen (.str "d") [] (.int (-2)) = .ok [] := by
  rw [C12_doc_int]; exact congrArg Except.ok (by decide)

/-! ## document level, named counts -/

/-- the generated documents are exactly the index tuples of the cartesian product, in
    lexicographic order (first name slowest); the context of the `j`-th one is `ec1`
    (`ec` plus the declared counts under `$repeat.<name>`) with `$repeat:<name> ↦ index`
    for every component of the `j`-th tuple -/
theorem C12_doc_named (data : Val) (ec : Vars) (rs : Fields)
    (h : ∀ kv ∈ rs, ∃ n, kv.2 = Val.int n) :
    repeatGen data ec (.map rs)
      = .ok ((tuples (rs.map fun kv => (kv.1, countOf kv.2))).map fun t =>
          (data, t.foldl (fun e ni => fset e ("$repeat:" ++ ni.1) (.int ni.2)) (repeatEc1 ec rs))) := by
  rw [repeatGen_map_eq, foldlM_repeatStep rs h]
  simp [namedCounts, bindTuple]

/-- `repeatEc1` is literally the fold `repeatGen` performs -/
theorem C12_doc_named_ec1 (ec : Vars) (rs : Fields) :
    repeatEc1 ec rs = rs.foldl (fun e (kv : String × Val) => fset e ("$repeat." ++ kv.1) kv.2) ec :=
  (repeatEc1_eq_foldl ec rs).symm

/-- `ec1` carries each declared count under `$repeat.<name>` (distinct names) and leaves every
    other variable alone -/
theorem C12_doc_named_ec1_get (ec : Vars) (rs : Fields) (hnd : (rs.map (·.1)).Nodup) :
    (∀ k v, (k, v) ∈ rs → fget (repeatEc1 ec rs) ("$repeat." ++ k) = some v) ∧
    (∀ x, (∀ kv ∈ rs, "$repeat." ++ kv.1 ≠ x) → fget (repeatEc1 ec rs) x = fget ec x) :=
  ⟨fun k v h => fget_repeatEc1_mem rs k v ec hnd h, fun x h => fget_repeatEc1_other rs x ec h⟩

example : (([("a", .int 2), ("b", .int 3)] : Fields).map (·.1)).Nodup := by decide

/-- the number of generated documents is the product of the counts -/
theorem C12_doc_named_length (data : Val) (ec : Vars) (rs : Fields)
    (h : ∀ kv ∈ rs, ∃ n, kv.2 = Val.int n) :
    ∃ pairs, repeatGen data ec (.map rs) = .ok pairs ∧
      pairs.length = (rs.map fun kv => countOf kv.2).prod := by
  refine ⟨_, C12_doc_named data ec rs h, ?_⟩
  rw [List.length_map, tuples_length, List.map_map]
  rfl

/-- every admissible tuple occurs exactly once: no duplicates, `∏ counts` of them, and
    membership is "names as declared, every index below its count" -/
theorem C12_doc_named_nodup (l : List (String × Nat)) :
    (tuples l).Nodup ∧ (tuples l).length = (l.map (·.2)).prod ∧
    ∀ t, t ∈ tuples l ↔ tupleOk t l :=
  ⟨tuples_nodup l, tuples_length l, fun _ => mem_tuples⟩

/-- non-vacuity and a test: `{a: 2, b: 3}` gives 6 documents, `a` slowest -/
example : ∀ kv ∈ ([("a", .int 2), ("b", .int 3)] : Fields), ∃ n, kv.2 = Val.int n := by
  intro kv h; simp at h; rcases h with rfl | rfl <;> exact ⟨_, rfl⟩
example : tuples [("a", 2), ("b", 3)]
    = [[("a",0),("b",0)], [("a",0),("b",1)], [("a",0),("b",2)],
       [("a",1),("b",0)], [("a",1),("b",1)], [("a",1),("b",2)]] := by decide
example : (repeatGen .null [] (.map [("a", .int 2), ("b", .int 1)])) =
    .ok [(.null, [("$repeat.a", .int 2), ("$repeat.b", .int 1), ("$repeat:a", .int 0), ("$repeat:b", .int 0)]),
         (.null, [("$repeat.a", .int 2), ("$repeat.b", .int 1), ("$repeat:a", .int 1), ("$repeat:b", .int 0)])] := by
  rw [C12_doc_named _ _ _ (by intro kv h; simp at h; rcases h with rfl | rfl <;> exact ⟨_, rfl⟩)]
  exact congrArg Except.ok (by decide)

/-! ## non-integer counts are errors -/

/-- `$repeat` must be an integer or a map … -/
theorem C12_nonint_error (data : Val) (ec : Vars) (v : Val)
    (h1 : ∀ n, v ≠ .int n) (h2 : ∀ rs, v ≠ .map rs) :
    repeatGen data ec v = .error .invalidRepeat := by
  cases v <;> first | rfl | exact absurd rfl (h1 _) | exact absurd rfl (h2 _)

/-- … and every named count must be an integer -/
theorem C12_nonint_error_named (data : Val) (ec : Vars) (rs : Fields)
    (h : ∃ kv ∈ rs, ∀ n, kv.2 ≠ Val.int n) :
    repeatGen data ec (.map rs) = .error .invalidRepeat := by
  rw [repeatGen_map_eq]; exact foldlM_repeatStep_bad rs h _

example : (∀ n, Val.str "3" ≠ .int n) ∧ (∀ rs, Val.str "3" ≠ .map rs) :=
  ⟨fun _ h => (by cases h), fun _ h => (by cases h)⟩
example : ∃ kv ∈ ([("a", .int 2), ("b", .str "x")] : Fields), ∀ n, kv.2 ≠ Val.int n :=
  ⟨("b", .str "x"), by simp, fun _ h => (by cases h)⟩

/-- nested `{… "$repeat": r …}` inside a list with `r` not an integer: `invalidType`.
    (No side condition on `$encode` is needed: a map that has a `$repeat` key is never a
    single-key `{$encode: …}` entry.) -/
theorem C12_nonint_error_nested (fuel : Nat) (docs : List Val) (root : Val) (ec : Vars)
    (m : Fields) (r : Val) (hr : fget m "$repeat" = some r) (hni : ∀ n, r ≠ .int n) :
    process2 (fuel + 1) docs root ec (.list [.map m]) = .error .invalidType := by
  have hp := popListMapValue_none "$encode" [.map m]
    (noSingleKey_of_other_key (k := "$encode") (k' := "$repeat") (by decide) hr)
  rw [process2]
  simp only [hp, bind, Except.bind, Val.isNull, Bool.not_true, Bool.false_eq_true, if_false,
    List.foldlM_cons, List.foldlM_nil, hr]
  cases r <;> first | rfl | exact absurd rfl (hni _)

example : fget [("$repeat", Val.str "2"), ("x", .int 1)] "$repeat" = some (.str "2")
    ∧ ∀ n, Val.str "2" ≠ .int n := ⟨by decide, fun _ h => (by cases h)⟩

/-! ## nested repeat inside a list -/

/-- evaluate the body (the map without its `$repeat` key) once per index `0 … n-1`, in order,
    with `$repeat ↦ i`; the first failing copy aborts; null results are dropped -/
theorem C12_list_nested (fuel : Nat) (docs : List Val) (root : Val) (ec : Vars)
    (m : Fields) (n : Int) (hr : fget m "$repeat" = some (.int n)) :
    process2 (fuel + 1) docs root ec (.list [.map m])
      = (do
          let vs ← (List.range n.toNat).mapM fun (i : Nat) =>
            process2 fuel docs root (fset ec "$repeat" (.int i)) (.map (fdel m "$repeat"))
          pure (.list (vs.filter fun v => !v.isNull))) := by
  have hp := popListMapValue_none "$encode" [.map m]
    (noSingleKey_of_other_key (k := "$encode") (k' := "$repeat") (by decide) hr)
  rw [process2]
  simp only [hp, ok_bind, isNull_null, Bool.not_true, Bool.false_eq_true, if_false,
    List.foldlM_cons, List.foldlM_nil, hr, bind_pure]
  rw [foldlM_collect (fun i => process2 fuel docs root (fset ec "$repeat" (.int (Int.ofNat i)))
    (.map (fdel m "$repeat")))]
  simp only [List.nil_append, bind_assoc, pure_bind]
  rfl

/-- hence exactly `n` entries when no copy errors or evaluates to null -/
theorem C12_list_nested_exact (fuel : Nat) (docs : List Val) (root : Val) (ec : Vars)
    (m : Fields) (n : Int) (g : Nat → Val) (hr : fget m "$repeat" = some (.int n))
    (hg : ∀ i, i < n.toNat →
      process2 fuel docs root (fset ec "$repeat" (.int i)) (.map (fdel m "$repeat")) = .ok (g i))
    (hnn : ∀ i, i < n.toNat → (g i).isNull = false) :
    process2 (fuel + 1) docs root ec (.list [.map m]) = .ok (.list ((List.range n.toNat).map g))
    ∧ ((List.range n.toNat).map g).length = n.toNat := by
  refine ⟨?_, by simp⟩
  rw [C12_list_nested fuel docs root ec m n hr,
    mapM_ok_of_forall _ g _ (fun i hi => hg i (List.mem_range.1 hi))]
  simp only [bind, Except.bind, pure, Except.pure]
  congr 2
  rw [List.filter_eq_self]
  intro v hv
  obtain ⟨i, hi, rfl⟩ := List.mem_map.1 hv
  simp [hnn i (List.mem_range.1 hi)]

/-- non-vacuity of `hg`/`hnn` (with `g i = {v: 7}`) -/
example : ∀ i : Nat, i < (2 : Int).toNat →
    process2 2 [] .null (fset [] "$repeat" (.int i))
      (.map (fdel [("$repeat", .int 2), ("v", .int 7)] "$repeat")) = .ok (.map [("v", .int 7)]) := by
  intro i _
  simp [process2, process2String.eq_1, interpBody, fget, fdel, fset, Val.isNull, bind,
    Except.bind, pure, Except.pure]

/-- test: `[{$repeat: 3, v: "$repeat"}]` is `[{v:0},{v:1},{v:2}]` -/
example : process2 3 [] .null [] (.list [.map [("$repeat", .int 3), ("v", .str "$repeat")]])
    = .ok (.list [.map [("v", .int 0)], .map [("v", .int 1)], .map [("v", .int 2)]]) := by
  simp [process2, process2String.eq_1, interpBody, popListMapValue, fget, fdel, fset, getVar,
    List.range, List.range.loop, Val.isNull, bind, Except.bind, pure, Except.pure]

/-! ## no `$repeat`: exactly one document -/

theorem C12_repeatDoc_no_repeat_map (kvs : Fields) (ec : Vars) (h : fget kvs "$repeat" = none) :
    repeatDoc (.map kvs) ec = .ok [(.map kvs, ec)] := by
  simp [repeatDoc, h, pure, Except.pure]

theorem C12_repeatDoc_no_repeat_list (xs : List Val) (ec : Vars) (h : noSingleKey "$repeat" xs) :
    repeatDoc (.list xs) ec = .ok [(.list xs, ec)] := by
  simp [repeatDoc, popListMapValue_none _ _ h, Val.isNull, pure, Except.pure, bind, Except.bind]

theorem C12_repeatDoc_no_repeat_scalar (v : Val) (ec : Vars)
    (h1 : ∀ kvs, v ≠ .map kvs) (h2 : ∀ xs, v ≠ .list xs) :
    repeatDoc v ec = .ok [(v, ec)] := by
  cases v <;> first | rfl | exact absurd rfl (h1 _) | exact absurd rfl (h2 _)

example : fget [("a", Val.int 1)] "$repeat" = none := by decide
example : noSingleKey "$repeat" [.map [("a", .int 1)], .int 2, .map [("$repeat", .int 2), ("b", .null)]] := by
  intro x hx m e hl
  simp at hx
  rcases hx with rfl | rfl | rfl <;> cases e <;> first | rfl | (simp at hl)

/-- and with a `$repeat: n` key a map document yields the `n` indexed copies of the rest -/
theorem C12_repeatDoc_map_int (kvs : Fields) (ec : Vars) (n : Int)
    (h : fget kvs "$repeat" = some (.int n)) :
    repeatDoc (.map kvs) ec
      = .ok ((List.range n.toNat).map fun (i : Nat) =>
          (.map (fdel kvs "$repeat"), fset ec "$repeat" (.int i))) := by
  simp only [repeatDoc, h]
  exact C12_doc_int _ ec n

example : fget [("$repeat", Val.int 2), ("a", .int 1)] "$repeat" = some (.int 2) := by decide

end Bkl
