/-
  C01 — "layer merge follows the documented merge rules".

  `merge dst src` (Bkl/Merge.lean, mirrors merge.go): maps merge by key, lists concatenate,
  scalars replace, with the directives `$delete`, `$replace`, `$match`, `$value`, `$required`.

  Property theorems only; helper lemmas are in BklProofs/Lemmas/{Fields,Merge,MergeList,MergeWF}.
  Auxiliary definitions used in statements (all in BklProofs/Lemmas/Merge.lean):
    `Val.isScalar`  — bool / int / flt / str
    `plainEntry`    — a list-patch entry carrying no list directive
  and, for the recursive boundary of §10 (in BklProofs/Lemmas/C01Rejects.lean):
    `dropRequired`  — a list minus its `"$required"` marker strings (Lemmas/Merge.lean)
    `matchPatch`    — what a `$match` entry merges into a matched element (`$value`, else the
                      entry minus `$match`)
    `matchRel`      — one element before / after a `$match` entry is applied
    `Pointwise`     — two lists related element by element
-/
import BklProofs.Lemmas.MergeWF
import BklProofs.Lemmas.C01Rejects
namespace Bkl

/-! ## 1. a null child changes nothing -/

theorem C01_null_child_map (d : Fields) : merge (.map d) .null = .ok (.map d) :=
  merge_map_null d

theorem C01_null_child_list (d : List Val) : merge (.list d) .null = .ok (.list d) :=
  merge_list_null d

theorem C01_null_child :
    (∀ d : Fields, merge (.map d) .null = .ok (.map d)) ∧
    (∀ d : List Val, merge (.list d) .null = .ok (.list d)) :=
  ⟨merge_map_null, merge_list_null⟩

/-! ## 2. a null parent is replaced by the child -/

theorem C01_null_parent (s : Val) : merge .null s = .ok s :=
  merge_null s

/-! ## 3. scalars: the child replaces the parent, an identical value is rejected -/

theorem C01_scalar (dst src : Val) (h : dst.isScalar = true) :
    merge dst src = if src == dst then .error .uselessOverride else .ok src :=
  merge_scalar dst src h

example : (Val.str "a").isScalar = true ∧ (Val.int 3).isScalar = true ∧
    (Val.bool false).isScalar = true ∧ (Val.flt "1.5").isScalar = true := by decide

/-- rejected iff same value -/
theorem C01_scalar_reject_iff (dst src : Val) (h : dst.isScalar = true) :
    (∃ e, merge dst src = .error e) ↔ src = dst := by
  rw [C01_scalar dst src h]
  by_cases hs : src = dst
  · subst hs; simp
  · have : (src == dst) = false := by simpa using hs
    simp [this, hs]

example : (Val.int 3).isScalar = true := rfl

/-! ## 4. kind mismatches -/

/-- scalar or list over a non-empty map -/
theorem C01_kind_mismatch_map (d : Fields) (src : Val) (hd : d ≠ [])
    (hs : src.isScalar = true ∨ src.isList = true) :
    merge (.map d) src = .error .invalidType := by
  have h1 : src.isMap = false := by
    cases src <;> simp_all [Val.isScalar, Val.isList, Val.isMap]
  have h2 : src.isNull = false := by
    cases src <;> simp_all [Val.isScalar, Val.isList, Val.isNull]
  rw [merge_map_other d src h1 h2]
  cases d with
  | nil => exact absurd rfl hd
  | cons a tl => rfl

example : ([("a", Val.int 1)] : Fields) ≠ [] ∧
    ((Val.str "x").isScalar = true ∨ (Val.str "x").isList = true) := by decide

/-- scalar or map over a list -/
theorem C01_kind_mismatch_list (d : List Val) (src : Val)
    (hs : src.isScalar = true ∨ src.isMap = true) :
    merge (.list d) src = .error .invalidType := by
  have h1 : src.isList = false := by
    cases src <;> simp_all [Val.isScalar, Val.isList, Val.isMap]
  have h2 : src.isNull = false := by
    cases src <;> simp_all [Val.isScalar, Val.isMap, Val.isNull]
  exact merge_list_other d src h1 h2

example : (Val.map [("a", .int 1)]).isScalar = true ∨ (Val.map [("a", .int 1)]).isMap = true := by
  decide

/-- anything that is not a map and not null over an empty map yields the child -/
theorem C01_kind_mismatch_empty_map (src : Val) (h1 : src.isMap = false)
    (h2 : src.isNull = false) : merge (.map []) src = .ok src := by
  rw [merge_map_other [] src h1 h2]; rfl

example : (Val.list [.int 1]).isMap = false ∧ (Val.list [.int 1]).isNull = false := by decide

/-! ## 5. `$replace: true` in a map patch -/

theorem C01_replace_true (d s : Fields) (h : fhasBool s "$replace" true = true) :
    merge (.map d) (.map s) = .ok (.map (fdel s "$replace")) := by
  rw [merge_map_map, mergeMapMap_replace h]

example : fhasBool [("$replace", .bool true), ("a", .int 1)] "$replace" true = true := by decide

/-! ## 6. maps merge key by key -/

theorem C01_map_by_key {d s : Fields} {r : Val} (hd : Fields.SortedKeys d)
    (hs : Fields.SortedKeys s) (hrep : fhasBool s "$replace" true = false)
    (h : merge (.map d) (.map s) = .ok r) :
    ∃ rm, r = .map rm ∧ Fields.SortedKeys rm ∧ ∀ k,
      match fget s k with
      | none => fget rm k = fget d k
      | some v =>
        if v.toStr = "$delete" then (fget d k ≠ none ∧ fget rm k = none)
        else match fget d k with
          | none => fget rm k = some v
          | some e => ∃ r', merge e v = .ok r' ∧ fget rm k = some r' := by
  rw [merge_map_map, mergeMapMap_noreplace hrep] at h
  cases hmf : mergeFields d s with
  | error e => rw [hmf] at h; cases h
  | ok rm =>
    rw [hmf] at h; cases h
    exact ⟨rm, rfl, mergeFields_sorted hd hmf, mergeFields_spec hs hmf⟩

example : Fields.SortedKeys [("a", .int 1), ("b", .int 2)] ∧
    Fields.SortedKeys [("b", .str "$delete"), ("c", .int 3)] ∧
    fhasBool [("b", .str "$delete"), ("c", .int 3)] "$replace" true = false ∧
    merge (.map [("a", .int 1), ("b", .int 2)]) (.map [("b", .str "$delete"), ("c", .int 3)])
      = .ok (.map [("a", .int 1), ("c", .int 3)]) := by
  refine ⟨by decide, by decide, by decide, ?_⟩
  simp [merge, mergeMapMap, mergeFields, fhasBool, fget, fset, fdel, fhas, Val.toStr]
  rfl

theorem C01_map_reject_iff {d s : Fields} (hs : Fields.SortedKeys s)
    (hrep : fhasBool s "$replace" true = false) :
    (∃ err, merge (.map d) (.map s) = .error err) ↔
      ∃ k v, fget s k = some v ∧
        ((v.toStr = "$delete" ∧ fget d k = none) ∨
         (v.toStr ≠ "$delete" ∧ ∃ e, fget d k = some e ∧ ∃ err, merge e v = .error err)) := by
  rw [merge_map_map, mergeMapMap_noreplace hrep]
  have := mergeFields_error_iff (d := d) hs
  unfold badEntry at this
  rw [← this]
  cases mergeFields d s with
  | error e => simp [Except.map]
  | ok rm => simp [Except.map]

example : Fields.SortedKeys [("b", .str "$delete"), ("c", .int 3)] ∧
    fhasBool [("b", .str "$delete"), ("c", .int 3)] "$replace" true = false := by decide

/-! ## 7. lists -/

/-- plain entries are appended (after the parent's `$required` markers are dropped) -/
theorem C01_list_concat (d s : List Val) (h : s.all plainEntry = true) :
    merge (.list d) (.list s) =
      .ok (.list (d.filter (fun x => !(x == Val.str "$required")) ++ s)) := by
  rw [merge_list_list,
    mergeListList_no_replace d (all_plain_any_replace h) (all_plain_no_marker h)]
  have := mergeEntries_plain_append (dropRequired d) [] h
  rw [List.append_nil] at this
  rw [this, mergeEntries_nil]
  rfl

example : [Val.int 1, .str "x", .map [("a", .int 2)], .list [.str "$replace"]].all plainEntry
    = true := by decide

/-- a `"$replace"` string entry: the child list (minus the marker) replaces the parent list -/
theorem C01_list_replace_string (d s : List Val) (h : Val.str "$replace" ∈ s) :
    merge (.list d) (.list s) =
      .ok (.list (s.filter (fun x => !(x == Val.str "$replace")))) := by
  rw [merge_list_list]
  apply mergeListList_replace_string
  rw [List.any_eq_true]
  exact ⟨_, h, by simp⟩

example : Val.str "$replace" ∈ [Val.int 1, .str "$replace", .int 2] := by decide

/-- a `{$replace: true}` entry: the child list (minus the marker) replaces the parent list -/
theorem C01_list_replace_marker (d pre post : List Val) (hpre : pre.all plainEntry = true)
    (hpost : post.all plainEntry = true) :
    merge (.list d) (.list (pre ++ [Val.map [("$replace", .bool true)]] ++ post)) =
      .ok (.list (pre ++ post)) := by
  have hmk : fhasBool [("$replace", Val.bool true)] "$replace" true = true := by decide
  have hany : (pre ++ [Val.map [("$replace", .bool true)]] ++ post).any
      (fun x => x == Val.str "$replace") = false := by
    rw [List.any_append, List.any_append, all_plain_any_replace hpre, all_plain_any_replace hpost]
    rfl
  have hhas : hasListMapBool (pre ++ [Val.map [("$replace", .bool true)]] ++ post)
      "$replace" true = true := by
    rw [hasListMapBool_eq, List.any_append, List.any_append]
    simp [isMarker, hmk]
  have hfold : List.foldlM (popStep "$replace" true) []
      (pre ++ [Val.map [("$replace", .bool true)]] ++ post) = .ok (pre ++ post) := by
    rw [foldlM_popStep_append, foldlM_popStep_append,
      foldlM_popStep_plain pre [] (fun x hx =>
        plainEntry_not_marker (List.all_eq_true.1 hpre x hx))]
    simp only [List.nil_append]
    rw [foldlM_cons, popStep_marker_ok pre hmk (by decide)]
    simp only [foldlM_nil]
    rw [foldlM_popStep_plain post pre (fun x hx =>
        plainEntry_not_marker (List.all_eq_true.1 hpost x hx))]
  rw [merge_list_list, mergeListList_no_string d hany, popListMapBool_eq, hhas, hfold]
  rfl

example : [Val.int 1].all plainEntry = true ∧ [Val.str "x", .map [("k", .null)]].all plainEntry
    = true := by decide

/-- a `{$delete: pat}` entry removes every parent entry matching `pat`; none is an error -/
theorem C01_list_delete (d : List Val) (pat : Val) :
    merge (.list d) (.list [Val.map [("$delete", pat)]]) =
      if (d.filter (fun x => !(x == Val.str "$required"))).any (fun v => matchV v pat) then
        .ok (.list ((d.filter (fun x => !(x == Val.str "$required"))).filter
              (fun v => !matchV v pat)))
      else .error .uselessOverride := by
  have hany : [Val.map [("$delete", pat)]].any (fun x => x == Val.str "$replace") = false := rfl
  have hhas : hasListMapBool [Val.map [("$delete", pat)]] "$replace" true = false := by
    simp [hasListMapBool, fhasBool, fget]
  have h1 : fget [("$delete", pat)] "$delete" = some pat := by simp [fget]
  have h2 : (fdel [("$delete", pat)] "$delete").length = 0 := by simp [fdel]
  rw [merge_list_list, mergeListList_no_replace d hany hhas,
    mergeEntries_delete (dropRequired d) [] h1 h2]
  unfold dropRequired
  generalize d.filter (fun x => !(x == Val.str "$required")) = d'
  cases d'.any (fun v => matchV v pat) with
  | true => simp only [if_true, mergeEntries_nil]
  | false => rfl

/-- a `{$match: m, $value: val}` entry merges `val` into every parent entry matching `m` -/
theorem C01_list_match_value (d : List Val) (m val : Val) :
    merge (.list d) (.list [Val.map [("$match", m), ("$value", val)]]) =
      if (d.filter (fun x => !(x == Val.str "$required"))).any (fun e => matchV e m) then
        Except.map Val.list
          ((d.filter (fun x => !(x == Val.str "$required"))).mapM
            (fun e => if matchV e m then merge e val else pure e))
      else .error .noMatchFound := by
  have hany : [Val.map [("$match", m), ("$value", val)]].any
      (fun x => x == Val.str "$replace") = false := rfl
  have hhas : hasListMapBool [Val.map [("$match", m), ("$value", val)]] "$replace" true
      = false := by simp [hasListMapBool, fhasBool, fget]
  have h1 : fget [("$match", m), ("$value", val)] "$delete" = none := by simp [fget]
  have h2 : fget [("$match", m), ("$value", val)] "$match" = some m := by simp [fget]
  have h3 : fget (fdel [("$match", m), ("$value", val)] "$match") "$value" = some val := by
    simp [fget, fdel]
  have h4 : (fdel (fdel [("$match", m), ("$value", val)] "$match") "$value").length = 0 := by
    simp [fdel]
  rw [merge_list_list, mergeListList_no_replace d hany hhas,
    mergeEntries_match_value (dropRequired d) [] h1 h2 h3 h4]
  unfold dropRequired matchStep
  generalize d.filter (fun x => !(x == Val.str "$required")) = d'
  cases hm : d'.any (fun e => matchV e m) with
  | false =>
    have hid : List.mapM (fun e => if matchV e m = true then merge e val else pure e) d'
        = .ok d' := by
      apply mapM_id_of_forall
      intro x hx
      have : matchV x m = false := by
        have := List.any_eq_false.1 hm x hx
        simpa using this
      simp [this, R_pure]
    rw [hid]; rfl
  | true =>
    simp only [if_true]
    cases List.mapM (fun e => if matchV e m = true then merge e val else pure e) d' with
    | error e => rfl
    | ok d'' => simp only [mergeEntries_nil]; rfl

example : Fields.SortedKeys [("$match", Val.int 1), ("$value", .int 2)] := by decide

/-- a `$delete` entry carrying another key is rejected with `extraKeys` -/
theorem C01_list_extra_keys_delete (d pre post : List Val) (kvs : Fields) (pat : Val)
    (hpre : pre.all plainEntry = true)
    (hpost1 : Val.str "$replace" ∉ post) (hpost2 : hasListMapBool post "$replace" true = false)
    (hdel : fget kvs "$delete" = some pat) (hextra : (fdel kvs "$delete").length > 0) :
    merge (.list d) (.list (pre ++ Val.map kvs :: post)) = .error .extraKeys := by
  apply list_entry_extra d pre post kvs hpre hpost1 hpost2
  · intro d'; exact mergeEntries_delete_extra d' post hdel hextra
  · intro _
    have : fget (fdel kvs "$replace") "$delete" = some pat := by
      rw [fget_fdel_ne _ _ _ (by decide)]; exact hdel
    exact length_pos_of_fget this

example : [Val.int 1].all plainEntry = true ∧ Val.str "$replace" ∉ [Val.int 2] ∧
    hasListMapBool [Val.int 2] "$replace" true = false ∧
    fget [("$delete", Val.int 1), ("x", .int 2)] "$delete" = some (.int 1) ∧
    (fdel [("$delete", Val.int 1), ("x", .int 2)] "$delete").length > 0 := by decide

/-- a `$match` + `$value` entry carrying a third key is rejected with `extraKeys` -/
theorem C01_list_extra_keys_match (d pre post : List Val) (kvs : Fields) (m val : Val)
    (hpre : pre.all plainEntry = true)
    (hpost1 : Val.str "$replace" ∉ post) (hpost2 : hasListMapBool post "$replace" true = false)
    (hdel : fget kvs "$delete" = none)
    (hm : fget kvs "$match" = some m) (hv : fget kvs "$value" = some val)
    (hextra : (fdel (fdel kvs "$match") "$value").length > 0) :
    merge (.list d) (.list (pre ++ Val.map kvs :: post)) = .error .extraKeys := by
  apply list_entry_extra d pre post kvs hpre hpost1 hpost2
  · intro d'
    have hv' : fget (fdel kvs "$match") "$value" = some val := by
      rw [fget_fdel_ne _ _ _ (by decide)]; exact hv
    exact mergeEntries_match_value_extra d' post hdel hm hv' hextra
  · intro _
    have : fget (fdel kvs "$replace") "$match" = some m := by
      rw [fget_fdel_ne _ _ _ (by decide)]; exact hm
    exact length_pos_of_fget this

example : ([] : List Val).all plainEntry = true ∧ Val.str "$replace" ∉ ([] : List Val) ∧
    hasListMapBool [] "$replace" true = false ∧
    fget [("$match", Val.int 1), ("$value", .int 2), ("x", .int 3)] "$delete" = none ∧
    fget [("$match", Val.int 1), ("$value", .int 2), ("x", .int 3)] "$match" = some (.int 1) ∧
    fget [("$match", Val.int 1), ("$value", .int 2), ("x", .int 3)] "$value" = some (.int 2) ∧
    (fdel (fdel [("$match", Val.int 1), ("$value", .int 2), ("x", .int 3)] "$match")
      "$value").length > 0 := by decide

/-- a `{$replace: true, …extra}` entry anywhere in the patch is rejected with `extraKeys` -/
theorem C01_list_extra_keys_replace (d s : List Val) (kvs : Fields)
    (hstr : Val.str "$replace" ∉ s) (hmem : Val.map kvs ∈ s)
    (hrep : fhasBool kvs "$replace" true = true) (hextra : (fdel kvs "$replace").length > 0) :
    merge (.list d) (.list s) = .error .extraKeys := by
  have hany : s.any (fun x => x == Val.str "$replace") = false := by
    rw [List.any_eq_false]
    intro x hx hb
    exact hstr ((eq_of_beq hb) ▸ hx)
  have hhas : hasListMapBool s "$replace" true = true := by
    rw [hasListMapBool_eq, List.any_eq_true]
    exact ⟨_, hmem, hrep⟩
  rw [merge_list_list, mergeListList_no_string d hany, popListMapBool_eq, hhas,
    foldlM_popStep_extra [] hmem hrep hextra]
  rfl

example : Val.str "$replace" ∉ [Val.int 1, .map [("$replace", .bool true), ("a", .int 1)]] ∧
    Val.map [("$replace", .bool true), ("a", .int 1)] ∈
      [Val.int 1, .map [("$replace", .bool true), ("a", .int 1)]] ∧
    fhasBool [("$replace", .bool true), ("a", .int 1)] "$replace" true = true ∧
    (fdel [("$replace", Val.bool true), ("a", .int 1)] "$replace").length > 0 := by decide

/-! ## 8. well-formedness is preserved -/

theorem C01_wf {d s r : Val} (hd : Val.WF d) (hs : Val.WF s) (h : merge d s = .ok r) :
    Val.WF r :=
  merge_wf hd hs h

example : Val.WF (.map [("a", .int 1), ("b", .map [("x", .int 2)])]) ∧
    Val.WF (.map [("b", .map [("x", .int 5)]), ("c", .int 3)]) ∧
    merge (.map [("a", .int 1), ("b", .map [("x", .int 2)])])
        (.map [("b", .map [("x", .int 5)]), ("c", .int 3)])
      = .ok (.map [("a", .int 1), ("b", .map [("x", .int 5)]), ("c", .int 3)]) := by
  refine ⟨by decide, by decide, ?_⟩
  simp [merge, mergeMapMap, mergeFields, fhasBool, fget, fset, Val.toStr]
  rfl

/-! ## 9. a key that no layer mentions keeps the base value -/

theorem C01_chain_frame (b : Fields) (layers : List Val) (k : String) (res : Val)
    (hl : ∀ x ∈ layers, ∃ l, x = Val.map l ∧ fhasBool l "$replace" true = false ∧
      fget l k = none)
    (h : mergeChain (.map b :: layers) = .ok res) :
    ∃ r, res = .map r ∧ fget r k = fget b k := by
  change List.foldlM merge (Val.map b) layers = .ok res at h
  induction layers generalizing b with
  | nil => rw [foldlM_nil] at h; cases h; exact ⟨b, rfl, rfl⟩
  | cons x tl ih =>
    obtain ⟨l, rfl, hrep, hk⟩ := hl x List.mem_cons_self
    rw [foldlM_cons, merge_map_map, mergeMapMap_noreplace hrep] at h
    cases hmf : mergeFields b l with
    | error e => rw [hmf] at h; cases h
    | ok rm =>
      rw [hmf] at h
      obtain ⟨r, hr, hg⟩ := ih rm (fun y hy => hl y (List.mem_cons_of_mem _ hy)) h
      exact ⟨r, hr, by rw [hg, mergeFields_frame hk hmf]⟩

example : (∀ x ∈ [Val.map [("b", .int 2)], Val.map [("b", .int 3), ("c", .int 4)]],
      ∃ l, x = Val.map l ∧ fhasBool l "$replace" true = false ∧ fget l "a" = none) ∧
    mergeChain [.map [("a", .int 1)], .map [("b", .int 2)], .map [("b", .int 3), ("c", .int 4)]]
      = .ok (.map [("a", .int 1), ("b", .int 3), ("c", .int 4)]) := by
  constructor
  · intro x hx
    simp only [List.mem_cons, List.not_mem_nil, or_false] at hx
    rcases hx with rfl | rfl
    · exact ⟨_, rfl, by decide, by decide⟩
    · exact ⟨_, rfl, by decide, by decide⟩
  · simp [mergeChain, List.foldlM, merge, mergeMapMap, mergeFields, fhasBool, fget, fset,
      Val.toStr]
    rfl

/-! ## 10. the recursive accept / reject boundary

`Rejects dst src` is written from the property text ("a child is rejected … exactly when an
override is useless or inapplicable"), not from the code, and `C01_reject_iff` shows that it is
*exactly* the set of inputs on which `merge` returns an error.

Boundary facts that the model implements and that the predicate documents:
* a `null` parent accepts everything, a `null` child is accepted by everything (it changes
  nothing over a map or a list, and it *replaces* a scalar);
* a scalar parent is replaced by any different child of any kind (scalar, null, list, map);
* an **empty** map parent accepts a scalar or list child (`overMap` needs `d ≠ []`);
* a list parent rejects every map child, **including the empty map** (`overList`);
* a map patch carrying `$replace: true` replaces the parent map and is never rejected, whatever
  is below it (all map constructors need `fhasBool s "$replace" true = false`); `$replace` with
  any other value (`false`, a string, …) is an ordinary key;
* a list patch containing the string `"$replace"` replaces the parent list and is never rejected,
  not even if it also contains a malformed `{$replace: true, extra: …}` entry; without that string,
  a `{$replace: true}` entry replaces the parent list, and *any* `$replace: true` entry with
  extra keys is rejected (`listReplaceExtraKeys`) before any other entry is looked at;
* otherwise the patch entries are applied left to right to the parent list minus its
  `"$required"` marker strings (`dropRequired`); `RejectsEntries acc patch` describes that walk,
  `acc` being the list built so far.  `$delete` has priority over `$match`; a `$match` entry
  without `$value` merges *itself minus the `$match` key* into the matched elements (so extra
  keys are legal there), see `matchPatch`.
Every error class of the model's `merge` (`uselessOverride`, `invalidType`, `extraKeys`,
`noMatchFound`) is covered by the property text, so there is no `otherInvalid…` constructor. -/

mutual
/-- `Rejects dst src`: the child `src` cannot be layered on the parent `dst`. -/
inductive Rejects : Val → Val → Prop
  /-- the same scalar value -/
  | sameScalar {v : Val} : v.isScalar = true → Rejects v v
  /-- a scalar or a list over a non-empty map -/
  | overMap {d : Fields} {s : Val} :
      d ≠ [] → (s.isScalar = true ∨ s.isList = true) → Rejects (.map d) s
  /-- a scalar or a map (even an empty one) over a list -/
  | overList {d : List Val} {s : Val} :
      (s.isScalar = true ∨ s.isMap = true) → Rejects (.list d) s
  /-- `k: $delete` for a key the parent does not have -/
  | mapDeleteAbsent {d s : Fields} {k : String} :
      fhasBool s "$replace" true = false →
      fget s k = some (.str "$delete") → fget d k = none → Rejects (.map d) (.map s)
  /-- a key present on both sides whose child value is rejected by the parent value -/
  | mapKey {d s : Fields} {k : String} {e v : Val} :
      fhasBool s "$replace" true = false →
      fget s k = some v → v ≠ .str "$delete" → fget d k = some e → Rejects e v →
      Rejects (.map d) (.map s)
  /-- a `{$replace: true, …}` list entry carrying extra keys -/
  | listReplaceExtraKeys {d s : List Val} {m : Fields} :
      Val.str "$replace" ∉ s → Val.map m ∈ s → fhasBool m "$replace" true = true →
      fdel m "$replace" ≠ [] → Rejects (.list d) (.list s)
  /-- no replace directive: some entry of the patch is rejected when its turn comes -/
  | listWalk {d s : List Val} :
      Val.str "$replace" ∉ s → (∀ m, Val.map m ∈ s → fhasBool m "$replace" true = false) →
      RejectsEntries (dropRequired d) s → Rejects (.list d) (.list s)

/-- `RejectsEntries acc patch`: applying the entries of `patch` left to right to the list `acc`
    built so far hits a rejected entry. -/
inductive RejectsEntries : List Val → List Val → Prop
  /-- a plain entry (no `$delete`, no `$match`) is appended; the rejection is further right -/
  | skip {d rest : List Val} {v : Val} :
      (∀ kvs, v = .map kvs → fget kvs "$delete" = none ∧ fget kvs "$match" = none) →
      RejectsEntries (d ++ [v]) rest → RejectsEntries d (v :: rest)
  /-- a `$delete` entry carrying extra keys -/
  | deleteExtraKeys {d rest : List Val} {kvs : Fields} {pat : Val} :
      fget kvs "$delete" = some pat → fdel kvs "$delete" ≠ [] →
      RejectsEntries d (.map kvs :: rest)
  /-- a `$delete` entry whose pattern matches nothing (at the point where it is applied) -/
  | deleteNoMatch {d rest : List Val} {kvs : Fields} {pat : Val} :
      fget kvs "$delete" = some pat → (∀ e ∈ d, matchV e pat = false) →
      RejectsEntries d (.map kvs :: rest)
  /-- a `$delete` entry removes the matching elements; the rejection is further right -/
  | deleteNext {d rest : List Val} {kvs : Fields} {pat : Val} :
      fget kvs "$delete" = some pat →
      RejectsEntries (d.filter (fun e => !matchV e pat)) rest →
      RejectsEntries d (.map kvs :: rest)
  /-- a `$match` + `$value` entry carrying extra keys -/
  | matchExtraKeys {d rest : List Val} {kvs : Fields} {m v2 : Val} :
      fget kvs "$delete" = none → fget kvs "$match" = some m → fget kvs "$value" = some v2 →
      fdel (fdel kvs "$match") "$value" ≠ [] → RejectsEntries d (.map kvs :: rest)
  /-- a `$match` entry that matches nothing (at the point where it is applied) -/
  | matchNone {d rest : List Val} {kvs : Fields} {m : Val} :
      fget kvs "$delete" = none → fget kvs "$match" = some m →
      (∀ e ∈ d, matchV e m = false) → RejectsEntries d (.map kvs :: rest)
  /-- recursion through a matched element: it rejects the patch of the `$match` entry -/
  | matchRec {d rest : List Val} {kvs : Fields} {m e : Val} :
      fget kvs "$delete" = none → fget kvs "$match" = some m →
      e ∈ d → matchV e m = true → Rejects e (matchPatch kvs) →
      RejectsEntries d (.map kvs :: rest)
  /-- a `$match` entry updates the matched elements (`d'` is `d` with every matched element
      replaced by its merge with the patch); the rejection is further right -/
  | matchNext {d d' rest : List Val} {kvs : Fields} {m : Val} :
      fget kvs "$delete" = none → fget kvs "$match" = some m →
      Pointwise (matchRel m (matchPatch kvs)) d d' → RejectsEntries d' rest →
      RejectsEntries d (.map kvs :: rest)
end

/-- the list walk, given the boundary theorem for all patches smaller than `N` -/
theorem C01_rejectsEntries_iff {N : Nat}
    (IH : ∀ s : Val, sizeOf s < N → Val.WF s → ∀ d : Val,
      ((∃ e, merge d s = .error e) ↔ Rejects d s)) :
    ∀ s : List Val, (∀ x ∈ s, sizeOf x < N) → (∀ x ∈ s, Val.WF x) → ∀ d : List Val,
      ((∃ e, mergeEntries d s = .error e) ↔ RejectsEntries d s) := by
  intro s
  induction s with
  | nil =>
    intro _ _ d
    rw [mergeEntries_nil]
    constructor
    · rintro ⟨e, h⟩; cases h
    · intro h; cases h
  | cons v rest ih =>
    intro hsz hwf d
    have ihr := ih (fun x hx => hsz x (List.mem_cons_of_mem _ hx))
      (fun x hx => hwf x (List.mem_cons_of_mem _ hx))
    have skipCase : ∀ v' : Val,
        (∀ kvs, v' = .map kvs → fget kvs "$delete" = none ∧ fget kvs "$match" = none) →
        ((∃ e, mergeEntries d (v' :: rest) = .error e) ↔ RejectsEntries d (v' :: rest)) := by
      intro v' hp
      rw [mergeEntries_skip d rest hp, ihr]
      constructor
      · exact .skip hp
      · intro h
        cases h with
        | skip _ h => exact h
        | deleteExtraKeys h1 _ => have := (hp _ rfl).1; rw [h1] at this; cases this
        | deleteNoMatch h1 _ => have := (hp _ rfl).1; rw [h1] at this; cases this
        | deleteNext h1 _ => have := (hp _ rfl).1; rw [h1] at this; cases this
        | matchExtraKeys _ h2 _ _ => have := (hp _ rfl).2; rw [h2] at this; cases this
        | matchNone _ h2 _ => have := (hp _ rfl).2; rw [h2] at this; cases this
        | matchRec _ h2 _ _ _ => have := (hp _ rfl).2; rw [h2] at this; cases this
        | matchNext _ h2 _ _ => have := (hp _ rfl).2; rw [h2] at this; cases this
    cases v with
    | map kvs =>
      cases hdel : fget kvs "$delete" with
      | some pat =>
        rw [mergeEntries_delete_error_iff d rest hdel]
        constructor
        · rintro (h | h | h)
          · exact .deleteExtraKeys hdel h
          · exact .deleteNoMatch hdel h
          · exact .deleteNext hdel ((ihr _).1 h)
        · intro h
          cases h with
          | skip hp _ => have := (hp _ rfl).1; rw [hdel] at this; cases this
          | deleteExtraKeys _ h2 => exact Or.inl h2
          | deleteNoMatch h1 h2 => rw [hdel] at h1; cases h1; exact Or.inr (Or.inl h2)
          | deleteNext h1 h2 =>
            rw [hdel] at h1; cases h1; exact Or.inr (Or.inr ((ihr _).2 h2))
          | matchExtraKeys h1 _ _ _ => rw [hdel] at h1; cases h1
          | matchNone h1 _ _ => rw [hdel] at h1; cases h1
          | matchRec h1 _ _ _ _ => rw [hdel] at h1; cases h1
          | matchNext h1 _ _ _ => rw [hdel] at h1; cases h1
      | none =>
        cases hm : fget kvs "$match" with
        | none => exact skipCase _ (fun kvs' h => by cases h; exact ⟨hdel, hm⟩)
        | some m =>
          have hkw : Val.WF (.map kvs) := hwf _ List.mem_cons_self
          have hksz : sizeOf (matchPatch kvs) < N :=
            Nat.lt_of_le_of_lt (matchPatch_sizeOf kvs) (hsz _ List.mem_cons_self)
          have IHp := IH (matchPatch kvs) hksz (matchPatch_wf hkw)
          rw [mergeEntries_match_error_iff d rest hdel hm]
          constructor
          · rintro (⟨v2, h1, h2⟩ | h | ⟨e, he, hme, herr⟩ | ⟨d', hpw, h⟩)
            · exact .matchExtraKeys hdel hm h1 h2
            · exact .matchNone hdel hm h
            · exact .matchRec hdel hm he hme ((IHp e).1 herr)
            · exact .matchNext hdel hm hpw ((ihr d').1 h)
          · intro h
            cases h with
            | skip hp _ => have := (hp _ rfl).2; rw [hm] at this; cases this
            | deleteExtraKeys h1 _ => rw [hdel] at h1; cases h1
            | deleteNoMatch h1 _ => rw [hdel] at h1; cases h1
            | deleteNext h1 _ => rw [hdel] at h1; cases h1
            | matchExtraKeys _ _ h3 h4 => exact Or.inl ⟨_, h3, h4⟩
            | matchNone _ h2 h3 => rw [hm] at h2; cases h2; exact Or.inr (Or.inl h3)
            | matchRec _ h2 he hme hr =>
              rw [hm] at h2; cases h2
              exact Or.inr (Or.inr (Or.inl ⟨_, he, hme, (IHp _).2 hr⟩))
            | matchNext _ h2 hpw hr =>
              rw [hm] at h2; cases h2
              exact Or.inr (Or.inr (Or.inr ⟨_, hpw, (ihr _).2 hr⟩))
    | _ => exact skipCase _ (fun kvs' h => by cases h)

/-- induction on the size of the patch -/
theorem C01_reject_iff_sized : ∀ (N : Nat) (s : Val), sizeOf s < N → Val.WF s → ∀ d : Val,
    ((∃ e, merge d s = .error e) ↔ Rejects d s) := by
  intro N
  induction N with
  | zero => intro s h; exact absurd h (Nat.not_lt_zero _)
  | succ N IH =>
    intro s hsz hs d
    cases d with
    | null =>
      rw [merge_null]
      constructor
      · rintro ⟨e, h⟩; cases h
      · intro h
        cases h with
        | sameScalar h => simp [Val.isScalar] at h
    | map dm =>
      cases s with
      | map sm =>
        rw [merge_map_map, mergeMapMap_error_iff (wf_map_iff.1 hs).1]
        have hsub : ∀ {k v}, fget sm k = some v → sizeOf v < N ∧ Val.WF v := by
          intro k v hk
          have := sizeOf_lt_map_of_fget hk
          exact ⟨by omega, wf_of_fget hs hk⟩
        constructor
        · rintro ⟨hrep, k, v, hk, h⟩
          rcases h with ⟨rfl, hd⟩ | ⟨hne, e, he, herr⟩
          · exact .mapDeleteAbsent hrep hk hd
          · exact .mapKey hrep hk hne he ((IH v (hsub hk).1 (hsub hk).2 e).1 herr)
        · intro h
          cases h with
          | sameScalar h => simp [Val.isScalar] at h
          | overMap _ h => simp [Val.isScalar, Val.isList] at h
          | mapDeleteAbsent hrep hk hd => exact ⟨hrep, _, _, hk, Or.inl ⟨rfl, hd⟩⟩
          | mapKey hrep hk hne he hr =>
            exact ⟨hrep, _, _, hk, Or.inr ⟨hne, _, he, (IH _ (hsub hk).1 (hsub hk).2 _).2 hr⟩⟩
      | null =>
        rw [merge_map_null]
        constructor
        · rintro ⟨e, h⟩; cases h
        · intro h
          cases h with
          | overMap _ h => simp [Val.isScalar, Val.isList] at h
      | _ =>
        rw [merge_map_other _ _ rfl rfl]
        cases dm with
        | nil =>
          constructor
          · rintro ⟨e, h⟩; cases h
          · intro h
            cases h with
            | overMap h _ => exact absurd rfl h
        | cons p tl =>
          exact ⟨fun _ => .overMap (by simp) (by simp [Val.isScalar, Val.isList]),
            fun _ => ⟨_, rfl⟩⟩
    | list dl =>
      cases s with
      | list sl =>
        rw [merge_list_list, mergeListList_error_iff]
        have hentries := C01_rejectsEntries_iff (N := N) IH sl
          (fun x hx => by have := sizeOf_lt_list_of_mem hx; omega) (wf_list_iff.1 hs)
        constructor
        · rintro ⟨hnot, ⟨m, hm, h1, h2⟩ | ⟨hno, herr⟩⟩
          · exact .listReplaceExtraKeys hnot hm h1 h2
          · exact .listWalk hnot hno ((hentries _).1 herr)
        · intro h
          cases h with
          | sameScalar h => simp [Val.isScalar] at h
          | overList h => simp [Val.isScalar, Val.isMap] at h
          | listReplaceExtraKeys hnot hm h1 h2 => exact ⟨hnot, Or.inl ⟨_, hm, h1, h2⟩⟩
          | listWalk hnot hno hr => exact ⟨hnot, Or.inr ⟨hno, (hentries _).2 hr⟩⟩
      | null =>
        rw [merge_list_null]
        constructor
        · rintro ⟨e, h⟩; cases h
        · intro h
          cases h with
          | overList h => simp [Val.isScalar, Val.isMap] at h
      | _ =>
        rw [merge_list_other _ _ rfl rfl]
        exact ⟨fun _ => .overList (by simp [Val.isScalar, Val.isMap]), fun _ => ⟨_, rfl⟩⟩
    | _ =>
      rw [C01_scalar_reject_iff _ s rfl]
      constructor
      · rintro rfl; exact .sameScalar rfl
      · intro h; cases h; rfl

/-- **the accept / reject boundary**: `merge` returns an error exactly on `Rejects`.
    Only the well-formedness of the child is used (`C01_reject_iff_of_src_wf`); it is needed:
    see `C01_reject_iff_needs_src_wf`. -/
theorem C01_reject_iff_of_src_wf {d s : Val} (hs : Val.WF s) :
    (∃ e, merge d s = .error e) ↔ Rejects d s :=
  C01_reject_iff_sized (sizeOf s + 1) s (Nat.lt_succ_self _) hs d

theorem C01_reject_iff {d s : Val} (_hd : Val.WF d) (hs : Val.WF s) :
    (∃ e, merge d s = .error e) ↔ Rejects d s :=
  C01_reject_iff_of_src_wf hs

/-- the same boundary for the list walk on its own -/
theorem C01_reject_entries_iff {d s : List Val} (hs : Val.WF (.list s)) :
    (∃ e, mergeEntries d s = .error e) ↔ RejectsEntries d s :=
  C01_rejectsEntries_iff (N := sizeOf (Val.list s))
    (fun s' h hw d' => C01_reject_iff_sized _ s' h hw d') s
    (fun _ hx => sizeOf_lt_list_of_mem hx) (wf_list_iff.1 hs) d

example : Val.WF (.map [("a", .int 1), ("b", .list [.int 1])]) ∧
    Val.WF (.map [("b", .list [.map [("$delete", .int 2)]])]) := by decide

/-- a child that is not rejected is accepted: `merge` is total off `Rejects` -/
theorem C01_accept_total {d s : Val} (hd : Val.WF d) (hs : Val.WF s) (h : ¬ Rejects d s) :
    ∃ r, merge d s = .ok r := by
  cases hm : merge d s with
  | ok r => exact ⟨r, rfl⟩
  | error e => exact absurd ((C01_reject_iff hd hs).1 ⟨e, hm⟩) h

/-- … and the result is well-formed -/
theorem C01_accept_total_wf {d s : Val} (hd : Val.WF d) (hs : Val.WF s) (h : ¬ Rejects d s) :
    ∃ r, merge d s = .ok r ∧ Val.WF r := by
  obtain ⟨r, hr⟩ := C01_accept_total hd hs h
  exact ⟨r, hr, C01_wf hd hs hr⟩

/-- non-vacuity of `C01_accept_total`: a concrete accepted pair (`¬ Rejects` is established from
    the successful merge through `C01_reject_iff`) -/
example : Val.WF (.map [("a", .int 1)]) ∧ Val.WF (.map [("a", .int 2)]) ∧
    ¬ Rejects (.map [("a", .int 1)]) (.map [("a", .int 2)]) := by
  refine ⟨by decide, by decide, fun h => ?_⟩
  obtain ⟨e, he⟩ := (C01_reject_iff_of_src_wf (by decide)).2 h
  simp [merge, mergeMapMap, mergeFields, fhasBool, fget, fset, Val.toStr] at he
  cases he

/-- `$replace: true` in a map patch: nothing below it is ever rejected -/
theorem C01_replace_true_never_rejects (d s : Fields) (h : fhasBool s "$replace" true = true) :
    ¬ Rejects (.map d) (.map s) := by
  intro hr
  cases hr with
  | sameScalar h' => simp [Val.isScalar] at h'
  | overMap _ h' => simp [Val.isScalar, Val.isList] at h'
  | mapDeleteAbsent h' _ _ => rw [h] at h'; cases h'
  | mapKey h' _ _ _ _ => rw [h] at h'; cases h'

example : fhasBool [("$replace", .bool true), ("a", .int 1)] "$replace" true = true := by decide

/-- a `"$replace"` string in a list patch: nothing in it is ever rejected -/
theorem C01_replace_string_never_rejects (d s : List Val) (h : Val.str "$replace" ∈ s) :
    ¬ Rejects (.list d) (.list s) := by
  intro hr
  cases hr with
  | sameScalar h' => simp [Val.isScalar] at h'
  | overList h' => simp [Val.isScalar, Val.isMap] at h'
  | listReplaceExtraKeys h' _ _ _ => exact h' h
  | listWalk h' _ _ => exact h' h

example : Val.str "$replace" ∈ [Val.map [("$delete", .int 9)], .str "$replace"] := by decide

/-- the hypothesis `WF s` of `C01_reject_iff` cannot be dropped: a patch that repeats a key
    (impossible for a decoded document) deletes it twice -/
theorem C01_reject_iff_needs_src_wf :
    (∃ e, merge (.map [("a", .int 1)]) (.map [("a", .str "$delete"), ("a", .str "$delete")])
      = .error e) ∧
    ¬ Rejects (.map [("a", .int 1)]) (.map [("a", .str "$delete"), ("a", .str "$delete")]) := by
  constructor
  · refine ⟨.uselessOverride, ?_⟩
    simp [merge, mergeMapMap, mergeFields, fhasBool, fget, fdel, fhas, Val.toStr]
    rfl
  · intro h
    cases h with
    | overMap _ h' => simp [Val.isScalar, Val.isList] at h'
    | @mapDeleteAbsent _ _ k _ h1 h2 =>
      by_cases hk : "a" = k
      · subst hk; simp [fget] at h2
      · simp [fget, hk] at h1
    | @mapKey _ _ k e v _ h1 h2 h3 _ =>
      by_cases hk : "a" = k
      · subst hk
        simp [fget] at h1
        exact h2 h1.symm
      · simp [fget, hk] at h1

/-! ### non-vacuity: every constructor of `Rejects` / `RejectsEntries` on concrete values,
    together with the error the model returns -/

example : Rejects (.int 3) (.int 3) ∧ merge (.int 3) (.int 3) = .error .uselessOverride :=
  ⟨.sameScalar rfl, by simp [merge]; rfl⟩

example : Rejects (.map [("a", .int 1)]) (.str "x") ∧
    merge (.map [("a", .int 1)]) (.str "x") = .error .invalidType :=
  ⟨.overMap (by simp) (Or.inl rfl), by simp [merge]; rfl⟩

example : Rejects (.map [("a", .int 1)]) (.list []) ∧
    merge (.map [("a", .int 1)]) (.list []) = .error .invalidType :=
  ⟨.overMap (by simp) (Or.inr rfl), by simp [merge]; rfl⟩

/-- even the empty map is rejected over a list -/
example : Rejects (.list [.int 1]) (.map []) ∧
    merge (.list [.int 1]) (.map []) = .error .invalidType :=
  ⟨.overList (Or.inr rfl), by simp [merge]; rfl⟩

example : Rejects (.list []) (.bool true) ∧ merge (.list []) (.bool true) = .error .invalidType :=
  ⟨.overList (Or.inl rfl), by simp [merge]; rfl⟩

example : Rejects (.map [("a", .int 1)]) (.map [("b", .str "$delete")]) ∧
    merge (.map [("a", .int 1)]) (.map [("b", .str "$delete")]) = .error .uselessOverride :=
  ⟨.mapDeleteAbsent (k := "b") (by decide) (by decide) (by decide),
   by simp [merge, mergeMapMap, mergeFields, fhasBool, fget, fhas, Val.toStr]; rfl⟩

/-- recursion through a key: the nested value is the same scalar -/
example : Rejects (.map [("a", .map [("x", .int 1)])]) (.map [("a", .map [("x", .int 1)])]) ∧
    merge (.map [("a", .map [("x", .int 1)])]) (.map [("a", .map [("x", .int 1)])])
      = .error .uselessOverride :=
  ⟨.mapKey (k := "a") (e := .map [("x", .int 1)]) (v := .map [("x", .int 1)])
      (by decide) (by decide) (by decide) (by decide)
      (.mapKey (k := "x") (e := .int 1) (v := .int 1) (by decide) (by decide) (by decide)
        (by decide) (.sameScalar rfl)),
   by simp [merge, mergeMapMap, mergeFields, fhasBool, fget, Val.toStr]; rfl⟩

example : Rejects (.list []) (.list [.map [("$replace", .bool true), ("a", .int 1)]]) ∧
    merge (.list []) (.list [.map [("$replace", .bool true), ("a", .int 1)]])
      = .error .extraKeys :=
  ⟨.listReplaceExtraKeys (m := [("$replace", .bool true), ("a", .int 1)])
      (by decide) (by decide) (by decide) (by decide),
   C01_list_extra_keys_replace _ _ [("$replace", .bool true), ("a", .int 1)]
     (by decide) (by decide) (by decide) (by decide)⟩

/-- `listWalk` + `deleteNoMatch` -/
example : Rejects (.list [.int 1]) (.list [.map [("$delete", .int 2)]]) ∧
    merge (.list [.int 1]) (.list [.map [("$delete", .int 2)]]) = .error .uselessOverride :=
  ⟨.listWalk (by decide) (hasListMapBool_eq_false_iff.1 (by decide))
      (.deleteNoMatch (pat := .int 2) (by decide) (by decide)),
   by rw [C01_list_delete]; rfl⟩

/-- `skip`: the rejected entry comes after a plain one (and `"$required"` markers of the parent
    are dropped first) -/
example : Rejects (.list [.str "$required", .int 1])
      (.list [.int 5, .map [("$delete", .int 7)]]) ∧
    (∃ e, merge (.list [.str "$required", .int 1]) (.list [.int 5, .map [("$delete", .int 7)]])
      = .error e) := by
  have h : Rejects (.list [.str "$required", .int 1])
      (.list [.int 5, .map [("$delete", .int 7)]]) :=
    .listWalk (by decide) (hasListMapBool_eq_false_iff.1 (by decide))
      (.skip (fun kvs h => by cases h)
        (.deleteNoMatch (pat := .int 7) (by decide) (by decide)))
  exact ⟨h, (C01_reject_iff_of_src_wf (by decide)).2 h⟩

/-- `deleteExtraKeys` -/
example : Rejects (.list [.int 1]) (.list [.map [("$delete", .int 1), ("x", .int 2)]]) ∧
    merge (.list [.int 1]) (.list [.map [("$delete", .int 1), ("x", .int 2)]])
      = .error .extraKeys :=
  ⟨.listWalk (by decide) (hasListMapBool_eq_false_iff.1 (by decide))
      (.deleteExtraKeys (pat := .int 1) (by decide) (by decide)),
   C01_list_extra_keys_delete _ [] [] _ (.int 1) (by decide) (by decide) (by decide) (by decide)
     (by decide)⟩

/-- `deleteNext`: the first `$delete` succeeds, the second then matches nothing -/
example : RejectsEntries [.int 1, .int 2]
      [.map [("$delete", .int 1)], .map [("$delete", .int 1)]] ∧
    mergeEntries [.int 1, .int 2] [.map [("$delete", .int 1)], .map [("$delete", .int 1)]]
      = .error .uselessOverride :=
  ⟨.deleteNext (pat := .int 1) (by decide)
      (.deleteNoMatch (pat := .int 1) (by decide) (by decide)),
   by rw [mergeEntries_delete _ _ (del := .int 1) (by decide) (by decide), if_pos (by decide),
        mergeEntries_delete _ _ (del := .int 1) (by decide) (by decide), if_neg (by decide)]⟩

/-- `matchExtraKeys` -/
example : Rejects (.list [.int 1])
      (.list [.map [("$match", .int 1), ("$value", .int 2), ("x", .int 3)]]) ∧
    merge (.list [.int 1]) (.list [.map [("$match", .int 1), ("$value", .int 2), ("x", .int 3)]])
      = .error .extraKeys :=
  ⟨.listWalk (by decide) (hasListMapBool_eq_false_iff.1 (by decide))
      (.matchExtraKeys (m := .int 1) (v2 := .int 2) (by decide) (by decide) (by decide)
        (by decide)),
   C01_list_extra_keys_match _ [] [] _ (.int 1) (.int 2) (by decide) (by decide) (by decide)
     (by decide) (by decide) (by decide) (by decide)⟩

/-- `matchNone` -/
example : Rejects (.list [.int 1]) (.list [.map [("$match", .int 2), ("$value", .int 3)]]) ∧
    merge (.list [.int 1]) (.list [.map [("$match", .int 2), ("$value", .int 3)]])
      = .error .noMatchFound :=
  ⟨.listWalk (by decide) (hasListMapBool_eq_false_iff.1 (by decide))
      (.matchNone (m := .int 2) (by decide) (by decide) (by decide)),
   by rw [C01_list_match_value]; rfl⟩

/-- `matchRec`: the matched element rejects the `$value` (same scalar) -/
example : Rejects (.list [.int 1]) (.list [.map [("$match", .int 1), ("$value", .int 1)]]) ∧
    merge (.list [.int 1]) (.list [.map [("$match", .int 1), ("$value", .int 1)]])
      = .error .uselessOverride :=
  ⟨.listWalk (by decide) (hasListMapBool_eq_false_iff.1 (by decide))
      (.matchRec (m := .int 1) (e := .int 1) (by decide) (by decide) (by decide) (by decide)
        (.sameScalar rfl)),
   by rw [C01_list_match_value]
      simp [matchV, merge, Except.map]
      rfl⟩

/-- `matchRec` without `$value`: the entry minus `$match` is merged into the matched map -/
example : Rejects (.list [.map [("id", .int 1), ("x", .int 5)]])
      (.list [.map [("$match", .map [("id", .int 1)]), ("x", .int 5)]]) := 
  .listWalk (by decide) (hasListMapBool_eq_false_iff.1 (by decide))
    (.matchRec (m := .map [("id", .int 1)]) (e := .map [("id", .int 1), ("x", .int 5)])
      (by decide) (by decide) (by decide) (by decide)
      (.mapKey (k := "x") (e := .int 5) (v := .int 5) (by decide) (by decide) (by decide)
        (by decide) (.sameScalar rfl)))

/-- `matchNext`: the first `$match` rewrites `1` to `2`, so the second one matches nothing -/
example : RejectsEntries [.int 1]
      [.map [("$match", .int 1), ("$value", .int 2)], .map [("$match", .int 1), ("$value", .int 3)]]
    ∧ (∃ e, mergeEntries [.int 1]
      [.map [("$match", .int 1), ("$value", .int 2)], .map [("$match", .int 1), ("$value", .int 3)]]
      = .error e) := by
  have hstep : Pointwise (matchRel (.int 1) (matchPatch [("$match", .int 1), ("$value", .int 2)]))
      [.int 1] [.int 2] := by
    refine .cons ?_ .nil
    simp [matchRel, matchV, matchPatch, fget, merge]
    rfl
  have h : RejectsEntries [.int 1]
      [.map [("$match", .int 1), ("$value", .int 2)],
       .map [("$match", .int 1), ("$value", .int 3)]] :=
    .matchNext (m := .int 1) (by decide) (by decide) hstep
      (.matchNone (m := .int 1) (by decide) (by decide) (by decide))
  refine ⟨h, .noMatchFound, ?_⟩
  rw [mergeEntries_match_value _ _ (m := .int 1) (v2 := .int 2) (by decide) (by decide)
    (by decide) (by decide)]
  simp [matchStep, matchV, merge]
  show mergeEntries [Val.int 2] [Val.map [("$match", Val.int 1), ("$value", Val.int 3)]] = _
  rw [mergeEntries_match_value _ _ (m := .int 1) (v2 := .int 3) (by decide) (by decide)
    (by decide) (by decide)]
  simp [matchStep, matchV]
  rfl

/-! ## 11. layers that touch different keys commute -/

/-- Success values agree in both orders: for key-sorted maps `d`, `s1`, `s2` where the patches
    share no key and neither is a `$replace: true` patch, `s1` then `s2` yields `r` iff `s2`
    then `s1` yields `r`.  (`$delete` values and nested directives are allowed.) -/
theorem C01_merge_assoc_frame_ok {d s1 s2 : Fields} (hd : Fields.SortedKeys d)
    (hs1 : Fields.SortedKeys s1) (hs2 : Fields.SortedKeys s2)
    (hr1 : fhasBool s1 "$replace" true = false) (hr2 : fhasBool s2 "$replace" true = false)
    (hdisj : ∀ k, fget s1 k = none ∨ fget s2 k = none) (r : Val) :
    (merge (.map d) (.map s1) >>= fun x => merge x (.map s2)) = .ok r ↔
    (merge (.map d) (.map s2) >>= fun x => merge x (.map s1)) = .ok r := by
  rw [merge_two_layers hr1 hr2, merge_two_layers hr2 hr1]
  constructor
  · rintro ⟨r1, r12, h1, h12, rfl⟩
    obtain ⟨r2, h2, h21⟩ := mergeFields_comm_ok hd hs1 hs2 hdisj h1 h12
    exact ⟨r2, r12, h2, h21, rfl⟩
  · rintro ⟨r2, r21, h2, h21, rfl⟩
    obtain ⟨r1, h1, h12⟩ := mergeFields_comm_ok hd hs2 hs1 (fun k => (hdisj k).symm) h2 h21
    exact ⟨r1, r21, h1, h12, rfl⟩

/-- … hence the two orders are rejected together -/
theorem C01_merge_assoc_frame_reject {d s1 s2 : Fields} (hd : Fields.SortedKeys d)
    (hs1 : Fields.SortedKeys s1) (hs2 : Fields.SortedKeys s2)
    (hr1 : fhasBool s1 "$replace" true = false) (hr2 : fhasBool s2 "$replace" true = false)
    (hdisj : ∀ k, fget s1 k = none ∨ fget s2 k = none) :
    (∃ e, (merge (.map d) (.map s1) >>= fun x => merge x (.map s2)) = .error e) ↔
    (∃ e, (merge (.map d) (.map s2) >>= fun x => merge x (.map s1)) = .error e) := by
  have key := C01_merge_assoc_frame_ok hd hs1 hs2 hr1 hr2 hdisj
  cases hA : (merge (.map d) (.map s1) >>= fun x => merge x (.map s2)) with
  | ok r =>
    rw [(key r).1 hA]
  | error e =>
    cases hB : (merge (.map d) (.map s2) >>= fun x => merge x (.map s1)) with
    | ok r => rw [(key r).2 hB] at hA; cases hA
    | error e' => exact ⟨fun _ => ⟨e', rfl⟩, fun _ => ⟨e, rfl⟩⟩

/-- The full statement (equality of the two `Except` results) is FALSE: when both patches are
    rejected, the *error class* reported is that of whichever patch is applied first. -/
theorem C01_merge_assoc_frame_false :
    ∃ d s1 s2 : Fields, Fields.SortedKeys d ∧ Fields.SortedKeys s1 ∧ Fields.SortedKeys s2 ∧
      fhasBool s1 "$replace" true = false ∧ fhasBool s2 "$replace" true = false ∧
      (∀ k, fget s1 k = none ∨ fget s2 k = none) ∧
      (merge (.map d) (.map s1) >>= fun x => merge x (.map s2)) = .error .uselessOverride ∧
      (merge (.map d) (.map s2) >>= fun x => merge x (.map s1)) = .error .invalidType := by
  refine ⟨[("a", .int 1), ("b", .map [("x", .int 1)])], [("a", .int 1)], [("b", .int 5)],
    by decide, by decide, by decide, by decide, by decide, ?_, ?_, ?_⟩
  · intro k
    by_cases hk : "a" = k
    · right; subst hk; decide
    · left; simp [fget, hk]
  · simp [merge, mergeMapMap, mergeFields, fhasBool, fget, Val.toStr]
    rfl
  · simp [merge, mergeMapMap, mergeFields, fhasBool, fget, Val.toStr]
    rfl

/-- The strongest true form of the equality: the two orders give the same `Except` result unless
    both are rejected with different error classes (exactly the class of
    `C01_merge_assoc_frame_false`). -/
theorem C01_merge_assoc_frame_partial {d s1 s2 : Fields} (hd : Fields.SortedKeys d)
    (hs1 : Fields.SortedKeys s1) (hs2 : Fields.SortedKeys s2)
    (hr1 : fhasBool s1 "$replace" true = false) (hr2 : fhasBool s2 "$replace" true = false)
    (hdisj : ∀ k, fget s1 k = none ∨ fget s2 k = none)
    (hcls : ∀ e1 e2, (merge (.map d) (.map s1) >>= fun x => merge x (.map s2)) = .error e1 →
      (merge (.map d) (.map s2) >>= fun x => merge x (.map s1)) = .error e2 → e1 = e2) :
    (merge (.map d) (.map s1) >>= fun x => merge x (.map s2)) =
    (merge (.map d) (.map s2) >>= fun x => merge x (.map s1)) := by
  have key := C01_merge_assoc_frame_ok hd hs1 hs2 hr1 hr2 hdisj
  cases hA : (merge (.map d) (.map s1) >>= fun x => merge x (.map s2)) with
  | ok r => rw [(key r).1 hA]
  | error e =>
    cases hB : (merge (.map d) (.map s2) >>= fun x => merge x (.map s1)) with
    | ok r => rw [(key r).2 hB] at hA; cases hA
    | error e' => rw [hcls e e' hA hB]

/-- non-vacuity: disjoint patches (one deletes, one recurses into a nested map) over a base,
    with the common result -/
example : Fields.SortedKeys [("a", .int 1), ("b", .map [("x", .int 1)])] ∧
    Fields.SortedKeys [("a", .str "$delete")] ∧
    Fields.SortedKeys [("b", .map [("x", .int 2)]), ("c", .int 3)] ∧
    fhasBool [("a", .str "$delete")] "$replace" true = false ∧
    fhasBool [("b", .map [("x", .int 2)]), ("c", .int 3)] "$replace" true = false ∧
    (∀ k, fget [("a", .str "$delete")] k = none ∨
      fget [("b", .map [("x", .int 2)]), ("c", .int 3)] k = none) ∧
    (merge (.map [("a", .int 1), ("b", .map [("x", .int 1)])]) (.map [("a", .str "$delete")])
      >>= fun x => merge x (.map [("b", .map [("x", .int 2)]), ("c", .int 3)]))
      = .ok (.map [("b", .map [("x", .int 2)]), ("c", .int 3)]) := by
  refine ⟨by decide, by decide, by decide, by decide, by decide, ?_, ?_⟩
  · intro k
    by_cases hk : "a" = k
    · right; subst hk; decide
    · left; simp [fget, hk]
  · simp [merge, mergeMapMap, mergeFields, fhasBool, fget, fset, fdel, fhas, Val.toStr]
    rfl

end Bkl
