/-
  C01 — property theorems (placeholder: first theorem only; see BklProofs/Lemmas for helpers)
-/
import Bkl
namespace Bkl

/-- A null child changes nothing under a map or a list. -/
theorem C01_null_child_map (d : Fields) : merge (.map d) .null = .ok (.map d) := by
  unfold merge; rfl

end Bkl
