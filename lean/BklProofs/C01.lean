/-
  C01 — "layer merge follows the documented merge rules".

  `merge dst src` (Bkl/Merge.lean, mirrors merge.go): maps merge by key, lists concatenate,
  scalars replace, with the directives `$delete`, `$replace`, `$match`, `$value`, `$required`.

  Property theorems only; helper lemmas are in BklProofs/Lemmas/{Fields,Merge,MergeList,MergeWF}.
  Auxiliary definitions used in statements (all in BklProofs/Lemmas/Merge.lean):
    `Val.isScalar`  — bool / int / flt / str
    `plainEntry`    — a list-patch entry carrying no list directive
-/
import BklProofs.Lemmas.MergeWF
namespace Bkl

/-! ## 1. a null child changes nothing -/

theorem C01_null_child_map (d : Fields) : merge (.map d) .null = .ok (.map d) :=
  merge_map_null d

theorem C01_null_child_list (d : List Val) : merge (.list d) .null = .ok (.list d) :=
  merge_list_null d

theorem C01_null_child :
    (∀ d : Fields, merge (.map d) .null = .ok (.map d)) ∧
    (∀ d : List Val, merge (.list d) .null = .ok (.list d)) :=
  ⟨merge_map_null, merge_list_null⟩

/-! ## 2. a null parent is replaced by the child -/

theorem C01_null_parent (s : Val) : merge .null s = .ok s :=
  merge_null s

/-! ## 3. scalars: the child replaces the parent, an identical value is rejected -/

theorem C01_scalar (dst src : Val) (h : dst.isScalar = true) :
    merge dst src = if src == dst then .error .uselessOverride else .ok src :=
  merge_scalar dst src h

example : (Val.str "a").isScalar = true ∧ (Val.int 3).isScalar = true ∧
    (Val.bool false).isScalar = true ∧ (Val.flt "1.5").isScalar = true := by decide

/-- rejected iff same value -/
theorem C01_scalar_reject_iff (dst src : Val) (h : dst.isScalar = true) :
    (∃ e, merge dst src = .error e) ↔ src = dst := by
  rw [C01_scalar dst src h]
  by_cases hs : src = dst
  · subst hs; simp
  · have : (src == dst) = false := by simpa using hs
    simp [this, hs]

example : (Val.int 3).isScalar = true := rfl

/-! ## 4. kind mismatches -/

/-- scalar or list over a non-empty map -/
theorem C01_kind_mismatch_map (d : Fields) (src : Val) (hd : d ≠ [])
    (hs : src.isScalar = true ∨ src.isList = true) :
    merge (.map d) src = .error .invalidType := by
  have h1 : src.isMap = false := by
    cases src <;> simp_all [Val.isScalar, Val.isList, Val.isMap]
  have h2 : src.isNull = false := by
    cases src <;> simp_all [Val.isScalar, Val.isList, Val.isNull]
  rw [merge_map_other d src h1 h2]
  cases d with
  | nil => exact absurd rfl hd
  | cons a tl => rfl

example : ([("a", Val.int 1)] : Fields) ≠ [] ∧
    ((Val.str "x").isScalar = true ∨ (Val.str "x").isList = true) := by decide

/-- scalar or map over a list -/
theorem C01_kind_mismatch_list (d : List Val) (src : Val)
    (hs : src.isScalar = true ∨ src.isMap = true) :
    merge (.list d) src = .error .invalidType := by
  have h1 : src.isList = false := by
    cases src <;> simp_all [Val.isScalar, Val.isList, Val.isMap]
  have h2 : src.isNull = false := by
    cases src <;> simp_all [Val.isScalar, Val.isMap, Val.isNull]
  exact merge_list_other d src h1 h2

example : (Val.map [("a", .int 1)]).isScalar = true ∨ (Val.map [("a", .int 1)]).isMap = true := by
  decide

/-- anything that is not a map and not null over an empty map yields the child -/
theorem C01_kind_mismatch_empty_map (src : Val) (h1 : src.isMap = false)
    (h2 : src.isNull = false) : merge (.map []) src = .ok src := by
  rw [merge_map_other [] src h1 h2]; rfl

example : (Val.list [.int 1]).isMap = false ∧ (Val.list [.int 1]).isNull = false := by decide

/-! ## 5. `$replace: true` in a map patch -/

theorem C01_replace_true (d s : Fields) (h : fhasBool s "$replace" true = true) :
    merge (.map d) (.map s) = .ok (.map (fdel s "$replace")) := by
  rw [merge_map_map, mergeMapMap_replace h]

example : fhasBool [("$replace", .bool true), ("a", .int 1)] "$replace" true = true := by decide

/-! ## 6. maps merge key by key -/

theorem C01_map_by_key {d s : Fields} {r : Val} (hd : Fields.SortedKeys d)
    (hs : Fields.SortedKeys s) (hrep : fhasBool s "$replace" true = false)
    (h : merge (.map d) (.map s) = .ok r) :
    ∃ rm, r = .map rm ∧ Fields.SortedKeys rm ∧ ∀ k,
      match fget s k with
      | none => fget rm k = fget d k
      | some v =>
        if v.toStr = "$delete" then (fget d k ≠ none ∧ fget rm k = none)
        else match fget d k with
          | none => fget rm k = some v
          | some e => ∃ r', merge e v = .ok r' ∧ fget rm k = some r' := by
  rw [merge_map_map, mergeMapMap_noreplace hrep] at h
  cases hmf : mergeFields d s with
  | error e => rw [hmf] at h; cases h
  | ok rm =>
    rw [hmf] at h; cases h
    exact ⟨rm, rfl, mergeFields_sorted hd hmf, mergeFields_spec hs hmf⟩

example : Fields.SortedKeys [("a", .int 1), ("b", .int 2)] ∧
    Fields.SortedKeys [("b", .str "$delete"), ("c", .int 3)] ∧
    fhasBool [("b", .str "$delete"), ("c", .int 3)] "$replace" true = false ∧
    merge (.map [("a", .int 1), ("b", .int 2)]) (.map [("b", .str "$delete"), ("c", .int 3)])
      = .ok (.map [("a", .int 1), ("c", .int 3)]) := by
  refine ⟨by decide, by decide, by decide, ?_⟩
  simp [merge, mergeMapMap, mergeFields, fhasBool, fget, fset, fdel, fhas, Val.toStr]
  rfl

theorem C01_map_reject_iff {d s : Fields} (hs : Fields.SortedKeys s)
    (hrep : fhasBool s "$replace" true = false) :
    (∃ err, merge (.map d) (.map s) = .error err) ↔
      ∃ k v, fget s k = some v ∧
        ((v.toStr = "$delete" ∧ fget d k = none) ∨
         (v.toStr ≠ "$delete" ∧ ∃ e, fget d k = some e ∧ ∃ err, merge e v = .error err)) := by
  rw [merge_map_map, mergeMapMap_noreplace hrep]
  have := mergeFields_error_iff (d := d) hs
  unfold badEntry at this
  rw [← this]
  cases mergeFields d s with
  | error e => simp [Except.map]
  | ok rm => simp [Except.map]

example : Fields.SortedKeys [("b", .str "$delete"), ("c", .int 3)] ∧
    fhasBool [("b", .str "$delete"), ("c", .int 3)] "$replace" true = false := by decide

/-! ## 7. lists -/

/-- plain entries are appended (after the parent's `$required` markers are dropped) -/
theorem C01_list_concat (d s : List Val) (h : s.all plainEntry = true) :
    merge (.list d) (.list s) =
      .ok (.list (d.filter (fun x => !(x == Val.str "$required")) ++ s)) := by
  rw [merge_list_list,
    mergeListList_no_replace d (all_plain_any_replace h) (all_plain_no_marker h)]
  have := mergeEntries_plain_append (dropRequired d) [] h
  rw [List.append_nil] at this
  rw [this, mergeEntries_nil]
  rfl

example : [Val.int 1, .str "x", .map [("a", .int 2)], .list [.str "$replace"]].all plainEntry
    = true := by decide

/-- a `"$replace"` string entry: the child list (minus the marker) replaces the parent list -/
theorem C01_list_replace_string (d s : List Val) (h : Val.str "$replace" ∈ s) :
    merge (.list d) (.list s) =
      .ok (.list (s.filter (fun x => !(x == Val.str "$replace")))) := by
  rw [merge_list_list]
  apply mergeListList_replace_string
  rw [List.any_eq_true]
  exact ⟨_, h, by simp⟩

example : Val.str "$replace" ∈ [Val.int 1, .str "$replace", .int 2] := by decide

/-- a `{$replace: true}` entry: the child list (minus the marker) replaces the parent list -/
theorem C01_list_replace_marker (d pre post : List Val) (hpre : pre.all plainEntry = true)
    (hpost : post.all plainEntry = true) :
    merge (.list d) (.list (pre ++ [Val.map [("$replace", .bool true)]] ++ post)) =
      .ok (.list (pre ++ post)) := by
  have hmk : fhasBool [("$replace", Val.bool true)] "$replace" true = true := by decide
  have hany : (pre ++ [Val.map [("$replace", .bool true)]] ++ post).any
      (fun x => x == Val.str "$replace") = false := by
    rw [List.any_append, List.any_append, all_plain_any_replace hpre, all_plain_any_replace hpost]
    rfl
  have hhas : hasListMapBool (pre ++ [Val.map [("$replace", .bool true)]] ++ post)
      "$replace" true = true := by
    rw [hasListMapBool_eq, List.any_append, List.any_append]
    simp [isMarker, hmk]
  have hfold : List.foldlM (popStep "$replace" true) []
      (pre ++ [Val.map [("$replace", .bool true)]] ++ post) = .ok (pre ++ post) := by
    rw [foldlM_popStep_append, foldlM_popStep_append,
      foldlM_popStep_plain pre [] (fun x hx =>
        plainEntry_not_marker (List.all_eq_true.1 hpre x hx))]
    simp only [List.nil_append]
    rw [foldlM_cons, popStep_marker_ok pre hmk (by decide)]
    simp only [foldlM_nil]
    rw [foldlM_popStep_plain post pre (fun x hx =>
        plainEntry_not_marker (List.all_eq_true.1 hpost x hx))]
  rw [merge_list_list, mergeListList_no_string d hany, popListMapBool_eq, hhas, hfold]
  rfl

example : [Val.int 1].all plainEntry = true ∧ [Val.str "x", .map [("k", .null)]].all plainEntry
    = true := by decide

/-- a `{$delete: pat}` entry removes every parent entry matching `pat`; none is an error -/
theorem C01_list_delete (d : List Val) (pat : Val) :
    merge (.list d) (.list [Val.map [("$delete", pat)]]) =
      if (d.filter (fun x => !(x == Val.str "$required"))).any (fun v => matchV v pat) then
        .ok (.list ((d.filter (fun x => !(x == Val.str "$required"))).filter
              (fun v => !matchV v pat)))
      else .error .uselessOverride := by
  have hany : [Val.map [("$delete", pat)]].any (fun x => x == Val.str "$replace") = false := rfl
  have hhas : hasListMapBool [Val.map [("$delete", pat)]] "$replace" true = false := by
    simp [hasListMapBool, fhasBool, fget]
  have h1 : fget [("$delete", pat)] "$delete" = some pat := by simp [fget]
  have h2 : (fdel [("$delete", pat)] "$delete").length = 0 := by simp [fdel]
  rw [merge_list_list, mergeListList_no_replace d hany hhas,
    mergeEntries_delete (dropRequired d) [] h1 h2]
  unfold dropRequired
  generalize d.filter (fun x => !(x == Val.str "$required")) = d'
  cases d'.any (fun v => matchV v pat) with
  | true => simp only [if_true, mergeEntries_nil]
  | false => rfl

/-- a `{$match: m, $value: val}` entry merges `val` into every parent entry matching `m` -/
theorem C01_list_match_value (d : List Val) (m val : Val) :
    merge (.list d) (.list [Val.map [("$match", m), ("$value", val)]]) =
      if (d.filter (fun x => !(x == Val.str "$required"))).any (fun e => matchV e m) then
        Except.map Val.list
          ((d.filter (fun x => !(x == Val.str "$required"))).mapM
            (fun e => if matchV e m then merge e val else pure e))
      else .error .noMatchFound := by
  have hany : [Val.map [("$match", m), ("$value", val)]].any
      (fun x => x == Val.str "$replace") = false := rfl
  have hhas : hasListMapBool [Val.map [("$match", m), ("$value", val)]] "$replace" true
      = false := by simp [hasListMapBool, fhasBool, fget]
  have h1 : fget [("$match", m), ("$value", val)] "$delete" = none := by simp [fget]
  have h2 : fget [("$match", m), ("$value", val)] "$match" = some m := by simp [fget]
  have h3 : fget (fdel [("$match", m), ("$value", val)] "$match") "$value" = some val := by
    simp [fget, fdel]
  have h4 : (fdel (fdel [("$match", m), ("$value", val)] "$match") "$value").length = 0 := by
    simp [fdel]
  rw [merge_list_list, mergeListList_no_replace d hany hhas,
    mergeEntries_match_value (dropRequired d) [] h1 h2 h3 h4]
  unfold dropRequired matchStep
  generalize d.filter (fun x => !(x == Val.str "$required")) = d'
  cases hm : d'.any (fun e => matchV e m) with
  | false =>
    have hid : List.mapM (fun e => if matchV e m = true then merge e val else pure e) d'
        = .ok d' := by
      apply mapM_id_of_forall
      intro x hx
      have : matchV x m = false := by
        have := List.any_eq_false.1 hm x hx
        simpa using this
      simp [this, R_pure]
    rw [hid]; rfl
  | true =>
    simp only [if_true]
    cases List.mapM (fun e => if matchV e m = true then merge e val else pure e) d' with
    | error e => rfl
    | ok d'' => simp only [mergeEntries_nil]; rfl

example : Fields.SortedKeys [("$match", Val.int 1), ("$value", .int 2)] := by decide

/-- a `$delete` entry carrying another key is rejected with `extraKeys` -/
theorem C01_list_extra_keys_delete (d pre post : List Val) (kvs : Fields) (pat : Val)
    (hpre : pre.all plainEntry = true)
    (hpost1 : Val.str "$replace" ∉ post) (hpost2 : hasListMapBool post "$replace" true = false)
    (hdel : fget kvs "$delete" = some pat) (hextra : (fdel kvs "$delete").length > 0) :
    merge (.list d) (.list (pre ++ Val.map kvs :: post)) = .error .extraKeys := by
  apply list_entry_extra d pre post kvs hpre hpost1 hpost2
  · intro d'; exact mergeEntries_delete_extra d' post hdel hextra
  · intro _
    have : fget (fdel kvs "$replace") "$delete" = some pat := by
      rw [fget_fdel_ne _ _ _ (by decide)]; exact hdel
    exact length_pos_of_fget this

example : [Val.int 1].all plainEntry = true ∧ Val.str "$replace" ∉ [Val.int 2] ∧
    hasListMapBool [Val.int 2] "$replace" true = false ∧
    fget [("$delete", Val.int 1), ("x", .int 2)] "$delete" = some (.int 1) ∧
    (fdel [("$delete", Val.int 1), ("x", .int 2)] "$delete").length > 0 := by decide

/-- a `$match` + `$value` entry carrying a third key is rejected with `extraKeys` -/
theorem C01_list_extra_keys_match (d pre post : List Val) (kvs : Fields) (m val : Val)
    (hpre : pre.all plainEntry = true)
    (hpost1 : Val.str "$replace" ∉ post) (hpost2 : hasListMapBool post "$replace" true = false)
    (hdel : fget kvs "$delete" = none)
    (hm : fget kvs "$match" = some m) (hv : fget kvs "$value" = some val)
    (hextra : (fdel (fdel kvs "$match") "$value").length > 0) :
    merge (.list d) (.list (pre ++ Val.map kvs :: post)) = .error .extraKeys := by
  apply list_entry_extra d pre post kvs hpre hpost1 hpost2
  · intro d'
    have hv' : fget (fdel kvs "$match") "$value" = some val := by
      rw [fget_fdel_ne _ _ _ (by decide)]; exact hv
    exact mergeEntries_match_value_extra d' post hdel hm hv' hextra
  · intro _
    have : fget (fdel kvs "$replace") "$match" = some m := by
      rw [fget_fdel_ne _ _ _ (by decide)]; exact hm
    exact length_pos_of_fget this

example : ([] : List Val).all plainEntry = true ∧ Val.str "$replace" ∉ ([] : List Val) ∧
    hasListMapBool [] "$replace" true = false ∧
    fget [("$match", Val.int 1), ("$value", .int 2), ("x", .int 3)] "$delete" = none ∧
    fget [("$match", Val.int 1), ("$value", .int 2), ("x", .int 3)] "$match" = some (.int 1) ∧
    fget [("$match", Val.int 1), ("$value", .int 2), ("x", .int 3)] "$value" = some (.int 2) ∧
    (fdel (fdel [("$match", Val.int 1), ("$value", .int 2), ("x", .int 3)] "$match")
      "$value").length > 0 := by decide

/-- a `{$replace: true, …extra}` entry anywhere in the patch is rejected with `extraKeys` -/
theorem C01_list_extra_keys_replace (d s : List Val) (kvs : Fields)
    (hstr : Val.str "$replace" ∉ s) (hmem : Val.map kvs ∈ s)
    (hrep : fhasBool kvs "$replace" true = true) (hextra : (fdel kvs "$replace").length > 0) :
    merge (.list d) (.list s) = .error .extraKeys := by
  have hany : s.any (fun x => x == Val.str "$replace") = false := by
    rw [List.any_eq_false]
    intro x hx hb
    exact hstr ((eq_of_beq hb) ▸ hx)
  have hhas : hasListMapBool s "$replace" true = true := by
    rw [hasListMapBool_eq, List.any_eq_true]
    exact ⟨_, hmem, hrep⟩
  rw [merge_list_list, mergeListList_no_string d hany, popListMapBool_eq, hhas,
    foldlM_popStep_extra [] hmem hrep hextra]
  rfl

example : Val.str "$replace" ∉ [Val.int 1, .map [("$replace", .bool true), ("a", .int 1)]] ∧
    Val.map [("$replace", .bool true), ("a", .int 1)] ∈
      [Val.int 1, .map [("$replace", .bool true), ("a", .int 1)]] ∧
    fhasBool [("$replace", .bool true), ("a", .int 1)] "$replace" true = true ∧
    (fdel [("$replace", Val.bool true), ("a", .int 1)] "$replace").length > 0 := by decide

/-! ## 8. well-formedness is preserved -/

theorem C01_wf {d s r : Val} (hd : Val.WF d) (hs : Val.WF s) (h : merge d s = .ok r) :
    Val.WF r :=
  merge_wf hd hs h

example : Val.WF (.map [("a", .int 1), ("b", .map [("x", .int 2)])]) ∧
    Val.WF (.map [("b", .map [("x", .int 5)]), ("c", .int 3)]) ∧
    merge (.map [("a", .int 1), ("b", .map [("x", .int 2)])])
        (.map [("b", .map [("x", .int 5)]), ("c", .int 3)])
      = .ok (.map [("a", .int 1), ("b", .map [("x", .int 5)]), ("c", .int 3)]) := by
  refine ⟨by decide, by decide, ?_⟩
  simp [merge, mergeMapMap, mergeFields, fhasBool, fget, fset, Val.toStr]
  rfl

/-! ## 9. a key that no layer mentions keeps the base value -/

theorem C01_chain_frame (b : Fields) (layers : List Val) (k : String) (res : Val)
    (hl : ∀ x ∈ layers, ∃ l, x = Val.map l ∧ fhasBool l "$replace" true = false ∧
      fget l k = none)
    (h : mergeChain (.map b :: layers) = .ok res) :
    ∃ r, res = .map r ∧ fget r k = fget b k := by
  change List.foldlM merge (Val.map b) layers = .ok res at h
  induction layers generalizing b with
  | nil => rw [foldlM_nil] at h; cases h; exact ⟨b, rfl, rfl⟩
  | cons x tl ih =>
    obtain ⟨l, rfl, hrep, hk⟩ := hl x List.mem_cons_self
    rw [foldlM_cons, merge_map_map, mergeMapMap_noreplace hrep] at h
    cases hmf : mergeFields b l with
    | error e => rw [hmf] at h; cases h
    | ok rm =>
      rw [hmf] at h
      obtain ⟨r, hr, hg⟩ := ih rm (fun y hy => hl y (List.mem_cons_of_mem _ hy)) h
      exact ⟨r, hr, by rw [hg, mergeFields_frame hk hmf]⟩

example : (∀ x ∈ [Val.map [("b", .int 2)], Val.map [("b", .int 3), ("c", .int 4)]],
      ∃ l, x = Val.map l ∧ fhasBool l "$replace" true = false ∧ fget l "a" = none) ∧
    mergeChain [.map [("a", .int 1)], .map [("b", .int 2)], .map [("b", .int 3), ("c", .int 4)]]
      = .ok (.map [("a", .int 1), ("b", .int 3), ("c", .int 4)]) := by
  constructor
  · intro x hx
    simp only [List.mem_cons, List.not_mem_nil, or_false] at hx
    rcases hx with rfl | rfl
    · exact ⟨_, rfl, by decide, by decide⟩
    · exact ⟨_, rfl, by decide, by decide⟩
  · simp [mergeChain, List.foldlM, merge, mergeMapMap, mergeFields, fhasBool, fget, fset,
      Val.toStr]
    rfl

end Bkl
