/-
  C04 — "Results do not depend on which format (JSON/YAML/TOML) a layer is written in."

  The three decoders hand bkl different Go representations of the same data (`Raw`,
  Bkl/Stream.lean): json.Number text, YAML `int`/`int64`/`float64` after
  yaml.go:yamlTranslateNode, go-toml `int64`, `[]map[string]any`, Go maps in random order.
  `normalize` maps all of them into the one value domain `Val`, and the theorems below say that
  the same datum gets the same `Val` whichever decoder produced it.

  * `C04_int_exact`            an int64 `n` is `.int n` via JSON, YAML and TOML
  * `C04_normalize_total`      normalisation fails only on `map[any]any`, with `invalidType`
  * `C04_float_path`           non-integers become `.flt` of the same `%v` text
  * `C04_compare_canonical`    equality of normalised integers is equality of integers,
                               whatever the source; an integer never equals a float
  * `C04_map_order_irrelevant` the order in which a decoder lists map entries is irrelevant
  * `C04_yaml_merge_key`, `C04_yaml_merge_key_list`  YAML `<<` semantics
  * `C04_toml_array_of_tables` `[]map[string]any` ≡ `[]any` of maps
  * `C04_yaml_merge_chained`, `C04_yaml_merge_expand`, `…_expand_lookup`  `<<` inside a merged
                               mapping; merge keys at any depth against their expansion
  * `C04_yaml_merge_equals_expanded`, `C04_yaml_merge_equals_json`  merge keys against the
                               hand-expanded (JSON) form
  * `C04_yaml_translate_ok_iff`, `…_total_on_plain`, `…_failures`  exactly when a YAML node tree
                               loads, and with which error it does not
  * `C04_toml_int_equals_yaml_int`, `C04_toml_float_equals_yaml_float`, `C04_three_formats_agree`
                               one datum (`ym_Logical`), three readings, one value
  (helpers for these: BklProofs/Lemmas/C04Yaml.lean, BklProofs/Lemmas/C04YamlLogical.lean)

  Helper lemmas and the definitions `hasMapAny`, `rput`, `rlookup`, `rlookupMaps` are in
  BklProofs/Lemmas/Stream.lean.  `(toString n).toInt? = some n` is `Int.toInt?_repr` of Lean's
  `Std.Data.String.ToInt`; no round-trip hypothesis is needed.
-/
import BklProofs.Lemmas.Stream
import BklProofs.Lemmas.C04YamlLogical
namespace Bkl

/-! ## integers -/

/-- For every int64 `n`, the three decoders' representations of `n` all normalise to `.int n`:
    JSON (`json.Number` with text `toString n`), YAML (`!!int` scalar: `int` when it fits
    32 bits, `int64` otherwise), TOML (`int64`). -/
theorem C04_int_exact (n : Int) (fr : String) (h1 : int64Min ≤ n) (h2 : n ≤ int64Max) :
    normalize (.jnum (toString n) fr) = .ok (.int n) ∧
    (yamlScalar "!!int" (toString n) fr >>= normalize) = .ok (.int n) ∧
    normalize (.goInt64 n) = .ok (.int n) := by
  refine ⟨?_, ?_, by rw [normalize]; rfl⟩
  · rw [normalize_jnum, parseInt64_toString n h1 h2]
  · rw [yamlScalar_int_toString n fr h1 h2]
    split <;> (rw [s_bind_ok, normalize]; rfl)

example : int64Min ≤ (-9223372036854775808 : Int) ∧ (-9223372036854775808 : Int) ≤ int64Max := by
  decide
example : int64Min ≤ (2147483648 : Int) ∧ (2147483648 : Int) ≤ int64Max := by decide

/-- the YAML representation: Go `int` when the value fits 32 bits, `int64` otherwise -/
theorem C04_yaml_int_repr (n : Int) (fr : String) (h1 : int64Min ≤ n) (h2 : n ≤ int64Max) :
    yamlScalar "!!int" (toString n) fr =
      if -(2147483648 : Int) ≤ n ∧ n < 2147483648 then .ok (.goInt n) else .ok (.goInt64 n) :=
  yamlScalar_int_toString n fr h1 h2

/-- the key fact behind the JSON case: decimal text of an int64 parses back to it -/
theorem C04_parseInt64_toString (n : Int) (h1 : int64Min ≤ n) (h2 : n ≤ int64Max) :
    parseInt64 (toString n) = some n := parseInt64_toString n h1 h2

/-- out of the int64 range json.Number.Int64 fails and the number is a float -/
theorem C04_int_out_of_range (n : Int) (fr : String) (h : n < int64Min ∨ int64Max < n)
    (hfr : fr.isEmpty = false) :
    normalize (.jnum (toString n) fr) = .ok (.flt fr) := by
  have : parseInt64 (toString n) = none := by
    unfold parseInt64
    rw [goDecInt_toString]
    have : ¬ (int64Min ≤ n ∧ n ≤ int64Max) := by
      intro ⟨a, b⟩; omega
    simp only [this, if_false]
  rw [normalize_jnum, this]
  simp [hfr]

example : (9223372036854775808 : Int) < int64Min ∨ int64Max < (9223372036854775808 : Int) := by
  decide

/-- Go's `strconv.ParseInt(_, 10, _)` grammar as modelled: `1_000` (accepted by Lean's own
    `String.toInt?`) and a text with any non-digit are not integers, `+7` is. -/
theorem C04_goDecInt_grammar :
    goDecInt "1_000" = none ∧ goDecInt "+7" = some 7 ∧ goDecInt "+" = none ∧ goDecInt "+-7" = none ∧
    (∀ n : Int, goDecInt (toString n) = some n) := by
  refine ⟨?_, ?_, ?_, ?_, goDecInt_toString⟩
  · unfold goDecInt
    have h : "1_000".toList = ['1', '_', '0', '0', '0'] := by decide
    rw [h]; decide
  · unfold goDecInt
    have h : "+7".toList = ['+', '7'] := by decide
    rw [h]
    have h2 : String.ofList ['7'] = toString (7 : Int) := by decide
    simp only [List.isEmpty_cons, List.all_cons, List.all_nil, Bool.false_or]
    rw [h2, int_toString_toInt]
    decide
  · unfold goDecInt
    have h : "+".toList = ['+'] := by decide
    rw [h]; decide
  · unfold goDecInt
    have h : "+-7".toList = ['+', '-', '7'] := by decide
    rw [h]; decide

/-! ## `normalize` is total except for `map[any]any` -/

/-- `normalize r` fails iff `r` contains a `map[any]any` or a JSON number that is neither an int64 nor
    convertible to float64 (`hasMapAny`), and then with `invalidType` resp. the conversion error -/
theorem C04_normalize_total (r : Raw) :
    ((∃ e, normalize r = .error e) ↔ hasMapAny r = true) ∧
    (∀ e, normalize r = .error e → e = .invalidType ∨ e = .other) ∧
    (hasMapAny r = false → ∃ v, normalize r = .ok v) := by
  rcases normalize_outcome r with ⟨hb, hr⟩ | ⟨hb, v, hr⟩
  · refine ⟨⟨fun _ => hb, fun _ => by rcases hr with hr | hr <;> exact ⟨_, hr⟩⟩, ?_, ?_⟩
    · intro e he
      rcases hr with hr | hr <;> (rw [hr] at he; cases he)
      · exact Or.inl rfl
      · exact Or.inr rfl
    · intro h; rw [hb] at h; cases h
  · refine ⟨⟨?_, ?_⟩, ?_, fun _ => ⟨v, hr⟩⟩
    · rintro ⟨e, he⟩; rw [hr] at he; cases he
    · intro h; rw [hb] at h; cases h
    · intro e he; rw [hr] at he; cases he

example : hasMapAny (.map [("a", .list [.goInt 1, .mapAny])]) = true := by decide
example : normalize (.map [("a", .list [.goInt 1, .mapAny])]) = .error .invalidType := by
  simp [normalize, normalizeFields, normalizeList, bind, Except.bind, throw, throwThe,
    MonadExceptOf.throw, pure, Except.pure]
example : hasMapAny (.map [("a", .list [.goInt 1, .goFloat "2"])]) = false := by decide

/-! ## floats -/

/-- JSON non-integers, YAML `!!float` and TOML floats all become `.flt` of the `%v` text -/
theorem C04_float_path (text value fr : String) (hfr : fr.isEmpty = false) :
    (parseInt64 text = none → normalize (.jnum text fr) = .ok (.flt fr)) ∧
    (yamlScalar "!!float" value fr >>= normalize) = .ok (.flt fr) ∧
    normalize (.goFloat fr) = .ok (.flt fr) := by
  refine ⟨?_, ?_, by rw [normalize]; rfl⟩
  · intro h; rw [normalize_jnum, h]; simp [hfr]
  · rw [yamlScalar_float]; simp only [hfr, Bool.false_eq_true, if_false]; rw [s_bind_ok, normalize]; rfl

/-- a literal no float64 can hold (`fr = ""`: `strconv.ParseFloat` / `json.Number.Float64` failed, e.g.
    `1e400`) is an error in every format, never a silently different number -/
theorem C04_float_unrepresentable_is_error (text value : String) (h : parseInt64 text = none) :
    normalize (.jnum text "") = .error .other ∧
    (yamlScalar "!!float" value "" >>= normalize) = .error .other := by
  refine ⟨?_, ?_⟩
  · rw [normalize_jnum, h]; rfl
  · rw [yamlScalar_float]; rfl

/-- non-vacuity: `1.5` is not an integer text, so JSON `1.5` is the float `1.5` -/
example : parseInt64 "1.5" = none :=
  parseInt64_none_of_bad_char "1.5" '.' (by decide) (by decide) (by decide) (by decide) (by decide)
example : normalize (.jnum "1.5" "1.5") = .ok (.flt "1.5") :=
  (C04_float_path "1.5" "" "1.5" (by decide)).1
    (parseInt64_none_of_bad_char "1.5" '.' (by decide) (by decide) (by decide) (by decide) (by decide))
/-- … and JSON `1e3` too (json.Number.Int64 fails on it), with `%v` text `1000` -/
example : normalize (.jnum "1e3" "1000") = .ok (.flt "1000") :=
  (C04_float_path "1e3" "" "1000" (by decide)).1
    (parseInt64_none_of_bad_char "1e3" 'e' (by decide) (by decide) (by decide) (by decide) (by decide))

/-! ## comparison is structural after normalisation -/

/-- Go compares scalars with `==` on interface values (dynamic type AND value).  After
    normalisation every integer is an `.int` and every float a `.flt`, so equality of normalised
    integers from any two sources is equality of the integers, and an integer never equals a
    float. -/
theorem C04_compare_canonical (a b : Int) (fr r : String)
    (ha : int64Min ≤ a ∧ a ≤ int64Max) :
    (normalize (.goInt a) = normalize (.goInt64 b) ↔ a = b) ∧
    (normalize (.goInt a) = normalize (.goInt b) ↔ a = b) ∧
    (normalize (.goInt64 a) = normalize (.goInt64 b) ↔ a = b) ∧
    (normalize (.jnum (toString a) fr) = normalize (.goInt64 b) ↔ a = b) ∧
    (normalize (.jnum (toString a) fr) = normalize (.goInt b) ↔ a = b) ∧
    ((yamlScalar "!!int" (toString a) fr >>= normalize) = normalize (.goInt64 b) ↔ a = b) ∧
    ((yamlScalar "!!int" (toString a) fr >>= normalize) = normalize (.jnum (toString a) r)) ∧
    normalize (.goInt a) ≠ normalize (.goFloat r) ∧
    normalize (.goInt64 a) ≠ normalize (.goFloat r) ∧
    normalize (.jnum (toString a) fr) ≠ normalize (.goFloat r) := by
  obtain ⟨j1, y1, _⟩ := C04_int_exact a fr ha.1 ha.2
  obtain ⟨j2, _, _⟩ := C04_int_exact a r ha.1 ha.2
  have gi : ∀ i, normalize (.goInt i) = .ok (.int i) := fun i => by rw [normalize]; rfl
  have g64 : ∀ i, normalize (.goInt64 i) = .ok (.int i) := fun i => by rw [normalize]; rfl
  have gf : normalize (.goFloat r) = .ok (.flt r) := by rw [normalize]; rfl
  have key : (Except.ok (Val.int a) : R Val) = .ok (.int b) ↔ a = b :=
    ⟨fun h => by injection h with h; injection h, fun h => by rw [h]⟩
  rw [j1, y1, j2, gi, gi, g64, g64, gf]
  have ne : (Except.ok (Val.int a) : R Val) ≠ .ok (.flt r) := by
    intro h; injection h with h; cases h
  exact ⟨key, key, key, key, key, key, rfl, ne, ne, ne⟩

example : int64Min ≤ (42 : Int) ∧ (42 : Int) ≤ int64Max := by decide

/-! ## maps -/

/-- Go maps are unordered and decoders list entries in different orders: for entry lists with
    distinct keys that are permutations of each other normalisation fails for both or yields the
    same map for both (which of the two possible errors is met first may depend on the order) -/
theorem C04_map_order_irrelevant (kvs' kvs : List (String × Raw)) (hp : kvs'.Perm kvs)
    (hn : (kvs.map (·.1)).Nodup) :
    (∃ e' e, normalize (.map kvs') = .error e' ∧ normalize (.map kvs) = .error e) ∨
    (∃ v, normalize (.map kvs') = .ok v ∧ normalize (.map kvs) = .ok v) :=
  normalize_map_perm hp hn

example : [("b", Raw.goInt 2), ("a", Raw.str "x")].Perm [("a", .str "x"), ("b", .goInt 2)] ∧
    ([("a", Raw.str "x"), ("b", Raw.goInt 2)].map (·.1)).Nodup := by
  refine ⟨List.Perm.swap _ _ _, by decide⟩

/-- the normalised map is key-sorted whatever the decoder's order -/
theorem C04_map_sorted (kvs : List (String × Raw)) (v : Val) (h : normalize (.map kvs) = .ok v) :
    ∃ fs, v = .map fs ∧ Fields.SortedKeys fs := by
  rw [normalize_map] at h
  cases hf : normalizeFields kvs with
  | error e => rw [hf] at h; cases h
  | ok fs => rw [hf] at h; cases h; exact ⟨_, rfl, sorted_fofList fs⟩

example : normalize (.map [("b", .goInt 2), ("a", .str "x")])
    = .ok (.map [("a", .str "x"), ("b", .int 2)]) := by decide

/-! ## YAML merge keys -/

/-- A mapping with exactly one `<<` entry whose value is a mapping `m`, and local pairs `ls`
    (= the translated non-`<<` pairs): the result has distinct keys, and looking a key up gives
    the local value if there is one, else `m`'s. -/
theorem C04_yaml_merge_key (pre post : List (String × YNode)) (x : YNode) (m ls : RFields)
    (hpre : ∀ p ∈ pre, p.1 ≠ "<<") (hpost : ∀ p ∈ post, p.1 ≠ "<<")
    (hx : yamlTranslate x = .ok (.map m))
    (hl : yamlTranslatePairs (pre ++ post) = .ok ls) :
    ∃ res, yamlTranslate (.mapping (pre ++ ("<<", x) :: post)) = .ok (.map res) ∧
      (res.map (·.1)).Nodup ∧
      ∀ k, rlookup res k = match rlookup ls k with
        | some v => some v
        | none => rlookup m k := by
  refine ⟨_, yamlTranslate_one_merge pre post x (.map m) _ ls hpre hpost hx
    (yamlMergeInto_map [] m) hl, ?_, ?_⟩
  · exact foldl_rput_keys_nodup ls _ (foldl_rput_keys_nodup m [] List.nodup_nil)
  · intro k
    rw [rlookup_foldl_rput, rlookup_foldl_rput]
    cases rlookup ls k with
    | some v => rfl
    | none => simp only [rlookup]; cases rlookup m k <;> rfl

/-- The list form `<<: [m₁, …, mₙ]`: locals win over every `mᵢ`, and an earlier `mᵢ` wins over
    a later one (`rlookupMaps` = the first mapping that has the key). -/
theorem C04_yaml_merge_key_list (pre post : List (String × YNode)) (x : YNode)
    (ms : List RFields) (ls : RFields)
    (hpre : ∀ p ∈ pre, p.1 ≠ "<<") (hpost : ∀ p ∈ post, p.1 ≠ "<<")
    (hx : yamlTranslate x = .ok (.list (ms.map Raw.map)))
    (hl : yamlTranslatePairs (pre ++ post) = .ok ls) :
    ∃ res, yamlTranslate (.mapping (pre ++ ("<<", x) :: post)) = .ok (.map res) ∧
      (res.map (·.1)).Nodup ∧
      ∀ k, rlookup res k = match rlookup ls k with
        | some v => some v
        | none => rlookupMaps ms k := by
  refine ⟨_, yamlTranslate_one_merge pre post x _ _ ls hpre hpost hx
    (yamlMergeInto_list_maps [] ms) hl, ?_, ?_⟩
  · exact foldl_rput_keys_nodup ls _ (rmergeAll_keys_nodup ms [] List.nodup_nil)
  · intro k
    rw [rlookup_foldl_rput, rlookup_rmergeAll]
    cases rlookup ls k with
    | some v => rfl
    | none => simp only [rlookup]; cases rlookupMaps ms k <;> rfl

/-- non-vacuity of the two theorems above: `{a: 1, <<: {a: 0, b: 2}, c: 3}` and
    `{a: 1, <<: [{a: 0}, {a: 9, b: 2}], c: 3}` -/
example : ∃ res, yamlTranslate (.mapping ([("a", .scalar "!!str" "1" "")] ++
      ("<<", .mapping [("a", .scalar "!!str" "0" ""), ("b", .scalar "!!str" "2" "")]) ::
      [("c", .scalar "!!str" "3" "")])) = .ok (.map res) ∧ (res.map (·.1)).Nodup ∧
      ∀ k, rlookup res k = match rlookup [("a", .str "1"), ("c", .str "3")] k with
        | some v => some v
        | none => rlookup [("a", .str "0"), ("b", .str "2")] k :=
  C04_yaml_merge_key _ _ _ _ _ (by decide) (by decide) (by rfl) (by rfl)
example : ∃ res, yamlTranslate (.mapping ([("a", .scalar "!!str" "1" "")] ++
      ("<<", .seq [.mapping [("a", .scalar "!!str" "0" "")],
                   .mapping [("a", .scalar "!!str" "9" ""), ("b", .scalar "!!str" "2" "")]]) ::
      [("c", .scalar "!!str" "3" "")])) = .ok (.map res) ∧ (res.map (·.1)).Nodup ∧
      ∀ k, rlookup res k = match rlookup [("a", .str "1"), ("c", .str "3")] k with
        | some v => some v
        | none => rlookupMaps [[("a", .str "0")], [("a", .str "9"), ("b", .str "2")]] k :=
  C04_yaml_merge_key_list _ _ _ [[("a", .str "0")], [("a", .str "9"), ("b", .str "2")]] _
    (by decide) (by decide) (by rfl) (by rfl)

/-- merging something that is neither a mapping nor a list of mappings is `invalidType` -/
theorem C04_yaml_merge_key_scalar (pairs : List (String × YNode)) (s : String) :
    yamlTranslate (.mapping (("<<", .scalar "!!str" s "") :: pairs)) = .error .invalidType := by
  rw [yamlTranslate_mapping, yamlTranslateMerges]
  simp only [beq_self_eq_true, if_true]
  rw [yamlTranslate]
  rfl

/-- concrete instance (`{a: 1, <<: {a: 0, b: 2}, c: 3}` → a=1 (local wins), b=2, c=3) -/
theorem C04_yaml_merge_key_instance :
    yamlTranslate (.mapping [("a", .scalar "!!str" "1" ""),
        ("<<", .mapping [("a", .scalar "!!str" "0" ""), ("b", .scalar "!!str" "2" "")]),
        ("c", .scalar "!!str" "3" "")]) =
      .ok (.map [("b", .str "2"), ("a", .str "1"), ("c", .str "3")]) := by
  have hx : yamlTranslate (.mapping [("a", .scalar "!!str" "0" ""), ("b", .scalar "!!str" "2" "")])
      = .ok (.map [("a", .str "0"), ("b", .str "2")]) := by
    rw [yamlTranslate_mapping, yamlTranslateMerges_no_merge _ _ (by decide)]
    simp only [yamlTranslatePairs, yamlTranslate]
    rfl
  have hl : yamlTranslatePairs ([("a", YNode.scalar "!!str" "1" "")] ++
      [("c", YNode.scalar "!!str" "3" "")]) = .ok [("a", .str "1"), ("c", .str "3")] := by
    simp only [List.cons_append, List.nil_append, yamlTranslatePairs, yamlTranslate]
    rfl
  have := yamlTranslate_one_merge [("a", .scalar "!!str" "1" "")] [("c", .scalar "!!str" "3" "")]
    _ _ _ _ (by decide) (by decide) hx (yamlMergeInto_map [] _) hl
  rw [List.cons_append, List.nil_append] at this
  rw [this]
  rfl

/-- concrete instance of the list form (`{<<: [{a: 1}, {a: 2, b: 2}]}` → a=1: earlier wins) -/
theorem C04_yaml_merge_key_list_instance :
    yamlMergeInto [] (.list [.map [("a", .str "1")], .map [("a", .str "2"), ("b", .str "2")]]) =
      .ok [("b", .str "2"), ("a", .str "1")] := by
  rw [show [Raw.map [("a", .str "1")], .map [("a", .str "2"), ("b", .str "2")]] =
    [[("a", Raw.str "1")], [("a", .str "2"), ("b", .str "2")]].map Raw.map from rfl,
    yamlMergeInto_list_maps]
  rfl

/-! ## go-toml arrays of tables -/

theorem C04_toml_array_of_tables (ms : List (List (String × Raw))) :
    normalize (.listOfMaps ms) = normalize (.list (ms.map .map)) := normalize_listOfMaps ms

/-! ## YAML merge keys, recursively (`<<` inside a merged mapping) -/

/-- A merged mapping that itself contains a `<<` entry is expanded recursively.  For
    `{pre0…, <<: {pre1…, <<: m2, post1…}, post0…}` (all other keys ordinary) the result has
    distinct keys and looking a key up gives the outer explicit value (`l0`) if there is one,
    else the inner mapping's explicit value (`l1`), else `m2`'s. -/
theorem C04_yaml_merge_chained (pre0 post0 pre1 post1 : List (String × YNode)) (m2 : YNode)
    (r2 l1 l0 : RFields)
    (hpre0 : ∀ p ∈ pre0, p.1 ≠ "<<") (hpost0 : ∀ p ∈ post0, p.1 ≠ "<<")
    (hpre1 : ∀ p ∈ pre1, p.1 ≠ "<<") (hpost1 : ∀ p ∈ post1, p.1 ≠ "<<")
    (h2 : yamlTranslate m2 = .ok (.map r2))
    (hl1 : yamlTranslatePairs (pre1 ++ post1) = .ok l1)
    (hl0 : yamlTranslatePairs (pre0 ++ post0) = .ok l0) :
    ∃ res, yamlTranslate (.mapping (pre0 ++
        ("<<", .mapping (pre1 ++ ("<<", m2) :: post1)) :: post0)) = .ok (.map res) ∧
      (res.map (·.1)).Nodup ∧
      ∀ k, rlookup res k = match rlookup l0 k with
        | some v => some v
        | none => match rlookup l1 k with
          | some v => some v
          | none => rlookup r2 k := by
  obtain ⟨res1, e1, _, k1⟩ := C04_yaml_merge_key pre1 post1 m2 r2 l1 hpre1 hpost1 h2 hl1
  obtain ⟨res, e0, n0, k0⟩ := C04_yaml_merge_key pre0 post0 _ res1 l0 hpre0 hpost0 e1 hl0
  refine ⟨res, e0, n0, fun k => ?_⟩
  rw [k0 k, k1 k]

/-- the form of the statement with the `<<` entries in front:
    `outer = {<<: {<<: m2, ls1…}, ls0…}` -/
theorem C04_yaml_merge_chained_front (ls0 ls1 : List (String × YNode)) (m2 : YNode)
    (r2 l1 l0 : RFields)
    (h0 : ∀ p ∈ ls0, p.1 ≠ "<<") (h1 : ∀ p ∈ ls1, p.1 ≠ "<<")
    (h2 : yamlTranslate m2 = .ok (.map r2))
    (hl1 : yamlTranslatePairs ls1 = .ok l1) (hl0 : yamlTranslatePairs ls0 = .ok l0) :
    ∃ res, yamlTranslate (.mapping (("<<", .mapping (("<<", m2) :: ls1)) :: ls0)) = .ok (.map res) ∧
      (res.map (·.1)).Nodup ∧
      ∀ k, rlookup res k = match rlookup l0 k with
        | some v => some v
        | none => match rlookup l1 k with
          | some v => some v
          | none => rlookup r2 k :=
  C04_yaml_merge_chained [] ls0 [] ls1 m2 r2 l1 l0 (fun _ h => nomatch h) h0
    (fun _ h => nomatch h) h1 h2 hl1 hl0

/-- non-vacuity: `{<<: {<<: {a: 0, b: 0, c: 0}, b: 1}, c: 2}` → a=0, b=1, c=2 -/
example : ∃ res, yamlTranslate (.mapping (("<<", .mapping (("<<",
      .mapping [("a", .scalar "!!str" "0" ""), ("b", .scalar "!!str" "0" ""),
        ("c", .scalar "!!str" "0" "")]) :: [("b", .scalar "!!str" "1" "")])) ::
      [("c", .scalar "!!str" "2" "")])) = .ok (.map res) ∧ (res.map (·.1)).Nodup ∧
      ∀ k, rlookup res k = match rlookup [("c", .str "2")] k with
        | some v => some v
        | none => match rlookup [("b", .str "1")] k with
          | some v => some v
          | none => rlookup [("a", .str "0"), ("b", .str "0"), ("c", .str "0")] k :=
  C04_yaml_merge_chained_front _ _ _ _ _ _ (by decide) (by decide) (by rfl) (by rfl) (by rfl)

/-- Merge keys at any nesting depth.  `ym_expand` (BklProofs/Lemmas/C04Yaml.lean) inlines every
    `<<` entry — a mapping, or a list of mappings of which earlier ones win — in front of the
    explicit keys, recursively; it is `none` exactly when some `<<` value is neither.
    * a tree that cannot be expanded is rejected by `yamlTranslate`;
    * otherwise the expansion has no `<<` key anywhere (`ym_plain`), and either both trees are
      rejected or both are loaded as the same value. -/
theorem C04_yaml_merge_expand (n : YNode) :
    (ym_expand n = none → ∃ e, yamlTranslate n = .error e) ∧
    (∀ n', ym_expand n = some n' →
      ym_plain n' = true ∧
      ((∃ e e', yamlTranslate n = .error e ∧ yamlTranslate n' = .error e') ∨
       (∃ v, (yamlTranslate n >>= normalize) = .ok v ∧
          (yamlTranslate n' >>= normalize) = .ok v))) := by
  refine ⟨ym_expand_none_fails n, fun n' h => ⟨ym_expand_plain n n' h, ?_⟩⟩
  rcases ym_expand_rel n n' h with ⟨⟨e, he⟩, ⟨e', he'⟩⟩ | ⟨r, r', h1, h2, hn⟩
  · exact Or.inl ⟨e, e', he, he'⟩
  · exact Or.inr ⟨ym_norm r, ym_T_normalize n r h1, by rw [ym_T_normalize n' r' h2, hn]⟩

/-- … key by key: when the tree is a mapping, so is its expansion, and every key holds the same
    (normalised) value in both -/
theorem C04_yaml_merge_expand_lookup (n n' : YNode) (a : RFields) (h : ym_expand n = some n')
    (ha : yamlTranslate n = .ok (.map a)) :
    ∃ b, yamlTranslate n' = .ok (.map b) ∧
      ∀ k, (rlookup a k).map ym_norm = (rlookup b k).map ym_norm := by
  rcases ym_expand_rel n n' h with ⟨⟨e, he⟩, _⟩ | ⟨r, r', h1, h2, hn⟩
  · rw [ha] at he; cases he
  · rw [ha] at h1; cases h1
    cases n with
    | mapping ps =>
      rw [ym_expand] at h
      cases hm : ym_expandMerges ps with
      | none => rw [hm] at h; cases h
      | some m =>
        rw [hm] at h
        cases hl : ym_expandLocals ps with
        | none => rw [hl] at h; cases h
        | some l =>
          rw [hl] at h; cases h
          obtain ⟨b, rfl⟩ := ym_T_mapping_shape _ r' h2
          exact ⟨b, h2, (ym_norm_map_eq_iff a b).1 hn⟩
    | scalar t v f =>
      rw [ym_T_scalar] at ha
      have := (ym_scalar_shape t v f _ ha).2.1
      cases this
    | seq items => obtain ⟨xs, _, hx⟩ := ym_T_seq_shape items _ ha; cases hx
    | empty => rw [ym_T_empty] at ha; cases ha

/-- `ym_expand` leaves trees without merge keys alone, and every tree `yamlTranslate` accepts
    can be expanded -/
theorem C04_yaml_expand_sanity (n : YNode) :
    (ym_plain n = true → ym_expand n = some n) ∧
    ((∃ r, yamlTranslate n = .ok r) → ∃ n', ym_expand n = some n') := by
  refine ⟨ym_expand_of_plain n, fun hr => ?_⟩
  have := ym_wt_expand n (by rw [← ym_T_ok]; exact (ym_ok_iff _).2 hr)
  cases he : ym_expand n with
  | none => rw [he] at this; cases this
  | some n' => exact ⟨n', rfl⟩

/-- non-vacuity of `C04_yaml_merge_expand`: a two-level chain and a list form, expanded -/
example : ym_expand (.mapping [("c", .scalar "!!str" "2" ""),
      ("<<", .mapping [("<<", .seq [.mapping [("a", .scalar "!!str" "0" "")],
                                    .mapping [("a", .scalar "!!str" "9" ""),
                                              ("b", .scalar "!!str" "0" "")]]),
                       ("b", .scalar "!!str" "1" "")])]) =
    some (.mapping [("a", .scalar "!!str" "9" ""), ("b", .scalar "!!str" "0" ""),
      ("a", .scalar "!!str" "0" ""), ("b", .scalar "!!str" "1" ""),
      ("c", .scalar "!!str" "2" "")]) := by
  simp [ym_expand, ym_expandMerges, ym_expandLocals, ym_inline, ym_inlineSeq]
example : ym_expand (.mapping [("<<", .scalar "!!str" "x" "")]) = none := by
  simp [ym_expand, ym_expandMerges, ym_inline]

/-- Which error is reported may differ between a tree and its expansion (the elements of a
    `<<` list are translated first to last but merged last to first): here the tree fails with
    the `!!int` syntax error, its expansion with the unknown tag. -/
theorem C04_yaml_merge_expand_error_may_differ :
    ∃ n n', ym_expand n = some n' ∧ yamlTranslate n = .error .other ∧
      yamlTranslate n' = .error .invalidType := by
  refine ⟨.mapping [("<<", .seq [.mapping [("a", .scalar "!!int" "zz" "")],
      .mapping [("b", .scalar "!!frob" "" "")]])],
    .mapping [("b", .scalar "!!frob" "" ""), ("a", .scalar "!!int" "zz" "")], ?_, ?_, ?_⟩
  · simp [ym_expand, ym_expandMerges, ym_expandLocals, ym_inline, ym_inlineSeq]
  · have hz : yamlScalar "!!int" "zz" "" = .error .other :=
      ym_scalar_bad_int _ _ (parseInt64_none_of_bad_char "zz" 'z' (by decide) (by decide)
        (by decide) (by decide) (by decide))
    rw [yamlTranslate_mapping, ym_TM_cons_merge, ym_T_seq, ym_TL_cons, yamlTranslate_mapping,
      ym_TM_cons_other _ _ _ _ (by decide), ym_TM_nil, s_bind_ok,
      ym_TP_cons_other _ _ _ (by decide), ym_T_scalar, hz]
    rfl
  · have hb : yamlScalar "!!frob" "" "" = .error .invalidType :=
      ym_scalar_unknown_tag _ _ _ (by decide) (by decide) (by decide) (by decide) (by decide)
        (by decide)
    rw [yamlTranslate_mapping, ym_TM_cons_other _ _ _ _ (by decide),
      ym_TM_cons_other _ _ _ _ (by decide), ym_TM_nil, s_bind_ok,
      ym_TP_cons_other _ _ _ (by decide), ym_T_scalar, hb]
    rfl

/-! ## YAML merge keys against the expanded form -/

/-- After `normalize`, a tree with merge keys and its expansion (a tree without merge keys, which
    is what one writes by hand) are the same value. -/
theorem C04_yaml_merge_equals_expanded (n n' : YNode) (r : Raw) (h : ym_expand n = some n')
    (hr : yamlTranslate n = .ok r) :
    ym_plain n' = true ∧
    ∃ v, (yamlTranslate n >>= normalize) = .ok v ∧ (yamlTranslate n' >>= normalize) = .ok v := by
  refine ⟨ym_expand_plain n n' h, ?_⟩
  rcases ym_expand_rel n n' h with ⟨⟨e, he⟩, _⟩ | ⟨r1, r', h1, h2, hn⟩
  · rw [hr] at he; cases he
  · exact ⟨ym_norm r1, ym_T_normalize n r1 h1, by rw [ym_T_normalize n' r' h2, hn]⟩

/-- "YAML anchors / merge keys compared against their expanded JSON form": for data
    `base`, `pre`, `post` (entry lists of format-independent values, `ym_Logical`, no key being
    `<<`), the YAML mapping `{pre…, <<: base, post…}` is loaded as the same value as the JSON
    object one gets by expanding the merge by hand (`ym_handExpand`: the entries of `base` that
    are not overridden, then the explicit entries) — and that object has distinct keys when the
    explicit keys and `base`'s keys are distinct. -/
theorem C04_yaml_merge_equals_json (jf yf : Int → String) (base pre post : ym_LFields)
    (hb : ym_okFields base = true) (hpre : ym_okFields pre = true) (hpost : ym_okFields post = true) :
    (yamlTranslate (.mapping (ym_renderYamlFields yf pre ++
        ("<<", ym_renderYaml yf (.map base)) :: ym_renderYamlFields yf post)) >>= normalize) =
      normalize (ym_renderJson jf (.map (ym_handExpand base (pre ++ post)))) ∧
    normalize (ym_renderJson jf (.map (ym_handExpand base (pre ++ post)))) =
      .ok (ym_Logical.map (ym_handExpand base (pre ++ post))).val ∧
    (((pre ++ post).map (·.1)).Nodup → (base.map (·.1)).Nodup →
      ((ym_handExpand base (pre ++ post)).map (·.1)).Nodup) := by
  refine ⟨ym_merge_equals_json jf yf base pre post hb hpre hpost, ?_,
    fun he hbn => ym_handExpand_nodup base (pre ++ post) hbn he⟩
  have hex : ym_okFields (pre ++ post) = true := by rw [ym_okFields_append, hpre, hpost]; rfl
  exact (ym_three_formats jf yf _ (by rw [ym_Logical.ok]; exact ym_handExpand_ok _ _ hb hex)).1

/-- non-vacuity: `{a: 1, <<: {a: 0, b: 2.5}, c: [x]}` against `{"b": 2.5, "a": 1, "c": ["x"]}` -/
example : ym_okFields [("a", .int 0), ("b", .flt "2.5" "2.5")] = true ∧
    ym_okFields [("a", .int 1)] = true ∧ ym_okFields [("c", .list [.str "x"])] = true ∧
    ym_handExpand [("a", .int 0), ("b", .flt "2.5" "2.5")] ([("a", .int 1)] ++ [("c", .list [.str "x"])])
      = [("b", .flt "2.5" "2.5"), ("a", .int 1), ("c", .list [.str "x"])] := by
  have : parseInt64 "2.5" = none :=
    parseInt64_none_of_bad_char "2.5" '.' (by decide) (by decide) (by decide) (by decide) (by decide)
  refine ⟨?_, by decide, by decide, by simp [ym_handExpand]⟩
  simp [ym_okFields, ym_Logical.ok, this, int64Min, int64Max]

/-! ## exactly when a YAML document loads -/

/-- the acceptable scalars, spelled out -/
theorem C04_yaml_scalarOK_spec (t v f : String) :
    ym_scalarOK t v f = true ↔
      t = "!!str" ∨ t = "!!null" ∨ t = "!!timestamp" ∨
      (t = "!!int" ∧ ∃ i, parseInt64 v = some i) ∨
      (t = "!!float" ∧ f ≠ "") ∨
      (t = "!!bool" ∧ v ∈ ["1", "t", "T", "TRUE", "true", "True",
                            "0", "f", "F", "FALSE", "false", "False"]) := by
  unfold ym_scalarOK
  split
  · simp [ym_boolLit, or_assoc]
  · simp [Option.isSome_iff_exists]
  · simp
  · simp
  · simp
  · simp
  · rename_i h1 h2 h3 h4 h5 h6
    simp only [Bool.false_eq_true, false_iff, not_or, not_and]
    exact ⟨h5, h4, h6, fun h => absurd h h2, fun h => absurd h h3, fun h => absurd h h1⟩

/-- `yamlTranslate n >>= normalize` succeeds exactly on the well-typed trees (`ym_wt`): every
    scalar acceptable (`C04_yaml_scalarOK_spec`), every `<<` value a mapping or a sequence of
    mappings. -/
theorem C04_yaml_translate_ok_iff (n : YNode) :
    (∃ v, (yamlTranslate n >>= normalize) = .ok v) ↔ ym_wt n = true := by
  rw [← ym_T_ok, ym_ok_iff]
  constructor
  · rintro ⟨v, hv⟩
    cases hT : yamlTranslate n with
    | error e => rw [hT] at hv; cases hv
    | ok r => exact ⟨r, rfl⟩
  · rintro ⟨r, hr⟩
    exact ⟨_, ym_T_normalize n r hr⟩

/-- On node trees built only from mappings (none of whose keys is `<<`), sequences and scalars,
    all scalars being acceptable — `!!str`, `!!null`, `!!timestamp`, `!!int` with decimal int64
    text, `!!float` with a float64 value, `!!bool` with a `strconv.ParseBool` literal — loading
    succeeds; and on such trees it succeeds only if all scalars are acceptable. -/
theorem C04_yaml_translate_total_on_plain (n : YNode) (hp : ym_plain n = true) :
    (ym_scalarsOK n = true → ∃ v, (yamlTranslate n >>= normalize) = .ok v) ∧
    ((∃ v, (yamlTranslate n >>= normalize) = .ok v) → ym_scalarsOK n = true) := by
  rw [C04_yaml_translate_ok_iff, ym_plain_wt n hp]
  exact ⟨id, id⟩

/-- Every failure, classified: any error is `invalidType` or `other`; an unknown tag is
    `invalidType`; `!!int` text outside the decimal int64 grammar, `!!float` text without a
    float64 value and a `!!bool` that is no `ParseBool` literal are `other`; a `<<` whose value
    (itself loadable, the earlier `<<` entries being fine) is neither a mapping nor a sequence of
    mappings is `invalidType`. -/
theorem C04_yaml_translate_failures :
    (∀ n e, (yamlTranslate n >>= normalize) = .error e → e = .invalidType ∨ e = .other) ∧
    (∀ t v f, t ∉ ["!!bool", "!!int", "!!float", "!!null", "!!str", "!!timestamp"] →
      yamlTranslate (.scalar t v f) = .error .invalidType) ∧
    (∀ v f, parseInt64 v = none → yamlTranslate (.scalar "!!int" v f) = .error .other) ∧
    (∀ v, yamlTranslate (.scalar "!!float" v "") = .error .other) ∧
    (∀ v f, ym_boolLit v = false → yamlTranslate (.scalar "!!bool" v f) = .error .other) ∧
    (∀ pre post v r acc, yamlTranslateMerges pre [] = .ok acc → yamlTranslate v = .ok r →
      ym_mergeable v = false →
      yamlTranslate (.mapping (pre ++ ("<<", v) :: post)) = .error .invalidType) := by
  refine ⟨?_, ?_, ?_, ?_, ?_, ?_⟩
  · intro n e h
    cases hT : yamlTranslate n with
    | error e' => rw [hT] at h; cases h; exact ym_T_err n e hT
    | ok r => rw [ym_T_normalize n r hT] at h; cases h
  · intro t v f h
    simp only [List.mem_cons, List.not_mem_nil, or_false, not_or] at h
    rw [ym_T_scalar]
    exact ym_scalar_unknown_tag t v f h.1 h.2.1 h.2.2.1 h.2.2.2.1 h.2.2.2.2.1 h.2.2.2.2.2
  · intro v f h; rw [ym_T_scalar]; exact ym_scalar_bad_int v f h
  · intro v; rw [ym_T_scalar]; exact ym_scalar_bad_float v
  · intro v f h; rw [ym_T_scalar]; exact ym_scalar_bad_bool v f h
  · intro pre post v r acc h1 h2 h3; exact ym_merge_bad_value pre post v r acc h1 h2 h3

/-- non-vacuity: a plain tree that loads, and one instance of each failure class -/
example : ym_plain (.mapping [("a", .seq [.scalar "!!int" "-12" "", .scalar "!!bool" "true" ""]),
      ("b", .scalar "!!null" "~" "")]) = true := by decide
example : ym_scalarsOK (.mapping [("a", .seq [.scalar "!!int" "-12" "", .scalar "!!bool" "true" ""]),
      ("b", .scalar "!!null" "~" "")]) = true := by
  have e : toString (-12 : Int) = "-12" := by decide
  have : parseInt64 "-12" = some (-12) := e ▸ parseInt64_toString (-12) (by decide) (by decide)
  simp [ym_scalarsOK, ym_scalarsOKList, ym_scalarsOKPairs, ym_scalarOK, this, ym_boolLit]
example : "!!binary" ∉ ["!!bool", "!!int", "!!float", "!!null", "!!str", "!!timestamp"] := by decide
example : parseInt64 "0x10" = none :=
  parseInt64_none_of_bad_char "0x10" 'x' (by decide) (by decide) (by decide) (by decide) (by decide)
example : ym_boolLit "yes" = false := by decide
example : yamlTranslateMerges [("k", .empty)] [] = .ok [] ∧ yamlTranslate (.seq [.empty]) = .ok (.list [.null]) ∧
    ym_mergeable (.seq [.empty]) = false := by
  refine ⟨?_, ?_, by decide⟩
  · rw [ym_TM_cons_other _ _ _ _ (by decide), ym_TM_nil]
  · rw [ym_T_seq, ym_TL_cons, ym_T_empty, ym_TL_nil]; rfl

/-! ## one value, three formats -/

/-- for every int64 `n` and whatever float texts the decoders carry along, the JSON
    (`json.Number`), YAML (`!!int`) and TOML (`int64`) readings are the same value -/
theorem C04_toml_int_equals_yaml_int (n : Int) (fr fr' : String)
    (h1 : int64Min ≤ n) (h2 : n ≤ int64Max) :
    normalize (.jnum (toString n) fr) = normalize (.goInt64 n) ∧
    (yamlScalar "!!int" (toString n) fr' >>= normalize) = normalize (.goInt64 n) ∧
    (yamlTranslate (.scalar "!!int" (toString n) fr') >>= normalize) = normalize (.goInt64 n) ∧
    normalize (.goInt64 n) = .ok (.int n) := by
  obtain ⟨a, _, c⟩ := C04_int_exact n fr h1 h2
  obtain ⟨_, b, _⟩ := C04_int_exact n fr' h1 h2
  exact ⟨by rw [a, c], by rw [b, c], by rw [ym_T_scalar, b, c], c⟩

/-- … and likewise the three float readings, for every float text `fr ≠ ""` -/
theorem C04_toml_float_equals_yaml_float (text value fr : String) (hfr : fr ≠ "")
    (ht : parseInt64 text = none) :
    normalize (.jnum text fr) = normalize (.goFloat fr) ∧
    (yamlTranslate (.scalar "!!float" value fr) >>= normalize) = normalize (.goFloat fr) ∧
    normalize (.goFloat fr) = .ok (.flt fr) := by
  have hfr' : fr.isEmpty = false := by simpa using hfr
  obtain ⟨a, b, c⟩ := C04_float_path text value fr hfr'
  exact ⟨by rw [a ht, c], by rw [ym_T_scalar, b, c], c⟩

example : int64Min ≤ (-9223372036854775808 : Int) ∧ (-9223372036854775808 : Int) ≤ int64Max := by
  decide
example : ("1e+21" : String) ≠ "" ∧ parseInt64 "1e21" = none :=
  ⟨by decide, parseInt64_none_of_bad_char "1e21" 'e' (by decide) (by decide) (by decide)
    (by decide) (by decide)⟩

/-- The value does not depend on the format.  For every representable datum `v`
    (`ym_Logical`: null / bool / int64 / float / string / list / map; `v.ok`: integers in the
    int64 range, floats with a non-integer literal and a float64 value, no map key `<<`) the
    JSON reading (`json.Number`s, `ym_renderJson`), the TOML reading (`int64`, `float64`,
    `[]map[string]any` for arrays of tables, `ym_renderToml`) and the YAML reading (a yaml.v3
    node tree, `ym_renderYaml`, through `yamlTranslate`) all normalise to the one value `v.val`
    — whatever float texts (`jf`, `yf`) the decoders attach to integers, and without any
    assumption on duplicate map keys (the last entry wins in all three). -/
theorem C04_three_formats_agree (jf yf : Int → String) (v : ym_Logical) (h : v.ok = true) :
    normalize (ym_renderJson jf v) = .ok v.val ∧
    normalize (ym_renderToml v) = .ok v.val ∧
    (yamlTranslate (ym_renderYaml yf v) >>= normalize) = .ok v.val :=
  ym_three_formats jf yf v h

/-- non-vacuity: `{"n": -9223372036854775808, "xs": [{"a": 1.5}, {"a": null}], "s": [true, "t"]}`;
    its TOML reading uses `[]map[string]any` for `xs` -/
example : (ym_Logical.map [("n", .int (-9223372036854775808)),
      ("xs", .list [.map [("a", .flt "1.5" "1.5")], .map [("a", .null)]]),
      ("s", .list [.bool true, .str "t"])]).ok = true := by
  have : parseInt64 "1.5" = none :=
    parseInt64_none_of_bad_char "1.5" '.' (by decide) (by decide) (by decide) (by decide) (by decide)
  simp [ym_Logical.ok, ym_okFields, ym_okList, this, int64Min, int64Max]
example : ym_renderToml (.map [("xs", .list [.map [("a", .int 1)], .map [("a", .null)]])]) =
    .map [("xs", .listOfMaps [[("a", .goInt64 1)], [("a", .null)]])] := by
  simp [ym_renderToml, ym_renderTomlFields, ym_tomlTables]

end Bkl
