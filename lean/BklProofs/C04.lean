/-
  C04 — "Results do not depend on which format (JSON/YAML/TOML) a layer is written in."

  The three decoders hand bkl different Go representations of the same data (`Raw`,
  Bkl/Stream.lean): json.Number text, YAML `int`/`int64`/`float64` after
  yaml.go:yamlTranslateNode, go-toml `int64`, `[]map[string]any`, Go maps in random order.
  `normalize` maps all of them into the one value domain `Val`, and the theorems below say that
  the same datum gets the same `Val` whichever decoder produced it.

  * `C04_int_exact`            an int64 `n` is `.int n` via JSON, YAML and TOML
  * `C04_normalize_total`      normalisation fails only on `map[any]any`, with `invalidType`
  * `C04_float_path`           non-integers become `.flt` of the same `%v` text
  * `C04_compare_canonical`    equality of normalised integers is equality of integers,
                               whatever the source; an integer never equals a float
  * `C04_map_order_irrelevant` the order in which a decoder lists map entries is irrelevant
  * `C04_yaml_merge_key`, `C04_yaml_merge_key_list`  YAML `<<` semantics
  * `C04_toml_array_of_tables` `[]map[string]any` ≡ `[]any` of maps

  Helper lemmas and the definitions `hasMapAny`, `rput`, `rlookup`, `rlookupMaps` are in
  BklProofs/Lemmas/Stream.lean.  `(toString n).toInt? = some n` is `Int.toInt?_repr` of Lean's
  `Std.Data.String.ToInt`; no round-trip hypothesis is needed.
-/
import BklProofs.Lemmas.Stream
namespace Bkl

/-! ## integers -/

/-- For every int64 `n`, the three decoders' representations of `n` all normalise to `.int n`:
    JSON (`json.Number` with text `toString n`), YAML (`!!int` scalar: `int` when it fits
    32 bits, `int64` otherwise), TOML (`int64`). -/
theorem C04_int_exact (n : Int) (fr : String) (h1 : int64Min ≤ n) (h2 : n ≤ int64Max) :
    normalize (.jnum (toString n) fr) = .ok (.int n) ∧
    (yamlScalar "!!int" (toString n) fr >>= normalize) = .ok (.int n) ∧
    normalize (.goInt64 n) = .ok (.int n) := by
  refine ⟨?_, ?_, by rw [normalize]; rfl⟩
  · rw [normalize_jnum, parseInt64_toString n h1 h2]
  · rw [yamlScalar_int_toString n fr h1 h2]
    split <;> (rw [s_bind_ok, normalize]; rfl)

example : int64Min ≤ (-9223372036854775808 : Int) ∧ (-9223372036854775808 : Int) ≤ int64Max := by
  decide
example : int64Min ≤ (2147483648 : Int) ∧ (2147483648 : Int) ≤ int64Max := by decide

/-- the YAML representation: Go `int` when the value fits 32 bits, `int64` otherwise -/
theorem C04_yaml_int_repr (n : Int) (fr : String) (h1 : int64Min ≤ n) (h2 : n ≤ int64Max) :
    yamlScalar "!!int" (toString n) fr =
      if -(2147483648 : Int) ≤ n ∧ n < 2147483648 then .ok (.goInt n) else .ok (.goInt64 n) :=
  yamlScalar_int_toString n fr h1 h2

/-- the key fact behind the JSON case: decimal text of an int64 parses back to it -/
theorem C04_parseInt64_toString (n : Int) (h1 : int64Min ≤ n) (h2 : n ≤ int64Max) :
    parseInt64 (toString n) = some n := parseInt64_toString n h1 h2

/-- out of the int64 range json.Number.Int64 fails and the number is a float -/
theorem C04_int_out_of_range (n : Int) (fr : String) (h : n < int64Min ∨ int64Max < n)
    (hfr : fr.isEmpty = false) :
    normalize (.jnum (toString n) fr) = .ok (.flt fr) := by
  have : parseInt64 (toString n) = none := by
    unfold parseInt64
    rw [goDecInt_toString]
    have : ¬ (int64Min ≤ n ∧ n ≤ int64Max) := by
      intro ⟨a, b⟩; omega
    simp only [this, if_false]
  rw [normalize_jnum, this]
  simp [hfr]

example : (9223372036854775808 : Int) < int64Min ∨ int64Max < (9223372036854775808 : Int) := by
  decide

/-- Go's `strconv.ParseInt(_, 10, _)` grammar as modelled: `1_000` (accepted by Lean's own
    `String.toInt?`) and a text with any non-digit are not integers, `+7` is. -/
theorem C04_goDecInt_grammar :
    goDecInt "1_000" = none ∧ goDecInt "+7" = some 7 ∧ goDecInt "+" = none ∧ goDecInt "+-7" = none ∧
    (∀ n : Int, goDecInt (toString n) = some n) := by
  refine ⟨?_, ?_, ?_, ?_, goDecInt_toString⟩
  · unfold goDecInt
    have h : "1_000".toList = ['1', '_', '0', '0', '0'] := by decide
    rw [h]; decide
  · unfold goDecInt
    have h : "+7".toList = ['+', '7'] := by decide
    rw [h]
    have h2 : String.ofList ['7'] = toString (7 : Int) := by decide
    simp only [List.isEmpty_cons, List.all_cons, List.all_nil, Bool.false_or]
    rw [h2, int_toString_toInt]
    decide
  · unfold goDecInt
    have h : "+".toList = ['+'] := by decide
    rw [h]; decide
  · unfold goDecInt
    have h : "+-7".toList = ['+', '-', '7'] := by decide
    rw [h]; decide

/-! ## `normalize` is total except for `map[any]any` -/

/-- `normalize r` fails iff `r` contains a `map[any]any` or a JSON number that is neither an int64 nor
    convertible to float64 (`hasMapAny`), and then with `invalidType` resp. the conversion error -/
theorem C04_normalize_total (r : Raw) :
    ((∃ e, normalize r = .error e) ↔ hasMapAny r = true) ∧
    (∀ e, normalize r = .error e → e = .invalidType ∨ e = .other) ∧
    (hasMapAny r = false → ∃ v, normalize r = .ok v) := by
  rcases normalize_outcome r with ⟨hb, hr⟩ | ⟨hb, v, hr⟩
  · refine ⟨⟨fun _ => hb, fun _ => by rcases hr with hr | hr <;> exact ⟨_, hr⟩⟩, ?_, ?_⟩
    · intro e he
      rcases hr with hr | hr <;> (rw [hr] at he; cases he)
      · exact Or.inl rfl
      · exact Or.inr rfl
    · intro h; rw [hb] at h; cases h
  · refine ⟨⟨?_, ?_⟩, ?_, fun _ => ⟨v, hr⟩⟩
    · rintro ⟨e, he⟩; rw [hr] at he; cases he
    · intro h; rw [hb] at h; cases h
    · intro e he; rw [hr] at he; cases he

example : hasMapAny (.map [("a", .list [.goInt 1, .mapAny])]) = true := by decide
example : normalize (.map [("a", .list [.goInt 1, .mapAny])]) = .error .invalidType := by
  simp [normalize, normalizeFields, normalizeList, bind, Except.bind, throw, throwThe,
    MonadExceptOf.throw, pure, Except.pure]
example : hasMapAny (.map [("a", .list [.goInt 1, .goFloat "2"])]) = false := by decide

/-! ## floats -/

/-- JSON non-integers, YAML `!!float` and TOML floats all become `.flt` of the `%v` text -/
theorem C04_float_path (text value fr : String) (hfr : fr.isEmpty = false) :
    (parseInt64 text = none → normalize (.jnum text fr) = .ok (.flt fr)) ∧
    (yamlScalar "!!float" value fr >>= normalize) = .ok (.flt fr) ∧
    normalize (.goFloat fr) = .ok (.flt fr) := by
  refine ⟨?_, ?_, by rw [normalize]; rfl⟩
  · intro h; rw [normalize_jnum, h]; simp [hfr]
  · rw [yamlScalar_float]; simp only [hfr, Bool.false_eq_true, if_false]; rw [s_bind_ok, normalize]; rfl

/-- a literal no float64 can hold (`fr = ""`: `strconv.ParseFloat` / `json.Number.Float64` failed, e.g.
    `1e400`) is an error in every format, never a silently different number -/
theorem C04_float_unrepresentable_is_error (text value : String) (h : parseInt64 text = none) :
    normalize (.jnum text "") = .error .other ∧
    (yamlScalar "!!float" value "" >>= normalize) = .error .other := by
  refine ⟨?_, ?_⟩
  · rw [normalize_jnum, h]; rfl
  · rw [yamlScalar_float]; rfl

/-- non-vacuity: `1.5` is not an integer text, so JSON `1.5` is the float `1.5` -/
example : parseInt64 "1.5" = none :=
  parseInt64_none_of_bad_char "1.5" '.' (by decide) (by decide) (by decide) (by decide) (by decide)
example : normalize (.jnum "1.5" "1.5") = .ok (.flt "1.5") :=
  (C04_float_path "1.5" "" "1.5" (by decide)).1
    (parseInt64_none_of_bad_char "1.5" '.' (by decide) (by decide) (by decide) (by decide) (by decide))
/-- … and JSON `1e3` too (json.Number.Int64 fails on it), with `%v` text `1000` -/
example : normalize (.jnum "1e3" "1000") = .ok (.flt "1000") :=
  (C04_float_path "1e3" "" "1000" (by decide)).1
    (parseInt64_none_of_bad_char "1e3" 'e' (by decide) (by decide) (by decide) (by decide) (by decide))

/-! ## comparison is structural after normalisation -/

/-- Go compares scalars with `==` on interface values (dynamic type AND value).  After
    normalisation every integer is an `.int` and every float a `.flt`, so equality of normalised
    integers from any two sources is equality of the integers, and an integer never equals a
    float. -/
theorem C04_compare_canonical (a b : Int) (fr r : String)
    (ha : int64Min ≤ a ∧ a ≤ int64Max) :
    (normalize (.goInt a) = normalize (.goInt64 b) ↔ a = b) ∧
    (normalize (.goInt a) = normalize (.goInt b) ↔ a = b) ∧
    (normalize (.goInt64 a) = normalize (.goInt64 b) ↔ a = b) ∧
    (normalize (.jnum (toString a) fr) = normalize (.goInt64 b) ↔ a = b) ∧
    (normalize (.jnum (toString a) fr) = normalize (.goInt b) ↔ a = b) ∧
    ((yamlScalar "!!int" (toString a) fr >>= normalize) = normalize (.goInt64 b) ↔ a = b) ∧
    ((yamlScalar "!!int" (toString a) fr >>= normalize) = normalize (.jnum (toString a) r)) ∧
    normalize (.goInt a) ≠ normalize (.goFloat r) ∧
    normalize (.goInt64 a) ≠ normalize (.goFloat r) ∧
    normalize (.jnum (toString a) fr) ≠ normalize (.goFloat r) := by
  obtain ⟨j1, y1, _⟩ := C04_int_exact a fr ha.1 ha.2
  obtain ⟨j2, _, _⟩ := C04_int_exact a r ha.1 ha.2
  have gi : ∀ i, normalize (.goInt i) = .ok (.int i) := fun i => by rw [normalize]; rfl
  have g64 : ∀ i, normalize (.goInt64 i) = .ok (.int i) := fun i => by rw [normalize]; rfl
  have gf : normalize (.goFloat r) = .ok (.flt r) := by rw [normalize]; rfl
  have key : (Except.ok (Val.int a) : R Val) = .ok (.int b) ↔ a = b :=
    ⟨fun h => by injection h with h; injection h, fun h => by rw [h]⟩
  rw [j1, y1, j2, gi, gi, g64, g64, gf]
  have ne : (Except.ok (Val.int a) : R Val) ≠ .ok (.flt r) := by
    intro h; injection h with h; cases h
  exact ⟨key, key, key, key, key, key, rfl, ne, ne, ne⟩

example : int64Min ≤ (42 : Int) ∧ (42 : Int) ≤ int64Max := by decide

/-! ## maps -/

/-- Go maps are unordered and decoders list entries in different orders: for entry lists with
    distinct keys that are permutations of each other normalisation fails for both or yields the
    same map for both (which of the two possible errors is met first may depend on the order) -/
theorem C04_map_order_irrelevant (kvs' kvs : List (String × Raw)) (hp : kvs'.Perm kvs)
    (hn : (kvs.map (·.1)).Nodup) :
    (∃ e' e, normalize (.map kvs') = .error e' ∧ normalize (.map kvs) = .error e) ∨
    (∃ v, normalize (.map kvs') = .ok v ∧ normalize (.map kvs) = .ok v) :=
  normalize_map_perm hp hn

example : [("b", Raw.goInt 2), ("a", Raw.str "x")].Perm [("a", .str "x"), ("b", .goInt 2)] ∧
    ([("a", Raw.str "x"), ("b", Raw.goInt 2)].map (·.1)).Nodup := by
  refine ⟨List.Perm.swap _ _ _, by decide⟩

/-- the normalised map is key-sorted whatever the decoder's order -/
theorem C04_map_sorted (kvs : List (String × Raw)) (v : Val) (h : normalize (.map kvs) = .ok v) :
    ∃ fs, v = .map fs ∧ Fields.SortedKeys fs := by
  rw [normalize_map] at h
  cases hf : normalizeFields kvs with
  | error e => rw [hf] at h; cases h
  | ok fs => rw [hf] at h; cases h; exact ⟨_, rfl, sorted_fofList fs⟩

example : normalize (.map [("b", .goInt 2), ("a", .str "x")])
    = .ok (.map [("a", .str "x"), ("b", .int 2)]) := by decide

/-! ## YAML merge keys -/

/-- A mapping with exactly one `<<` entry whose value is a mapping `m`, and local pairs `ls`
    (= the translated non-`<<` pairs): the result has distinct keys, and looking a key up gives
    the local value if there is one, else `m`'s. -/
theorem C04_yaml_merge_key (pre post : List (String × YNode)) (x : YNode) (m ls : RFields)
    (hpre : ∀ p ∈ pre, p.1 ≠ "<<") (hpost : ∀ p ∈ post, p.1 ≠ "<<")
    (hx : yamlTranslate x = .ok (.map m))
    (hl : yamlTranslatePairs (pre ++ post) = .ok ls) :
    ∃ res, yamlTranslate (.mapping (pre ++ ("<<", x) :: post)) = .ok (.map res) ∧
      (res.map (·.1)).Nodup ∧
      ∀ k, rlookup res k = match rlookup ls k with
        | some v => some v
        | none => rlookup m k := by
  refine ⟨_, yamlTranslate_one_merge pre post x (.map m) _ ls hpre hpost hx
    (yamlMergeInto_map [] m) hl, ?_, ?_⟩
  · exact foldl_rput_keys_nodup ls _ (foldl_rput_keys_nodup m [] List.nodup_nil)
  · intro k
    rw [rlookup_foldl_rput, rlookup_foldl_rput]
    cases rlookup ls k with
    | some v => rfl
    | none => simp only [rlookup]; cases rlookup m k <;> rfl

/-- The list form `<<: [m₁, …, mₙ]`: locals win over every `mᵢ`, and an earlier `mᵢ` wins over
    a later one (`rlookupMaps` = the first mapping that has the key). -/
theorem C04_yaml_merge_key_list (pre post : List (String × YNode)) (x : YNode)
    (ms : List RFields) (ls : RFields)
    (hpre : ∀ p ∈ pre, p.1 ≠ "<<") (hpost : ∀ p ∈ post, p.1 ≠ "<<")
    (hx : yamlTranslate x = .ok (.list (ms.map Raw.map)))
    (hl : yamlTranslatePairs (pre ++ post) = .ok ls) :
    ∃ res, yamlTranslate (.mapping (pre ++ ("<<", x) :: post)) = .ok (.map res) ∧
      (res.map (·.1)).Nodup ∧
      ∀ k, rlookup res k = match rlookup ls k with
        | some v => some v
        | none => rlookupMaps ms k := by
  refine ⟨_, yamlTranslate_one_merge pre post x _ _ ls hpre hpost hx
    (yamlMergeInto_list_maps [] ms) hl, ?_, ?_⟩
  · exact foldl_rput_keys_nodup ls _ (rmergeAll_keys_nodup ms [] List.nodup_nil)
  · intro k
    rw [rlookup_foldl_rput, rlookup_rmergeAll]
    cases rlookup ls k with
    | some v => rfl
    | none => simp only [rlookup]; cases rlookupMaps ms k <;> rfl

/-- non-vacuity of the two theorems above: `{a: 1, <<: {a: 0, b: 2}, c: 3}` and
    `{a: 1, <<: [{a: 0}, {a: 9, b: 2}], c: 3}` -/
example : ∃ res, yamlTranslate (.mapping ([("a", .scalar "!!str" "1" "")] ++
      ("<<", .mapping [("a", .scalar "!!str" "0" ""), ("b", .scalar "!!str" "2" "")]) ::
      [("c", .scalar "!!str" "3" "")])) = .ok (.map res) ∧ (res.map (·.1)).Nodup ∧
      ∀ k, rlookup res k = match rlookup [("a", .str "1"), ("c", .str "3")] k with
        | some v => some v
        | none => rlookup [("a", .str "0"), ("b", .str "2")] k :=
  C04_yaml_merge_key _ _ _ _ _ (by decide) (by decide) (by rfl) (by rfl)
example : ∃ res, yamlTranslate (.mapping ([("a", .scalar "!!str" "1" "")] ++
      ("<<", .seq [.mapping [("a", .scalar "!!str" "0" "")],
                   .mapping [("a", .scalar "!!str" "9" ""), ("b", .scalar "!!str" "2" "")]]) ::
      [("c", .scalar "!!str" "3" "")])) = .ok (.map res) ∧ (res.map (·.1)).Nodup ∧
      ∀ k, rlookup res k = match rlookup [("a", .str "1"), ("c", .str "3")] k with
        | some v => some v
        | none => rlookupMaps [[("a", .str "0")], [("a", .str "9"), ("b", .str "2")]] k :=
  C04_yaml_merge_key_list _ _ _ [[("a", .str "0")], [("a", .str "9"), ("b", .str "2")]] _
    (by decide) (by decide) (by rfl) (by rfl)

/-- merging something that is neither a mapping nor a list of mappings is `invalidType` -/
theorem C04_yaml_merge_key_scalar (pairs : List (String × YNode)) (s : String) :
    yamlTranslate (.mapping (("<<", .scalar "!!str" s "") :: pairs)) = .error .invalidType := by
  rw [yamlTranslate_mapping, yamlTranslateMerges]
  simp only [beq_self_eq_true, if_true]
  rw [yamlTranslate]
  rfl

/-- concrete instance (`{a: 1, <<: {a: 0, b: 2}, c: 3}` → a=1 (local wins), b=2, c=3) -/
theorem C04_yaml_merge_key_instance :
    yamlTranslate (.mapping [("a", .scalar "!!str" "1" ""),
        ("<<", .mapping [("a", .scalar "!!str" "0" ""), ("b", .scalar "!!str" "2" "")]),
        ("c", .scalar "!!str" "3" "")]) =
      .ok (.map [("b", .str "2"), ("a", .str "1"), ("c", .str "3")]) := by
  have hx : yamlTranslate (.mapping [("a", .scalar "!!str" "0" ""), ("b", .scalar "!!str" "2" "")])
      = .ok (.map [("a", .str "0"), ("b", .str "2")]) := by
    rw [yamlTranslate_mapping, yamlTranslateMerges_no_merge _ _ (by decide)]
    simp only [yamlTranslatePairs, yamlTranslate]
    rfl
  have hl : yamlTranslatePairs ([("a", YNode.scalar "!!str" "1" "")] ++
      [("c", YNode.scalar "!!str" "3" "")]) = .ok [("a", .str "1"), ("c", .str "3")] := by
    simp only [List.cons_append, List.nil_append, yamlTranslatePairs, yamlTranslate]
    rfl
  have := yamlTranslate_one_merge [("a", .scalar "!!str" "1" "")] [("c", .scalar "!!str" "3" "")]
    _ _ _ _ (by decide) (by decide) hx (yamlMergeInto_map [] _) hl
  rw [List.cons_append, List.nil_append] at this
  rw [this]
  rfl

/-- concrete instance of the list form (`{<<: [{a: 1}, {a: 2, b: 2}]}` → a=1: earlier wins) -/
theorem C04_yaml_merge_key_list_instance :
    yamlMergeInto [] (.list [.map [("a", .str "1")], .map [("a", .str "2"), ("b", .str "2")]]) =
      .ok [("b", .str "2"), ("a", .str "1")] := by
  rw [show [Raw.map [("a", .str "1")], .map [("a", .str "2"), ("b", .str "2")]] =
    [[("a", Raw.str "1")], [("a", .str "2"), ("b", .str "2")]].map Raw.map from rfl,
    yamlMergeInto_list_maps]
  rfl

/-! ## go-toml arrays of tables -/

theorem C04_toml_array_of_tables (ms : List (List (String × Raw))) :
    normalize (.listOfMaps ms) = normalize (.list (ms.map .map)) := normalize_listOfMaps ms

end Bkl
