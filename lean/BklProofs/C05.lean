/-
  C05 — "Output round-trips in every format: what bkl writes reads back unchanged."

  The three third-party single-document codecs (yaml.v3, go-toml, encoding/json) are a
  *parameter* `c : Codec` of the model (Bkl/Stream.lean).  What is proved here is that the
  multi-document framing bkl puts around them (json.go / yaml.go / toml.go) loses nothing,
  *provided* the codec meets `CodecOK c isSep dom` (BklProofs/Lemmas/Stream.lean): on its domain
  `dom`, `c.enc v` succeeds with text that contains no separator line and at least one non-blank
  line, and `c.dec` of that text gives `v` back.  Whether the real codecs meet `CodecOK` is what
  the differential run checks.

  * `C05_splitAt_join`            the framing lemma: splitting the joined blocks gives the blocks
  * `C05_yaml_stream_rt`          YAML: a non-empty stream of non-null documents round-trips
  * `C05_yaml_stream_rt_inner_null`  … also with null documents anywhere but in first position
  * `C05_toml_stream_rt`          TOML: same (non-null documents)
  * `C05_toml_stream_rt_null`     … also with null documents when `c.dec [] = null`
  * `C05_json_stream_rt`          JSON lines: every stream (also the empty one) round-trips
  * `C05_leading_null_dropped`, `C05_leading_null_counterexample`
                                  a leading null YAML document does NOT survive the framing
  * `C05_empty_stream_counterexample`  nor does the empty stream (it reads back as one null)
  * `C05_outputs_nonnull`, `C05_outputDocuments_nonnull`
                                  … which is harmless, because `Output` never hands a null to a codec
  * `C05_format_choice*`, `C05_cli_format_supported`, `C05_cli_unknown_format`, `C05_alias`
                                  which format is written

  Helper lemmas (and the definitions `joinWith`, `CodecOK`, `blankLine`, `streamBody`,
  `toyCodec`, `finalFormat`, `cliFinish`, `extOfChars`, `lastCompChars`) are in
  BklProofs/Lemmas/Stream.lean.
-/
import BklProofs.Lemmas.Stream
namespace Bkl

/-! ## the framing lemma -/

/-- For blocks `b₁ … bₙ` (n ≥ 1) none of which contains a separator line:
    `splitAt isSep (b₁ ++ [sep] ++ b₂ ++ … ++ [sep] ++ bₙ) = [b₁, …, bₙ]`. -/
theorem C05_splitAt_join (isSep : String → Bool) (sep : String) (hs : isSep sep = true)
    (blocks : List Lines) (hne : blocks ≠ [])
    (hfree : ∀ b ∈ blocks, ∀ l ∈ b, isSep l = false) :
    splitAt isSep (joinWith sep blocks) = blocks := by
  cases blocks with
  | nil => exact absurd rfl hne
  | cons b bs => exact splitAt_joinWith isSep sep hs b bs hfree

/-- non-vacuity, and what goes wrong for `n = 0`: the empty text is ONE (empty) part -/
example : splitAt sepYaml (joinWith "---" [["a: 1"], [], ["b: 2", "c: 3"]])
    = [["a: 1"], [], ["b: 2", "c: 3"]] := by decide
example : splitAt sepYaml (joinWith "---" []) = [[]] := by decide

/-- the number of parts is the number of separator lines plus one -/
theorem C05_splitAt_length (isSep : String → Bool) (t : Lines) :
    (splitAt isSep t).length = (t.filter isSep).length + 1 := splitAt_length isSep t

/-! ## YAML -/

/-- A codec that is OK for `sepYaml` on `dom`, a NON-EMPTY list of non-null values in `dom`:
    the stream is written, and reading the written text gives the values back. -/
theorem C05_yaml_stream_rt (c : Codec) (dom : Val → Prop) (ok : CodecOK c sepYaml dom)
    (vs : List Val) (hne : vs ≠ []) (hnn : ∀ v ∈ vs, v ≠ .null) (hd : ∀ v ∈ vs, dom v) :
    ∃ text, yamlMarshalStream c vs = .ok text ∧ yamlUnmarshalStream c text = .ok vs := by
  cases vs with
  | nil => exact absurd rfl hne
  | cons v vs =>
    exact yaml_rt_general c dom ok v vs (hnn v List.mem_cons_self) (fun w hw _ => hd w hw)

/-- the same as one equation in the `R` monad -/
theorem C05_yaml_stream_rt' (c : Codec) (dom : Val → Prop) (ok : CodecOK c sepYaml dom)
    (vs : List Val) (hne : vs ≠ []) (hnn : ∀ v ∈ vs, v ≠ .null) (hd : ∀ v ∈ vs, dom v) :
    (do let t ← yamlMarshalStream c vs; yamlUnmarshalStream c t) = .ok vs := by
  obtain ⟨text, h1, h2⟩ := C05_yaml_stream_rt c dom ok vs hne hnn hd
  rw [h1]; exact h2

/-- null documents are fine everywhere except in first position (they are written as a bare
    `---` and an empty part reads back as null) -/
theorem C05_yaml_stream_rt_inner_null (c : Codec) (dom : Val → Prop) (ok : CodecOK c sepYaml dom)
    (v : Val) (vs : List Val) (hv : v ≠ .null) (hd : ∀ w ∈ v :: vs, w ≠ .null → dom w) :
    ∃ text, yamlMarshalStream c (v :: vs) = .ok text ∧
      yamlUnmarshalStream c text = .ok (v :: vs) :=
  yaml_rt_general c dom ok v vs hv hd

/-- non-vacuity: the toy codec (integers as decimal text) is OK for YAML and for TOML on all
    integers -/
example : CodecOK toyCodec sepYaml toyDom := toyCodec_ok_yaml
example : CodecOK toyCodec sepToml toyDom := toyCodec_ok_toml
example : ∃ text, yamlMarshalStream toyCodec [.int 1, .int (-2)] = .ok text ∧
    yamlUnmarshalStream toyCodec text = .ok [.int 1, .int (-2)] :=
  C05_yaml_stream_rt toyCodec toyDom toyCodec_ok_yaml _ (by simp) (by simp)
    (by simp [toyDom])
example : yamlMarshalStream toyCodec [.int 1, .null, .int (-2)] = .ok ["1", "---", "---", "-2"] := by
  decide
example : ∃ text, yamlMarshalStream toyCodec [.int 1, .null, .int (-2)] = .ok text ∧
    yamlUnmarshalStream toyCodec text = .ok [.int 1, .null, .int (-2)] :=
  C05_yaml_stream_rt_inner_null toyCodec toyDom toyCodec_ok_yaml _ _ (by simp)
    (by simp [toyDom])

/-- A part of the text that holds SEVERAL documents (`--- # comment`, `--- {a: 1}` and `--- ` start
    a document without being separator lines): the reader returns all of them, in order — none is
    dropped (the defect repaired by /repo 8a5c059 returned only the first). -/
theorem C05_yaml_part_all_documents (c : Codec) (part : Lines) (ds : List Val)
    (hsep : ∀ l ∈ part, sepYaml l = false) (hb : part.all blankLine = false)
    (hd : c.decMany part = .ok ds) (hne : ds ≠ []) :
    yamlUnmarshalStream c part = .ok ds := by
  rw [yamlUnmarshalStream_eq, splitAt_block sepYaml part hsep]
  simp only [List.mapM_cons, List.mapM_nil, yamlPartDocs_eq, hb, Bool.false_eq_true, if_false, hd,
    s_bind_ok, s_pure]
  cases ds with
  | nil => exact absurd rfl hne
  | cons d ds => simp [pure, Except.pure, bind, Except.bind]

/-- non-vacuity: a codec whose decoder loop finds two documents in the three-line part -/
example : yamlUnmarshalStream { toyCodec with decMany := fun _ => .ok [.int 1, .int 2] }
    ["a: 1", "--- # next", "b: 2"] = .ok [.int 1, .int 2] :=
  C05_yaml_part_all_documents _ _ _ (by decide)
    (by rw [List.all_eq_false]; exact ⟨"a: 1", by simp, by rw [blankLine_eq]; decide⟩) rfl (by simp)

/-- … and a part without any document (blank, or comments only) is one empty document -/
theorem C05_yaml_part_no_document (c : Codec) (part : Lines)
    (hsep : ∀ l ∈ part, sepYaml l = false) (hb : part.all blankLine = false)
    (hd : c.decMany part = .ok []) :
    yamlUnmarshalStream c part = .ok [.null] := by
  rw [yamlUnmarshalStream_eq, splitAt_block sepYaml part hsep]
  simp [List.mapM_cons, List.mapM_nil, yamlPartDocs_eq, hb, hd, pure, Except.pure, bind, Except.bind]

/-! ## TOML -/

theorem C05_toml_stream_rt (c : Codec) (dom : Val → Prop) (ok : CodecOK c sepToml dom)
    (vs : List Val) (hne : vs ≠ []) (hnn : ∀ v ∈ vs, v ≠ .null) (hd : ∀ v ∈ vs, dom v) :
    ∃ text, tomlMarshalStream c vs = .ok text ∧ tomlUnmarshalStream c text = .ok vs := by
  cases vs with
  | nil => exact absurd rfl hne
  | cons v vs =>
    exact toml_rt_general c dom ok v vs (fun w hw _ => hd w hw)
      (fun hm => absurd rfl (hnn _ hm))

theorem C05_toml_stream_rt' (c : Codec) (dom : Val → Prop) (ok : CodecOK c sepToml dom)
    (vs : List Val) (hne : vs ≠ []) (hnn : ∀ v ∈ vs, v ≠ .null) (hd : ∀ v ∈ vs, dom v) :
    (do let t ← tomlMarshalStream c vs; tomlUnmarshalStream c t) = .ok vs := by
  obtain ⟨text, h1, h2⟩ := C05_toml_stream_rt c dom ok vs hne hnn hd
  rw [h1]; exact h2

/-- TOML writes a null document as nothing, in every position; it reads back as null iff the
    codec decodes the empty text to null -/
theorem C05_toml_stream_rt_null (c : Codec) (dom : Val → Prop) (ok : CodecOK c sepToml dom)
    (hnull : c.dec [] = .ok .null)
    (vs : List Val) (hne : vs ≠ []) (hd : ∀ v ∈ vs, v ≠ .null → dom v) :
    ∃ text, tomlMarshalStream c vs = .ok text ∧ tomlUnmarshalStream c text = .ok vs := by
  cases vs with
  | nil => exact absurd rfl hne
  | cons v vs => exact toml_rt_general c dom ok v vs hd (fun _ => hnull)

example : toyCodec.dec [] = .ok .null := rfl
example : ∃ text, tomlMarshalStream toyCodec [.null, .int 10, .null] = .ok text ∧
    tomlUnmarshalStream toyCodec text = .ok [.null, .int 10, .null] :=
  C05_toml_stream_rt_null toyCodec toyDom toyCodec_ok_toml rfl _ (by simp) (by simp [toyDom])
example : tomlMarshalStream toyCodec [.null, .int 10, .null] = .ok ["---", "10", "---"] := by decide
example : ∃ text, tomlMarshalStream toyCodec [.int 10, .int 0] = .ok text ∧
    tomlUnmarshalStream toyCodec text = .ok [.int 10, .int 0] :=
  C05_toml_stream_rt toyCodec toyDom toyCodec_ok_toml _ (by simp) (by simp)
    (by simp [toyDom])

/-! ## JSON (compact writer: one value per line) -/

/-- a codec whose `enc v` is exactly one line `l` with `dec [l] = v`: every stream, including
    the empty one, round-trips -/
theorem C05_json_stream_rt (c : Codec) (dom : Val → Prop)
    (ok : ∀ v, dom v → ∃ l, c.enc v = .ok [l] ∧ c.dec [l] = .ok v)
    (vs : List Val) (hd : ∀ v ∈ vs, dom v) :
    (do let t ← jsonMarshalStream c vs; jsonUnmarshalLines c t) = .ok vs := by
  obtain ⟨text, h1, h2⟩ := json_rt c dom ok vs hd
  rw [h1]; exact h2

example : ∀ v, toyDom v → ∃ l, toyCodec.enc v = .ok [l] ∧ toyCodec.dec [l] = .ok v :=
  toyCodec_ok_json
example : (do let t ← jsonMarshalStream toyCodec []; jsonUnmarshalLines toyCodec t) = .ok [] :=
  C05_json_stream_rt toyCodec toyDom toyCodec_ok_json [] (by simp)

/-! ## what does NOT round-trip through the YAML framing -/

/-- a null document in front of a non-null one leaves no trace in the text -/
theorem C05_leading_null_dropped (c : Codec) (v : Val) (hv : v ≠ .null) (vs : List Val) :
    yamlMarshalStream c (.null :: v :: vs) = yamlMarshalStream c (v :: vs) :=
  yamlMarshalStream_null_cons c v hv vs

/-- … so with an OK codec the stream `[null, v]` reads back as `[v]` -/
theorem C05_leading_null_lost (c : Codec) (dom : Val → Prop) (ok : CodecOK c sepYaml dom)
    (v : Val) (hv : v ≠ .null) (hd : dom v) :
    (do let t ← yamlMarshalStream c [.null, v]; yamlUnmarshalStream c t) = .ok [v] := by
  rw [C05_leading_null_dropped c v hv []]
  exact C05_yaml_stream_rt' c dom ok [v] (by simp) (by simpa using hv) (by simpa using hd)

/-- concrete instance with the toy codec: `[null, 1]` is written as the single line `1` and
    reads back as `[1]` -/
theorem C05_leading_null_counterexample :
    yamlMarshalStream toyCodec [.null, .int 1] = .ok ["1"] ∧
    (do let t ← yamlMarshalStream toyCodec [.null, .int 1]; yamlUnmarshalStream toyCodec t)
      = .ok [.int 1] ∧
    (do let t ← yamlMarshalStream toyCodec [.null, .int 1]; yamlUnmarshalStream toyCodec t)
      ≠ .ok [.null, .int 1] := by
  have h := C05_leading_null_lost toyCodec toyDom toyCodec_ok_yaml (.int 1) (by simp) ⟨1, rfl⟩
  refine ⟨by decide, h, ?_⟩
  rw [h]
  intro e
  injection e with e
  injection e with e1 _
  cases e1

/-- the empty stream is written as the empty text, which reads back as ONE null document
    (for every codec) -/
theorem C05_empty_stream_counterexample (c : Codec) :
    (do let t ← yamlMarshalStream c []; yamlUnmarshalStream c t) = .ok [.null] := rfl

/-! ## everything `Output` hands to a codec is non-null -/

theorem C05_outputs_nonnull (ds outs : List Val) (h : emit ds = .ok outs) :
    ∀ o ∈ outs, o ≠ .null := emit_nonnull ds outs h

theorem C05_outputDocuments_nonnull (docs : List Val) (env : Vars) (outs : List Val)
    (h : outputDocuments docs env = .ok outs) : ∀ o ∈ outs, o ≠ .null :=
  outputDocuments_nonnull docs env outs h

/-- non-vacuity: a null document and a hidden one are dropped, the others are emitted -/
example : emit [.null, .map [("a", .int 1)], .map [("$output", .bool false)], .int 3]
    = .ok [.map [("a", .int 1)], .int 3] := by decide

/-- hence: the non-empty output of a successful evaluation round-trips through YAML (and TOML)
    for a codec that is OK on what was emitted -/
theorem C05_output_yaml_rt (c : Codec) (dom : Val → Prop) (ok : CodecOK c sepYaml dom)
    (docs : List Val) (env : Vars) (outs : List Val)
    (h : outputDocuments docs env = .ok outs) (hne : outs ≠ []) (hd : ∀ o ∈ outs, dom o) :
    (do let t ← yamlMarshalStream c outs; yamlUnmarshalStream c t) = .ok outs :=
  C05_yaml_stream_rt' c dom ok outs hne (C05_outputDocuments_nonnull docs env outs h) hd

/-- non-vacuity: an evaluation with two output documents -/
example : outputDocuments [.map [("a", .int 1)], .null, .int 3] []
    = .ok [.map [("a", .int 1)], .int 3] := by decide

theorem C05_output_toml_rt (c : Codec) (dom : Val → Prop) (ok : CodecOK c sepToml dom)
    (docs : List Val) (env : Vars) (outs : List Val)
    (h : outputDocuments docs env = .ok outs) (hne : outs ≠ []) (hd : ∀ o ∈ outs, dom o) :
    (do let t ← tomlMarshalStream c outs; tomlUnmarshalStream c t) = .ok outs :=
  C05_toml_stream_rt' c dom ok outs hne (C05_outputDocuments_nonnull docs env outs h) hd

/-! ## which format is written -/

/-- `-f` wins; without `-f` and `-o` it is the first input's (possibly virtual) extension;
    without `-f` and with `-o` it is the extension of the last component of the output path -/
theorem C05_format_choice (opts : CliOpts) (x : String) :
    (∀ f, opts.format = some f → chooseFormat opts x = f) ∧
    (opts.format = none → opts.outPath = none → chooseFormat opts x = x) ∧
    (∀ o, opts.format = none → opts.outPath = some o →
      chooseFormat opts x = extOf ((splitPath o).getLastD "")) := by
  refine ⟨?_, ?_, ?_⟩
  · intro f hf; simp only [chooseFormat, hf]
  · intro hf ho; simp only [chooseFormat, hf, ho]
  · intro o hf ho; simp only [chooseFormat, hf, ho]

example : chooseFormat { format := some "toml", outPath := some "x.json" } "yaml" = "toml" :=
  (C05_format_choice _ _).1 "toml" rfl
example : chooseFormat {} "yaml" = "yaml" := (C05_format_choice _ _).2.1 rfl rfl

/-- `-o out.toml` → toml -/
theorem C05_format_choice_out_toml (x : String) :
    chooseFormat { outPath := some "out.toml" } x = "toml" := by
  have : "out.toml" = String.ofList ['o','u','t','.','t','o','m','l'] := by decide
  rw [chooseFormat_outPath_chars _ _ _ rfl (by rw [← this])]
  decide

/-- `-o dir/out.json` → json -/
theorem C05_format_choice_dir_out_json (x : String) :
    chooseFormat { outPath := some "dir/out.json" } x = "json" := by
  have : "dir/out.json" = String.ofList ['d','i','r','/','o','u','t','.','j','s','o','n'] := by
    decide
  rw [chooseFormat_outPath_chars _ _ _ rfl (by rw [← this])]
  decide

/-- a dot in a directory name is not an extension: `-o a.d/out` → "" (→ json-pretty) -/
theorem C05_format_choice_no_ext (x : String) :
    chooseFormat { outPath := some "a.d/out" } x = "" ∧
    finalFormat { outPath := some "a.d/out" } x = "json-pretty" := by
  have : "a.d/out" = String.ofList ['a','.','d','/','o','u','t'] := by decide
  have h : chooseFormat { outPath := some "a.d/out" } x = "" := by
    rw [chooseFormat_outPath_chars _ _ _ rfl (by rw [← this])]
    decide
  exact ⟨h, by rw [finalFormat, h]; decide⟩

/-- a successful `cliRun` reports the chosen format (`json-pretty` when that is empty), and
    that format passed the `supportedExts.contains` test -/
theorem C05_cli_format_supported (fs : FS) (cwd : Comps) (env : Vars) (opts : CliOpts)
    (res : CliResult) (h : cliRun fs cwd env opts = .ok res) :
    (∃ x, res.format = finalFormat opts x) ∧ supportedExts.contains res.format = true := by
  obtain ⟨s, hs⟩ := cliRun_ok h
  obtain ⟨h1, h2⟩ := cliFinish_ok hs
  exact ⟨⟨_, h1⟩, h2⟩

/-- a format that fails the `supportedExts.contains` test is never written: no run succeeds, … -/
theorem C05_cli_unknown_format_never_ok (fs : FS) (cwd : Comps) (env : Vars) (opts : CliOpts)
    (hbad : ∀ x, supportedExts.contains (finalFormat opts x) = false) (res : CliResult) :
    cliRun fs cwd env opts ≠ .ok res := by
  intro h
  obtain ⟨⟨x, hx⟩, h2⟩ := C05_cli_format_supported fs cwd env opts res h
  rw [hx, hbad x] at h2
  cases h2

/-- … and when the inputs load (here: there are none) the error is `unknownFormat` -/
theorem C05_cli_unknown_format (fs : FS) (cwd : Comps) (env : Vars) (opts : CliOpts)
    (hr : opts.rootPath = none) (hi : opts.inputs = [])
    (hbad : supportedExts.contains (finalFormat opts "") = false) :
    cliRun fs cwd env opts = .error .unknownFormat := by
  rw [cliRun_no_inputs fs cwd env opts hr hi]
  exact cliFinish_unknown hbad

example : supportedExts.contains (finalFormat { format := some "xml" } "") = false := by decide
example (fs : FS) (cwd : Comps) (env : Vars) :
    cliRun fs cwd env { format := some "xml" } = .error .unknownFormat :=
  C05_cli_unknown_format fs cwd env _ rfl rfl (by decide)

/-- the format table (formats.go): `yml` ≡ `yaml` and `jsonl` ≡ `json` share their codecs in Go;
    in the model all six names pass the format test and nothing else does -/
theorem C05_alias :
    supportedExts = ["json", "json-pretty", "jsonl", "toml", "yaml", "yml"] ∧
    (∀ f, supportedExts.contains f = true ↔
      f = "json" ∨ f = "json-pretty" ∨ f = "jsonl" ∨ f = "toml" ∨ f = "yaml" ∨ f = "yml") ∧
    supportedExts.contains "yml" = supportedExts.contains "yaml" ∧
    supportedExts.contains "jsonl" = supportedExts.contains "json" := by
  refine ⟨rfl, ?_, by decide, by decide⟩
  intro f
  simp [supportedExts]

end Bkl
