/-
  C05 — "Output round-trips in every format: what bkl writes reads back unchanged."

  The three third-party single-document codecs (yaml.v3, go-toml, encoding/json) are a
  *parameter* `c : Codec` of the model (Bkl/Stream.lean).  What is proved here is that the
  multi-document framing bkl puts around them (json.go / yaml.go / toml.go) loses nothing,
  *provided* the codec meets `CodecOK c isSep dom` (BklProofs/Lemmas/Stream.lean): on its domain
  `dom`, `c.enc v` succeeds with text that contains no separator line and at least one non-blank
  line, and `c.dec` of that text gives `v` back.  Whether the real codecs meet `CodecOK` is what
  the differential run checks.

  * `C05_splitAt_join`            the framing lemma: splitting the joined blocks gives the blocks
  * `C05_yaml_stream_rt`          YAML: a non-empty stream of non-null documents round-trips
  * `C05_yaml_stream_rt_inner_null`  … also with null documents anywhere but in first position
  * `C05_toml_stream_rt`          TOML: same (non-null documents)
  * `C05_toml_stream_rt_null`     … also with null documents when `c.dec [] = null`
  * `C05_json_stream_rt`          JSON lines: every stream (also the empty one) round-trips
  * `C05_leading_null_dropped`, `C05_leading_null_counterexample`
                                  a leading null YAML document does NOT survive the framing
  * `C05_empty_stream_counterexample`  nor does the empty stream (it reads back as one null)
  * `C05_outputs_nonnull`, `C05_outputDocuments_nonnull`
                                  … which is harmless, because `Output` never hands a null to a codec
  * `C05_format_choice*`, `C05_cli_format_supported`, `C05_cli_unknown_format`, `C05_alias`
                                  which format is written

  * `C05_json_string_escape_spec`, `C05_json_parse_encode`, `C05_json_encode_decode`,
    `C05_json_stream_roundtrip`, `C05_json_codec_ok`, `C05_json_lines_text`,
    `C05_json_big_int_not_exact`, `C05_json_big_int_counterexample`, `C05_json_fuel_adequate`
                                  JSON with the CONCRETE codec of Bkl/Json.lean (last section)

  Helper lemmas (and the definitions `joinWith`, `CodecOK`, `blankLine`, `streamBody`,
  `toyCodec`, `finalFormat`, `cliFinish`, `extOfChars`, `lastCompChars`) are in
  BklProofs/Lemmas/Stream.lean.
-/
import BklProofs.Lemmas.Stream
import BklProofs.Lemmas.Json
import BklProofs.Lemmas.JsonPretty
namespace Bkl

/-! ## the framing lemma -/

/-- For blocks `b₁ … bₙ` (n ≥ 1) none of which contains a separator line:
    `splitAt isSep (b₁ ++ [sep] ++ b₂ ++ … ++ [sep] ++ bₙ) = [b₁, …, bₙ]`. -/
theorem C05_splitAt_join (isSep : String → Bool) (sep : String) (hs : isSep sep = true)
    (blocks : List Lines) (hne : blocks ≠ [])
    (hfree : ∀ b ∈ blocks, ∀ l ∈ b, isSep l = false) :
    splitAt isSep (joinWith sep blocks) = blocks := by
  cases blocks with
  | nil => exact absurd rfl hne
  | cons b bs => exact splitAt_joinWith isSep sep hs b bs hfree

/-- non-vacuity, and what goes wrong for `n = 0`: the empty text is ONE (empty) part -/
example : splitAt sepYaml (joinWith "---" [["a: 1"], [], ["b: 2", "c: 3"]])
    = [["a: 1"], [], ["b: 2", "c: 3"]] := by decide
example : splitAt sepYaml (joinWith "---" []) = [[]] := by decide

/-- the number of parts is the number of separator lines plus one -/
theorem C05_splitAt_length (isSep : String → Bool) (t : Lines) :
    (splitAt isSep t).length = (t.filter isSep).length + 1 := splitAt_length isSep t

/-! ## YAML -/

/-- A codec that is OK for `sepYaml` on `dom`, a NON-EMPTY list of non-null values in `dom`:
    the stream is written, and reading the written text gives the values back. -/
theorem C05_yaml_stream_rt (c : Codec) (dom : Val → Prop) (ok : CodecOK c sepYaml dom)
    (vs : List Val) (hne : vs ≠ []) (hnn : ∀ v ∈ vs, v ≠ .null) (hd : ∀ v ∈ vs, dom v) :
    ∃ text, yamlMarshalStream c vs = .ok text ∧ yamlUnmarshalStream c text = .ok vs := by
  cases vs with
  | nil => exact absurd rfl hne
  | cons v vs =>
    exact yaml_rt_general c dom ok v vs (hnn v List.mem_cons_self) (fun w hw _ => hd w hw)

/-- the same as one equation in the `R` monad -/
theorem C05_yaml_stream_rt' (c : Codec) (dom : Val → Prop) (ok : CodecOK c sepYaml dom)
    (vs : List Val) (hne : vs ≠ []) (hnn : ∀ v ∈ vs, v ≠ .null) (hd : ∀ v ∈ vs, dom v) :
    (do let t ← yamlMarshalStream c vs; yamlUnmarshalStream c t) = .ok vs := by
  obtain ⟨text, h1, h2⟩ := C05_yaml_stream_rt c dom ok vs hne hnn hd
  rw [h1]; exact h2

/-- null documents are fine everywhere except in first position (they are written as a bare
    `---` and an empty part reads back as null) -/
theorem C05_yaml_stream_rt_inner_null (c : Codec) (dom : Val → Prop) (ok : CodecOK c sepYaml dom)
    (v : Val) (vs : List Val) (hv : v ≠ .null) (hd : ∀ w ∈ v :: vs, w ≠ .null → dom w) :
    ∃ text, yamlMarshalStream c (v :: vs) = .ok text ∧
      yamlUnmarshalStream c text = .ok (v :: vs) :=
  yaml_rt_general c dom ok v vs hv hd

/-- non-vacuity: the toy codec (integers as decimal text) is OK for YAML and for TOML on all
    integers -/
example : CodecOK toyCodec sepYaml toyDom := toyCodec_ok_yaml
example : CodecOK toyCodec sepToml toyDom := toyCodec_ok_toml
example : ∃ text, yamlMarshalStream toyCodec [.int 1, .int (-2)] = .ok text ∧
    yamlUnmarshalStream toyCodec text = .ok [.int 1, .int (-2)] :=
  C05_yaml_stream_rt toyCodec toyDom toyCodec_ok_yaml _ (by simp) (by simp)
    (by simp [toyDom])
example : yamlMarshalStream toyCodec [.int 1, .null, .int (-2)] = .ok ["1", "---", "---", "-2"] := by
  decide
example : ∃ text, yamlMarshalStream toyCodec [.int 1, .null, .int (-2)] = .ok text ∧
    yamlUnmarshalStream toyCodec text = .ok [.int 1, .null, .int (-2)] :=
  C05_yaml_stream_rt_inner_null toyCodec toyDom toyCodec_ok_yaml _ _ (by simp)
    (by simp [toyDom])

/-- A part of the text that holds SEVERAL documents (`--- # comment`, `--- {a: 1}` and `--- ` start
    a document without being separator lines): the reader returns all of them, in order — none is
    dropped (the defect repaired by /repo 8a5c059 returned only the first). -/
theorem C05_yaml_part_all_documents (c : Codec) (part : Lines) (ds : List Val)
    (hsep : ∀ l ∈ part, sepYaml l = false) (hb : part.all blankLine = false)
    (hd : c.decMany part = .ok ds) (hne : ds ≠ []) :
    yamlUnmarshalStream c part = .ok ds := by
  rw [yamlUnmarshalStream_eq, splitAt_block sepYaml part hsep]
  simp only [List.mapM_cons, List.mapM_nil, yamlPartDocs_eq, hb, Bool.false_eq_true, if_false, hd,
    s_bind_ok, s_pure]
  cases ds with
  | nil => exact absurd rfl hne
  | cons d ds => simp [pure, Except.pure, bind, Except.bind]

/-- non-vacuity: a codec whose decoder loop finds two documents in the three-line part -/
example : yamlUnmarshalStream { toyCodec with decMany := fun _ => .ok [.int 1, .int 2] }
    ["a: 1", "--- # next", "b: 2"] = .ok [.int 1, .int 2] :=
  C05_yaml_part_all_documents _ _ _ (by decide)
    (by rw [List.all_eq_false]; exact ⟨"a: 1", by simp, by rw [blankLine_eq]; decide⟩) rfl (by simp)

/-- … and a part without any document (blank, or comments only) is one empty document -/
theorem C05_yaml_part_no_document (c : Codec) (part : Lines)
    (hsep : ∀ l ∈ part, sepYaml l = false) (hb : part.all blankLine = false)
    (hd : c.decMany part = .ok []) :
    yamlUnmarshalStream c part = .ok [.null] := by
  rw [yamlUnmarshalStream_eq, splitAt_block sepYaml part hsep]
  simp [List.mapM_cons, List.mapM_nil, yamlPartDocs_eq, hb, hd, pure, Except.pure, bind, Except.bind]

/-! ## TOML -/

theorem C05_toml_stream_rt (c : Codec) (dom : Val → Prop) (ok : CodecOK c sepToml dom)
    (vs : List Val) (hne : vs ≠ []) (hnn : ∀ v ∈ vs, v ≠ .null) (hd : ∀ v ∈ vs, dom v) :
    ∃ text, tomlMarshalStream c vs = .ok text ∧ tomlUnmarshalStream c text = .ok vs := by
  cases vs with
  | nil => exact absurd rfl hne
  | cons v vs =>
    exact toml_rt_general c dom ok v vs (fun w hw _ => hd w hw)
      (fun hm => absurd rfl (hnn _ hm))

theorem C05_toml_stream_rt' (c : Codec) (dom : Val → Prop) (ok : CodecOK c sepToml dom)
    (vs : List Val) (hne : vs ≠ []) (hnn : ∀ v ∈ vs, v ≠ .null) (hd : ∀ v ∈ vs, dom v) :
    (do let t ← tomlMarshalStream c vs; tomlUnmarshalStream c t) = .ok vs := by
  obtain ⟨text, h1, h2⟩ := C05_toml_stream_rt c dom ok vs hne hnn hd
  rw [h1]; exact h2

/-- TOML writes a null document as nothing, in every position; it reads back as null iff the
    codec decodes the empty text to null -/
theorem C05_toml_stream_rt_null (c : Codec) (dom : Val → Prop) (ok : CodecOK c sepToml dom)
    (hnull : c.dec [] = .ok .null)
    (vs : List Val) (hne : vs ≠ []) (hd : ∀ v ∈ vs, v ≠ .null → dom v) :
    ∃ text, tomlMarshalStream c vs = .ok text ∧ tomlUnmarshalStream c text = .ok vs := by
  cases vs with
  | nil => exact absurd rfl hne
  | cons v vs => exact toml_rt_general c dom ok v vs hd (fun _ => hnull)

example : toyCodec.dec [] = .ok .null := rfl
example : ∃ text, tomlMarshalStream toyCodec [.null, .int 10, .null] = .ok text ∧
    tomlUnmarshalStream toyCodec text = .ok [.null, .int 10, .null] :=
  C05_toml_stream_rt_null toyCodec toyDom toyCodec_ok_toml rfl _ (by simp) (by simp [toyDom])
example : tomlMarshalStream toyCodec [.null, .int 10, .null] = .ok ["---", "10", "---"] := by decide
example : ∃ text, tomlMarshalStream toyCodec [.int 10, .int 0] = .ok text ∧
    tomlUnmarshalStream toyCodec text = .ok [.int 10, .int 0] :=
  C05_toml_stream_rt toyCodec toyDom toyCodec_ok_toml _ (by simp) (by simp)
    (by simp [toyDom])

/-! ## JSON (compact writer: one value per line) -/

/-- a codec whose `enc v` is exactly one line `l` with `dec [l] = v`: every stream, including
    the empty one, round-trips -/
theorem C05_json_stream_rt (c : Codec) (dom : Val → Prop)
    (ok : ∀ v, dom v → ∃ l, c.enc v = .ok [l] ∧ c.dec [l] = .ok v)
    (vs : List Val) (hd : ∀ v ∈ vs, dom v) :
    (do let t ← jsonMarshalStream c vs; jsonUnmarshalLines c t) = .ok vs := by
  obtain ⟨text, h1, h2⟩ := json_rt c dom ok vs hd
  rw [h1]; exact h2

example : ∀ v, toyDom v → ∃ l, toyCodec.enc v = .ok [l] ∧ toyCodec.dec [l] = .ok v :=
  toyCodec_ok_json
example : (do let t ← jsonMarshalStream toyCodec []; jsonUnmarshalLines toyCodec t) = .ok [] :=
  C05_json_stream_rt toyCodec toyDom toyCodec_ok_json [] (by simp)

/-! ## what does NOT round-trip through the YAML framing -/

/-- a null document in front of a non-null one leaves no trace in the text -/
theorem C05_leading_null_dropped (c : Codec) (v : Val) (hv : v ≠ .null) (vs : List Val) :
    yamlMarshalStream c (.null :: v :: vs) = yamlMarshalStream c (v :: vs) :=
  yamlMarshalStream_null_cons c v hv vs

/-- … so with an OK codec the stream `[null, v]` reads back as `[v]` -/
theorem C05_leading_null_lost (c : Codec) (dom : Val → Prop) (ok : CodecOK c sepYaml dom)
    (v : Val) (hv : v ≠ .null) (hd : dom v) :
    (do let t ← yamlMarshalStream c [.null, v]; yamlUnmarshalStream c t) = .ok [v] := by
  rw [C05_leading_null_dropped c v hv []]
  exact C05_yaml_stream_rt' c dom ok [v] (by simp) (by simpa using hv) (by simpa using hd)

/-- concrete instance with the toy codec: `[null, 1]` is written as the single line `1` and
    reads back as `[1]` -/
theorem C05_leading_null_counterexample :
    yamlMarshalStream toyCodec [.null, .int 1] = .ok ["1"] ∧
    (do let t ← yamlMarshalStream toyCodec [.null, .int 1]; yamlUnmarshalStream toyCodec t)
      = .ok [.int 1] ∧
    (do let t ← yamlMarshalStream toyCodec [.null, .int 1]; yamlUnmarshalStream toyCodec t)
      ≠ .ok [.null, .int 1] := by
  have h := C05_leading_null_lost toyCodec toyDom toyCodec_ok_yaml (.int 1) (by simp) ⟨1, rfl⟩
  refine ⟨by decide, h, ?_⟩
  rw [h]
  intro e
  injection e with e
  injection e with e1 _
  cases e1

/-- the empty stream is written as the empty text, which reads back as ONE null document
    (for every codec) -/
theorem C05_empty_stream_counterexample (c : Codec) :
    (do let t ← yamlMarshalStream c []; yamlUnmarshalStream c t) = .ok [.null] := rfl

/-! ## everything `Output` hands to a codec is non-null -/

theorem C05_outputs_nonnull (ds outs : List Val) (h : emit ds = .ok outs) :
    ∀ o ∈ outs, o ≠ .null := emit_nonnull ds outs h

theorem C05_outputDocuments_nonnull (docs : List Val) (env : Vars) (outs : List Val)
    (h : outputDocuments docs env = .ok outs) : ∀ o ∈ outs, o ≠ .null :=
  outputDocuments_nonnull docs env outs h

/-- non-vacuity: a null document and a hidden one are dropped, the others are emitted -/
example : emit [.null, .map [("a", .int 1)], .map [("$output", .bool false)], .int 3]
    = .ok [.map [("a", .int 1)], .int 3] := by decide

/-- hence: the non-empty output of a successful evaluation round-trips through YAML (and TOML)
    for a codec that is OK on what was emitted -/
theorem C05_output_yaml_rt (c : Codec) (dom : Val → Prop) (ok : CodecOK c sepYaml dom)
    (docs : List Val) (env : Vars) (outs : List Val)
    (h : outputDocuments docs env = .ok outs) (hne : outs ≠ []) (hd : ∀ o ∈ outs, dom o) :
    (do let t ← yamlMarshalStream c outs; yamlUnmarshalStream c t) = .ok outs :=
  C05_yaml_stream_rt' c dom ok outs hne (C05_outputDocuments_nonnull docs env outs h) hd

/-- non-vacuity: an evaluation with two output documents -/
example : outputDocuments [.map [("a", .int 1)], .null, .int 3] []
    = .ok [.map [("a", .int 1)], .int 3] := by decide

theorem C05_output_toml_rt (c : Codec) (dom : Val → Prop) (ok : CodecOK c sepToml dom)
    (docs : List Val) (env : Vars) (outs : List Val)
    (h : outputDocuments docs env = .ok outs) (hne : outs ≠ []) (hd : ∀ o ∈ outs, dom o) :
    (do let t ← tomlMarshalStream c outs; tomlUnmarshalStream c t) = .ok outs :=
  C05_toml_stream_rt' c dom ok outs hne (C05_outputDocuments_nonnull docs env outs h) hd

/-! ## which format is written -/

/-- `-f` wins; without `-f` and `-o` it is the first input's (possibly virtual) extension;
    without `-f` and with `-o` it is the extension of the last component of the output path -/
theorem C05_format_choice (opts : CliOpts) (x : String) :
    (∀ f, opts.format = some f → chooseFormat opts x = f) ∧
    (opts.format = none → opts.outPath = none → chooseFormat opts x = x) ∧
    (∀ o, opts.format = none → opts.outPath = some o →
      chooseFormat opts x = extOf ((splitPath o).getLastD "")) := by
  refine ⟨?_, ?_, ?_⟩
  · intro f hf; simp only [chooseFormat, hf]
  · intro hf ho; simp only [chooseFormat, hf, ho]
  · intro o hf ho; simp only [chooseFormat, hf, ho]

example : chooseFormat { format := some "toml", outPath := some "x.json" } "yaml" = "toml" :=
  (C05_format_choice _ _).1 "toml" rfl
example : chooseFormat {} "yaml" = "yaml" := (C05_format_choice _ _).2.1 rfl rfl

/-- `-o out.toml` → toml -/
theorem C05_format_choice_out_toml (x : String) :
    chooseFormat { outPath := some "out.toml" } x = "toml" := by
  have : "out.toml" = String.ofList ['o','u','t','.','t','o','m','l'] := by decide
  rw [chooseFormat_outPath_chars _ _ _ rfl (by rw [← this])]
  decide

/-- `-o dir/out.json` → json -/
theorem C05_format_choice_dir_out_json (x : String) :
    chooseFormat { outPath := some "dir/out.json" } x = "json" := by
  have : "dir/out.json" = String.ofList ['d','i','r','/','o','u','t','.','j','s','o','n'] := by
    decide
  rw [chooseFormat_outPath_chars _ _ _ rfl (by rw [← this])]
  decide

/-- a dot in a directory name is not an extension: `-o a.d/out` → "" (→ json-pretty) -/
theorem C05_format_choice_no_ext (x : String) :
    chooseFormat { outPath := some "a.d/out" } x = "" ∧
    finalFormat { outPath := some "a.d/out" } x = "json-pretty" := by
  have : "a.d/out" = String.ofList ['a','.','d','/','o','u','t'] := by decide
  have h : chooseFormat { outPath := some "a.d/out" } x = "" := by
    rw [chooseFormat_outPath_chars _ _ _ rfl (by rw [← this])]
    decide
  exact ⟨h, by rw [finalFormat, h]; decide⟩

/-- a successful `cliRun` reports the chosen format (`json-pretty` when that is empty), and
    that format passed the `supportedExts.contains` test -/
theorem C05_cli_format_supported (fs : FS) (cwd : Comps) (env : Vars) (opts : CliOpts)
    (res : CliResult) (h : cliRun fs cwd env opts = .ok res) :
    (∃ x, res.format = finalFormat opts x) ∧ supportedExts.contains res.format = true := by
  obtain ⟨s, hs⟩ := cliRun_ok h
  obtain ⟨h1, h2⟩ := cliFinish_ok hs
  exact ⟨⟨_, h1⟩, h2⟩

/-- a format that fails the `supportedExts.contains` test is never written: no run succeeds, … -/
theorem C05_cli_unknown_format_never_ok (fs : FS) (cwd : Comps) (env : Vars) (opts : CliOpts)
    (hbad : ∀ x, supportedExts.contains (finalFormat opts x) = false) (res : CliResult) :
    cliRun fs cwd env opts ≠ .ok res := by
  intro h
  obtain ⟨⟨x, hx⟩, h2⟩ := C05_cli_format_supported fs cwd env opts res h
  rw [hx, hbad x] at h2
  cases h2

/-- … and when the inputs load (here: there are none) the error is `unknownFormat` -/
theorem C05_cli_unknown_format (fs : FS) (cwd : Comps) (env : Vars) (opts : CliOpts)
    (hr : opts.rootPath = none) (hi : opts.inputs = [])
    (hbad : supportedExts.contains (finalFormat opts "") = false) :
    cliRun fs cwd env opts = .error .unknownFormat := by
  rw [cliRun_no_inputs fs cwd env opts hr hi]
  exact cliFinish_unknown hbad

example : supportedExts.contains (finalFormat { format := some "xml" } "") = false := by decide
example (fs : FS) (cwd : Comps) (env : Vars) :
    cliRun fs cwd env { format := some "xml" } = .error .unknownFormat :=
  C05_cli_unknown_format fs cwd env _ rfl rfl (by decide)

/-- the format table (formats.go): `yml` ≡ `yaml` and `jsonl` ≡ `json` share their codecs in Go;
    in the model all six names pass the format test and nothing else does -/
theorem C05_alias :
    supportedExts = ["json", "json-pretty", "jsonl", "toml", "yaml", "yml"] ∧
    (∀ f, supportedExts.contains f = true ↔
      f = "json" ∨ f = "json-pretty" ∨ f = "jsonl" ∨ f = "toml" ∨ f = "yaml" ∨ f = "yml") ∧
    supportedExts.contains "yml" = supportedExts.contains "yaml" ∧
    supportedExts.contains "jsonl" = supportedExts.contains "json" := by
  refine ⟨rfl, ?_, by decide, by decide⟩
  intro f
  simp [supportedExts]

/-! ## JSON: the concrete codec (Bkl/Json.lean) — no codec hypothesis left

  `jsonEncode` / `jsonEncodeStream` are the compact writer of json.go (encoding/json with
  `SetEscapeHTML(false)`), `jsonLoadStream` is json.go's `Decoder` loop (`UseNumber`) followed by
  `normalize`.  The only parameters left are the two float functions `jf` (the literal written for
  the float with a given `%v` text) and `fol` (the `%v` text of the float a literal denotes), with
  the hypothesis `js_FloatOK jf fol r` at every float text `r` of the value: the literal is a JSON
  number token with a fraction or an exponent, `fol (jf r) = r`, and `r ≠ ""`.
  `js_NumsOK jf fol v`: every integer inside `v` fits int64 and every float text meets
  `js_FloatOK`; `js_Repr jf fol v := v.WF ∧ js_NumsOK jf fol v`.
  `js_DistinctKeys v = true`: no map inside `v` has two members with the same key.  The reader
  stores the members of an object into a Go map, so of two members with the same key only the
  later one survives (`C05_json_duplicate_key_last_wins` at the end of this file); the text of a
  value therefore reads back as that value only under this hypothesis.  A well-formed value meets
  it (`C05_json_wf_distinct_keys`: sorted keys are distinct), so it only shows in the parser-level
  statements, which do not assume `v.WF`.
  (Definitions and helper lemmas: BklProofs/Lemmas/Json.lean.) -/

/-- **String escaping** — the table of encoding/json's `appendString` (escapeHTML off), clause by
    clause, and `unescape ∘ escape = id` for every string (every code point). -/
theorem C05_json_string_escape_spec :
    jsonEscapeChar '"' = ['\\', '"'] ∧
    jsonEscapeChar '\\' = ['\\', '\\'] ∧
    jsonEscapeChar '\n' = ['\\', 'n'] ∧
    jsonEscapeChar '\r' = ['\\', 'r'] ∧
    jsonEscapeChar '\t' = ['\\', 't'] ∧
    jsonEscapeChar '\x08' = ['\\', 'b'] ∧
    jsonEscapeChar '\x0c' = ['\\', 'f'] ∧
    (∀ c : Char, c.toNat < 32 → c ≠ '\n' → c ≠ '\r' → c ≠ '\t' → c ≠ '\x08' → c ≠ '\x0c' →
      jsonEscapeChar c =
        ['\\', 'u', '0', '0', jsonHexDigit (c.toNat / 16), jsonHexDigit (c.toNat % 16)]) ∧
    (List.range 16).map jsonHexDigit =
      ['0', '1', '2', '3', '4', '5', '6', '7', '8', '9', 'a', 'b', 'c', 'd', 'e', 'f'] ∧
    jsonEscapeChar '\u2028' = ['\\', 'u', '2', '0', '2', '8'] ∧
    jsonEscapeChar '\u2029' = ['\\', 'u', '2', '0', '2', '9'] ∧
    (∀ c : Char, 32 ≤ c.toNat → c ≠ '"' → c ≠ '\\' → c ≠ '\u2028' → c ≠ '\u2029' →
      jsonEscapeChar c = [c]) ∧
    (∀ (c : Char) (cs : List Char), jsonEscape (c :: cs) = jsonEscapeChar c ++ jsonEscape cs) ∧
    jsonEscape [] = [] ∧
    (∀ cs : List Char, jsonUnescape (jsonEscape cs) = some cs) ∧
    (∀ (cs rest : List Char), jsonParseStr (jsonEscape cs ++ '"' :: rest) = some (cs, rest)) ∧
    (∀ s : String, jsonUnescapeS (jsonEscapeS s) = some s) := by
  refine ⟨by decide, by decide, by decide, by decide, by decide, by decide, by decide, ?_,
    by decide, by decide, by decide, ?_, ?_, rfl, js_unescape_escape, js_parseStr_escape, ?_⟩
  · intro c h e1 e2 e3 e4 e5; exact js_escapeChar_ctl h e1 e2 e3 e4 e5
  · intro c h h1 h2 h4 h5; exact js_escapeChar_plain h1 h2 (by omega) h4 h5
  · intro c cs; simp [jsonEscape]
  · intro s
    simp [jsonUnescapeS, jsonEscapeS, js_unescape_escape]

/-- non-vacuity of the clauses with hypotheses: U+0001 and U+001F are `\u00XX`-escaped, DEL,
    `<`, `>`, `&`, and non-ASCII code points are copied -/
example : jsonEscapeChar '\x01' = ['\\', 'u', '0', '0', '0', '1'] ∧
    jsonEscapeChar '\x1f' = ['\\', 'u', '0', '0', '1', 'f'] ∧
    jsonEscapeChar '\x7f' = ['\x7f'] ∧ jsonEscapeChar '<' = ['<'] ∧ jsonEscapeChar '>' = ['>'] ∧
    jsonEscapeChar '&' = ['&'] ∧ jsonEscapeChar 'é' = ['é'] ∧ jsonEscapeChar '😀' = ['😀'] := by
  decide

/-- the decoder's string grammar is wider than what the encoder writes: `\/`, upper-case hex,
    `\uXXXX` for any BMP code point, surrogate pairs; an unpaired surrogate becomes U+FFFD (as in
    Go); a raw control character, an unknown escape or a missing quote is an error -/
example : jsonParseStr ['\\', '/', '\\', 'u', '0', '0', 'E', '9', '\\', 'u', 'd', '8', '3', 'd',
      '\\', 'u', 'D', 'E', '0', '0', '\\', 'u', 'd', '8', '0', '0', 'x', '"', 'r']
    = some (['/', 'é', '😀', '\ufffd', 'x'], ['r']) := by decide
example : jsonParseStr ['a', '\n', '"'] = none ∧ jsonParseStr ['\\', 'x', '"'] = none ∧
    jsonParseStr ['a', 'b'] = none ∧ jsonParseStr ['\\', 'u', '1', '2', 'g', '4', '"'] = none := by
  decide

/-- **The parser on the writer's output**: the text of `v`, followed by anything that does not go
    on like a number, parses (with any fuel ≥ the text's length) to the raw form of `v` — the
    literal text of every number kept — and leaves exactly what followed; `normalize` then turns
    the raw form of a well-formed `v` into `v`.  The keys of every map inside `v` must be pairwise
    distinct (`hd`; implied by `v.WF`): the reader keeps only the last of two members with the
    same key. -/
theorem C05_json_parse_encode (jf fol : String → String) (v : Val) (hn : js_NumsOK jf fol v)
    (hd : js_DistinctKeys v = true)
    (fuel : Nat) (hf : (jsonEncodeChars jf v).length ≤ fuel) (rest : List Char)
    (hs : ∀ c t, rest = c :: t → js_numChar c = false) :
    jsonParseValue fol fuel (jsonEncodeChars jf v ++ rest) = .ok (js_rawOf jf fol v, rest) ∧
    (v.WF → normalize (js_rawOf jf fol v) = .ok v) :=
  ⟨js_parse_enc jf fol v fuel rest hn hd hf hs, fun hw => js_normalize_raw jf fol v hw hn⟩

/-- non-vacuity: the test value meets both hypotheses -/
example : js_NumsOK js_demoJf js_demoFol js_demoVal ∧ js_DistinctKeys js_demoVal = true :=
  ⟨js_demoVal_repr.2, by decide⟩
example : jsonParseValue js_demoFol 200 (jsonEncodeChars js_demoJf js_demoVal ++ [',', '1'])
    = .ok (js_rawOf js_demoJf js_demoFol js_demoVal, [',', '1']) :=
  (C05_json_parse_encode js_demoJf js_demoFol js_demoVal js_demoVal_repr.2 (by decide) 200
    (by decide) _ (by intro c t e; cases e; decide)).1
/-- the hypothesis `hd` is needed: the text of a (not well-formed) map with the key `a` twice reads
    back with one member only, the later one -/
example : jsonParseValue js_demoFol 20
      (jsonEncodeChars js_demoJf (.map [("a", .int 1), ("a", .int 2)]))
    = .ok (.map [("a", .jnum "2" "2")], []) ∧
    js_DistinctKeys (.map [("a", .int 1), ("a", .int 2)]) = false := ⟨rfl, by decide⟩

/-- **C05_json_encode_decode**: for every well-formed value whose integers fit int64 and whose
    float texts meet the float hypothesis — ALL strings (every code point), nested lists, maps —
    loading the compact text gives the value back (with or without the newline the stream
    writer adds). -/
theorem C05_json_encode_decode (jf fol : String → String) (v : Val) (hw : v.WF)
    (hn : js_NumsOK jf fol v) :
    jsonLoad fol (jsonEncode jf v) = .ok v ∧ jsonLoad fol (jsonEncodeStream jf [v]) = .ok v :=
  ⟨js_load_encode jf fol v ⟨hw, hn⟩, js_load_encodeStream_one jf fol v ⟨hw, hn⟩⟩

/-- non-vacuity: the value of the labelled test (all escape classes, five floats, nesting) meets
    the hypotheses for the concrete float functions `js_demoJf` / `js_demoFol` -/
example : js_demoVal.WF ∧ js_NumsOK js_demoJf js_demoFol js_demoVal := js_demoVal_repr
example : js_FloatOK js_demoJf js_demoFol "1e-07" ∧ js_demoJf "1e-07" = "1e-7" ∧
    js_FloatOK js_demoJf js_demoFol "2" ∧ js_demoJf "2" = "2.0" :=
  ⟨js_demo_floatOK _ (by simp), by decide, js_demo_floatOK _ (by simp), by decide⟩

/-- **C05_json_stream_roundtrip**: what `jsonMarshalStream` writes for any list of such values
    (also the empty list; null documents too) is read back by `jsonUnmarshalStream` + `normalize`
    as the same list. -/
theorem C05_json_stream_roundtrip (jf fol : String → String) (vs : List Val)
    (h : ∀ v ∈ vs, v.WF ∧ js_NumsOK jf fol v) :
    jsonLoadStream fol (jsonEncodeStream jf vs) = .ok vs :=
  js_loadStream_encodeStream jf fol vs h

example : jsonLoadStream js_demoFol (jsonEncodeStream js_demoJf [js_demoVal, .null, .int (-5)])
    = .ok [js_demoVal, .null, .int (-5)] :=
  C05_json_stream_roundtrip _ _ _ (by
    intro v hv
    simp only [List.mem_cons, List.mem_nil_iff, or_false] at hv
    rcases hv with rfl | rfl | rfl
    · exact js_demoVal_repr
    · exact ⟨by decide, by simp [js_NumsOK]⟩
    · exact ⟨by decide, by simp only [js_NumsOK]; decide⟩)
example : jsonLoadStream js_demoFol (jsonEncodeStream js_demoJf []) = .ok [] :=
  C05_json_stream_roundtrip _ _ [] (by simp)

/-- The int64 hypothesis is needed: an integer outside int64 is written in full, but
    `json.Number.Int64` fails on it and `normalize` falls back to `Float64` — it comes back as
    the float `fol` makes of its literal (or as an error when that is out of range). -/
theorem C05_json_big_int_not_exact (jf fol : String → String) (i : Int)
    (h : ¬ (int64Min ≤ i ∧ i ≤ int64Max)) :
    jsonLoad fol (jsonEncode jf (.int i)) =
      (if (fol (toString i)).isEmpty then .error .other else .ok (.flt (fol (toString i)))) ∧
    jsonLoad fol (jsonEncode jf (.int i)) ≠ .ok (.int i) := by
  have := js_load_big_int jf fol i h
  refine ⟨this, ?_⟩
  rw [this]
  split
  · intro e; cases e
  · intro e; injection e with e; cases e

theorem C05_json_big_int_counterexample :
    jsonEncode js_demoJf (.int 9223372036854775808) = "9223372036854775808" ∧
    jsonLoad js_demoFol (jsonEncode js_demoJf (.int 9223372036854775808))
      = .ok (.flt "9223372036854775808") := by
  refine ⟨by decide, ?_⟩
  rw [(C05_json_big_int_not_exact js_demoJf js_demoFol 9223372036854775808 (by decide)).1]
  decide

/-- **C05_json_codec_ok**: the concrete `jsonCodec jf fol : Codec` (one value = one line) meets
    the hypothesis of `json_rt` / `C05_json_stream_rt` on every representable value, so the
    lines-level stream theorem holds for JSON with no codec hypothesis left. -/
theorem C05_json_codec_ok (jf fol : String → String) :
    (∀ v, js_Repr jf fol v →
      ∃ l, (jsonCodec jf fol).enc v = .ok [l] ∧ (jsonCodec jf fol).dec [l] = .ok v) ∧
    (∀ vs : List Val, (∀ v ∈ vs, js_Repr jf fol v) →
      (do let t ← jsonMarshalStream (jsonCodec jf fol) vs
          jsonUnmarshalLines (jsonCodec jf fol) t) = .ok vs) :=
  ⟨js_codec_ok jf fol,
    fun vs h => C05_json_stream_rt (jsonCodec jf fol) (js_Repr jf fol) (js_codec_ok jf fol) vs h⟩

example : (do let t ← jsonMarshalStream (jsonCodec js_demoJf js_demoFol) [js_demoVal, js_demoVal]
              jsonUnmarshalLines (jsonCodec js_demoJf js_demoFol) t)
    = .ok [js_demoVal, js_demoVal] :=
  (C05_json_codec_ok js_demoJf js_demoFol).2 _ (by
    intro v hv
    simp only [List.mem_cons, List.mem_nil_iff, or_false] at hv
    rcases hv with rfl | rfl <;> exact js_demoVal_repr)

/-- The lines of the `Codec` view are the lines of the text: the codec writes one line per value,
    that line contains no newline (newlines inside strings are escaped), and the stream text is
    these lines, each followed by a newline. -/
theorem C05_json_lines_text (jf fol : String → String) (vs : List Val)
    (h : ∀ v ∈ vs, js_NumsOK jf fol v) :
    jsonMarshalStream (jsonCodec jf fol) vs = .ok (vs.map (jsonEncode jf)) ∧
    (∀ v ∈ vs, '\n' ∉ (jsonEncode jf v).toList) ∧
    (jsonEncodeStream jf vs).toList =
      (vs.map fun v => (jsonEncode jf v).toList ++ ['\n']).flatten := by
  refine ⟨?_, ?_, ?_⟩
  · rw [jsonMarshalStream]
    have : vs.mapM (jsonCodec jf fol).enc = .ok (vs.map fun v => [jsonEncode jf v]) := by
      clear h
      induction vs with
      | nil => rfl
      | cons v vs ih => rw [List.mapM_cons, ih]; rfl
    rw [this]
    simp only [s_bind_ok, s_pure]
    congr 1
    clear h this
    induction vs with
    | nil => rfl
    | cons v vs ih => simp [ih]
  · intro v hv
    rw [jsonEncode, String.toList_ofList]
    exact js_enc_no_nl jf fol v (h v hv)
  · rw [jsonEncodeStream, String.toList_ofList, js_stream_eq_lines]
    simp [jsonEncode, String.toList_ofList]

example : jsonMarshalStream (jsonCodec js_demoJf js_demoFol) [js_demoVal, .null]
    = .ok [js_demoText, "null"] := by
  rw [(C05_json_lines_text js_demoJf js_demoFol [js_demoVal, .null] (by
    intro v hv
    simp only [List.mem_cons, List.mem_nil_iff, or_false] at hv
    rcases hv with rfl | rfl
    · exact js_demoVal_repr.2
    · simp [js_NumsOK])).1]
  decide

/-! ### labelled tests -/

/-- the exact text Go's encoder was observed to write for this value -/
example : jsonEncode js_demoJf js_demoVal = js_demoText := by decide
example : js_demoText =
    "{\"\":\"x\",\"k\\n\":[1,1.5,1e+21,1e-7,0.00001,true,null,{},[]],\"s\":\"a\\\"b\\\\c\\n\\r\\t\\b\\f\\u0001\\u001f<>&\\u2028\\u2029é日😀\"}" := rfl
/-- … and it reads back -/
example : jsonLoad js_demoFol js_demoText = .ok js_demoVal := by
  rw [← show jsonEncode js_demoJf js_demoVal = js_demoText from by decide]
  exact (C05_json_encode_decode _ _ _ js_demoVal_repr.1 js_demoVal_repr.2).1
example : jsonEncode js_demoJf (.list [.int 0, .int (-12), .flt "2", .str "", .map [("a", .list [])]])
    = "[0,-12,2.0,\"\",{\"a\":[]}]" := by decide
example : jsonEncodeStream js_demoJf [.map [("a", .int 1)], .null, .list []]
    = "{\"a\":1}\nnull\n[]\n" := by decide

/-- decoder, beyond what the writer produces: whitespace between tokens, a document stream
    separated by whitespace only, `\\/`; of two members with the same key the parser keeps the LATER
    one only (`Decoder.Decode` stores into a Go map) … -/
example : jsonDecodeDocs js_demoFol 40
    ['{', '"', 'a', '"', ':', ' ', '[', '1', ',', ' ', '2', '.', '0', ']', ' ', ',', ' ', '"', 'a',
      '"', ' ', ':', '{', '"', 'b', '"', ':', '"', '\\', '/', '"', '}', '}', '\n', ' ', '7', ' ']
    = .ok [.map [("a", .map [("b", .str "/")])], .jnum "7" "7"] := rfl
/-- … `normalize` on its own also lets the later one win (`fofList`); an int64 literal becomes an
    int -/
example : normalizeList
      [Raw.map [("a", .list [.jnum "1" "1", .jnum "2.0" "2"]), ("a", .map [("b", .str "/")])],
        .jnum "7" "7"]
    = .ok [.map [("a", .map [("b", .str "/")])], .int 7] := by
  have h1 : parseInt64 "1" = some 1 := parseInt64_toString 1 (by decide) (by decide)
  have h7 : parseInt64 "7" = some 7 := parseInt64_toString 7 (by decide) (by decide)
  have h2 : parseInt64 "2.0" = none :=
    parseInt64_none_of_bad_char "2.0" '.' (by decide) (by decide) (by decide) (by decide)
      (by decide)
  simp [normalizeList, normalize, normalizeFields, h1, h2, h7, fofList, fsetAll, fset, pure,
    Except.pure, bind, Except.bind]
/-- malformed input is an error: trailing comma, leading zero inside an array, a bare word, an
    unterminated array, a raw newline inside a string -/
example : (jsonDecodeDocs js_demoFol 9 ['[', '1', ',', ']']).toOption.isNone = true ∧
    (jsonDecodeDocs js_demoFol 9 ['[', '0', '1', ']']).toOption.isNone = true ∧
    (jsonDecodeDocs js_demoFol 9 ['n', 'u', 'l']).toOption.isNone = true ∧
    (jsonDecodeDocs js_demoFol 9 ['[', '1']).toOption.isNone = true ∧
    (jsonDecodeDocs js_demoFol 9 ['"', '\n', '"']).toOption.isNone = true := by decide
/-- concatenated top-level values need no separator (`json.Decoder` semantics) -/
example : jsonDecodeDocs js_demoFol 9 ['t', 'r', 'u', 'e', '[', ']', '0', '1']
    = .ok [.bool true, .list [], .jnum "0" "0", .jnum "1" "1"] := rfl

/-- **Fuel is never the reason for a failure.**  The parser is defined by recursion on a fuel
    argument; the top-level functions supply `2·length + 1` per document (`jsonDecodeDocs`) and
    `length + 1` for the document loop (`jsonDecodeStream`).  More fuel never changes a result —
    so an `.error` of `jsonLoadStream` is a syntax (or `normalize`) error, never exhaustion —
    and a parsed value has consumed at least one character. -/
theorem C05_json_fuel_adequate (fol : String → String) (cs : List Char) :
    (∀ fuel, 2 * cs.length < fuel →
      jsonParseValue fol fuel cs = jsonParseValue fol (2 * cs.length + 1) cs) ∧
    (∀ fuel, cs.length < fuel →
      jsonDecodeDocs fol fuel cs = jsonDecodeDocs fol (cs.length + 1) cs) ∧
    (∀ fuel x r, jsonParseValue fol fuel cs = .ok (x, r) → r.length < cs.length) :=
  ⟨js_parseValue_fuel fol cs, js_decodeDocs_fuel fol cs,
    fun fuel x r h => (js_parse_length fol fuel).1 cs x r h⟩

end Bkl

/-!
  ## The indented writer (`json-pretty`: `Encoder.SetIndent("", "  ")`)

  `jsonPrettyChars jf lvl v` is the text of `v` written at nesting level `lvl`; `jsonPrettyStream`
  is json.go's `jsonMarshalStreamPretty`.  The layout the writer adds (line breaks, indentation,
  the space after `:`) is JSON whitespace in places where the reader skips whitespace, so the
  indented text reads back exactly like the compact one.  Helper lemmas:
  BklProofs/Lemmas/JsonPretty.lean (prefix `jsp_`).
-/
namespace Bkl

/-- **The layout is whitespace between tokens**: a line break with its indentation is skipped down
    to the next token whenever that token does not start with whitespace, and the first character
    of a value's text — indented or compact — never is whitespace (it is `-`, a digit, `"`, `[`,
    `{`, `n`, `t` or `f`; for floats this is where the number hypothesis enters), nor are the
    other tokens that follow a line break (`"` of a key, `]`, `}`). -/
theorem C05_json_pretty_layout_is_whitespace (jf fol : String → String) :
    (∀ (lvl : Nat) (c : Char) (t : List Char), jsonIsWs c = false →
      jsonSkipWs (jsonNewline lvl ++ c :: t) = c :: t) ∧
    (∀ (lvl : Nat) (cs : List Char), jsonSkipWs (jsonNewline lvl ++ cs) = jsonSkipWs cs) ∧
    (∀ (v : Val) (lvl : Nat), js_NumsOK jf fol v →
      (∃ c t, jsonPrettyChars jf lvl v = c :: t ∧ js_valueStart c ∧ jsonIsWs c = false) ∧
      (∃ c t, jsonEncodeChars jf v = c :: t ∧ js_valueStart c ∧ jsonIsWs c = false)) ∧
    (∀ (v : Val) (lvl : Nat), (jsonPrettyChars jf lvl v).head? = (jsonEncodeChars jf v).head?) ∧
    jsonIsWs '"' = false ∧ jsonIsWs ']' = false ∧ jsonIsWs '}' = false := by
  refine ⟨fun lvl c t h => jsp_skipWs_newline_cons lvl h t, jsp_skipWs_newline, ?_, ?_,
    by decide, by decide, by decide⟩
  · intro v lvl hv
    obtain ⟨c, t, e, hc⟩ := jsp_pretty_head jf fol lvl v hv
    obtain ⟨c', t', e', hc'⟩ := js_enc_head jf fol v hv
    exact ⟨⟨c, t, e, hc, (js_valueStart_facts hc).1⟩, ⟨c', t', e', hc', (js_valueStart_facts hc').1⟩⟩
  · intro v lvl; exact jsp_head_eq jf lvl v

example : jsonSkipWs (jsonNewline 3 ++ ['"', 'k', '"']) = ['"', 'k', '"'] :=
  (C05_json_pretty_layout_is_whitespace js_demoJf js_demoFol).1 3 '"' _ (by decide)
example : jsonNewline 2 = ['\n', ' ', ' ', ' ', ' '] := by decide

/-- **C05_json_pretty_parse** — the parser on the indented writer's output, for EVERY level: the
    indented text of `v`, followed by anything that does not go on like a number, parses (with any
    fuel ≥ the text's length) to the raw form of `v` — the same raw form the compact text gives —
    and leaves exactly what followed; `normalize` then turns it into `v`. -/
theorem C05_json_pretty_parse (jf fol : String → String) (v : Val) (hn : js_NumsOK jf fol v)
    (hd : js_DistinctKeys v = true) (lvl fuel : Nat) (hf : (jsonPrettyChars jf lvl v).length ≤ fuel) (rest : List Char)
    (hs : ∀ c t, rest = c :: t → js_numChar c = false) :
    jsonParseValue fol fuel (jsonPrettyChars jf lvl v ++ rest) = .ok (js_rawOf jf fol v, rest) ∧
    (v.WF → normalize (js_rawOf jf fol v) = .ok v) :=
  ⟨jsp_parse_pretty' jf fol v lvl fuel rest hn hd hf hs,
    fun hw => js_normalize_raw jf fol v hw hn⟩

/-- … and the fuel the compact text needs is already enough (the indented text is never shorter,
    and the extra characters are skipped without spending fuel). -/
theorem C05_json_pretty_parse_compact_fuel (jf fol : String → String) (v : Val)
    (hn : js_NumsOK jf fol v) (hd : js_DistinctKeys v = true) (lvl fuel : Nat)
    (hf : (jsonEncodeChars jf v).length ≤ fuel)
    (rest : List Char) (hs : ∀ c t, rest = c :: t → js_numChar c = false) :
    jsonParseValue fol fuel (jsonPrettyChars jf lvl v ++ rest) = .ok (js_rawOf jf fol v, rest) ∧
    (jsonEncodeChars jf v).length ≤ (jsonPrettyChars jf lvl v).length :=
  ⟨jsp_parse_pretty jf fol v lvl fuel rest hn hd hf hs, jsp_enc_le_pretty jf v lvl⟩

/-- non-vacuity: the test values meet the hypothesis; level 1, something after the text -/
example : js_NumsOK js_demoJf js_demoFol jsp_demoVal2 ∧ js_DistinctKeys jsp_demoVal2 = true :=
  ⟨jsp_demoVal2_repr.2, by decide⟩
example : jsonParseValue js_demoFol 110 (jsonPrettyChars js_demoJf 1 jsp_demoVal2 ++ [',', '1'])
    = .ok (js_rawOf js_demoJf js_demoFol jsp_demoVal2, [',', '1']) :=
  (C05_json_pretty_parse js_demoJf js_demoFol jsp_demoVal2 jsp_demoVal2_repr.2 (by decide) 1 110
    (by decide) _ (by intro c t e; cases e; decide)).1
example : (jsonEncodeChars js_demoJf jsp_demoVal2).length = 39 ∧
    (jsonPrettyChars js_demoJf 1 jsp_demoVal2).length = 104 := by decide
example : jsonParseValue js_demoFol 39 (jsonPrettyChars js_demoJf 1 jsp_demoVal2)
    = .ok (js_rawOf js_demoJf js_demoFol jsp_demoVal2, []) := by
  have := (C05_json_pretty_parse_compact_fuel js_demoJf js_demoFol jsp_demoVal2
    jsp_demoVal2_repr.2 (by decide) 1 39 (by decide) [] (by intro c t e; cases e)).1
  rwa [List.append_nil] at this

/-- **C05_json_pretty_decode**: for every well-formed value whose integers fit int64 and whose
    float texts meet the float hypothesis, loading the indented text gives the value back —
    written at level 0 as bkl does (or at any other level), with or without the newline the
    stream writer adds. -/
theorem C05_json_pretty_decode (jf fol : String → String) (v : Val) (hw : v.WF)
    (hn : js_NumsOK jf fol v) :
    jsonLoad fol (String.ofList (jsonPrettyChars jf 0 v)) = .ok v ∧
    jsonLoad fol (jsonPrettyStream jf [v]) = .ok v ∧
    (∀ lvl, jsonLoad fol (String.ofList (jsonPrettyChars jf lvl v)) = .ok v) :=
  ⟨jsp_load_pretty jf fol v 0 ⟨hw, hn⟩, jsp_load_prettyStream_one jf fol v ⟨hw, hn⟩,
    fun lvl => jsp_load_pretty jf fol v lvl ⟨hw, hn⟩⟩

example : jsp_demoVal.WF ∧ js_NumsOK js_demoJf js_demoFol jsp_demoVal := jsp_demoVal_repr
example : jsonLoad js_demoFol (String.ofList (jsonPrettyChars js_demoJf 0 js_demoVal))
    = .ok js_demoVal :=
  (C05_json_pretty_decode _ _ _ js_demoVal_repr.1 js_demoVal_repr.2).1

/-- **C05_json_pretty_stream_roundtrip**: what `jsonMarshalStreamPretty` writes for any list of
    such values (also the empty list; null documents too) is read back by `jsonUnmarshalStream` +
    `normalize` as the same list. -/
theorem C05_json_pretty_stream_roundtrip (jf fol : String → String) (vs : List Val)
    (h : ∀ v ∈ vs, v.WF ∧ js_NumsOK jf fol v) :
    jsonLoadStream fol (jsonPrettyStream jf vs) = .ok vs :=
  jsp_loadStream_prettyStream jf fol vs h

example : jsonLoadStream js_demoFol
      (jsonPrettyStream js_demoJf [js_demoVal, .null, jsp_demoVal, .int (-5), jsp_demoVal2])
    = .ok [js_demoVal, .null, jsp_demoVal, .int (-5), jsp_demoVal2] :=
  C05_json_pretty_stream_roundtrip _ _ _ (by
    intro v hv
    simp only [List.mem_cons, List.mem_nil_iff, or_false] at hv
    rcases hv with rfl | rfl | rfl | rfl | rfl
    · exact js_demoVal_repr
    · exact ⟨by decide, by simp [js_NumsOK]⟩
    · exact jsp_demoVal_repr
    · exact ⟨by decide, by simp only [js_NumsOK]; decide⟩
    · exact jsp_demoVal2_repr)
example : jsonLoadStream js_demoFol (jsonPrettyStream js_demoJf []) = .ok [] :=
  C05_json_pretty_stream_roundtrip _ _ [] (by simp)

/-- **C05_json_pretty_same_value_as_compact**: both writers denote the same value — the reader
    cannot tell which of the two wrote a stream (or a single document, at any level). -/
theorem C05_json_pretty_same_value_as_compact (jf fol : String → String) :
    (∀ vs : List Val, (∀ v ∈ vs, v.WF ∧ js_NumsOK jf fol v) →
      jsonLoadStream fol (jsonPrettyStream jf vs) = jsonLoadStream fol (jsonEncodeStream jf vs)) ∧
    (∀ (v : Val) (lvl : Nat), v.WF → js_NumsOK jf fol v →
      jsonLoad fol (String.ofList (jsonPrettyChars jf lvl v)) = jsonLoad fol (jsonEncode jf v)) ∧
    (∀ (v : Val) (lvl fuel : Nat) (rest : List Char), js_NumsOK jf fol v →
      js_DistinctKeys v = true →
      (jsonEncodeChars jf v).length ≤ fuel → (∀ c t, rest = c :: t → js_numChar c = false) →
      jsonParseValue fol fuel (jsonPrettyChars jf lvl v ++ rest) =
        jsonParseValue fol fuel (jsonEncodeChars jf v ++ rest)) := by
  refine ⟨?_, ?_, ?_⟩
  · intro vs h
    rw [C05_json_pretty_stream_roundtrip jf fol vs h, C05_json_stream_roundtrip jf fol vs h]
  · intro v lvl hw hn
    rw [jsp_load_pretty jf fol v lvl ⟨hw, hn⟩, js_load_encode jf fol v ⟨hw, hn⟩]
  · intro v lvl fuel rest hn hd hf hs
    rw [jsp_parse_pretty jf fol v lvl fuel rest hn hd hf hs,
      js_parse_enc jf fol v fuel rest hn hd hf hs]

example : jsonLoadStream js_demoFol (jsonPrettyStream js_demoJf [jsp_demoVal, jsp_demoVal2]) =
    jsonLoadStream js_demoFol (jsonEncodeStream js_demoJf [jsp_demoVal, jsp_demoVal2]) :=
  (C05_json_pretty_same_value_as_compact js_demoJf js_demoFol).1 _ (by
    intro v hv
    simp only [List.mem_cons, List.mem_nil_iff, or_false] at hv
    rcases hv with rfl | rfl
    · exact jsp_demoVal_repr
    · exact jsp_demoVal2_repr)

/-- **Both writers are one writer with two layouts** (no hypothesis on numbers, strings or
    well-formedness): `jsp_layout nl sp` writes `nl lvl` wherever the indented writer breaks the
    line at level `lvl` and `sp` after the `:` of a member; with `jsonNewline` and one space it IS
    the indented writer, with nothing in both places it IS the compact writer.  So the indented
    text is the compact text plus the characters of `jsonNewline …` and the spaces after `:`. -/
theorem C05_json_pretty_layout (jf : String → String) (v : Val) (lvl : Nat) :
    jsp_layout jsonNewline [' '] jf lvl v = jsonPrettyChars jf lvl v ∧
    jsp_layout (fun _ => []) [] jf lvl v = jsonEncodeChars jf v :=
  ⟨jsp_layout_pretty jf v lvl, jsp_layout_compact jf v lvl⟩

/-- The same on the TEXT, with `jspStrip` (drop every whitespace character outside a string
    literal, copy the rest): without a hypothesis on the float parameter this is FALSE — `jf` may
    write anything for a float, e.g. a blank, which the stripper removes. -/
theorem C05_json_pretty_strip_false :
    ¬ (∀ (jf : String → String) (v : Val) (lvl : Nat),
        jspStrip (jsonPrettyChars jf lvl v) = jsonEncodeChars jf v) := by
  intro h
  exact absurd (h (fun _ => " ") (.flt "1.5") 0) (by decide)

/-- **C05_json_pretty_strip_partial** — the strongest true variant: when no float literal of the
    value contains whitespace or a quote (`jsp_PlainNums`; implied by `js_NumsOK`, number tokens
    being made of digits, `-`, `+`, `.`, `e`, `E`), removing the whitespace outside string literals
    from the indented text (any level) gives the compact text, and the compact text has none to
    remove.  Strings are arbitrary: blanks, newlines (escaped by the writer), quotes and
    backslashes inside them are untouched.  On streams the stripper also drops the newline after
    each document. -/
theorem C05_json_pretty_strip_partial (jf : String → String) :
    (∀ (v : Val) (lvl : Nat), jsp_PlainNums jf v →
      jspStrip (jsonPrettyChars jf lvl v) = jsonEncodeChars jf v ∧
      jspStrip (jsonEncodeChars jf v) = jsonEncodeChars jf v) ∧
    (∀ (fol : String → String) (v : Val), js_NumsOK jf fol v → jsp_PlainNums jf v) ∧
    (∀ vs : List Val, (∀ v ∈ vs, jsp_PlainNums jf v) →
      jspStrip (jsonPrettyStreamChars jf vs) = (vs.map (jsonEncodeChars jf)).flatten) := by
  refine ⟨fun v lvl h => ⟨jsp_strip_pretty_eq jf v lvl h, jsp_strip_enc_eq jf v h⟩,
    fun fol v h => jsp_plain_of_numsOK jf fol v h, ?_⟩
  intro vs h
  apply jsp_strip_stream
  induction vs with
  | nil => simp [jsp_PlainNumsList]
  | cons v vs ih =>
    simp only [jsp_PlainNumsList]
    exact ⟨h v List.mem_cons_self, ih (fun w hw => h w (List.mem_cons_of_mem _ hw))⟩

example : jsp_PlainNums js_demoJf js_demoVal :=
  (C05_json_pretty_strip_partial js_demoJf).2.1 js_demoFol _ js_demoVal_repr.2
example : jspStrip (jsonPrettyChars js_demoJf 2 js_demoVal) = jsonEncodeChars js_demoJf js_demoVal :=
  ((C05_json_pretty_strip_partial js_demoJf).1 js_demoVal 2
    ((C05_json_pretty_strip_partial js_demoJf).2.1 js_demoFol _ js_demoVal_repr.2)).1
example : jspStrip jsp_demoText.toList = (jsonEncode js_demoJf jsp_demoVal).toList := by decide
example : jspStrip ['[', ' ', '"', ' ', '\\', '"', ' ', '"', ' ', ',', '\n', '1', ']'] =
    ['[', '"', ' ', '\\', '"', ' ', '"', ',', '1', ']'] := by decide

/-! ### labelled tests for the indented writer -/

/-- `{"a": [1, {"b": []}], "c": {}}` laid out as Go does -/
example : String.ofList (jsonPrettyChars js_demoJf 0 jsp_demoVal) = jsp_demoText := by decide
example : jsp_demoText =
    "{\n  \"a\": [\n    1,\n    {\n      \"b\": []\n    }\n  ],\n  \"c\": {}\n}" := rfl
example : jsonEncode js_demoJf jsp_demoVal = "{\"a\":[1,{\"b\":[]}],\"c\":{}}" := by decide
/-- … and it reads back -/
example : jsonLoad js_demoFol jsp_demoText = .ok jsp_demoVal := by
  rw [← show String.ofList (jsonPrettyChars js_demoJf 0 jsp_demoVal) = jsp_demoText from by decide]
  exact (C05_json_pretty_decode _ _ _ jsp_demoVal_repr.1 jsp_demoVal_repr.2).1
/-- floats (`1e-07` is written `1e-7`), an escaped key, a string with a blank and a quote -/
example : String.ofList (jsonPrettyChars js_demoJf 0 jsp_demoVal2) = jsp_demoText2 := by decide
example : jsonLoad js_demoFol jsp_demoText2 = .ok jsp_demoVal2 := by
  rw [← show String.ofList (jsonPrettyChars js_demoJf 0 jsp_demoVal2) = jsp_demoText2 from by decide]
  exact (C05_json_pretty_decode _ _ _ jsp_demoVal2_repr.1 jsp_demoVal2_repr.2).1
/-- a stream: every document indented from level 0 and followed by a newline; scalars and empty
    containers are written as in the compact form -/
example : jsonPrettyStream js_demoJf [.map [("a", .int 1)], .null, .list [], .map [], .list [.list []]]
    = "{\n  \"a\": 1\n}\nnull\n[]\n{}\n[\n  []\n]\n" := by decide
/-- the reader alone, on a literal indented text (no theorem involved) -/
example : jsonDecodeDocs js_demoFol 20
      ['[', '\n', ' ', ' ', '1', ',', '\n', ' ', ' ', '{', '}', '\n', ']', '\n']
    = .ok [.list [.jnum "1" "1", .map []]] := rfl

end Bkl

/-!
  ## Duplicate keys: the later member wins

  `Decoder.Decode` stores the members of an object into a Go map, so a later member with the same
  key REPLACES an earlier one, and the earlier value is never looked at again — not even by
  `normalize`: `{"k": -1e400, "k": {}}` loads, although `-1e400` alone does not (no float64 holds
  it).  `jsonParseMembers` models this; what it returns has pairwise distinct keys, the last
  occurrence of each key surviving.  Helper lemmas: BklProofs/Lemmas/Json.lean (`js_parse_distinct`,
  `js_parseMembers_step`).
-/
namespace Bkl

/-- a well-formed value has pairwise distinct keys in every map (strictly sorted keys are
    distinct) — which is why the round-trip theorems that assume `v.WF` need no further
    hypothesis; and the Bool predicate on one map says that its key list has no duplicates -/
theorem C05_json_wf_distinct_keys :
    (∀ v : Val, v.WF → js_DistinctKeys v = true) ∧
    (∀ m : Fields, js_keysDistinct m = true ↔ (m.map (·.1)).Nodup) ∧
    (∀ m : Fields, js_DistinctKeys (.map m) = true ↔
      (m.map (·.1)).Nodup ∧ ∀ p ∈ m, js_DistinctKeys p.2 = true) := by
  refine ⟨fun v hw => js_distinct_of_wf hw, js_keysDistinct_iff_nodup, ?_⟩
  intro m
  have h : ∀ l : Fields, js_DistinctKeysFields l = true ↔ ∀ p ∈ l, js_DistinctKeys p.2 = true := by
    intro l
    induction l with
    | nil => simp [js_DistinctKeysFields]
    | cons p l ih =>
      obtain ⟨k, v⟩ := p
      simp [js_DistinctKeysFields, ih]
  rw [js_DistinctKeys, Bool.and_eq_true, js_keysDistinct_iff_nodup, h]

example : js_demoVal.WF ∧ js_DistinctKeys js_demoVal = true :=
  ⟨js_demoVal_repr.1, C05_json_wf_distinct_keys.1 _ js_demoVal_repr.1⟩
/-- distinct keys is weaker than well-formed: unsorted keys are fine -/
example : js_DistinctKeys (.map [("b", .int 1), ("a", .int 2)]) = true ∧
    ¬ (Val.map [("b", .int 1), ("a", .int 2)]).WF := by decide

/-- **C05_json_duplicate_key_last_wins.**
    (a) Whatever the input, the members `jsonParseMembers` returns have pairwise distinct keys.
    (b) One step of the reader, in general: a member `"k": <text of x>` in front of `,` and more
        members that parse to `kvs` — if `kvs` already has the key `k`, the result is `kvs` alone,
        WHATEVER `x` is (`x` does not occur in the result, so `normalize` never sees it);
        otherwise it is `(k, x) :: kvs`.
    (c) Labelled tests (`js_dupFol`: no float64 for the literal `-1e400`):
        `{"k":-1e400,"k":{}}` loads to `{k: {}}`, while `{"k":-1e400}` alone is an error;
        `{"a":1,"b":2,"a":3}` loads to `{a: 3, b: 2}`. -/
theorem C05_json_duplicate_key_last_wins :
    (∀ (fol : String → String) (fuel : Nat) (cs : List Char) (kvs : List (String × Raw))
        (r : List Char),
      jsonParseMembers fol fuel cs = .ok (kvs, r) → (kvs.map (·.1)).Nodup) ∧
    (∀ (fol : String → String) (fuel : Nat) (k txt more : List Char) (x : Raw)
        (kvs : List (String × Raw)) (r : List Char),
      jsonParseValue fol fuel txt = .ok (x, ',' :: more) →
      jsonParseMembers fol fuel more = .ok (kvs, r) →
      ((kvs.any fun e => e.1 == String.ofList k) = true →
        jsonParseMembers fol (fuel + 1) (jsonQuote k ++ ':' :: txt) = .ok (kvs, r)) ∧
      ((kvs.any fun e => e.1 == String.ofList k) = false →
        jsonParseMembers fol (fuel + 1) (jsonQuote k ++ ':' :: txt) =
          .ok ((String.ofList k, x) :: kvs, r))) ∧
    (js_dupFol "-1e400" = "" ∧
      String.ofList js_dupText1 = "{\"k\":-1e400,\"k\":{}}" ∧
      jsonDecodeStream js_dupFol (String.ofList js_dupText1) = .ok [.map [("k", .map [])]] ∧
      jsonLoad js_dupFol (String.ofList js_dupText1) = .ok (.map [("k", .map [])]) ∧
      String.ofList js_dupText2 = "{\"k\":-1e400}" ∧
      jsonDecodeStream js_dupFol (String.ofList js_dupText2)
        = .ok [.map [("k", .jnum "-1e400" "")]] ∧
      jsonLoad js_dupFol (String.ofList js_dupText2) = .error .other ∧
      String.ofList js_dupText3 = "{\"a\":1,\"b\":2,\"a\":3}" ∧
      jsonDecodeStream js_dupFol (String.ofList js_dupText3)
        = .ok [.map [("b", .jnum "2" "2"), ("a", .jnum "3" "3")]] ∧
      jsonLoad js_dupFol (String.ofList js_dupText3)
        = .ok (.map [("a", .int 3), ("b", .int 2)])) := by
  refine ⟨js_parseMembers_nodup, ?_, ?_⟩
  · intro fol fuel k txt more x kvs r hv hm
    have := js_parseMembers_step fol fuel k txt more x kvs r hv hm
    refine ⟨fun h => ?_, fun h => ?_⟩
    · rw [this, if_pos h]
    · rw [this, if_neg (by rw [h]; decide)]
  · have hp : parseInt64 "-1e400" = none :=
      parseInt64_none_of_bad_char "-1e400" 'e' (by decide) (by decide) (by decide) (by decide)
        (by decide)
    have h2 : parseInt64 "2" = some 2 := parseInt64_toString 2 (by decide) (by decide)
    have h3 : parseInt64 "3" = some 3 := parseInt64_toString 3 (by decide) (by decide)
    have d1 : jsonDecodeStream js_dupFol (String.ofList js_dupText1)
        = .ok [.map [("k", .map [])]] := by
      rw [jsonDecodeStream, String.toList_ofList]; rfl
    have d2 : jsonDecodeStream js_dupFol (String.ofList js_dupText2)
        = .ok [.map [("k", .jnum "-1e400" "")]] := by
      rw [jsonDecodeStream, String.toList_ofList]; rfl
    have d3 : jsonDecodeStream js_dupFol (String.ofList js_dupText3)
        = .ok [.map [("b", .jnum "2" "2"), ("a", .jnum "3" "3")]] := by
      rw [jsonDecodeStream, String.toList_ofList]; rfl
    refine ⟨by decide, by decide, d1, ?_, by decide, d2, ?_, by decide, d3, ?_⟩
    · rw [jsonLoad, jsonLoadStream, d1]; rfl
    · rw [jsonLoad, jsonLoadStream, d2]
      simp [normalizeList, normalize_map, normalizeFields_cons, normalize_jnum, hp, bind,
        Except.bind]
    · rw [jsonLoad, jsonLoadStream, d3]
      simp [normalizeList, normalize_map, normalizeFields_cons, normalizeFields_nil,
        normalize_jnum, h2, h3, bind, Except.bind, pure, Except.pure, fofList, fsetAll, fset]

/-- non-vacuity of (a): a successful run with a repeated key in the input -/
example : jsonParseMembers js_dupFol 9 js_dupText3.tail
    = .ok ([("b", .jnum "2" "2"), ("a", .jnum "3" "3")], []) := rfl
/-- non-vacuity of (b), first case: `"k":-1e400` in front of `,"k":{}}` — the number is dropped -/
example : jsonParseValue js_dupFol 5
      ['-', '1', 'e', '4', '0', '0', ',', '"', 'k', '"', ':', '{', '}', '}']
    = .ok (.jnum "-1e400" "", ',' :: ['"', 'k', '"', ':', '{', '}', '}']) ∧
    jsonParseMembers js_dupFol 5 ['"', 'k', '"', ':', '{', '}', '}'] = .ok ([("k", .map [])], []) ∧
    ([("k", Raw.map [])].any fun e => e.1 == String.ofList ['k']) = true :=
  ⟨rfl, rfl, by decide⟩
example : jsonParseMembers js_dupFol 6 (jsonQuote ['k'] ++ ':' ::
      ['-', '1', 'e', '4', '0', '0', ',', '"', 'k', '"', ':', '{', '}', '}'])
    = .ok ([("k", .map [])], []) :=
  (C05_json_duplicate_key_last_wins.2.1 js_dupFol 5 ['k'] _ ['"', 'k', '"', ':', '{', '}', '}']
    (.jnum "-1e400" "") [("k", .map [])] [] rfl rfl).1 (by decide)
/-- … second case: `"j":-1e400` in front of the same — the member is kept (and `normalize` of the
    result would fail on it) -/
example : jsonParseMembers js_dupFol 6 (jsonQuote ['j'] ++ ':' ::
      ['-', '1', 'e', '4', '0', '0', ',', '"', 'k', '"', ':', '{', '}', '}'])
    = .ok ([("j", .jnum "-1e400" ""), ("k", .map [])], []) :=
  (C05_json_duplicate_key_last_wins.2.1 js_dupFol 5 ['j'] _ ['"', 'k', '"', ':', '{', '}', '}']
    (.jnum "-1e400" "") [("k", .map [])] [] rfl rfl).2 (by decide)

/-- **C05_json_reader_output_distinct**: in every `Raw` the reader returns — one value, the
    documents of a stream, on characters or on a `String` — the keys of every map are pairwise
    distinct, at every depth (`js_RawDistinct`). -/
theorem C05_json_reader_output_distinct (fol : String → String) :
    (∀ (fuel : Nat) (cs : List Char) (x : Raw) (r : List Char),
      jsonParseValue fol fuel cs = .ok (x, r) → js_RawDistinct x = true) ∧
    (∀ (fuel : Nat) (cs : List Char) (xs : List Raw),
      jsonDecodeDocs fol fuel cs = .ok xs → js_RawDistinctList xs = true) ∧
    (∀ (s : String) (xs : List Raw),
      jsonDecodeStream fol s = .ok xs → ∀ x ∈ xs, js_RawDistinct x = true) := by
  refine ⟨fun fuel cs x r h => (js_parse_distinct fol fuel).1 cs x r h,
    js_decodeDocs_distinct fol, ?_⟩
  intro s xs h
  have := js_decodeDocs_distinct fol _ _ _ h
  clear h
  induction xs with
  | nil => intro x hx; cases hx
  | cons y ys ih =>
    simp only [js_RawDistinctList, Bool.and_eq_true] at this
    intro x hx
    rcases List.mem_cons.1 hx with rfl | hx
    · exact this.1
    · exact ih this.2 x hx

/-- non-vacuity: a nested object with repeated keys at two depths -/
example : jsonParseValue js_dupFol 20
      ['{', '"', 'a', '"', ':', '{', '"', 'b', '"', ':', '1', ',', '"', 'b', '"', ':', '2', '}',
        ',', '"', 'a', '"', ':', '[', '{', '"', 'c', '"', ':', '1', ',', '"', 'c', '"', ':', '2',
        '}', ']', '}']
    = .ok (.map [("a", .list [.map [("c", .jnum "2" "2")]])], []) := rfl
example : js_RawDistinct (.map [("a", .list [.map [("c", .jnum "2" "2")]])]) = true ∧
    js_RawDistinct (.map [("a", .null), ("a", .null)]) = false := by decide

end Bkl
