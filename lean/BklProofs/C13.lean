/-
  C13 — "Interpolation and $env substitute exactly the referenced values".
  Model: `scanClose`, `scanSegs`, `interpSegs`, `interpBody`, `process2String`, `getWithVar`,
  `getVar`, and the key handling of `process2` (Bkl/Process2.lean).
  Specification side (`render`, `Canonical`, `interpSeg`, `interpSpec`, `envWF`) is defined in
  BklProofs/Lemmas/Interp.lean.
-/
import BklProofs.Lemmas.Interp
import BklProofs.Lemmas.C14Codec
import BklProofs.Lemmas.C13Environ
namespace Bkl

/-! ## the scanner -/

/-- The scanner recovers exactly the literal text and the references of a canonical template:
    literals (non-empty, no '{', never adjacent — '}' and ':' etc. are copied verbatim) and
    `{ref}`s (no '}' and no newline inside). -/
theorem C13_scan_spec (segs : List Seg) (hc : Canonical segs) :
    interpSegs (render segs) = segs := by
  unfold interpSegs
  rw [scanSegs_render segs hc [] _ (Nat.le_succ _) (Or.inl rfl)]
  rfl

/-- Nothing is lost or invented, for arbitrary input: the segments render back to the input
    (the fuel `length + 1` used by `interpSegs` is sufficient). -/
theorem C13_scan_render (cs : List Char) : render (interpSegs cs) = cs := by
  unfold interpSegs
  rw [render_scanSegs _ _ _ (Nat.le_succ _)]
  rfl

/-- non-vacuity / tests -/
example : Canonical [.lit "a}:b ".toList, .ref "x.y".toList, .ref "$env:Z".toList, .lit "!".toList] := by
  simp [Canonical, startsLit]
example : interpSegs "a}:b {x.y}{$env:Z}!".toList
    = [.lit "a}:b ".toList, .ref "x.y".toList, .ref "$env:Z".toList, .lit "!".toList] := by decide
example : interpSegs "{a\nb} {c".toList = [.lit "{a\nb} {c".toList] := by decide

/-! ## interpolated strings -/

/-- `process2String` on `$"…"` is the explicit specification `interpSpec` on the scanned body:
    each literal is copied, each `{r}` is replaced by `fmtV` of `getWithVar root docs ec r`
    (after one more `process2String fuel` pass when that value is a string); the parts are
    concatenated. -/
theorem C13_interp_spec (fuel : Nat) (docs : List Val) (root : Val) (ec : Vars) (s : String)
    (body : List Char) (hb : interpBody s = some body) :
    process2String (fuel + 1) docs root ec s = interpSpec fuel docs root ec (interpSegs body) := by
  rw [process2String.eq_1]
  simp only [hb, interpSpec]
  have key : ∀ (f : Seg → R String), (∀ seg, f seg = interpSeg fuel docs root ec seg) →
      (do let parts ← List.mapM f (interpSegs body); pure (Val.str (String.join parts)))
        = (match List.mapM (interpSeg fuel docs root ec) (interpSegs body) with
          | .error e => .error e
          | .ok parts => .ok (.str (String.join parts)) : R Val) := by
    intro f hf
    have : f = interpSeg fuel docs root ec := funext hf
    subst this
    cases List.mapM (interpSeg fuel docs root ec) (interpSegs body) <;> rfl
  apply key
  intro seg
  cases seg with
  | lit cs => rfl
  | ref cs =>
    simp only [interpSeg]
    cases getWithVar root docs ec (String.ofList cs) with
    | error e => rfl
    | ok v =>
      cases v <;> try rfl
      simp only [ok_bind']
      cases process2String fuel docs root ec _ <;> rfl

example : interpBody "$\"a{b}\"" = some "a{b}".toList := by decide

/-- with no fuel left an interpolated string is a circular-reference error -/
theorem C13_interp_no_fuel (docs : List Val) (root : Val) (ec : Vars) (s : String)
    (body : List Char) (hb : interpBody s = some body) :
    process2String 0 docs root ec s = .error .circularRef := by
  rw [process2String.eq_1]; simp only [hb]; rfl

/-- A reference that cannot be resolved makes the whole string an error — never an empty
    substitution. -/
theorem C13_missing_is_error (fuel : Nat) (docs : List Val) (root : Val) (ec : Vars) (s : String)
    (body : List Char) (hb : interpBody s = some body) (r : List Char) (e : Err)
    (hr : Seg.ref r ∈ interpSegs body)
    (he : getWithVar root docs ec (String.ofList r) = .error e) :
    ∃ e', process2String (fuel + 1) docs root ec s = .error e' := by
  rw [C13_interp_spec fuel docs root ec s body hb]
  obtain ⟨e', h⟩ := mapM_error_of_mem (interpSeg fuel docs root ec) (interpSegs body)
    ⟨Seg.ref r, hr, e, by simp [interpSeg, he]⟩
  exact ⟨e', by simp [interpSpec, h]⟩

/-- `getWithVar` fails (with a modelled error) only if the path lookup failed and the variable
    is unbound; the error is then `variableNotFound`. -/
theorem C13_getWithVar_error (root : Val) (docs : List Val) (ec : Vars) (m : String) (e : Err)
    (h : getWithVar root docs ec m = .error e) (hu : e ≠ .unmodelled) :
    (∃ e', get root docs (.str m) = .error e') ∧ fget ec m = none ∧ e = .variableNotFound := by
  unfold getWithVar at h
  cases hg : get root docs (.str m) with
  | ok v => simp [hg, pure, Except.pure] at h
  | error e' =>
    refine ⟨⟨e', rfl⟩, ?_⟩
    rw [hg] at h
    by_cases hu' : e' = .unmodelled
    · subst hu'
      simp only [throw, throwThe, MonadExceptOf.throw, Except.error.injEq] at h
      exact absurd h.symm hu
    · have h' : getVar ec m = .error e := by
        cases e' <;> first | exact h | exact absurd rfl hu'
      unfold getVar at h'
      cases hf : fget ec m with
      | none =>
        rw [hf] at h'
        simp only [throw, throwThe, MonadExceptOf.throw, Except.error.injEq] at h'
        exact ⟨rfl, h'.symm⟩
      | some v => rw [hf] at h'; simp [pure, Except.pure] at h'

/-- conversely a bound variable always rescues a failed path lookup -/
theorem C13_getWithVar_var (root : Val) (docs : List Val) (ec : Vars) (m : String) (v : Val) (e : Err)
    (hg : get root docs (.str m) = .error e) (hu : e ≠ .unmodelled) (hv : fget ec m = some v) :
    getWithVar root docs ec m = .ok v := by
  unfold getWithVar
  rw [hg]
  have : getVar ec m = .ok v := by simp [getVar, hv, pure, Except.pure]
  cases e <;> first | exact this | exact absurd rfl hu

/-- A reference that is a single plain key (`isPlainRef`, no '.') is replaced by exactly the
    value stored under that key in the referencing document … -/
theorem C13_ref_simple_key (kvs : Fields) (docs : List Val) (ec : Vars) (k : String) (v : Val)
    (h1 : isPlainRef k = true) (h2 : '.' ∉ k.toList) (hv : fget kvs k = some v) :
    getWithVar (.map kvs) docs ec k = .ok v :=
  getWithVar_simple_key kvs docs ec k v h1 h2 hv

/-- … and, when the document has no such key, by the variable of that name, if any -/
theorem C13_ref_simple_key_missing (kvs : Fields) (docs : List Val) (ec : Vars) (k : String)
    (h1 : isPlainRef k = true) (h2 : '.' ∉ k.toList) (hv : fget kvs k = none) :
    getWithVar (.map kvs) docs ec k = getVar ec k := by
  simp [getWithVar, get_simple_key _ _ _ h1 h2, getPath, hv]
  rfl

example : isPlainRef "a" = true ∧ '.' ∉ "a".toList ∧ fget [("a", Val.int 5)] "a" = some (.int 5) :=
  ⟨isPlainRef_a, by decide, by decide⟩

/-- non-vacuity of the hypotheses of `C13_getWithVar_error` / `C13_getWithVar_var` -/
example : getWithVar (.map []) [] [] "a" = .error .variableNotFound ∧
    Err.variableNotFound ≠ .unmodelled := by
  refine ⟨?_, by decide⟩
  rw [C13_ref_simple_key_missing _ _ _ _ isPlainRef_a (by decide) (by decide)]; rfl
example : get (.map []) [] (.str "a") = .error .refNotFound ∧ Err.refNotFound ≠ .unmodelled ∧
    fget [("a", Val.int 1)] "a" = some (.int 1) := by
  refine ⟨?_, by decide, by decide⟩
  rw [get_simple_key _ _ _ isPlainRef_a (by decide)]; rfl

/-- end-to-end test: `$"x={a}!"` in the document `{a: 5}` is `"x=5!"` -/
example : process2String 1 [] (.map [("a", .int 5)]) [] "$\"x={a}!\"" = .ok (.str "x=5!") := by
  rw [C13_interp_spec 0 _ _ _ _ "x={a}!".toList (by decide)]
  have hs : interpSegs "x={a}!".toList = [.lit "x=".toList, .ref "a".toList, .lit "!".toList] := by
    decide
  have hg : getWithVar (.map [("a", .int 5)]) [] [] (String.ofList "a".toList) = .ok (.int 5) :=
    C13_ref_simple_key _ _ _ _ _ (by simpa using isPlainRef_a) (by decide) (by decide)
  rw [hs]
  simp only [interpSpec, List.mapM_cons, List.mapM_nil, interpSeg, hg, ok_bind', pure, Except.pure]
  exact congrArg Except.ok (by decide)

/-- end-to-end test: an unresolvable reference is an error -/
example : ∃ e, process2String 1 [] (.map [("a", .int 5)]) [] "$\"x={1}!\"" = .error e := by
  refine C13_missing_is_error 0 _ _ _ _ "x={1}!".toList (by decide) "1".toList .unmodelled
    (by decide) ?_
  simp [getWithVar, get, getPathFromString, parseRef, isPlainRef, flowItems]
  rfl

/-! ## `$env:NAME` -/

/-- `$env:NAME` (for every NAME: such a string is never of the `$"…"` form) is a plain variable
    lookup, whatever the fuel. -/
theorem C13_env_is_lookup (fuel : Nat) (docs : List Val) (root : Val) (ec : Vars) (name : String) :
    interpBody ("$env:" ++ name) = none ∧
    process2String fuel docs root ec ("$env:" ++ name) = getVar ec ("$env:" ++ name) := by
  refine ⟨interpBody_env name, ?_⟩
  rw [process2String.eq_1]
  simp only [interpBody_env, startsWith_env, Bool.true_or, if_true]

theorem C13_env_bound (fuel : Nat) (docs : List Val) (root : Val) (ec : Vars) (name : String) (v : Val)
    (h : fget ec ("$env:" ++ name) = some v) :
    process2String fuel docs root ec ("$env:" ++ name) = .ok v := by
  rw [(C13_env_is_lookup fuel docs root ec name).2]; simp [getVar, h, pure, Except.pure]

theorem C13_env_unbound (fuel : Nat) (docs : List Val) (root : Val) (ec : Vars) (name : String)
    (h : fget ec ("$env:" ++ name) = none) :
    process2String fuel docs root ec ("$env:" ++ name) = .error .variableNotFound := by
  rw [(C13_env_is_lookup fuel docs root ec name).2]; simp [getVar, h]; rfl

/-- if the environment is well formed (every `$env:` variable is a string), the result of
    `$env:NAME` is a string or `variableNotFound` -/
theorem C13_env_is_string (fuel : Nat) (docs : List Val) (root : Val) (ec : Vars) (name : String)
    (hwf : envWF ec) :
    (∃ s, process2String fuel docs root ec ("$env:" ++ name) = .ok (.str s)) ∨
    process2String fuel docs root ec ("$env:" ++ name) = .error .variableNotFound := by
  cases h : fget ec ("$env:" ++ name) with
  | none => exact Or.inr (C13_env_unbound fuel docs root ec name h)
  | some v =>
    obtain ⟨s, rfl⟩ := hwf _ _ h (startsWith_env name)
    exact Or.inl ⟨s, C13_env_bound fuel docs root ec name _ h⟩

example : envWF [("$env:HOME", .str "/root"), ("$repeat", .int 1)] := by
  intro k v h hk
  simp only [fget] at h
  split at h
  · cases h; exact ⟨_, rfl⟩
  · split at h
    · rename_i h2; subst h2; simp at hk
    · cases h

/-! ## strings that are left alone -/

theorem C13_plain_string_untouched (fuel : Nat) (docs : List Val) (root : Val) (ec : Vars) (s : String)
    (h1 : interpBody s = none) (h2 : s.startsWith "$env:" = false) (h3 : s ≠ "$repeat") :
    process2String fuel docs root ec s = .ok (.str s) := by
  rw [process2String.eq_1]
  simp [h1, h2, h3]
  rfl

example : interpBody "hello {x}" = none ∧ "hello {x}".startsWith "$env:" = false
    ∧ "hello {x}" ≠ "$repeat" := by
  refine ⟨by decide, by simp, by decide⟩

/-! ## `$env:` in a map key -/

/-- `{"$env:NAME": v}` with `v` a non-null, non-string scalar: the key is replaced by the value
    of NAME when that is a string; unbound → `variableNotFound`; bound to a non-string →
    `invalidType`. -/
theorem C13_env_in_key (fuel : Nat) (docs : List Val) (root : Val) (ec : Vars) (name : String)
    (v : Val) (hv : (∃ b, v = .bool b) ∨ (∃ i, v = .int i) ∨ (∃ r, v = .flt r)) :
    process2 (fuel + 2) docs root ec (.map [("$env:" ++ name, v)]) =
      match fget ec ("$env:" ++ name) with
      | some (.str k2) => .ok (.map [(k2, v)])
      | some _ => .error .invalidType
      | none => .error .variableNotFound := by
  have hk1 : "$env:" ++ name ≠ "$encode" := env_ne name _ (by decide)
  have hk2 : "$env:" ++ name ≠ "$decode" := env_ne name _ (by decide)
  have hk3 : "$env:" ++ name ≠ "$value" := env_ne name _ (by decide)
  have hkey : process2 (fuel + 1) docs root ec (.str ("$env:" ++ name))
      = getVar ec ("$env:" ++ name) := by
    rw [process2]; exact (C13_env_is_lookup _ docs root ec name).2
  have hval : process2 (fuel + 1) docs root ec v = .ok v := by
    rcases hv with ⟨b, rfl⟩ | ⟨i, rfl⟩ | ⟨r, rfl⟩ <;> rfl
  have hnn : v.isNull = false := by
    rcases hv with ⟨b, rfl⟩ | ⟨i, rfl⟩ | ⟨r, rfl⟩ <;> rfl
  have hstep1 : (match v with
      | .map m =>
        match fget m "$repeat" with
        | some r => (throw Err.invalidType : R Fields)
        | none => pure (fset [] ("$env:" ++ name) v)
      | _ => pure (fset [] ("$env:" ++ name) v)) = pure [("$env:" ++ name, v)] := by
    rcases hv with ⟨b, rfl⟩ | ⟨i, rfl⟩ | ⟨r, rfl⟩ <;> rfl
  rw [process2]
  rcases hv with ⟨b, rfl⟩ | ⟨i, rfl⟩ | ⟨r, rfl⟩ <;>
  · simp only [List.foldlM_cons, List.foldlM_nil, fset, pure_bind, fget, hk1, hk2, hk3, if_false,
      hkey, hval, ok_bind', Val.isNull, Bool.false_eq_true, bind_pure]
    unfold getVar
    cases fget ec ("$env:" ++ name) with
    | none => rfl
    | some w => cases w <;> rfl

example : fget [("$env:X", Val.str "k")] ("$env:" ++ "X") = some (.str "k") := by decide

/-! ## substitution is single-pass: substituted text is not rescanned, but a referenced string
    value is itself evaluated (once) before it is substituted

  `cx_substSeg ev` / `substSegChars ev` / `substStrChars sv` (BklProofs/Lemmas/C14Codec.lean) give
  the text put in place of one segment: a literal is copied, `{r}` becomes `fmtV (ev r)`
  (resp. the string `sv r`).  `inertStr s` says that `process2String` leaves `s` alone:
  `interpBody s = none ∧ s.startsWith "$env:" = false ∧ s ≠ "$repeat"`. -/

/-- **C13_nested_value** — what `process2String` does with each referenced value `v`
    (`getWithVar`): a NON-string `v` (number, list, map …) is formatted with `%v` as it is —
    nothing inside it is evaluated; a string `v = s2` is first evaluated by one more
    `process2String` pass (so a referenced `$"…"` or `$env:…` string is replaced by ITS value,
    with one unit of fuel less), and that result `ev r` is formatted.  The output is the
    concatenation, in order, of the literals and these texts; nothing else happens to it. -/
theorem C13_nested_value (fuel : Nat) (docs : List Val) (root : Val) (ec : Vars) (s : String)
    (body : List Char) (hb : interpBody s = some body) (ev : List Char → Val)
    (h : ∀ r, Seg.ref r ∈ interpSegs body →
      ∃ v, getWithVar root docs ec (String.ofList r) = .ok v ∧
        (((∀ s2, v ≠ .str s2) ∧ ev r = v) ∨
          ∃ s2, v = .str s2 ∧ process2String fuel docs root ec s2 = .ok (ev r))) :
    process2String (fuel + 1) docs root ec s =
      .ok (.str (String.join ((interpSegs body).map (cx_substSeg ev)))) ∧
    (String.join ((interpSegs body).map (cx_substSeg ev))).toList =
      (interpSegs body).flatMap (substSegChars ev) := by
  refine ⟨?_, toList_join_substSeg ev _⟩
  rw [process2String_interp fuel docs root ec s body hb]
  exact interpSpec_subst fuel docs root ec _ ev h

/-- **C13_no_rescan** — substituted values are NOT rescanned: when every reference `{r}` of the
    template resolves to a string `sv r` that is not itself a directive string (`inertStr`; its
    characters are otherwise arbitrary — braces, `{b}`, quotes, newlines …), the result is
    exactly the literals and the `sv r` concatenated in order, character for character. -/
theorem C13_no_rescan (fuel : Nat) (docs : List Val) (root : Val) (ec : Vars) (s : String)
    (body : List Char) (hb : interpBody s = some body) (sv : List Char → String)
    (h : ∀ r, Seg.ref r ∈ interpSegs body →
      getWithVar root docs ec (String.ofList r) = .ok (.str (sv r)) ∧ inertStr (sv r)) :
    ∃ t, process2String (fuel + 1) docs root ec s = .ok (.str t) ∧
      t.toList = (interpSegs body).flatMap (substStrChars sv) := by
  obtain ⟨h1, h2⟩ := C13_nested_value fuel docs root ec s body hb (fun r => .str (sv r))
    (fun r hr => ⟨.str (sv r), (h r hr).1,
      Or.inr ⟨sv r, rfl, process2String_inert fuel docs root ec _ (h r hr).2⟩⟩)
  exact ⟨_, h1, by rw [h2, substSegChars_str]⟩

/-- the same for an explicitly given canonical segment list `segs` (literals `l_i`, references
    `r_i`): `$"` ++ render segs ++ `"` evaluates to `l_0 s_1 l_1 … s_n l_n` -/
theorem C13_no_rescan_canonical (fuel : Nat) (docs : List Val) (root : Val) (ec : Vars)
    (segs : List Seg) (hc : Canonical segs) (sv : List Char → String)
    (h : ∀ r, Seg.ref r ∈ segs →
      getWithVar root docs ec (String.ofList r) = .ok (.str (sv r)) ∧ inertStr (sv r)) :
    ∃ t, process2String (fuel + 1) docs root ec
        (String.ofList ('$' :: '"' :: (render segs ++ ['"']))) = .ok (.str t) ∧
      t.toList = segs.flatMap (substStrChars sv) := by
  have hs : interpSegs (render segs) = segs := by
    unfold interpSegs
    rw [scanSegs_render segs hc [] _ (Nat.le_succ _) (Or.inl rfl)]
    rfl
  have := C13_no_rescan fuel docs root ec _ (render segs) (interpBody_wrap _) sv
    (by rw [hs]; exact h)
  rwa [hs] at this

/-- non-vacuity: a canonical template, and a substituted string full of braces -/
example : Canonical [.ref "a".toList, .lit " and ".toList, .ref "b".toList] ∧
    inertStr "<{b}>" ∧ inertStr "}{\n{a}$\"" := by
  refine ⟨by simp [Canonical, startsLit], ⟨by decide, by simp, by decide⟩,
    ⟨by decide, by simp, by decide⟩⟩

/-- The concrete document `a: "<{b}>", b: "B", c: $"{a} and {b}"`: the value of `a` contains
    the brace text `{b}`; it is substituted verbatim, NOT expanded again. -/
theorem C13_no_rescan_example (fuel : Nat) :
    let root : Val := .map [("a", .str "<{b}>"), ("b", .str "B"), ("c", .str "$\"{a} and {b}\"")]
    process2 (fuel + 3) [] root [] root =
      .ok (.map [("a", .str "<{b}>"), ("b", .str "B"), ("c", .str "<{b}> and B")]) := by
  intro root
  have hin : ∀ (x : String), inertStr x → ∀ n, process2String n [] root [] x = .ok (.str x) :=
    fun x hx n => process2String_inert n [] root [] x hx
  have ia : inertStr "a" := ⟨by decide, by simp, by decide⟩
  have ib : inertStr "b" := ⟨by decide, by simp, by decide⟩
  have ic : inertStr "c" := ⟨by decide, by simp, by decide⟩
  have iva : inertStr "<{b}>" := ⟨by decide, by simp, by decide⟩
  have ivb : inertStr "B" := ⟨by decide, by simp, by decide⟩
  have hga : getWithVar root [] [] "a" = .ok (.str "<{b}>") :=
    getWithVar_simple_key _ _ _ _ _ isPlainRef_a (by decide) (by decide)
  have hgb : getWithVar root [] [] "b" = .ok (.str "B") :=
    getWithVar_simple_key _ _ _ _ _ cx_isPlainRef_b (by decide) (by decide)
  have hc : process2String (fuel + 2) [] root [] "$\"{a} and {b}\"" = .ok (.str "<{b}> and B") := by
    have hsegs : interpSegs "{a} and {b}".toList =
        [.ref "a".toList, .lit " and ".toList, .ref "b".toList] := by decide
    obtain ⟨h1, -⟩ := C13_nested_value (fuel + 1) [] root [] "$\"{a} and {b}\""
      "{a} and {b}".toList (by decide)
      (fun r => if r = "a".toList then .str "<{b}>" else .str "B")
      (by
        rw [hsegs]
        intro r hr
        simp only [List.mem_cons, Seg.ref.injEq, List.mem_nil_iff, or_false, reduceCtorEq,
          false_or] at hr
        rcases hr with rfl | rfl
        · exact ⟨_, by simpa using hga, Or.inr ⟨_, rfl, by simpa using hin _ iva _⟩⟩
        · exact ⟨_, by simpa using hgb, Or.inr ⟨_, rfl, by
            rw [if_neg (by decide)]; exact hin _ ivb _⟩⟩)
    rw [h1, hsegs]
    exact congrArg Except.ok (by decide)
  have hr : noRepeatEntries [("a", Val.str "<{b}>"), ("b", .str "B"), ("c", .str "$\"{a} and {b}\"")] := by
    intro p hp m hm
    simp only [List.mem_cons, List.mem_nil_iff, or_false] at hp
    rcases hp with rfl | rfl | rfl <;> cases hm
  show process2 (fuel + 3) [] root [] (.map _) = _
  rw [process2_map_noRepeat _ _ _ _ _ (by decide) hr]
  simp only [cx_process2MapTail, fget, if_false, show ("a" = "$encode") = False from by decide,
    show ("b" = "$encode") = False from by decide, show ("c" = "$encode") = False from by decide,
    show ("a" = "$decode") = False from by decide,
    show ("b" = "$decode") = False from by decide, show ("c" = "$decode") = False from by decide,
    show ("a" = "$value") = False from by decide,
    show ("b" = "$value") = False from by decide, show ("c" = "$value") = False from by decide]
  rw [process2Entries_eq]
  simp only [evalEntries, evalEntry, cx_process2_str, hin _ ia, hin _ ib, hin _ ic, hin _ iva,
    hin _ ivb, hc, e_ok_bind, e_pure_eq]
  exact congrArg Except.ok (congrArg Val.map (by decide))

/-- Contrast: when `a` is itself an interpolation, `a: $"<{b}>", b: "B", c: $"{a} and {b}"`,
    the referenced value is evaluated first, so `c` becomes `<B> and B`. -/
theorem C13_nested_value_example (fuel : Nat) :
    let root : Val :=
      .map [("a", .str "$\"<{b}>\""), ("b", .str "B"), ("c", .str "$\"{a} and {b}\"")]
    process2 (fuel + 4) [] root [] root =
      .ok (.map [("a", .str "<B>"), ("b", .str "B"), ("c", .str "<B> and B")]) := by
  intro root
  have hin : ∀ (x : String), inertStr x → ∀ n, process2String n [] root [] x = .ok (.str x) :=
    fun x hx n => process2String_inert n [] root [] x hx
  have ia : inertStr "a" := ⟨by decide, by simp, by decide⟩
  have ib : inertStr "b" := ⟨by decide, by simp, by decide⟩
  have ic : inertStr "c" := ⟨by decide, by simp, by decide⟩
  have ivb : inertStr "B" := ⟨by decide, by simp, by decide⟩
  have hga : getWithVar root [] [] "a" = .ok (.str "$\"<{b}>\"") :=
    getWithVar_simple_key _ _ _ _ _ isPlainRef_a (by decide) (by decide)
  have hgb : getWithVar root [] [] "b" = .ok (.str "B") :=
    getWithVar_simple_key _ _ _ _ _ cx_isPlainRef_b (by decide) (by decide)
  have ha : ∀ n, process2String (n + 1) [] root [] "$\"<{b}>\"" = .ok (.str "<B>") := by
    intro n
    have hsegs : interpSegs "<{b}>".toList = [.lit "<".toList, .ref "b".toList, .lit ">".toList] := by
      decide
    obtain ⟨h1, -⟩ := C13_nested_value n [] root [] "$\"<{b}>\"" "<{b}>".toList (by decide)
      (fun _ => .str "B")
      (by
        rw [hsegs]
        intro r hr
        simp only [List.mem_cons, Seg.ref.injEq, List.mem_nil_iff, or_false, reduceCtorEq,
          false_or] at hr
        subst hr
        exact ⟨_, by simpa using hgb, Or.inr ⟨_, rfl, hin _ ivb _⟩⟩)
    rw [h1, hsegs]
    exact congrArg Except.ok (by decide)
  have hc : process2String (fuel + 3) [] root [] "$\"{a} and {b}\"" = .ok (.str "<B> and B") := by
    have hsegs : interpSegs "{a} and {b}".toList =
        [.ref "a".toList, .lit " and ".toList, .ref "b".toList] := by decide
    obtain ⟨h1, -⟩ := C13_nested_value (fuel + 2) [] root [] "$\"{a} and {b}\""
      "{a} and {b}".toList (by decide)
      (fun r => if r = "a".toList then .str "<B>" else .str "B")
      (by
        rw [hsegs]
        intro r hr
        simp only [List.mem_cons, Seg.ref.injEq, List.mem_nil_iff, or_false, reduceCtorEq,
          false_or] at hr
        rcases hr with rfl | rfl
        · exact ⟨_, by simpa using hga, Or.inr ⟨_, rfl, by simpa using ha (fuel + 1)⟩⟩
        · exact ⟨_, by simpa using hgb, Or.inr ⟨_, rfl, by
            rw [if_neg (by decide)]; exact hin _ ivb _⟩⟩)
    rw [h1, hsegs]
    exact congrArg Except.ok (by decide)
  have hr : noRepeatEntries
      [("a", Val.str "$\"<{b}>\""), ("b", .str "B"), ("c", .str "$\"{a} and {b}\"")] := by
    intro p hp m hm
    simp only [List.mem_cons, List.mem_nil_iff, or_false] at hp
    rcases hp with rfl | rfl | rfl <;> cases hm
  show process2 (fuel + 4) [] root [] (.map _) = _
  rw [process2_map_noRepeat _ _ _ _ _ (by decide) hr]
  simp only [cx_process2MapTail,
    show fget [("a", Val.str "$\"<{b}>\""), ("b", .str "B"), ("c", .str "$\"{a} and {b}\"")]
      "$encode" = none from by decide,
    show fget [("a", Val.str "$\"<{b}>\""), ("b", .str "B"), ("c", .str "$\"{a} and {b}\"")]
      "$decode" = none from by decide,
    show fget [("a", Val.str "$\"<{b}>\""), ("b", .str "B"), ("c", .str "$\"{a} and {b}\"")]
      "$value" = none from by decide]
  rw [process2Entries_eq]
  simp only [evalEntries, evalEntry, cx_process2_str, hin _ ia, hin _ ib, hin _ ic, ha (fuel + 2),
    hin _ ivb, hc, e_ok_bind, e_pure_eq]
  exact congrArg Except.ok (congrArg Val.map (by decide))

/-- A referenced `$env:` string is evaluated too (to the variable's value), and THAT text is
    again not rescanned: with `X = "{b}"`, `a: $env:X, b: "B"`, the string `$"{a}!"` is `{b}!`.
    A referenced NON-string is formatted raw: with `l: [$env:X]`, `$"{l}"` is `[$env:X]`
    (although the entry `l` itself evaluates to `["{b}"]`). -/
theorem C13_nested_env_example (fuel : Nat) :
    let root : Val := .map [("a", .str "$env:X"), ("b", .str "B"), ("l", .list [.str "$env:X"])]
    let ec : Vars := [("$env:X", .str "{b}")]
    process2String (fuel + 2) [] root ec "$\"{a}!\"" = .ok (.str "{b}!") ∧
    process2String (fuel + 2) [] root ec "$\"{l}\"" = .ok (.str "[$env:X]") ∧
    process2 (fuel + 2) [] root ec (.list [.str "$env:X"]) = .ok (.list [.str "{b}"]) := by
  intro root ec
  have hga : getWithVar root [] ec "a" = .ok (.str "$env:X") :=
    getWithVar_simple_key _ _ _ _ _ isPlainRef_a (by decide) (by decide)
  have hgl : getWithVar root [] ec "l" = .ok (.list [.str "$env:X"]) :=
    getWithVar_simple_key _ _ _ _ _ cx_isPlainRef_l (by decide) (by decide)
  have henv : ∀ n, process2String n [] root ec "$env:X" = .ok (.str "{b}") := by
    intro n
    rw [show "$env:X" = "$env:" ++ "X" from by decide, process2String_env]; rfl
  refine ⟨?_, ?_, ?_⟩
  · have hsegs : interpSegs "{a}!".toList = [.ref "a".toList, .lit "!".toList] := by decide
    obtain ⟨h1, -⟩ := C13_nested_value (fuel + 1) [] root ec "$\"{a}!\"" "{a}!".toList (by decide)
      (fun _ => .str "{b}")
      (by
        rw [hsegs]
        intro r hr
        simp only [List.mem_cons, Seg.ref.injEq, List.mem_nil_iff, or_false, reduceCtorEq,
          or_false] at hr
        subst hr
        exact ⟨_, by simpa using hga, Or.inr ⟨_, rfl, henv _⟩⟩)
    rw [h1, hsegs]
    exact congrArg Except.ok (by decide)
  · have hsegs : interpSegs "{l}".toList = [.ref "l".toList] := by decide
    obtain ⟨h1, -⟩ := C13_nested_value (fuel + 1) [] root ec "$\"{l}\"" "{l}".toList (by decide)
      (fun _ => .list [.str "$env:X"])
      (by
        rw [hsegs]
        intro r hr
        simp only [List.mem_singleton, Seg.ref.injEq] at hr
        subst hr
        exact ⟨_, by simpa using hgl, Or.inl ⟨fun s2 h => (by cases h), rfl⟩⟩)
    rw [h1, hsegs]
    exact congrArg Except.ok (by decide)
  · rw [process2]
    simp [popListMapValue, Val.isNull, cx_process2_str, henv, e_ok_bind, e_pure_eq]

/-- The extra evaluation of a referenced string recurses with one unit of fuel less each time;
    a string that references itself (`a: $"{a}"`) therefore ends in `circularRef`, for every
    fuel — it is never substituted unevaluated. -/
theorem C13_nested_self_reference (fuel : Nat) :
    process2String fuel [] (.map [("a", .str "$\"{a}\"")]) [] "$\"{a}\"" = .error .circularRef := by
  have hb : interpBody "$\"{a}\"" = some "{a}".toList := by decide
  have hg : getWithVar (.map [("a", .str "$\"{a}\"")]) [] [] (String.ofList "a".toList)
      = .ok (.str "$\"{a}\"") :=
    getWithVar_simple_key _ _ _ _ _ (by simpa using isPlainRef_a) (by decide) (by decide)
  induction fuel with
  | zero => rw [process2String.eq_1]; simp only [hb]; rfl
  | succ n ih =>
    rw [process2String_interp n _ _ _ _ _ hb,
      show interpSegs "{a}".toList = [.ref "a".toList] from by decide]
    simp only [interpSpec, List.mapM_cons, List.mapM_nil, interpSeg, hg, ih]
    rfl

/-! ## the environment: `envOfEnviron` (evalcontext.go:envVars)

  `envOfEnviron : List String → Vars` (BklProofs/Lemmas/C13Environ.lean) builds the `$env:` variables
  from `os.Environ()`: each entry is split at its FIRST `=` (`strings.SplitN(s, "=", 2)`,
  `wa_envEntry`), the value is stored as a string under `"$env:" ++ name`, later entries
  overwrite earlier ones (Go map assignment).  An entry without `=` makes Go's `kv[1]` panic;
  the model skips it. -/

/-- **C13_env_value_keeps_equals** — the entry `name=value` (no `=` in `name`) binds
    `$env:name` to EXACTLY `value`, as a string, for every `value`: further `=` signs stay in
    the value (split at the first `=` only), the empty value is the empty string, and a value
    that looks like a number, a directive or an interpolation is still that string — `$env:name`
    evaluates (`process2String`, any fuel, any document) to `.str value`, never anything else. -/
theorem C13_env_value_keeps_equals (name value : String) (hn : '=' ∉ name.toList) :
    wa_envEntry (name ++ "=" ++ value) = some (name, value) ∧
    getVar (envOfEnviron [name ++ "=" ++ value]) ("$env:" ++ name) = .ok (.str value) ∧
    ∀ (fuel : Nat) (docs : List Val) (root : Val),
      process2String fuel docs root (envOfEnviron [name ++ "=" ++ value]) ("$env:" ++ name) =
        .ok (.str value) := by
  have h := wa_fget_envOfEnviron_last [] [] name value hn (fun _ h => nomatch h)
  rw [List.nil_append] at h
  refine ⟨wa_envEntry_mk name value hn, ?_, fun fuel docs root => C13_env_bound fuel docs root _ name _ h⟩
  simp [getVar, h, pure, Except.pure]

/-- non-vacuity: a value with two more `=`, the empty value, a number, a directive look-alike -/
example : getVar (envOfEnviron ["K=a=b=c"]) "$env:K" = .ok (.str "a=b=c") ∧
    getVar (envOfEnviron ["K="]) "$env:K" = .ok (.str "") ∧
    getVar (envOfEnviron ["K=123"]) "$env:K" = .ok (.str "123") ∧
    getVar (envOfEnviron ["K=$env:K"]) "$env:K" = .ok (.str "$env:K") ∧
    getVar (envOfEnviron ["K==="]) "$env:K" = .ok (.str "==") :=
  ⟨(C13_env_value_keeps_equals "K" "a=b=c" (by decide)).2.1,
   (C13_env_value_keeps_equals "K" "" (by decide)).2.1,
   (C13_env_value_keeps_equals "K" "123" (by decide)).2.1,
   (C13_env_value_keeps_equals "K" "$env:K" (by decide)).2.1,
   (C13_env_value_keeps_equals "K" "==" (by decide)).2.1⟩

/-- In a whole environment the LAST entry for a name wins (Go: `vars[k] = v` in `os.Environ()`
    order), again with its value verbatim; the environment is well formed (`envWF`: every
    `$env:` variable is a string) and a key-sorted map. -/
theorem C13_env_last_wins (pre post : List String) (name value : String)
    (hn : '=' ∉ name.toList) (hpost : ∀ e ∈ post, wa_envName e ≠ some name) :
    getVar (envOfEnviron (pre ++ (name ++ "=" ++ value) :: post)) ("$env:" ++ name) =
      .ok (.str value) ∧
    envWF (envOfEnviron (pre ++ (name ++ "=" ++ value) :: post)) ∧
    Fields.SortedKeys (envOfEnviron (pre ++ (name ++ "=" ++ value) :: post)) := by
  refine ⟨?_, wa_envOfEnviron_envWF _, wa_envOfEnviron_sorted _⟩
  simp [getVar, wa_fget_envOfEnviron_last pre post name value hn hpost, pure, Except.pure]

example : getVar (envOfEnviron ["K=old", "J=x=y", "K=new=1", "noequals"]) "$env:K" =
    .ok (.str "new=1") := by
  have h := (C13_env_last_wins ["K=old", "J=x=y"] ["noequals"] "K" "new=1" (by decide) (by
    intro e he
    have : e = "noequals" := by simpa using he
    subst this; decide)).1
  exact h

/-- **C13_env_unset_is_error** — a name that is not the part before the first `=` of any entry
    of the environment (`wa_envName e ≠ some name` for every entry `e`; this is an iff) is
    unbound, so
    * `$env:name` is the `variableNotFound` error (`C13_env_unbound`), whatever the fuel;
    * as a reference inside an interpolated string, `{$env:name}` — which the document itself
      does not resolve (`get … = .error e₀`) — is `variableNotFound` (or `unmodelled`, when the
      reference string is outside the modelled YAML sub-language), and makes the whole string
      an error: never an empty substitution. -/
theorem C13_env_unset_is_error (environ : List String) (name : String) :
    (fget (envOfEnviron environ) ("$env:" ++ name) = none ↔
      ∀ e ∈ environ, wa_envName e ≠ some name) ∧
    ((∀ e ∈ environ, wa_envName e ≠ some name) →
      (∀ (fuel : Nat) (docs : List Val) (root : Val),
        process2String fuel docs root (envOfEnviron environ) ("$env:" ++ name) =
          .error .variableNotFound) ∧
      (∀ (docs : List Val) (root : Val) (e₀ : Err),
        get root docs (.str ("$env:" ++ name)) = .error e₀ →
          (e₀ ≠ .unmodelled → getWithVar root docs (envOfEnviron environ) ("$env:" ++ name) =
            .error .variableNotFound) ∧
          (∃ e₁, getWithVar root docs (envOfEnviron environ) ("$env:" ++ name) = .error e₁) ∧
          ∀ (fuel : Nat) (s : String) (body : List Char), interpBody s = some body →
            Seg.ref ("$env:" ++ name).toList ∈ interpSegs body →
            ∃ e', process2String (fuel + 1) docs root (envOfEnviron environ) s = .error e')) := by
  refine ⟨wa_fget_envOfEnviron_none_iff environ name, ?_⟩
  intro hun
  have hnone := (wa_fget_envOfEnviron_none_iff environ name).2 hun
  refine ⟨fun fuel docs root => C13_env_unbound fuel docs root _ name hnone, ?_⟩
  intro docs root e₀ hg
  have hvar : getVar (envOfEnviron environ) ("$env:" ++ name) = .error .variableNotFound := by
    simp [getVar, hnone]; rfl
  have h1 : e₀ ≠ .unmodelled → getWithVar root docs (envOfEnviron environ) ("$env:" ++ name) =
      .error .variableNotFound := by
    intro hu
    unfold getWithVar
    rw [hg]
    cases e₀ <;> first | exact hvar | exact absurd rfl hu
  have h2 : ∃ e₁, getWithVar root docs (envOfEnviron environ) ("$env:" ++ name) = .error e₁ := by
    by_cases hu : e₀ = .unmodelled
    · subst hu
      exact ⟨.unmodelled, by unfold getWithVar; rw [hg]; rfl⟩
    · exact ⟨_, h1 hu⟩
  refine ⟨h1, h2, ?_⟩
  intro fuel s body hb hr
  obtain ⟨e₁, he₁⟩ := h2
  exact C13_missing_is_error fuel docs root _ s body hb _ e₁ hr
    (by rw [String.ofList_toList]; exact he₁)

/-- non-vacuity: `HOME` is not defined by `PATH=/bin`, `HOMER=x`, `XHOME=y`, `=HOME` or by the
    `=`-less entry `HOME`; the document `{}` does not resolve `$env:HOME` either; `$"{$env:HOME}"`
    scans to that one reference -/
example : (∀ e ∈ ["PATH=/bin", "HOMER=x", "XHOME=y", "=HOME", "HOME"], wa_envName e ≠ some "HOME") ∧
    get (.map []) [] (.str ("$env:" ++ "HOME")) = .error .refNotFound ∧
    interpBody "$\"{$env:HOME}\"" = some "{$env:HOME}".toList ∧
    Seg.ref ("$env:" ++ "HOME").toList ∈ interpSegs "{$env:HOME}".toList := by
  refine ⟨by decide, ?_, by decide, by decide⟩
  rw [show "$env:" ++ "HOME" = "$env:HOME" by decide]
  exact wa_get_envHOME

end Bkl
