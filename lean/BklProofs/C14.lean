/-
  C14 — "$encode produces the named standard encodings and $decode inverts them".
  Model: Bkl/Encode.lean (`encodeAny`, `encodeList`, `encodeString`, `base64`, `sha256Hex`, `fmtV`).
  Specification functions (`encStep`, `joinSpec`, `prefixSpec`, `flattenSpec`, `valuesSpec`,
  `tolistSpec`, `b64Idx`, `b64DecodeChars`) are written independently of the model in
  BklProofs/Lemmas/Encode.lean.
  `String.splitOn ":"` (argument parsing) is characterised once and for all by `splitOn_colon`,
  so the transform theorems are generic in the delimiter / prefix argument.
-/
import BklProofs.Lemmas.Encode
namespace Bkl

/-! ## C14_stack — a list of specs is applied left to right, stopping at the first failure -/

theorem C14_stack_nil (obj : Val) : encodeAny obj (.list []) = .ok obj := by
  simp [encodeAny, encodeList]

theorem C14_stack_cons (obj sp : Val) (rest : List Val) :
    encodeAny obj (.list (sp :: rest)) =
      match encodeAny obj sp with
      | .ok v => encodeAny v (.list rest)
      | e => e := by
  simp only [encodeAny, encodeList]
  cases encodeAny obj sp <;> simp

/-- the whole stack is the left fold of `encStep` (defined in Lemmas/Encode.lean) -/
theorem C14_stack (obj : Val) (specs : List Val) :
    encodeAny obj (.list specs) = specs.foldl encStep (.ok obj) := by
  simp only [encodeAny]
  induction specs generalizing obj with
  | nil => simp [encodeList]
  | cons sp rest ih =>
    simp only [encodeList, List.foldl_cons, encStep]
    cases h : encodeAny obj sp with
    | ok v => simpa using ih v
    | err e => simp [encStep_foldl_err]
    | codec f v => simp [encStep_foldl_codec]

/-- two string transforms: apply `a`, then `b` to its result -/
theorem C14_stack_two (obj : Val) (a b : String) :
    encodeAny obj (.list [.str a, .str b]) =
      match encodeString obj a with
      | .ok v => encodeString v b
      | e => e := by
  simp only [encodeAny, encodeList]
  cases encodeString obj a <;> simp
  cases encodeString _ b <;> rfl

/-! ## the list / map transforms against independent specifications -/

/-- `join` without argument: concatenation of the `%v` renderings -/
theorem C14_join_nodelim (obj : Val) : encodeString obj "join" = joinSpec "" obj := by
  unfold encodeString
  rw [parts_join]
  cases obj <;> simp [joinSpec, toStringListPermissive] <;> rfl

/-- `join:d` for every delimiter `d` without ':' -/
theorem C14_join (obj : Val) (d : String) (hd : ':' ∉ d.toList) :
    encodeString obj ("join:" ++ d) = joinSpec d obj := by
  unfold encodeString
  have : ("join:" ++ d).splitOn ":" = ["join", d] := by
    simpa using splitOn_colon_two "join" d (by decide) hd
  rw [this]
  cases obj <;> simp [joinSpec, toStringListPermissive] <;> rfl

example : ':' ∉ ",".toList := by decide   -- non-vacuity of `hd`
/-- tests -/
example : encodeString (.list [.int 1, .str "b", .bool true]) "join:," = .ok (.str "1,b,true") := by
  rw [show "join:," = "join:" ++ "," from by decide, C14_join _ _ (by decide)]; decide
example : encodeString (.list [.str "a", .str "b"]) "join:-" = .ok (.str "a-b") := by
  rw [show "join:-" = "join:" ++ "-" from by decide, C14_join _ _ (by decide)]; decide

/-- `prefix:p` for every prefix `p` without ':' -/
theorem C14_prefix (obj : Val) (p : String) (hp : ':' ∉ p.toList) :
    encodeString obj ("prefix:" ++ p) = prefixSpec p obj := by
  unfold encodeString
  have : ("prefix:" ++ p).splitOn ":" = ["prefix", p] := by
    simpa using splitOn_colon_two "prefix" p (by decide) hp
  rw [this]
  cases obj <;>
    simp [prefixSpec, toStringListPermissive, pure, Except.pure, Function.comp_def] <;> rfl

example : ':' ∉ "--".toList := by decide
example : encodeString (.list [.str "a", .int 2]) "prefix:p-" = .ok (.list [.str "p-a", .str "p-2"]) := by
  rw [show "prefix:p-" = "prefix:" ++ "p-" from by decide, C14_prefix _ _ (by decide)]; decide

theorem C14_flatten (obj : Val) : encodeString obj "flatten" = flattenSpec obj := by
  unfold encodeString
  rw [parts_flatten]
  cases obj <;> simp [flattenSpec, flattenList_eq]

example : encodeString (.list [.list [.int 1, .int 2], .int 3, .list []]) "flatten"
    = .ok (.list [.int 1, .int 2, .int 3]) := by rw [C14_flatten]; rfl

theorem C14_values (obj : Val) : encodeString obj "values" = valuesSpec obj := by
  unfold encodeString
  rw [parts_values]
  cases obj <;> simp [valuesSpec]
  exact map_snd_eq _

example : encodeString (.map [("a", .int 1), ("b", .str "x")]) "values"
    = .ok (.list [.int 1, .str "x"]) := by rw [C14_values]; rfl

/-- `tolist:d` for every delimiter `d` without ':' -/
theorem C14_tolist (obj : Val) (d : String) (hd : ':' ∉ d.toList) :
    encodeString obj ("tolist:" ++ d) = tolistSpec d obj := by
  unfold encodeString
  have : ("tolist:" ++ d).splitOn ":" = ["tolist", d] := by
    simpa using splitOn_colon_two "tolist" d (by decide) hd
  rw [this]
  cases obj with
  | map kvs => simp [tolistSpec, toListMap_map]
  | list xs => cases h : tolistMaps d xs <;> simp [tolistSpec, toListList_eq, h]
  | _ => simp [tolistSpec, toListMap]; rfl

example : ':' ∉ "=".toList := by decide
/-- test: list values fan out, the empty string gives the bare key, keys in order -/
example : encodeString (.map [("a", .int 1), ("b", .list [.str "x", .str "y"]), ("c", .str "")])
    "tolist:=" = .ok (.list [.str "a=1", .str "b=x", .str "b=y", .str "c"]) := by
  rw [show "tolist:=" = "tolist:" ++ "=" from by decide, C14_tolist _ _ (by decide)]; decide

/-- `tolist::` (delimiter ':') has three parts and is rejected -/
theorem C14_tolist_colon (obj : Val) : encodeString obj "tolist::" = .err .invalidArguments := by
  unfold encodeString
  rw [parts_tolist_colon]
  simp

/-! ## C14_flags_def — `flags` is exactly `[tolist:=, prefix:--]` -/

theorem C14_flags_def (obj : Val) :
    encodeString obj "flags" = encodeAny obj (.list [.str "tolist:=", .str "prefix:--"]) := by
  have h1 := C14_tolist obj "=" (by decide)
  have h2 := fun o => C14_prefix o "--" (by decide)
  rw [show "tolist:" ++ "=" = "tolist:=" from by decide] at h1
  rw [show "prefix:" ++ "--" = "prefix:--" from by decide] at h2
  simp only [encodeAny, encodeList, h1, encodeString_flags]
  cases obj with
  | map kvs => simp [tolistSpec, toListMap_map, h2, prefixSpec]
  | list xs => cases h : tolistMaps "=" xs <;> simp [tolistSpec, toListList_eq, h, h2, prefixSpec]
  | _ => simp [tolistSpec, toListMap]; rfl

example : encodeString (.map [("a", .int 1), ("v", .str "")]) "flags"
    = .ok (.list [.str "--a=1", .str "--v"]) := by
  rw [C14_flags_def, C14_stack_two,
    show "tolist:=" = "tolist:" ++ "=" from by decide, C14_tolist _ _ (by decide)]
  simp only [tolistSpec]
  rw [show "prefix:--" = "prefix:" ++ "--" from by decide, C14_prefix _ _ (by decide)]
  decide

/-! ## C14_bad_args_error -/

/-- commands that take no argument reject any (generic in the argument text `x`) -/
theorem C14_bad_args_noarg (obj : Val) (x : String) :
    encodeString obj ("base64:" ++ x) = .err .invalidArguments ∧
    encodeString obj ("sha256:" ++ x) = .err .invalidArguments ∧
    encodeString obj ("flatten:" ++ x) = .err .invalidArguments ∧
    encodeString obj ("values:" ++ x) = .err .invalidArguments ∧
    encodeString obj ("flags:" ++ x) = .err .invalidArguments := by
  refine ⟨?_, ?_, ?_, ?_, ?_⟩
  · obtain ⟨p, ps, h⟩ := parts_with_arg "base64" x (by decide)
    have h' : ("base64:" ++ x).splitOn ":" = "base64" :: p :: ps := by simpa using h
    unfold encodeString; rw [h']; simp
  · obtain ⟨p, ps, h⟩ := parts_with_arg "sha256" x (by decide)
    have h' : ("sha256:" ++ x).splitOn ":" = "sha256" :: p :: ps := by simpa using h
    unfold encodeString; rw [h']; simp
  · obtain ⟨p, ps, h⟩ := parts_with_arg "flatten" x (by decide)
    have h' : ("flatten:" ++ x).splitOn ":" = "flatten" :: p :: ps := by simpa using h
    unfold encodeString; rw [h']; simp
  · obtain ⟨p, ps, h⟩ := parts_with_arg "values" x (by decide)
    have h' : ("values:" ++ x).splitOn ":" = "values" :: p :: ps := by simpa using h
    unfold encodeString; rw [h']; simp
  · obtain ⟨p, ps, h⟩ := parts_with_arg "flags" x (by decide)
    have h' : ("flags:" ++ x).splitOn ":" = "flags" :: p :: ps := by simpa using h
    unfold encodeString; rw [h']; simp

/-- the enumerated malformed specs -/
theorem C14_bad_args_error (obj : Val) :
    encodeString obj "base64:x" = .err .invalidArguments ∧
    encodeString obj "sha256:1" = .err .invalidArguments ∧
    encodeString obj "flatten:x" = .err .invalidArguments ∧
    encodeString obj "values:x" = .err .invalidArguments ∧
    encodeString obj "flags:x" = .err .invalidArguments ∧
    encodeString obj "prefix" = .err .invalidArguments ∧
    encodeString obj "tolist" = .err .invalidArguments ∧
    encodeString obj "join:a:b" = .err .invalidArguments ∧
    encodeString obj "tolist::" = .err .invalidArguments ∧
    encodeString obj "nosuch" = .err .unknownFormat := by
  have g1 := C14_bad_args_noarg obj "x"
  have g2 := C14_bad_args_noarg obj "1"
  refine ⟨by simpa using g1.1, by simpa using g2.2.1, by simpa using g1.2.2.1,
    by simpa using g1.2.2.2.1, by simpa using g1.2.2.2.2, ?_, ?_, ?_, C14_tolist_colon obj, ?_⟩
  · unfold encodeString; rw [parts_prefix]; simp
  · unfold encodeString; rw [parts_tolist]; simp
  · unfold encodeString; rw [parts_join_ab]; simp
  · unfold encodeString; rw [parts_nosuch]; simp [isCodecFormat]

/-- a spec that is neither a string nor a list -/
theorem C14_bad_spec_type (obj v : Val) (h1 : ∀ s, v ≠ .str s) (h2 : ∀ l, v ≠ .list l) :
    encodeAny obj v = .err .invalidType := by
  cases v <;> first | rfl | exact absurd rfl (h1 _) | exact absurd rfl (h2 _)

example : (∀ s, Val.int 3 ≠ .str s) ∧ (∀ l, Val.int 3 ≠ .list l) :=
  ⟨fun _ h => (by cases h), fun _ h => (by cases h)⟩

/-- wrong operand type: join/prefix/flatten need a list, values needs a map,
    tolist needs a map or a list of maps -/
theorem C14_bad_operand_type (obj : Val) (d : String) (hd : ':' ∉ d.toList) :
    ((∀ l, obj ≠ .list l) →
      encodeString obj "join" = .err .invalidType ∧
      encodeString obj ("join:" ++ d) = .err .invalidType ∧
      encodeString obj ("prefix:" ++ d) = .err .invalidType ∧
      encodeString obj "flatten" = .err .invalidType) ∧
    ((∀ m, obj ≠ .map m) → encodeString obj "values" = .err .invalidType) ∧
    ((∀ m, obj ≠ .map m) → (∀ l, obj ≠ .list l) →
      encodeString obj ("tolist:" ++ d) = .err .invalidType ∧
      encodeString obj "flags" = .err .invalidType) ∧
    (∀ xs x, obj = .list xs → x ∈ xs → (∀ m, x ≠ .map m) →
      encodeString obj ("tolist:" ++ d) = .err .invalidType) := by
  refine ⟨fun h => ?_, fun h => ?_, fun h h' => ?_, fun xs x e hx hm => ?_⟩
  · rw [C14_join_nodelim, C14_join _ _ hd, C14_prefix _ _ hd, C14_flatten]
    cases obj <;> first | exact absurd rfl (h _) | simp [joinSpec, prefixSpec, flattenSpec]
  · rw [C14_values]
    cases obj <;> first | exact absurd rfl (h _) | simp [valuesSpec]
  · rw [C14_tolist _ _ hd, C14_flags_def, C14_stack_two,
      show "tolist:=" = "tolist:" ++ "=" from by decide, C14_tolist _ _ (by decide)]
    cases obj <;> first | exact absurd rfl (h _) | exact absurd rfl (h' _) | simp [tolistSpec]
  · subst e
    rw [C14_tolist _ _ hd]
    simp only [tolistSpec]
    have : tolistMaps d xs = .error .invalidType := by
      induction xs with
      | nil => cases hx
      | cons y ys ih =>
        cases y with
        | map kvs =>
          have hx' : x ∈ ys := by
            rcases List.mem_cons.1 hx with e | e
            · exact absurd e (hm kvs)
            · exact e
          simp [tolistMaps, ih hx']
        | _ => rfl
    rw [this]

/-! ## C14_base64_rt — the encoder is inverted by an independent RFC 4648 decoder -/

theorem C14_base64_rt (bs : List UInt8) : b64DecodeChars (b64EncodeBytes bs) = some bs :=
  b64_roundtrip bs

/-- at the level of the model's `base64 : String → String` -/
theorem C14_base64_rt_string (s : String) :
    b64DecodeChars (base64 s).toList = some s.toUTF8.toList := by
  simp only [base64, String.toList_ofList]
  exact b64_roundtrip _

/-- the alphabet is RFC 4648 Table 1 -/
theorem C14_base64_alphabet : ∀ n, n < 64 → b64Idx (b64Char n) = some n := b64Idx_table

/-- tests: RFC 4648 §10 test vectors -/
example : base64 "" = "" := by simp [base64, byteArray_toList]; decide
example : base64 "f" = "Zg==" := by
  have : "f".toUTF8.toList = [102] := by rw [byteArray_toList]; decide
  simp only [base64, this]; decide
example : base64 "fo" = "Zm8=" := by
  have : "fo".toUTF8.toList = [102, 111] := by rw [byteArray_toList]; decide
  simp only [base64, this]; decide
example : base64 "foo" = "Zm9v" := by
  have : "foo".toUTF8.toList = [102, 111, 111] := by rw [byteArray_toList]; decide
  simp only [base64, this]; decide
example : base64 "foob" = "Zm9vYg==" := by
  have : "foob".toUTF8.toList = [102, 111, 111, 98] := by rw [byteArray_toList]; decide
  simp only [base64, this]; decide
example : base64 "fooba" = "Zm9vYmE=" := by
  have : "fooba".toUTF8.toList = [102, 111, 111, 98, 97] := by rw [byteArray_toList]; decide
  simp only [base64, this]; decide
example : base64 "foobar" = "Zm9vYmFy" := by
  have : "foobar".toUTF8.toList = [102, 111, 111, 98, 97, 114] := by
    rw [byteArray_toList]; decide
  simp only [base64, this]; decide
/-- tests: the decoder on the same vectors, and rejection of malformed input -/
example : b64DecodeChars "Zm9vYmE=".toList = some [102, 111, 111, 98, 97] := by decide
example : b64DecodeChars "Zm9vYg==".toList = some [102, 111, 111, 98] := by decide
example : b64DecodeChars "Zm9".toList = none := by decide
example : b64DecodeChars "Zm=v".toList = none := by decide

/-! ## C14_sha256_vectors — FIPS 180-4 / NIST test vectors, checked by kernel evaluation
    (`sha256Hex_eq` rewrites the model's loops into folds; plain `decide`) -/

set_option maxRecDepth 1000000 in
/-- test vector: the empty message -/
theorem C14_sha256_vector_empty :
    sha256Hex "" = "e3b0c44298fc1c149afbf4c8996fb92427ae41e4649b934ca495991b7852b855" := by
  rw [sha256Hex_eq]
  have : "".toUTF8.data.toList = [] := by decide
  rw [this]
  decide

set_option maxRecDepth 1000000 in
/-- test vector: "abc" -/
theorem C14_sha256_vector_abc :
    sha256Hex "abc" = "ba7816bf8f01cfea414140de5dae2223b00361a396177a9cb410ff61f20015ad" := by
  rw [sha256Hex_eq]
  have : "abc".toUTF8.data.toList = [97, 98, 99] := by decide
  rw [this]
  decide

set_option maxRecDepth 1000000 in
/-- test vector: a two-block message (56 bytes) -/
theorem C14_sha256_vector_two_blocks :
    sha256HexBytes "abcdbcdecdefdefgefghfghighijhijkijkljklmklmnlmnomnopnopq".toUTF8.data.toList
      = "248d6a61d20638b8e5c026930c3e6039a33ce45964ff2167f6ecedd419db06c1" := by
  decide

/-! ## C14_fmtV_scalars — Go's `%v` on scalars -/

theorem C14_fmtV_scalars (i : Int) (s r : String) :
    fmtV (.int i) = toString i ∧ fmtV (.bool true) = "true" ∧ fmtV (.bool false) = "false" ∧
    fmtV (.str s) = s ∧ fmtV (.flt r) = r ∧ fmtV .null = "<nil>" := by
  refine ⟨?_, ?_, ?_, ?_, ?_, ?_⟩ <;> simp [fmtV]

/-- tests -/
example : fmtV (.int 42) = "42" := by decide
example : fmtV (.int (-7)) = "-7" := by decide
example : fmtV (.int 0) = "0" := by decide
example : fmtV (.list [.int 1, .str "a", .null]) = "[1 a <nil>]" := by decide
example : fmtV (.map [("a", .int 1), ("b", .bool true)]) = "map[a:1 b:true]" := by decide

end Bkl
