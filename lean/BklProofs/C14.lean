/-
  C14 — "$encode produces the named standard encodings and $decode inverts them".
  Model: Bkl/Encode.lean (`encodeAny`, `encodeList`, `encodeString`, `base64`, `sha256Hex`, `fmtV`).
  Specification functions (`encStep`, `joinSpec`, `prefixSpec`, `flattenSpec`, `valuesSpec`,
  `tolistSpec`, `b64Idx`, `b64DecodeChars`) are written independently of the model in
  BklProofs/Lemmas/Encode.lean.
  `String.splitOn ":"` (argument parsing) is characterised once and for all by `splitOn_colon`,
  so the transform theorems are generic in the delimiter / prefix argument.
-/
import BklProofs.Lemmas.Encode
import BklProofs.Lemmas.C14Codec
import BklProofs.Lemmas.Json
namespace Bkl

/-! ## C14_stack — a list of specs is applied left to right, stopping at the first failure -/

theorem C14_stack_nil (obj : Val) : encodeAny obj (.list []) = .ok obj := by
  simp [encodeAny, encodeList]

theorem C14_stack_cons (obj sp : Val) (rest : List Val) :
    encodeAny obj (.list (sp :: rest)) =
      match encodeAny obj sp with
      | .ok v => encodeAny v (.list rest)
      | e => e := by
  simp only [encodeAny, encodeList]
  cases encodeAny obj sp <;> simp

/-- the whole stack is the left fold of `encStep` (defined in Lemmas/Encode.lean) -/
theorem C14_stack (obj : Val) (specs : List Val) :
    encodeAny obj (.list specs) = specs.foldl encStep (.ok obj) := by
  simp only [encodeAny]
  induction specs generalizing obj with
  | nil => simp [encodeList]
  | cons sp rest ih =>
    simp only [encodeList, List.foldl_cons, encStep]
    cases h : encodeAny obj sp with
    | ok v => simpa using ih v
    | err e => simp [encStep_foldl_err]
    | codec f v => simp [encStep_foldl_codec]

/-- two string transforms: apply `a`, then `b` to its result -/
theorem C14_stack_two (obj : Val) (a b : String) :
    encodeAny obj (.list [.str a, .str b]) =
      match encodeString obj a with
      | .ok v => encodeString v b
      | e => e := by
  simp only [encodeAny, encodeList]
  cases encodeString obj a <;> simp
  cases encodeString _ b <;> rfl

/-! ## the list / map transforms against independent specifications -/

/-- `join` without argument: concatenation of the `%v` renderings -/
theorem C14_join_nodelim (obj : Val) : encodeString obj "join" = joinSpec "" obj := by
  unfold encodeString
  rw [parts_join]
  cases obj <;> simp [joinSpec, toStringListPermissive] <;> rfl

/-- `join:d` for every delimiter `d` without ':' -/
theorem C14_join (obj : Val) (d : String) (hd : ':' ∉ d.toList) :
    encodeString obj ("join:" ++ d) = joinSpec d obj := by
  unfold encodeString
  have : ("join:" ++ d).splitOn ":" = ["join", d] := by
    simpa using splitOn_colon_two "join" d (by decide) hd
  rw [this]
  cases obj <;> simp [joinSpec, toStringListPermissive] <;> rfl

example : ':' ∉ ",".toList := by decide   -- non-vacuity of `hd`
/-- tests -/
example : encodeString (.list [.int 1, .str "b", .bool true]) "join:," = .ok (.str "1,b,true") := by
  rw [show "join:," = "join:" ++ "," from by decide, C14_join _ _ (by decide)]; decide
example : encodeString (.list [.str "a", .str "b"]) "join:-" = .ok (.str "a-b") := by
  rw [show "join:-" = "join:" ++ "-" from by decide, C14_join _ _ (by decide)]; decide

/-- `prefix:p` for every prefix `p` without ':' -/
theorem C14_prefix (obj : Val) (p : String) (hp : ':' ∉ p.toList) :
    encodeString obj ("prefix:" ++ p) = prefixSpec p obj := by
  unfold encodeString
  have : ("prefix:" ++ p).splitOn ":" = ["prefix", p] := by
    simpa using splitOn_colon_two "prefix" p (by decide) hp
  rw [this]
  cases obj <;>
    simp [prefixSpec, toStringListPermissive, pure, Except.pure, Function.comp_def] <;> rfl

example : ':' ∉ "--".toList := by decide
example : encodeString (.list [.str "a", .int 2]) "prefix:p-" = .ok (.list [.str "p-a", .str "p-2"]) := by
  rw [show "prefix:p-" = "prefix:" ++ "p-" from by decide, C14_prefix _ _ (by decide)]; decide

theorem C14_flatten (obj : Val) : encodeString obj "flatten" = flattenSpec obj := by
  unfold encodeString
  rw [parts_flatten]
  cases obj <;> simp [flattenSpec, flattenList_eq]

example : encodeString (.list [.list [.int 1, .int 2], .int 3, .list []]) "flatten"
    = .ok (.list [.int 1, .int 2, .int 3]) := by rw [C14_flatten]; rfl

theorem C14_values (obj : Val) : encodeString obj "values" = valuesSpec obj := by
  unfold encodeString
  rw [parts_values]
  cases obj <;> simp [valuesSpec]
  exact map_snd_eq _

example : encodeString (.map [("a", .int 1), ("b", .str "x")]) "values"
    = .ok (.list [.int 1, .str "x"]) := by rw [C14_values]; rfl

/-- `tolist:d` for every delimiter `d` without ':' -/
theorem C14_tolist (obj : Val) (d : String) (hd : ':' ∉ d.toList) :
    encodeString obj ("tolist:" ++ d) = tolistSpec d obj := by
  unfold encodeString
  have : ("tolist:" ++ d).splitOn ":" = ["tolist", d] := by
    simpa using splitOn_colon_two "tolist" d (by decide) hd
  rw [this]
  cases obj with
  | map kvs => simp [tolistSpec, toListMap_map]
  | list xs => cases h : tolistMaps d xs <;> simp [tolistSpec, toListList_eq, h]
  | _ => simp [tolistSpec, toListMap]; rfl

example : ':' ∉ "=".toList := by decide
/-- test: list values fan out, the empty string gives the bare key, keys in order -/
example : encodeString (.map [("a", .int 1), ("b", .list [.str "x", .str "y"]), ("c", .str "")])
    "tolist:=" = .ok (.list [.str "a=1", .str "b=x", .str "b=y", .str "c"]) := by
  rw [show "tolist:=" = "tolist:" ++ "=" from by decide, C14_tolist _ _ (by decide)]; decide

/-- `tolist::` (delimiter ':') has three parts and is rejected -/
theorem C14_tolist_colon (obj : Val) : encodeString obj "tolist::" = .err .invalidArguments := by
  unfold encodeString
  rw [parts_tolist_colon]
  simp

/-! ## C14_flags_def — `flags` is exactly `[tolist:=, prefix:--]` -/

theorem C14_flags_def (obj : Val) :
    encodeString obj "flags" = encodeAny obj (.list [.str "tolist:=", .str "prefix:--"]) := by
  have h1 := C14_tolist obj "=" (by decide)
  have h2 := fun o => C14_prefix o "--" (by decide)
  rw [show "tolist:" ++ "=" = "tolist:=" from by decide] at h1
  rw [show "prefix:" ++ "--" = "prefix:--" from by decide] at h2
  simp only [encodeAny, encodeList, h1, encodeString_flags]
  cases obj with
  | map kvs => simp [tolistSpec, toListMap_map, h2, prefixSpec]
  | list xs => cases h : tolistMaps "=" xs <;> simp [tolistSpec, toListList_eq, h, h2, prefixSpec]
  | _ => simp [tolistSpec, toListMap]; rfl

example : encodeString (.map [("a", .int 1), ("v", .str "")]) "flags"
    = .ok (.list [.str "--a=1", .str "--v"]) := by
  rw [C14_flags_def, C14_stack_two,
    show "tolist:=" = "tolist:" ++ "=" from by decide, C14_tolist _ _ (by decide)]
  simp only [tolistSpec]
  rw [show "prefix:--" = "prefix:" ++ "--" from by decide, C14_prefix _ _ (by decide)]
  decide

/-! ## C14_bad_args_error -/

/-- commands that take no argument reject any (generic in the argument text `x`) -/
theorem C14_bad_args_noarg (obj : Val) (x : String) :
    encodeString obj ("base64:" ++ x) = .err .invalidArguments ∧
    encodeString obj ("sha256:" ++ x) = .err .invalidArguments ∧
    encodeString obj ("flatten:" ++ x) = .err .invalidArguments ∧
    encodeString obj ("values:" ++ x) = .err .invalidArguments ∧
    encodeString obj ("flags:" ++ x) = .err .invalidArguments := by
  refine ⟨?_, ?_, ?_, ?_, ?_⟩
  · obtain ⟨p, ps, h⟩ := parts_with_arg "base64" x (by decide)
    have h' : ("base64:" ++ x).splitOn ":" = "base64" :: p :: ps := by simpa using h
    unfold encodeString; rw [h']; simp
  · obtain ⟨p, ps, h⟩ := parts_with_arg "sha256" x (by decide)
    have h' : ("sha256:" ++ x).splitOn ":" = "sha256" :: p :: ps := by simpa using h
    unfold encodeString; rw [h']; simp
  · obtain ⟨p, ps, h⟩ := parts_with_arg "flatten" x (by decide)
    have h' : ("flatten:" ++ x).splitOn ":" = "flatten" :: p :: ps := by simpa using h
    unfold encodeString; rw [h']; simp
  · obtain ⟨p, ps, h⟩ := parts_with_arg "values" x (by decide)
    have h' : ("values:" ++ x).splitOn ":" = "values" :: p :: ps := by simpa using h
    unfold encodeString; rw [h']; simp
  · obtain ⟨p, ps, h⟩ := parts_with_arg "flags" x (by decide)
    have h' : ("flags:" ++ x).splitOn ":" = "flags" :: p :: ps := by simpa using h
    unfold encodeString; rw [h']; simp

/-- the enumerated malformed specs -/
theorem C14_bad_args_error (obj : Val) :
    encodeString obj "base64:x" = .err .invalidArguments ∧
    encodeString obj "sha256:1" = .err .invalidArguments ∧
    encodeString obj "flatten:x" = .err .invalidArguments ∧
    encodeString obj "values:x" = .err .invalidArguments ∧
    encodeString obj "flags:x" = .err .invalidArguments ∧
    encodeString obj "prefix" = .err .invalidArguments ∧
    encodeString obj "tolist" = .err .invalidArguments ∧
    encodeString obj "join:a:b" = .err .invalidArguments ∧
    encodeString obj "tolist::" = .err .invalidArguments ∧
    encodeString obj "nosuch" = .err .unknownFormat := by
  have g1 := C14_bad_args_noarg obj "x"
  have g2 := C14_bad_args_noarg obj "1"
  refine ⟨by simpa using g1.1, by simpa using g2.2.1, by simpa using g1.2.2.1,
    by simpa using g1.2.2.2.1, by simpa using g1.2.2.2.2, ?_, ?_, ?_, C14_tolist_colon obj, ?_⟩
  · unfold encodeString; rw [parts_prefix]; simp
  · unfold encodeString; rw [parts_tolist]; simp
  · unfold encodeString; rw [parts_join_ab]; simp
  · unfold encodeString; rw [parts_nosuch]; simp [isCodecFormat]

/-- a spec that is neither a string nor a list -/
theorem C14_bad_spec_type (obj v : Val) (h1 : ∀ s, v ≠ .str s) (h2 : ∀ l, v ≠ .list l) :
    encodeAny obj v = .err .invalidType := by
  cases v <;> first | rfl | exact absurd rfl (h1 _) | exact absurd rfl (h2 _)

example : (∀ s, Val.int 3 ≠ .str s) ∧ (∀ l, Val.int 3 ≠ .list l) :=
  ⟨fun _ h => (by cases h), fun _ h => (by cases h)⟩

/-- wrong operand type: join/prefix/flatten need a list, values needs a map,
    tolist needs a map or a list of maps -/
theorem C14_bad_operand_type (obj : Val) (d : String) (hd : ':' ∉ d.toList) :
    ((∀ l, obj ≠ .list l) →
      encodeString obj "join" = .err .invalidType ∧
      encodeString obj ("join:" ++ d) = .err .invalidType ∧
      encodeString obj ("prefix:" ++ d) = .err .invalidType ∧
      encodeString obj "flatten" = .err .invalidType) ∧
    ((∀ m, obj ≠ .map m) → encodeString obj "values" = .err .invalidType) ∧
    ((∀ m, obj ≠ .map m) → (∀ l, obj ≠ .list l) →
      encodeString obj ("tolist:" ++ d) = .err .invalidType ∧
      encodeString obj "flags" = .err .invalidType) ∧
    (∀ xs x, obj = .list xs → x ∈ xs → (∀ m, x ≠ .map m) →
      encodeString obj ("tolist:" ++ d) = .err .invalidType) := by
  refine ⟨fun h => ?_, fun h => ?_, fun h h' => ?_, fun xs x e hx hm => ?_⟩
  · rw [C14_join_nodelim, C14_join _ _ hd, C14_prefix _ _ hd, C14_flatten]
    cases obj <;> first | exact absurd rfl (h _) | simp [joinSpec, prefixSpec, flattenSpec]
  · rw [C14_values]
    cases obj <;> first | exact absurd rfl (h _) | simp [valuesSpec]
  · rw [C14_tolist _ _ hd, C14_flags_def, C14_stack_two,
      show "tolist:=" = "tolist:" ++ "=" from by decide, C14_tolist _ _ (by decide)]
    cases obj <;> first | exact absurd rfl (h _) | exact absurd rfl (h' _) | simp [tolistSpec]
  · subst e
    rw [C14_tolist _ _ hd]
    simp only [tolistSpec]
    have : tolistMaps d xs = .error .invalidType := by
      induction xs with
      | nil => cases hx
      | cons y ys ih =>
        cases y with
        | map kvs =>
          have hx' : x ∈ ys := by
            rcases List.mem_cons.1 hx with e | e
            · exact absurd e (hm kvs)
            · exact e
          simp [tolistMaps, ih hx']
        | _ => rfl
    rw [this]

/-! ## C14_base64_rt — the encoder is inverted by an independent RFC 4648 decoder -/

theorem C14_base64_rt (bs : List UInt8) : b64DecodeChars (b64EncodeBytes bs) = some bs :=
  b64_roundtrip bs

/-- at the level of the model's `base64 : String → String` -/
theorem C14_base64_rt_string (s : String) :
    b64DecodeChars (base64 s).toList = some s.toUTF8.toList := by
  simp only [base64, String.toList_ofList]
  exact b64_roundtrip _

/-- the alphabet is RFC 4648 Table 1 -/
theorem C14_base64_alphabet : ∀ n, n < 64 → b64Idx (b64Char n) = some n := b64Idx_table

/-- tests: RFC 4648 §10 test vectors -/
example : base64 "" = "" := by simp [base64, byteArray_toList]; decide
example : base64 "f" = "Zg==" := by
  have : "f".toUTF8.toList = [102] := by rw [byteArray_toList]; decide
  simp only [base64, this]; decide
example : base64 "fo" = "Zm8=" := by
  have : "fo".toUTF8.toList = [102, 111] := by rw [byteArray_toList]; decide
  simp only [base64, this]; decide
example : base64 "foo" = "Zm9v" := by
  have : "foo".toUTF8.toList = [102, 111, 111] := by rw [byteArray_toList]; decide
  simp only [base64, this]; decide
example : base64 "foob" = "Zm9vYg==" := by
  have : "foob".toUTF8.toList = [102, 111, 111, 98] := by rw [byteArray_toList]; decide
  simp only [base64, this]; decide
example : base64 "fooba" = "Zm9vYmE=" := by
  have : "fooba".toUTF8.toList = [102, 111, 111, 98, 97] := by rw [byteArray_toList]; decide
  simp only [base64, this]; decide
example : base64 "foobar" = "Zm9vYmFy" := by
  have : "foobar".toUTF8.toList = [102, 111, 111, 98, 97, 114] := by
    rw [byteArray_toList]; decide
  simp only [base64, this]; decide
/-- tests: the decoder on the same vectors, and rejection of malformed input -/
example : b64DecodeChars "Zm9vYmE=".toList = some [102, 111, 111, 98, 97] := by decide
example : b64DecodeChars "Zm9vYg==".toList = some [102, 111, 111, 98] := by decide
example : b64DecodeChars "Zm9".toList = none := by decide
example : b64DecodeChars "Zm=v".toList = none := by decide

/-! ## C14_sha256_vectors — FIPS 180-4 / NIST test vectors, checked by kernel evaluation
    (`sha256Hex_eq` rewrites the model's loops into folds; plain `decide`) -/

set_option maxRecDepth 1000000 in
/-- test vector: the empty message -/
theorem C14_sha256_vector_empty :
    sha256Hex "" = "e3b0c44298fc1c149afbf4c8996fb92427ae41e4649b934ca495991b7852b855" := by
  rw [sha256Hex_eq]
  have : "".toUTF8.data.toList = [] := by decide
  rw [this]
  decide

set_option maxRecDepth 1000000 in
/-- test vector: "abc" -/
theorem C14_sha256_vector_abc :
    sha256Hex "abc" = "ba7816bf8f01cfea414140de5dae2223b00361a396177a9cb410ff61f20015ad" := by
  rw [sha256Hex_eq]
  have : "abc".toUTF8.data.toList = [97, 98, 99] := by decide
  rw [this]
  decide

set_option maxRecDepth 1000000 in
/-- test vector: a two-block message (56 bytes) -/
theorem C14_sha256_vector_two_blocks :
    sha256HexBytes "abcdbcdecdefdefgefghfghighijhijkijkljklmklmnlmnomnopnopq".toUTF8.data.toList
      = "248d6a61d20638b8e5c026930c3e6039a33ce45964ff2167f6ecedd419db06c1" := by
  decide

/-! ## C14_fmtV_scalars — Go's `%v` on scalars -/

theorem C14_fmtV_scalars (i : Int) (s r : String) :
    fmtV (.int i) = toString i ∧ fmtV (.bool true) = "true" ∧ fmtV (.bool false) = "false" ∧
    fmtV (.str s) = s ∧ fmtV (.flt r) = r ∧ fmtV .null = "<nil>" := by
  refine ⟨?_, ?_, ?_, ?_, ?_, ?_⟩ <;> simp [fmtV]

/-- tests -/
example : fmtV (.int 42) = "42" := by decide
example : fmtV (.int (-7)) = "-7" := by decide
example : fmtV (.int 0) = "0" := by decide
example : fmtV (.list [.int 1, .str "a", .null]) = "[1 a <nil>]" := by decide
example : fmtV (.map [("a", .int 1), ("b", .bool true)]) = "map[a:1 b:true]" := by decide

/-! ## C14_decode_encode — `$decode: f` inverts `$encode: f` for an abstract text codec

  The json / yaml / toml codecs are third-party code outside the model (`encodeString` answers
  `.codec`, `process2` answers `Err.unmodelled`).  `TextCodec` (BklProofs/Lemmas/C14Codec.lean)
  is the interface process2.go uses (`MarshalStream [v]`, `UnmarshalStream` + `normalize`) with
  the single assumption `rt`: a representable value is written as one document that reads back
  as itself.  `encodeWith c` / `decodeWith c` are process2Encode / process2DecodeStringMap with
  that codec plugged in; `encodeModel` / `decodeModel` are the same code as the model has it. -/

/-- The model's `process2` on a map (whose `$repeat` expansion is trivial) dispatches exactly to
    `encodeModel` / `decodeModel`, in this order: `$encode`, `$decode`, `$value`, entries. -/
theorem C14_process2_directive_dispatch (fuel : Nat) (docs : List Val) (root : Val) (ec : Vars)
    (kvs : Fields) (hs : Fields.sortedKeysB kvs = true) (hr : noRepeatEntries kvs) :
    process2 (fuel + 1) docs root ec (.map kvs) =
      match fget kvs "$encode" with
      | some spec => encodeModel fuel docs root ec (fdel kvs "$encode") spec
      | none =>
        match fget kvs "$decode" with
        | some (.str f) => decodeModel (fdel kvs "$decode") f
        | some _ => .error .invalidType
        | none =>
          match fget kvs "$value" with
          | some v =>
            if (fdel kvs "$value").length != 0 then .error .extraKeys
            else process2 fuel docs root ec v
          | none => process2Entries fuel docs root ec kvs :=
  process2_map_noRepeat fuel docs root ec kvs hs hr

example : Fields.sortedKeysB [("$encode", Val.str "json"), ("$value", .int 1)] = true ∧
    noRepeatEntries [("$encode", Val.str "json"), ("$value", .int 1)] := by
  refine ⟨by decide, ?_⟩
  intro p hp m hm
  simp only [List.mem_cons, List.mem_nil_iff, or_false] at hp
  rcases hp with rfl | rfl <;> cases hm

/-- `encodeWith c` / `decodeWith c` extend the model conservatively: whenever the model's own
    evaluation does not stop with `unmodelled`, plugging in a codec changes nothing. -/
theorem C14_codec_conservative (c : TextCodec) (fuel : Nat) (docs : List Val) (root : Val)
    (ec : Vars) (rest : Fields) :
    (∀ spec, encodeModel fuel docs root ec rest spec ≠ .error .unmodelled →
      encodeWith c fuel docs root ec rest spec = encodeModel fuel docs root ec rest spec) ∧
    (∀ f, decodeModel rest f ≠ .error .unmodelled →
      decodeWith c fuel docs root ec rest f = decodeModel rest f) :=
  ⟨fun _ h => encodeWith_conservative c _ _ _ _ _ _ _ rfl h,
   fun _ h => decodeWith_conservative c _ _ _ _ _ _ _ rfl h⟩

example : decodeModel [("$value", .int 1)] "json" ≠ .error .unmodelled := by
  intro h; cases h

/-- `$encode: f` with `$value: v`: the codec receives the *evaluation* `w` of `v` (validated),
    and the result is its text. -/
theorem C14_encode_text (c : TextCodec) (fuel : Nat) (docs : List Val) (root : Val) (ec : Vars)
    (v w : Val) (hv : ∀ m, v = .map m → fget m "$repeat" = none)
    (he : process2 fuel docs root ec v = .ok w) (hval : validate w = .ok ()) :
    encodeWith c (fuel + 1) docs root ec [("$value", v)] (.str c.name) =
      match c.enc w with
      | some s => .ok (.str s)
      | none => .error .other :=
  encodeWith_of_eval c fuel docs root ec v w hv he hval

/-- `$decode: f` with a string `$value`: exactly one document, which is then evaluated by
    `process2` (at the depth of the directive map). -/
theorem C14_decode_text (c : TextCodec) (fuel : Nat) (docs : List Val) (root : Val) (ec : Vars)
    (s : String) :
    decodeWith c fuel docs root ec [("$value", .str s)] c.name =
      match c.decs s with
      | none => .error .other
      | some [d] => process2 fuel docs root ec d
      | some _ => .error .unmarshal :=
  decodeWith_of_decs c fuel docs root ec s

/-- General form: for ANY `v` (directives allowed) whose evaluation `w` validates and is
    representable, decoding the encoding gives the evaluation *of `w`* — the decoded document is
    evaluated once more. -/
theorem C14_decode_encode_eval (c : TextCodec) (fuel : Nat) (docs : List Val) (root : Val)
    (ec : Vars) (v w : Val) (hv : ∀ m, v = .map m → fget m "$repeat" = none)
    (he : process2 fuel docs root ec v = .ok w) (hval : validate w = .ok ()) (hr : c.repr w) :
    (encodeWith c (fuel + 1) docs root ec [("$value", v)] (.str c.name) >>= fun t =>
      decodeWith c (fuel + 1) docs root ec [("$value", t)] c.name)
      = process2 (fuel + 1) docs root ec w := by
  obtain ⟨s, h1, h2⟩ := c.rt w hr
  rw [encodeWith_of_eval c fuel docs root ec v w hv he hval, h1]
  simp only [e_ok_bind]
  rw [decodeWith_of_decs, h2]

/-- **C14_decode_encode**: for a directive-free (`plain`) well-formed value `v` whose evaluation
    (`v` with nulls dropped, C06) the format can represent, `$decode: f` of `$encode: f` of `v`
    is the evaluation of `v`. -/
theorem C14_decode_encode (c : TextCodec) (fuel : Nat) (docs : List Val) (root : Val) (ec : Vars)
    (v : Val) (hp : plain v = true) (hw : v.WF) (hd : depth v < fuel)
    (hr : c.repr (dropNulls v)) :
    (encodeWith c (fuel + 1) docs root ec [("$value", v)] (.str c.name) >>= fun t =>
      decodeWith c (fuel + 1) docs root ec [("$value", t)] c.name)
      = process2 (fuel + 1) docs root ec v ∧
    process2 (fuel + 1) docs root ec v = .ok (dropNulls v) := by
  have hp' : plain (dropNulls v) = true := (e_allStr_dropNulls_all _).1 v hp
  have hw' : (dropNulls v).WF := e_wf_dropNulls_all.1 v hw
  have hd' : depth (dropNulls v) < fuel + 1 := by
    have := e_depth_dropNulls_all.1 v; omega
  have e1 := e_process2_plain fuel docs root ec v hp hw hd
  have e2 := e_process2_plain (fuel + 1) docs root ec v hp hw (by omega)
  have e3 := e_process2_plain (fuel + 1) docs root ec (dropNulls v) hp' hw' hd'
  rw [e_dropNulls_idem] at e3
  refine ⟨?_, e2⟩
  rw [C14_decode_encode_eval c fuel docs root ec v (dropNulls v) (cx_plain_noRepeat hp) e1
    (e_validate_plain_all.1 _ hp') hr, e3, e2]

local instance instDecWF_C14 (v : Val) : Decidable v.WF := by unfold Val.WF; infer_instance

/-- non-vacuity: a nested value with a null to drop, for the concrete `c14_toyCodec` -/
example : plain (.map [("a", .int 1), ("b", .list [.str "x", .null, .bool true]), ("c", .null)])
      = true ∧
    (Val.map [("a", .int 1), ("b", .list [.str "x", .null, .bool true]), ("c", .null)]).WF ∧
    depth (.map [("a", .int 1), ("b", .list [.str "x", .null, .bool true]), ("c", .null)]) < 3 ∧
    c14_toyCodec.repr
      (dropNulls (.map [("a", .int 1), ("b", .list [.str "x", .null, .bool true]), ("c", .null)]))
    := by
  refine ⟨by decide, by decide, by decide, Or.inl ?_⟩
  decide

/-- … and the round trip on it, through the text `{"a":1,"b":["x",true]}` -/
example :
    encodeWith c14_toyCodec 4 [] .null []
      [("$value", .map [("a", .int 1), ("b", .list [.str "x", .null, .bool true]), ("c", .null)])]
      (.str "json") = .ok (.str "{\"a\":1,\"b\":[\"x\",true]}\n") ∧
    decodeWith c14_toyCodec 4 [] .null [] [("$value", .str "{\"a\":1,\"b\":[\"x\",true]}\n")] "json"
      = .ok (.map [("a", .int 1), ("b", .list [.str "x", .bool true])]) := by
  constructor
  · have := C14_encode_text c14_toyCodec 3 [] .null []
      (.map [("a", .int 1), ("b", .list [.str "x", .null, .bool true]), ("c", .null)]) c14_exVal
      (cx_plain_noRepeat (by decide))
      (e_process2_plain 3 _ _ _ _ (by decide) (by decide) (by decide)) (by rfl)
    rw [show c14_toyCodec.name = "json" from rfl] at this
    rw [this]
    simp [c14_toyCodec]; rfl
  · have := C14_decode_text c14_toyCodec 4 [] .null [] c14_exText
    rw [show c14_toyCodec.name = "json" from rfl] at this
    rw [show "{\"a\":1,\"b\":[\"x\",true]}\n" = c14_exText from rfl, this]
    simp only [c14_toyCodec, if_true]
    exact e_process2_plain 4 _ _ _ c14_exVal (by decide) (by decide) (by decide)

/-- The `plain` hypothesis of `C14_decode_encode` cannot simply be dropped: decoding evaluates
    the decoded document again (`C14_decode_encode_eval`), so when the evaluation of `v` is
    itself a directive string the round trip differs from the evaluation of `v`.  Here
    `v = $env:X` with `X = $"{a}"` in the document `{a: 1}`: `v` evaluates to the string `$"{a}"`,
    but `$decode` of its `$encode` gives `"1"`. -/
theorem C14_decode_encode_not_plain_counterexample :
    let root : Val := .map [("a", .int 1)]
    let ec : Vars := [("$env:X", .str "$\"{a}\"")]
    process2 3 [] root ec (.str "$env:X") = .ok (.str "$\"{a}\"") ∧
    (encodeWith c14_toyCodec 3 [] root ec [("$value", .str "$env:X")] (.str c14_toyCodec.name) >>= fun t =>
      decodeWith c14_toyCodec 3 [] root ec [("$value", t)] c14_toyCodec.name) = .ok (.str "1") := by
  intro root ec
  have h0 : ∀ n, process2 (n + 1) [] root ec (.str "$env:X") = .ok (.str "$\"{a}\"") := by
    intro n
    rw [cx_process2_str, show "$env:X" = "$env:" ++ "X" from by decide, process2String_env]
    rfl
  refine ⟨h0 2, ?_⟩
  have hval : validate (.str "$\"{a}\"") = .ok () := by
    simp only [validate, validateString]; rfl
  rw [encodeWith_of_eval c14_toyCodec 2 [] root ec _ _ (fun m h => by cases h) (h0 1) hval]
  have henc : c14_toyCodec.enc (.str "$\"{a}\"") = some "$\"{a}\"" := by
    have : Val.str "$\"{a}\"" ≠ c14_exVal := by simp [c14_exVal]
    simp [c14_toyCodec, this]
  simp only [henc, e_ok_bind]
  rw [decodeWith_of_decs]
  have hdec : c14_toyCodec.decs "$\"{a}\"" = some [.str "$\"{a}\""] := by
    have h1 : "$\"{a}\"" ≠ c14_exText := by decide
    have h2 : "$\"{a}\"" ≠ "" := by decide
    simp [c14_toyCodec, h1, h2]
  simp only [hdec]
  rw [cx_process2_str, process2String_interp 2 [] root ec _ "{a}".toList (by decide)]
  have hs : interpSegs "{a}".toList = [.ref "a".toList] := by decide
  rw [hs, interpSpec_subst 2 [] root ec _ (fun _ => .int 1)]
  · exact congrArg Except.ok (by decide)
  · intro r hr
    simp only [List.mem_singleton, Seg.ref.injEq] at hr
    subst hr
    exact ⟨.int 1, getWithVar_simple_key _ _ _ _ _ (by simpa using isPlainRef_a) (by decide)
      (by decide), Or.inl ⟨fun s h => (by cases h), rfl⟩⟩

/-- Where the model stops: on the two directive maps of the round trip the model's `process2`
    answers `unmodelled` — exactly the two places where `encodeWith` / `decodeWith` call the
    codec instead. -/
theorem C14_model_stops_at_codec (fuel : Nat) (docs : List Val) (root : Val) (ec : Vars)
    (f s : String) (v : Val) (hf : isCodecFormat f = true)
    (hp : plain v = true) (hw : v.WF) (hd : depth v < fuel) :
    process2 (fuel + 2) docs root ec (.map [("$encode", .str f), ("$value", v)])
      = .error .unmodelled ∧
    process2 (fuel + 1) docs root ec (.map [("$decode", .str f), ("$value", .str s)])
      = .error .unmodelled := by
  constructor
  · rw [process2_map_noRepeat _ _ _ _ _ (by simp [Fields.sortedKeysB])]
    · have hp' : plain (dropNulls v) = true := (e_allStr_dropNulls_all _).1 v hp
      simp only [cx_process2MapTail, fget, fdel, if_true, encodeModel,
        show ("$value" = "$encode") = False from by decide, if_false,
        process2_value_only _ _ _ _ _ (cx_plain_noRepeat hp),
        e_process2_plain fuel docs root ec v hp hw hd, e_ok_bind,
        e_validate_plain_all.1 _ hp', encodeAny, encodeString_codec _ hf]
      rfl
    · intro p hp' m hm
      simp only [List.mem_cons, List.mem_nil_iff, or_false] at hp'
      rcases hp' with rfl | rfl
      · cases hm
      · exact cx_plain_noRepeat hp m hm
  · rw [process2_map_noRepeat _ _ _ _ _ (by simp [Fields.sortedKeysB])]
    · simp [cx_process2MapTail, fget, fdel, decodeModel, hf]
      rfl
    · intro p hp' m hm
      simp only [List.mem_cons, List.mem_nil_iff, or_false] at hp'
      rcases hp' with rfl | rfl <;> cases hm

example : isCodecFormat "yaml" = true := by simp [isCodecFormat]

/-! ## C14_decode_bad_args — the argument checks of `$decode`, in the order of the Go code -/

/-- `$decode: f` (codec-aware version): a missing `$value`, a non-string `$value`, any key beside
    `$decode` / `$value`, an unknown format name, and a text that does not hold exactly one
    document are errors — `invalidType`, `invalidType`, `extraKeys`, `unknownFormat`,
    `unmarshal` respectively, checked in this order. -/
theorem C14_decode_bad_args (c : TextCodec) (fuel : Nat) (docs : List Val) (root : Val) (ec : Vars)
    (rest : Fields) (f : String) :
    (fget rest "$value" = none →
      decodeWith c fuel docs root ec rest f = .error .invalidType) ∧
    (∀ w, fget rest "$value" = some w → (∀ s, w ≠ .str s) →
      decodeWith c fuel docs root ec rest f = .error .invalidType) ∧
    (∀ s, fget rest "$value" = some (.str s) → fdel rest "$value" ≠ [] →
      decodeWith c fuel docs root ec rest f = .error .extraKeys) ∧
    (∀ s, fget rest "$value" = some (.str s) → fdel rest "$value" = [] → f ≠ c.name →
      isCodecFormat f = false → decodeWith c fuel docs root ec rest f = .error .unknownFormat) ∧
    (∀ s ds, fget rest "$value" = some (.str s) → fdel rest "$value" = [] → f = c.name →
      c.decs s = some ds → ds.length ≠ 1 →
      decodeWith c fuel docs root ec rest f = .error .unmarshal) := by
  refine ⟨fun h => ?_, fun w h hw => ?_, fun s h he => ?_, fun s h he hf hc => ?_,
    fun s ds h he hf hd hl => ?_⟩
  · simp only [decodeWith, h]; rfl
  · simp only [decodeWith, h]
    cases w <;> first | exact absurd rfl (hw _) | rfl
  · have : ((fdel rest "$value").length != 0) = true := by
      cases hl : fdel rest "$value" with
      | nil => exact absurd hl he
      | cons a t => rfl
    simp only [decodeWith, h, this, if_true]; rfl
  · simp only [decodeWith, h, he, List.length_nil, bne_self_eq_false, Bool.false_eq_true,
      if_false, hf, hc]; rfl
  · subst hf
    simp only [decodeWith, h, he, List.length_nil, bne_self_eq_false, Bool.false_eq_true,
      if_false, if_true, hd]
    match ds, hl with
    | [], _ => rfl
    | _ :: _ :: _, _ => rfl
    | [d], hl => exact absurd rfl hl

/-- non-vacuity of each clause, on the concrete codec (the empty text holds no document) -/
example : fget [("x", Val.int 1)] "$value" = none ∧
    (fget [("$value", Val.int 1)] "$value" = some (.int 1) ∧ ∀ s, Val.int 1 ≠ .str s) ∧
    (fget [("$value", Val.str "t"), ("x", .int 1)] "$value" = some (.str "t") ∧
      fdel [("$value", Val.str "t"), ("x", .int 1)] "$value" ≠ []) ∧
    ("xml" ≠ c14_toyCodec.name ∧ isCodecFormat "xml" = false) ∧
    (c14_toyCodec.decs "" = some [] ∧ ([] : List Val).length ≠ 1) := by
  refine ⟨by decide, ⟨by decide, fun s h => by cases h⟩, ⟨by decide, by decide⟩,
    ⟨by decide, by simp [isCodecFormat]⟩, ⟨by simp [c14_toyCodec]; decide, by decide⟩⟩

/-- The same three argument errors are what the *model's* `process2` answers on a `$decode` map
    (these cases never reach the codec, so they are inside the model), plus: the `$decode`
    argument itself must be a string. -/
theorem C14_decode_bad_args_model (fuel : Nat) (docs : List Val) (root : Val) (ec : Vars)
    (kvs : Fields) (hs : Fields.sortedKeysB kvs = true) (hr : noRepeatEntries kvs)
    (he : fget kvs "$encode" = none) :
    (∀ d, fget kvs "$decode" = some d → (∀ f, d ≠ .str f) →
      process2 (fuel + 1) docs root ec (.map kvs) = .error .invalidType) ∧
    (∀ f, fget kvs "$decode" = some (.str f) → fget kvs "$value" = none →
      process2 (fuel + 1) docs root ec (.map kvs) = .error .invalidType) ∧
    (∀ f w, fget kvs "$decode" = some (.str f) → fget kvs "$value" = some w →
      (∀ s, w ≠ .str s) → process2 (fuel + 1) docs root ec (.map kvs) = .error .invalidType) ∧
    (∀ f s, fget kvs "$decode" = some (.str f) → fget kvs "$value" = some (.str s) →
      fdel (fdel kvs "$decode") "$value" ≠ [] →
      process2 (fuel + 1) docs root ec (.map kvs) = .error .extraKeys) ∧
    (∀ f s, fget kvs "$decode" = some (.str f) → fget kvs "$value" = some (.str s) →
      fdel (fdel kvs "$decode") "$value" = [] → isCodecFormat f = false →
      process2 (fuel + 1) docs root ec (.map kvs) = .error .unknownFormat) := by
  have hv : fget (fdel kvs "$decode") "$value" = fget kvs "$value" :=
    fget_fdel_ne _ _ _ (by decide)
  rw [process2_map_noRepeat fuel docs root ec kvs hs hr]
  simp only [cx_process2MapTail, he]
  refine ⟨fun d h hd => ?_, fun f h h2 => ?_, fun f w h h2 hw => ?_, fun f s h h2 h3 => ?_,
    fun f s h h2 h3 h4 => ?_⟩
  · rw [h]
    cases d <;> first | exact absurd rfl (hd _) | rfl
  · simp only [h, decodeModel, hv, h2]; rfl
  · simp only [h, decodeModel, hv, h2]
    rfl
  · have : ((fdel (fdel kvs "$decode") "$value").length != 0) = true := by
      cases hl : fdel (fdel kvs "$decode") "$value" with
      | nil => exact absurd hl h3
      | cons a t => rfl
    simp only [h, decodeModel, hv, h2, this, if_true]; rfl
  · simp only [h, decodeModel, hv, h2, h3, List.length_nil, bne_self_eq_false,
      Bool.false_eq_true, if_false, h4]; rfl

/-- tests: the four malformed `$decode` maps, evaluated by the model -/
example :
    process2 2 [] .null [] (.map [("$decode", .int 1), ("$value", .str "1")])
      = .error .invalidType ∧
    process2 2 [] .null [] (.map [("$decode", .str "json")]) = .error .invalidType ∧
    process2 2 [] .null [] (.map [("$decode", .str "json"), ("$value", .int 1)])
      = .error .invalidType ∧
    process2 2 [] .null [] (.map [("$decode", .str "json"), ("$value", .str "1"), ("x", .int 1)])
      = .error .extraKeys ∧
    process2 2 [] .null [] (.map [("$decode", .str "xml"), ("$value", .str "1")])
      = .error .unknownFormat := by
  have nr : ∀ kvs : Fields, (∀ p ∈ kvs, ∀ m, p.2 ≠ Val.map m) → noRepeatEntries kvs :=
    fun kvs h p hp m hm => absurd hm (h p hp m)
  refine ⟨?_, ?_, ?_, ?_, ?_⟩
  · exact (C14_decode_bad_args_model 1 [] .null [] _ (by decide)
      (nr _ (by simp)) (by decide)).1 (.int 1) rfl (fun f h => by cases h)
  · exact (C14_decode_bad_args_model 1 [] .null [] _ (by decide)
      (nr _ (by simp)) (by decide)).2.1 "json" rfl rfl
  · exact (C14_decode_bad_args_model 1 [] .null [] _ (by decide)
      (nr _ (by simp)) (by decide)).2.2.1 "json" (.int 1) rfl rfl (fun f h => by cases h)
  · exact (C14_decode_bad_args_model 1 [] .null [] _ (by decide)
      (nr _ (by simp)) (by decide)).2.2.2.1 "json" "1" rfl rfl (by decide)
  · exact (C14_decode_bad_args_model 1 [] .null [] _ (by decide)
      (nr _ (by simp)) (by decide)).2.2.2.2 "xml" "1" rfl rfl rfl (by simp [isCodecFormat])

/-! ## C14_json_decode_encode — the JSON codec is no longer a hypothesis

  `js_textCodec jf fol : TextCodec` (BklProofs/Lemmas/Json.lean) plugs the concrete JSON writer and
  reader of Bkl/Json.lean into process2.go's two call sites: `enc v` is
  `jsonMarshalStream([]any{v})` (the compact text and a newline), `decs s` is
  `jsonUnmarshalStream` followed by `normalize`.  Its `rt` field is PROVED
  (`C05_json_stream_roundtrip`), on `repr v := v.WF ∧ js_NumsOK jf fol v`: integers in int64,
  float texts meeting `js_FloatOK` for the two float parameters. -/

/-- the instance: its name, what it writes, what it reads, and its (proved) round trip -/
theorem C14_json_codec (jf fol : String → String) :
    (js_textCodec jf fol).name = "json" ∧
    (∀ v, (js_textCodec jf fol).enc v = some (jsonEncodeStream jf [v])) ∧
    (∀ s vs, (js_textCodec jf fol).decs s = some vs ↔ jsonLoadStream fol s = .ok vs) ∧
    (∀ v, v.WF → js_NumsOK jf fol v →
      ((js_textCodec jf fol).enc v).bind (js_textCodec jf fol).dec = some v) := by
  refine ⟨rfl, fun _ => rfl, ?_, fun v hw hn => (js_textCodec jf fol).rt' v ⟨hw, hn⟩⟩
  intro s vs
  simp only [js_textCodec]
  cases jsonLoadStream fol s with
  | error e => simp
  | ok ws => simp

/-- **C14_json_decode_encode**: for a directive-free (`plain`) well-formed value `v` whose integers
    fit int64 and whose float texts meet the float hypothesis, `$decode: json` of `$encode: json`
    of `v` is the evaluation of `v` (= `v` with its nulls dropped) — outright, with the concrete
    JSON codec. -/
theorem C14_json_decode_encode (jf fol : String → String) (fuel : Nat) (docs : List Val)
    (root : Val) (ec : Vars) (v : Val) (hp : plain v = true) (hw : v.WF) (hd : depth v < fuel)
    (hn : js_NumsOK jf fol v) :
    (encodeWith (js_textCodec jf fol) (fuel + 1) docs root ec [("$value", v)] (.str "json") >>=
      fun t => decodeWith (js_textCodec jf fol) (fuel + 1) docs root ec [("$value", t)] "json")
      = process2 (fuel + 1) docs root ec v ∧
    process2 (fuel + 1) docs root ec v = .ok (dropNulls v) :=
  C14_decode_encode (js_textCodec jf fol) fuel docs root ec v hp hw hd
    ⟨e_wf_dropNulls_all.1 v hw, js_numsOK_dropNulls jf fol v hn⟩

/-- … and the text in between is the compact JSON text of the evaluated value and a newline -/
theorem C14_json_encode_text (jf fol : String → String) (fuel : Nat) (docs : List Val)
    (root : Val) (ec : Vars) (v : Val) (hp : plain v = true) (hw : v.WF) (hd : depth v < fuel) :
    encodeWith (js_textCodec jf fol) (fuel + 1) docs root ec [("$value", v)] (.str "json")
      = .ok (.str (jsonEncodeStream jf [dropNulls v])) := by
  have hp' : plain (dropNulls v) = true := (e_allStr_dropNulls_all _).1 v hp
  have := C14_encode_text (js_textCodec jf fol) fuel docs root ec v (dropNulls v)
    (cx_plain_noRepeat hp) (e_process2_plain fuel docs root ec v hp hw hd)
    (e_validate_plain_all.1 _ hp')
  exact this

/-- non-vacuity: a nested value with nulls to drop, a float, escapes in a string -/
example : plain (.map [("a", .int 1), ("b", .list [.str "x\n\"", .null, .flt "1e-07"]), ("c", .null)])
      = true ∧
    (Val.map [("a", .int 1), ("b", .list [.str "x\n\"", .null, .flt "1e-07"]), ("c", .null)]).WF ∧
    depth (.map [("a", .int 1), ("b", .list [.str "x\n\"", .null, .flt "1e-07"]), ("c", .null)]) < 3 ∧
    js_NumsOK js_demoJf js_demoFol
      (.map [("a", .int 1), ("b", .list [.str "x\n\"", .null, .flt "1e-07"]), ("c", .null)]) := by
  refine ⟨by decide, by decide, by decide, ?_⟩
  simp only [js_NumsOK, js_NumsOKFields, js_NumsOKList, and_true, true_and]
  exact ⟨by decide, js_demo_floatOK _ (by simp)⟩

/-- … the text written for it -/
example : jsonEncodeStream js_demoJf
    [dropNulls (.map [("a", .int 1), ("b", .list [.str "x\n\"", .null, .flt "1e-07"]), ("c", .null)])]
    = "{\"a\":1,\"b\":[\"x\\n\\\"\",1e-7]}\n" := by decide

end Bkl
