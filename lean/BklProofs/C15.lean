/-
  C15 — "bkld round trip: base + bkld(base, target) evaluates to target".

  `diff target base` (Bkl/Tools.lean, mirrors cmd/bkld/diff.go) computes a patch layer;
  layering it over `base` with bkl's own `merge` gives back `target`.

  Input domain (BklProofs/Lemmas/Tools.lean):
    `plainVal v` — `v` is well-formed (`Val.wfB`), contains no `.null`, and is `$`-free: no map
                   key and no string leaf starts with `$` (`dollarFree`, stated on `String.toList`).
  Only the *target* has to be plain; the base only has to be well-formed (so the base may
  contain `$required` markers — this is what C16_lossless uses).

  Property theorems only; helper lemmas are in BklProofs/Lemmas/{Tools,ToolsDiff}.lean.
-/
import BklProofs.Lemmas.ToolsDiff
import BklProofs.Lemmas.ToolsCliProofs
namespace Bkl

/-! ### the shared witnesses `C15_target`, `C15_base`, `C15_base2` are in Lemmas/ToolsDiff.lean -/

/-- what bkld emits for the witnesses (every branch of `diff` for maps is exercised) -/
example : diffDoc C15_target C15_base = some (.map
    [("$match", .map []), ("a", .int 1), ("gone", .str "$delete"),
     ("l", .list [.str "x", .map [("n", .int 1)], .map [("$replace", .bool true)]]),
     ("m", .map [("p", .str "q"), ("s", .str "$delete")]), ("new", .bool false)]) := by decide

example : diffDoc C15_target C15_base2 = some (.map
    [("$match", .map []), ("$replace", .bool true), ("a", .int 1),
     ("l", .list [.str "x", .map [("n", .int 1)]]),
     ("m", .map [("p", .str "q"), ("r", .flt "1.5")]), ("new", .bool false)]) := by decide

/-! ## 1. the heart: `diff` keeps its promise at every position -/

/-- For a plain `target` and a well-formed `base` (in particular: a plain base):
    * `same`          — the two are equal;
    * `patch p`       — bkl accepts `p` over `base` and the result is `target`;
    * `replaceParent` — `base` is a non-empty map or a list and `target` is of another kind:
                        no patch at this position can work, the enclosing map is replaced. -/
theorem C15_roundtrip_core (target base : Val) (ht : plainVal target = true)
    (hb : Val.WF base) :
    match diff target base with
    | .same => target = base
    | .patch p => merge base p = .ok target
    | .replaceParent =>
      replaceable base = false ∧ (target.isMap && base.isMap) = false ∧
        (target.isList && base.isList) = false := by
  have h := diff_spec target base ht hb
  cases hd : diff target base <;> (rw [hd] at h; exact h)

example : plainVal C15_target = true ∧ Val.WF C15_base := by decide

/-- `replaceParent` is returned exactly when the base cannot be overridden by a value of
    another kind and the target is of another kind (no hypotheses needed). -/
theorem C15_replaceParent_iff (target base : Val) :
    diff target base = .replaceParent ↔
      (replaceable base = false ∧ (target.isMap && base.isMap) = false ∧
        (target.isList && base.isList) = false) :=
  diff_replaceParent_iff target base

example : replaceable (.list [.int 1]) = false ∧
    ((Val.map [("p", .str "q")]).isMap && (Val.list [.int 1]).isMap) = false ∧
    ((Val.map [("p", .str "q")]).isList && (Val.list [.int 1]).isList) = false := by decide

/-! ## 2. whole documents -/

/-- Map-rooted documents: either nothing is emitted and the documents are equal, or the emitted
    layer is a map carrying the document selector `$match: {}`; what the parser merges into the
    base — the layer without its `$match` entry (`mergeDocument`, Bkl/Parser.lean) — is accepted
    by `merge` and yields the target.  The base needs no `$match` key of its own
    (true of every plain base, `C15_roundtrip`). -/
theorem C15_roundtrip_wf_base (t b : Fields) (ht : plainVal (.map t) = true)
    (hb : Val.WF (.map b)) (hbm : fget b "$match" = none) :
    match diffDoc (.map t) (.map b) with
    | none => Val.map t = Val.map b
    | some layer => ∃ m, layer = .map m ∧ fget m "$match" = some (.map []) ∧
        merge (.map b) (.map (fdel m "$match")) = .ok (.map t) := by
  have hspec := diff_spec (.map t) (.map b) ht hb
  have hs := (wf_map_iff.1 hb).1
  rcases diff_map_map_cases t b with h | ⟨m, h⟩
  · rw [diffDoc_same h]
    rw [h] at hspec
    exact hspec
  · have hd : diffDoc (.map t) (.map b) = some (.map (fset m "$match" (.map []))) := by
      unfold diffDoc; rw [h]
    rw [hd]
    rw [h] at hspec
    refine ⟨_, rfl, fget_fset_same _ _ _, ?_⟩
    rw [fdel_fset_of_none (sorted_of_diff_patch (plainVal_sorted ht) h) _
      (diff_map_map_no_match ht hs hbm h)]
    exact hspec

example : plainVal (.map [("a", .int 1)]) = true ∧ Val.WF (.map [("a", .str "$required")]) ∧
    fget [("a", Val.str "$required")] "$match" = none := by decide

/-- the hypothesis on `$match` cannot be dropped: if only the base has a `$match` key, the
    `"$match": "$delete"` entry of the patch is overwritten by the document selector, so the
    body that the parser merges is empty and the base keeps its `$match` key -/
example : Val.WF (.map [("$match", .int 1), ("a", .int 1)]) ∧
    diffDoc (.map [("a", .int 1)]) (.map [("$match", .int 1), ("a", .int 1)])
      = some (.map [("$match", .map [])]) := by decide

/-- the round trip for plain map-rooted target and base -/
theorem C15_roundtrip (t b : Fields) (ht : plainVal (.map t) = true)
    (hb : plainVal (.map b) = true) :
    match diffDoc (.map t) (.map b) with
    | none => Val.map t = Val.map b
    | some layer => ∃ m, layer = .map m ∧ fget m "$match" = some (.map []) ∧
        merge (.map b) (.map (fdel m "$match")) = .ok (.map t) :=
  C15_roundtrip_wf_base t b ht (plainVal_wf hb) (plainVal_fget_dollar hb (by decide))

example : (∃ t, C15_target = .map t) ∧ (∃ b, C15_base = .map b) ∧
    plainVal C15_target = true ∧ plainVal C15_base = true :=
  ⟨⟨_, rfl⟩, ⟨_, rfl⟩, by decide, by decide⟩

/-- The same through the parser (`mergeDocument`, Bkl/Parser.lean): the parser holds the single
    document `B = base`; the emitted layer, read as document `L` with parent `B`, selects `B`
    by its `$match: {}` and is merged into it.  Afterwards the only document is `target`. -/
theorem C15_roundtrip_parser (t b : Fields) (layer : Val) (ht : plainVal (.map t) = true)
    (hb : plainVal (.map b) = true) (hl : diffDoc (.map t) (.map b) = some layer) :
    ∃ st', mergeDocument { docs := [("B", .map b)], known := [("B", [])] }
        { id := "L", parents := ["B"], data := layer } = .ok st' ∧
      st'.docs = [("B", .map t)] := by
  have h := C15_roundtrip t b ht hb
  rw [hl] at h
  obtain ⟨m, rfl, hm, hmerge⟩ := h
  exact ⟨_, mergeDocument_single b m _ hm (plainVal_not_placeholder hb) hmerge, rfl⟩

example : plainVal C15_target = true ∧ plainVal C15_base = true ∧
    (diffDoc C15_target C15_base).isSome = true := by decide

/-- for map-rooted documents bkld never fails with `errReplaceParent` -/
theorem C15_doc_never_replaceParent (t b : Fields) :
    diff (.map t) (.map b) ≠ .replaceParent := by
  intro h
  rcases diff_map_map_cases t b with h' | ⟨m, h'⟩ <;> (rw [h'] at h; cases h)

/-! ## 3. equal data: the emitted layer is empty -/

/-- when base and target are the same data nothing is emitted -/
theorem C15_empty_when_equal (v : Val) (hv : Val.WF v) :
    diff v v = .same ∧ diffDoc v v = none :=
  ⟨diff_self v hv, diffDoc_same (diff_self v hv)⟩

example : Val.WF C15_target := by decide

/-- well-formedness cannot be dropped: with a duplicated key the loop compares the second
    entry against the first one -/
example : diffDoc (.map [("k", .int 1), ("k", .int 2)]) (.map [("k", .int 1), ("k", .int 2)])
    = some (.map [("$match", .map []), ("k", .int 2)]) := by decide

/-- for a plain target `diff` answers `same` exactly when the data are equal -/
theorem C15_same_iff (t b : Val) (ht : plainVal t = true) (hb : Val.WF b) :
    diff t b = .same ↔ t = b := by
  constructor
  · intro h
    have hspec := diff_spec t b ht hb
    rw [h] at hspec
    exact hspec
  · rintro rfl
    exact diff_self t hb

example : plainVal C15_target = true ∧ Val.WF C15_base := by decide

/-! ## 4. the `$delete` entries of a list patch find their entry -/

/-- A `{$delete: e}` entry for an entry `e` of a plain base list is never rejected as a useless
    override: `e` matches itself (`matchV_refl_plain`), and exactly the entries matching `e`
    are removed. -/
theorem C15_delete_entry_accepted (src : List Val) (e : Val) (hs : plainVal (.list src) = true)
    (he : e ∈ src) :
    merge (.list src) (.list [.map [("$delete", e)]]) =
      .ok (.list (src.filter (fun v => !matchV v e))) := by
  have hfil : src.filter (fun x => !(x == Val.str "$required")) = src := by
    rw [List.filter_eq_self]
    intro x hx
    have := plainVal_ne_str_dollar (plainVal_list_iff.1 hs x hx)
      (show dollarFree "$required" = false by decide)
    simpa using this
  have hany : src.any (fun v => matchV v e) = true := by
    rw [List.any_eq_true]
    exact ⟨e, he, matchV_refl_plain e (plainVal_list_iff.1 hs e he)⟩
  rw [C01_list_delete, hfil, hany]
  rfl

example : plainVal (.list [.map [("n", .int 1)], .str "x"]) = true ∧
    Val.map [("n", .int 1)] ∈ [Val.map [("n", .int 1)], .str "x"] := by decide

/-! ## 5. the tool main: cmd/bkld/main.go (`Bkl.bkldRun`, Bkl/ToolsCli.lean)

  Helper lemmas are in BklProofs/Lemmas/ToolsCliProofs.lean (prefix `tc_`); the sample file
  system `tc_toolFS` holds /w/a.yaml (`tc_base`), /w/t.yaml (`tc_target`), /w/c.json, /w/two.yaml
  (two documents), /w/none.yaml (no document) and /w/r.yaml. -/

/-- The output format of bkld and bkli: the `-f` value if it is given and non-empty; else the
    extension of `-o` if `-o` is given and has a non-empty extension; else the fallback (the
    format FileMatch reported for the first input). -/
theorem C15_tool_format_choice (opts : ToolOpts) (fb : String) :
    (∀ f, opts.format = some f → f ≠ "" → toolFormat opts fb = f) ∧
    (∀ o, (opts.format = none ∨ opts.format = some "") → opts.outPath = some o →
        extOfPath o ≠ "" → toolFormat opts fb = extOfPath o) ∧
    ((opts.format = none ∨ opts.format = some "") →
        (opts.outPath = none ∨ ∃ o, opts.outPath = some o ∧ extOfPath o = "") →
        toolFormat opts fb = fb) :=
  ⟨fun f hf hne => tc_toolFormat_f opts fb f hf hne,
   fun o hf ho hne => tc_toolFormat_o opts fb o hf ho hne,
   fun hf ho => tc_toolFormat_fb opts fb hf ho⟩

/-- `-o out.toml` → toml -/
example : toolFormat { outPath := some "out.toml" } "yaml" = "toml" := by
  rw [(C15_tool_format_choice _ _).2.1 "out.toml" (.inl rfl) rfl (by rw [tc_ext_out_toml]; decide),
    tc_ext_out_toml]

/-- `-o out` → the fallback -/
example : toolFormat { outPath := some "out" } "yaml" = "yaml" :=
  (C15_tool_format_choice _ _).2.2 (.inl rfl) (.inr ⟨"out", rfl, tc_ext_out⟩)

/-- a dot in a directory name is not an extension: `-o d.x/out` → the fallback -/
example : toolFormat { outPath := some "d.x/out" } "yaml" = "yaml" :=
  (C15_tool_format_choice _ _).2.2 (.inl rfl) (.inr ⟨"d.x/out", rfl, tc_ext_dir_out⟩)

/-- `-f yaml -o out.json` → yaml -/
example : toolFormat { format := some "yaml", outPath := some "out.json" } "toml" = "yaml" :=
  (C15_tool_format_choice _ _).1 "yaml" rfl (by decide)

/-- an empty `-f` counts as not given: `-f "" -o out.json` → json -/
example : toolFormat { format := some "", outPath := some "out.json" } "toml" = "json" := by
  rw [(C15_tool_format_choice _ _).2.1 "out.json" (.inr rfl) rfl (by rw [tc_ext_out_json]; decide),
    tc_ext_out_json]

/-- neither `-f` nor `-o` → the fallback -/
example : toolFormat {} "yaml" = "yaml" :=
  (C15_tool_format_choice _ _).2.2 (.inl rfl) (.inl rfl)

/-- `getOnlyDocument` (FileMatch + a fresh parser + MergeFileLayers + "exactly 1 source
    document") succeeds exactly when the argument resolves, the layers of the file merge, and the
    merged parser state holds exactly one document; it returns that document and the format
    FileMatch reported. -/
theorem C15_getOnlyDocument_iff (fs : FS) (cwd : Comps) (path : String) (d : Val) (f : String) :
    getOnlyDocument fs cwd path = .ok (d, f) ↔
      ∃ real st id, fileMatch fs cwd path = .ok (real, f) ∧
        mergeFileLayers fs { root := [], cwd := cwd } PState.empty real = .ok st ∧
        st.docs = [(id, d)] :=
  tc_getOnlyDocument_ok_iff fs cwd path d f

example : getOnlyDocument tc_toolFS ["w"] "a.yaml" = .ok (tc_base, "yaml") := tc_toolFS_get_a

/-- the argument `a.toml` resolves to /w/a.yaml; the reported format is the argument's -/
example : getOnlyDocument tc_toolFS ["w"] "a.toml" = .ok (tc_base, "toml") := tc_toolFS_get_a_toml

/-- inheritance applies to tool inputs too: /w/a.b.json of `chainFS` (BklProofs/Lemmas/Files.lean)
    is layered over /w/a.yaml before the tool sees it -/
example : getOnlyDocument chainFS ["w"] "a.b.json" =
    .ok (.map [("x", .int 1), ("y", .int 2)], "json") := tc_chainFS_get_ab

/-- bkld succeeds exactly when it has two inputs, each of them yields exactly one merged document,
    both documents evaluate (`Document.Process`) to exactly one document, and the chosen format is
    supported; the result is `diffDoc` of the two *evaluated* documents (target first). -/
theorem C15_bkld_result_iff (fs : FS) (cwd : Comps) (env : Vars) (opts : ToolOpts)
    (r : ToolResult) :
    bkldRun fs cwd env opts = .ok r ↔
      ∃ b t base target f ft base' target',
        opts.inputs = [b, t] ∧
        getOnlyDocument fs cwd b = .ok (base, f) ∧ getOnlyDocument fs cwd t = .ok (target, ft) ∧
        processOnly env base = .ok base' ∧ processOnly env target = .ok target' ∧
        toolFormat opts f ∈ supportedExts ∧
        r = { format := toolFormat opts f, doc := diffDoc target' base' } :=
  tc_bkldRun_ok_iff fs cwd env opts r

/-- the forward direction, field by field -/
theorem C15_bkld_result (fs : FS) (cwd : Comps) (env : Vars) (opts : ToolOpts) (r : ToolResult)
    (h : bkldRun fs cwd env opts = .ok r) :
    ∃ b t base target f ft base' target',
      opts.inputs = [b, t] ∧
      getOnlyDocument fs cwd b = .ok (base, f) ∧ getOnlyDocument fs cwd t = .ok (target, ft) ∧
      processOnly env base = .ok base' ∧ processOnly env target = .ok target' ∧
      r.doc = diffDoc target' base' ∧
      r.format = toolFormat opts f ∧ r.format ∈ supportedExts := by
  obtain ⟨b, t, base, target, f, ft, base', target', hi, hb, ht, hpb, hpt, hmem, rfl⟩ :=
    (C15_bkld_result_iff fs cwd env opts r).1 h
  exact ⟨b, t, base, target, f, ft, base', target', hi, hb, ht, hpb, hpt, rfl, rfl, hmem⟩

/-- `bkld a.yaml t.yaml` on the sample file system -/
theorem C15_bkld_sample :
    bkldRun tc_toolFS ["w"] [] { inputs := ["a.yaml", "t.yaml"] } =
      .ok { format := "yaml",
            doc := some (.map [("$match", .map []), ("a", .int 2), ("b", .str "$delete"),
                               ("c", .bool true)]) } := by
  rw [tc_bkldRun_two _ _ _ _ "a.yaml" "t.yaml" rfl, tc_toolFS_get_a]
  simp only
  rw [show processOnly [] tc_base = .ok tc_base by decide]
  simp only
  rw [tc_toolFS_get_t]
  simp only
  rw [show processOnly [] tc_target = .ok tc_target by decide]
  simp only
  rw [show toolFormat { inputs := ["a.yaml", "t.yaml"] } "yaml" = "yaml" from rfl,
    tc_checkFormat_of_mem (by decide)]
  simp only
  rw [show diffDoc tc_target tc_base = some (.map [("$match", .map []), ("a", .int 2),
    ("b", .str "$delete"), ("c", .bool true)]) by decide]

example : ∃ r, bkldRun tc_toolFS ["w"] [] { inputs := ["a.yaml", "t.yaml"] } = .ok r :=
  ⟨_, C15_bkld_sample⟩

/-- The round trip for the layer that the modelled CLI emits.  Let bkld succeed on inputs whose
    evaluated documents are the maps `bf` (base: well-formed, no `$match` key) and `tf` (target:
    plain).  Then
    * either nothing is emitted and the two evaluated documents are equal, or the emitted layer
      is a map carrying `$match: {}` whose body (what the parser merges) is accepted by `merge`
      over the evaluated base and yields the evaluated target (`C15_roundtrip_wf_base`);
    * nothing is emitted iff the two evaluated documents are the same (`C15_same_iff`). -/
theorem C15_bkld_cli_roundtrip (fs : FS) (cwd : Comps) (env : Vars) (opts : ToolOpts)
    (r : ToolResult) (b t : String) (base target : Val) (f ft : String) (bf tf : Fields)
    (h : bkldRun fs cwd env opts = .ok r) (hi : opts.inputs = [b, t])
    (hb : getOnlyDocument fs cwd b = .ok (base, f))
    (ht : getOnlyDocument fs cwd t = .ok (target, ft))
    (hpb : processOnly env base = .ok (.map bf)) (hpt : processOnly env target = .ok (.map tf))
    (hplt : plainVal (.map tf) = true) (hwb : Val.WF (.map bf))
    (hbm : fget bf "$match" = none) :
    r.doc = diffDoc (.map tf) (.map bf) ∧
    (match r.doc with
     | none => Val.map tf = Val.map bf
     | some layer => ∃ m, layer = .map m ∧ fget m "$match" = some (.map []) ∧
         merge (.map bf) (.map (fdel m "$match")) = .ok (.map tf)) ∧
    (r.doc = none ↔ Val.map tf = Val.map bf) := by
  obtain ⟨b', t', base1, target1, f1, ft1, base2, target2, hi', hb', ht', hpb', hpt', hdoc, _, _⟩ :=
    C15_bkld_result fs cwd env opts r h
  rw [hi] at hi'
  obtain ⟨rfl, rfl⟩ : b = b' ∧ t = t' := by simpa using hi'
  rw [hb] at hb'; cases hb'
  rw [ht] at ht'; cases ht'
  rw [hpb] at hpb'; cases hpb'
  rw [hpt] at hpt'; cases hpt'
  refine ⟨hdoc, ?_, ?_⟩
  · rw [hdoc]
    exact C15_roundtrip_wf_base tf bf hplt hwb hbm
  · rw [hdoc, tc_diffDoc_none_iff, C15_same_iff _ _ hplt hwb]
    constructor
    · rintro (h1 | h1)
      · exact h1
      · exact absurd h1 (C15_doc_never_replaceParent tf bf)
    · exact fun h1 => .inl h1

example : (∃ r, bkldRun tc_toolFS ["w"] [] { inputs := ["a.yaml", "t.yaml"] } = .ok r) ∧
    ({ inputs := ["a.yaml", "t.yaml"] } : ToolOpts).inputs = ["a.yaml", "t.yaml"] ∧
    getOnlyDocument tc_toolFS ["w"] "a.yaml" = .ok (tc_base, "yaml") ∧
    getOnlyDocument tc_toolFS ["w"] "t.yaml" = .ok (tc_target, "yaml") ∧
    processOnly [] tc_base = .ok (.map [("a", .int 1), ("b", .str "x")]) ∧
    processOnly [] tc_target = .ok (.map [("a", .int 2), ("c", .bool true)]) ∧
    plainVal (.map [("a", .int 2), ("c", .bool true)]) = true ∧
    Val.WF (.map [("a", .int 1), ("b", .str "x")]) ∧
    fget [("a", Val.int 1), ("b", .str "x")] "$match" = none :=
  ⟨⟨_, C15_bkld_sample⟩, rfl, tc_toolFS_get_a, tc_toolFS_get_t, by decide, by decide, by decide,
    by decide, by decide⟩

/-- … and through the parser, for plain evaluated documents: a parser holding the evaluated
    base as its single document `B`, given the emitted layer as document `L` with parent `B`,
    ends with the evaluated target as its only document (`C15_roundtrip_parser`). -/
theorem C15_bkld_cli_roundtrip_parser (fs : FS) (cwd : Comps) (env : Vars) (opts : ToolOpts)
    (r : ToolResult) (b t : String) (base target : Val) (f ft : String) (bf tf : Fields)
    (layer : Val)
    (h : bkldRun fs cwd env opts = .ok r) (hi : opts.inputs = [b, t])
    (hb : getOnlyDocument fs cwd b = .ok (base, f))
    (ht : getOnlyDocument fs cwd t = .ok (target, ft))
    (hpb : processOnly env base = .ok (.map bf)) (hpt : processOnly env target = .ok (.map tf))
    (hplt : plainVal (.map tf) = true) (hplb : plainVal (.map bf) = true)
    (hl : r.doc = some layer) :
    ∃ st', mergeDocument { docs := [("B", .map bf)], known := [("B", [])] }
        { id := "L", parents := ["B"], data := layer } = .ok st' ∧
      st'.docs = [("B", .map tf)] := by
  have h1 := (C15_bkld_cli_roundtrip fs cwd env opts r b t base target f ft bf tf h hi hb ht hpb hpt
    hplt (plainVal_wf hplb) (plainVal_fget_dollar hplb (by decide))).1
  rw [hl] at h1
  exact C15_roundtrip_parser tf bf layer hplt hplb h1.symm

example : (∃ r, bkldRun tc_toolFS ["w"] [] { inputs := ["a.yaml", "t.yaml"] } = .ok r) ∧
    plainVal (.map [("a", .int 2), ("c", .bool true)]) = true ∧
    plainVal (.map [("a", .int 1), ("b", .str "x")]) = true :=
  ⟨⟨_, C15_bkld_sample⟩, by decide, by decide⟩

/-- "exactly one document": if the merged state of an input file has 0 or ≥ 2 documents,
    `getOnlyDocument` fails, and so does every tool that is given this input — a first document
    is never chosen silently.  (`bkldRun`/`bkliRun` may already have failed on an earlier input.) -/
theorem C15_one_document_required (fs : FS) (cwd : Comps) (path : String) (real : Comps)
    (f : String) (st : PState) (hm : fileMatch fs cwd path = .ok (real, f))
    (hl : mergeFileLayers fs { root := [], cwd := cwd } PState.empty real = .ok st)
    (hn : st.docs.length ≠ 1) :
    getOnlyDocument fs cwd path = .error .other ∧
    (∀ env opts, path ∈ opts.inputs → ∃ e, bkldRun fs cwd env opts = .error e) ∧
    (∀ opts, path ∈ opts.inputs → ∃ e, bkliRun fs cwd opts = .error e) ∧
    (∀ opts, path ∈ opts.inputs → ∃ e, bklrRun fs cwd opts = .error e) ∧
    -- the exact error when the offending file is the first input
    (∀ env opts t, opts.inputs = [path, t] → bkldRun fs cwd env opts = .error .other) ∧
    (∀ opts p rest, opts.inputs = path :: p :: rest → bkliRun fs cwd opts = .error .other) ∧
    (∀ opts, opts.inputs = [path] → bklrRun fs cwd opts = .error .other) := by
  have hg := tc_getOnlyDocument_not_one hm hl hn
  have hne : ∀ d, getOnlyDocument fs cwd path ≠ .ok d := by
    intro d hd; rw [hg] at hd; cases hd
  refine ⟨hg, ?_, ?_, ?_, ?_, ?_, ?_⟩
  · intro env opts hp
    cases hr : bkldRun fs cwd env opts with
    | error e => exact ⟨e, rfl⟩
    | ok r =>
      obtain ⟨b, t, base, target, f', ft, _, _, hi, hb, ht, _⟩ :=
        (C15_bkld_result_iff fs cwd env opts r).1 hr
      rw [hi] at hp
      simp only [List.mem_cons, List.not_mem_nil, or_false] at hp
      rcases hp with rfl | rfl
      · exact absurd hb (hne _)
      · exact absurd ht (hne _)
  · intro opts hp
    cases hr : bkliRun fs cwd opts with
    | error e => exact ⟨e, rfl⟩
    | ok r =>
      obtain ⟨first, second, rest, d0, f0, ds, hi, hf, _⟩ := (tc_bkliRun_ok_iff fs cwd opts r).1 hr
      rw [hi] at hp
      have hm' := (tc_mapM_ok_iff _ _ _).2 hf
      obtain ⟨e, he⟩ := tc_mapM_error_of_mem (getOnlyDocument fs cwd) _ path hp ⟨_, hg⟩
      rw [he] at hm'; cases hm'
  · intro opts hp
    cases hr : bklrRun fs cwd opts with
    | error e => exact ⟨e, rfl⟩
    | ok r =>
      obtain ⟨p, data, f', hi, hgp, _⟩ := (tc_bklrRun_ok_iff fs cwd opts r).1 hr
      rw [hi] at hp
      simp only [List.mem_cons, List.not_mem_nil, or_false] at hp
      subst hp
      exact absurd hgp (hne _)
  · intro env opts t hi
    rw [tc_bkldRun_two fs cwd env opts path t hi, hg]
  · intro opts p rest hi
    rw [tc_bkliRun_many fs cwd opts path p rest hi, mapM_R_cons, hg]
  · intro opts hi
    rw [tc_bklrRun_one fs cwd opts path hi, hg]

/-- two documents in /w/two.yaml, none in /w/none.yaml -/
example : fileMatch tc_toolFS ["w"] "two.yaml" = .ok (["w", "two.yaml"], "yaml") ∧
    mergeFileLayers tc_toolFS { root := [], cwd := ["w"] } PState.empty ["w", "two.yaml"] =
      .ok { docs := [("/w/two.yaml|doc0", tc_base), ("/w/two.yaml|doc1", tc_target)],
            known := [("/w/two.yaml|doc0", []), ("/w/two.yaml|doc1", [])] } ∧
    [("/w/two.yaml|doc0", tc_base), ("/w/two.yaml|doc1", tc_target)].length ≠ 1 :=
  ⟨tc_toolFS_match_two, tc_toolFS_layers_two, by decide⟩

example : fileMatch tc_toolFS ["w"] "none.yaml" = .ok (["w", "none.yaml"], "yaml") ∧
    mergeFileLayers tc_toolFS { root := [], cwd := ["w"] } PState.empty ["w", "none.yaml"] =
      .ok PState.empty ∧ PState.empty.docs.length ≠ 1 :=
  ⟨tc_toolFS_match_none, tc_toolFS_layers_none, by decide⟩

/-- `bkld a.yaml two.yaml` fails although /w/two.yaml's first document alone would do -/
example : bkldRun tc_toolFS ["w"] [] { inputs := ["a.yaml", "two.yaml"] } = .error .other := by
  have hg := (C15_one_document_required tc_toolFS ["w"] "two.yaml" _ _ _ tc_toolFS_match_two
    tc_toolFS_layers_two (by decide)).1
  rw [tc_bkldRun_two _ _ _ _ "a.yaml" "two.yaml" rfl, tc_toolFS_get_a]
  simp only
  rw [show processOnly [] tc_base = .ok tc_base by decide]
  simp only
  rw [hg]

end Bkl
