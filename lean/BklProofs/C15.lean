/-
  C15 — "bkld round trip: base + bkld(base, target) evaluates to target".

  `diff target base` (Bkl/Tools.lean, mirrors cmd/bkld/diff.go) computes a patch layer;
  layering it over `base` with bkl's own `merge` gives back `target`.

  Input domain (BklProofs/Lemmas/Tools.lean):
    `plainVal v` — `v` is well-formed (`Val.wfB`), contains no `.null`, and is `$`-free: no map
                   key and no string leaf starts with `$` (`dollarFree`, stated on `String.toList`).
  Only the *target* has to be plain; the base only has to be well-formed (so the base may
  contain `$required` markers — this is what C16_lossless uses).

  Property theorems only; helper lemmas are in BklProofs/Lemmas/{Tools,ToolsDiff}.lean.
-/
import BklProofs.Lemmas.ToolsDiff
namespace Bkl

/-! ### the shared witnesses `C15_target`, `C15_base`, `C15_base2` are in Lemmas/ToolsDiff.lean -/

/-- what bkld emits for the witnesses (every branch of `diff` for maps is exercised) -/
example : diffDoc C15_target C15_base = some (.map
    [("$match", .map []), ("a", .int 1), ("gone", .str "$delete"),
     ("l", .list [.str "x", .map [("n", .int 1)], .map [("$replace", .bool true)]]),
     ("m", .map [("p", .str "q"), ("s", .str "$delete")]), ("new", .bool false)]) := by decide

example : diffDoc C15_target C15_base2 = some (.map
    [("$match", .map []), ("$replace", .bool true), ("a", .int 1),
     ("l", .list [.str "x", .map [("n", .int 1)]]),
     ("m", .map [("p", .str "q"), ("r", .flt "1.5")]), ("new", .bool false)]) := by decide

/-! ## 1. the heart: `diff` keeps its promise at every position -/

/-- For a plain `target` and a well-formed `base` (in particular: a plain base):
    * `same`          — the two are equal;
    * `patch p`       — bkl accepts `p` over `base` and the result is `target`;
    * `replaceParent` — `base` is a non-empty map or a list and `target` is of another kind:
                        no patch at this position can work, the enclosing map is replaced. -/
theorem C15_roundtrip_core (target base : Val) (ht : plainVal target = true)
    (hb : Val.WF base) :
    match diff target base with
    | .same => target = base
    | .patch p => merge base p = .ok target
    | .replaceParent =>
      replaceable base = false ∧ (target.isMap && base.isMap) = false ∧
        (target.isList && base.isList) = false := by
  have h := diff_spec target base ht hb
  cases hd : diff target base <;> (rw [hd] at h; exact h)

example : plainVal C15_target = true ∧ Val.WF C15_base := by decide

/-- `replaceParent` is returned exactly when the base cannot be overridden by a value of
    another kind and the target is of another kind (no hypotheses needed). -/
theorem C15_replaceParent_iff (target base : Val) :
    diff target base = .replaceParent ↔
      (replaceable base = false ∧ (target.isMap && base.isMap) = false ∧
        (target.isList && base.isList) = false) :=
  diff_replaceParent_iff target base

example : replaceable (.list [.int 1]) = false ∧
    ((Val.map [("p", .str "q")]).isMap && (Val.list [.int 1]).isMap) = false ∧
    ((Val.map [("p", .str "q")]).isList && (Val.list [.int 1]).isList) = false := by decide

/-! ## 2. whole documents -/

/-- Map-rooted documents: either nothing is emitted and the documents are equal, or the emitted
    layer is a map carrying the document selector `$match: {}`; what the parser merges into the
    base — the layer without its `$match` entry (`mergeDocument`, Bkl/Parser.lean) — is accepted
    by `merge` and yields the target.  The base needs no `$match` key of its own
    (true of every plain base, `C15_roundtrip`). -/
theorem C15_roundtrip_wf_base (t b : Fields) (ht : plainVal (.map t) = true)
    (hb : Val.WF (.map b)) (hbm : fget b "$match" = none) :
    match diffDoc (.map t) (.map b) with
    | none => Val.map t = Val.map b
    | some layer => ∃ m, layer = .map m ∧ fget m "$match" = some (.map []) ∧
        merge (.map b) (.map (fdel m "$match")) = .ok (.map t) := by
  have hspec := diff_spec (.map t) (.map b) ht hb
  have hs := (wf_map_iff.1 hb).1
  rcases diff_map_map_cases t b with h | ⟨m, h⟩
  · rw [diffDoc_same h]
    rw [h] at hspec
    exact hspec
  · have hd : diffDoc (.map t) (.map b) = some (.map (fset m "$match" (.map []))) := by
      unfold diffDoc; rw [h]
    rw [hd]
    rw [h] at hspec
    refine ⟨_, rfl, fget_fset_same _ _ _, ?_⟩
    rw [fdel_fset_of_none (sorted_of_diff_patch (plainVal_sorted ht) h) _
      (diff_map_map_no_match ht hs hbm h)]
    exact hspec

example : plainVal (.map [("a", .int 1)]) = true ∧ Val.WF (.map [("a", .str "$required")]) ∧
    fget [("a", Val.str "$required")] "$match" = none := by decide

/-- the hypothesis on `$match` cannot be dropped: if only the base has a `$match` key, the
    `"$match": "$delete"` entry of the patch is overwritten by the document selector, so the
    body that the parser merges is empty and the base keeps its `$match` key -/
example : Val.WF (.map [("$match", .int 1), ("a", .int 1)]) ∧
    diffDoc (.map [("a", .int 1)]) (.map [("$match", .int 1), ("a", .int 1)])
      = some (.map [("$match", .map [])]) := by decide

/-- the round trip for plain map-rooted target and base -/
theorem C15_roundtrip (t b : Fields) (ht : plainVal (.map t) = true)
    (hb : plainVal (.map b) = true) :
    match diffDoc (.map t) (.map b) with
    | none => Val.map t = Val.map b
    | some layer => ∃ m, layer = .map m ∧ fget m "$match" = some (.map []) ∧
        merge (.map b) (.map (fdel m "$match")) = .ok (.map t) :=
  C15_roundtrip_wf_base t b ht (plainVal_wf hb) (plainVal_fget_dollar hb (by decide))

example : (∃ t, C15_target = .map t) ∧ (∃ b, C15_base = .map b) ∧
    plainVal C15_target = true ∧ plainVal C15_base = true :=
  ⟨⟨_, rfl⟩, ⟨_, rfl⟩, by decide, by decide⟩

/-- The same through the parser (`mergeDocument`, Bkl/Parser.lean): the parser holds the single
    document `B = base`; the emitted layer, read as document `L` with parent `B`, selects `B`
    by its `$match: {}` and is merged into it.  Afterwards the only document is `target`. -/
theorem C15_roundtrip_parser (t b : Fields) (layer : Val) (ht : plainVal (.map t) = true)
    (hb : plainVal (.map b) = true) (hl : diffDoc (.map t) (.map b) = some layer) :
    ∃ st', mergeDocument { docs := [("B", .map b)], known := [("B", [])] }
        { id := "L", parents := ["B"], data := layer } = .ok st' ∧
      st'.docs = [("B", .map t)] := by
  have h := C15_roundtrip t b ht hb
  rw [hl] at h
  obtain ⟨m, rfl, hm, hmerge⟩ := h
  exact ⟨_, mergeDocument_single b m _ hm (plainVal_not_placeholder hb) hmerge, rfl⟩

example : plainVal C15_target = true ∧ plainVal C15_base = true ∧
    (diffDoc C15_target C15_base).isSome = true := by decide

/-- for map-rooted documents bkld never fails with `errReplaceParent` -/
theorem C15_doc_never_replaceParent (t b : Fields) :
    diff (.map t) (.map b) ≠ .replaceParent := by
  intro h
  rcases diff_map_map_cases t b with h' | ⟨m, h'⟩ <;> (rw [h'] at h; cases h)

/-! ## 3. equal data: the emitted layer is empty -/

/-- when base and target are the same data nothing is emitted -/
theorem C15_empty_when_equal (v : Val) (hv : Val.WF v) :
    diff v v = .same ∧ diffDoc v v = none :=
  ⟨diff_self v hv, diffDoc_same (diff_self v hv)⟩

example : Val.WF C15_target := by decide

/-- well-formedness cannot be dropped: with a duplicated key the loop compares the second
    entry against the first one -/
example : diffDoc (.map [("k", .int 1), ("k", .int 2)]) (.map [("k", .int 1), ("k", .int 2)])
    = some (.map [("$match", .map []), ("k", .int 2)]) := by decide

/-- for a plain target `diff` answers `same` exactly when the data are equal -/
theorem C15_same_iff (t b : Val) (ht : plainVal t = true) (hb : Val.WF b) :
    diff t b = .same ↔ t = b := by
  constructor
  · intro h
    have hspec := diff_spec t b ht hb
    rw [h] at hspec
    exact hspec
  · rintro rfl
    exact diff_self t hb

example : plainVal C15_target = true ∧ Val.WF C15_base := by decide

/-! ## 4. the `$delete` entries of a list patch find their entry -/

/-- A `{$delete: e}` entry for an entry `e` of a plain base list is never rejected as a useless
    override: `e` matches itself (`matchV_refl_plain`), and exactly the entries matching `e`
    are removed. -/
theorem C15_delete_entry_accepted (src : List Val) (e : Val) (hs : plainVal (.list src) = true)
    (he : e ∈ src) :
    merge (.list src) (.list [.map [("$delete", e)]]) =
      .ok (.list (src.filter (fun v => !matchV v e))) := by
  have hfil : src.filter (fun x => !(x == Val.str "$required")) = src := by
    rw [List.filter_eq_self]
    intro x hx
    have := plainVal_ne_str_dollar (plainVal_list_iff.1 hs x hx)
      (show dollarFree "$required" = false by decide)
    simpa using this
  have hany : src.any (fun v => matchV v e) = true := by
    rw [List.any_eq_true]
    exact ⟨e, he, matchV_refl_plain e (plainVal_list_iff.1 hs e he)⟩
  rw [C01_list_delete, hfil, hany]
  rfl

example : plainVal (.list [.map [("n", .int 1)], .str "x"]) = true ∧
    Val.map [("n", .int 1)] ∈ [Val.map [("n", .int 1)], .str "x"] := by decide

end Bkl
