/-
  Lemmas for C06 (part 4: the phases).  process1 / process2 / repeatDoc / outputDocument on
  plain data (no key and no string leaf recognised by the evaluator).
-/
import BklProofs.Lemmas.EscapeEval
namespace Bkl

theorem e_merge_mem : "$merge" ∈ directiveNames := by decide
theorem e_replace_mem : "$replace" ∈ directiveNames := by decide

theorem e_plainList_fget {xs : List Val} (hp : allStrList e_P xs = true) {d : String}
    (hd : d ∈ directiveNames) : ∀ x ∈ xs, ∀ m, x = .map m → fget m d = none := by
  intro x hx m hm
  have := e_allStrList_mem hp x hx
  subst hm
  simp only [allStr] at this
  exact e_plainFields_fget this hd

theorem e_process1_plain : ∀ (fuel : Nat) (docs : List Val) (root : Val) (loc : Loc) (v : Val),
    allStr e_P v = true → Val.wfB v = true → depth v < fuel →
    process1 fuel docs root loc v = .ok (dropNulls v, root) := by
  intro fuel
  induction fuel with
  | zero => intro _ _ _ v _ _ h; omega
  | succ fuel ih =>
    intro docs root loc v hp hw hd
    cases v with
    | null | bool | int | flt => simp [process1, dropNulls, e_pure_eq]
    | str s =>
      simp only [allStr, e_P, Bool.not_eq_true'] at hp
      simp [process1, dropNulls, e_pure_eq, e_rc_merge hp, e_rc_replace hp]
    | map kvs =>
      simp only [allStr] at hp
      simp only [Val.wfB, Bool.and_eq_true] at hw
      simp only [depth] at hd
      rw [process1]
      simp only [e_plainFields_fget hp e_merge_mem, e_plainFields_fget hp e_replace_mem]
      rw [e_foldlM_fields_root _ kvs [] root]
      · simp only [e_ok_bind, dropNulls, e_pure_eq]
        rw [← fofList, e_fofList_sorted _ (e_dropNullsFields_sorted kvs hw.1)]
      · intro acc rt q hq
        obtain ⟨k, v⟩ := q
        have hq1 := e_allStrFields_mem hp _ hq
        have hq2 := e_wfFields_mem hw.2 _ hq
        have hq3 := e_depthFields_mem _ hq
        simp only [e_P, Bool.not_eq_true'] at hq1
        have hfuel : 0 < fuel := by omega
        have hk : process1 fuel docs rt none (.str k) = .ok (.str k, rt) := by
          obtain ⟨n, rfl⟩ : ∃ n, fuel = n + 1 := ⟨fuel - 1, by omega⟩
          simp [process1, e_pure_eq, e_rc_merge hq1.1, e_rc_replace hq1.1]
        simp only [ih docs rt (childLoc loc k) v hq1.2 hq2 (by simp at hq3; omega), e_ok_bind,
          e_dropNulls_isNull]
        split
        · rfl
        · simp only [hk, e_ok_bind, e_pure_eq]
    | list xs =>
      simp only [allStr] at hp
      simp only [Val.wfB] at hw
      simp only [depth] at hd
      rw [process1]
      rw [List.filterMap_eq_nil_iff.2 ?hm, List.filter_eq_self.2 ?hf]
      case hm =>
        intro x hx
        have hx1 := e_allStrList_mem hp x hx
        split
        · rename_i k ref
          simp only [allStr, allStrFields, Bool.and_eq_true, e_P, Bool.not_eq_true'] at hx1
          have := e_rc_names hx1.1.1 _ e_merge_mem
          simp [this]
        · rfl
      case hf =>
        intro q hq
        obtain ⟨x, i⟩ := q
        have hx : x ∈ xs := by
          have := List.mem_zipIdx hq
          rw [this.2.2]; exact List.getElem_mem _
        have hx1 := e_allStrList_mem hp x hx
        simp only
        split
        · rename_i k ref
          simp only [allStr, allStrFields, Bool.and_eq_true, e_P, Bool.not_eq_true'] at hx1
          have := e_rc_names hx1.1.1 _ e_merge_mem
          simp [this]
        · rfl
      generalize hT : List.map _ xs.zipIdx = T
      have hT1 : T.map (·.1) = xs := by
        subst hT
        rw [List.map_map]
        conv => rhs; rw [← List.zipIdx_map_fst 0 xs]
        apply List.map_congr_left
        intro a _; obtain ⟨v, i⟩ := a; rfl
      have hT2 : ∀ q ∈ T, q.1 ∈ xs := by
        intro q hq
        rw [← hT1]; exact List.mem_map_of_mem hq
      simp only [List.foldlM_nil, e_pure_eq, e_ok_bind, hT1]
      rw [e_popListMapValue_none xs _ (e_plainList_fget hp e_replace_mem)]
      have hn : Val.null.isNull = true := rfl
      simp only [e_ok_bind, hn, Bool.not_true, Bool.false_eq_true, if_false]
      rw [List.filter_eq_self.2 ?hf2]
      case hf2 =>
        intro q hq
        have hx1 := e_allStrList_mem hp _ (hT2 q hq)
        split
        · rename_i k ref heq
          rw [heq] at hx1
          simp only [allStr, allStrFields, Bool.and_eq_true, e_P, Bool.not_eq_true'] at hx1
          have := e_rc_names hx1.1.1 _ e_replace_mem
          simp [this]
        · rfl
      rw [e_foldlM_tagged _ T [] root]
      · simp only [e_ok_bind, hT1, dropNulls, List.nil_append]
      · intro acc rt q hq
        have hx := hT2 q hq
        have hq1 := e_allStrList_mem hp _ hx
        have hq2 := e_wfList_mem hw _ hx
        have hq3 := e_depthList_mem _ hx
        simp only [ih docs rt _ q.1 hq1 hq2 (by omega), e_ok_bind, e_dropNulls_isNull]
        split <;> rfl


theorem e_repeat_mem : "$repeat" ∈ directiveNames := by decide
theorem e_encode_mem : "$encode" ∈ directiveNames := by decide
theorem e_decode_mem : "$decode" ∈ directiveNames := by decide
theorem e_value_mem : "$value" ∈ directiveNames := by decide

theorem e_process2String_plain (fuel : Nat) (docs : List Val) (root : Val) (ec : Vars) (s : String)
    (h : recognisedCore s = false) : process2String fuel docs root ec s = .ok (.str s) := by
  have h1 := e_rc_interp h
  have h2 := e_rc_env h
  have h3 : (s == "$repeat") = false := by
    simpa using e_rc_names h _ e_repeat_mem
  unfold process2String
  simp [h1, h2, h3, e_pure_eq]

theorem e_process2_plain : ∀ (fuel : Nat) (docs : List Val) (root : Val) (ec : Vars) (v : Val),
    allStr e_P v = true → Val.wfB v = true → depth v < fuel →
    process2 fuel docs root ec v = .ok (dropNulls v) := by
  intro fuel
  induction fuel with
  | zero => intro _ _ _ v _ _ h; omega
  | succ fuel ih =>
    intro docs root ec v hp hw hd
    cases v with
    | null | bool | int | flt => simp [process2, dropNulls, e_pure_eq]
    | str s =>
      simp only [allStr, e_P, Bool.not_eq_true'] at hp
      simp [process2, dropNulls, e_process2String_plain _ _ _ _ _ hp]
    | map kvs =>
      simp only [allStr] at hp
      simp only [Val.wfB, Bool.and_eq_true] at hw
      simp only [depth] at hd
      rw [process2]
      rw [e_foldlM_fields_id _ kvs []]
      · rw [← fofList, e_fofList_sorted _ hw.1]
        simp only [e_ok_bind, e_plainFields_fget hp e_encode_mem, e_plainFields_fget hp e_decode_mem,
          e_plainFields_fget hp e_value_mem]
        rw [e_foldlM_fields _ kvs []]
        · simp only [e_ok_bind, dropNulls, e_pure_eq]
          rw [← fofList, e_fofList_sorted _ (e_dropNullsFields_sorted kvs hw.1)]
        · intro acc q hq
          obtain ⟨k, v⟩ := q
          have hq1 := e_allStrFields_mem hp _ hq
          have hq2 := e_wfFields_mem hw.2 _ hq
          have hq3 := e_depthFields_mem _ hq
          simp only [e_P, Bool.not_eq_true'] at hq1
          have hk : process2 fuel docs root ec (.str k) = .ok (.str k) := by
            obtain ⟨n, rfl⟩ : ∃ n, fuel = n + 1 := ⟨fuel - 1, by omega⟩
            simp [process2, e_process2String_plain _ _ _ _ _ hq1.1]
          simp only [ih docs root ec v hq1.2 hq2 (by simp at hq3; omega), e_ok_bind,
            e_dropNulls_isNull]
          split
          · rfl
          · simp only [hk, e_ok_bind, e_pure_eq]
      · intro acc q hq
        obtain ⟨k, v⟩ := q
        have hq1 := (e_allStrFields_mem hp _ hq).2
        cases v with
        | map m =>
          simp only [allStr] at hq1
          simp only [e_plainFields_fget hq1 e_repeat_mem, e_pure_eq]
        | _ => rfl
    | list xs =>
      simp only [allStr] at hp
      simp only [Val.wfB] at hw
      simp only [depth] at hd
      rw [process2]
      rw [e_popListMapValue_none xs _ (e_plainList_fget hp e_encode_mem)]
      have hn : Val.null.isNull = true := rfl
      simp only [e_ok_bind, hn, Bool.not_true, Bool.false_eq_true, if_false]
      rw [e_foldlM_list _ xs []]
      · simp only [e_ok_bind, dropNulls, List.nil_append, e_pure_eq]
      · intro acc x hx
        have hq1 := e_allStrList_mem hp _ hx
        have hq2 := e_wfList_mem hw _ hx
        have hq3 := e_depthList_mem _ hx
        have hx2 := ih docs root ec x hq1 hq2 (by omega)
        cases x with
        | map m =>
          simp only [allStr] at hq1
          simp only [e_plainFields_fget hq1 e_repeat_mem, hx2, e_ok_bind, e_dropNulls_isNull]
          split <;> rfl
        | _ =>
          simp only [hx2, e_ok_bind, e_dropNulls_isNull]
          split <;> rfl


theorem e_repeatDoc_plain (v : Val) (ec : Vars) (hp : allStr e_P v = true) :
    repeatDoc v ec = .ok [(v, ec)] := by
  cases v with
  | map kvs =>
    simp only [allStr] at hp
    simp only [repeatDoc, e_plainFields_fget hp e_repeat_mem, e_pure_eq]
  | list xs =>
    simp only [allStr] at hp
    have hn : Val.null.isNull = true := rfl
    simp only [repeatDoc, e_popListMapValue_none xs _ (e_plainList_fget hp e_repeat_mem), e_ok_bind,
      hn, Bool.not_true, Bool.false_eq_true, if_false, e_pure_eq]
  | _ => rfl

/-- the whole pipeline before `emit`, on plain data -/
theorem e_processDoc_plain (docs : List Val) (env : Vars) (v : Val)
    (hp : allStr e_P v = true) (hw : Val.wfB v = true) (hd : depth v < depthLimit) :
    processDoc docs env v = .ok [dropNulls v] := by
  have hp' := e_allStr_dropNulls_all e_P |>.1 v hp
  have hw' := e_wf_dropNulls_all.1 v hw
  have hd' : depth (dropNulls v) < depthLimit := Nat.lt_of_le_of_lt (e_depth_dropNulls_all.1 v) hd
  unfold processDoc
  rw [e_process1_plain _ docs v (some []) v hp hw hd]
  simp only [e_ok_bind, e_repeatDoc_plain _ env hp']
  simp only [List.mapM_cons, List.mapM_nil, e_process2_plain _ docs _ env _ hp' hw' hd',
    e_dropNulls_idem, e_pure_eq, e_ok_bind]

theorem e_outputDocument_plain (docs : List Val) (env : Vars) (v : Val)
    (hp : allStr e_P v = true) (hw : Val.wfB v = true) (hd : depth v < depthLimit)
    (hn : dropNulls v ≠ .null) :
    outputDocument docs env v = .ok [finalize (dropNulls v)] := by
  have hp' := e_allStr_dropNulls_all e_P |>.1 v hp
  unfold outputDocument
  rw [e_processDoc_plain docs env v hp hw hd, e_ok_bind]
  apply e_emit_single
  · exact e_findOutputs_plain_all.1 _ hp'
  · apply e_filterOutput_plain_all.1 _ hp' (e_noNulls_dropNulls_all.1 v)
    cases h : dropNulls v <;> simp_all [Val.isNull]
  · exact e_validate_plain_all.1 _ hp'

theorem e_outputDocument_null (docs : List Val) (env : Vars) :
    outputDocument docs env .null = .ok [] := by
  unfold outputDocument
  rw [e_processDoc_plain docs env .null rfl rfl (by decide), e_ok_bind]
  exact e_emit_null

/-! ## the depth bound is necessary -/

/-- `n` nested singleton lists around a scalar -/
def nest : Nat → Val
  | 0 => .int 1
  | n + 1 => .list [nest n]

theorem e_nest_props : ∀ n, inert (nest n) = true ∧ Val.wfB (nest n) = true ∧ depth (nest n) = n ∧ dropNulls (nest n) = nest n := by
  intro n
  induction n with
  | zero => decide
  | succ n ih =>
    simp only [nest, inert, allStr, allStrList, Val.wfB, Val.wfListB, depth, depthList, dropNulls, dropNullsList]
    obtain ⟨h1, h2, h3, h4⟩ := ih
    simp only [inert] at h1
    have : (nest n).isNull = false := by cases n <;> rfl
    simp [h1, h2, h3, h4, this]

theorem e_error_bind {ε α β} (e : ε) (f : α → Except ε β) : (Except.error e >>= f) = Except.error e := rfl

theorem e_nest_fail : ∀ (fuel n : Nat) (docs : List Val) (root : Val) (loc : Loc), fuel ≤ n →
    process1 fuel docs root loc (nest n) = .error .circularRef := by
  intro fuel
  induction fuel with
  | zero => intros; rfl
  | succ fuel ih =>
    intro n docs root loc h
    obtain ⟨m, rfl⟩ : ∃ m, n = m + 1 := ⟨n - 1, by omega⟩
    have hm : fuel ≤ m := by omega
    have hshape : (∃ i, nest m = .int i) ∨ (∃ l, nest m = .list l) := by
      cases m with
      | zero => exact Or.inl ⟨1, rfl⟩
      | succ k => exact Or.inr ⟨_, rfl⟩
    have key := fun loc' => ih m docs root loc' hm
    simp only [nest]
    generalize nest m = x at hshape key
    rcases hshape with ⟨i, rfl⟩ | ⟨l, rfl⟩
    · simp [process1, popListMapValue, e_pure_eq, e_ok_bind, key, e_error_bind, List.zipIdx, Val.isNull]
    · simp [process1, popListMapValue, e_pure_eq, e_ok_bind, key, e_error_bind, List.zipIdx, Val.isNull]


theorem e_outputDocument_nest_fail (docs : List Val) (env : Vars) (n : Nat) (h : depthLimit ≤ n) :
    outputDocument docs env (nest n) = .error .circularRef := by
  unfold outputDocument processDoc
  rw [e_nest_fail depthLimit n docs _ _ h]
  rfl

end Bkl
