/-
  BklProofs.Lemmas.C18Eval — helper lemmas for the whole-evaluation form of C18:
  the restriction of a file system to a root (`FS.inside`, `sameInside`), congruence of every
  rooted probe under it, the simulation of `filepath.EvalSymlinks` by the `os.Root` walk on a
  path that has just been opened, and congruence of the loader / the command line loop.
-/
import BklProofs.Lemmas.Files
set_option linter.unusedVariables false
namespace Bkl

/-! ## the file system restricted to a root -/

/-- the entries at and below `root` (in order) -/
def FS.inside (fs : FS) (root : Comps) : List (Comps × FNode) :=
  fs.entries.filter (fun e => root.isPrefixOf e.1)

/-- two file systems with exactly the same entries at and below `root` -/
def sameInside (root : Comps) (fs₁ fs₂ : FS) : Prop := fs₁.inside root = fs₂.inside root

/-- the root's own ancestors and the root itself are plain directories (no symlink on the way
    to the root), and the root is a clean path -/
def RootPlain (fs : FS) (root : Comps) : Prop :=
  (∀ c ∈ root, plainComp c = true) ∧ ∀ p, p ≠ [] → p <+: root → fs.lstat p = some .dir

instance (root : Comps) (fs₁ fs₂ : FS) : Decidable (sameInside root fs₁ fs₂) :=
  inferInstanceAs (Decidable (fs₁.inside root = fs₂.inside root))

theorem c18e_sameInside_refl (root : Comps) (fs : FS) : sameInside root fs fs := rfl

theorem c18e_sameInside_symm {root : Comps} {fs₁ fs₂ : FS} (h : sameInside root fs₁ fs₂) :
    sameInside root fs₂ fs₁ := Eq.symm h

theorem c18e_find?_filter_of_imp {α : Type} (p q : α → Bool)
    (himp : ∀ a, q a = true → p a = true) : ∀ l : List α, (l.filter p).find? q = l.find? q
  | [] => rfl
  | a :: l => by
    rw [List.filter_cons]
    by_cases hp : p a = true
    · rw [if_pos hp, List.find?_cons, List.find?_cons, c18e_find?_filter_of_imp p q himp l]
    · rw [if_neg hp, List.find?_cons]
      have : q a = false := by
        cases hq : q a with
        | false => rfl
        | true => exact absurd (himp a hq) hp
      rw [this]
      exact c18e_find?_filter_of_imp p q himp l

theorem c18e_lstat_inside (fs : FS) (root p : Comps) (hp : root <+: p) :
    fs.lstat p = if p.isEmpty then some .dir else ((fs.inside root).find? (·.1 == p)).map (·.2) := by
  unfold FS.lstat FS.inside
  rw [c18e_find?_filter_of_imp (fun e : Comps × FNode => root.isPrefixOf e.1) (fun e => e.1 == p)]
  intro e he
  have h1 : e.1 = p := by simpa using he
  show root.isPrefixOf e.1 = true
  rw [List.isPrefixOf_iff_prefix, h1]
  exact hp

/-- (a) the same entries inside the root give the same `lstat` inside the root -/
theorem c18e_agreeInside_of_sameInside {root : Comps} {fs₁ fs₂ : FS} (h : sameInside root fs₁ fs₂) :
    agreeInside root fs₁ fs₂ := by
  intro p hp
  rw [c18e_lstat_inside fs₁ root p hp, c18e_lstat_inside fs₂ root p hp, h]

/-! ## (b) congruence of the rooted probes -/

theorem c18e_rootProbe_congr_agree (fs₁ fs₂ : FS) (root : Comps) (hag : agreeInside root fs₁ fs₂) :
    ∀ (fuel : Nat) {links : Nat} (cur : Comps) (todo : List String), root <+: cur →
      fs₁.rootProbe root fuel links cur todo = fs₂.rootProbe root fuel links cur todo := by
  intro fuel
  induction fuel with
  | zero => intro links cur todo _; rfl
  | succ n ih =>
    intro links cur todo hp
    cases todo with
    | nil => rfl
    | cons c rest =>
      rw [rootProbe_cons, rootProbe_cons, hag (cur ++ [c]) (prefix_append_right hp _)]
      split
      · exact ih _ _ hp
      · split
        · split
          · rfl
          · rename_i hl
            exact ih _ _ (prefix_dropLast_of_length_lt hp (by omega))
        · split
          · rfl
          · split
            · rfl
            · split
              · rfl
              · exact ih _ _ hp
          · exact ih _ _ (prefix_append_right hp _)

theorem c18e_rootProbe_congr {root : Comps} {fs₁ fs₂ : FS} (h : sameInside root fs₁ fs₂)
    (fuel : Nat) (cur : Comps) (todo : List String) (hp : root <+: cur) {links : Nat} :
    fs₁.rootProbe root fuel links cur todo = fs₂.rootProbe root fuel links cur todo :=
  c18e_rootProbe_congr_agree fs₁ fs₂ root (c18e_agreeInside_of_sameInside h) fuel cur todo hp

theorem c18e_rootExists_congr {root : Comps} {fs₁ fs₂ : FS} (h : sameInside root fs₁ fs₂)
    (rel : List String) : fs₁.rootExists root rel = fs₂.rootExists root rel := by
  rw [rootExists_eq, rootExists_eq, c18e_rootProbe_congr h linkFuel root rel (List.prefix_refl _)]

theorem c18e_rootWalk_congr {root : Comps} {fs₁ fs₂ : FS} (h : sameInside root fs₁ fs₂)
    (fuel : Nat) (cur : Comps) (todo : List String) (hp : root <+: cur) {links : Nat} :
    fs₁.rootWalk root fuel links cur todo = fs₂.rootWalk root fuel links cur todo :=
  rootWalk_congr fs₁ fs₂ root (c18e_agreeInside_of_sameInside h) fuel cur todo hp

/-- the listing of a directory inside the root only looks at the entries inside the root -/
theorem c18e_dirNames_inside (fs : FS) (root real : Comps) (hp : root <+: real) :
    dirNames fs real =
      ((fs.inside root).filter (fun e => e.1.dropLast == real && !e.1.isEmpty)).map
        (fun e => baseOf e.1) := by
  unfold dirNames FS.inside
  rw [List.filter_filter]
  congr 1
  apply List.filter_congr
  intro e _
  by_cases he : (e.1.dropLast == real && !e.1.isEmpty) = true
  · have h1 : e.1.dropLast = real := by
      simp only [Bool.and_eq_true, beq_iff_eq] at he; exact he.1
    have h2 : root.isPrefixOf e.1 = true := by
      rw [List.isPrefixOf_iff_prefix]
      exact List.IsPrefix.trans (h1 ▸ hp) (List.dropLast_prefix _)
    rw [he, h2]; rfl
  · have : (e.1.dropLast == real && !e.1.isEmpty) = false := by simpa using he
    rw [this]; rfl

theorem c18e_dirNames_congr {root : Comps} {fs₁ fs₂ : FS} (h : sameInside root fs₁ fs₂)
    (real : Comps) (hp : root <+: real) : dirNames fs₁ real = dirNames fs₂ real := by
  rw [c18e_dirNames_inside fs₁ root real hp, c18e_dirNames_inside fs₂ root real hp, h]

theorem c18e_rootReadDir_congr {root : Comps} {fs₁ fs₂ : FS} (h : sameInside root fs₁ fs₂)
    (rel : List String) : fs₁.rootReadDir root rel = fs₂.rootReadDir root rel := by
  rw [rootReadDir_eq, rootReadDir_eq, c18e_rootWalk_congr h linkFuel root rel (List.prefix_refl _)]
  cases hw : fs₂.rootWalk root linkFuel 0 root rel with
  | error e => rfl
  | ok real =>
    have hin := rootWalk_inside fs₂ root _ _ _ _ hw (List.prefix_refl _)
    simp only []
    rw [c18e_agreeInside_of_sameInside h real hin, c18e_dirNames_congr h real hin]

theorem c18e_globRev_nil (fs : FS) (root : Comps) : fs.globRev root [] = [[]] := by
  rw [FS.globRev]

theorem c18e_globRev_congr {root : Comps} {fs₁ fs₂ : FS} (h : sameInside root fs₁ fs₂)
    (patRev : List String) : fs₁.globRev root patRev = fs₂.globRev root patRev := by
  induction patRev with
  | nil => rw [c18e_globRev_nil, c18e_globRev_nil]
  | cons file dirRev ih =>
    have hr : fs₁.rootReadDir root = fs₂.rootReadDir root := funext (c18e_rootReadDir_congr h)
    rw [globRev_cons, globRev_cons, ih, hr]

theorem c18e_globFiles_congr {root : Comps} {fs₁ fs₂ : FS} (h : sameInside root fs₁ fs₂)
    (target : Comps) : fs₁.globFiles root target = fs₂.globFiles root target := by
  have hg : fs₁.globRev root = fs₂.globRev root := funext (c18e_globRev_congr h)
  unfold FS.globFiles
  rw [hg]

theorem c18e_findRooted_congr {root : Comps} {fs₁ fs₂ : FS} (h : sameInside root fs₁ fs₂)
    (dir : Comps) (layer : String) : fs₁.findRooted root dir layer = fs₂.findRooted root dir layer := by
  have hr : fs₁.rootExists root = fs₂.rootExists root := funext (c18e_rootExists_congr h)
  rw [findRooted_eq, findRooted_eq, hr]

/-! ## (c) `filepath.EvalSymlinks` on a path that the root walk has just opened -/

theorem c18e_resolve_zero (fs : FS) (done : Comps) (todo : List String) :
    fs.resolve 0 done todo = none := rfl

theorem c18e_resolve_nil (fs : FS) (fuel : Nat) (done : Comps) :
    fs.resolve (fuel + 1) done [] = some done := rfl

/-- a successful rooted walk is a successful unrooted walk with the same answer (same fuel) -/
theorem c18e_resolve_of_rootWalk (fs : FS) (root : Comps) : ∀ (fuel : Nat) {links : Nat}
    (cur : Comps) (todo : List String) (real : Comps),
    fs.rootWalk root fuel links cur todo = .ok real →
      fs.resolve fuel cur todo = some real := by
  intro fuel
  induction fuel with
  | zero => intro links cur todo real h; rw [rootWalk_zero] at h; cases h
  | succ n ih =>
    intro links cur todo real h
    cases todo with
    | nil => rw [rootWalk_nil] at h; cases h; rfl
    | cons c rest =>
      rw [rootWalk_cons] at h
      rw [resolve_succ_cons]
      split at h
      · rename_i h1; rw [if_pos h1]; exact ih _ _ _ h
      · rename_i h1
        rw [if_neg h1]
        split at h
        · rename_i h2
          rw [if_pos h2]
          split at h
          · cases h
          · exact ih _ _ _ h
        · rename_i h2
          rw [if_neg h2]
          cases hx : fs.lstat (cur ++ [c]) with
          | none => rw [hx] at h; cases h
          | some nd =>
            rw [hx] at h
            cases nd with
            | link t =>
              simp only [] at h ⊢
              by_cases ha : isAbsPath t = true
              · rw [if_pos ha] at h; cases h
              · rw [if_neg ha] at h ⊢
                split at h
                · cases h
                · exact ih _ _ _ h
            | file d => simp only [] at h ⊢; exact ih _ _ _ h
            | dir => simp only [] at h ⊢; exact ih _ _ _ h

/-- more fuel never changes a successful resolution -/
theorem c18e_resolve_mono (fs : FS) : ∀ (fuel fuel' : Nat) (done : Comps) (todo : List String)
    (r : Comps), fs.resolve fuel done todo = some r → fuel ≤ fuel' →
      fs.resolve fuel' done todo = some r := by
  intro fuel
  induction fuel with
  | zero => intro fuel' done todo r h; cases h
  | succ n ih =>
    intro fuel' done todo r h hle
    obtain ⟨m, rfl⟩ : ∃ m, fuel' = m + 1 := ⟨fuel' - 1, by omega⟩
    have hm : n ≤ m := by omega
    cases todo with
    | nil => exact h
    | cons c rest =>
      rw [resolve_succ_cons] at h ⊢
      split
      · rename_i h1; rw [if_pos h1] at h; exact ih _ _ _ _ h hm
      · rename_i h1
        rw [if_neg h1] at h
        split
        · rename_i h2; rw [if_pos h2] at h; exact ih _ _ _ _ h hm
        · rename_i h2
          rw [if_neg h2] at h
          cases hx : fs.lstat (done ++ [c]) with
          | none => rw [hx] at h; cases h
          | some nd =>
            rw [hx] at h
            cases nd with
            | link t =>
              simp only [] at h ⊢
              split
              · rename_i ha; rw [if_pos ha] at h; exact ih _ _ _ _ h hm
              · rename_i ha; rw [if_neg ha] at h; exact ih _ _ _ _ h hm
            | file d => simp only [] at h ⊢; exact ih _ _ _ _ h hm
            | dir => simp only [] at h ⊢; exact ih _ _ _ _ h hm

theorem c18e_noLinksAlong_root {fs : FS} {root : Comps} (h : RootPlain fs root) :
    NoLinksAlong fs [] root :=
  ⟨h.1, fun t' hne hp => ⟨.dir, by rw [List.nil_append]; exact h.2 t' hne hp, rfl⟩⟩

/-- the descent through the root costs `root.length` steps -/
theorem c18e_resolve_descend {fs : FS} {root : Comps} (h : RootPlain fs root) (fuel : Nat)
    (rel : List String) :
    fs.resolve (fuel + root.length) [] (root ++ rel) = fs.resolve fuel root rel := by
  have := resolve_through fs root [] fuel rel (c18e_noLinksAlong_root h)
  rwa [List.nil_append] at this

/-- the simulation lemma: a successful rooted walk from the root is, for enough fuel, a
    successful `EvalSymlinks`-style resolution of the absolute path with the same answer -/
theorem c18e_resolve_of_rootWalk_abs {fs : FS} {root : Comps} (h : RootPlain fs root)
    (fuel : Nat) (rel : List String) (real : Comps)
    {links : Nat} (hw : fs.rootWalk root fuel links root rel = .ok real) (fuel' : Nat)
    (hf : fuel + root.length ≤ fuel') :
    fs.resolve fuel' [] (root ++ rel) = some real := by
  apply c18e_resolve_mono fs (fuel + root.length) fuel' _ _ _ _ hf
  rw [c18e_resolve_descend h]
  exact c18e_resolve_of_rootWalk fs root fuel root rel real hw

/-- while the rooted walk succeeds, the unrooted resolution (whatever its fuel) only looks at
    entries inside the root -/
theorem c18e_resolve_congr (fs₁ fs₂ : FS) (root : Comps) (hag : agreeInside root fs₁ fs₂) :
    ∀ (fuel : Nat) {links : Nat} (cur : Comps) (todo : List String) (real : Comps),
      fs₁.rootWalk root fuel links cur todo = .ok real → root <+: cur →
      ∀ fuel', fs₁.resolve fuel' cur todo = fs₂.resolve fuel' cur todo := by
  intro fuel
  induction fuel with
  | zero => intro links cur todo real h; rw [rootWalk_zero] at h; cases h
  | succ n ih =>
    intro links cur todo real h hp fuel'
    cases fuel' with
    | zero => rfl
    | succ m =>
      cases todo with
      | nil => rfl
      | cons c rest =>
        rw [rootWalk_cons] at h
        rw [resolve_succ_cons, resolve_succ_cons, ← hag (cur ++ [c]) (prefix_append_right hp _)]
        split at h
        · rename_i h1; rw [if_pos h1, if_pos h1]; exact ih _ _ _ h hp m
        · rename_i h1
          rw [if_neg h1, if_neg h1]
          split at h
          · rename_i h2
            rw [if_pos h2, if_pos h2]
            split at h
            · cases h
            · rename_i hl
              exact ih _ _ _ h (prefix_dropLast_of_length_lt hp (by omega)) m
          · rename_i h2
            rw [if_neg h2, if_neg h2]
            cases hx : fs₁.lstat (cur ++ [c]) with
            | none => rfl
            | some nd =>
              rw [hx] at h
              cases nd with
              | link t =>
                simp only [] at h ⊢
                by_cases ha : isAbsPath t = true
                · rw [if_pos ha] at h; cases h
                · simp only [if_neg ha] at h ⊢
                  split at h
                  · cases h
                  · exact ih _ _ _ h hp m
              | file d => simp only [] at h ⊢; exact ih _ _ _ h (prefix_append_right hp [c]) m
              | dir => simp only [] at h ⊢; exact ih _ _ _ h (prefix_append_right hp [c]) m

/-- descending through a link-free prefix that both file systems share -/
theorem c18e_resolve_through_congr (fs₁ fs₂ : FS) (rel : List String) :
    ∀ (t : List String) (done : Comps), NoLinksAlong fs₁ done t → NoLinksAlong fs₂ done t →
      (∀ fuel, fs₁.resolve fuel (done ++ t) rel = fs₂.resolve fuel (done ++ t) rel) →
      ∀ fuel, fs₁.resolve fuel done (t ++ rel) = fs₂.resolve fuel done (t ++ rel)
  | [], done, _, _, h, fuel => by simpa using h fuel
  | c :: t, done, h₁, h₂, h, fuel => by
    cases fuel with
    | zero => rfl
    | succ m =>
      obtain ⟨hc, n₁, hl₁, hn₁⟩ := h₁.head
      obtain ⟨_, n₂, hl₂, hn₂⟩ := h₂.head
      rw [List.cons_append, resolve_step_plain hc hl₁ hn₁, resolve_step_plain hc hl₂ hn₂]
      apply c18e_resolve_through_congr fs₁ fs₂ rel t (done ++ [c]) h₁.tail h₂.tail
      intro f
      have := h f
      simpa using this

/-- `EvalSymlinks` of a path that opens beneath the root depends on the inside of the root only -/
theorem c18e_evalSymlinks_congr {root : Comps} {fs₁ fs₂ : FS} (h : sameInside root fs₁ fs₂)
    (hp₁ : RootPlain fs₁ root) (hp₂ : RootPlain fs₂ root) (rel : List String) (real : Comps)
    (hw : fs₁.rootWalk root linkFuel 0 root rel = .ok real) :
    fs₁.evalSymlinks (root ++ rel) = fs₂.evalSymlinks (root ++ rel) := by
  unfold FS.evalSymlinks
  apply c18e_resolve_through_congr fs₁ fs₂ rel root [] (c18e_noLinksAlong_root hp₁)
    (c18e_noLinksAlong_root hp₂)
  intro fuel
  rw [List.nil_append]
  exact c18e_resolve_congr fs₁ fs₂ root (c18e_agreeInside_of_sameInside h) linkFuel root rel real hw
    (List.prefix_refl _) fuel

/-- a file that `loadFile` opened lies lexically inside the root, and the walk succeeded -/
theorem c18e_loadFile_ok {fs : FS} {cfg : RootCfg} {path : Comps} {id : String} {docs : List Val}
    (h : loadFile fs cfg path id = .ok docs) :
    path = cfg.root ++ relTo cfg.root path ∧
      ∃ real, fs.rootWalk cfg.root linkFuel 0 cfg.root (relTo cfg.root path) = .ok real := by
  rw [loadFile_eq] at h
  split at h
  · rw [rootOpen_eq] at h
    cases hw : fs.rootWalk cfg.root linkFuel 0 cfg.root (relTo cfg.root path) with
    | error e => rw [hw] at h; cases h
    | ok real =>
      refine ⟨?_, real, rfl⟩
      by_cases hpre : cfg.root <+: path
      · obtain ⟨t, rfl⟩ := hpre
        rw [relTo_append]
      · exfalso
        have hr : cfg.root ≠ [] := by
          intro e; rw [e] at hpre; exact hpre List.nil_prefix
        have hh := relTo_strip_outside cfg.root path hpre hr
        change (relTo cfg.root path).head? = some ".." at hh
        cases hrel : relTo cfg.root path with
        | nil => rw [hrel] at hh; cases hh
        | cons a rest =>
          rw [hrel] at hh hw
          simp only [List.head?_cons, Option.some.injEq] at hh
          subst hh
          have : fs.rootWalk cfg.root linkFuel 0 cfg.root (".." :: rest) = .error .other :=
            rootWalk_dotdot_at_root fs cfg.root 4095 rest
          rw [this] at hw
          cases hw
  · cases h

/-- the consequence wanted for `fileParents`: after a successful `loadFile`, `EvalSymlinks` of
    the same path gives the same answer in both file systems -/
theorem c18e_evalSymlinks_loaded {fs₁ fs₂ : FS} {cfg : RootCfg} (h : sameInside cfg.root fs₁ fs₂)
    (hp₁ : RootPlain fs₁ cfg.root) (hp₂ : RootPlain fs₂ cfg.root) {path : Comps} {id : String}
    {docs : List Val} (hl : loadFile fs₁ cfg path id = .ok docs) :
    fs₁.evalSymlinks path = fs₂.evalSymlinks path := by
  obtain ⟨hpath, real, hw⟩ := c18e_loadFile_ok hl
  rw [hpath]
  exact c18e_evalSymlinks_congr h hp₁ hp₂ _ real hw

/-! ## (d) `fileParents`, the loader, the merge and the command line -/

theorem c18e_fromName_congr {fs₁ fs₂ : FS} {cfg : RootCfg} (h : sameInside cfg.root fs₁ fs₂)
    (p : Comps) : fromName fs₁ cfg p = fromName fs₂ cfg p := by
  unfold fromName
  simp only [c18e_findRooted_congr h]

theorem c18e_globName_congr {fs₁ fs₂ : FS} {cfg : RootCfg} (h : sameInside cfg.root fs₁ fs₂)
    (path : Comps) (n : String) : globName fs₁ cfg path n = globName fs₂ cfg path n := by
  unfold globName
  exact c18e_globFiles_congr h _

theorem c18e_globStep_congr {fs₁ fs₂ : FS} {cfg : RootCfg} (h : sameInside cfg.root fs₁ fs₂)
    (path : Comps) : globStep fs₁ cfg path = globStep fs₂ cfg path := by
  funext acc n
  unfold globStep
  rw [c18e_globName_congr h]

theorem c18e_fileParents_congr {fs₁ fs₂ : FS} {cfg : RootCfg} (h : sameInside cfg.root fs₁ fs₂)
    (hp₁ : RootPlain fs₁ cfg.root) (hp₂ : RootPlain fs₂ cfg.root) {path : Comps} {id : String}
    {raw : List Val} (hl : loadFile fs₁ cfg path id = .ok raw) (docs : List Val) :
    fileParents fs₁ cfg path docs = fileParents fs₂ cfg path docs := by
  rw [fileParents_eq, fileParents_eq, c18e_globStep_congr h, c18e_evalSymlinks_loaded h hp₁ hp₂ hl]
  cases docs.mapM parentDirective with
  | error e => rfl
  | ok dirs =>
    simp only []
    cases fs₂.evalSymlinks path with
    | none => rfl
    | some dest => simp only [c18e_fromName_congr h]

theorem c18e_loadSubs_congr {fs₁ fs₂ : FS} {cfg : RootCfg} {fuel : Nat}
    (ih : ∀ p c ids chain, loadFileAndParents fs₁ cfg fuel p c ids chain =
      loadFileAndParents fs₂ cfg fuel p c ids chain)
    (fid : String) (dids : List String) (chain : List Comps) :
    ∀ (ps : List Comps) (acc : List LFile),
      loadSubs fs₁ cfg fuel fid dids chain ps acc = loadSubs fs₂ cfg fuel fid dids chain ps acc
  | [], acc => rfl
  | p :: ps, acc => by
    rw [loadSubs, loadSubs, ih]
    cases loadFileAndParents fs₂ cfg fuel p (some fid) dids chain with
    | error e => rfl
    | ok r =>
      obtain ⟨fsub, x⟩ := r
      exact c18e_loadSubs_congr ih fid dids chain ps _

theorem c18e_load_congr {fs₁ fs₂ : FS} {cfg : RootCfg} (h : sameInside cfg.root fs₁ fs₂)
    (hp₁ : RootPlain fs₁ cfg.root) (hp₂ : RootPlain fs₂ cfg.root) :
    ∀ (fuel : Nat) (path : Comps) (childId : Option String) (childDocIds : List String)
      (chain : List Comps),
      loadFileAndParents fs₁ cfg fuel path childId childDocIds chain =
        loadFileAndParents fs₂ cfg fuel path childId childDocIds chain := by
  intro fuel
  induction fuel with
  | zero => intro path childId childDocIds chain; rfl
  | succ n ih =>
    intro path childId childDocIds chain
    rw [loadFileAndParents_succ, loadFileAndParents_succ]
    have hlf : loadFile fs₁ cfg path (fileIdOf childId path) =
        loadFile fs₂ cfg path (fileIdOf childId path) := by
      rw [loadFile_eq, loadFile_eq, rootOpen_eq, rootOpen_eq,
        c18e_rootWalk_congr h linkFuel cfg.root _ (List.prefix_refl _)]
      cases hw : fs₂.rootWalk cfg.root linkFuel 0 cfg.root (relTo cfg.root path) with
      | error e => rfl
      | ok real =>
        have hin := rootWalk_inside fs₂ cfg.root _ _ _ _ hw (List.prefix_refl _)
        simp only [c18e_agreeInside_of_sameInside h real hin]
    cases hl : loadFile fs₁ cfg path (fileIdOf childId path) with
    | error e => rw [← hlf, hl]
    | ok raw =>
      rw [← hlf, hl]
      simp only []
      rw [c18e_fileParents_congr h hp₁ hp₂ hl raw]
      cases fileParents fs₂ cfg path raw with
      | error e => rfl
      | ok parents =>
        simp only []
        rw [c18e_loadSubs_congr ih]

theorem c18e_mergeFileLayers_congr {fs₁ fs₂ : FS} {cfg : RootCfg} (h : sameInside cfg.root fs₁ fs₂)
    (hp₁ : RootPlain fs₁ cfg.root) (hp₂ : RootPlain fs₂ cfg.root) (st : PState) (path : Comps) :
    mergeFileLayers fs₁ cfg st path = mergeFileLayers fs₂ cfg st path := by
  rw [mergeFileLayers_eq, mergeFileLayers_eq, c18e_load_congr h hp₁ hp₂]

theorem c18e_loadFile_congr {fs₁ fs₂ : FS} {cfg : RootCfg} (h : sameInside cfg.root fs₁ fs₂)
    (path : Comps) (id : String) : loadFile fs₁ cfg path id = loadFile fs₂ cfg path id := by
  rw [loadFile_eq, loadFile_eq, rootOpen_eq, rootOpen_eq,
    c18e_rootWalk_congr h linkFuel cfg.root _ (List.prefix_refl _)]
  cases hw : fs₂.rootWalk cfg.root linkFuel 0 cfg.root (relTo cfg.root path) with
  | error e => rfl
  | ok real =>
    have hin := rootWalk_inside fs₂ cfg.root _ _ _ _ hw (List.prefix_refl _)
    simp only [c18e_agreeInside_of_sameInside h real hin]

theorem c18e_mergeFileAlone_congr {fs₁ fs₂ : FS} {cfg : RootCfg} (h : sameInside cfg.root fs₁ fs₂)
    (st : PState) (path : Comps) :
    mergeFileAlone fs₁ cfg st path = mergeFileAlone fs₂ cfg st path := by
  rw [mergeFileAlone_eq, mergeFileAlone_eq, c18e_loadFile_congr h]

theorem c18e_cliMerge_congr {fs₁ fs₂ : FS} {cfg : RootCfg} (cwd : Comps) (sp : Bool)
    (h : sameInside cfg.root fs₁ fs₂)
    (hp₁ : RootPlain fs₁ cfg.root) (hp₂ : RootPlain fs₂ cfg.root) :
    ∀ (inputs : List String) (acc : PState × Option String),
      (∀ inp ∈ inputs, fileMatch fs₁ cwd inp = fileMatch fs₂ cwd inp) →
      cliMerge fs₁ cwd cfg sp acc inputs = cliMerge fs₂ cwd cfg sp acc inputs
  | [], acc, _ => rfl
  | inp :: rest, acc, hm => by
    have hstep : cliStep fs₁ cwd cfg sp acc inp = cliStep fs₂ cwd cfg sp acc inp := by
      unfold cliStep
      rw [hm inp List.mem_cons_self]
      cases fileMatch fs₂ cwd inp with
      | error e => rfl
      | ok rf =>
        obtain ⟨real, f⟩ := rf
        simp only [c18e_mergeFileLayers_congr h hp₁ hp₂, c18e_mergeFileAlone_congr h]
    rw [cliMerge, cliMerge, hstep]
    cases cliStep fs₂ cwd cfg sp acc inp with
    | error e => rfl
    | ok acc' =>
      exact c18e_cliMerge_congr cwd sp h hp₁ hp₂ rest acc'
        (fun i hi => hm i (List.mem_cons_of_mem _ hi))

/-! ## adding entries outside the root -/

theorem c18e_not_isPrefixOf {root p : Comps} (h : ¬ root <+: p) : root.isPrefixOf p = false := by
  cases hx : root.isPrefixOf p with
  | false => rfl
  | true => exact absurd (List.isPrefixOf_iff_prefix.1 hx) h

theorem c18e_filter_outside (root : Comps) (extra : List (Comps × FNode))
    (h : ∀ e ∈ extra, ¬ root <+: e.1) : extra.filter (fun e => root.isPrefixOf e.1) = [] := by
  rw [List.filter_eq_nil_iff]
  intro e he
  rw [c18e_not_isPrefixOf (h e he)]
  simp

theorem c18e_sameInside_append (fs : FS) (root : Comps) (extra : List (Comps × FNode))
    (h : ∀ e ∈ extra, ¬ root <+: e.1) :
    sameInside root fs { entries := fs.entries ++ extra } := by
  unfold sameInside FS.inside
  rw [List.filter_append, c18e_filter_outside root extra h, List.append_nil]

theorem c18e_sameInside_prepend (fs : FS) (root : Comps) (extra : List (Comps × FNode))
    (h : ∀ e ∈ extra, ¬ root <+: e.1) :
    sameInside root fs { entries := extra ++ fs.entries } := by
  unfold sameInside FS.inside
  rw [List.filter_append, c18e_filter_outside root extra h, List.nil_append]

theorem c18e_lstat_append_of_some (fs : FS) (extra : List (Comps × FNode)) (p : Comps) (n : FNode)
    (h : fs.lstat p = some n) : FS.lstat { entries := fs.entries ++ extra } p = some n := by
  unfold FS.lstat at h ⊢
  by_cases hp : p.isEmpty = true
  · rw [if_pos hp] at h ⊢; exact h
  · rw [if_neg hp] at h ⊢
    rw [List.find?_append]
    cases hf : fs.entries.find? (·.1 == p) with
    | none => rw [hf] at h; cases h
    | some e => rw [hf] at h; simpa using h

theorem c18e_lstat_prepend_of_ne (fs : FS) (extra : List (Comps × FNode)) (p : Comps)
    (h : ∀ e ∈ extra, e.1 ≠ p) : FS.lstat { entries := extra ++ fs.entries } p = fs.lstat p := by
  unfold FS.lstat
  by_cases hp : p.isEmpty = true
  · rw [if_pos hp, if_pos hp]
  · rw [if_neg hp, if_neg hp, List.find?_append]
    have : extra.find? (·.1 == p) = none := by
      rw [List.find?_eq_none]
      intro e he
      simpa using h e he
    rw [this]; rfl

theorem c18e_rootPlain_append {fs : FS} {root : Comps} (h : RootPlain fs root)
    (extra : List (Comps × FNode)) : RootPlain { entries := fs.entries ++ extra } root :=
  ⟨h.1, fun p hne hp => c18e_lstat_append_of_some fs extra p .dir (h.2 p hne hp)⟩

theorem c18e_rootPlain_prepend {fs : FS} {root : Comps} (h : RootPlain fs root)
    (extra : List (Comps × FNode)) (hx : ∀ e ∈ extra, ¬ e.1 <+: root) :
    RootPlain { entries := extra ++ fs.entries } root :=
  ⟨h.1, fun p hne hp => by
    rw [c18e_lstat_prepend_of_ne fs extra p (fun e he heq => hx e he (heq ▸ hp))]
    exact h.2 p hne hp⟩

/-! ## checking `RootPlain` on a concrete file system -/

/-- `RootPlain` as a computation: the components are plain and every `take (i+1)` is a directory -/
def rootPlainB (fs : FS) (root : Comps) : Bool :=
  root.all plainComp &&
    (List.range root.length).all fun i =>
      match fs.lstat (root.take (i + 1)) with
      | some .dir => true
      | _ => false

theorem c18e_rootPlain_of_B {fs : FS} {root : Comps} (h : rootPlainB fs root = true) :
    RootPlain fs root := by
  unfold rootPlainB at h
  rw [Bool.and_eq_true, List.all_eq_true, List.all_eq_true] at h
  refine ⟨h.1, ?_⟩
  intro p hne hp
  have hlen : p.length ≤ root.length := hp.length_le
  have hpos : 0 < p.length := List.length_pos_iff.2 hne
  have := h.2 (p.length - 1) (List.mem_range.2 (by omega))
  rw [show p.length - 1 + 1 = p.length by omega, ← List.prefix_iff_eq_take.1 hp] at this
  cases hl : fs.lstat p with
  | none => rw [hl] at this; cases this
  | some nd =>
    rw [hl] at this
    cases nd with
    | dir => rfl
    | file _ => cases this
    | link _ => cases this

/-! ## a sample load -/

theorem c18e_exFS_load_a (id : String) :
    loadFile exFS ⟨["w", "r"], ["w", "r"]⟩ ["w", "r", "a.yaml"] id = .ok [.map [("x", .int 1)]] := by
  rw [loadFile_eq]
  have h1 : supportedExts.contains (extOf (baseOf ["w", "r", "a.yaml"])) = true := by
    rw [extOf_eq]; decide
  rw [h1, if_pos rfl, rootOpen_eq]
  have h2 : exFS.rootWalk ["w", "r"] linkFuel 0 ["w", "r"] (relTo ["w", "r"] ["w", "r", "a.yaml"]) =
      .ok ["w", "r", "a.yaml"] := by decide
  simp only [h2]
  rfl

end Bkl
